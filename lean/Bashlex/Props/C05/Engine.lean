/-
  C05, part 4: the stack invariant of the LR engine for leaves, and its closure under the
  engine's moves for the real hooks.

  `Acc (sym, v) ts`: the stack entry `v` (entered under the grammar symbol `sym`) accounts for
  the consumed tokens `ts`.  Along the stack the token lists, concatenated, are the tokens
  consumed so far, in order -- which is what the ghost log of the token source (`TokLog`) says
  was delivered, minus the look-ahead.  The span invariant of C03 runs alongside: it is what
  `Done` (the final spans and bodies of here-document redirects) comes from.
-/
import Bashlex.Props.C05.Grammar
import Bashlex.LR.SoundOrdH

namespace Bashlex.C05
open Bashlex Bashlex.Spec Bashlex.Node Bashlex.M Bashlex.LR Bashlex.C12 Bashlex.C03
set_option linter.unusedSimpArgs false
set_option linter.unusedVariables false

/-- the tokens a stack entry accounts for.  Entries of `timespec` account for TIME / TIMEOPT /
    TIMEIGN tokens only; an `inputunit` entry holds `None` (with a node `p_inputunit` accepts) -/
def Acc (x : Nat × SVal) (ts : List Token) : Prop :=
  AccV x.2 ts ∧ (x.1 = timespecSym → ts ≠ [] ∧ ∀ t ∈ ts, IsTimeTok t) ∧ (x.1 = iuSym → x.2 = .none) ∧
  (∀ t, x.2 = .tok t → x.1 = symOfTok t) ∧ (notTok x.2 → NoEOF ts)

/-- the tokens the arguments of a reduction account for are not end-of-input tokens: `$end`
    occurs in no right-hand side -/
theorem noEOF_flat : ∀ {args : List (Nat × SVal)} {tss : List (List Token)},
    Forall2 Acc args tss → (∀ x ∈ args, x.1 ≠ eofSym) → NoEOF tss.flatten := by
  intro args tss h
  induction h with
  | nil => intro _ t ht; simp at ht
  | @cons x ts xs tss' h1 _ ih =>
    intro hs t ht
    simp only [List.flatten_cons, List.mem_append] at ht
    rcases ht with ht | ht
    · obtain ⟨sym, v⟩ := x
      cases v with
      | tok t0 =>
        have e : ts = [t0] := h1.1
        subst e
        simp only [List.mem_singleton] at ht
        subst ht
        intro hty
        have h3 := h1.2.2.2.1 t rfl
        have h4 := hs (sym, .tok t) List.mem_cons_self
        simp only at h3 h4
        rw [h3] at h4
        exact h4 (symOfTok_eof hty)
      | none => exact h1.2.2.2.2 (fun _ h => by cases h) t ht
      | node n => exact h1.2.2.2.2 (fun _ h => by cases h) t ht
      | nodes l => exact h1.2.2.2.2 (fun _ h => by cases h) t ht
    · exact ih (fun y hy => hs y (List.mem_cons_of_mem _ hy)) t ht

theorem forall2_accV : ∀ {args : List (Nat × SVal)} {tss : List (List Token)},
    Forall2 Acc args tss → Forall2 AccV (args.map (·.2)) tss := by
  intro args tss h
  induction h with
  | nil => exact .nil
  | cons h1 _ ih => exact .cons h1.1 ih

/-- what an action's result is to the tokens its arguments account for -/
def PostL (lhs : Nat) (tss : List (List Token)) (r : SVal × Bool) : Prop :=
  (∀ n, r.1 = .node n → Covers tss.flatten (aleaves n)) ∧
  (r.2 = false → Acc (lhs, r.1) tss.flatten) ∧ NoEOF tss.flatten

/-! ## from the grammar checks to facts about the arguments -/

theorem vals_all {P : Srt → Bool} {Q : SVal → Prop}
    (hPQ : ∀ σ v, P σ = true → HasSort σ v → Q v) {sorts : List Srt} {vals : List SVal}
    (ha : Forall2 HasSort sorts vals) (hs : sorts.all P = true) : ∀ v ∈ vals, Q v :=
  forall2_all hPQ ha hs

theorem head_none {sorts : List Srt} {vals : List SVal} (hs : headNoneB sorts = true)
    (ha : Forall2 HasSort sorts vals) : ∀ x xs, vals = x :: xs → x = SVal.none := by
  intro x xs hv
  subst hv
  cases ha with
  | cons h1 h2 => exact none_of_isNoneS hs h1

theorem head2_none {sorts : List Srt} {vals : List SVal} (hs : head2NoneB sorts = true)
    (ha : Forall2 HasSort sorts vals) : ∀ x y, vals = [x, y] → x = SVal.none := by
  intro x y hv
  subst hv
  cases ha with
  | cons h1 h2 =>
    cases h2 with
    | cons h3 h4 =>
      cases h4
      exact none_of_isNoneS hs h1

theorem drop2_none {sorts : List Srt} {vals : List SVal} (hs : drop2B sorts = true)
    (ha : Forall2 HasSort sorts vals) : ∀ v ∈ vals.drop 2, v = SVal.none :=
  vals_all (fun _ _ h1 h2 => none_of_isNoneS h1 h2) (forall2_drop 2 ha) hs

theorem mid_none {sorts : List Srt} {vals : List SVal} (hs : midB sorts = true)
    (ha : Forall2 HasSort sorts vals) : ∀ v ∈ (vals.drop 2).dropLast, v = SVal.none :=
  vals_all (fun _ _ h1 h2 => none_of_isNoneS h1 h2) (forall2_dropLast (forall2_drop 2 ha)) hs

theorem all_dropV {sorts : List Srt} {vals : List SVal} (hs : sorts.all dropS = true)
    (ha : Forall2 HasSort sorts vals) : ∀ v ∈ vals, DropV v :=
  vals_all (fun _ _ h1 h2 => dropV_of_sort h1 h2) ha hs

theorem semicolon_value {t : Token} (hty : t.ttype = some .SEMICOLON) (hwf : TokWF t) :
    t.value = .str [';'] := by
  obtain ⟨s, hv, _, hs⟩ := tok_str hty hwf rfl
  have := hs [';'] rfl
  rw [hv, ← this]

theorem list_terminator_facts {sorts : List Srt} {vals : List SVal} (hs : ltermB sorts = true)
    (ha : Forall2 HasSort sorts vals) :
    ∃ t, vals = [.tok t] ∧ (t.value ≠ .str [';'] → Droppable t) := by
  unfold ltermB at hs
  split at hs
  · rename_i ty
    obtain ⟨a, rfl, ⟨t, rfl, hty, hwf⟩⟩ := forall2_1 ha
    refine ⟨t, rfl, ?_⟩
    simp only [Bool.or_eq_true, beq_iff_eq] at hs
    rcases hs with rfl | rfl
    · exact fun _ => Or.inl hty
    · exact fun h => absurd (semicolon_value hty hwf) h
  · obtain ⟨a, rfl, ⟨t, rfl, hty, hwf⟩⟩ := forall2_1 ha
    exact ⟨t, rfl, fun _ => Or.inr hty⟩
  · cases hs

theorem time_flat : ∀ {vals : List SVal} {tss : List (List Token)}, Forall2 AccV vals tss →
    (∀ v ∈ vals, ∃ t, v = SVal.tok t ∧ IsTimeTok t) →
    (∀ t ∈ tss.flatten, IsTimeTok t) ∧ (vals ≠ [] → tss.flatten ≠ []) := by
  intro vals tss h
  induction h with
  | nil => intro _; exact ⟨(by intro t ht; simp at ht), fun h => absurd rfl h⟩
  | @cons v ts vs tss' h1 _ ih =>
    intro hv
    obtain ⟨t, rfl, ht⟩ := hv v List.mem_cons_self
    have e : ts = [t] := h1
    subst e
    obtain ⟨ih1, _⟩ := ih (fun v' hv' => hv v' (List.mem_cons_of_mem _ hv'))
    refine ⟨?_, fun _ => by simp⟩
    intro t' ht'
    simp only [List.flatten_cons, List.singleton_append, List.mem_cons] at ht'
    rcases ht' with rfl | ht'
    · exact ht
    · exact ih1 t' ht'

/-! ## the dispatch -/

/-- **every semantic action accounts for the tokens of its arguments** -/
theorem act_leaves {np : NestedParse} {p lhs : Nat} {rhs : List Nat} {args : List (Nat × SVal)}
    {tss : List (List Token)}
    (hprod : realTables.prods[p]? = some (lhs, rhs)) (hargs : args.map (·.1) = rhs) {σ : Srt}
    (hab : absAction (fn p) (rhs.map sortOfSymbol) = some σ)
    (ha : Forall2 HasSort (rhs.map sortOfSymbol) (args.map (·.2)))
    (hacc : Forall2 Acc args tss) :
    Sat (actionCore np (fn p) (args.map (·.2))) (PostL lhs tss) := by
  have hW := wordPos np
  have hk := leaf_ok hprod
  have hk3 := C03.prod_ok hprod
  generalize hf : fn p = fname at hab hk hk3
  unfold leafOK at hk
  simp only [Bool.and_eq_true, Bool.or_eq_true, bne_iff_ne, ne_eq, beq_iff_eq] at hk
  obtain ⟨⟨⟨⟨⟨⟨⟨⟨⟨⟨⟨⟨⟨⟨⟨k_iu, k_list⟩, k_pl⟩, k_cl⟩, k_l0⟩, k_l1⟩, k_sl1⟩, k_pipe⟩, k_slt⟩, k_nl⟩,
    k_empty⟩, k_lt⟩, k_time⟩, hkt⟩, hki⟩, hkp⟩ := hk
  have haV := forall2_accV hacc
  have hne : NoEOF tss.flatten := noEOF_flat hacc (C03.syms_of_prodOK hk3 hargs).1
  have fin : fname ≠ "p_timespec" → fname ≠ "p_inputunit" →
      ∀ r, LPost (args.map (·.2)) r → PostL lhs tss r := by
    intro h1 h2 r hr
    have hcov := hr.2 tss haV
    refine ⟨fun n hn => by rw [hn] at hcov; exact hcov, fun _ => ⟨accV_of_covers hr.1 hcov, ?_, ?_,
      fun t ht => absurd ht (hr.1 t), fun _ => hne⟩, hne⟩
    · intro hl
      rcases hkt with h | h
      · exact absurd hl h
      · exact absurd h h1
    · intro hl
      rcases hki with h | h
      · exact absurd hl h
      · exact absurd h h2
  have gen : fname ≠ "p_timespec" → fname ≠ "p_inputunit" →
      Sat (actionCore np fname (args.map (·.2))) (LPost (args.map (·.2))) →
      Sat (actionCore np fname (args.map (·.2))) (PostL lhs tss) :=
    fun h1 h2 hs => hs.weaken (fin h1 h2) (fun _ h => h)
  unfold absAction at hab
  split at hab
  · -- p_inputunit
    have hks' := k_iu.resolve_left (fun h => h rfl)
    unfold iuB at hks'
    have foo := lv_inputunit (np := np) (args := args.map (·.2))
    suffices bar : ∀ r : SVal × Bool,
        ((r = (.none, false) ∧ ∀ n, (args.map (·.2)).head? ≠ some (.node n)) ∨
          ∃ n, r = (.node n, true) ∧ (args.map (·.2)).head? = some (.node n)) → PostL lhs tss r from
      foo.weaken bar (fun _ h => h)
    rintro r (⟨rfl, hnn⟩ | ⟨n, rfl, hn⟩)
    · refine ⟨fun n hn => (by cases hn), fun _ => ⟨?_, ?_, fun _ => rfl, fun t ht => (by cases ht),
        fun _ => hne⟩, hne⟩
      · show Covers tss.flatten []
        rw [Bool.or_eq_true] at hks'
        rcases hks' with h | h
        · exact covers_allDrop haV (all_dropV h ha)
        · exfalso
          split at h
          · rename_i c s hsorts
            rw [hsorts] at ha
            obtain ⟨x, y, hv, ⟨n, rfl, _⟩, _⟩ := forall2_2 ha
            exact hnn n (by rw [hv]; rfl)
          · cases h
      · intro hl
        rcases hkt with h | h
        · exact absurd hl h
        · exact absurd h (by decide)
    · refine ⟨?_, fun h => (by cases h), hne⟩
      intro n' hn'
      cases hn'
      rw [Bool.or_eq_true] at hks'
      rcases hks' with h | h
      · exfalso
        have hd := all_dropV h ha (.node n) (List.mem_of_mem_head? hn)
        rcases hd with hd | ⟨t, hd, _⟩ <;> cases hd
      · split at h
        · rename_i c s hsorts
          rw [hsorts] at ha
          obtain ⟨x, y, hv, ⟨n', rfl, _⟩, hy⟩ := forall2_2 ha
          rw [hv] at hn haV
          simp only [List.head?_cons, Option.some.injEq, SVal.node.injEq] at hn
          subst hn
          obtain ⟨t1, t2, rfl, h1, h2⟩ := forall2_2 haV
          have c1 : Covers t1 (aleaves n') := h1
          have c2 := h2.drop (dropV_of_sort h hy)
          have := Covers.append c1 c2
          simpa using this
        · cases h
  · exact gen (by decide) (by decide) (lv_word_list hW hab ha)
  · exact gen (by decide) (by decide) (lv_redirection_heredoc hab ha)
  · exact gen (by decide) (by decide) (lv_redirection hab ha)
  · exact gen (by decide) (by decide) (lv_simple_command_element hW hab ha)
  · exact gen (by decide) (by decide) (lv_redirection_list hab ha)
  · exact gen (by decide) (by decide) (lv_simple_command hab ha)
  · exact gen (by decide) (by decide) (lv_command hab ha)
  · exact gen (by decide) (by decide) (lv_shell_command hW hab ha)
  · exact gen (by decide) (by decide) (lv_for_command hW)
  · exact gen (by decide) (by decide) (lv_arith_for_command hW)
  · exact gen (by decide) (by decide) (lv_select_command hW)
  · exact gen (by decide) (by decide) (lv_case_command hW)
  · exact gen (by decide) (by decide) (lv_function_def hW)
  · exact gen (by decide) (by decide) (lv_function_body hab ha)
  · exact gen (by decide) (by decide) (lv_subshell hab ha)
  · exact gen (by decide) (by decide) (lv_group_command hab ha)
  · exact gen (by decide) (by decide) (lv_coproc hW)
  · exact gen (by decide) (by decide) (lv_if_command hW)
  · exact gen (by decide) (by decide) (lv_arith_command hW)
  · exact gen (by decide) (by decide) (lv_cond_command hW)
  · exact gen (by decide) (by decide) (lv_elif_clause (C03.elif_facts hk3 ha).1)
  · exact gen (by decide) (by decide) (lv_case_clause hab ha)
  · exact gen (by decide) (by decide) (lv_pattern_list hab ha (head_none (k_pl.resolve_left (fun h => h rfl)) ha))
  · exact gen (by decide) (by decide) (lv_case_clause_sequence hab ha)
  · exact gen (by decide) (by decide) (lv_pattern hW hab ha)
  · exact gen (by decide) (by decide) (lv_list hab ha (head_none (k_list.resolve_left (fun h => h rfl)) ha))
  · exact gen (by decide) (by decide) (lv_compound_list hab ha (head2_none (k_cl.resolve_left (fun h => h rfl)) ha))
  · exact gen (by decide) (by decide) (lv_list0 hab ha (drop2_none (k_l0.resolve_left (fun h => h rfl)) ha))
  · exact gen (by decide) (by decide) (lv_list1 hab ha (mid_none (k_l1.resolve_left (fun h => h rfl)) ha))
  · exact gen (by decide) (by decide) (lv_simple_list_terminator (all_dropV (k_slt.resolve_left (fun h => h rfl)) ha))
  · obtain ⟨t, hv, hd⟩ := list_terminator_facts (k_lt.resolve_left (fun h => h rfl)) ha
    exact gen (by decide) (by decide) (lv_list_terminator hv hd)
  · exact gen (by decide) (by decide) (lv_newline_list (all_dropV (k_nl.resolve_left (fun h => h rfl)) ha))
  · exact gen (by decide) (by decide) (lv_simple_list hab ha)
  · exact gen (by decide) (by decide) (lv_simple_list1 hab ha (mid_none (k_sl1.resolve_left (fun h => h rfl)) ha))
  · -- p_pipeline_command: a `time` specification in front becomes one leaf at (0, 0)
    have foo := lv_pipeline_command (np := np) hab ha (C03.pipeline_facts hk3 ha)
    suffices bar : ∀ r : SVal × Bool, LPostT (args.map (·.2)) r → PostL lhs tss r from
      foo.weaken bar (fun _ h => h)
    intro r hr
    have htime : ∀ n y ts0 rest, args.map (·.2) = [.node n, y] → tss = ts0 :: rest →
        ts0 ≠ [] ∧ ∀ t ∈ ts0, IsTimeTok t := by
      intro n y ts0 rest hv htss
      subst htss
      cases hacc with
      | @cons x _ xs _ h1 h2 =>
        obtain ⟨s1, v1⟩ := x
        simp only [List.map_cons, List.cons.injEq] at hv
        obtain ⟨hv1, hv2⟩ := hv
        have hv1' : v1 = .node n := hv1
        subst hv1'
        have hlen : rhs.length = 2 := by
          rw [← hargs]
          have : (List.map (·.2) xs).length = 1 := by rw [hv2]; rfl
          simp only [List.length_map] at this
          simp [this]
        have hhead : rhs.headD 0 = s1 := by rw [← hargs]; rfl
        rcases hkp with ((h | h) | h) | h
        · exact absurd rfl h
        · exact absurd hlen h
        · exfalso
          rw [hhead] at h
          have hs1 : HasSort (sortOfSymbol s1) (.node n) := by
            rw [← hargs] at ha
            cases ha with
            | cons h3 _ => exact h3
          cases hs : sortOfSymbol s1 with
          | tok ty => rw [hs] at hs1; obtain ⟨t, ht, _⟩ := hs1; cases ht
          | _ => rw [hs] at h; cases h
        · rw [hhead] at h
          exact h1.2.1 h
    have hcov := hr.2 tss haV htime
    refine ⟨fun n hn => by rw [hn] at hcov; exact hcov, fun _ => ⟨accV_of_covers hr.1 hcov, ?_, ?_,
      fun t ht => absurd ht (hr.1 t), fun _ => hne⟩, hne⟩
    · intro hl
      rcases hkt with h | h
      · exact absurd hl h
      · exact absurd h (by decide)
    · intro hl
      rcases hki with h | h
      · exact absurd hl h
      · exact absurd h (by decide)
  · exact gen (by decide) (by decide) (lv_pipeline hab ha (mid_none (k_pipe.resolve_left (fun h => h rfl)) ha))
  · -- p_timespec: its tokens are TIME / TIMEOPT / TIMEIGN
    have hks' := k_time.resolve_left (fun h => h rfl)
    unfold timeB at hks'
    simp only [Bool.and_eq_true, Bool.not_eq_true', List.isEmpty_eq_false_iff] at hks'
    have foo := lv_timespec (np := np) (args := args.map (·.2)) hW
    suffices bar : ∀ r : SVal × Bool, LPost (args.map (·.2)) r → PostL lhs tss r from
      foo.weaken bar (fun _ h => h)
    intro r hr
    have hcov := hr.2 tss haV
    have htv := vals_all (fun _ _ h1 h2 => timeTok_of_sort h1 h2) ha hks'.2
    obtain ⟨ht1, ht2⟩ := time_flat haV htv
    have hne' : args.map (·.2) ≠ [] := by
      intro h
      have := forall2_length ha
      rw [h] at this
      exact hks'.1 (List.length_eq_zero_iff.mp this)
    refine ⟨fun n hn => by rw [hn] at hcov; exact hcov,
      fun _ => ⟨accV_of_covers hr.1 hcov, fun _ => ⟨ht2 hne', ht1⟩, ?_,
        fun t ht => absurd ht (hr.1 t), fun _ => hne⟩, hne⟩
    intro hl
    rcases hki with h | h
    · exact absurd hl h
    · exact absurd h (by decide)
  · have h0 : args.map (·.2) = [] := by
      have hks' := k_empty.resolve_left (fun h => h rfl)
      have := forall2_length ha
      rw [List.isEmpty_iff.mp hks'] at this
      exact List.length_eq_zero_iff.mp this.symm
    exact gen (by decide) (by decide) (lv_empty h0)
  · cases hab

end Bashlex.C05
