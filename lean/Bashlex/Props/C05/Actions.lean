/-
  C05, part 2: one lemma per action function of parser.py, in the state-agnostic logic: the
  leaves of the value an action builds are the leaves of its arguments, concatenated --
  possibly minus a dropped NEWLINE token, with the tokens of a redirection merged into one leaf,
  and with the D19 replacement of a `time` specification by a leaf at (0, 0).
  (The spans of inner nodes play no role: `_partsspan` and the redirect store are not read.)
-/
import Bashlex.Props.C05.Cover

namespace Bashlex.C05
open Bashlex Bashlex.Spec Bashlex.Node Bashlex.M Bashlex.LR Bashlex.C12
set_option linter.unusedSimpArgs false
set_option linter.unusedVariables false

/-! ## values -/

def valLeaves : SVal → List ALeaf
  | .none => []
  | .tok t => [.plain (tokSpan t) false]
  | .node n => aleaves n
  | .nodes l => aleavesL l

/-- the tokens a value on the stack accounts for: a raw token for itself; a built value for a
    token sequence covering its leaves -/
def AccV (v : SVal) (ts : List Token) : Prop :=
  match v with
  | .tok t => ts = [t]
  | v => Covers ts (valLeaves v)

theorem AccV.covers {v : SVal} {ts : List Token} (h : AccV v ts) : Covers ts (valLeaves v) := by
  cases v with
  | tok t =>
    have : ts = [t] := h
    subst this
    exact Covers.leaf t
  | none => exact h
  | node n => exact h
  | nodes l => exact h

theorem covers_flat : ∀ {args : List SVal} {tss : List (List Token)}, Forall2 AccV args tss →
    Covers tss.flatten (args.flatMap valLeaves) := by
  intro args tss h
  induction h with
  | nil => exact .nil
  | cons h1 _ ih =>
    simp only [List.flatten_cons, List.flatMap_cons]
    exact Covers.append h1.covers ih

def notTok (v : SVal) : Prop := ∀ t, v ≠ .tok t

theorem accV_of_covers {v : SVal} {ts : List Token} (hv : notTok v) (h : Covers ts (valLeaves v)) :
    AccV v ts := by
  cases v with
  | tok t => exact absurd rfl (hv t)
  | none => exact h
  | node n => exact h
  | nodes l => exact h

/-- what an action's result is to its arguments: whatever tokens the arguments account for,
    the result accounts for all of them, in order -/
def LPost (args : List SVal) (r : SVal × Bool) : Prop :=
  notTok r.1 ∧ ∀ tss, Forall2 AccV args tss → Covers tss.flatten (valLeaves r.1)

/-- the common case: the leaves of the result are the leaves of the arguments, concatenated -/
theorem lpost_cat {args : List SVal} {v : SVal} {b : Bool} (hv : notTok v)
    (h : valLeaves v = args.flatMap valLeaves) : LPost args (v, b) :=
  ⟨hv, fun tss ht => by rw [h]; exact covers_flat ht⟩

/-- a post-condition that holds of every value -/
theorem sat_any {α : Type} {m : M α} {P : α → Prop} (h : ∀ a, P a) : Sat m P :=
  (Sat.trivial m).weaken (fun a _ => h a) (fun _ h => h)

theorem notTok_none : notTok .none := fun _ h => by cases h
theorem notTok_node {n : Node} : notTok (.node n) := fun _ h => by cases h
theorem notTok_nodes {l : List Node} : notTok (.nodes l) := fun _ h => by cases h

theorem forall2_1' {R : SVal → List Token → Prop} {a : SVal} {l : List (List Token)}
    (h : Forall2 R [a] l) : ∃ x, l = [x] ∧ R a x := forall2_1 h

/-! ## word expansion: one word token, one leaf -/

def WordPos (np : NestedParse) : Prop :=
  ∀ t, Sat (expandword np t) (fun w => ∃ s ps, w = .word (tokSpan t) s ps)

theorem wordPos (np : NestedParse) : WordPos np := by
  intro tok
  unfold expandword
  simp only []
  refine Sat.bind_any (fun l => ?_)
  have hfin : ∀ qd, Sat (do
      let x ← expandwordinternal np tok qd
      pure (Node.word (tok.lexpos, tok.endlexpos) x.snd
        (if (l.limit == some 0) = true then List.filter (fun n => !isSubstitution n) x.fst
         else x.fst)) : M Node) (fun w => ∃ s ps, w = .word (tokSpan tok) s ps) :=
    fun qd => Sat.bind_any (fun r => Sat.pure ⟨_, _, rfl⟩)
  refine Sat.ite (fun _ => Sat.pure ⟨_, _, rfl⟩) (fun _ => ?_)
  refine Sat.ite (fun _ => ?_) (fun _ => Sat.bind_any (fun _ => hfin _))
  split
  · exact Sat.bind_any (fun _ => hfin _)
  · exact Sat.bind_any (fun _ => hfin _)

theorem aleaves_word {w : Node} {t : Token} (h : ∃ s ps, w = .word (tokSpan t) s ps) :
    aleaves w = [.plain (tokSpan t) false] := by
  obtain ⟨s, ps, rfl⟩ := h
  simp [aleaves]

/-! ## `_makeparts` -/

theorem sat_makeparts_leaves {np : NestedParse} (hW : WordPos np) (args : List SVal) :
    Sat (makeparts ⟨np, args⟩) (fun parts => aleavesL parts = args.flatMap valLeaves) := by
  unfold makeparts
  simp only [bind_pure]
  refine Sat.forIn_list
    (I := fun rest acc => aleavesL acc ++ rest.flatMap valLeaves = args.flatMap valLeaves)
    ?_ ?_ args [] (by simp)
  · rintro a rest b hI
    split
    · rename_i n
      refine Sat.pure ?_
      simpa [aleavesL_append, valLeaves, List.append_assoc] using hI
    · rename_i l
      refine Sat.pure ?_
      simpa [aleavesL_append, valLeaves, List.append_assoc] using hI
    · rename_i t
      split
      · refine Sat.bind (hW t) (fun w hw => Sat.pure ?_)
        simp only [aleavesL_append, aleavesL_single, aleaves_word hw]
        simpa [valLeaves, List.append_assoc] using hI
      · refine Sat.pure ?_
        simp only [aleavesL_append, aleavesL_single]
        simpa [valLeaves, aleaves, tokSpan, List.append_assoc] using hI
    · refine Sat.pure ?_
      simpa [valLeaves] using hI
  · intro b hb
    simpa using hb


/-! ## the concatenating actions -/

theorem lv_word_list {np : NestedParse} {sorts : List Srt} {args : List SVal} {σ : Srt}
    (hW : WordPos np) (h : absAction "p_word_list" sorts = some σ)
    (ha : Forall2 HasSort sorts args) :
    Sat (actionCore np "p_word_list" args) (LPost args) := by
  unfold absAction at h; simp only [] at h
  split at h
  · cases h
    obtain ⟨a, rfl, ⟨t, rfl, -, -⟩⟩ := forall2_1 ha
    unfold actionCore; simp only []
    simp [PCtx.len, PCtx.tokAt, PCtx.slice]
    refine Sat.map ((hW t).weaken (fun w hw => ?_) (fun _ h => h))
    exact lpost_cat notTok_nodes (by simp [valLeaves, aleaves_word hw])
  · cases h
    obtain ⟨a, b, rfl, ⟨l, rfl, hl⟩, ⟨t, rfl, -, -⟩⟩ := forall2_2 ha
    unfold actionCore; simp only []
    simp [PCtx.len, PCtx.tokAt, PCtx.slice, PCtx.nodesAt]
    refine Sat.map ((hW t).weaken (fun w hw => ?_) (fun _ h => h))
    exact lpost_cat notTok_nodes (by simp [valLeaves, aleavesL_append, aleaves_word hw])
  · cases h

theorem lv_redirection_list {np : NestedParse} {sorts : List Srt} {args : List SVal} {σ : Srt}
    (h : absAction "p_redirection_list" sorts = some σ)
    (ha : Forall2 HasSort sorts args) :
    Sat (actionCore np "p_redirection_list" args) (LPost args) := by
  unfold absAction at h; simp only [] at h
  split at h
  · cases h
    obtain ⟨a, rfl, ⟨n, rfl, -⟩⟩ := forall2_1 ha
    unfold actionCore; simp only []
    simp [PCtx.len, PCtx.nodeAt, PCtx.slice]
    exact Sat.pure (lpost_cat notTok_nodes (by simp [valLeaves]))
  · cases h
    obtain ⟨a, b, rfl, ⟨l, rfl, -⟩, ⟨n, rfl, -⟩⟩ := forall2_2 ha
    unfold actionCore; simp only []
    simp [PCtx.len, PCtx.nodeAt, PCtx.slice, PCtx.nodesAt]
    exact Sat.pure (lpost_cat notTok_nodes (by simp [valLeaves, aleavesL_append]))
  · cases h

theorem lv_simple_command {np : NestedParse} {sorts : List Srt} {args : List SVal} {σ : Srt}
    (h : absAction "p_simple_command" sorts = some σ)
    (ha : Forall2 HasSort sorts args) :
    Sat (actionCore np "p_simple_command" args) (LPost args) := by
  unfold absAction at h; simp only [] at h
  split at h
  · cases h
    obtain ⟨a, rfl, ⟨l, rfl, -⟩⟩ := forall2_1 ha
    unfold actionCore; simp only []
    simp [PCtx.len, PCtx.slice]
    exact Sat.pure (lpost_cat notTok_nodes (by simp [valLeaves]))
  · cases h
    obtain ⟨a, b, rfl, ⟨l, rfl, -⟩, ⟨r, rfl, -⟩⟩ := forall2_2 ha
    unfold actionCore; simp only []
    simp [PCtx.len, PCtx.slice, PCtx.nodesAt]
    exact Sat.pure (lpost_cat notTok_nodes (by simp [valLeaves, aleavesL_append]))
  · cases h

theorem lv_simple_command_element {np : NestedParse} {sorts : List Srt} {args : List SVal} {σ : Srt}
    (hW : WordPos np) (h : absAction "p_simple_command_element" sorts = some σ)
    (ha : Forall2 HasSort sorts args) :
    Sat (actionCore np "p_simple_command_element" args) (LPost args) := by
  unfold absAction at h; simp only [] at h
  split at h
  · cases h
    obtain ⟨a, rfl, ⟨n, rfl, -⟩⟩ := forall2_1 ha
    unfold actionCore; simp only []
    simp [PCtx.slice]
    exact Sat.pure (lpost_cat notTok_nodes (by simp [valLeaves]))
  · cases h
    obtain ⟨a, rfl, ⟨t, rfl, -, -⟩⟩ := forall2_1 ha
    unfold actionCore; simp only []
    simp [PCtx.slice, PCtx.tokAt]
    refine Sat.bind (hW t) (fun w hw => ?_)
    obtain ⟨s, ps, rfl⟩ := hw
    split
    · split
      · rename_i pos s' parts heq
        cases heq
        exact Sat.pure (lpost_cat notTok_nodes (by simp [valLeaves, aleaves]))
      · exact Sat.pure (lpost_cat notTok_nodes (by simp [valLeaves, aleaves]))
    · exact Sat.pure (lpost_cat notTok_nodes (by simp [valLeaves, aleaves]))
  · cases h

/-- `addRedirects`: the redirects are appended to the compound's -/
theorem sat_addRedirects_leaves (n : Node) (reds : List Node) :
    Sat (addRedirects n reds) (fun n' => aleaves n' = aleaves n ++ aleavesL reds) := by
  unfold addRedirects
  refine Sat.bind_any (fun _ => ?_)
  split
  · rename_i pos l r
    simp only []
    split
    · exact Sat.foreign trivial
    · refine Sat.bind_any (fun _ => Sat.bind_any (fun _ => Sat.pure ?_))
      simp [aleaves, aleavesL_append, List.append_assoc]
  · exact Sat.foreign trivial

theorem lv_command {np : NestedParse} {sorts : List Srt} {args : List SVal} {σ : Srt}
    (h : absAction "p_command" sorts = some σ)
    (ha : Forall2 HasSort sorts args) :
    Sat (actionCore np "p_command" args) (LPost args) := by
  unfold absAction at h; simp only [] at h
  split at h
  · split at h
    · cases h
      obtain ⟨a, rfl, ⟨n, rfl, -⟩⟩ := forall2_1 ha
      unfold actionCore; simp only []
      simp [PCtx.len, PCtx.slice]
      exact Sat.pure (lpost_cat notTok_node (by simp [valLeaves]))
    · cases h
  · cases h
    obtain ⟨a, b, rfl, ⟨n, rfl, -⟩, ⟨r, rfl, -⟩⟩ := forall2_2 ha
    unfold actionCore; simp only []
    simp [PCtx.len, PCtx.slice, PCtx.nodesAt]
    refine Sat.map ((sat_addRedirects_leaves n r).weaken (fun n' hn' => ?_) (fun _ h => h))
    exact lpost_cat notTok_node (by simp [valLeaves, hn'])
  · cases h
    obtain ⟨a, rfl, ⟨l, rfl, -⟩⟩ := forall2_1 ha
    unfold actionCore; simp only []
    simp [PCtx.len, PCtx.slice, PCtx.nodesAt]
    refine Sat.map (sat_any (fun sp => ?_))
    exact lpost_cat notTok_node (by simp [valLeaves, aleaves])
  · cases h

theorem lv_function_body {np : NestedParse} {sorts : List Srt} {args : List SVal} {σ : Srt}
    (h : absAction "p_function_body" sorts = some σ)
    (ha : Forall2 HasSort sorts args) :
    Sat (actionCore np "p_function_body" args) (LPost args) := by
  unfold absAction at h; simp only [] at h
  split at h
  · cases h
    obtain ⟨a, rfl, ⟨n, rfl, -⟩⟩ := forall2_1 ha
    unfold actionCore; simp only []
    simp [PCtx.len, PCtx.slice, PCtx.nodeAt]
    refine Sat.map (sat_any (fun _ => ?_))
    exact lpost_cat notTok_node (by simp [valLeaves])
  · cases h
    obtain ⟨a, b, rfl, ⟨n, rfl, -⟩, ⟨r, rfl, -⟩⟩ := forall2_2 ha
    unfold actionCore; simp only []
    simp [PCtx.len, PCtx.slice, PCtx.nodesAt, PCtx.nodeAt]
    refine Sat.bind_any (fun _ => ?_)
    refine Sat.map ((sat_addRedirects_leaves n r).weaken (fun n' hn' => ?_) (fun _ h => h))
    exact lpost_cat notTok_node (by simp [valLeaves, hn'])
  · cases h

theorem sat_mkCompound1_leaves {inner : Span → List Node → Node} {parts : List Node}
    (hin : ∀ sp, aleaves (inner sp parts) = aleavesL parts) :
    Sat (mkCompound1 inner parts) (fun v => notTok v ∧ valLeaves v = aleavesL parts) := by
  unfold mkCompound1
  refine Sat.bind_any (fun sp => Sat.pure ⟨notTok_node, ?_⟩)
  simp [valLeaves, aleaves, hin]

theorem lv_if_command {np : NestedParse} {args : List SVal} (hW : WordPos np) :
    Sat (actionCore np "p_if_command" args) (LPost args) := by
  unfold actionCore; simp only []
  refine Sat.bind (sat_makeparts_leaves hW args) (fun parts hparts => ?_)
  refine Sat.bind (sat_mkCompound1_leaves (inner := .ifN) (fun _ => by simp [aleaves]))
    (fun v hv => Sat.pure (lpost_cat hv.1 (by rw [hv.2, hparts])))

theorem lv_case_command {np : NestedParse} {args : List SVal} (hW : WordPos np) :
    Sat (actionCore np "p_case_command" args) (LPost args) := by
  unfold actionCore; simp only []
  refine Sat.bind (sat_makeparts_leaves hW args) (fun parts hparts => ?_)
  refine Sat.bind (sat_mkCompound1_leaves (inner := .caseN) (fun _ => by simp [aleaves]))
    (fun v hv => Sat.pure (lpost_cat hv.1 (by rw [hv.2, hparts])))

theorem fix_leaves : ∀ (l : List Node), aleavesL (actionCore.fix l) = aleavesL l
  | [] => by simp [actionCore.fix]
  | n :: ns => by
    cases n with
    | operator pos op =>
      simp only [actionCore.fix]
      split
      · simp [aleaves]
      · simp [aleaves, fix_leaves ns]
    | _ => simp [actionCore.fix, fix_leaves ns]

theorem lv_for_command {np : NestedParse} {args : List SVal} (hW : WordPos np) :
    Sat (actionCore np "p_for_command" args) (LPost args) := by
  unfold actionCore; simp only []
  refine Sat.bind (sat_makeparts_leaves hW args) (fun parts hparts => ?_)
  refine Sat.bind (sat_mkCompound1_leaves (inner := .forN) (fun _ => by simp [aleaves]))
    (fun v hv => Sat.pure (lpost_cat hv.1 (by rw [hv.2, fix_leaves, hparts])))

theorem lv_function_def {np : NestedParse} {args : List SVal} (hW : WordPos np) :
    Sat (actionCore np "p_function_def" args) (LPost args) := by
  unfold actionCore; simp only []
  refine Sat.bind (sat_makeparts_leaves hW args) (fun parts hparts => ?_)
  split
  · exact Sat.foreign trivial
  · refine Sat.bind_any (fun sp => Sat.pure ?_)
    exact lpost_cat notTok_node (by simp [valLeaves, aleaves, hparts])

theorem sat_notImplemented_leaves {np : NestedParse} {args : List SVal} {ty : String}
    (hW : WordPos np) :
    Sat (handleNotImplemented ⟨np, args⟩ ty) (fun v => LPost args (v, false)) := by
  unfold handleNotImplemented
  refine Sat.bind_any (fun b => ?_)
  split
  · refine Sat.bind (sat_makeparts_leaves hW args) (fun parts hparts => ?_)
    refine Sat.bind_any (fun sp => Sat.pure ?_)
    exact lpost_cat notTok_node (by simp [valLeaves, aleaves, hparts])
  · exact Sat.raise trivial


theorem lv_arith_for_command {np : NestedParse} {args : List SVal} (hW : WordPos np) :
    Sat (actionCore np "p_arith_for_command" args) (LPost args) := by
  unfold actionCore; simp only []
  exact Sat.bind (sat_notImplemented_leaves hW) (fun v hv => Sat.pure hv)

theorem lv_select_command {np : NestedParse} {args : List SVal} (hW : WordPos np) :
    Sat (actionCore np "p_select_command" args) (LPost args) := by
  unfold actionCore; simp only []
  exact Sat.bind (sat_notImplemented_leaves hW) (fun v hv => Sat.pure hv)

theorem lv_coproc {np : NestedParse} {args : List SVal} (hW : WordPos np) :
    Sat (actionCore np "p_coproc" args) (LPost args) := by
  unfold actionCore; simp only []
  exact Sat.bind (sat_notImplemented_leaves hW) (fun v hv => Sat.pure hv)

theorem lv_arith_command {np : NestedParse} {args : List SVal} (hW : WordPos np) :
    Sat (actionCore np "p_arith_command" args) (LPost args) := by
  unfold actionCore; simp only []
  exact Sat.bind (sat_notImplemented_leaves hW) (fun v hv => Sat.pure hv)

theorem lv_cond_command {np : NestedParse} {args : List SVal} (hW : WordPos np) :
    Sat (actionCore np "p_cond_command" args) (LPost args) := by
  unfold actionCore; simp only []
  exact Sat.bind (sat_notImplemented_leaves hW) (fun v hv => Sat.pure hv)

theorem lv_timespec {np : NestedParse} {args : List SVal} (hW : WordPos np) :
    Sat (actionCore np "p_timespec" args) (LPost args) := by
  unfold actionCore; simp only []
  exact Sat.bind (sat_notImplemented_leaves hW) (fun v hv => Sat.pure hv)

theorem lv_shell_command {np : NestedParse} {sorts : List Srt} {args : List SVal} {σ : Srt}
    (hW : WordPos np) (h : absAction "p_shell_command" sorts = some σ)
    (ha : Forall2 HasSort sorts args) :
    Sat (actionCore np "p_shell_command" args) (LPost args) := by
  unfold absAction at h; simp only [] at h
  split at h
  · cases h
    obtain ⟨a, rfl, ⟨n, rfl, -⟩⟩ := forall2_1 ha
    unfold actionCore; simp only []
    simp [PCtx.len, PCtx.slice, PCtx.nodeAt]
    exact Sat.map (sat_any (fun _ => lpost_cat notTok_node (by simp [valLeaves])))
  · split at h
    · rename_i hc
      cases h
      simp only [Bool.and_eq_true, bne_iff_ne, ne_eq] at hc
      have hlen : args.length ≠ 1 := by rw [← forall2_length ha]; exact hc.1
      unfold actionCore; simp only []
      have : ((PCtx.len ⟨np, args⟩ == 2) = false) := by simp [PCtx.len, hlen]
      simp only [this]
      refine Sat.bind (sat_makeparts_leaves hW args) (fun parts hparts => ?_)
      split
      · refine Sat.bind_any (fun sp => ?_)
        split
        · exact Sat.pure (lpost_cat notTok_node (by simp [valLeaves, aleaves, hparts]))
        · split
          · exact Sat.pure (lpost_cat notTok_node (by simp [valLeaves, aleaves, hparts]))
          · exact Sat.foreign trivial
      · exact Sat.foreign trivial
    · cases h

theorem lv_group {np : NestedParse} {sorts : List Srt} {args : List SVal} {σ : Srt}
    (h : absGroup sorts = some σ) (ha : Forall2 HasSort sorts args) :
    Sat (do
      let p : PCtx := { np := np, args := args }
      let l ← reservedAt p 1
      let r ← reservedAt p 3
      let mid ← p.nodeAt 2 "_partsspan"
      let parts := [l, mid, r]
      pure (SVal.node (.compound (← partsspan parts) parts []), false)) (LPost args) := by
  unfold absGroup at h
  split at h
  · split at h
    · rename_i l c r hc
      cases h
      simp only [Bool.and_eq_true] at hc
      obtain ⟨a, b, d, rfl, hl', ⟨n, rfl, -⟩, hr'⟩ := forall2_3 ha
      obtain ⟨tl, tyl, rfl, -, -, -⟩ := okTok_inv hc.1.1 hl'
      obtain ⟨tr, tyr, rfl, -, -, -⟩ := okTok_inv hc.2 hr'
      simp [reservedAt, PCtx.strAt, PCtx.tokAt, PCtx.slice, PCtx.nodeAt, PCtx.lexspan, SVal.lexspan]
      refine Sat.map (sat_any (fun sp => ?_))
      exact lpost_cat notTok_node (by simp [valLeaves, aleaves, tokSpan])
    · cases h
  · cases h

theorem lv_subshell {np : NestedParse} {sorts : List Srt} {args : List SVal} {σ : Srt}
    (h : absAction "p_subshell" sorts = some σ) (ha : Forall2 HasSort sorts args) :
    Sat (actionCore np "p_subshell" args) (LPost args) := by
  unfold absAction at h; simp only [] at h
  unfold actionCore; simp only []
  exact lv_group h ha

theorem lv_group_command {np : NestedParse} {sorts : List Srt} {args : List SVal} {σ : Srt}
    (h : absAction "p_group_command" sorts = some σ) (ha : Forall2 HasSort sorts args) :
    Sat (actionCore np "p_group_command" args) (LPost args) := by
  unfold absAction at h; simp only [] at h
  unfold actionCore; simp only []
  exact lv_group h ha

theorem lv_elif_clause {np : NestedParse} {args : List SVal} (hnn : ∀ v ∈ args, v ≠ SVal.none) :
    Sat (actionCore np "p_elif_clause" args) (LPost args) := by
  unfold actionCore; simp only []
  refine Sat.bind (P := fun parts => aleavesL parts = args.flatMap valLeaves) ?_
    (fun parts hparts => Sat.pure (lpost_cat notTok_nodes (by simp [valLeaves, hparts])))
  refine Sat.forIn_list
    (I := fun rest acc => aleavesL acc ++ rest.flatMap valLeaves = args.flatMap valLeaves ∧
      ∀ v ∈ rest, v ≠ SVal.none) ?_ ?_ args [] ⟨by simp, hnn⟩
  · rintro a rest b ⟨hI, hn⟩
    have hn' : ∀ v ∈ rest, v ≠ SVal.none := fun v hv => hn v (List.mem_cons_of_mem _ hv)
    split
    · refine Sat.pure ⟨?_, hn'⟩
      simpa [aleavesL_append, valLeaves, List.append_assoc] using hI
    · refine Sat.pure ⟨?_, hn'⟩
      simpa [aleavesL_append, valLeaves, List.append_assoc] using hI
    · refine Sat.pure ⟨?_, hn'⟩
      simp only [aleavesL_append, aleavesL_single]
      simpa [valLeaves, aleaves, tokSpan, List.append_assoc] using hI
    · exact absurd rfl (hn _ List.mem_cons_self)
  · rintro b ⟨hb, _⟩
    simpa using hb

theorem lv_case_clause {np : NestedParse} {sorts : List Srt} {args : List SVal} {σ : Srt}
    (h : absAction "p_case_clause" sorts = some σ) (ha : Forall2 HasSort sorts args) :
    Sat (actionCore np "p_case_clause" args) (LPost args) := by
  unfold absAction at h; simp only [] at h
  split at h
  · cases h
    obtain ⟨a, rfl, ⟨n, rfl, -⟩⟩ := forall2_1 ha
    unfold actionCore; simp only []
    simp [PCtx.len, PCtx.nodeAt, PCtx.slice]
    exact Sat.pure (lpost_cat notTok_nodes (by simp [valLeaves]))
  · cases h
    obtain ⟨a, b, rfl, ⟨l, rfl, -⟩, ⟨n, rfl, -⟩⟩ := forall2_2 ha
    unfold actionCore; simp only []
    simp [PCtx.len, PCtx.nodeAt, PCtx.slice, PCtx.nodesAt]
    exact Sat.pure (lpost_cat notTok_nodes (by simp [valLeaves, aleavesL_append]))
  · cases h

theorem lv_case_clause_sequence {np : NestedParse} {sorts : List Srt} {args : List SVal} {σ : Srt}
    (h : absAction "p_case_clause_sequence" sorts = some σ) (ha : Forall2 HasSort sorts args) :
    Sat (actionCore np "p_case_clause_sequence" args) (LPost args) := by
  unfold absAction at h; simp only [] at h
  split at h
  · split at h
    · rename_i hs
      cases h
      obtain ⟨a, b, rfl, ⟨n, rfl, -⟩, hs'⟩ := forall2_2 ha
      obtain ⟨t, ty, rfl, -, -, -⟩ := okTok_inv hs hs'
      unfold actionCore; simp only []
      simp [PCtx.len, PCtx.nodeAt, PCtx.slice, reservedAt, PCtx.strAt, PCtx.tokAt, PCtx.lexspan,
        SVal.lexspan]
      exact Sat.pure (lpost_cat notTok_nodes (by simp [valLeaves, aleaves, tokSpan]))
    · cases h
  · split at h
    · rename_i hs
      cases h
      obtain ⟨a, b, c, rfl, ⟨l, rfl, -⟩, ⟨n, rfl, -⟩, hs'⟩ := forall2_3 ha
      obtain ⟨t, ty, rfl, -, -, -⟩ := okTok_inv hs hs'
      unfold actionCore; simp only []
      simp [PCtx.len, PCtx.nodeAt, PCtx.slice, reservedAt, PCtx.strAt, PCtx.tokAt, PCtx.lexspan,
        SVal.lexspan, PCtx.nodesAt]
      exact Sat.pure (lpost_cat notTok_nodes
        (by simp [valLeaves, aleaves, aleavesL_append, tokSpan]))
    · cases h
  · cases h

theorem lv_pattern {np : NestedParse} {sorts : List Srt} {args : List SVal} {σ : Srt}
    (hW : WordPos np) (h : absAction "p_pattern" sorts = some σ)
    (ha : Forall2 HasSort sorts args) :
    Sat (actionCore np "p_pattern" args) (LPost args) := by
  unfold absAction at h; simp only [] at h
  split at h
  · cases h
    obtain ⟨a, rfl, ⟨t, rfl, -, -⟩⟩ := forall2_1 ha
    unfold actionCore; simp only []
    simp [PCtx.len, PCtx.tokAt, PCtx.slice]
    refine Sat.map ((hW t).weaken (fun w hw => ?_) (fun _ h => h))
    exact lpost_cat notTok_nodes (by simp [valLeaves, aleaves_word hw])
  · cases h
    obtain ⟨a, b, c, rfl, ⟨l, rfl, -⟩, ⟨tb, rfl, -, -⟩, ⟨t, rfl, -, -⟩⟩ := forall2_3 ha
    unfold actionCore; simp only []
    simp [PCtx.len, PCtx.tokAt, PCtx.slice, PCtx.nodesAt, reservedAt, PCtx.strAt, PCtx.lexspan,
      SVal.lexspan]
    refine Sat.map ((hW t).weaken (fun w hw => ?_) (fun _ h => h))
    exact lpost_cat notTok_nodes
      (by simp [valLeaves, aleaves, aleavesL_append, aleaves_word hw, tokSpan])
  · cases h

/-- a value of sort `none` is `None` -/
theorem none_of_sort {s : Srt} {v : SVal} (hs : (s == Srt.none) = true) (hv : HasSort s v) :
    v = .none := by
  have : s = .none := by simpa using hs
  subst this
  exact hv

theorem lv_list {np : NestedParse} {sorts : List Srt} {args : List SVal} {σ : Srt}
    (h : absAction "p_list" sorts = some σ) (ha : Forall2 HasSort sorts args)
    (h0 : ∀ x xs, args = x :: xs → x = SVal.none) :
    Sat (actionCore np "p_list" args) (LPost args) := by
  unfold absAction at h; simp only [] at h
  split at h
  · cases h
    obtain ⟨a, b, rfl, -, ⟨n, rfl, -⟩⟩ := forall2_2 ha
    have := h0 _ _ rfl
    subst this
    unfold actionCore; simp only []
    simp [PCtx.slice]
    exact Sat.pure (lpost_cat notTok_node (by simp [valLeaves]))
  · cases h

theorem single_of_head {l : List Node} {n : Node} (hl : ¬ l.length > 1) (hh : l.head? = some n) :
    l = [n] := by
  cases l with
  | nil => cases hh
  | cons x xs =>
    cases xs with
    | nil => simp at hh; subst hh; rfl
    | cons y ys => simp at hl

theorem lv_compound_list {np : NestedParse} {sorts : List Srt} {args : List SVal} {σ : Srt}
    (h : absAction "p_compound_list" sorts = some σ) (ha : Forall2 HasSort sorts args)
    (h0 : ∀ x y, args = [x, y] → x = SVal.none) :
    Sat (actionCore np "p_compound_list" args) (LPost args) := by
  unfold absAction at h; simp only [] at h
  split at h
  · cases h
    obtain ⟨a, rfl, ⟨n, rfl, -⟩⟩ := forall2_1 ha
    unfold actionCore; simp only []
    simp [PCtx.len, PCtx.slice]
    exact Sat.pure (lpost_cat notTok_node (by simp [valLeaves]))
  · cases h
    obtain ⟨a, b, rfl, -, ⟨l, rfl, -⟩⟩ := forall2_2 ha
    have := h0 _ _ rfl
    subst this
    unfold actionCore; simp only []
    simp [PCtx.len, PCtx.slice, PCtx.nodesAt]
    split
    · exact Sat.map (sat_any (fun sp => lpost_cat notTok_node (by simp [valLeaves, aleaves])))
    · rename_i hlen
      cases hh : l.head? with
      | none => exact Sat.foreign trivial
      | some n =>
        simp only []
        have hl : l = [n] := single_of_head (by simpa using hlen) hh
        subst hl
        exact Sat.pure (lpost_cat notTok_node (by simp [valLeaves]))
  · cases h

theorem lv_empty {np : NestedParse} {args : List SVal} (h0 : args = []) :
    Sat (actionCore np "p_empty" args) (LPost args) := by
  subst h0
  unfold actionCore; simp only []
  exact Sat.pure (lpost_cat notTok_none (by simp [valLeaves]))


theorem lv_pattern_list {np : NestedParse} {sorts : List Srt} {args : List SVal} {σ : Srt}
    (h : absAction "p_pattern_list" sorts = some σ) (ha : Forall2 HasSort sorts args)
    (h0 : ∀ x xs, args = x :: xs → x = SVal.none) :
    Sat (actionCore np "p_pattern_list" args) (LPost args) := by
  unfold absAction at h; simp only [] at h
  split at h
  · split at h
    · rename_i hc
      cases h
      simp only [Bool.and_eq_true] at hc
      obtain ⟨x, a, b, c, rfl, -, ⟨pat, rfl, -⟩, hr', hb'⟩ := forall2_4 ha
      obtain ⟨tr, tyr, rfl, -, -, -⟩ := okTok_inv hc.1 hr'
      have := h0 _ _ rfl
      subst this
      unfold actionCore; simp only []
      simp [PCtx.len, PCtx.slice, PCtx.nodesAt, reservedAt, PCtx.strAt, PCtx.tokAt, PCtx.lexspan,
        SVal.lexspan]
      refine Sat.bind_any (fun sp => ?_)
      rcases bodyOK_inv hc.2 hb' with rfl | ⟨n, rfl, -⟩
      · simp only []
        exact Sat.map (sat_any (fun sp' => lpost_cat notTok_node
          (by simp [valLeaves, aleaves, tokSpan])))
      · simp only []
        exact Sat.map (sat_any (fun sp' => lpost_cat notTok_node
          (by simp [valLeaves, aleaves, tokSpan])))
    · cases h
  · split at h
    · rename_i hc
      cases h
      simp only [Bool.and_eq_true] at hc
      obtain ⟨x, a0, a, b, c, rfl, -, hl', ⟨pat, rfl, -⟩, hr', hb'⟩ := forall2_5 ha
      obtain ⟨tl, tyl, rfl, -, -, -⟩ := okTok_inv hc.1.1 hl'
      obtain ⟨tr, tyr, rfl, -, -, -⟩ := okTok_inv hc.1.2 hr'
      have := h0 _ _ rfl
      subst this
      unfold actionCore; simp only []
      simp [PCtx.len, PCtx.slice, PCtx.nodesAt, reservedAt, PCtx.strAt, PCtx.tokAt, PCtx.lexspan,
        SVal.lexspan]
      refine Sat.bind_any (fun sp => ?_)
      rcases bodyOK_inv hc.2 hb' with rfl | ⟨n, rfl, -⟩
      · simp only []
        exact Sat.map (sat_any (fun sp' => lpost_cat notTok_node
          (by simp [valLeaves, aleaves, tokSpan])))
      · simp only []
        exact Sat.map (sat_any (fun sp' => lpost_cat notTok_node
          (by simp [valLeaves, aleaves, tokSpan])))
    · cases h
  · cases h

/-! ## dropped tokens -/

/-- a value that leaves no leaf: `None`, or a token that may be dropped -/
def DropV (v : SVal) : Prop := v = .none ∨ ∃ t, v = .tok t ∧ Droppable t

theorem AccV.drop {v : SVal} {ts : List Token} (h : AccV v ts) (hd : DropV v) : Covers ts [] := by
  rcases hd with rfl | ⟨t, rfl, hd⟩
  · exact h
  · have : ts = [t] := h
    subst this
    exact Covers.drop hd

theorem covers_allDrop : ∀ {args : List SVal} {tss : List (List Token)}, Forall2 AccV args tss →
    (∀ v ∈ args, DropV v) → Covers tss.flatten [] := by
  intro args tss h
  induction h with
  | nil => intro _; exact .nil
  | cons h1 _ ih =>
    intro hd
    have := Covers.append (h1.drop (hd _ List.mem_cons_self))
      (ih (fun v hv => hd v (List.mem_cons_of_mem _ hv)))
    simpa using this

theorem lpost_drop {args : List SVal} {b : Bool} (hd : ∀ v ∈ args, DropV v) :
    LPost args (.none, b) :=
  ⟨notTok_none, fun tss ht => covers_allDrop ht hd⟩

theorem lv_simple_list_terminator {np : NestedParse} {args : List SVal}
    (hd : ∀ v ∈ args, DropV v) :
    Sat (actionCore np "p_simple_list_terminator" args) (LPost args) := by
  unfold actionCore; simp only []
  exact Sat.pure (lpost_drop hd)

theorem lv_newline_list {np : NestedParse} {args : List SVal} (hd : ∀ v ∈ args, DropV v) :
    Sat (actionCore np "p_newline_list" args) (LPost args) := by
  unfold actionCore; simp only []
  exact Sat.pure (lpost_drop hd)

theorem lv_list_terminator {np : NestedParse} {args : List SVal} {t : Token}
    (hargs : args = [.tok t]) (hd : t.value ≠ .str [';'] → Droppable t) :
    Sat (actionCore np "p_list_terminator" args) (LPost args) := by
  subst hargs
  unfold actionCore; simp only []
  simp only [PCtx.slice, Nat.sub_self, List.getD_cons_zero, PCtx.lexspan, SVal.lexspan]
  split
  · exact Sat.pure (lpost_cat notTok_node (by simp [valLeaves, aleaves, tokSpan]))
  · rename_i hv
    refine Sat.pure (lpost_drop ?_)
    intro v hv'
    simp only [List.mem_singleton] at hv'
    subst hv'
    exact Or.inr ⟨t, rfl, hd (by simpa using hv)⟩

theorem flatMap_none : ∀ {bs : List SVal}, (∀ v ∈ bs, v = SVal.none) → bs.flatMap valLeaves = []
  | [], _ => rfl
  | b :: bs, h => by
    have hb := h b List.mem_cons_self
    subst hb
    simp [valLeaves, flatMap_none (fun v hv => h v (List.mem_cons_of_mem _ hv))]

theorem allDrop_of_none {bs : List SVal} (h : ∀ v ∈ bs, v = SVal.none) : ∀ v ∈ bs, DropV v :=
  fun v hv => Or.inl (h v hv)

theorem lv_list0 {np : NestedParse} {sorts : List Srt} {args : List SVal} {σ : Srt}
    (h : absAction "p_list0" sorts = some σ) (ha : Forall2 HasSort sorts args)
    (h2 : ∀ v ∈ args.drop 2, v = SVal.none) :
    Sat (actionCore np "p_list0" args) (LPost args) := by
  unfold absAction at h; simp only [] at h
  split at h
  · split at h
    · cases h
      obtain ⟨a, as, rfl, ⟨l, rfl, -⟩, ha2⟩ := forall2_cons ha
      obtain ⟨b, bs, rfl, ⟨t, rfl, -, -⟩, -⟩ := forall2_cons ha2
      have hbs : ∀ v ∈ bs, v = SVal.none := by simpa using h2
      unfold actionCore; simp only []
      simp [PCtx.slice, PCtx.nodesAt, operatorAt, PCtx.strAt, PCtx.tokAt, PCtx.lexspan, SVal.lexspan]
      split
      · refine Sat.map (sat_any (fun sp => lpost_cat notTok_node ?_))
        simp [valLeaves, aleaves, aleavesL_append, tokSpan, flatMap_none hbs]
      · rename_i hcond
        cases hh : l.head? with
        | none => exact Sat.foreign trivial
        | some n =>
          simp only []
          have hc : ¬ l.length > 1 ∧ PCtx.isTok ⟨np, SVal.nodes l :: SVal.tok t :: bs⟩ 2 .NEWLINE = true := by
            simpa using hcond
          have hl : l = [n] := single_of_head hc.1 hh
          subst hl
          have hnl : t.ttype = some .NEWLINE := by
            have := hc.2
            simpa [PCtx.isTok, PCtx.slice, Token.is] using this
          refine Sat.pure ⟨notTok_node, ?_⟩
          intro tss ht
          obtain ⟨ts1, r1, rfl, h1, ht2⟩ := forall2_cons ht
          obtain ⟨ts2, r2, rfl, h2', ht3⟩ := forall2_cons ht2
          have e2 : ts2 = [t] := h2'
          subst e2
          have c1 : Covers ts1 (aleavesL [n]) := h1
          have c3 := covers_allDrop ht3 (allDrop_of_none hbs)
          have := Covers.append c1 (Covers.append (Covers.drop (Or.inl hnl)) c3)
          simpa [valLeaves] using this
    · cases h
  · cases h

/-- `x ++ [sep] ++ y` (list1, simple_list1, pipeline) -/
theorem lv_joinLists {np : NestedParse} {sorts : List Srt} {args : List SVal} {σ : Srt}
    {k : LCls} {elem : NCls} {sep : TokType → Bool} {mk : Span → Str → Node} {site : String}
    (hmk : ∀ sp w, aleaves (mk sp w) = [.plain sp false])
    (h : absJoin k elem sep sorts = some σ) (ha : Forall2 HasSort sorts args)
    (hmid : ∀ v ∈ (args.drop 2).dropLast, v = SVal.none) :
    Sat (joinLists ⟨np, args⟩ mk site) (fun v => LPost args (v, false)) := by
  unfold absJoin at h
  split at h
  · split at h
    · cases h
      obtain ⟨a, rfl, ⟨n, rfl, -⟩⟩ := forall2_1 ha
      simp [joinLists, PCtx.len, PCtx.nodeAt, PCtx.slice]
      exact Sat.pure (lpost_cat notTok_nodes (by simp [valLeaves]))
    · cases h
  · split at h
    · rename_i hc
      cases h
      simp only [Bool.and_eq_true, beq_iff_eq] at hc
      obtain ⟨⟨rfl, hs⟩, hlast⟩ := hc
      obtain ⟨a, as, rfl, ⟨l, rfl, -⟩, ha2⟩ := forall2_cons ha
      obtain ⟨b, bs, rfl, ⟨t, rfl, -, -⟩, ha3⟩ := forall2_cons ha2
      obtain ⟨v, hv, ⟨r, rfl, -⟩⟩ := forall2_getLast ha3 _ hlast
      have hbs : bs ≠ [] := by intro hb; subst hb; simp at hv
      have hlast' : (SVal.nodes l :: SVal.tok t :: bs).getLast? = some (.nodes r) := by
        cases bs with
        | nil => exact absurd rfl hbs
        | cons c cs => simpa [List.getLast?_cons_cons] using hv
      have hlen : ¬ (PCtx.len ⟨np, SVal.nodes l :: SVal.tok t :: bs⟩ == 2) = true := by
        cases bs with
        | nil => exact absurd rfl hbs
        | cons c cs => simp [PCtx.len]
      have hmid' : ∀ v ∈ bs.dropLast, v = SVal.none := by simpa using hmid
      have hbseq : bs = bs.dropLast ++ [SVal.nodes r] := by
        have h1 := List.dropLast_concat_getLast hbs
        have h2 : bs.getLast hbs = SVal.nodes r := by
          have := List.getLast?_eq_some_getLast hbs
          rw [hv] at this
          exact (Option.some.inj this).symm
        rw [h2] at h1
        exact h1.symm
      unfold joinLists
      simp only [hlen, if_false, Bool.false_eq_true]
      simp only [PCtx.nodesAt, slice_last hlast']
      simp [PCtx.slice, PCtx.strAt, PCtx.tokAt, PCtx.lexspan, SVal.lexspan]
      refine Sat.pure (lpost_cat notTok_nodes ?_)
      rw [hbseq]
      simp [valLeaves, aleavesL_append, hmk, tokSpan, flatMap_none hmid', List.flatMap_append]
    · cases h
  · cases h

theorem lv_list1 {np : NestedParse} {sorts : List Srt} {args : List SVal} {σ : Srt}
    (h : absAction "p_list1" sorts = some σ) (ha : Forall2 HasSort sorts args)
    (hmid : ∀ v ∈ (args.drop 2).dropLast, v = SVal.none) :
    Sat (actionCore np "p_list1" args) (LPost args) := by
  unfold absAction at h; simp only [] at h
  unfold actionCore; simp only []
  exact Sat.bind (lv_joinLists (fun _ _ => by simp [aleaves]) h ha hmid) (fun v hv => Sat.pure hv)

theorem lv_simple_list1 {np : NestedParse} {sorts : List Srt} {args : List SVal} {σ : Srt}
    (h : absAction "p_simple_list1" sorts = some σ) (ha : Forall2 HasSort sorts args)
    (hmid : ∀ v ∈ (args.drop 2).dropLast, v = SVal.none) :
    Sat (actionCore np "p_simple_list1" args) (LPost args) := by
  unfold absAction at h; simp only [] at h
  unfold actionCore; simp only []
  exact Sat.bind (lv_joinLists (fun _ _ => by simp [aleaves]) h ha hmid) (fun v hv => Sat.pure hv)

theorem lv_pipeline {np : NestedParse} {sorts : List Srt} {args : List SVal} {σ : Srt}
    (h : absAction "p_pipeline" sorts = some σ) (ha : Forall2 HasSort sorts args)
    (hmid : ∀ v ∈ (args.drop 2).dropLast, v = SVal.none) :
    Sat (actionCore np "p_pipeline" args) (LPost args) := by
  unfold absAction at h; simp only [] at h
  unfold actionCore; simp only []
  exact Sat.bind (lv_joinLists (fun _ _ => by simp [aleaves]) h ha hmid) (fun v hv => Sat.pure hv)


/-! ## redirections: the tokens `[fd] op target` become ONE leaf -/

theorem fdTok_of {s : Srt} {a : SVal} (h : absRedirIn s = true) (ha : HasSort s a) :
    ∃ t, a = .tok t ∧ FdTok t := by
  obtain ⟨t, ty, rfl, hty, -, hf⟩ := okTok_inv h ha
  refine ⟨t, rfl, ?_⟩
  simp only [Bool.or_eq_true, beq_iff_eq] at hf
  rcases hf with rfl | rfl
  · exact Or.inl hty
  · exact Or.inr hty

theorem redirOp_of_here {ty : TokType} (h : isHereOp ty = true) : isRedirOp ty = true := by
  cases ty <;> first | rfl | (exfalso; revert h; decide)

theorem lpost_redir2 {op tgt : Token} {n : Node} {b : Bool} (hop : RedirTok op)
    (hn : aleaves n = [.plain (op.lexpos, tgt.endlexpos) false]) :
    LPost [.tok op, .tok tgt] (.node n, b) := by
  refine ⟨notTok_node, ?_⟩
  intro tss ht
  obtain ⟨x, y, rfl, hx, hy⟩ := forall2_2 ht
  have ex : x = [op] := hx
  have ey : y = [tgt] := hy
  subst ex; subst ey
  simp only [valLeaves, hn]
  exact Covers.group (.redir2 op tgt hop)

theorem lpost_redir3 {fd op tgt : Token} {n : Node} {b : Bool} (hfd : FdTok fd) (hop : RedirTok op)
    (hn : aleaves n = [.plain (fd.lexpos, tgt.endlexpos) false]) :
    LPost [.tok fd, .tok op, .tok tgt] (.node n, b) := by
  refine ⟨notTok_node, ?_⟩
  intro tss ht
  obtain ⟨x, y, z, rfl, hx, hy, hz⟩ := forall2_3 ht
  have ex : x = [fd] := hx
  have ey : y = [op] := hy
  have ez : z = [tgt] := hz
  subst ex; subst ey; subst ez
  simp only [valLeaves, hn]
  exact Covers.group (.redir3 fd op tgt hfd hop)

theorem lv_redirection {np : NestedParse} {sorts : List Srt} {args : List SVal} {σ : Srt}
    (h : absAction "p_redirection" sorts = some σ) (ha : Forall2 HasSort sorts args) :
    Sat (actionCore np "p_redirection" args) (LPost args) := by
  unfold absAction at h; simp only [] at h
  split at h
  · split at h
    · rename_i hop
      cases h
      simp only [Bool.and_eq_true] at hop
      obtain ⟨a, b, rfl, hop', ho'⟩ := forall2_2 ha
      obtain ⟨t, ty, rfl, hty, hwf, hf⟩ := okTok_inv hop.1 hop'
      obtain ⟨o, tyo, rfl, htyo, hwfo, hfo⟩ := okTok_inv hop.2 ho'
      unfold actionCore; simp only []
      simp [PCtx.len, PCtx.tokAt, PCtx.slice, PCtx.strAt, PCtx.lexspan, SVal.lexspan]
      split
      · exact Sat.map (sat_any (fun w => lpost_redir2 ⟨ty, hty, hf⟩
          (by simp [aleaves, redirLeaves, plainOf])))
      · exact Sat.pure (lpost_redir2 ⟨ty, hty, hf⟩ (by simp [aleaves, redirLeaves, plainOf]))
    · cases h
  · split at h
    · rename_i hop
      cases h
      simp only [Bool.and_eq_true] at hop
      obtain ⟨a, b, c, rfl, hin', hop', ho'⟩ := forall2_3 ha
      obtain ⟨ti, rfl, hfd⟩ := fdTok_of hop.1.1 hin'
      obtain ⟨t, ty, rfl, hty, hwf, hf⟩ := okTok_inv hop.1.2 hop'
      obtain ⟨o, tyo, rfl, htyo, hwfo, hfo⟩ := okTok_inv hop.2 ho'
      unfold actionCore; simp only []
      simp [PCtx.len, PCtx.tokAt, PCtx.slice, PCtx.strAt, PCtx.lexspan, SVal.lexspan]
      split
      · exact Sat.map (sat_any (fun w => lpost_redir3 hfd ⟨ty, hty, hf⟩
          (by simp [aleaves, redirLeaves, plainOf])))
      · exact Sat.pure (lpost_redir3 hfd ⟨ty, hty, hf⟩ (by simp [aleaves, redirLeaves, plainOf]))
    · cases h
  · cases h

theorem lpost_here2 {op tgt : Token} {n : Node} {b : Bool} {id : Nat} (hop : HereTok op)
    (hn : aleaves n = [.pend id (op.lexpos, tgt.endlexpos) none]) :
    LPost [.tok op, .tok tgt] (.node n, b) := by
  refine ⟨notTok_node, ?_⟩
  intro tss ht
  obtain ⟨x, y, rfl, hx, hy⟩ := forall2_2 ht
  have ex : x = [op] := hx
  have ey : y = [tgt] := hy
  subst ex; subst ey
  simp only [valLeaves, hn]
  exact Covers.group (.here2 op tgt id hop)

theorem lpost_here3 {fd op tgt : Token} {n : Node} {b : Bool} {id : Nat} (hfd : FdTok fd)
    (hop : HereTok op) (hn : aleaves n = [.pend id (fd.lexpos, tgt.endlexpos) none]) :
    LPost [.tok fd, .tok op, .tok tgt] (.node n, b) := by
  refine ⟨notTok_node, ?_⟩
  intro tss ht
  obtain ⟨x, y, z, rfl, hx, hy, hz⟩ := forall2_3 ht
  have ex : x = [fd] := hx
  have ey : y = [op] := hy
  have ez : z = [tgt] := hz
  subst ex; subst ey; subst ez
  simp only [valLeaves, hn]
  exact Covers.group (.here3 fd op tgt id hfd hop)

theorem lv_redirection_heredoc {np : NestedParse} {sorts : List Srt} {args : List SVal} {σ : Srt}
    (h : absAction "p_redirection_heredoc" sorts = some σ) (ha : Forall2 HasSort sorts args) :
    Sat (actionCore np "p_redirection_heredoc" args) (LPost args) := by
  unfold absAction at h; simp only [] at h
  split at h
  · split at h
    · rename_i hop
      cases h
      obtain ⟨a, b, rfl, hop', ⟨w, rfl, -, -⟩⟩ := forall2_2 ha
      obtain ⟨t, ty, rfl, hty, hwf, hf⟩ := okTok_inv hop hop'
      unfold actionCore; simp only []
      simp only [PCtx.len, PCtx.tokAt, PCtx.slice, PCtx.strAt, PCtx.lexspan, SVal.lexspan,
        List.length_cons, List.length_nil, Nat.reduceAdd, Nat.reduceSub, List.getD_cons_succ,
        List.getD_cons_zero, Nat.reduceBEq, beq_self_eq_true, if_true, bind_pure_comp, pure_bind,
        map_pure, bind_map_left]
      refine Sat.bind_any (fun l => ?_)
      exact Sat.map (sat_any (fun _ => lpost_here2 (id := l.store.length) ⟨ty, hty, hf⟩
        (by simp [aleaves])))
    · cases h
  · split at h
    · rename_i hop
      cases h
      simp only [Bool.and_eq_true] at hop
      obtain ⟨a, b, c, rfl, hin', hop', ⟨w, rfl, -, -⟩⟩ := forall2_3 ha
      obtain ⟨t, ty, rfl, hty, hwf, hf⟩ := okTok_inv hop.2 hop'
      obtain ⟨ti, rfl, hfd⟩ := fdTok_of hop.1 hin'
      unfold actionCore; simp only []
      simp only [PCtx.len, PCtx.tokAt, PCtx.slice, PCtx.strAt, PCtx.lexspan, SVal.lexspan,
        List.length_cons, List.length_nil, Nat.reduceAdd, Nat.reduceSub, List.getD_cons_succ,
        List.getD_cons_zero, Nat.reduceBEq, beq_self_eq_true, if_true, bind_pure_comp, pure_bind,
        map_pure, bind_map_left, Bool.false_eq_true, if_false]
      refine Sat.bind_any (fun l => ?_)
      exact Sat.map (sat_any (fun _ => lpost_here3 (id := l.store.length) hfd ⟨ty, hty, hf⟩
        (by simp [aleaves])))
    · cases h
  · cases h


/-! ## `p_simple_list` (may accept), `p_inputunit` (accepts) -/

theorem lv_simple_list {np : NestedParse} {sorts : List Srt} {args : List SVal} {σ : Srt}
    (h : absAction "p_simple_list" sorts = some σ) (ha : Forall2 HasSort sorts args) :
    Sat (actionCore np "p_simple_list" args) (LPost args) := by
  unfold absAction at h; simp only [] at h
  split at h
  · cases h
    obtain ⟨a, rfl, ⟨l, rfl, hl⟩⟩ := forall2_1 ha
    unfold actionCore; simp only []
    simp only [PCtx.len, PCtx.slice, PCtx.nodesAt, List.length_cons, List.length_nil, Nat.reduceAdd,
      Nat.reduceSub, List.getD_cons_zero, Nat.reduceBEq, Bool.false_or, Bool.false_eq_true,
      if_false, pure_bind, Nat.sub_self]
    refine Sat.bind_any (fun _ => ?_)
    split
    · refine Sat.bind_any (fun sp => Sat.bind_any (fun l1 => Sat.pure ?_))
      exact lpost_cat notTok_node (by simp [valLeaves, aleaves])
    · split
      · refine Sat.bind_any (fun l1 => Sat.pure ?_)
        exact lpost_cat notTok_node (by simp [valLeaves])
      · exact Sat.bind (Sat.foreign (P := fun _ => False) trivial) (fun _ h => h.elim)
  · split at h
    · rename_i hop
      cases h
      obtain ⟨a, b, rfl, ⟨l, rfl, hl⟩, ⟨t, rfl, hty, hwf⟩⟩ := forall2_2 ha
      unfold actionCore; simp only []
      simp only [PCtx.len, PCtx.slice, PCtx.nodesAt, List.length_cons, List.length_nil, Nat.reduceAdd,
        Nat.reduceSub, List.getD_cons_zero, Nat.reduceBEq, Bool.true_or, if_true, pure_bind,
        Nat.sub_self, operatorAt, PCtx.strAt, PCtx.tokAt, PCtx.lexspan, SVal.lexspan,
        List.getD_cons_succ, bind_pure_comp, map_pure, Bool.false_and, beq_self_eq_true]
      refine Sat.bind_any (fun _ => ?_)
      refine Sat.bind_any (fun sp => Sat.map (sat_any (fun l1 => ?_)))
      exact lpost_cat notTok_node (by simp [valLeaves, aleaves, aleavesL_append, tokSpan])
    · cases h
  · cases h

/-- `p_inputunit` returns `None`, or accepts with its first argument -/
theorem lv_inputunit {np : NestedParse} {args : List SVal} :
    Sat (actionCore np "p_inputunit" args)
      (fun r => (r = (.none, false) ∧ ∀ n, args.head? ≠ some (.node n)) ∨
        ∃ n, r = (.node n, true) ∧ args.head? = some (.node n)) := by
  unfold actionCore; simp only []
  refine Sat.bind_any (fun l => ?_)
  have hm : Sat (match PCtx.slice ⟨np, args⟩ 1 with
      | .node n => (pure (SVal.node n, true) : M (SVal × Bool))
      | _ => pure (SVal.none, false))
      (fun r => (r = (.none, false) ∧ ∀ n, args.head? ≠ some (.node n)) ∨
        ∃ n, r = (.node n, true) ∧ args.head? = some (.node n)) := by
    split
    · rename_i n hn
      refine Sat.pure (Or.inr ⟨n, rfl, ?_⟩)
      cases args with
      | nil => simp [PCtx.slice] at hn
      | cons x xs => simp [PCtx.slice] at hn; simp [hn]
    · rename_i hne
      refine Sat.pure (Or.inl ⟨rfl, ?_⟩)
      intro n hn
      cases args with
      | nil => simp at hn
      | cons x xs =>
        simp only [List.head?_cons, Option.some.injEq] at hn
        subst hn
        exact hne n (by simp [PCtx.slice])
  split
  · exact Sat.bind_any (fun _ => hm)
  · exact hm

/-! ## `p_pipeline_command`: `!` in front of a pipeline; D19 for `time` -/

/-- the result of `p_pipeline_command` accounts for the tokens of its arguments -- where a
    `time` specification (a node in first position) is replaced by ONE leaf at (0, 0) -/
def LPostT (args : List SVal) (r : SVal × Bool) : Prop :=
  notTok r.1 ∧ ∀ tss, Forall2 AccV args tss →
    (∀ n y ts0 rest, args = [.node n, y] → tss = ts0 :: rest → ts0 ≠ [] ∧ ∀ t ∈ ts0, IsTimeTok t) →
    Covers tss.flatten (valLeaves r.1)

theorem LPost.toT {args : List SVal} {r : SVal × Bool} (h : LPost args r) : LPostT args r :=
  ⟨h.1, fun tss ht _ => h.2 tss ht⟩

/-- the leaves of the result of `! y` / `time y`, given the span `sp` the reserved word gets -/
theorem lpostT_bang {x y : SVal} {v : SVal} {b : Bool} (hv : notTok v)
    (hx : (∃ t, x = .tok t) ∨ (∃ n, x = .node n))
    (hl : valLeaves v = .plain x.lexspan false :: valLeaves y) : LPostT [x, y] (v, b) := by
  refine ⟨hv, ?_⟩
  intro tss ht htime
  obtain ⟨tx, ty, rfl, hax, hay⟩ := forall2_2 ht
  simp only [hl]
  rcases hx with ⟨t, rfl⟩ | ⟨n, rfl⟩
  · have := Covers.append hax.covers hay.covers
    simpa [valLeaves, SVal.lexspan, tokSpan] using this
  · obtain ⟨hne, hall⟩ := htime n y tx [ty] rfl rfl
    have := Covers.append (Covers.group (.d19 tx hne hall)) hay.covers
    simpa [SVal.lexspan] using this

theorem lv_pipeline_command {np : NestedParse} {sorts : List Srt} {args : List SVal} {σ : Srt}
    (h : absAction "p_pipeline_command" sorts = some σ) (ha : Forall2 HasSort sorts args)
    (hfirst : ∀ x y, args = [x, y] → (∃ t, x = .tok t) ∨ (∃ n, x = .node n)) :
    Sat (actionCore np "p_pipeline_command" args) (LPostT args) := by
  unfold absAction at h; simp only [] at h
  have two : ∀ x y, args = [x, y] → (y = .none ∨ ∃ n, y = .node n) →
      Sat (actionCore np "p_pipeline_command" args) (LPostT args) := by
    intro x y hargs hy
    subst hargs
    have hx := hfirst x y rfl
    unfold actionCore; simp only []
    have hlen : ((PCtx.len ⟨np, [x, y]⟩ == 2) = false) := rfl
    simp only [hlen, Bool.false_eq_true, if_false]
    simp only [PCtx.lexspan, PCtx.slice, List.getD_cons_zero, Nat.sub_self,
      Nat.add_one_sub_one, List.getD_cons_succ]
    rcases hy with rfl | ⟨n, rfl⟩
    · simp only []
      exact Sat.pure (lpostT_bang notTok_node hx (by simp [valLeaves, aleaves]))
    · split
      · rename_i hh; cases hh
      · rename_i sp parts hh
        cases hh
        split
        · exact Sat.bind_any (fun _ => Sat.pure (lpostT_bang notTok_node hx
            (by simp [valLeaves, aleaves])))
        · exact Sat.foreign trivial
      · rename_i n' hnp hh
        cases hh
        exact Sat.bind_any (fun _ => Sat.pure (lpostT_bang notTok_node hx
          (by simp [valLeaves, aleaves])))
      · rename_i hh1 hh2 hh3
        exact absurd rfl (hh3 n)
  split at h
  · cases h
    obtain ⟨a, rfl, ⟨l, rfl, -⟩⟩ := forall2_1 ha
    unfold actionCore; simp only []
    simp [PCtx.len, PCtx.slice, PCtx.nodesAt]
    split
    · exact Sat.pure (lpost_cat notTok_node (by simp [valLeaves])).toT
    · cases hha : l.head? with
      | none => exact Sat.foreign trivial
      | some a =>
        cases hhb : l.getLast? with
        | none => exact Sat.foreign trivial
        | some b =>
          simp only []
          refine Sat.bind_any (fun sa => Sat.map (sat_any (fun sb => ?_)))
          exact (lpost_cat notTok_node (by simp [valLeaves, aleaves])).toT
  · cases h
    obtain ⟨x, y, rfl, -, ⟨n, rfl, -⟩⟩ := forall2_2 ha
    exact two x (.node n) rfl (Or.inr ⟨n, rfl⟩)
  · cases h
    obtain ⟨x, y, rfl, -, hy⟩ := forall2_2 ha
    refine two x y rfl ?_
    rcases hy with rfl | ⟨n, rfl, -⟩
    · exact Or.inl rfl
    · exact Or.inr ⟨n, rfl⟩
  · cases h

end Bashlex.C05
