/-
  C05: witnesses, as kernel-evaluated runs of `parse`:
  * each place where a NEWLINE token is dropped (and the places where separators are kept);
  * a redirection is ONE leaf; a here-document body is a leaf of its own unless the redirect was
    extended over it;
  * the defects: D19 (a leaf at (0, 0) replaces the tokens of `time …`; only with
    `proceedonerror`), D11 (character level: a here-document body inside `( )` is also parsed as
    commands; `Spec.coverOK` reports `leaf-overlap+heredoc-body`).
-/
import Bashlex.Props.C05

namespace Bashlex.C05
open Bashlex Bashlex.Spec

/-- the leaves of the trees `parse` returns, in tree order (`[]` if it does not return trees) -/
def leavesOf (s : String) (o : Opts := {}) : List (Span × Bool) :=
  match (parse s.toList o).1 with
  | .parts ps => leavesL ps
  | _ => []

def coverOf (s : String) (o : Opts := {}) : List String :=
  match (parse s.toList o).1 with
  | .parts ps => coverOK s.toList ps
  | _ => ["no parts"]

/-! ### dropped NEWLINE tokens -/

/-- leading NEWLINEs (shifted in state 0) and `simple_list_terminator : NEWLINE`:
    `⏎⏎a⏎` has the one leaf `a` -/
theorem drop_leading_and_terminator : leavesOf "\n\na\n" = [((2, 3), false)] := by decide +kernel

/-- `newline_list : newline_list NEWLINE`: `a &&⏎⏎b` has the leaves `a`, `&&`, `b` -/
theorem drop_newline_list :
    leavesOf "a &&\n\nb" = [((0, 1), false), ((2, 4), false), ((6, 7), false)] := by decide +kernel

/-- `list_terminator : NEWLINE`: in `for x in a⏎do b; done` the NEWLINE at 10 leaves no leaf … -/
theorem drop_list_terminator :
    leavesOf "for x in a\ndo b; done" =
      [((0, 3), false), ((4, 5), false), ((6, 8), false), ((9, 10), false), ((11, 13), false),
       ((14, 15), false), ((15, 16), false), ((17, 21), false)] := by decide +kernel

/-- … while `list_terminator : SEMICOLON` is kept (a reserved word of the `for`): `;` at (10, 11) -/
theorem keep_list_terminator_semicolon :
    leavesOf "for x in a; do b; done" =
      [((0, 3), false), ((4, 5), false), ((6, 8), false), ((9, 10), false), ((10, 11), false),
       ((12, 14), false), ((15, 16), false), ((16, 17), false), ((18, 22), false)] := by
  decide +kernel

/-- `list0 : list1 NEWLINE newline_list` with ONE command: `{ a⏎}` has the leaves `{`, `a`, `}` … -/
theorem drop_list0_single :
    leavesOf "{ a\n}" = [((0, 1), false), ((2, 3), false), ((4, 5), false)] := by decide +kernel

/-- … with TWO commands the NEWLINE is an operator leaf: `{ a;b⏎}` has `⏎` at (5, 6) -/
theorem keep_list0_newline :
    leavesOf "{ a;b\n}" =
      [((0, 1), false), ((2, 3), false), ((3, 4), false), ((4, 5), false), ((5, 6), false),
       ((6, 7), false)] := by decide +kernel

/-- `;;`, `)` and the keywords of `case` are leaves -/
theorem keep_case :
    leavesOf "case x in a) b;; esac" =
      [((0, 4), false), ((5, 6), false), ((7, 9), false), ((10, 11), false), ((11, 12), false),
       ((13, 14), false), ((14, 16), false), ((17, 21), false)] := by decide +kernel

/-! ### redirections -/

/-- `2>&1` (three tokens) is one leaf (2, 6); `>x` (two tokens) is one leaf (7, 9) -/
theorem redirect_one_leaf :
    leavesOf "a 2>&1 >x" = [((0, 1), false), ((2, 6), false), ((7, 9), false)] := by decide +kernel

/-- a redirect extended over its here-document body: one leaf, flagged -/
theorem heredoc_extended : leavesOf "a <<E\nb\nE\n" = [((0, 1), false), ((2, 9), true)] := by
  decide +kernel

/-- a body the redirect was not extended over is a leaf of its own, right after its redirect in
    tree order (NOT in span order: `;` and `b` follow) -/
theorem heredoc_separate :
    leavesOf "a <<E; b\nx\nE\n" =
      [((0, 1), false), ((2, 5), false), ((9, 12), true), ((5, 6), false), ((7, 8), false)] := by
  decide +kernel

/-! ### defects -/

/-- D19: `time a` with `proceedonerror`: the token `time` (0, 4) has no leaf; a leaf at (0, 0)
    was invented -/
theorem witness_d19 :
    leavesOf "time a" { proceed := true } = [((0, 0), false), ((5, 6), false)] := by decide +kernel

theorem witness_d19_opt :
    leavesOf "time -p a | b" { proceed := true } =
      [((0, 0), false), ((8, 9), false), ((10, 11), false), ((12, 13), false)] := by decide +kernel

/-- … which `noEmptyLeaf` excludes -/
theorem witness_d19_excluded : noEmptyLeaf (leavesOf "time a" { proceed := true }) = false := by
  decide +kernel

/- … and which `Spec.coverOK` reports as `gap-not-layout` (`#eval coverOf "time a" { proceed := true }`
   gives `["gap-not-layout"]`; not kernel-evaluated: `coverOK` sorts with `Array.qsort`). -/

/-- D11 (character level): inside `( )` the body `x` of `<<E` is gathered a line too late and is
    ALSO tokenized as a command (`x` at (8, 9) is a leaf, and the body is (10, 11)): the leaves
    overlap the body; `#eval coverOf "( a <<E\nx\nE\n)"` gives `["leaf-overlap+heredoc-body"]`.
    At token level nothing is wrong: every delivered token has its leaf. -/
theorem witness_d11_leaves :
    leavesOf "( a <<E\nx\nE\n)" =
      [((0, 1), false), ((2, 3), false), ((4, 7), false), ((10, 11), true), ((7, 8), false),
       ((8, 9), false), ((9, 12), false), ((12, 13), false)] := by decide +kernel

end Bashlex.C05
