/-
  C05, character level, TIGHT regions, part 3 (generated from `Props/C05/TokGapsProof.lean` by
  renaming): `tokGaps_next`, `tokGaps_gather`, `CovOK0`, `tokLogX`, `tokLogGL` over the tight
  `GapPost` / `GathQ`.
-/
import Bashlex.Props.C05.FT2

namespace Bashlex.C05.TGT
open Bashlex Bashlex.M Bashlex.C10 Bashlex.C11 Bashlex.C03 Bashlex.C03.Tok Bashlex.C04
  Bashlex.C04.TTP Bashlex.C05 Bashlex.C05.TG
set_option linter.unusedSimpArgs false
set_option linter.unusedVariables false

/-! ## Step 1: `token()` -/

/-- what `token()` did, entered at cursor `i0` (see the header) -/
def GapPost (L : Str) (i0 : Nat) (t : Token) (l : Local) (e : Env) : Prop :=
  (tapeOf l e).line = L ∧ l.eolLookahead = none ∧ l.positions = [] ∧
  ((t = eofTok ∧ Skip L i0 L.length ∧ (tapeOf l e).idx = L.length) ∨
   ∃ a, t.pos = some (a, (tapeOf l e).idx) ∧ a < (tapeOf l e).idx ∧ Skip L i0 a ∧
     ((t.ttype = some .NEWLINE ∧ L[a]? = some '\n' ∧ GRegT L l.store (a + 1) (tapeOf l e).idx) ∨
      (NN t ∧ (tapeOf l e).idx ≤ L.length)))

section
variable {L : Str} {sr : List RedirCell} {rk : List (Nat × Bool)}

/-- a bare token type: the end is recorded, the token is created -/
theorem bare_tok_g {i0 : Nat} (ty : TokType) :
    HT (ReadG L i0 (.inl ty)) (do recordpos; createtoken ty ty.enumValue : M Token)
      (GapPost L i0) ET := by
  intro l e h
  obtain ⟨a, hsk, hcase⟩ := h
  have hfacts : (tapeOf l e).line = L ∧ l.eolLookahead = none ∧ l.positions = [a] := by
    rcases hcase with ⟨_, _, g1, g2, g3, _⟩ | ⟨_, j, g1, _, _, g4, g5⟩
    · exact ⟨g1, g2, g3⟩
    · exact ⟨g1, g4, g5⟩
  obtain ⟨f1, f2, f3⟩ := hfacts
  simp only [M.run_bind, C11.run_recordpos]
  rw [run_createtoken ty ty.enumValue [] _ e a ((tapeOf l e).idx - 0)
    (by show l.positions ++ _ = _; rw [f3]; rfl)]
  by_cases hab : a < (tapeOf l e).idx - 0
  · rw [if_pos hab]
    refine ⟨f1, f2, rfl, Or.inr ⟨a, rfl, hab, hsk, ?_⟩⟩
    rcases hcase with ⟨rfl, g0, g1, g2, g3, g4, g5⟩ | ⟨hne, j, g1, g2, g3, g4, g5⟩
    · exact Or.inl ⟨rfl, g0, g5⟩
    · refine Or.inr ⟨⟨ty, rfl, hne⟩, ?_⟩
      show (tapeOf l e).idx ≤ L.length
      rw [g2]; exact g3
  · rw [if_neg hab]; exact True.intro

theorem bare_tok_bind_g {β : Type} {i0 : Nat} (ty : TokType) {k : Token → M β}
    {Q : β → Local → Env → Prop} (hk : ∀ cur, HT (GapPost L i0 cur) (k cur) Q ET) :
    HT (ReadG L i0 (.inl ty)) (recordpos >>= fun _ => createtoken ty ty.enumValue >>= k) Q ET := by
  have h := HT.bind (bare_tok_g (L := L) (i0 := i0) ty) hk
  simpa only [bind_assoc] using h

/-- **`token()`**, entered at cursor `i0` inside the line -/
theorem nextToken_g (hS : ScanHyp) (hnl : NL L) (hlast : LastNL L)
    (hlen : L.length < 1073741824) (hnd : (rk.map Prod.fst).Nodup) {i0 : Nat}
    (hi0 : i0 ≤ L.length) :
    HT (TpS L sr rk [] i0) nextToken (GapPost L i0) ET := by
  unfold nextToken
  simp only []
  refine HT.bind (Q := fun _ l e => TpS L sr rk [] i0 l e) (HT.modify (fun l e h => h)) (fun _ => ?_)
  refine HT.bind (readtoken_g hS hnl hlast hlen hnd hi0) (fun r => ?_)
  have fin : ∀ (cur : Token),
      HT (GapPost L i0 cur) (do
        modify fun l => { l with currentToken := cur }
        modify fun l => { l with ps := { l.ps with eoftoken := false } }
        pure cur : M Token) (GapPost L i0) ET := by
    intro cur
    refine HT.bind (Q := fun _ l e => GapPost L i0 cur l e)
      (HT.modify (fun l e h => h)) (fun _ => ?_)
    refine HT.bind (Q := fun _ l e => GapPost L i0 cur l e)
      (HT.modify (fun l e h => h)) (fun _ => HT.pure (fun l e h => h))
  cases r with
  | inl ty => exact bare_tok_bind_g ty (fun cur => fin cur)
  | inr t =>
    simp only [pure_bind]
    refine HT.pre (fin t) ?_
    intro l e h
    rcases h with ⟨rfl, hsk, g1, g2, g3, g4, g5⟩ | ⟨a, k, hsk, hpos, hak, hnn, g1, g2, g3, g4, g5⟩
    · exact ⟨g1, g4, g5, Or.inl ⟨rfl, hsk, g2⟩⟩
    · refine ⟨g1, g4, g5, Or.inr ⟨a, by rw [g2]; exact hpos, by rw [g2]; exact hak, hsk,
        Or.inr ⟨hnn, by rw [g2]; exact g3⟩⟩⟩

end

/-- **the tokenizer skips only layout** (no hypothesis on the scanners left: `scanHyp`) -/
theorem tokGaps_next {L : Str} {sr : List RedirCell} {rk : List (Nat × Bool)} {i0 : Nat}
    (hnl : NL L) (hlast : LastNL L) (hlen : L.length < 1073741824)
    (hnd : (rk.map Prod.fst).Nodup) (hi0 : i0 ≤ L.length) :
    HT (TpS L sr rk [] i0) nextToken (GapPost L i0) ET :=
  nextToken_g TTP.scanHyp hnl hlast hlen hnd hi0

/-- **`gatherheredocuments`** moves the cursor forward over a `GRegT` region -/
theorem tokGaps_gather {L : Str} {sr : List RedirCell} {rk : List (Nat × Bool)} {ps : List Nat}
    {c : Nat} (hlast : LastNL L) (hlen : L.length < 1073741824)
    (hnd : (rk.map Prod.fst).Nodup) :
    HT (TpS L sr rk ps c) gatherheredocuments (fun _ l e => GathQ L ps c l e) ET := by
  refine HT.pre (gather_reg hlast hlen) ?_
  rintro l e ⟨⟨a1, a2, a3, a4, a5⟩, hs, hr⟩
  exact ⟨a1, a2, a3, a4, a5, by rw [hr]; exact hnd⟩

/-! ## Step 2: the log -/

/-- position `p` lies inside a delivered token that has a type other than NEWLINE, EOF -/
def InTok (ts : List Token) (p : Nat) : Prop :=
  ∃ t ∈ ts, NN t ∧ t.lexpos ≤ p ∧ p < t.endlexpos

/-- **coverage**: every position of the line below the cursor lies inside a delivered token
    other than a NEWLINE, is layout, or lies inside a gathered here-document body -/
def Cov (ts : List Token) (l : Local) (e : Env) : Prop :=
  ∀ p, p < (tapeOf l e).idx → p < (tapeOf l e).line.length →
    InTok ts p ∨ PosLay (tapeOf l e).line p ∨ InBody l.store p

/-- coverage, the line being `L0`; once EOF was delivered the cursor is at the end of the line
    (or beyond) -/
def CovL (L0 : Str) (ts : List Token) (l : Local) (e : Env) : Prop :=
  (tapeOf l e).line = L0 ∧ Cov ts l e ∧
    ((∃ t ∈ ts, t.pos = none) → L0.length ≤ (tapeOf l e).idx)

/-- `TLog` with a further fact about log and state, for inputs below the model's loop fuel -/
def TLogX (C : List Token → Local → Env → Prop) (ts : List Token) (len f : Nat) (l : Local)
    (e : Env) : Prop :=
  TLog ts len f l e ∧ (len + 1 < 1073741824 → C ts l e)

/-- **the logged ghost invariant with coverage** -/
def TLogG : List Token → Nat → Nat → Local → Env → Prop := TLogX Cov

/-- **the logged ghost invariant with coverage, the line pinned** -/
def TLogGL (L0 : Str) : List Token → Nat → Nat → Local → Env → Prop := TLogX (CovL L0)

theorem InTok.mono {ts ts' : List Token} {p : Nat} (h : InTok ts p) (hs : ∀ t ∈ ts, t ∈ ts') :
    InTok ts' p := by
  obtain ⟨t, ht, h1⟩ := h
  exact ⟨t, hs t ht, h1⟩

/-- bodies stay: the tokenizer attaches a body to a cell once -/
theorem inBody_storeStep {len f : Nat} {ext : Bool} {st st' : List RedirCell} {p : Nat}
    (h : InBody st p) (hs : StoreStep len f ext st st') : InBody st' p := by
  refine h.mono (fun c hc b hb => ?_)
  obtain ⟨i, hi⟩ := List.getElem?_of_mem hc
  have hlt : i < st.length := (List.getElem?_eq_some_iff.mp hi).1
  have hlt' : i < st'.length := by rw [hs.1]; exact hlt
  have hi' : st'[i]? = some st'[i] := List.getElem?_eq_getElem hlt'
  refine ⟨st'[i], List.getElem_mem hlt', ?_⟩
  rcases hs.2 i c _ hi hi' with h1 | ⟨h1, _⟩
  · rw [h1]; exact hb
  · rw [h1] at hb; cases hb

theorem lastNL_of_nl {L : Str} (h : NL L) : LastNL L := by
  intro hne
  have hpos : 0 < L.length := List.length_pos_iff.mpr hne
  rw [List.getLast?_eq_getElem?]
  have hx : L[L.length - 1]? = some L[L.length - 1] := List.getElem?_eq_getElem (by omega)
  rw [hx]
  congr 1
  apply Classical.byContradiction
  intro hc
  have := h _ _ hx hc
  omega

/-- what the proof of `TokLogC (TLogX C)` needs of `C` -/
structure CovOK0 (C : List Token → Local → Env → Prop) : Prop where
  /-- after `token()` -/
  next : ∀ {ts : List Token} {t : Token} {L : Str} {i0 len f : Nat} {l0 l : Local} {e0 e : Env},
    C ts l0 e0 → (tapeOf l0 e0).line = L → (tapeOf l0 e0).idx = i0 → GapPost L i0 t l e →
    StoreStep len f false l0.store l.store → C (ts ++ [t]) l e
  /-- after `gatherheredocuments` -/
  gather : ∀ {ts : List Token} {L : Str} {c len f : Nat} {l0 l : Local} {e0 e : Env},
    C ts l0 e0 → (tapeOf l0 e0).line = L → (tapeOf l0 e0).idx = c → GathQ L [] c l e →
    StoreStep len f true l0.store l.store → C ts l e
  /-- when line and cursor stay (or the cursor is beyond the end of the line before and after),
      bodies stay, and the log grows -/
  same : ∀ {ts ts' : List Token} {l0 l : Local} {e0 e : Env}, C ts l0 e0 →
    (tapeOf l e).line = (tapeOf l0 e0).line →
    ((tapeOf l e).idx = (tapeOf l0 e0).idx ∧ ts' = ts ∨
      ((tapeOf l0 e0).line.length < (tapeOf l0 e0).idx ∧
        (tapeOf l0 e0).line.length < (tapeOf l e).idx)) →
    (∀ p, InBody l0.store p → InBody l.store p) → (∀ t ∈ ts, t ∈ ts') → C ts' l e

/-- coverage after `token()` -/
theorem cov_next {ts : List Token} {t : Token} {L : Str} {i0 : Nat} {len f : Nat}
    {l0 l : Local} {e0 e : Env}
    (hc : Cov ts l0 e0) (h1 : (tapeOf l0 e0).line = L) (h2 : (tapeOf l0 e0).idx = i0)
    (hg : GapPost L i0 t l e) (hs : StoreStep len f false l0.store l.store) :
    Cov (ts ++ [t]) l e := by
  obtain ⟨g1, _, _, hcase⟩ := hg
  intro p hp1 hp2
  rw [g1] at hp2 ⊢
  by_cases hpi : p < i0
  · rcases hc p (by rw [h2]; exact hpi) (by rw [h1]; exact hp2) with h | h | h
    · exact Or.inl (h.mono (fun t ht => List.mem_append_left _ ht))
    · rw [h1] at h; exact Or.inr (Or.inl h)
    · exact Or.inr (Or.inr (inBody_storeStep h hs))
  · rcases hcase with ⟨_, hsk, _⟩ | ⟨a, hpos, hak, hsk, hty⟩
    · exact Or.inr (Or.inl (posLay_of_skip hsk (by omega) hp2))
    · by_cases hpa : p < a
      · exact Or.inr (Or.inl (posLay_of_skip hsk (by omega) hpa))
      · rcases hty with ⟨_, hLa, hreg⟩ | ⟨hnn, _⟩
        · have hreg := hreg.loose
          by_cases hpe : p = a
          · rw [hpe]; exact Or.inr (Or.inl (Or.inl hLa))
          · rcases hreg p (by omega) hp1 hp2 with h | h
            · exact Or.inr (Or.inl h)
            · exact Or.inr (Or.inr h)
        · obtain ⟨q1, q2⟩ := tok_lexspan hpos
          exact Or.inl ⟨t, by simp, hnn, by rw [q1]; omega, by rw [q2]; exact hp1⟩

/-- coverage after `gatherheredocuments` -/
theorem cov_gather {ts : List Token} {L : Str} {c : Nat} {len f : Nat}
    {l0 l : Local} {e0 e : Env}
    (hc : Cov ts l0 e0) (h1 : (tapeOf l0 e0).line = L) (h2 : (tapeOf l0 e0).idx = c)
    (hg : GathQ L [] c l e) (hs : StoreStep len f true l0.store l.store) : Cov ts l e := by
  obtain ⟨g1, _, _, _, hreg⟩ := hg
  have hreg := hreg.loose
  intro p hp1 hp2
  rw [g1] at hp2 ⊢
  by_cases hpi : p < c
  · rcases hc p (by rw [h2]; exact hpi) (by rw [h1]; exact hp2) with h | h | h
    · exact Or.inl h
    · rw [h1] at h; exact Or.inr (Or.inl h)
    · exact Or.inr (Or.inr (inBody_storeStep h hs))
  · rcases hreg p (by omega) hp1 hp2 with h | h
    · exact Or.inr (Or.inl h)
    · exact Or.inr (Or.inr h)

theorem cov_same {ts ts' : List Token} {l0 l : Local} {e0 e : Env} (hc : Cov ts l0 e0)
    (h1 : (tapeOf l e).line = (tapeOf l0 e0).line)
    (h2 : (tapeOf l e).idx = (tapeOf l0 e0).idx ∧ ts' = ts ∨
      ((tapeOf l0 e0).line.length < (tapeOf l0 e0).idx ∧
        (tapeOf l0 e0).line.length < (tapeOf l e).idx))
    (h3 : ∀ p, InBody l0.store p → InBody l.store p) (h4 : ∀ t ∈ ts, t ∈ ts') : Cov ts' l e := by
  intro p hp1 hp2
  rw [h1] at hp2 ⊢
  rcases hc p (by omega) hp2 with h | h | h
  · exact Or.inl (h.mono h4)
  · exact Or.inr (Or.inl h)
  · exact Or.inr (Or.inr (h3 p h))

theorem covOK_cov : CovOK0 Cov := ⟨cov_next, cov_gather, cov_same⟩

theorem covOK_covL (L0 : Str) : CovOK0 (CovL L0) := by
  refine ⟨?_, ?_, ?_⟩
  · intro ts t L i0 len f l0 l e0 e hc h1 h2 hg hs
    obtain ⟨c1, c2, c3⟩ := hc
    have hL : L = L0 := by rw [← h1]; exact c1
    refine ⟨by rw [hg.1, hL], cov_next c2 h1 h2 hg hs, ?_⟩
    rintro ⟨t', ht', hpos'⟩
    obtain ⟨_, _, _, hcase⟩ := hg
    rcases hcase with ⟨_, _, hidx⟩ | ⟨a, hpos, hak, hsk, _⟩
    · rw [hidx, hL]; exact Nat.le_refl _
    · rcases List.mem_append.mp ht' with ht' | ht'
      · have := c3 ⟨t', ht', hpos'⟩
        have := hsk.le
        rw [h2] at *
        omega
      · simp only [List.mem_singleton] at ht'
        subst ht'
        rw [hpos] at hpos'; cases hpos'
  · intro ts L c len f l0 l e0 e hc h1 h2 hg hs
    obtain ⟨c1, c2, c3⟩ := hc
    have hL : L = L0 := by rw [← h1]; exact c1
    refine ⟨by rw [hg.1, hL], cov_gather c2 h1 h2 hg hs, fun hx => ?_⟩
    have := c3 hx
    have := hg.2.2.2.1
    rw [h2] at *
    omega
  · intro ts ts' l0 l e0 e hc h1 h2 h3 h4
    obtain ⟨c1, c2, c3⟩ := hc
    refine ⟨by rw [h1]; exact c1, cov_same c2 h1 h2 h3 h4, fun hx => ?_⟩
    rcases h2 with ⟨h2, rfl⟩ | ⟨_, h2⟩
    · rw [h2]; exact c3 hx
    · rw [c1] at h2; exact Nat.le_of_lt h2

/-- what the proof of `TokLogC (TLogX C)` needs of `C` (the closure properties of `CovOK0`, with
    what is KNOWN of a dead state -- the cursor beyond the end of the line after the non-strict
    skip over a missing here-document -- made explicit: `gatherheredocuments` is entered inside the
    line; in a dead state `token()` delivers the end-of-input token and the log grows by it
    only) -/
structure CovOK (C : List Token → Local → Env → Prop) : Prop where
  next : ∀ {ts : List Token} {t : Token} {L : Str} {i0 len f : Nat} {l0 l : Local} {e0 e : Env},
    C ts l0 e0 → (tapeOf l0 e0).line = L → (tapeOf l0 e0).idx = i0 → GapPost L i0 t l e →
    StoreStep len f false l0.store l.store → C (ts ++ [t]) l e
  gather : ∀ {ts : List Token} {L : Str} {c len f : Nat} {l0 l : Local} {e0 e : Env},
    C ts l0 e0 → (tapeOf l0 e0).line = L → (tapeOf l0 e0).idx = c → c ≤ L.length →
    GathQ L [] c l e → StoreStep len f true l0.store l.store → C ts l e
  same : ∀ {ts : List Token} {l0 l : Local} {e0 e : Env}, C ts l0 e0 →
    (tapeOf l e).line = (tapeOf l0 e0).line →
    ((tapeOf l e).idx = (tapeOf l0 e0).idx ∨
      ((tapeOf l0 e0).line.length < (tapeOf l0 e0).idx ∧
        (tapeOf l0 e0).line.length < (tapeOf l e).idx)) →
    (∀ p, InBody l0.store p → InBody l.store p) → C ts l e
  deadEof : ∀ {ts : List Token} {l0 l : Local} {e0 e : Env}, C ts l0 e0 →
    (tapeOf l e).line = (tapeOf l0 e0).line →
    ((tapeOf l0 e0).line.length < (tapeOf l0 e0).idx ∧
        (tapeOf l0 e0).line.length < (tapeOf l e).idx) →
    (∀ p, InBody l0.store p → InBody l.store p) → C (ts ++ [eofTok]) l e

theorem CovOK0.toNew {C : List Token → Local → Env → Prop} (h : CovOK0 C) : CovOK C :=
  ⟨h.next, fun hc h1 h2 _ hg hs => h.gather hc h1 h2 hg hs,
   fun hc h1 h2 h3 => h.same hc h1 (h2.imp (fun h => ⟨h, rfl⟩) id) h3 (fun t ht => ht),
   fun hc h1 hd h3 => h.same hc h1 (Or.inr hd) h3 (fun t ht => List.mem_append_left _ ht)⟩

/-- the raw facts about `token()` from a fixed state satisfying `TI` -/
theorem next_raw (len f : Nat) (l0 : Local) (e0 : Env) (hti : TI len f l0 e0)
    (hlen : len + 1 < 1073741824) :
    SatS nextToken (fun l e => l = l0 ∧ e = e0)
      (fun t l e => GapPost (tapeOf l0 e0).line (tapeOf l0 e0).idx t l e ∨
        (((tapeOf l0 e0).line.length < (tapeOf l0 e0).idx ∧
          (tapeOf l0 e0).line.length < (tapeOf l e).idx) ∧
          (tapeOf l e).line = (tapeOf l0 e0).line ∧ l.store = l0.store ∧ t = eofTok)) := by
  obtain ⟨L, ⟨hK, hnl⟩, hp, hc⟩ := hti
  rcases hc with hc | hc
  · obtain ⟨a1, a2, a3, a4, a5, a6, a7⟩ := hc
    refine satS_of_ht (HT.weaken (tokGaps_next (L := L) (sr := l0.store) (rk := l0.redirstack)
      (i0 := (tapeOf l0 e0).idx) hnl (lastNL_of_nl hnl) (by omega) hp.1 a2) ?_ ?_ (fun _ h => h))
    · rintro l e ⟨rfl, rfl⟩
      exact ⟨⟨a1, rfl, a2, a3, a4⟩, rfl, rfl⟩
    · intro t l e h
      left; rw [a1]; exact h
  · refine satS_of_ht (HT.weaken (nextToken_dead (L := L) (sr := l0.store) (rk := l0.redirstack))
      ?_ ?_ (fun _ h => h))
    · rintro l e ⟨rfl, rfl⟩; exact ⟨hc, rfl, rfl⟩
    · rintro t l e ⟨heof, hd, hs, _⟩
      right
      exact ⟨⟨by rw [hc.1]; exact hc.2.1, by rw [hc.1]; exact hd.2.1⟩, by rw [hd.1, hc.1], hs, heof⟩

/-- the raw facts about `gatherheredocuments` from a fixed state satisfying `TI` -/
theorem gather_raw (len f : Nat) (l0 : Local) (e0 : Env) (hti : TI len f l0 e0)
    (hlen : len + 1 < 1073741824) :
    SatS gatherheredocuments (fun l e => l = l0 ∧ e = e0)
      (fun _ l e => (GathQ (tapeOf l0 e0).line [] (tapeOf l0 e0).idx l e ∧
          (tapeOf l0 e0).idx ≤ (tapeOf l0 e0).line.length) ∨
        (((tapeOf l0 e0).line.length < (tapeOf l0 e0).idx ∧
          (tapeOf l0 e0).line.length < (tapeOf l e).idx) ∧
          (tapeOf l e).line = (tapeOf l0 e0).line ∧ l.store = l0.store)) := by
  obtain ⟨L, ⟨hK, hnl⟩, hp, hc⟩ := hti
  rcases hc with hc | hc
  · obtain ⟨a1, a2, a3, a4, a5, a6, a7⟩ := hc
    refine satS_of_ht (HT.weaken (tokGaps_gather (L := L) (sr := l0.store) (rk := l0.redirstack)
      (ps := []) (c := (tapeOf l0 e0).idx) (lastNL_of_nl hnl) (by omega) hp.1) ?_ ?_ (fun _ h => h))
    · rintro l e ⟨rfl, rfl⟩
      exact ⟨⟨a1, rfl, a2, a3, a4⟩, rfl, rfl⟩
    · intro t l e h
      left; rw [a1]; exact ⟨h, a2⟩
  · refine satS_of_ht (HT.weaken (gather_dead (L := L) (ps := []) (sr := l0.store)
      (rk := l0.redirstack)) ?_ ?_ (fun _ h => h))
    · rintro l e ⟨rfl, rfl⟩; exact ⟨hc, rfl, rfl⟩
    · rintro _ l e ⟨hd, hs, _⟩
      right
      exact ⟨⟨by rw [hc.1]; exact hc.2.1, by rw [hc.1]; exact hd.2.1⟩, by rw [hd.1, hc.1], hs⟩

/-- **`TokLog` without `init` holds of the real tokenizer, with a fact `C` closed under the
    tokenizer's moves** -/
theorem tokLogX {C : List Token → Local → Env → Prop} (hC : CovOK C) : TokLogC (TLogX C) := by
  refine ⟨?_, ?_⟩
  · -- `next`
    intro ts len f st
    refine SatS.intro_state (fun l0 e0 h0 => ?_)
    obtain ⟨⟨htl, hcov⟩, hst⟩ := h0
    have hA : SatS nextToken (fun l e => l = l0 ∧ e = e0)
        (fun t l e => ∃ a b, f ≤ a ∧ TokAt len t a b ∧ TLog (ts ++ [t]) len b l e ∧
          StoreStep len f false st l.store) :=
      SatS.pre (tokLog.next ts len f st) (by rintro l e ⟨rfl, rfl⟩; exact ⟨htl, hst⟩)
    by_cases hlen : len + 1 < 1073741824
    · refine SatS.post (SatS.and hA (next_raw len f l0 e0 htl.1 hlen)) ?_
      rintro t l e ⟨⟨a, b, h1, h2, h3, h4⟩, hraw⟩
      refine ⟨a, b, h1, h2, ⟨h3, fun _ => ?_⟩, h4⟩
      rcases hraw with hg | ⟨hd1, hd2, hd3, hd4⟩
      · exact hC.next (hcov hlen) rfl rfl hg (by rw [hst]; exact h4)
      · rw [hd4]
        exact hC.deadEof (hcov hlen) hd2 hd1 (fun p h => by rw [hd3]; exact h)
    · refine SatS.post hA ?_
      rintro t l e ⟨a, b, h1, h2, h3, h4⟩
      exact ⟨a, b, h1, h2, ⟨h3, fun h => absurd h hlen⟩, h4⟩
  · intro ts
    refine ⟨?_, ?_, ?_, ?_⟩
    · -- `gather`
      intro len f st
      refine SatS.intro_state (fun l0 e0 h0 => ?_)
      obtain ⟨⟨htl, hcov⟩, hst⟩ := h0
      have hA : SatS gatherheredocuments (fun l e => l = l0 ∧ e = e0)
          (fun _ l e => TLog ts len f l e ∧ StoreStep len f true st l.store) :=
        SatS.pre ((tokLog.act ts).gather len f st) (by rintro l e ⟨rfl, rfl⟩; exact ⟨htl, hst⟩)
      by_cases hlen : len + 1 < 1073741824
      · refine SatS.post (SatS.and hA (gather_raw len f l0 e0 htl.1 hlen)) ?_
        rintro _ l e ⟨⟨h3, h4⟩, hraw⟩
        refine ⟨⟨h3, fun _ => ?_⟩, h4⟩
        rcases hraw with ⟨hg, hcL⟩ | ⟨hd1, hd2, hd3⟩
        · exact hC.gather (hcov hlen) rfl rfl hcL hg (by rw [hst]; exact h4)
        · exact hC.same (hcov hlen) hd2 (Or.inr hd1)
            (fun p h => by rw [hd3]; exact h)
      · refine SatS.post hA ?_
        rintro _ l e ⟨h3, h4⟩
        exact ⟨⟨h3, fun h => absurd h hlen⟩, h4⟩
    · -- `queue`
      rintro len f l e cell kill ⟨h1, h2⟩ h3 h4 h5
      refine ⟨(tokLog.act ts).queue len f l e cell kill h1 h3 h4 h5, fun hlen => ?_⟩
      refine hC.same (h2 hlen) rfl (Or.inl rfl) (fun p h => ?_)
      exact h.mono (fun c hc b hb => ⟨c, List.mem_append_left _ hc, hb⟩)
    · -- `ps`
      rintro len f l e ps ⟨h1, h2⟩
      exact ⟨(tokLog.act ts).ps len f l e ps h1, fun hlen =>
        hC.same (h2 hlen) rfl (Or.inl rfl) (fun p h => h)⟩
    · -- `nested`
      intro d len f st s b
      rintro l e ⟨⟨htl, hcov⟩, hst⟩
      have hA := (tokLog.act ts).nested d len f st s b l e ⟨htl, hst⟩
      rw [run_npOf] at hA ⊢
      rcases hr : M.run (parserRun d) (nestedLocal l s b) e with ⟨r, e'⟩
      rw [hr] at hA
      cases r with
      | error x => exact True.intro
      | ok v =>
        obtain ⟨r, l'⟩ := v
        have hE := C16.nestedEnv_thm d (nestedLocal l s b) e r l' e' rfl rfl hr
        simp only [] at hA ⊢
        refine ⟨⟨hA.1, fun hlen => ?_⟩, hA.2⟩
        have ht : tapeOf ({ l with ps := l'.ps } : Local) e' = tapeOf l e := by
          rw [tapeOf_env hE.1.symm]; rfl
        exact hC.same (hcov hlen) (by rw [ht]) (Or.inl (by rw [ht]))
          (fun p h => h)

theorem tokLogGL (L0 : Str) : TokLogC (TLogGL L0) := tokLogX (covOK_covL L0).toNew

theorem initState_tape {s : Str} {l : Local} {e : Env} (hi : InitState s l e) :
    tapeOf l e = Tape.ofInput s := by
  obtain ⟨_, _, _, _, h5⟩ := hi
  rcases h5 with h5 | ⟨h5, h6⟩
  · unfold tapeOf; rw [h5]
  · unfold tapeOf; rw [h5]; exact h6

/-- `init`, for the inputs whose line is pinned -/
theorem tokLogGL_init (s : Str) (l : Local) (e : Env) (hi : InitState s l e) :
    TLogGL (Tape.ofInput s).line [] s.length 0 l e := by
  refine ⟨tokLog.init s l e hi, fun _ => ?_⟩
  have ht := initState_tape hi
  refine ⟨by rw [ht], ?_, ?_⟩
  · intro p hp
    rw [ht, ofInput_idx] at hp
    omega
  · rintro ⟨t, ht', _⟩; cases ht'

/-- **the hypothesis `TokLog` holds of the real tokenizer, with coverage** -/
theorem tokLogG : TokLog TLogG := by
  have h := tokLogX covOK_cov.toNew
  refine ⟨h.next, h.act, ?_⟩
  intro s l e hi
  refine ⟨tokLog.init s l e hi, fun _ => ?_⟩
  intro p hp
  rw [initState_tape hi, ofInput_idx] at hp
  omega


end Bashlex.C05.TGT
