/-
  C05, character level: cross-check by evaluation of the statements proved in
  `TokGapsProof.lean` (`tokGaps_next`, `tokGaps_gather`).

  `gapRun` is `parserRun` with one change: the token source checks, on every call of `token()`
  (slot empty, cursor `i0` inside the line): the delivered token starts at `a` with
  `skipOK line i0 a`, ends at the cursor; a NEWLINE token sits on a newline and the rest of its
  span is `gregB` (bodies gathered, continuation pairs, newlines); EOF: `skipOK line i0 |line|`.
  Every semantic action (this is where `p_simple_list` calls `gatherheredocuments`) moves the
  cursor over a `gregB` region only.  Nested parsers run the same checks on their own line.
-/
import Bashlex.Props.C05.TGDefs
import Bashlex.Props.C04.Validate

namespace Bashlex.C05.TG
open Bashlex

def gapHooks (np : NestedParse) : LR.Hooks SVal :=
  { lrHooks np with
    next := do
      if (← get).eolLookahead.isSome then M.raise (.foreign "TG" "slot not empty before token()")
      let i0 ← curIdx
      let line ← tapeLine
      let t ← nextToken
      let i1 ← curIdx
      let st := (← get).store
      let ok : Bool :=
        if i0 > line.length then t.pos.isNone
        else match t.pos with
          | none => t.is .EOF && skipOK line i0 line.length && i1 == line.length
          | some (a, b) => skipOK line i0 a && b == i1 &&
              (if t.is .NEWLINE then line[a]? == some '\n' && gregB line st (a + 1) b else true)
      if ok then pure (symOfTok t, .tok t)
      else M.raise (.foreign "TG" s!"i0={i0} i1={i1} {repr t} line={repr (String.ofList line)}")
    act := fun p args => do
      let i0 ← curIdx
      let r ← (lrHooks np).act p args
      let i1 ← curIdx
      let line ← tapeLine
      let st := (← get).store
      if i0 ≤ i1 && gregB line st i0 i1 then pure r
      else M.raise (.foreign "TG" s!"action: i0={i0} i1={i1} line={repr (String.ofList line)}") }

def gapRun : Nat → M (Option Node)
  | 0 => M.raise (.outOfFuel "nesting")
  | depth + 1 => do
    let np : NestedParse := fun string dolparen => do
      let outer ← get
      let ps := if dolparen then { outer.ps with cmdsubst := true, eoftoken := true } else outer.ps
      set ({ tape := some (Tape.ofInput string), opts := some (true, false)
             lastReadToken := outer.lastReadToken, tokenBeforeThat := outer.tokenBeforeThat
             twoTokensAgo := outer.twoTokensAgo, ps := ps
             eofToken := if dolparen then some rparenEofToken else none
             limit := outer.limit.map (· - 1) } : Local)
      let r ← gapRun depth
      let inner ← get
      set { outer with ps := inner.ps }
      pure r
    let res ← LR.run LR.realTables (gapHooks np) 1073741824
    let store := (← get).store
    match res with
    | .accepted (.node n) _ _ _ => pure (some (resolve store n))
    | _ => pure none

def chkOne (s : Str) (o : Opts) : Option String :=
  let env : Env := { tape := Tape.ofInput s, strict := o.strict, proceed := o.proceed }
  match (gapRun 8).run { limit := o.limit } env with
  | (.error (.foreign "TG" m), _) => some m
  | _ => none

def chkInput (s : String) : List String :=
  let l := s.toList
  (C04.suffixStarts l).filterMap fun i =>
    ((chkOne (l.drop i) {}).map (fun m => s!"[{i}] {m}")).orElse fun _ =>
      (chkOne (l.drop i) { strict := false, proceed := true }).map (fun m => s!"[{i},proceed] {m}")

def failing (l : List String) : List (String × List String) :=
  (l.map fun s => (s, chkInput s)).filter (fun p => !p.2.isEmpty)

def report (l : List String) : Nat × Nat × List (String × List String) :=
  let f := failing l
  (l.length, f.length, (f.take 5).map fun p => (p.1, (p.2.take 1).map fun m => (m.take 300).toString))

/-- all strings of length ≤ 4 over `a # ␣ ⇥ \ ⏎ ; <` -/
def gapAlpha : List Char := ['a', '#', ' ', '\t', '\\', '\n', ';', '<']
def gapN : Nat → List (List Char)
  | 0 => [[]]
  | n+1 => (gapN n).flatMap fun w => gapAlpha.map fun c => c :: w
def gapGrid : List String := ((List.range 5).flatMap gapN).map String.ofList

/-- here-documents, comments, continuations, the defect shapes D11 / D31 / D32 -/
def gapHand : List String :=
  ["a<\\\n b", "a;\\", "then<\\\n 2>x", "a #c\nb", "a # c \\\nb", "#c", "#c\n", " \t#c\n#d\n\na",
   "a \\\n b", "a\\\n b", "\\\n\\\n a", " \\\n# c\n a", "a;#c\n", "a&#c\nb", "(#c\na)",
   "cat <<E\nx\nE\n", "cat <<E\nx\nE\nb\n", "cat <<E #c\nx\nE\n", "cat <<-E\n\tx\n\tE\nb",
   "cat <<E\n\\\nx\nE\n", "cat <<E <<F\nx\nE\ny\nF\nb", "cat <<E\nx\nE", "cat <<E\n",
   "(cat <<E\nx\nE\n)\n", "{ cat <<E\nx\nE\n}\n", "if a; then cat <<E\nx\nE\nfi\n",
   "f() { cat <<E\nx\nE\n}\n", "case a in b) cat <<E\nx\nE\n;; esac", "cat <<E; b\nx\nE\nc",
   "cat <<E &&\nx\nE\nb", "cat <<E |\nx\nE\nb", "cat <<E\nx\nE\n#c\nb", "cat <<E\nx\nE\n\\\nb",
   "a\n\n\nb", "a \n \n b # c", "time a", "time -p a", "time\n", "a | #c\n b", "a &&\n#c\nb",
   "for i in a b #c\ndo x; done", "while a #c\ndo b\ndone", "$(a #c\n)", "$(cat <<E\nx\nE\n)",
   "`a #c`", "a <<E\n$(b #c\n)\nE\n", "a\t\tb\t#\tc", "a#b", "a #", "a \\", "a <<E\\\nF\nx\nEF\n",
   "cat <<E\nx\nE\n\n\ncat <<F\ny\nF\n", "a <<E <<-F\n\tx\nE\n\ty\n\tF\n", "a 2>&1 #c\n",
   "a <<E\nx\n E\nE\n", "a <<E\n\\\nE\n", "a <<E\nE\\\n\nE\n", "cat <<E\nx\nE #c\nE\n"]

#eval report C04.corpus
#eval report C04.gridInputs
#eval report gapGrid
#eval report gapHand

/-! ## are the gathered bodies leaves?

  `C05_chars_checked` (`Props/C05Chars.lean`) leaves "inside a here-document body recorded in the
  redirect store" as an alternative of its own; that every such body lies inside a leaf of the
  returned tree is not proved.  By evaluation: after a plain `parserRun`, every body of the store
  lies inside a leaf span of the returned tree -- `0` failing inputs below, also for the D19
  inputs (`time cat <<E…` with `proceedonerror`). -/

def bodiesRun (s : Str) (o : Opts) : Option String :=
  let env : Env := { tape := Tape.ofInput s, strict := o.strict, proceed := o.proceed }
  match (do
      let r ← parserRun 8
      let st := (← get).store
      pure (r, st) : M (Option Node × List RedirCell)).run { limit := o.limit } env with
  | (.ok ((some n, st), _), _) =>
    let ls := Spec.leaves n
    let bad := st.filter fun c => match c.heredoc with
      | some ((x, y), _) => !(ls.any fun l => l.1.1 ≤ x && y ≤ l.1.2)
      | none => false
    if bad.isEmpty then none
    else some s!"{repr (bad.map (·.heredoc.map (·.1)))} {repr (String.ofList s)}"
  | _ => none

def chkBodies (s : String) : List String :=
  let l := s.toList
  (C04.suffixStarts l).filterMap fun i =>
    ((bodiesRun (l.drop i) {}).map (fun m => s!"[{i}] {m}")).orElse fun _ =>
      (bodiesRun (l.drop i) { strict := false, proceed := true }).map (fun m => s!"[{i},proceed] {m}")

def reportBodies (l : List String) : Nat × Nat × List (List String) :=
  let f := (l.map chkBodies).filter (fun p => !p.isEmpty)
  (l.length, f.length, (f.take 5).map fun p => p.take 1)

#eval reportBodies C04.corpus
#eval reportBodies gapHand
#eval reportBodies ["time cat <<E\nx\nE\n", "time -p cat <<E\nx\nE\n", "time\ncat <<E\nx\nE\n"]

/-! ## the witnesses quoted in `Props/C05Chars.lean`, `Props/C05/TokGapsProof.lean` -/

/-- the tokens of an input: (type, span) -/
def toks (s : String) : List (Option TokType × Option Span) :=
  let env : Env := { tape := Tape.ofInput s.toList }
  let rec go : Nat → Local → Env → List (Option TokType × Option Span)
    | 0, _, _ => []
    | n + 1, l, e =>
      match nextToken.run l e with
      | (.ok (t, l'), e') =>
        (t.ttype, t.pos) :: (if t.is .EOF then [] else go n l' e')
      | _ => []
  go (s.length + 2) {} env

-- D31 / D32: the characters `_ungetc` could not give back lie inside the token before
#eval toks "a<\\\n b"     -- WORD (0,3), NEWLINE (3,4), WORD (5,6), NEWLINE (6,7), EOF
#eval toks "a;\\"         -- WORD (0,1), SEMICOLON (1,3), NEWLINE (3,4), EOF
#eval toks "then<\\\n 2>x"
-- the comment's newline is the NEWLINE token
#eval toks "a #c\nb"       -- WORD (0,1), NEWLINE (4,5), WORD (5,6), NEWLINE (6,7), EOF
-- D19: the `time` token is consumed and dropped: `gap-not-layout` next to the leaf at (0,0)
#eval match (parse "time a".toList { proceed := true }).1 with
  | .parts ps => (ps.flatMap Spec.leaves, Spec.coverOK "time a".toList ps)
  | _ => ([], ["?"])
-- D11: the NEWLINE token extended over the body gathered one line late: operator (10,13)
#eval match (parse "(cat <<E\nx\nE\n)\n".toList {}).1 with
  | .parts ps => (ps.flatMap Spec.leaves, Spec.coverOK "(cat <<E\nx\nE\n)\n".toList ps)
  | _ => ([], ["?"])

end Bashlex.C05.TG
