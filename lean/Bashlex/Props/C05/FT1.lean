/-
  C05, character level, TIGHT regions (generated from `Props/C05/TGGather.lean` by renaming):
  the region `gatherheredocuments` consumes, per position: a newline, the backslash of a
  backslash-newline pair (`PosPN`) -- NOT "any character after a `#`" as `PosLay` allows --, or a
  position inside a here-document body recorded in the store (`GRegT`).
  The proof of `specGather_reg` already shows exactly this; only its statement used `PosLay`.
-/
import Bashlex.Props.C05Chars

namespace Bashlex.C05.TGT
open Bashlex Bashlex.C04 Bashlex.C10 Bashlex.C11 Bashlex.C05 Bashlex.C05.TG
set_option linter.unusedSimpArgs false
set_option linter.unusedVariables false

/-- position `p` of the line is a newline or the backslash of a backslash-newline pair -/
def PosPN (L : Str) (p : Nat) : Prop :=
  L[p]? = some '\n' ∨ (L[p]? = some '\\' ∧ L[p + 1]? = some '\n')

/-- the region `gatherheredocuments` consumes, tight -/
def GRegT (L : Str) (st : List RedirCell) (c c' : Nat) : Prop :=
  ∀ p, c ≤ p → p < c' → p < L.length → PosPN L p ∨ InBody st p

theorem GRegT.refl (L : Str) (st : List RedirCell) (c : Nat) : GRegT L st c c :=
  fun p h1 h2 _ => absurd h2 (by omega)

theorem GRegT.trans {L : Str} {st : List RedirCell} {a b c : Nat} (h1 : GRegT L st a b)
    (h2 : GRegT L st b c) : GRegT L st a c := by
  intro p hp1 hp2 hp3
  by_cases h : p < b
  · exact h1 p hp1 h hp3
  · exact h2 p (by omega) hp2 hp3

theorem GRegT.mono {L : Str} {st st' : List RedirCell} {a b : Nat} (h : GRegT L st a b)
    (hs : ∀ p, InBody st p → InBody st' p) : GRegT L st' a b := by
  intro p h1 h2 h3
  rcases h p h1 h2 h3 with h | h
  · exact Or.inl h
  · exact Or.inr (hs p h)

theorem posPN_posLay {L : Str} {p : Nat} (h : PosPN L p) : PosLay L p := by
  rcases h with h | ⟨h1, h2⟩
  · exact Or.inl h
  · exact posLay_of_skip (pair_skip h1 h2) (Nat.le_refl _) (by omega)

/-- forgetting tightness -/
theorem GRegT.loose {L : Str} {st : List RedirCell} {a b : Nat} (h : GRegT L st a b) :
    GReg L st a b := by
  intro p h1 h2 h3
  rcases h p h1 h2 h3 with h | h
  · exact Or.inl (posPN_posLay h)
  · exact Or.inr h

theorem del_nil_pos : ∀ {s w : Str}, Del s w → w = [] → ∀ i, i < s.length →
    s[i]? = some '\n' ∨ (s[i]? = some '\\' ∧ s[i + 1]? = some '\n') := by
  intro s w h
  induction h with
  | nil => intro _ i hi; simp at hi
  | keep c h ih => intro hw; cases hw
  | @skip s w h ih =>
    intro hw i hi
    cases i with
    | zero => exact Or.inr ⟨rfl, rfl⟩
    | succ j =>
      cases j with
      | zero => exact Or.inl rfl
      | succ j =>
        simp only [List.length_cons] at hi
        have := ih hw j (by omega)
        simpa using this

/-- a position inside a run of pairs -/
theorem posPN_of_del {L : Str} {a b p : Nat} (h1 : a ≤ b) (h2 : b ≤ L.length)
    (h3 : Del (Str.slice L a b) []) (hp1 : a ≤ p) (hp2 : p < b) : PosPN L p := by
  have hlen : (Str.slice L a b).length = b - a := C04.slice_length L h2
  have := del_nil_pos h3 rfl (p - a) (by rw [hlen]; omega)
  have e1 : a + (p - a) = p := by omega
  rcases this with hc | ⟨hc1, hc2⟩
  · rw [slice_getElem? L (by omega), e1] at hc
    exact Or.inl hc
  · rw [slice_getElem? L (by omega), e1] at hc1
    have hlt : p - a + 1 < (Str.slice L a b).length := by
      apply Classical.byContradiction
      intro hx
      rw [List.getElem?_eq_none (by omega)] at hc2
      cases hc2
    rw [slice_getElem? L (by rw [hlen] at hlt; omega)] at hc2
    have e2 : a + (p - a + 1) = p + 1 := by omega
    rw [e2] at hc2
    exact Or.inr ⟨hc1, hc2⟩

/-- what a finished call of `gatherheredocuments` did -/
def GOut (L : Str) (q : List (Nat × Bool)) (store : List RedirCell) (idx : Nat) :
    GatherOutI → Prop
  | .done store' idx' => idx ≤ idx' ∧ idx' ≤ L.length ∧ GRegT L store' idx idx' ∧
      ∀ j, j ∉ q.map Prod.fst → store'[j]? = store[j]?
  | .stopped store' _ => GRegT L store' idx (L.length + 1) ∧
      ∀ j, j ∉ q.map Prod.fst → store'[j]? = store[j]?
  | _ => True

theorem attach_heredoc (cell : RedirCell) (x y : Nat) (v : Str) :
    (attach cell x y v).heredoc = some ((x, y), v) := rfl

theorem specGather_reg (L : Str) (hl : LastNL L) (strict : Bool) :
    ∀ (q : List (Nat × Bool)) (store : List RedirCell) (idx : Nat), idx ≤ L.length →
      (q.map Prod.fst).Nodup → GOut L q store idx (specGather L strict q store idx)
  | [], store, idx, hi, _ => by
    rw [specGather_nil L strict store hi]
    exact ⟨Nat.le_refl _, hi, GRegT.refl _ _ _, fun _ _ => rfl⟩
  | (id, kill) :: q, store, idx, hi, hnd => by
    rw [specGather_cons]
    obtain ⟨k1, k2, k3⟩ := skipContIdx_facts L hi
    have hpre : ∀ st, GRegT L st idx (skipContIdx L idx) := fun st p hp1 hp2 _ =>
      Or.inl (posPN_of_del k1 k2 k3 hp1 hp2)
    simp only [List.map_cons, List.nodup_cons] at hnd
    obtain ⟨hid, hnd'⟩ := hnd
    split
    · rename_i hstop
      refine ⟨?_, fun _ _ => rfl⟩
      intro p hp1 hp2 hp3
      exact hpre _ p hp1 (by rw [hstop.1]; exact hp3) hp3
    · cases hcell : store[id]? with
      | none => exact True.intro
      | some cell =>
        simp only []
        cases hh : specHeredoc L (skipContIdx L idx) cell.delim kill with
        | none => exact True.intro
        | some w =>
          obtain ⟨v, i⟩ := w
          simp only []
          obtain ⟨c1, c2, c3⟩ := specHeredoc_cursor hh
          have hnlast : L[i - 1]? = some '\n' := by
            rcases c3 with c3 | c3
            · exact c3
            · have hne : L ≠ [] := by
                intro h0; rw [h0] at c2; simp at c2; omega
              rw [c3, ← List.getLast?_eq_getElem?]; exact hl hne
          have ih := specGather_reg L hl strict q
            (store.set id (attach cell (skipContIdx L idx) (i - 1) v)) i c2 hnd'
          have hidlt : id < store.length := (List.getElem?_eq_some_iff.mp hcell).1
          -- the cell `id` of the final store carries the body
          have hbody : ∀ store' : List RedirCell, (∀ j, j ∉ q.map Prod.fst → store'[j]? =
              (store.set id (attach cell (skipContIdx L idx) (i - 1) v))[j]?) →
              GRegT L store' idx i := by
            intro store' hfr p hp1 hp2 hp3
            by_cases hpx : p < skipContIdx L idx
            · exact hpre _ p hp1 hpx hp3
            · by_cases hpi : p = i - 1
              · left; left; rw [hpi]; exact hnlast
              · right
                have hc : store'[id]? = some (attach cell (skipContIdx L idx) (i - 1) v) := by
                  rw [hfr id hid, List.getElem?_set_self hidlt]
                exact ⟨_, List.mem_of_getElem? hc, _, _, _, attach_heredoc _ _ _ _,
                  by omega, by omega⟩
          have hframe : ∀ store' : List RedirCell, (∀ j, j ∉ q.map Prod.fst → store'[j]? =
              (store.set id (attach cell (skipContIdx L idx) (i - 1) v))[j]?) →
              ∀ j, j ∉ (id :: q.map Prod.fst) → store'[j]? = store[j]? := by
            intro store' hfr j hj
            simp only [List.mem_cons, not_or] at hj
            rw [hfr j hj.2, List.getElem?_set_ne (Ne.symm hj.1)]
          revert ih
          cases specGather L strict q (store.set id (attach cell (skipContIdx L idx) (i - 1) v)) i with
          | done store' idx' =>
            rintro ⟨d1, d2, d3, d4⟩
            exact ⟨by omega, d2, (hbody store' d4).trans d3, hframe store' d4⟩
          | stopped store' q' =>
            rintro ⟨d1, d2⟩
            exact ⟨(hbody store' d2).trans d1, hframe store' d2⟩
          | eof d => exact fun _ => True.intro
          | badId j => exact fun _ => True.intro

/-! ## the triple -/

theorem tapeOf_gres (l : Local) (e : Env) (i : Nat) (q : List (Nat × Bool))
    (st : List RedirCell) :
    tapeOf ({ atL l e i with redirstack := q, store := st }) (atE l e i) =
      { tapeOf l e with idx := i } := by
  unfold atL atE
  cases l with
  | mk tape => cases tape <;> rfl

theorem gres_eol (l : Local) (e : Env) (i : Nat) (q : List (Nat × Bool)) (st : List RedirCell) :
    ({ atL l e i with redirstack := q, store := st } : Local).eolLookahead = l.eolLookahead := by
  unfold atL
  cases l with
  | mk tape => cases tape <;> rfl

theorem gres_positions (l : Local) (e : Env) (i : Nat) (q : List (Nat × Bool))
    (st : List RedirCell) :
    ({ atL l e i with redirstack := q, store := st } : Local).positions = l.positions := by
  unfold atL
  cases l with
  | mk tape => cases tape <;> rfl

/-- the state after `gatherheredocuments` entered at cursor `c` -/
def GathQ (L : Str) (ps : List Nat) (c : Nat) (l : Local) (e : Env) : Prop :=
  (tapeOf l e).line = L ∧ l.eolLookahead = none ∧ l.positions = ps ∧ c ≤ (tapeOf l e).idx ∧
    GRegT L l.store c (tapeOf l e).idx

/-- the line ends in a newline: no final backslash -/
theorem lastNL_nbs {L : Str} (h : LastNL L) : NoFinalBackslash L := by
  unfold NoFinalBackslash
  intro hb
  have hne : L ≠ [] := by intro h0; rw [h0] at hb; cases hb
  rw [h hne] at hb
  cases hb

/-- **`gatherheredocuments`** from an exact cursor `c` inside the line, distinct ids queued:
    the cursor moves forward over a `GRegT` region -/
theorem gather_reg {L : Str} {ps : List Nat} {c : Nat} (hl : LastNL L)
    (hlen : L.length < 1073741824) :
    HT (fun l e => (tapeOf l e).line = L ∧ (tapeOf l e).idx = c ∧ c ≤ L.length ∧
          l.eolLookahead = none ∧ l.positions = ps ∧ (l.redirstack.map Prod.fst).Nodup)
      gatherheredocuments (fun _ l e => GathQ L ps c l e) C03.Tok.ET := by
  rintro l e ⟨a1, a2, a3, a4, a5, a6⟩
  have hready : Ready l e :=
    ⟨a4, by rw [a1, a2]; exact a3, by rw [a1]; exact hlen, by rw [a1]; exact lastNL_nbs hl⟩
  rw [gather_spec hready, a1, a2]
  have key := specGather_reg L hl (strictOf l e) l.redirstack l.store c a3 a6
  revert key
  cases specGather L (strictOf l e) l.redirstack l.store c with
  | done store' idx' =>
    rintro ⟨d1, d2, d3, _⟩
    simp only [gatherResultI]
    refine ⟨?_, ?_, ?_, ?_, ?_⟩
    · rw [tapeOf_gres]; exact a1
    · rw [gres_eol]; exact a4
    · rw [gres_positions]; exact a5
    · rw [tapeOf_gres]; exact d1
    · rw [tapeOf_gres]; exact d3
  | stopped store' q' =>
    rintro ⟨d1, _⟩
    simp only [gatherResultI]
    refine ⟨?_, ?_, ?_, ?_, ?_⟩
    · rw [tapeOf_gres]; exact a1
    · rw [gres_eol]; exact a4
    · rw [gres_positions]; exact a5
    · rw [tapeOf_gres]; show c ≤ (tapeOf l e).line.length + 1; rw [a1]; omega
    · rw [tapeOf_gres]; show GRegT L store' c ((tapeOf l e).line.length + 1); rw [a1]; exact d1
  | eof d => intro _; simp only [gatherResultI]; exact True.intro
  | badId j => intro _; simp only [gatherResultI]; exact True.intro

end Bashlex.C05.TGT
