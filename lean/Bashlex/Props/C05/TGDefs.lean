/-
  C05, character level, part 1: what the tokenizer skips.

  `Skip L i a`: the text `L[i:a]` of the tokenizer's line between the cursor `i` at which
  `token()` is entered and the start `a` of the token it delivers: a run of blanks (space, tab)
  and backslash-newline pairs (`BlankRun`), optionally followed by a comment `#…` that runs up to
  (not including) the newline at `a` -- that newline is the NEWLINE token delivered.
  `GReg L st c c'`: the text `gatherheredocuments` consumes from cursor `c` to `c'`: every
  position is a newline, lies in a skipped run, or inside a here-document body recorded in the
  redirect store `st`.

  `skipOK`, `gregB`: decidable checkers (used by the evaluation in `TGValidate.lean`), sound for
  the propositions.
-/
import Bashlex.Props.C04.TTDel
import Bashlex.Model.Monad

namespace Bashlex.C05.TG
open Bashlex Bashlex.C04

/-- `L[i:m]` is a run of blanks (space, tab) and backslash-newline pairs -/
def BlankRun (L : Str) (i m : Nat) : Prop :=
  i ≤ m ∧ m ≤ L.length ∧ ∃ w, Del (Str.slice L i m) w ∧ ∀ c ∈ w, shellblank c = true

/-- `L[m:a]` is a comment: it starts with `#`, holds no newline, and the character at `a` is the
    newline that ends it -/
def Comment (L : Str) (m a : Nat) : Prop :=
  m < a ∧ L[m]? = some '#' ∧ (∀ k, m ≤ k → k < a → L[k]? ≠ some '\n') ∧ L[a]? = some '\n'

/-- **what `token()` skips** between its entry cursor `i` and the start `a` of the token -/
def Skip (L : Str) (i a : Nat) : Prop := ∃ m, BlankRun L i m ∧ (m = a ∨ Comment L m a)

/-- position `p` lies inside a here-document body recorded in the store -/
def InBody (st : List RedirCell) (p : Nat) : Prop :=
  ∃ c ∈ st, ∃ x y v, c.heredoc = some ((x, y), v) ∧ x ≤ p ∧ p < y

/-- position `p` of the line is layout: a newline, or inside a skipped run
    (blanks, line continuations, a comment) -/
def PosLay (L : Str) (p : Nat) : Prop :=
  L[p]? = some '\n' ∨ ∃ a b, a ≤ p ∧ p < b ∧ Skip L a b

/-- the region `gatherheredocuments` consumes -/
def GReg (L : Str) (st : List RedirCell) (c c' : Nat) : Prop :=
  ∀ p, c ≤ p → p < c' → p < L.length → PosLay L p ∨ InBody st p

/-! ## basic facts -/

theorem BlankRun.refl (L : Str) {i : Nat} (h : i ≤ L.length) : BlankRun L i i :=
  ⟨Nat.le_refl _, h, [], by rw [slice_self]; exact .nil, fun c hc => by cases hc⟩

theorem BlankRun.trans {L : Str} {i j k : Nat} (h1 : BlankRun L i j) (h2 : BlankRun L j k) :
    BlankRun L i k := by
  obtain ⟨a1, a2, w1, a3, a4⟩ := h1
  obtain ⟨b1, b2, w2, b3, b4⟩ := h2
  refine ⟨by omega, b2, w1 ++ w2, ?_, ?_⟩
  · rw [← slice_cat L a1 b1 b2]; exact a3.append b3
  · intro c hc
    rcases List.mem_append.mp hc with hc | hc
    · exact a4 c hc
    · exact b4 c hc

/-- a run of pairs -/
theorem BlankRun.ofDel {L : Str} {i j : Nat} (h1 : i ≤ j) (h2 : j ≤ L.length)
    (h : Del (Str.slice L i j) []) : BlankRun L i j :=
  ⟨h1, h2, [], h, fun c hc => by cases hc⟩

/-- one blank -/
theorem BlankRun.one {L : Str} {j : Nat} {ch : Char} (h : L[j]? = some ch)
    (hb : shellblank ch = true) : BlankRun L j (j + 1) := by
  have hlt := (List.getElem?_eq_some_iff.mp h).1
  refine ⟨Nat.le_succ _, hlt, [ch], ?_, ?_⟩
  · rw [slice_one L h]; exact Del.refl _
  · intro c hc
    simp only [List.mem_singleton] at hc
    subst hc; exact hb

theorem Skip.ofBlank {L : Str} {i a : Nat} (h : BlankRun L i a) : Skip L i a := ⟨a, h, Or.inl rfl⟩

theorem Skip.le {L : Str} {i a : Nat} (h : Skip L i a) : i ≤ a := by
  obtain ⟨m, ⟨h1, _⟩, h2⟩ := h
  rcases h2 with rfl | ⟨h2, _⟩
  · exact h1
  · omega

theorem posLay_of_skip {L : Str} {i a p : Nat} (h : Skip L i a) (h1 : i ≤ p) (h2 : p < a) :
    PosLay L p := Or.inr ⟨i, a, h1, h2, h⟩

theorem GReg.refl (L : Str) (st : List RedirCell) (c : Nat) : GReg L st c c :=
  fun p h1 h2 _ => absurd h2 (by omega)

theorem GReg.trans {L : Str} {st : List RedirCell} {a b c : Nat} (h1 : GReg L st a b)
    (h2 : GReg L st b c) : GReg L st a c := by
  intro p hp1 hp2 hp3
  by_cases h : p < b
  · exact h1 p hp1 h hp3
  · exact h2 p (by omega) hp2 hp3

theorem InBody.mono {st st' : List RedirCell} {p : Nat} (h : InBody st p)
    (hs : ∀ c ∈ st, ∀ b, c.heredoc = some b → ∃ c' ∈ st', c'.heredoc = some b) : InBody st' p := by
  obtain ⟨c, hc, x, y, v, h1, h2, h3⟩ := h
  obtain ⟨c', hc', h4⟩ := hs c hc _ h1
  exact ⟨c', hc', x, y, v, h4, h2, h3⟩

/-! ## decidable checkers -/

/-- is `s` a run of blanks and backslash-newline pairs -/
def blankRunB : Str → Bool
  | [] => true
  | [c] => shellblank c
  | c :: d :: s => (shellblank c && blankRunB (d :: s)) || (c == '\\' && d == '\n' && blankRunB s)

theorem blankRunB_sound : ∀ (s : Str), blankRunB s = true →
    ∃ w, Del s w ∧ ∀ c ∈ w, shellblank c = true
  | [], _ => ⟨[], .nil, fun c hc => by cases hc⟩
  | [c], h => by
    refine ⟨[c], Del.refl _, fun x hx => ?_⟩
    simp only [List.mem_singleton] at hx
    subst hx; simpa [blankRunB] using h
  | c :: d :: s, h => by
    unfold blankRunB at h
    rw [Bool.or_eq_true] at h
    rcases h with h | h
    · simp only [Bool.and_eq_true] at h
      obtain ⟨w, h1, h2⟩ := blankRunB_sound (d :: s) h.2
      refine ⟨c :: w, .keep c h1, fun x hx => ?_⟩
      rcases List.mem_cons.mp hx with rfl | hx
      · exact h.1
      · exact h2 x hx
    · simp only [Bool.and_eq_true, beq_iff_eq] at h
      obtain ⟨⟨rfl, rfl⟩, h3⟩ := h
      obtain ⟨w, h1, h2⟩ := blankRunB_sound s h3
      exact ⟨w, .skip h1, h2⟩

def commentB (L : Str) (m a : Nat) : Bool :=
  decide (m < a) && L[m]? == some '#' &&
    (List.range (a - m)).all (fun d => L[m + d]? != some '\n') && L[a]? == some '\n'

theorem commentB_sound {L : Str} {m a : Nat} (h : commentB L m a = true) : Comment L m a := by
  unfold commentB at h
  simp only [Bool.and_eq_true, decide_eq_true_eq, beq_iff_eq, List.all_eq_true, List.mem_range,
    bne_iff_ne, ne_eq] at h
  obtain ⟨⟨⟨h1, h2⟩, h3⟩, h4⟩ := h
  refine ⟨h1, h2, fun k hk1 hk2 => ?_, h4⟩
  have := h3 (k - m) (by omega)
  have e : m + (k - m) = k := by omega
  rw [e] at this
  exact this

/-- checker for `Skip` -/
def skipOK (L : Str) (i a : Nat) : Bool :=
  (List.range (a + 1 - i)).any fun d =>
    decide (i + d ≤ L.length) && blankRunB (Str.slice L i (i + d)) &&
      (i + d == a || commentB L (i + d) a)

theorem skipOK_sound {L : Str} {i a : Nat} (h : skipOK L i a = true) : Skip L i a := by
  unfold skipOK at h
  simp only [List.any_eq_true, List.mem_range, Bool.and_eq_true, decide_eq_true_eq,
    Bool.or_eq_true, beq_iff_eq] at h
  obtain ⟨d, _, ⟨h1, h2⟩, h3⟩ := h
  obtain ⟨w, hw1, hw2⟩ := blankRunB_sound _ h2
  refine ⟨i + d, ⟨Nat.le_add_right _ _, h1, w, hw1, hw2⟩, ?_⟩
  rcases h3 with h3 | h3
  · exact Or.inl h3
  · exact Or.inr (commentB_sound h3)

def inBodyB (st : List RedirCell) (p : Nat) : Bool :=
  st.any fun c => match c.heredoc with
    | some ((x, y), _) => decide (x ≤ p) && decide (p < y)
    | none => false

theorem inBodyB_sound {st : List RedirCell} {p : Nat} (h : inBodyB st p = true) : InBody st p := by
  unfold inBodyB at h
  rw [List.any_eq_true] at h
  obtain ⟨c, hc, h1⟩ := h
  cases hh : c.heredoc with
  | none => rw [hh] at h1; cases h1
  | some b =>
    obtain ⟨⟨x, y⟩, v⟩ := b
    rw [hh] at h1
    simp only [Bool.and_eq_true, decide_eq_true_eq] at h1
    exact ⟨c, hc, x, y, v, hh, h1.1, h1.2⟩

/-- checker for `GReg`: newline, member of a backslash-newline pair, or inside a body -/
def gregB (L : Str) (st : List RedirCell) (c c' : Nat) : Bool :=
  (List.range (min c' L.length - c)).all fun d =>
    let p := c + d
    L[p]? == some '\n' || (L[p]? == some '\\' && L[p + 1]? == some '\n') || inBodyB st p

theorem pair_skip {L : Str} {p : Nat} (h1 : L[p]? = some '\\') (h2 : L[p + 1]? = some '\n') :
    Skip L p (p + 2) := by
  have hlt := (List.getElem?_eq_some_iff.mp h2).1
  refine Skip.ofBlank (BlankRun.ofDel (by omega) (by omega) ?_)
  rw [slice_cons L h1 (by omega), slice_one L h2]
  exact .skip .nil

theorem gregB_sound {L : Str} {st : List RedirCell} {c c' : Nat} (h : gregB L st c c' = true) :
    GReg L st c c' := by
  unfold gregB at h
  simp only [List.all_eq_true, List.mem_range, Bool.or_eq_true, Bool.and_eq_true, beq_iff_eq] at h
  intro p hp1 hp2 hp3
  have := h (p - c) (by omega)
  have e : c + (p - c) = p := by omega
  rw [e] at this
  rcases this with (h1 | ⟨h1, h2⟩) | h1
  · exact Or.inl (Or.inl h1)
  · exact Or.inl (posLay_of_skip (pair_skip h1 h2) (Nat.le_refl _) (by omega))
  · exact Or.inr (inBodyB_sound h1)

end Bashlex.C05.TG
