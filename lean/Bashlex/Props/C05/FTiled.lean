/-
  C05, residual R2, one run: the leaves of the tree of ONE parser run, in tree order, TILE the
  run's line, and `Spec.gapsOK` -- the walker of the executable `Spec.coverOK` -- finds nothing
  to report between them, for runs WITHOUT here-document bodies and without D19.

  `tiled_of_covers`: from the token-level cover `FCoversStrict` (no `time` group) and the chain
  of the run, when no leaf of the tree is flagged as a here-document body (decidable on the
  returned tree; then no body is attached in the store at all: every attached body IS such a
  leaf, `C05_final`): the leaves `ls` in tree order satisfy `Tiled L i ls`: each leaf starts at
  or after the end of the one before, is non-empty, and the text between is
  `Spec.isLayout`.
  `gapsOK_of_tiled`: on a tiled list `Spec.gapsOK` reports at most `trailing-text-not-layout`.
-/
import Bashlex.Props.C05.FLayout
import Bashlex.Props.C05

namespace Bashlex.C05.TGT
open Bashlex Bashlex.Spec Bashlex.M Bashlex.C04 Bashlex.C05 Bashlex.C05.TG Bashlex.C03.Tok
  Bashlex.C03
set_option linter.unusedSimpArgs false
set_option linter.unusedVariables false

/-- a token of the chain other than the end-of-input token has a position -/
theorem chain_pos {L : Str} {st : List RedirCell} {mid post : List Token} {t : Token} {i c : Nat}
    (h : ChainL L st i (mid ++ t :: post) c) (hne : t.ttype ≠ some .EOF) :
    ∃ a b, t.pos = some (a, b) := by
  obtain ⟨m, _, h2⟩ := ChainL.split h
  obtain ⟨i', e, _, _, c3, _⟩ := h2
  rcases c3 with ⟨a, _, hp, _, _⟩ | ⟨rfl, _, _⟩
  · exact ⟨a, e, hp⟩
  · exact absurd rfl hne

/-- from any point of the chain: the text up to the next token that is not a dropped NEWLINE -/
theorem seg_layout {L : Str} {st : List RedirCell} {mid post : List Token} {t : Token}
    {i c a b : Nat} (h : ChainL L st i (mid ++ t :: post) c) (hp : t.pos = some (a, b))
    (hmid : ∀ t ∈ mid, t.ttype = some .NEWLINE) (ha : a ≤ L.length)
    (hnb : ∀ p, ¬ InBody st p) : LF L i a ∧ a < b ∧ ChainL L st b post c := by
  obtain ⟨m, h4, h5⟩ := ChainL.split h
  obtain ⟨i', e, c1, c2, c3, c4⟩ := h5
  obtain ⟨rfl, hab, hsk⟩ := c3.pos hp
  have hia : i' ≤ a := hsk.le
  have l1 : LF L i' a := LF.skip hsk (LF.refl L ha)
  have l2 : LF L m a := LF.region (i' - m) m i' rfl c1 hia c2 (fun p _ _ => hnb p) l1
  have l3 : LF L i a := chain_layout h4 hmid (by omega) (fun p _ _ => hnb p) l2
  exact ⟨l3, hab, c4⟩

/-- the leaves, in order, tile the line from `i` on: each starts at or after the end of the one
    before, is non-empty, and the text between is layout in the sense of the specification -/
def Tiled (L : Str) : Nat → List (Span × Bool) → Prop
  | _, [] => True
  | i, (p, _) :: rest =>
    p.1 < p.2 ∧ LF L i p.1 ∧ Tiled L p.2 rest

/-- two tokens of one group: the first, then (after layout) the second -/
theorem two_tokens {L : Str} {st : List RedirCell} {post : List Token} {t1 t2 : Token}
    {c a1 b1 : Nat} (h : ChainL L st b1 (t2 :: post) c) (hne : t2.ttype ≠ some .EOF) :
    ∃ a2 b2, t2.pos = some (a2, b2) ∧ b1 ≤ a2 ∧ a2 < b2 ∧ ChainL L st b2 post c := by
  obtain ⟨a2, b2, hp2⟩ := chain_pos (mid := []) h hne
  obtain ⟨⟨x', h1, _, h3⟩, h4⟩ := h.first hp2
  obtain ⟨i', e, _, _, c3, _⟩ := h
  obtain ⟨_, hab, _⟩ := c3.pos hp2
  have := h3.le
  exact ⟨a2, b2, hp2, by omega, by omega, h4⟩

theorem redirLeaves_flag {p' : Span} {h' : Option Span}
    (hf : ∀ x ∈ redirLeaves p' h', x.2 = false) : h' = none := by
  cases h' with
  | none => rfl
  | some b =>
    exfalso
    unfold redirLeaves at hf
    simp only [] at hf
    split at hf
    · have := hf (p', true) (by simp); cases this
    · have := hf (b, true) (by simp); cases this

theorem hereOK_none {len : Nat} {p p' : Span} (h : HereOK len p p' none) : p' = p := by
  rcases h.2 with h | ⟨h, _⟩
  · exact h
  · cases h

/-- **the leaves of one run tile its line** (no here-document body, no D19) -/
theorem tiled_of_covers {L : Str} {st : List RedirCell} {la : List Token} {B len : Nat}
    (hnb : ∀ p, ¬ InBody st p) :
    ∀ {ts : List Token} {ls : List (Span × Bool)}, FCoversStrict len ts ls →
      (∀ x ∈ ls, x.2 = false) → NoEOF ts →
      ∀ (i : Nat) (mid : List Token), ChainL L st i (mid ++ ts ++ la) B →
        (∀ t ∈ mid, t.ttype = some .NEWLINE) → Tiled L i ls := by
  intro ts ls h
  induction h with
  | nil => intro _ _ i mid _ _; exact True.intro
  | @cons ts1 ls1 ts2 ls2 hg hne _ ih =>
    intro hfl hno i mid hch hmid
    have hfl1 : ∀ x ∈ ls1, x.2 = false := fun x hx => hfl x (List.mem_append_left _ hx)
    have hfl2 : ∀ x ∈ ls2, x.2 = false := fun x hx => hfl x (List.mem_append_right _ hx)
    have hno1 : NoEOF ts1 := fun t ht => hno t (List.mem_append_left _ ht)
    have hno2 : NoEOF ts2 := fun t ht => hno t (List.mem_append_right _ ht)
    -- a leaf spanning from the first token `t1` of the group to the end `bl` of its last token
    have one : ∀ (t1 : Token) (rest1 : List Token) (sp : Span),
        ts1 = t1 :: rest1 → ls1 = [(sp, false)] → sp.1 = t1.lexpos →
        (∀ a1 b1, t1.pos = some (a1, b1) → ChainL L st b1 (rest1 ++ ts2 ++ la) B →
          ∃ bl, sp.2 = bl ∧ b1 ≤ bl ∧ ChainL L st bl (ts2 ++ la) B) →
        Tiled L i (ls1 ++ ls2) := by
      intro t1 rest1 sp hts hls hsp hrest
      subst hts; subst hls
      have hch' : ChainL L st i (mid ++ t1 :: (rest1 ++ ts2 ++ la)) B := by
        simpa [List.append_assoc] using hch
      obtain ⟨a1, b1, hp1⟩ := chain_pos hch' (hno1 t1 List.mem_cons_self)
      have ha1 : a1 ≤ L.length := by
        obtain ⟨m, _, h2⟩ := ChainL.split hch'
        obtain ⟨i', e, _, _, c3, _⟩ := h2
        rcases c3 with ⟨a, _, hp, hae, hc⟩ | ⟨rfl, _, _⟩
        · rw [hp1] at hp
          cases hp
          rcases hc with ⟨_, hle⟩ | ⟨_, hLa, _⟩
          · omega
          · exact Nat.le_of_lt (List.getElem?_eq_some_iff.mp hLa).1
        · cases hp1
      obtain ⟨l1, hab, hc1⟩ := seg_layout hch' hp1 hmid ha1 hnb
      obtain ⟨bl, hbl, hle, hc2⟩ := hrest a1 b1 hp1 hc1
      have e1 : sp.1 = a1 := by rw [hsp, (tok_lexspan hp1).1]
      show Tiled L i ((sp, false) :: ls2)
      refine ⟨by rw [e1, hbl]; omega, by rw [e1]; exact l1, ?_⟩
      · rw [hbl]
        exact ih hfl2 hno2 bl [] (by simpa using hc2) (fun t ht => by cases ht)
    -- groups of two and three tokens
    have two : ∀ (t1 t2 : Token), ts1 = [t1, t2] →
        ∀ a1 b1, t1.pos = some (a1, b1) → ChainL L st b1 ([t2] ++ ts2 ++ la) B →
          ∃ bl, t2.endlexpos = bl ∧ b1 ≤ bl ∧ ChainL L st bl (ts2 ++ la) B := by
      intro t1 t2 hts a1 b1 _ hc
      have hne2 : t2.ttype ≠ some .EOF := hno1 t2 (by rw [hts]; simp)
      obtain ⟨a2, b2, hp2, h1, h2, h3⟩ := two_tokens (t1 := t1) (a1 := a1)
        (by simpa using hc) hne2
      exact ⟨b2, (tok_lexspan hp2).2, by omega, h3⟩
    have three : ∀ (t1 t2 t3 : Token), ts1 = [t1, t2, t3] →
        ∀ a1 b1, t1.pos = some (a1, b1) → ChainL L st b1 ([t2, t3] ++ ts2 ++ la) B →
          ∃ bl, t3.endlexpos = bl ∧ b1 ≤ bl ∧ ChainL L st bl (ts2 ++ la) B := by
      intro t1 t2 t3 hts a1 b1 _ hc
      have hne2 : t2.ttype ≠ some .EOF := hno1 t2 (by rw [hts]; simp)
      have hne3 : t3.ttype ≠ some .EOF := hno1 t3 (by rw [hts]; simp)
      obtain ⟨a2, b2, hp2, h1, h2, h3⟩ := two_tokens (t1 := t1) (a1 := a1)
        (by simpa using hc) hne2
      obtain ⟨a3, b3, hp3, g1, g2, g3⟩ := two_tokens (t1 := t2) (a1 := a2) h3 hne3
      exact ⟨b3, (tok_lexspan hp3).2, by omega, g3⟩
    cases hg with
    | leaf t =>
      refine one t [] (tokSpan t) rfl rfl rfl ?_
      intro a1 b1 hp1 hc
      exact ⟨b1, (tok_lexspan hp1).2, Nat.le_refl _, by simpa using hc⟩
    | drop t hd =>
      have hch' : ChainL L st i ((mid ++ [t]) ++ ts2 ++ la) B := by
        simpa [List.append_assoc] using hch
      have hnl : t.ttype = some .NEWLINE :=
        droppable_nl hch' (by simp) hd
      have := ih hfl2 hno2 i (mid ++ [t]) hch' (by
        intro t' ht'
        rcases List.mem_append.mp ht' with ht' | ht'
        · exact hmid t' ht'
        · simp only [List.mem_singleton] at ht'; subst ht'; exact hnl)
      simpa using this
    | redir2 op tgt hop =>
      exact one op [tgt] _ rfl rfl rfl (two op tgt rfl)
    | redir3 fd op tgt hfd hop =>
      exact one fd [op, tgt] _ rfl rfl rfl (three fd op tgt rfl)
    | here2 op tgt p' h' hop hok =>
      have hn := redirLeaves_flag hfl1
      subst hn
      have hp' := hereOK_none hok
      subst hp'
      exact one op [tgt] _ rfl rfl rfl (two op tgt rfl)
    | here3 fd op tgt p' h' hfd hop hok =>
      have hn := redirLeaves_flag hfl1
      subst hn
      have hp' := hereOK_none hok
      subst hp'
      exact one fd [op, tgt] _ rfl rfl rfl (three fd op tgt rfl)
    | d19 ts0 hne0 ht0 => exact absurd rfl hne

/-- **on a tiled list the walker of `Spec.coverOK` reports at most trailing text** -/
theorem gapsOK_of_tiled (L : Str) : ∀ (ls : List (Span × Bool)) (i : Nat) (pb : Bool),
    Tiled L i ls → ∀ v ∈ gapsOK L i pb ls, v = "trailing-text-not-layout"
  | [], i, pb, _ => by
    intro v hv
    unfold gapsOK at hv
    split at hv
    · cases hv
    · simpa using hv
  | (p, b) :: rest, i, pb, h => by
    intro v hv
    obtain ⟨h2, h3, h4⟩ := h
    have h1 := h3.1
    have hle := h3.2.1
    unfold gapsOK at hv
    rw [if_neg (by omega), if_pos (h3.2.2 _ (by omega))] at hv
    simp only [List.nil_append] at hv
    have e : max i p.2 = p.2 := by omega
    rw [e] at hv
    exact gapsOK_of_tiled L rest p.2 _ h4 v hv

end Bashlex.C05.TGT

#print axioms Bashlex.C05.TGT.tiled_of_covers
#print axioms Bashlex.C05.TGT.gapsOK_of_tiled
