/-
  C05, character level, part 5: the run theorems of `Props/C05/Hooks.lean` / `Props/C05Checked.lean`
  for a logged tokenizer invariant that PINS THE LINE of the run.

  `TokLog TL` asks `init` for every input `s`, so no `TL` satisfying it can say which line the
  parser object reads; the character-level statement needs that.  `TokLogC TL` is `TokLog TL`
  without `init` (`leaves_hooks` only uses `next` and `act`: `leaves_hooksC` is the same proof);
  the run theorems below take the initial fact for the input at hand, and the loop of `parse`
  uses a FAMILY `TLf s0` of invariants, one per run (`PartsC`).  The nested-parser contract
  (`NPSpans`) is a hypothesis `hN` here (`SplitsAs` of `C05Checked.lean` cannot express an
  invariant that mentions the state).
-/
import Bashlex.Props.C05Checked

namespace Bashlex.C05
open Bashlex Bashlex.Spec Bashlex.Node Bashlex.M Bashlex.LR Bashlex.C12 Bashlex.C03
set_option linter.unusedSimpArgs false
set_option linter.unusedVariables false

/-- `TokLog` without `init` -/
structure TokLogC (TL : List Token → Nat → Nat → Local → Env → Prop) : Prop where
  next : ∀ ts len f st, SatS nextToken (fun l e => TL ts len f l e ∧ l.store = st)
    (fun t l e => ∃ a b, f ≤ a ∧ TokAt len t a b ∧ TL (ts ++ [t]) len b l e ∧
      StoreStep len f false st l.store)
  act : ∀ ts, TokAct (TL ts)

theorem TokLog.core {TL : List Token → Nat → Nat → Local → Env → Prop} (h : TokLog TL) :
    TokLogC TL := ⟨h.next, h.act⟩

/-- **the order of the log is an invariant of every token source satisfying `TokLogC`** -/
theorem TokLogC.sorted {TL : List Token → Nat → Nat → Local → Env → Prop} (h : TokLogC TL) :
    TokLogC (TLs TL) := by
  refine ⟨?_, ?_⟩
  · intro ts len f st
    have := satS_with (C := LogSorted ts f) (h.next ts len f st)
    refine SatS.weaken this ?_ ?_ (fun _ h => h)
    · rintro l e ⟨⟨h1, h2⟩, h3⟩; exact ⟨h2, h1, h3⟩
    · rintro t l e ⟨hs, a, b, h1, h2, h3, h4⟩
      exact ⟨a, b, h1, h2, ⟨h3, logSorted_snoc hs h1 h2⟩, h4⟩
  · intro ts
    refine ⟨?_, ?_, ?_, ?_⟩
    · intro len f st
      have := satS_with (C := LogSorted ts f) ((h.act ts).gather len f st)
      refine SatS.weaken this ?_ ?_ (fun _ h => h)
      · rintro l e ⟨⟨h1, h2⟩, h3⟩; exact ⟨h2, h1, h3⟩
      · rintro _ l e ⟨hs, h1, h2⟩; exact ⟨⟨h1, hs⟩, h2⟩
    · rintro len f l e cell kill ⟨h1, h2⟩ h3 h4 h5
      exact ⟨(h.act ts).queue len f l e cell kill h1 h3 h4 h5, h2⟩
    · rintro len f l e ps ⟨h1, h2⟩
      exact ⟨(h.act ts).ps len f l e ps h1, h2⟩
    · intro d len f st s b
      have := satS_with (C := LogSorted ts f) ((h.act ts).nested d len f st s b)
      refine SatS.weaken this ?_ ?_ (fun _ h => h)
      · rintro l e ⟨⟨h1, h2⟩, h3⟩; exact ⟨h2, h1, h3⟩
      · rintro _ l e ⟨hs, h1, h2⟩; exact ⟨⟨h1, hs⟩, h2⟩

/-! ## the hooks (same proof as `leaves_hooks`) -/

section
variable {TL : List Token → Nat → Nat → Local → Env → Prop} {len : Nat}

theorem leaves_hooksC (hL : TokLogC TL) {np : NestedParse} (hnp : NPOK np)
    (hW : ∀ tr F st, C03.WordSat (StP (TL tr) len F st) np len) :
    HooksOrdH realTables (lrHooks np) (SIL TL len) (FinL TL len) (fun _ => True)
      (fun s => s = iuSym) := by
  have hC := hooks_ok sat_nextToken hnp
  refine ⟨?_, ?_, ?_, ?_, ?_, fun la => Sat.trivial _⟩
  · -- next: the token delivered is appended to the log
    intro vs
    have h1 : SatS (lrHooks np).next (SIL TL len vs none)
        (fun la l e => ∃ lead tss, (Covers lead [] ∧ NoEOF lead) ∧ Forall2 Acc vs tss ∧
          SIs (TL (lead ++ tss.flatten ++ laToks (some la))) len vs (some la) l e ∧
          ∀ x ∈ vs, VI x.1 x.2) := by
      refine SatS.intro_state ?_
      rintro l e ⟨lead, tss, hlead, hacc, ⟨g, F, hseg, hlain, hti, hent⟩, hvi, _⟩
      show SatS (nextToken >>= fun t => pure (symOfTok t, SVal.tok t)) _ _
      refine SatS.bind (SatS.pre (hL.next (lead ++ tss.flatten ++ laToks none) len F l.store) ?_) ?_
      · rintro l1 e1 ⟨rfl, rfl⟩; exact ⟨hti, rfl⟩
      · intro t
        refine SatS.pure ?_
        rintro l' e' ⟨a, b, hFa, htok, hti', hstep⟩
        refine ⟨lead, tss, hlead, hacc, ⟨g, b, hseg, ⟨t, a, b, rfl, ?_, Nat.le_refl _, htok⟩, ?_, ?_⟩,
          hvi⟩
        · have : g ≤ F := hlain
          omega
        · simpa [laToks] using hti'
        · intro x hx; exact entryOK_step hstep (hent x hx)
    refine SatS.post (SatS.and_sat h1 hC.next) ?_
    rintro la l e ⟨⟨lead, tss, hlead, hacc, hs, hvi⟩, hla⟩
    exact ⟨lead, tss, hlead, hacc, hs, hvi, by intro x hx; cases hx; exact hla⟩
  · -- shift: the look-ahead becomes an entry accounting for itself
    rintro vs la l e ⟨lead, tss, hlead, hacc, ⟨g, F, hseg, hlain, hti, hent⟩, hvi, hvila⟩
    obtain ⟨t, a, b, rfl, hga, hbF, htok⟩ := hlain
    refine ⟨lead, tss ++ [[t]], hlead, forall2_snoc hacc (acc_tok t), ⟨F, F,
      Seg.append hseg (seg_single.mpr (tokAt_valIn htok hga hbF)), Nat.le_refl F, ?_, ?_⟩,
      ?_, by intro x hx; cases hx⟩
    · simpa [laToks, List.append_assoc] using hti
    · intro x hx
      rcases List.mem_append.mp hx with hx | hx
      · exact hent x hx
      · simp only [List.mem_singleton] at hx; subst hx; exact Or.inl fresh_tok
    · intro x hx
      rcases List.mem_append.mp hx with hx | hx
      · exact hvi x hx
      · simp only [List.mem_singleton] at hx; subst hx; exact hvila _ rfl
  · -- a NEWLINE shifted in state 0 is dropped
    rintro la l e hnl ⟨lead, tss, hlead, hacc, ⟨g, F, hseg, hlain, hti, hent⟩, hvi, hvila⟩
    obtain ⟨t, a, b, rfl, hga, hbF, htok⟩ := hlain
    have htss : tss = [] := by cases hacc; rfl
    subst htss
    have hd : Droppable t := Or.inl (symOfTok_nl_inv hnl)
    have hlead' : Covers (lead ++ [t]) [] ∧ NoEOF (lead ++ [t]) := by
      refine ⟨?_, ?_⟩
      · have := Covers.append hlead.1 (Covers.drop hd)
        simpa using this
      · intro t' ht'
        rcases List.mem_append.mp ht' with ht' | ht'
        · exact hlead.2 t' ht'
        · simp only [List.mem_singleton] at ht'
          subst ht'
          rw [symOfTok_nl_inv hnl]
          intro hc; cases hc
    refine ⟨lead ++ [t], [], hlead', .nil, ⟨0, F, Nat.le_refl 0, Nat.zero_le F, ?_,
      (by intro x hx; cases hx)⟩, ⟨(by intro x hx; cases hx), (by intro x hx; cases hx)⟩⟩
    simpa [laToks] using hti
  · -- the semantic actions
    intro p lhs rhs rest args la hprod hargs hrest hla
    rw [lrHooks_act]
    refine SatS.intro_state ?_
    rintro l0 e0 ⟨lead, tss, hlead, hacc, hs0, hvi, hvila⟩
    obtain ⟨tssR, tssA, rfl, haccR, haccA⟩ := forall2_append_left hacc
    have hti0 : ∃ F, TL (lead ++ (tssR ++ tssA).flatten ++ laToks la) len F l0 e0 := by
      obtain ⟨g, F, _, _, hti, _⟩ := hs0
      exact ⟨F, hti⟩
    have hvargs : ∀ x ∈ args, VI x.1 x.2 := fun x hx => hvi x (List.mem_append_right _ hx)
    have hvrest : ∀ x ∈ rest, VI x.1 x.2 := fun x hx => hvi x (List.mem_append_left _ hx)
    have hF2 : Forall2 VI rhs (args.map (·.2)) := by rw [← hargs]; exact forall2_vi args hvargs
    have hCact := hC.act p lhs rhs _ hprod hF2
    have hp' : Gen.prodTable[p]? = some (lhs, rhs) := hprod
    have hlt : p < Gen.prodFuncs.length := by
      rw [prodFuncs_length]; exact (List.getElem?_eq_some_iff.mp hp').1
    have hfn : Gen.prodFuncs[p]? = some (fn p) := by
      simp [fn, List.getD_eq_getElem?_getD, List.getElem?_eq_getElem hlt]
    have hz : (List.zip Gen.prodFuncs Gen.prodTable)[p]? = some (fn p, (lhs, rhs)) :=
      List.getElem?_zip_eq_some.mpr ⟨hfn, hp'⟩
    have hg := grammar_ok
    unfold grammarCheck at hg
    have hthis := List.all_eq_true.mp hg _ (List.mem_of_getElem? hz)
    simp only [Bool.or_eq_true, beq_iff_eq] at hthis
    rcases hthis with he | hab
    · rw [he]
      exact SatS.weaken (SatS.of_sat action_unknown _) (fun _ _ _ => trivial)
        (fun _ _ _ h => h.elim) (fun _ h => h)
    · have hspan := satS_action_of_core
        (act_spans (TI := TL (lead ++ (tssR ++ tssA).flatten ++ laToks la)) (len := len)
          (hL.act _) (hW _) hprod hargs hrest hla hab (forall2_hasSort_of_vi hF2))
      have hleaf : Sat (action np (fn p) (args.map (·.2))) (PostL lhs tssA) :=
        sat_action_of_core (act_leaves hprod hargs hab (forall2_hasSort_of_vi hF2) haccA)
      have hacc' := sat_action_accepts (np := np) (fname := fn p) (args := args.map (·.2))
      refine SatS.weaken (SatS.and_sat (SatS.and_sat (SatS.and_sat hspan
        (hCact.weaken (fun _ h => h.1) (fun _ _ => trivial))) hleaf) hacc') ?_ ?_ (fun _ h => h)
      · rintro l e ⟨rfl, rfl⟩; exact hs0
      · rintro r l e ⟨⟨⟨hpost, hvr⟩, hpl⟩, hfa⟩
        unfold PostS at hpost
        by_cases hacc1 : r.2 = true
        · simp only [hacc1, if_true] at hpost ⊢
          refine ⟨hpost, ?_⟩
          intro n hn
          have hrest0 := rest_nil_of_accept hprod hrest (hfa hacc1)
          subst hrest0
          have htR : tssR = [] := by cases haccR; rfl
          subst htR
          obtain ⟨F, hti⟩ := hti0
          refine ⟨lead ++ tssA.flatten, laToks la, F, l0, e0, by simpa using hti, laToks_le la, ?_, ?_⟩
          · intro t ht
            rcases List.mem_append.mp ht with ht | ht
            · exact hlead.2 t ht
            · exact hpl.2.2 t ht
          · have := Covers.append hlead.1 (hpl.1 n hn)
            simpa using this
        · simp only [hacc1, if_false] at hpost ⊢
          have hfalse : r.2 = false := by simpa using hacc1
          refine ⟨lead, tssR ++ [tssA.flatten], hlead, forall2_snoc haccR (hpl.2.1 hfalse),
            ⟨?_, ?_, hvila⟩⟩
          · have he : (tssR ++ [tssA.flatten]).flatten = (tssR ++ tssA).flatten := by simp
            rw [he]
            exact hpost
          · intro x hx
            rcases List.mem_append.mp hx with hx | hx
            · exact hvrest x hx
            · simp only [List.mem_singleton] at hx; subst hx; exact hvr
  · -- the `accept` entry: the top of the stack is an `inputunit` entry, which holds `None`
    rintro vs x la l e hx ⟨lead, tss, hlead, hacc, hsi⟩
    obtain ⟨tssR, tssA, rfl, haccR, haccA⟩ := forall2_append_left hacc
    obtain ⟨ts, rfl, hax⟩ := forall2_1 haccA
    have hnone : x.2 = .none := acc_none_of_iu hax hx
    refine ⟨?_, ?_⟩
    · intro n hn; rw [hnone] at hn; cases hn
    · intro n hn; rw [hnone] at hn; cases hn

end

/-! ## one checked parser run, the loop of `parse` -/

section
attribute [local instance] C16.stdEnvRel
variable {TL : List Token → Nat → Nat → Local → Env → Prop}

/-- **one checked parser run** from an initial state in which the invariant holds -/
theorem parserRunK_leavesC (hL : TokLogC TL)
    (hN : ∀ tr d, NPSpans (TL tr) (npK true (parserRunK d))) :
    ∀ d s, SatS (parserRunK d) (fun l e => InitState s l e ∧ TL [] s.length 0 l e)
      (fun r _ _ => ∀ n, r = some n → RunOK TL s n) := by
  intro d
  cases d with
  | zero => intro s; exact SatS.raise trivial
  | succ d =>
    intro s
    rw [parserRunK_succ]
    unfold C16.level
    have hnps : ∀ tr, NPSpans (TL tr) (npK true (parserRunK d)) := fun tr => hN tr d
    have hH := leaves_hooksC (len := s.length) hL (npok_npK d)
      (fun tr => C03.wordContract_act (hL.act tr) _ (hnps tr) s.length)
    refine SatS.bind (SatS.weaken (run_sound_ordH real_WF accept_iu _ hH 1073741824) ?_
      (fun _ _ _ h => h) (fun _ _ => trivial)) (fun res => ?_)
    · intro l e hinit
      refine ⟨[], [], ⟨.nil, fun t ht => by cases ht⟩, .nil,
        ⟨0, 0, Nat.le_refl 0, Nat.le_refl 0, ?_, ?_⟩, ?_, ?_⟩
      · exact hinit.2
      · intro x hx; cases hx
      · intro x hx; cases hx
      · intro x hx; cases hx
    · refine SatS.bind SatS.get (fun l => ?_)
      split
      · rename_i n _ _ _
        refine SatS.pure ?_
        rintro l' e' ⟨rfl, hgood⟩ m hm
        cases hm
        obtain ⟨hfin, hcov⟩ := hgood
        obtain ⟨hs, hroot, hseal, g, hends, hdone⟩ := hfin n rfl
        obtain ⟨ts, la, F, l1, e1, htl, hla, hno, hc⟩ := hcov n rfl
        refine ⟨⟨strict_resolve _ n hs hends hdone, noPend_resolve _ n hseal, ?_⟩,
          ts, la, F, l1, e1, htl, hla, hno, ?_⟩
        · rcases hroot with ht | hne
          · exact Or.inl (tainted_resolve _ n hdone ht)
          · obtain ⟨e1', e2'⟩ := ext_pos_resolve hdone
            right; omega
        · rw [leaves_resolve]
          refine fcovers_of_covers (g := g) hc ?_
          intro id p hh hmem c hc'
          obtain ⟨m, hm1, hm2⟩ := pend_mem id p hh n hmem
          exact ((hdone m hm1) id p hm2).2 c hc'
      · exact SatS.pure (fun _ _ _ n hn => by cases hn)

theorem runParserK_leavesC (hL : TokLogC TL)
    (hN : ∀ tr d, NPSpans (TL tr) (npK true (parserRunK d))) {s : Str} {o : Opts}
    {t : List Char} {n : Node} (hinit : ∀ l e, InitState s l e → TL [] s.length 0 l e)
    (h : (runParserK s o t).1 = .ok (some n)) : RunOK TL s n := by
  obtain ⟨l', e', hr⟩ := runParserK_ok h
  have hi : InitState s ({ limit := o.limit } : Local)
      { tape := Tape.ofInput s, strict := o.strict, proceed := o.proceed, touched := t } :=
    ⟨rfl, rfl, rfl, rfl, Or.inr ⟨rfl, rfl⟩⟩
  exact (parserRunK_leavesC hL hN maxDepth s).ok ⟨hi, hinit _ _ hi⟩ hr n rfl

end

/-- **the parts `parse` returns from index `i` on**, each run with its own invariant `TLf s[i:]` -/
inductive PartsC (TLf : Str → List Token → Nat → Nat → Local → Env → Prop) (s : Str) :
    Nat → List Node → Prop
  | nil (i : Nat) : PartsC TLf s i []
  | cons {i : Nat} {n : Node} {rest : List Node} : i ≤ s.length →
      RunOK (TLf (s.drop i)) (s.drop i) n →
      PartsC TLf s (max (nextIndex (n.shift i)) (i + 1)) rest →
      PartsC TLf s i (n.shift i :: rest)

theorem PartsC.mem {TLf : Str → List Token → Nat → Nat → Local → Env → Prop} {s : Str} :
    ∀ {i : Nat} {ps : List Node}, PartsC TLf s i ps → ∀ part ∈ ps,
      ∃ k n, i ≤ k ∧ k ≤ s.length ∧ part = n.shift k ∧ RunOK (TLf (s.drop k)) (s.drop k) n := by
  intro i ps h
  induction h with
  | nil i => intro part hp; cases hp
  | @cons i n rest hi hrun _ ih =>
    intro part hp
    rcases List.mem_cons.mp hp with rfl | hp
    · exact ⟨i, n, Nat.le_refl i, hi, rfl, hrun⟩
    · obtain ⟨k, m, h1, h2, h3, h4⟩ := ih part hp
      refine ⟨k, m, ?_, h2, h3, h4⟩
      have : i + 1 ≤ max (nextIndex (n.shift i)) (i + 1) := Nat.le_max_right _ _
      omega

section
attribute [local instance] C16.stdEnvRel
variable {TLf : Str → List Token → Nat → Nat → Local → Env → Prop}

theorem parseLoopK_leavesC (hL : ∀ s0, TokLogC (TLf s0))
    (hN : ∀ s0 tr d, NPSpans (TLf s0 tr) (npK true (parserRunK d)))
    (hinit : ∀ s0 l e, InitState s0 l e → TLf s0 [] s0.length 0 l e) (s : Str) (o : Opts) :
    ∀ (fuel index : Nat) (acc : List Node) (touched : List Char) (ps : List Node),
      (parseLoopK s o fuel index acc touched).1 = .ok ps →
      ∃ rest, ps = acc ++ rest ∧ PartsC TLf s index rest := by
  intro fuel
  induction fuel with
  | zero => intro index acc touched ps h; simp [parseLoopK] at h
  | succ fuel ih =>
    intro index acc touched ps h
    unfold parseLoopK at h
    split at h
    · rename_i hidx
      rcases hr : runParserK (s.drop index) o touched with ⟨r, t⟩
      rw [hr] at h
      cases r with
      | error e => simp only [] at h; cases h
      | ok v =>
        cases v with
        | none => simp only [] at h; cases h; exact ⟨[], by simp, .nil _⟩
        | some part =>
          simp only [] at h
          have hp : RunOK (TLf (s.drop index)) (s.drop index) part :=
            runParserK_leavesC (hL _) (hN _) (hinit _) (by rw [hr])
          obtain ⟨rest, hps, hrest⟩ := ih _ _ _ ps h
          exact ⟨part.shift index :: rest, by simp [hps], .cons (Nat.le_of_lt hidx) hp hrest⟩
    · cases h; exact ⟨[], by simp, .nil _⟩

theorem parseK_leavesC (hL : ∀ s0, TokLogC (TLf s0))
    (hN : ∀ s0 tr d, NPSpans (TLf s0 tr) (npK true (parserRunK d)))
    (hinit : ∀ s0 l e, InitState s0 l e → TLf s0 [] s0.length 0 l e) (s : Str) (o : Opts)
    (parts : List Node) (h : (parseK s o).1 = .parts parts) : PartsC TLf s 0 parts := by
  unfold parseK at h
  rcases hr : runParserK s o [] with ⟨r, t⟩
  rw [hr] at h
  cases r with
  | error e => simp only [] at h; cases h
  | ok v =>
    cases v with
    | none => simp only [] at h; cases h; exact .nil _
    | some first =>
      simp only [] at h
      have hp : RunOK (TLf s) s first := runParserK_leavesC (hL _) (hN _) (hinit _) (by rw [hr])
      rcases hl : parseLoopK s o (s.length + 1) (max (nextIndex first) 1) [first] t with ⟨r2, t2⟩
      rw [hl] at h
      cases r2 with
      | error e => simp only [] at h; cases h
      | ok ps =>
        simp only [] at h
        cases h
        obtain ⟨rest, hps, hrest⟩ := parseLoopK_leavesC hL hN hinit s o _ _ _ _ parts (by rw [hl])
        rw [hps]
        have h0 : first.shift 0 = first := Node.shift_zero first
        have := PartsC.cons (TLf := TLf) (s := s) (i := 0) (n := first) (rest := rest)
          (Nat.zero_le _) (by simpa using hp) (by rw [h0]; simpa using hrest)
        rw [h0] at this
        simpa using this

end

end Bashlex.C05
