/-
  C05, part 3: facts about the generated grammar and tables the leaf argument uses, decided by
  the kernel (re-checked whenever the grammar changes):

  * which right-hand-side positions an action *ignores* hold a `None` value (`newline_list`),
    and which raw tokens an action drops are NEWLINE tokens (`leafOK`);
  * `timespec` is built only by `p_timespec`, from TIME / TIMEOPT / TIMEIGN tokens;
    `time x` / `! x` start with a token or with `timespec`;
  * `inputunit` is built only by `p_inputunit`; only state 0 has a goto on it; the `accept`
    entries of the action table sit in the state entered on `inputunit`.
-/
import Bashlex.Props.C05.Actions

namespace Bashlex.C05
open Bashlex Bashlex.LR Bashlex.C12 Bashlex.C03
set_option linter.unusedSimpArgs false
set_option linter.unusedVariables false

def iuSym : Nat := Gen.termNames.length + (Gen.ntNames.idxOf "inputunit")
def timespecSym : Nat := Gen.termNames.length + (Gen.ntNames.idxOf "timespec")

def isNoneS (s : Srt) : Bool := s == .none
def dropS (s : Srt) : Bool := s == .none || s == .tok (some .NEWLINE) || s == .tok none
def timeS : Srt → Bool
  | .tok (some ty) => isTimeTy ty
  | _ => false
def isTokS : Srt → Bool
  | .tok _ => true
  | _ => false

def iuB (sorts : List Srt) : Bool :=
  sorts.all dropS || (match sorts with | [.node _, s] => dropS s | _ => false)
def headNoneB (sorts : List Srt) : Bool := match sorts with | s :: _ => isNoneS s | [] => true
def head2NoneB (sorts : List Srt) : Bool := match sorts with | [s, _] => isNoneS s | _ => true
def drop2B (sorts : List Srt) : Bool := (sorts.drop 2).all isNoneS
def midB (sorts : List Srt) : Bool := ((sorts.drop 2).dropLast).all isNoneS
def ltermB (sorts : List Srt) : Bool :=
  match sorts with
  | [.tok (some ty)] => ty == .NEWLINE || ty == .SEMICOLON
  | [.tok none] => true
  | _ => false
def timeB (sorts : List Srt) : Bool := !sorts.isEmpty && sorts.all timeS

/-- the leaf-relevant side conditions of the action `f` on a production `lhs → rhs`:
    which positions an action ignores hold `None`, which tokens it drops are NEWLINEs, ... -/
def leafOK (f : String) (lhs : Nat) (rhs : List Nat) : Bool :=
  let sorts := rhs.map sortOfSymbol
  (f != "p_inputunit" || iuB sorts) &&
  (f != "p_list" || headNoneB sorts) &&
  (f != "p_pattern_list" || headNoneB sorts) &&
  (f != "p_compound_list" || head2NoneB sorts) &&
  (f != "p_list0" || drop2B sorts) &&
  (f != "p_list1" || midB sorts) &&
  (f != "p_simple_list1" || midB sorts) &&
  (f != "p_pipeline" || midB sorts) &&
  (f != "p_simple_list_terminator" || sorts.all dropS) &&
  (f != "p_newline_list" || sorts.all dropS) &&
  (f != "p_empty" || sorts.isEmpty) &&
  (f != "p_list_terminator" || ltermB sorts) &&
  (f != "p_timespec" || timeB sorts) &&
  (lhs != timespecSym || f == "p_timespec") &&
  (lhs != iuSym || f == "p_inputunit") &&
  (f != "p_pipeline_command" || rhs.length != 2 || isTokS (sortOfSymbol (rhs.headD 0)) ||
    rhs.headD 0 == timespecSym)

def leafGrammarCheck : Bool :=
  (List.zip Gen.prodFuncs Gen.prodTable).all fun x => leafOK x.1 x.2.1 x.2.2

theorem leaf_grammar_ok : leafGrammarCheck = true := by decide +kernel

/-- `p_inputunit` builds `inputunit` only -/
def iuLhsCheck : Bool :=
  (List.zip Gen.prodFuncs Gen.prodTable).all fun x => x.1 != "p_inputunit" || x.2.1 == iuSym

theorem iuLhs_ok : iuLhsCheck = true := by decide +kernel

def gotoIuCheck : Bool :=
  Gen.gotoRows.zipIdx.all fun (row, s) => s == 0 || row.all fun e => e / 4096 != iuSym

theorem gotoIu_ok : gotoIuCheck = true := by decide +kernel

/-- the `accept` entries of the action table sit in the state entered on `inputunit` -/
theorem acceptIu_ok : realRaw.checkAccept (fun s => s == iuSym) = true := by decide +kernel

/-! ### in usable form -/

theorem leaf_ok {p lhs : Nat} {rhs : List Nat} (hp : realTables.prods[p]? = some (lhs, rhs)) :
    leafOK (fn p) lhs rhs = true := by
  have hp' : Gen.prodTable[p]? = some (lhs, rhs) := hp
  have hlt : p < Gen.prodFuncs.length := by
    rw [prodFuncs_length]
    exact (List.getElem?_eq_some_iff.mp hp').1
  have hf : Gen.prodFuncs[p]? = some (fn p) := by
    simp [fn, List.getD_eq_getElem?_getD, List.getElem?_eq_getElem hlt]
  have hz : (List.zip Gen.prodFuncs Gen.prodTable)[p]? = some (fn p, (lhs, rhs)) :=
    List.getElem?_zip_eq_some.mpr ⟨hf, hp'⟩
  have hmem := List.mem_of_getElem? hz
  have hg := leaf_grammar_ok
  unfold leafGrammarCheck at hg
  have := List.all_eq_true.mp hg (fn p, (lhs, rhs)) hmem
  exact this

theorem iu_lhs {p lhs : Nat} {rhs : List Nat} (hp : realTables.prods[p]? = some (lhs, rhs))
    (hf : fn p = "p_inputunit") : lhs = iuSym := by
  have hp' : Gen.prodTable[p]? = some (lhs, rhs) := hp
  have hlt : p < Gen.prodFuncs.length := by
    rw [prodFuncs_length]
    exact (List.getElem?_eq_some_iff.mp hp').1
  have hf' : Gen.prodFuncs[p]? = some (fn p) := by
    simp [fn, List.getD_eq_getElem?_getD, List.getElem?_eq_getElem hlt]
  have hz : (List.zip Gen.prodFuncs Gen.prodTable)[p]? = some (fn p, (lhs, rhs)) :=
    List.getElem?_zip_eq_some.mpr ⟨hf', hp'⟩
  have hmem := List.mem_of_getElem? hz
  have hg := iuLhs_ok
  unfold iuLhsCheck at hg
  have := List.all_eq_true.mp hg (fn p, (lhs, rhs)) hmem
  simp only [Bool.or_eq_true, bne_iff_ne, ne_eq, beq_iff_eq] at this
  rcases this with h | h
  · exact absurd hf h
  · exact h

theorem sl_lhs {p lhs : Nat} {rhs : List Nat} (hp : realTables.prods[p]? = some (lhs, rhs))
    (hf : fn p = "p_simple_list") : lhs = slSym := by
  have hk := C03.prod_ok hp
  rw [hf] at hk
  unfold prodOK at hk
  simp only [Bool.and_eq_true, Bool.or_eq_true, Bool.not_eq_true', beq_iff_eq] at hk
  rcases hk.1.1.2 with h | h
  · simp at h
  · exact h

theorem goto_iu {s t : Nat} (h : realTables.goto s iuSym = some t) : s = 0 := by
  have h' : rowLookup (Gen.gotoRows.getD s []) iuSym = some t := h
  obtain ⟨e, hmem, hk, _⟩ := rowLookup_mem h'
  obtain ⟨row, hrow, he, hidx⟩ := mem_getD (l := Gen.gotoRows) hmem
  have hz : (row, s) ∈ Gen.gotoRows.zipIdx := by
    rw [List.mem_zipIdx_iff_getElem?]
    simpa using hidx
  have hg := gotoIu_ok
  unfold gotoIuCheck at hg
  have := List.all_eq_true.mp hg (row, s) hz
  simp only [Bool.or_eq_true, beq_iff_eq, List.all_eq_true, bne_iff_ne, ne_eq] at this
  rcases this with h0 | hall
  · exact h0
  · exact absurd hk (hall e he)

theorem accept_iu : ∀ s la, s ∈ realRaw.reach → realTables.action s la = some .accept →
    realRaw.accOf s = iuSym := by
  intro s la hs ha
  have := Raw.checkAccept_sound acceptIu_ok s la hs ha
  simpa using this

/-! ### from sorts to values -/

theorem dropV_of_sort {s : Srt} {v : SVal} (hs : dropS s = true) (hv : HasSort s v) : DropV v := by
  simp only [dropS, Bool.or_eq_true, beq_iff_eq] at hs
  rcases hs with (rfl | rfl) | rfl
  · exact Or.inl hv
  · obtain ⟨t, rfl, hty, _⟩ := hv
    exact Or.inr ⟨t, rfl, Or.inl hty⟩
  · obtain ⟨t, rfl, hty, _⟩ := hv
    exact Or.inr ⟨t, rfl, Or.inr hty⟩

theorem none_of_isNoneS {s : Srt} {v : SVal} (hs : isNoneS s = true) (hv : HasSort s v) :
    v = .none := none_of_sort hs hv

theorem timeTok_of_sort {s : Srt} {v : SVal} (hs : timeS s = true) (hv : HasSort s v) :
    ∃ t, v = .tok t ∧ IsTimeTok t := by
  cases s with
  | tok ty =>
    cases ty with
    | none => cases hs
    | some ty =>
      obtain ⟨t, rfl, hty, _⟩ := hv
      exact ⟨t, rfl, ty, hty, hs⟩
  | _ => cases hs

theorem forall2_drop {α β} {R : α → β → Prop} : ∀ (n : Nat) {l₁ : List α} {l₂ : List β},
    Forall2 R l₁ l₂ → Forall2 R (l₁.drop n) (l₂.drop n)
  | 0, _, _, h => h
  | n + 1, _, _, .nil => .nil
  | n + 1, _, _, .cons _ h => forall2_drop n h

theorem forall2_dropLast {α β} {R : α → β → Prop} : ∀ {l₁ : List α} {l₂ : List β},
    Forall2 R l₁ l₂ → Forall2 R l₁.dropLast l₂.dropLast
  | _, _, .nil => .nil
  | _, _, .cons (l₁ := []) (l₂ := []) _ .nil => .nil
  | _, _, .cons (l₁ := a :: as) (l₂ := b :: bs) h1 h2 => by
    simp only [List.dropLast_cons_cons]
    exact .cons h1 (forall2_dropLast h2)

end Bashlex.C05
