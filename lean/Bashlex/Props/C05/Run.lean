/-
  C05, part 6: one parser run (`parserRun_leaves`): from the hypothesis on the token source, the
  engine theorem `run_sound_ordH`, `leaves_resolve` and C03's `Done`: the leaves of the returned
  (resolved) tree, in tree order, are accounted for -- group by group -- by the tokens the
  tokenizer delivered, in order, except the look-ahead.
-/
import Bashlex.Props.C05.Hooks

namespace Bashlex.C05
open Bashlex Bashlex.Spec Bashlex.Node Bashlex.M Bashlex.LR Bashlex.C12 Bashlex.C03
set_option linter.unusedSimpArgs false
set_option linter.unusedVariables false

/-- what a parser run over `s` returns: a fine tree (C03), and a token sequence `ts` -- all the
    tokens the tokenizer delivered (`TL` held of `ts ++ la` in some state of the run), but at
    most one look-ahead token `la` -- that covers the leaves of the tree -/
def RunOK (TL : List Token → Nat → Nat → Local → Env → Prop) (s : Str) (n : Node) : Prop :=
  TopOK s.length n ∧ ∃ ts la F l' e', TL (ts ++ la) s.length F l' e' ∧ la.length ≤ 1 ∧
    NoEOF ts ∧ FCovers s.length ts (Spec.leaves n)

section
variable {TL : List Token → Nat → Nat → Local → Env → Prop}

theorem npSpans_npOf_act {TI : Nat → Nat → Local → Env → Prop} (hT : TokAct TI) (hR : RootEnds)
    (d : Nat)
    (ih : ∀ s, SatS (parserRun d) (InitState s) (fun r _ _ => ∀ n, r = some n → TopOK s.length n)) :
    NPSpans TI (npOf (parserRun d)) := by
  intro s b len F st
  have h1 := hT.nested d len F st s b
  have h2 := npOf_result (b := b)
    (Φ := fun r => (∀ n, r = some n → TopOK s.length n) ∧ (∀ n, r = some n → RootEndOK s n))
    (SatS.and (ih s) (hR d s))
  refine SatS.post (SatS.and h1 (SatS.pre h2 (fun _ _ _ => trivial))) ?_
  rintro r l e ⟨hp, h3⟩
  exact ⟨hp, fun n hn => ⟨h3.1 n hn, h3.2 n hn⟩⟩

/-- **one parser run** -/
theorem parserRun_leaves (hL : TokLog TL) (hR : RootEnds) :
    ∀ d s, SatS (parserRun d) (InitState s) (fun r _ _ => ∀ n, r = some n → RunOK TL s n) := by
  intro d
  cases d with
  | zero => intro s; exact SatS.raise trivial
  | succ d =>
    intro s
    rw [parserRun_succ]
    have ih := C03.parserRun_spans hL.spans hR (C03.wordContract hL.spans) d
    have hnps : ∀ tr, NPSpans (TL tr) (npOf (parserRun d)) :=
      fun tr => npSpans_npOf_act (hL.act tr) hR d ih
    have hH := leaves_hooks (len := s.length) hL (npok_npOf d)
      (fun tr => C03.wordContract_act (hL.act tr) _ (hnps tr) s.length)
    refine SatS.bind (SatS.weaken (run_sound_ordH real_WF accept_iu _ hH 1073741824) ?_
      (fun _ _ _ h => h) (fun _ _ => trivial)) (fun res => ?_)
    · -- a fresh parser object: empty stack, empty log
      intro l e hinit
      refine ⟨[], [], ⟨.nil, fun t ht => by cases ht⟩, .nil,
        ⟨0, 0, Nat.le_refl 0, Nat.le_refl 0, ?_, ?_⟩, ?_, ?_⟩
      · exact hL.init s l e hinit
      · intro x hx; cases hx
      · intro x hx; cases hx
      · intro x hx; cases hx
    · refine SatS.bind SatS.get (fun l => ?_)
      split
      · rename_i n _ _ _
        refine SatS.pure ?_
        rintro l' e' ⟨rfl, hgood⟩ m hm
        cases hm
        obtain ⟨hfin, hcov⟩ := hgood
        obtain ⟨hs, hroot, hseal, g, hends, hdone⟩ := hfin n rfl
        obtain ⟨ts, la, F, l1, e1, htl, hla, hno, hc⟩ := hcov n rfl
        refine ⟨⟨strict_resolve _ n hs hends hdone, noPend_resolve _ n hseal, ?_⟩,
          ts, la, F, l1, e1, htl, hla, hno, ?_⟩
        · rcases hroot with ht | hne
          · exact Or.inl (tainted_resolve _ n hdone ht)
          · obtain ⟨e1', e2'⟩ := ext_pos_resolve hdone
            right; omega
        · rw [leaves_resolve]
          refine fcovers_of_covers (g := g) hc ?_
          intro id p hh hmem c hc'
          obtain ⟨m, hm1, hm2⟩ := pend_mem id p hh n hmem
          exact ((hdone m hm1) id p hm2).2 c hc'
      · exact SatS.pure (fun _ _ _ n hn => by cases hn)

end
end Bashlex.C05
