/-
  C05, part 5: the hypothesis on the token source with a ghost *log* of the delivered tokens
  (`TokLog`), the stack invariant `SIL` (C03's span invariant, instantiated with the logged
  tokenizer invariant, plus the account of the consumed tokens), and its closure under the
  engine's moves for the real hooks (`leaves_hooks : HooksOrdH …`).
-/
import Bashlex.Props.C05.Engine

namespace Bashlex.C05
open Bashlex Bashlex.Spec Bashlex.Node Bashlex.M Bashlex.LR Bashlex.C12 Bashlex.C03
set_option linter.unusedSimpArgs false
set_option linter.unusedVariables false

/-! ## the token source, with a log -/

/-- **the hypothesis on the token source** (for every parser run, top-level and nested):
    C03's `TokSpans`, for a ghost invariant `TL ts len f l e` that also pins the sequence `ts` of
    tokens `token()` has delivered so far:
    * `next`: `token()` delivers a token at or after the frontier and appends it to the log;
    * `act`: everything else the parser does to the parser object (`gatherheredocuments` from
      `p_simple_list`, queueing a here-document redirect, parser-state flags, nested parser runs)
      keeps the invariant *with the same log*;
    * `init`: a fresh parser object has an empty log.
    Any property of token sequences that is an invariant of the tokenizer can be carried in `TL`
    (e.g. "the text between consecutive tokens is layout", `TokGaps`). -/
structure TokLog (TL : List Token → Nat → Nat → Local → Env → Prop) : Prop where
  next : ∀ ts len f st, SatS nextToken (fun l e => TL ts len f l e ∧ l.store = st)
    (fun t l e => ∃ a b, f ≤ a ∧ TokAt len t a b ∧ TL (ts ++ [t]) len b l e ∧
      StoreStep len f false st l.store)
  act : ∀ ts, TokAct (TL ts)
  init : ∀ s l e, InitState s l e → TL [] s.length 0 l e

/-- forgetting the log gives C03's hypothesis -/
theorem TokLog.spans {TL : List Token → Nat → Nat → Local → Env → Prop} (h : TokLog TL) :
    TokSpans (fun len f l e => ∃ ts, TL ts len f l e) := by
  refine ⟨?_, ?_, ?_, ?_, ?_, ?_⟩
  · intro len f st
    refine SatS.intro_state ?_
    rintro l0 e0 ⟨⟨ts, hti⟩, hst⟩
    refine SatS.weaken (h.next ts len f st) ?_ ?_ (fun _ h => h)
    · rintro l e ⟨rfl, rfl⟩; exact ⟨hti, hst⟩
    · rintro t l e ⟨a, b, h1, h2, h3, h4⟩
      exact ⟨a, b, h1, h2, ⟨_, h3⟩, h4⟩
  · intro len f st
    refine SatS.intro_state ?_
    rintro l0 e0 ⟨⟨ts, hti⟩, hst⟩
    refine SatS.weaken ((h.act ts).gather len f st) ?_ ?_ (fun _ h => h)
    · rintro l e ⟨rfl, rfl⟩; exact ⟨hti, hst⟩
    · rintro _ l e ⟨h1, h2⟩
      exact ⟨⟨_, h1⟩, h2⟩
  · rintro len f l e cell kill ⟨ts, hti⟩ h1 h2 h3
    exact ⟨ts, (h.act ts).queue len f l e cell kill hti h1 h2 h3⟩
  · rintro len f l e ps ⟨ts, hti⟩
    exact ⟨ts, (h.act ts).ps len f l e ps hti⟩
  · intro d len f st s b
    refine SatS.intro_state ?_
    rintro l0 e0 ⟨⟨ts, hti⟩, hst⟩
    refine SatS.weaken ((h.act ts).nested d len f st s b) ?_ ?_ (fun _ h => h)
    · rintro l e ⟨rfl, rfl⟩; exact ⟨hti, hst⟩
    · rintro _ l e ⟨h1, h2⟩
      exact ⟨⟨_, h1⟩, h2⟩
  · intro s l e hi
    exact ⟨[], h.init s l e hi⟩

/-! ## the stack invariant -/

/-- the token of the look-ahead -/
def laToks (la : Option (Nat × SVal)) : List Token :=
  match la with
  | some (_, .tok t) => [t]
  | _ => []

theorem laToks_le (la : Option (Nat × SVal)) : (laToks la).length ≤ 1 := by
  unfold laToks
  split <;> simp

/-- **the stack invariant**: the entries account, in order, for token lists `tss`; the tokens
    delivered so far (the log) are `lead` -- NEWLINEs dropped in state 0 --, then the
    concatenation of `tss`, then the look-ahead; and C03's span invariant holds -/
def SIL (TL : List Token → Nat → Nat → Local → Env → Prop) (len : Nat) (vs : List (Nat × SVal))
    (la : Option (Nat × SVal)) (l : Local) (e : Env) : Prop :=
  ∃ lead tss, (Covers lead [] ∧ NoEOF lead) ∧ Forall2 Acc vs tss ∧
    C03.SI (TL (lead ++ tss.flatten ++ laToks la)) len vs la l e

/-- what an accepted value satisfies: C03's `Fin` (in the final state), and it accounts for all
    tokens the log held -- at the last state the invariant was known in -- but the look-ahead -/
def FinL (TL : List Token → Nat → Nat → Local → Env → Prop) (len : Nat) (v : SVal) (l : Local)
    (e : Env) : Prop :=
  C03.Fin len v l e ∧ ∀ n, v = .node n → ∃ ts la F l' e', TL (ts ++ la) len F l' e' ∧
    la.length ≤ 1 ∧ NoEOF ts ∧ Covers ts (aleaves n)

/-! ## symbols of tokens -/

theorem sym_le (ty : TokType) : ty.sym ≤ 59 := by
  unfold TokType.sym
  split
  · omega
  · have : TokType.all.idxOf ty ≤ TokType.all.length := List.idxOf_le_length
    have h57 : TokType.all.length = 57 := rfl
    omega

theorem symOfTok_le (t : Token) : symOfTok t ≤ 59 := by
  unfold symOfTok
  split
  · exact sym_le _
  · omega

theorem timespecSym_eq : timespecSym = 96 := by decide +kernel
theorem iuSym_eq : iuSym = 60 := by decide +kernel

theorem nl_of_sym : ∀ ty : TokType, ty.sym = 55 → ty = .NEWLINE := by
  intro ty; cases ty <;> decide +kernel

theorem symOfTok_nl_inv {t : Token} (h : symOfTok t = realTables.nlTok) :
    t.ttype = some .NEWLINE := by
  have h' : symOfTok t = 55 := h
  unfold symOfTok at h'
  cases hty : t.ttype with
  | none => rw [hty] at h'; simp at h'
  | some ty => rw [hty] at h'; simp only [] at h'; rw [nl_of_sym ty h']

theorem acc_tok (t : Token) : Acc (symOfTok t, .tok t) [t] := by
  have := symOfTok_le t
  refine ⟨rfl, ?_, ?_, fun t' ht' => by cases ht'; rfl, fun h => absurd rfl (h t)⟩
  · intro h; simp only [timespecSym_eq] at h; omega
  · intro h; simp only [iuSym_eq] at h; omega

theorem acc_none_of_iu {x : Nat × SVal} {ts : List Token} (h : Acc x ts) (hx : x.1 = iuSym) :
    x.2 = .none := h.2.2.1 hx

/-! ## acceptance -/

theorem sat_action_accepts {np : NestedParse} {fname : String} {args : List SVal} :
    Sat (action np fname args)
      (fun r => r.2 = true → fname = "p_inputunit" ∨ fname = "p_simple_list") := by
  unfold action
  refine Sat.bind_any (fun r => ?_)
  split
  · exact Sat.foreign trivial
  · rename_i hc
    refine Sat.pure ?_
    intro hr
    have : acceptingActions.contains fname = true := by
      cases h : acceptingActions.contains fname with
      | true => rfl
      | false => exfalso; apply hc; rw [hr, h]; rfl
    simpa [acceptingActions] using this

/-- an accepting reduction happens on an otherwise empty stack -/
theorem rest_nil_of_accept {p lhs : Nat} {rhs : List Nat} {rest : List (Nat × SVal)}
    (hprod : realTables.prods[p]? = some (lhs, rhs)) (hrest : RestHint realTables rest lhs)
    (hf : fn p = "p_inputunit" ∨ fn p = "p_simple_list") : rest = [] := by
  rcases hrest with h | ⟨s, t, hs, hg⟩
  · exact h
  · rcases hf with hf | hf
    · rw [iu_lhs hprod hf] at hg
      exact absurd (goto_iu hg) hs
    · rw [sl_lhs hprod hf] at hg
      exact absurd (goto_sl hg) hs

/-! ## the hooks of the real parser are closed under the engine's moves -/

section
variable {TL : List Token → Nat → Nat → Local → Env → Prop} {len : Nat}

theorem si_cast {tr tr' : List Token} {vs : List (Nat × SVal)} {la : Option (Nat × SVal)}
    {l : Local} {e : Env} (h : C03.SI (TL tr) len vs la l e) (he : tr = tr') :
    C03.SI (TL tr') len vs la l e := by subst he; exact h

theorem leaves_hooks (hL : TokLog TL) {np : NestedParse} (hnp : NPOK np)
    (hW : ∀ tr F st, C03.WordSat (StP (TL tr) len F st) np len) :
    HooksOrdH realTables (lrHooks np) (SIL TL len) (FinL TL len) (fun _ => True)
      (fun s => s = iuSym) := by
  have hC := hooks_ok sat_nextToken hnp
  refine ⟨?_, ?_, ?_, ?_, ?_, fun la => Sat.trivial _⟩
  · -- next: the token delivered is appended to the log
    intro vs
    have h1 : SatS (lrHooks np).next (SIL TL len vs none)
        (fun la l e => ∃ lead tss, (Covers lead [] ∧ NoEOF lead) ∧ Forall2 Acc vs tss ∧
          SIs (TL (lead ++ tss.flatten ++ laToks (some la))) len vs (some la) l e ∧
          ∀ x ∈ vs, VI x.1 x.2) := by
      refine SatS.intro_state ?_
      rintro l e ⟨lead, tss, hlead, hacc, ⟨g, F, hseg, hlain, hti, hent⟩, hvi, _⟩
      show SatS (nextToken >>= fun t => pure (symOfTok t, SVal.tok t)) _ _
      refine SatS.bind (SatS.pre (hL.next (lead ++ tss.flatten ++ laToks none) len F l.store) ?_) ?_
      · rintro l1 e1 ⟨rfl, rfl⟩; exact ⟨hti, rfl⟩
      · intro t
        refine SatS.pure ?_
        rintro l' e' ⟨a, b, hFa, htok, hti', hstep⟩
        refine ⟨lead, tss, hlead, hacc, ⟨g, b, hseg, ⟨t, a, b, rfl, ?_, Nat.le_refl _, htok⟩, ?_, ?_⟩,
          hvi⟩
        · have : g ≤ F := hlain
          omega
        · simpa [laToks] using hti'
        · intro x hx; exact entryOK_step hstep (hent x hx)
    refine SatS.post (SatS.and_sat h1 hC.next) ?_
    rintro la l e ⟨⟨lead, tss, hlead, hacc, hs, hvi⟩, hla⟩
    exact ⟨lead, tss, hlead, hacc, hs, hvi, by intro x hx; cases hx; exact hla⟩
  · -- shift: the look-ahead becomes an entry accounting for itself
    rintro vs la l e ⟨lead, tss, hlead, hacc, ⟨g, F, hseg, hlain, hti, hent⟩, hvi, hvila⟩
    obtain ⟨t, a, b, rfl, hga, hbF, htok⟩ := hlain
    refine ⟨lead, tss ++ [[t]], hlead, forall2_snoc hacc (acc_tok t), ⟨F, F,
      Seg.append hseg (seg_single.mpr (tokAt_valIn htok hga hbF)), Nat.le_refl F, ?_, ?_⟩,
      ?_, by intro x hx; cases hx⟩
    · simpa [laToks, List.append_assoc] using hti
    · intro x hx
      rcases List.mem_append.mp hx with hx | hx
      · exact hent x hx
      · simp only [List.mem_singleton] at hx; subst hx; exact Or.inl fresh_tok
    · intro x hx
      rcases List.mem_append.mp hx with hx | hx
      · exact hvi x hx
      · simp only [List.mem_singleton] at hx; subst hx; exact hvila _ rfl
  · -- a NEWLINE shifted in state 0 is dropped
    rintro la l e hnl ⟨lead, tss, hlead, hacc, ⟨g, F, hseg, hlain, hti, hent⟩, hvi, hvila⟩
    obtain ⟨t, a, b, rfl, hga, hbF, htok⟩ := hlain
    have htss : tss = [] := by cases hacc; rfl
    subst htss
    have hd : Droppable t := Or.inl (symOfTok_nl_inv hnl)
    have hlead' : Covers (lead ++ [t]) [] ∧ NoEOF (lead ++ [t]) := by
      refine ⟨?_, ?_⟩
      · have := Covers.append hlead.1 (Covers.drop hd)
        simpa using this
      · intro t' ht'
        rcases List.mem_append.mp ht' with ht' | ht'
        · exact hlead.2 t' ht'
        · simp only [List.mem_singleton] at ht'
          subst ht'
          rw [symOfTok_nl_inv hnl]
          intro hc; cases hc
    refine ⟨lead ++ [t], [], hlead', .nil, ⟨0, F, Nat.le_refl 0, Nat.zero_le F, ?_,
      (by intro x hx; cases hx)⟩, ⟨(by intro x hx; cases hx), (by intro x hx; cases hx)⟩⟩
    simpa [laToks] using hti
  · -- the semantic actions
    intro p lhs rhs rest args la hprod hargs hrest hla
    rw [lrHooks_act]
    refine SatS.intro_state ?_
    rintro l0 e0 ⟨lead, tss, hlead, hacc, hs0, hvi, hvila⟩
    obtain ⟨tssR, tssA, rfl, haccR, haccA⟩ := forall2_append_left hacc
    have hti0 : ∃ F, TL (lead ++ (tssR ++ tssA).flatten ++ laToks la) len F l0 e0 := by
      obtain ⟨g, F, _, _, hti, _⟩ := hs0
      exact ⟨F, hti⟩
    have hvargs : ∀ x ∈ args, VI x.1 x.2 := fun x hx => hvi x (List.mem_append_right _ hx)
    have hvrest : ∀ x ∈ rest, VI x.1 x.2 := fun x hx => hvi x (List.mem_append_left _ hx)
    have hF2 : Forall2 VI rhs (args.map (·.2)) := by rw [← hargs]; exact forall2_vi args hvargs
    have hCact := hC.act p lhs rhs _ hprod hF2
    have hp' : Gen.prodTable[p]? = some (lhs, rhs) := hprod
    have hlt : p < Gen.prodFuncs.length := by
      rw [prodFuncs_length]; exact (List.getElem?_eq_some_iff.mp hp').1
    have hfn : Gen.prodFuncs[p]? = some (fn p) := by
      simp [fn, List.getD_eq_getElem?_getD, List.getElem?_eq_getElem hlt]
    have hz : (List.zip Gen.prodFuncs Gen.prodTable)[p]? = some (fn p, (lhs, rhs)) :=
      List.getElem?_zip_eq_some.mpr ⟨hfn, hp'⟩
    have hg := grammar_ok
    unfold grammarCheck at hg
    have hthis := List.all_eq_true.mp hg _ (List.mem_of_getElem? hz)
    simp only [Bool.or_eq_true, beq_iff_eq] at hthis
    rcases hthis with he | hab
    · rw [he]
      exact SatS.weaken (SatS.of_sat action_unknown _) (fun _ _ _ => trivial)
        (fun _ _ _ h => h.elim) (fun _ h => h)
    · have hspan := satS_action_of_core
        (act_spans (TI := TL (lead ++ (tssR ++ tssA).flatten ++ laToks la)) (len := len)
          (hL.act _) (hW _) hprod hargs hrest hla hab (forall2_hasSort_of_vi hF2))
      have hleaf : Sat (action np (fn p) (args.map (·.2))) (PostL lhs tssA) :=
        sat_action_of_core (act_leaves hprod hargs hab (forall2_hasSort_of_vi hF2) haccA)
      have hacc' := sat_action_accepts (np := np) (fname := fn p) (args := args.map (·.2))
      refine SatS.weaken (SatS.and_sat (SatS.and_sat (SatS.and_sat hspan
        (hCact.weaken (fun _ h => h.1) (fun _ _ => trivial))) hleaf) hacc') ?_ ?_ (fun _ h => h)
      · rintro l e ⟨rfl, rfl⟩; exact hs0
      · rintro r l e ⟨⟨⟨hpost, hvr⟩, hpl⟩, hfa⟩
        unfold PostS at hpost
        by_cases hacc1 : r.2 = true
        · simp only [hacc1, if_true] at hpost ⊢
          refine ⟨hpost, ?_⟩
          intro n hn
          have hrest0 := rest_nil_of_accept hprod hrest (hfa hacc1)
          subst hrest0
          have htR : tssR = [] := by cases haccR; rfl
          subst htR
          obtain ⟨F, hti⟩ := hti0
          refine ⟨lead ++ tssA.flatten, laToks la, F, l0, e0, by simpa using hti, laToks_le la, ?_, ?_⟩
          · intro t ht
            rcases List.mem_append.mp ht with ht | ht
            · exact hlead.2 t ht
            · exact hpl.2.2 t ht
          · have := Covers.append hlead.1 (hpl.1 n hn)
            simpa using this
        · simp only [hacc1, if_false] at hpost ⊢
          have hfalse : r.2 = false := by simpa using hacc1
          refine ⟨lead, tssR ++ [tssA.flatten], hlead, forall2_snoc haccR (hpl.2.1 hfalse),
            ⟨?_, ?_, hvila⟩⟩
          · have he : (tssR ++ [tssA.flatten]).flatten = (tssR ++ tssA).flatten := by simp
            rw [he]
            exact hpost
          · intro x hx
            rcases List.mem_append.mp hx with hx | hx
            · exact hvrest x hx
            · simp only [List.mem_singleton] at hx; subst hx; exact hvr
  · -- the `accept` entry: the top of the stack is an `inputunit` entry, which holds `None`
    rintro vs x la l e hx ⟨lead, tss, hlead, hacc, hsi⟩
    obtain ⟨tssR, tssA, rfl, haccR, haccA⟩ := forall2_append_left hacc
    obtain ⟨ts, rfl, hax⟩ := forall2_1 haccA
    have hnone : x.2 = .none := acc_none_of_iu hax hx
    refine ⟨?_, ?_⟩
    · intro n hn; rw [hnone] at hn; cases hn
    · intro n hn; rw [hnone] at hn; cases hn

end

end Bashlex.C05
