/-
  C05, residual R2, the pure part: what a signature of the EXECUTABLE `Spec.gapsOK` /
  `Spec.coverOK` means, ORDER-FREE.

  `Spec.coverOK s parts = gapsOK s 0 false (sortSpans (leavesL parts))` sorts the leaves with
  `Array.qsort`, which the kernel cannot evaluate.  Nothing about `qsort` is needed beyond
      `SortOK ls`:  `sortSpans ls` is sorted by span start and is a permutation of `ls`
  (decidable, `sortOKb`; true of every correct sorting function).  `gapsOK_sound`: on EVERY
  start-sorted list each reported signature has a geometric reason (`Reason`) that does not
  mention the order of the list:
    leaf-overlap                two leaves (two occurrences), NEITHER a here-document body,
                                `x.start ≤ y.start < x.end`;
    leaf-overlap+heredoc-body   the same with a body among the two;
    gap-not-layout              `c ≤ e`, `c` is 0 or the end of a leaf, `e` the start of a leaf,
                                no leaf meets `[c, e)` (every leaf ends at or before `c` or
                                starts at or after `e`), and `s[c:e]` is not layout;
    trailing-text-not-layout    `c` is 0 or the end of a leaf, every leaf ends at or before `c`,
                                and `s[c:]` is not layout.
  `coverOK_sound`: the same for `Spec.coverOK` under `SortOK (leavesL parts)`.
-/
import Bashlex.Spec.Tree

namespace Bashlex.C05
open Bashlex Bashlex.Spec
set_option linter.unusedSimpArgs false
set_option linter.unusedVariables false

abbrev Leaf := Span × Bool

/-- the geometric reason of a signature of `gapsOK`, in terms of the leaves `all` (a list read
    as a multiset: the statement is invariant under permutation, `Reason.perm`) -/
def Reason (s : Str) (all : List Leaf) (v : Viol) : Prop :=
  (v = "leaf-overlap" ∧ ∃ x y r, (x :: y :: r).Perm all ∧ x.2 = false ∧ y.2 = false ∧
    x.1.1 ≤ y.1.1 ∧ y.1.1 < x.1.2) ∨
  (v = "leaf-overlap+heredoc-body" ∧ ∃ x y r, (x :: y :: r).Perm all ∧ (x.2 = true ∨ y.2 = true) ∧
    x.1.1 ≤ y.1.1 ∧ y.1.1 < x.1.2) ∨
  (v = "gap-not-layout" ∧ ∃ c e, c ≤ e ∧ (c = 0 ∨ ∃ x ∈ all, x.1.2 = c) ∧ (∃ y ∈ all, y.1.1 = e) ∧
    (∀ x ∈ all, x.1.2 ≤ c ∨ e ≤ x.1.1) ∧ isLayout (s.length + 1) (Str.slice s c e) = false) ∨
  (v = "trailing-text-not-layout" ∧ ∃ c, (c = 0 ∨ ∃ x ∈ all, x.1.2 = c) ∧
    (∀ x ∈ all, x.1.2 ≤ c) ∧ isLayout (s.length + 1) (s.drop c) = false)

theorem Reason.perm {s : Str} {all all' : List Leaf} {v : Viol} (hp : all.Perm all')
    (h : Reason s all v) : Reason s all' v := by
  have hm : ∀ x, x ∈ all ↔ x ∈ all' := fun x => hp.mem_iff
  rcases h with ⟨rfl, x, y, r, h1, h2⟩ | ⟨rfl, x, y, r, h1, h2⟩ | ⟨rfl, c, e, h1, h2, h3, h4, h5⟩ |
    ⟨rfl, c, h1, h2, h3⟩
  · exact Or.inl ⟨rfl, x, y, r, h1.trans hp, h2⟩
  · exact Or.inr (Or.inl ⟨rfl, x, y, r, h1.trans hp, h2⟩)
  · refine Or.inr (Or.inr (Or.inl ⟨rfl, c, e, h1, ?_, ?_, ?_, h5⟩))
    · rcases h2 with h2 | ⟨x, hx, h2⟩
      · exact Or.inl h2
      · exact Or.inr ⟨x, (hm x).mp hx, h2⟩
    · obtain ⟨y, hy, h3⟩ := h3
      exact ⟨y, (hm y).mp hy, h3⟩
    · intro x hx; exact h4 x ((hm x).mpr hx)
  · refine Or.inr (Or.inr (Or.inr ⟨rfl, c, ?_, ?_, h3⟩))
    · rcases h1 with h1 | ⟨x, hx, h1⟩
      · exact Or.inl h1
      · exact Or.inr ⟨x, (hm x).mp hx, h1⟩
    · intro x hx; exact h2 x ((hm x).mpr hx)

/-- sorted by span start -/
def StartSorted (sl : List Leaf) : Prop := sl.Pairwise (fun a b => a.1.1 ≤ b.1.1)

/-- **every signature `gapsOK` reports on a start-sorted list has its geometric reason**
    (`pre`: the leaves walked so far; `cur`: the largest end among them, attained by a leaf
    whose body flag is `pb`) -/
theorem gapsOK_sound (s : Str) : ∀ (sl pre : List Leaf) (cur : Nat) (pb : Bool),
    StartSorted sl → (∀ x ∈ pre, ∀ y ∈ sl, x.1.1 ≤ y.1.1) → (∀ x ∈ pre, x.1.2 ≤ cur) →
    (cur = 0 ∨ ∃ x ∈ pre, x.1.2 = cur ∧ x.2 = pb) →
    ∀ v ∈ gapsOK s cur pb sl, Reason s (pre ++ sl) v
  | [], pre, cur, pb, _, _, hcur, hatt => by
    intro v hv
    unfold gapsOK at hv
    split at hv
    · cases hv
    · rename_i hl
      simp only [List.mem_singleton] at hv
      subst hv
      refine Or.inr (Or.inr (Or.inr ⟨rfl, cur, ?_, ?_, by simpa using hl⟩))
      · rcases hatt with h | ⟨x, hx, h, _⟩
        · exact Or.inl h
        · exact Or.inr ⟨x, by simpa using hx, h⟩
      · intro x hx; exact hcur x (by simpa using hx)
  | (p, body) :: rest, pre, cur, pb, hs, hpre, hcur, hatt => by
    intro v hv
    unfold gapsOK at hv
    have hs' := List.pairwise_cons.mp hs
    rcases List.mem_append.mp hv with hv | hv
    · -- the signature raised at this leaf
      split at hv
      · rename_i hlt
        simp only [List.mem_singleton] at hv
        have hc0 : cur ≠ 0 := by omega
        rcases hatt with h | ⟨x, hx, hxe, hxb⟩
        · exact absurd h hc0
        · have hxs : x.1.1 ≤ p.1 := hpre x hx (p, body) List.mem_cons_self
          have hperm : (x :: (p, body) :: (pre.erase x ++ rest)).Perm (pre ++ (p, body) :: rest) := by
            have h1 : pre.Perm (x :: pre.erase x) := List.perm_cons_erase hx
            have h2 : (pre ++ (p, body) :: rest).Perm ((x :: pre.erase x) ++ (p, body) :: rest) :=
              h1.append_right _
            refine List.Perm.symm (h2.trans ?_)
            simp only [List.cons_append]
            refine List.Perm.cons x ?_
            exact List.perm_middle
          split at hv
          · rename_i hb
            subst hv
            refine Or.inr (Or.inl ⟨rfl, x, (p, body), _, hperm, ?_, hxs, by rw [hxe]; exact hlt⟩)
            rw [hxb]
            simpa using hb
          · rename_i hb
            subst hv
            have hb' : pb = false ∧ body = false := by simpa using hb
            exact Or.inl ⟨rfl, x, (p, body), _, hperm, by rw [hxb]; exact hb'.1, hb'.2, hxs,
              by rw [hxe]; exact hlt⟩
      · rename_i hge
        split at hv
        · cases hv
        · rename_i hl
          simp only [List.mem_singleton] at hv
          subst hv
          refine Or.inr (Or.inr (Or.inl ⟨rfl, cur, p.1, by omega, ?_, ⟨(p, body), by simp, rfl⟩, ?_,
            by simpa using hl⟩))
          · rcases hatt with h | ⟨x, hx, h, _⟩
            · exact Or.inl h
            · exact Or.inr ⟨x, List.mem_append_left _ hx, h⟩
          · intro x hx
            rcases List.mem_append.mp hx with hx | hx
            · exact Or.inl (hcur x hx)
            · rcases List.mem_cons.mp hx with rfl | hx
              · exact Or.inr (Nat.le_refl _)
              · exact Or.inr (hs'.1 x hx)
    · -- later leaves
      have ih := gapsOK_sound s rest (pre ++ [(p, body)]) (max cur p.2)
        (if p.2 ≥ cur then body else pb) hs'.2 ?_ ?_ ?_ v hv
      · simpa [List.append_assoc] using ih
      · intro x hx y hy
        rcases List.mem_append.mp hx with hx | hx
        · exact hpre x hx y (List.mem_cons_of_mem _ hy)
        · simp only [List.mem_singleton] at hx
          subst hx
          exact hs'.1 y hy
      · intro x hx
        rcases List.mem_append.mp hx with hx | hx
        · have := hcur x hx; omega
        · simp only [List.mem_singleton] at hx
          subst hx
          exact Nat.le_max_right _ _
      · by_cases hge : p.2 ≥ cur
        · rw [if_pos hge]
          refine Or.inr ⟨(p, body), by simp, ?_, rfl⟩
          show p.2 = max cur p.2
          omega
        · rw [if_neg hge]
          rcases hatt with h | ⟨x, hx, h1, h2⟩
          · omega
          · refine Or.inr ⟨x, List.mem_append_left _ hx, ?_, h2⟩
            rw [h1]; omega

/-! ## the sorting function of the specification -/

def sortedB : List Leaf → Bool
  | a :: b :: rest => decide (a.1.1 ≤ b.1.1) && sortedB (b :: rest)
  | _ => true

/-- consecutive order implies pairwise order (`≤` is transitive) -/
theorem sortedB_sound : ∀ (l : List Leaf), sortedB l = true → StartSorted l
  | [], _ => List.Pairwise.nil
  | [a], _ => List.pairwise_singleton _ _
  | a :: b :: rest, h => by
    simp only [sortedB, Bool.and_eq_true, decide_eq_true_eq] at h
    have ih := sortedB_sound (b :: rest) h.2
    refine List.pairwise_cons.mpr ⟨?_, ih⟩
    intro y hy
    rcases List.mem_cons.mp hy with rfl | hy
    · exact h.1
    · have := (List.pairwise_cons.mp ih).1 y hy
      omega

/-- **the decidable per-input condition on `Array.qsort`** (the kernel cannot evaluate it;
    `#eval` can): the list `sortSpans` returns is sorted by start and is a permutation -/
def sortOKb (ls : List Leaf) : Bool := sortedB (sortSpans ls) && (sortSpans ls).isPerm ls

def SortOK (ls : List Leaf) : Prop := sortOKb ls = true

instance (ls : List Leaf) : Decidable (SortOK ls) := by unfold SortOK; infer_instance

theorem SortOK.sorted {ls : List Leaf} (h : SortOK ls) : StartSorted (sortSpans ls) := by
  unfold SortOK sortOKb at h
  rw [Bool.and_eq_true] at h
  exact sortedB_sound _ h.1

theorem SortOK.perm {ls : List Leaf} (h : SortOK ls) : (sortSpans ls).Perm ls := by
  unfold SortOK sortOKb at h
  rw [Bool.and_eq_true] at h
  exact List.isPerm_iff.mp h.2

/-- **every signature of the executable `Spec.coverOK` has its geometric reason**, in terms of
    the leaves of the parts, whatever their order -/
theorem coverOK_sound (s : Str) (parts : List Node) (h : SortOK (leavesL parts)) :
    ∀ v ∈ coverOK s parts, Reason s (leavesL parts) v := by
  intro v hv
  have := gapsOK_sound s (sortSpans (leavesL parts)) [] 0 false h.sorted
    (fun x hx => by cases hx) (fun x hx => by cases hx) (Or.inl rfl) v hv
  exact Reason.perm (by simpa using h.perm) this

/-- hence: if no two leaves other than here-document bodies overlap, `leaf-overlap` is not
    reported -/
theorem coverOK_no_plain_overlap (s : Str) (parts : List Node) (h : SortOK (leavesL parts))
    (hdis : ∀ x y r, (x :: y :: r).Perm (leavesL parts) → x.2 = false → y.2 = false →
      x.1.1 ≤ y.1.1 → ¬ y.1.1 < x.1.2) : "leaf-overlap" ∉ coverOK s parts := by
  intro hv
  rcases coverOK_sound s parts h _ hv with ⟨_, x, y, r, h1, h2, h3, h4, h5⟩ | ⟨h0, _⟩ | ⟨h0, _⟩ |
    ⟨h0, _⟩
  · exact hdis x y r h1 h2 h3 h4 h5
  · exact absurd h0 (by decide)
  · exact absurd h0 (by decide)
  · exact absurd h0 (by decide)

/-- and: if every interval between leaf boundaries that meets no leaf is layout,
    `gap-not-layout` is not reported -/
theorem coverOK_no_gap (s : Str) (parts : List Node) (h : SortOK (leavesL parts))
    (hgap : ∀ c e, c ≤ e → (c = 0 ∨ ∃ x ∈ leavesL parts, x.1.2 = c) →
      (∃ y ∈ leavesL parts, y.1.1 = e) → (∀ x ∈ leavesL parts, x.1.2 ≤ c ∨ e ≤ x.1.1) →
      isLayout (s.length + 1) (Str.slice s c e) = true) : "gap-not-layout" ∉ coverOK s parts := by
  intro hv
  rcases coverOK_sound s parts h _ hv with ⟨h0, _⟩ | ⟨h0, _⟩ | ⟨_, c, e, h1, h2, h3, h4, h5⟩ |
    ⟨h0, _⟩
  · exact absurd h0 (by decide)
  · exact absurd h0 (by decide)
  · rw [hgap c e h1 h2 h3 h4] at h5; cases h5
  · exact absurd h0 (by decide)

/-- **what is left of R2, as a named hypothesis**: the geometry of the leaves of ALL parts of a
    result -- leaves other than here-document bodies do not overlap; every interval between leaf
    boundaries that meets no leaf is layout; the text behind the last leaf is layout.
    (`Props/C05Final.lean` proves the first two for the leaves of ONE run without bodies,
    `run_gapsOK`, and the third for the run that ends the loop, `CharsNone`; the glue between
    consecutive runs is missing.) -/
structure CoverGeometry (s : Str) (ls : List Leaf) : Prop where
  plain : ∀ x y r, (x :: y :: r).Perm ls → x.2 = false → y.2 = false → x.1.1 ≤ y.1.1 →
    ¬ y.1.1 < x.1.2
  gaps : ∀ c e, c ≤ e → (c = 0 ∨ ∃ x ∈ ls, x.1.2 = c) → (∃ y ∈ ls, y.1.1 = e) →
    (∀ x ∈ ls, x.1.2 ≤ c ∨ e ≤ x.1.1) → isLayout (s.length + 1) (Str.slice s c e) = true
  trailing : ∀ c, (c = 0 ∨ ∃ x ∈ ls, x.1.2 = c) → (∀ x ∈ ls, x.1.2 ≤ c) →
    isLayout (s.length + 1) (s.drop c) = true

/-- under the geometry (and `SortOK`), the executable `Spec.coverOK` reports nothing but the
    recorded defect D11 (`leaf-overlap+heredoc-body`) -/
theorem C05_coverOK_conditional (s : Str) (parts : List Node) (hs : SortOK (leavesL parts))
    (hg : CoverGeometry s (leavesL parts)) :
    ∀ v ∈ coverOK s parts, v = "leaf-overlap+heredoc-body" := by
  intro v hv
  rcases coverOK_sound s parts hs v hv with ⟨_, x, y, r, h1, h2, h3, h4, h5⟩ | ⟨h0, _⟩ |
    ⟨_, c, e, h1, h2, h3, h4, h5⟩ | ⟨_, c, h1, h2, h3⟩
  · exact absurd h5 (hg.plain x y r h1 h2 h3 h4)
  · exact h0
  · rw [hg.gaps c e h1 h2 h3 h4] at h5; cases h5
  · rw [hg.trailing c h1 h2] at h3; cases h3

end Bashlex.C05

#print axioms Bashlex.C05.C05_coverOK_conditional
#print axioms Bashlex.C05.gapsOK_sound
#print axioms Bashlex.C05.coverOK_sound
