/-
  C05, character level, tight form, part 3: THE LINK TO `Spec.isLayout`, per gap.

  `gap_layout`: in the chain of a run, let `t1` (ending at `b1`) and `t2` (starting at `a2`) be
  two tokens of the log with only NEWLINE tokens between them (the tokens the parser drops).  If
  no position of `[b1, a2)` lies inside a here-document body recorded in the store -- and every
  such body is a leaf of the returned tree (`C05_final`) -- then

        Spec.isLayout (|L| + 1) (L[b1:a2]) = true:

  the text between the two tokens is layout IN THE SENSE OF THE EXECUTABLE SPECIFICATION (the
  predicate `Spec.gapsOK` applies to the gaps between leaves).  `chain_layout`: the same for a
  stretch of the chain that holds dropped NEWLINE tokens only (the text before the first token of
  a run; the whole text of a run that returns `None`).

  This needs the TIGHT regions of `FT1-3.lean` (a character after a `#` inside a region consumed
  by `gatherheredocuments` would not be layout) and the anchoring of every `Skip` at the end of
  the token before it (`FChain.lean`): `isLayout` scans from the left, so a comment must be
  entered at its `#`.
-/
import Bashlex.Props.C05.FGaps

namespace Bashlex.C05.TGT
open Bashlex Bashlex.M Bashlex.C04 Bashlex.C05 Bashlex.C05.TG Bashlex.C03.Tok
set_option linter.unusedSimpArgs false
set_option linter.unusedVariables false

/-- `L[a:c]` is layout, for every sufficient fuel -/
def LF (L : Str) (a c : Nat) : Prop :=
  a ≤ c ∧ c ≤ L.length ∧ ∀ fuel, c - a ≤ fuel → Spec.isLayout fuel (Str.slice L a c) = true

theorem LF.refl (L : Str) {c : Nat} (h : c ≤ L.length) : LF L c c :=
  ⟨Nat.le_refl _, h, fun fuel _ => by rw [slice_self]; cases fuel <;> rfl⟩

/-- stepping over a leading newline -/
theorem LF.tail_nl {L : Str} {a c : Nat} (h : LF L a c) (hlt : a < c) (hn : L[a]? = some '\n') :
    LF L (a + 1) c := by
  obtain ⟨h1, h2, h3⟩ := h
  refine ⟨by omega, h2, fun fuel hf => ?_⟩
  have := h3 (fuel + 1) (by omega)
  rw [slice_cons L hn hlt] at this
  unfold Spec.isLayout at this
  rw [if_pos (by rfl)] at this
  exact this

/-- a newline, or the backslash of a pair, in front -/
theorem LF.cons_pn {L : Str} {a c : Nat} (hp : PosPN L a) (hlt : a < c) (h : LF L (a + 1) c) :
    LF L a c := by
  obtain ⟨h1, h2, h3⟩ := h
  refine ⟨by omega, h2, fun fuel hf => ?_⟩
  cases fuel with
  | zero => omega
  | succ f =>
    rcases hp with hn | ⟨hb, hn⟩
    · rw [slice_cons L hn hlt]
      unfold Spec.isLayout
      rw [if_pos (by rfl)]
      exact h3 f (by omega)
    · rw [slice_cons L hb hlt]
      unfold Spec.isLayout
      rw [if_neg (by decide)]
      by_cases hc : a + 1 < c
      · have h' := LF.tail_nl ⟨h1, h2, h3⟩ hc hn
        rw [slice_cons L hn hc]
        rw [if_pos (by rfl)]
        simp only [List.drop_succ_cons, List.drop_zero]
        exact h'.2.2 f (by omega)
      · have e : a + 1 = c := by omega
        rw [← e, slice_self]
        rfl

/-- a region without a body in front -/
theorem LF.region {L : Str} {st : List RedirCell} {c : Nat} : ∀ (n x y : Nat), y - x = n → x ≤ y →
    y ≤ c → GRegT L st x y → (∀ p, x ≤ p → p < y → ¬ InBody st p) → LF L y c → LF L x c
  | 0, x, y, hn, hxy, _, _, _, h => by
    have : x = y := by omega
    subst this; exact h
  | n + 1, x, y, hn, hxy, hyc, hr, hnb, h => by
    have hx : x < y := by omega
    have ih := LF.region n (x + 1) y (by omega) (by omega) hyc
      (fun p h1 h2 h3 => hr p (by omega) h2 h3) (fun p h1 h2 => hnb p (by omega) h2) h
    have hlen : x < L.length := by have := h.2.1; omega
    rcases hr x (Nat.le_refl _) hx hlen with hp | hb
    · exact LF.cons_pn hp (by omega) ih
    · exact absurd hb (hnb x (Nat.le_refl _) hx)

theorem dropWhile_comment : ∀ (u v : Str), (∀ ch ∈ u, ch ≠ '\n') → (v = [] ∨ v.head? = some '\n') →
    (u ++ v).dropWhile (· != '\n') = v
  | [], v, _, hv => by
    rcases hv with rfl | hv
    · rfl
    · cases v with
      | nil => rfl
      | cons d v' =>
        simp only [List.head?_cons, Option.some.injEq] at hv
        subst hv
        simp
  | ch :: u, v, hu, hv => by
    have hc : (ch != '\n') = true := by simpa using hu ch List.mem_cons_self
    simp only [List.cons_append, List.dropWhile_cons, hc, if_true]
    exact dropWhile_comment u v (fun x hx => hu x (List.mem_cons_of_mem _ hx)) hv

/-- a `Skip` in front -/
theorem LF.skip {L : Str} {i a c : Nat} (hs : Skip L i a) (h : LF L a c) : LF L i c := by
  obtain ⟨h1, h2, h3⟩ := h
  obtain ⟨m, ⟨b1, b2, w, hd, hw⟩, hm⟩ := hs
  have hia : i ≤ a := Skip.le ⟨m, ⟨b1, b2, w, hd, hw⟩, hm⟩
  refine ⟨by omega, h2, fun fuel hf => ?_⟩
  have hlen : (Str.slice L i m).length = m - i := C04.slice_length L b2
  rcases hm with rfl | ⟨c1, c2, c3, c4⟩
  · rw [← C04.slice_cat L b1 h1 h2]
    exact isLayout_run hd hw _ (c - m) h3 fuel (by rw [hlen]; omega)
  · have hmc : m ≤ c := by omega
    rw [← C04.slice_cat L b1 hmc h2]
    refine isLayout_run hd hw _ (c - m) (fun f hf' => ?_) fuel (by rw [hlen]; omega)
    cases f with
    | zero => omega
    | succ f =>
      rw [C04.slice_cons L c2 (by omega)]
      unfold Spec.isLayout
      rw [if_neg (by decide), if_neg (by simp), if_neg (by simp), if_pos (by rfl)]
      rw [← C04.slice_cat L (show m + 1 ≤ a by omega) h1 h2]
      rw [dropWhile_comment]
      · exact h3 f (by omega)
      · intro ch hch
        obtain ⟨j, hj⟩ := List.getElem?_of_mem hch
        have hlen2 : (Str.slice L (m + 1) a).length = a - (m + 1) :=
          C04.slice_length L (by omega)
        have hlt : j < a - (m + 1) := by
          rw [← hlen2]; exact (List.getElem?_eq_some_iff.mp hj).1
        rw [slice_getElem? L (by omega)] at hj
        intro hx
        subst hx
        exact c3 (m + 1 + j) (by omega) (by omega) hj
      · by_cases hac : a < c
        · right
          rw [C04.slice_cons L c4 hac]; rfl
        · left
          have : a = c := by omega
          rw [this, slice_self]

/-- one dropped NEWLINE token in front -/
theorem LF.deliv_nl {L : Str} {st : List RedirCell} {i e c : Nat} {t : Token}
    (hd : Deliv L st i t e) (hty : t.ttype = some .NEWLINE) (hec : e ≤ c)
    (hnb : ∀ p, i ≤ p → p < e → ¬ InBody st p) (h : LF L e c) : LF L i c := by
  rcases hd with ⟨a, hsk, hpos, hae, hcase⟩ | ⟨rfl, _, _⟩
  · rcases hcase with ⟨hnn, _⟩ | ⟨_, hLa, hreg⟩
    · obtain ⟨ty, h1, h2, _⟩ := hnn
      rw [h1] at hty; cases hty; exact absurd rfl h2
    · have hia : i ≤ a := hsk.le
      have h1 : LF L (a + 1) c :=
        LF.region (e - (a + 1)) (a + 1) e rfl (by omega) hec hreg
          (fun p h1 h2 => hnb p (by omega) h2) h
      exact LF.skip hsk (LF.cons_pn (Or.inl hLa) (by omega) h1)
  · cases hty

/-- **a stretch of the chain that holds dropped NEWLINE tokens only, without a body, is
    layout**, followed by whatever is layout -/
theorem chain_layout {L : Str} {st : List RedirCell} {c : Nat} : ∀ {ts : List Token} {i m : Nat},
    ChainL L st i ts m → (∀ t ∈ ts, t.ttype = some .NEWLINE) → m ≤ c →
    (∀ p, i ≤ p → p < m → ¬ InBody st p) → LF L m c → LF L i c
  | [], i, m, h, _, hmc, hnb, hl =>
    LF.region (m - i) i m rfl h.1 hmc h.2 hnb hl
  | t :: ts, i, m, h, hty, hmc, hnb, hl => by
    obtain ⟨i', e, a1, a2, a3, a4⟩ := h
    have hem : e ≤ m := ChainL.le a4
    have hie : i' ≤ e := by
      rcases a3 with ⟨a, h1, h2, h3, _⟩ | ⟨_, h1, h2⟩
      · have := h1.le; omega
      · have := h1.le; omega
    have h1 : LF L e c := chain_layout a4 (fun t' ht' => hty t' (List.mem_cons_of_mem _ ht')) hmc
      (fun p h1 h2 => hnb p (by omega) h2) hl
    have h2 : LF L i' c := LF.deliv_nl a3 (hty t List.mem_cons_self) (by omega)
      (fun p h1 h2 => hnb p (by omega) (by omega)) h1
    exact LF.region (i' - i) i i' rfl a1 (by omega) a2 (fun p h1 h2 => hnb p h1 (by omega)) h2

/-- **the text between two tokens with only dropped NEWLINE tokens between them, holding no
    here-document body, is layout in the sense of `Spec.isLayout`** -/
theorem gap_layout {L : Str} {st : List RedirCell} {pre mid post : List Token} {t1 t2 : Token}
    {i c a1 b1 a2 b2 : Nat} (h : ChainL L st i (pre ++ t1 :: (mid ++ t2 :: post)) c)
    (hp1 : t1.pos = some (a1, b1)) (hp2 : t2.pos = some (a2, b2))
    (hmid : ∀ t ∈ mid, t.ttype = some .NEWLINE) (ha2 : a2 ≤ L.length)
    (hnb : ∀ p, b1 ≤ p → p < a2 → ¬ InBody st p) :
    Spec.isLayout (L.length + 1) (Str.slice L b1 a2) = true := by
  obtain ⟨_, _, h2⟩ := ChainL.split h
  obtain ⟨_, h3⟩ := h2.first hp1
  obtain ⟨m, h4, h5⟩ := ChainL.split h3
  obtain ⟨i', e, c1, c2, c3, _⟩ := h5
  obtain ⟨_, _, hsk⟩ := c3.pos hp2
  have hia : i' ≤ a2 := hsk.le
  have l1 : LF L i' a2 := LF.skip hsk (LF.refl L ha2)
  have l2 : LF L m a2 := LF.region (i' - m) m i' rfl c1 hia c2
    (fun p h1 h2 => hnb p (by have := ChainL.le h4; omega) (by omega)) l1
  have l3 : LF L b1 a2 := chain_layout h4 hmid (by omega)
    (fun p h1 h2 => hnb p h1 (by omega)) l2
  exact l3.2.2 _ (by omega)

/-- the text before the first token that is not a dropped NEWLINE -/
theorem lead_layout {L : Str} {st : List RedirCell} {lead post : List Token} {t : Token}
    {c a b : Nat} (h : ChainL L st 0 (lead ++ t :: post) c) (hp : t.pos = some (a, b))
    (hlead : ∀ t ∈ lead, t.ttype = some .NEWLINE) (ha : a ≤ L.length)
    (hnb : ∀ p, p < a → ¬ InBody st p) :
    Spec.isLayout (L.length + 1) (Str.slice L 0 a) = true := by
  obtain ⟨m, h4, h5⟩ := ChainL.split h
  obtain ⟨i', e, c1, c2, c3, _⟩ := h5
  obtain ⟨_, _, hsk⟩ := c3.pos hp
  have hia : i' ≤ a := hsk.le
  have l1 : LF L i' a := LF.skip hsk (LF.refl L ha)
  have l2 : LF L m a := LF.region (i' - m) m i' rfl c1 hia c2
    (fun p h1 h2 => hnb p (by omega)) l1
  have l3 : LF L 0 a := chain_layout h4 hlead (by omega) (fun p h1 h2 => hnb p (by omega)) l2
  exact l3.2.2 _ (by omega)

/-! ## a run that found layout only -/

/-- once the end-of-input token was delivered the cursor is at the end of the line or beyond -/
theorem Chain.last_eof {L : Str} {st : List RedirCell} {ts : List Token} {c : Nat}
    (h : Chain L st ts c) : ∀ ts' t, ts = ts' ++ [t] → t.ttype = some .EOF → L.length ≤ c := by
  induction h with
  | nil => intro ts' t h; exact absurd h (by simp)
  | tok _ h1 h2 h3 h4 h5 ih =>
    intro ts' t h hty
    obtain ⟨_, h'⟩ := List.append_inj' h rfl
    simp only [List.cons.injEq, and_true] at h'
    subst h'
    obtain ⟨ty, q1, _, q3⟩ := h5
    rw [q1] at hty; cases hty; exact absurd rfl q3
  | nl _ h1 h2 h3 h4 h5 h6 ih =>
    intro ts' t h hty
    obtain ⟨_, h'⟩ := List.append_inj' h rfl
    simp only [List.cons.injEq, and_true] at h'
    subst h'
    rw [h4] at hty; cases hty
  | eof _ h1 ih => intro _ _ _ _; exact Nat.le_refl _
  | gath _ h1 h2 ih =>
    intro ts' t h hty
    have := ih ts' t h hty
    omega

/-- the tokens of a chain have a type: none is "typeless" -/
theorem ChainL.types {L : Str} {st : List RedirCell} : ∀ {ts : List Token} {i c : Nat},
    ChainL L st i ts c → ∀ t ∈ ts, NN t ∨ t.ttype = some .NEWLINE ∨ t = eofTok
  | [], _, _, _, t, ht => by cases ht
  | t0 :: ts, i, c, h, t, ht => by
    obtain ⟨i', e, _, _, a3, a4⟩ := h
    rcases List.mem_cons.mp ht with rfl | ht
    · rcases a3 with ⟨a, _, _, _, hc⟩ | ⟨h1, _⟩
      · rcases hc with ⟨hnn, _⟩ | ⟨hnl, _⟩
        · exact Or.inl hnn
        · exact Or.inr (Or.inl hnl)
      · exact Or.inr (Or.inr h1)
    · exact ChainL.types a4 t ht

theorem droppable_nl {L : Str} {st : List RedirCell} {ts : List Token} {i c : Nat}
    (h : ChainL L st i ts c) {t : Token} (ht : t ∈ ts) (hd : Droppable t) :
    t.ttype = some .NEWLINE := by
  rcases ChainL.types h t ht with h1 | h1 | h1
  · exact absurd hd (nn_not_droppable h1)
  · exact h1
  · subst h1
    rcases hd with hd | hd <;> cases hd

/-- **a run that was delivered dropped NEWLINE tokens and the end-of-input token only, with the
    cursor at the end of its line, ran over layout: `Spec.isLayout` holds of the whole line** -/
theorem none_LF {L : Str} {lead : List Token} {t : Token} {c : Nat}
    (h : ChainL L [] 0 (lead ++ [t]) c) (hd : ∀ x ∈ lead, Droppable x)
    (ht : t.ttype = some .EOF) : LF L 0 L.length := by
  have hnl : ∀ x ∈ lead, x.ttype = some .NEWLINE :=
    fun x hx => droppable_nl h (List.mem_append_left _ hx) (hd x hx)
  have hnb : ∀ p, ¬ InBody ([] : List RedirCell) p := by
    rintro p ⟨c, hc, _⟩; cases hc
  obtain ⟨m, h1, h2⟩ := ChainL.split h
  obtain ⟨i', e, c1, c2, c3, c4⟩ := h2
  have hsk : Skip L i' L.length := by
    rcases c3 with ⟨a, _, _, _, hc⟩ | ⟨_, hs, _⟩
    · rcases hc with ⟨hnn, _⟩ | ⟨hn, _⟩
      · obtain ⟨ty, q1, _, q3⟩ := hnn
        rw [q1] at ht; cases ht; exact absurd rfl q3
      · rw [hn] at ht; cases ht
    · exact hs
  have l1 : LF L i' L.length := LF.skip hsk (LF.refl L (Nat.le_refl _))
  have l2 : LF L m L.length := LF.region (i' - m) m i' rfl c1 hsk.le_len c2 (fun p _ _ => hnb p) l1
  have l3 : LF L 0 L.length := chain_layout h1 hnl (by have := l2.1; omega)
    (fun p _ _ => hnb p) l2
  exact l3

theorem LF.whole {L : Str} (h : LF L 0 L.length) : ∀ fuel, L.length ≤ fuel →
    Spec.isLayout fuel L = true := by
  intro fuel hf
  have := h.2.2 fuel (by omega)
  have e : Str.slice L 0 L.length = L := by simp [Str.slice]
  rw [e] at this
  exact this

theorem none_layout {L : Str} {lead : List Token} {t : Token}
    (h : ChainL L [] 0 (lead ++ [t]) L.length) (hd : ∀ x ∈ lead, Droppable x)
    (ht : t.ttype = some .EOF) : Spec.isLayout (L.length + 1) L = true :=
  (none_LF h hd ht).whole _ (by omega)

/-- a region reaching the end of the line -/
theorem LF.region_trunc {L : Str} {st : List RedirCell} {x y : Nat} (hx : x ≤ L.length)
    (hy : L.length ≤ y) (hr : GRegT L st x y) (hnb : ∀ p, ¬ InBody st p) : LF L x L.length :=
  LF.region (L.length - x) x L.length rfl hx (Nat.le_refl _)
    (fun p h1 h2 h3 => hr p h1 (by omega) h3) (fun p _ _ => hnb p) (LF.refl L (Nat.le_refl _))

/-- a stretch of dropped NEWLINE tokens whose cursor reaches the end of the line or goes beyond
    it (the dead state): the line from `i` on is layout -/
theorem chain_trunc {L : Str} {st : List RedirCell} (hnb : ∀ p, ¬ InBody st p) :
    ∀ {ts : List Token} {i m : Nat}, ChainL L st i ts m → (∀ t ∈ ts, t.ttype = some .NEWLINE) →
      i ≤ L.length → L.length ≤ m → LF L i L.length
  | [], i, m, h, _, hi, hm => LF.region_trunc hi hm h.2 hnb
  | t :: ts, i, m, h, hty, hi, hm => by
    obtain ⟨i', e, a1, a2, a3, a4⟩ := h
    by_cases h1 : L.length ≤ i'
    · exact LF.region_trunc hi h1 a2 hnb
    · have hi' : i' ≤ L.length := by omega
      have hnl := hty t List.mem_cons_self
      have l2 : LF L i' L.length := by
        by_cases h2 : e ≤ L.length
        · have l1 : LF L e L.length :=
            chain_trunc hnb a4 (fun t' ht' => hty t' (List.mem_cons_of_mem _ ht')) h2 hm
          exact LF.deliv_nl a3 hnl h2 (fun p _ _ => hnb p) l1
        · rcases a3 with ⟨a, hsk, hpos, hae, hcase⟩ | ⟨rfl, _, _⟩
          · rcases hcase with ⟨hnn, _⟩ | ⟨_, hLa, hreg⟩
            · obtain ⟨ty, q1, q2, _⟩ := hnn
              rw [q1] at hnl; cases hnl; exact absurd rfl q2
            · have halt : a < L.length := (List.getElem?_eq_some_iff.mp hLa).1
              have l1 : LF L (a + 1) L.length :=
                LF.region_trunc (by omega) (by omega) hreg hnb
              exact LF.skip hsk (LF.cons_pn (Or.inl hLa) halt l1)
          · cases hnl
      exact LF.region (i' - i) i i' rfl a1 hi' a2 (fun p _ _ => hnb p) l2

end Bashlex.C05.TGT

#print axioms Bashlex.C05.TGT.none_layout
#print axioms Bashlex.C05.TGT.chain_trunc
#print axioms Bashlex.C05.TGT.gap_layout
#print axioms Bashlex.C05.TGT.lead_layout
