/-
  C05, character level, TIGHT regions, part 2 (generated from `Props/C05/TGRead.lean` by renaming
  the namespace: the same walk of `_readtoken`, over the tight `GathQ` of `FT1.lean`).
-/
import Bashlex.Props.C05.FT1

namespace Bashlex.C05.TGT
open Bashlex Bashlex.M Bashlex.C10 Bashlex.C11 Bashlex.C03.Tok Bashlex.C04 Bashlex.C04.TTP Bashlex.C05 Bashlex.C05.TG
set_option linter.unusedSimpArgs false
set_option linter.unusedVariables false

/-- the exact-cursor tape invariant with the redirect store and queue -/
def TpS (L : Str) (sr : List RedirCell) (rk : List (Nat × Bool)) (ps : List Nat) (i : Nat)
    (l : Local) (e : Env) : Prop :=
  Tp L ps i l e ∧ l.store = sr ∧ l.redirstack = rk

section
variable {L : Str} {sr : List RedirCell} {rk : List (Nat × Bool)} {ps : List Nat} {i j : Nat}

theorem getc_tps (rqn : Bool) :
    HT (TpS L sr rk ps i) (getc rqn)
      (fun c l e => ∃ j, GetcR rqn L i j c ∧ TpS L sr rk ps j l e) ET := by
  intro l e h
  obtain ⟨h0, hs, hr⟩ := h
  have h00 := h0
  obtain ⟨a1, a2, a3, a4, a5⟩ := h0
  rw [run_getc rqn l e a4]
  cases hgc : (tapeOf l e).getc rqn ((tapeOf l e).line.length + 1) with
  | error u => cases u; exact True.intro
  | ok v =>
    obtain ⟨c, t'⟩ := v
    obtain ⟨b1, b2⟩ := tape_getc_R rqn _ _ _ _ hgc (by rw [a1, a2]; exact a3) (by omega)
    rw [a1, a2] at b2
    exact ⟨t'.idx, b2, h00.put (b1.trans a1) rfl b2.le', by rw [putL_store]; exact hs,
      by rw [putL_redirstack]; exact hr⟩

theorem ungetc_tps (c : Option Char) (hj : 0 < j) :
    HT (TpS L sr rk ps j) (ungetc c) (fun _ l e => TpS L sr rk ps (j - 1) l e) ET := by
  intro l e h
  obtain ⟨h0, hs, hr⟩ := h
  have h1 := ungetc_tp (L := L) (ps := ps) c hj l e h0
  have h00 := h0
  obtain ⟨a1, a2, a3, a4, a5⟩ := h0
  rw [run_ungetc] at h1 ⊢
  have hu : (tapeOf l e).ungetc = (true, { tapeOf l e with idx := (tapeOf l e).idx - 1 }) := by
    unfold Tape.ungetc
    rw [if_pos]
    rw [a1, a2]
    have hne : L ≠ [] := by
      intro hl; rw [hl] at a3; simp at a3; omega
    simp only [Bool.and_eq_true, Bool.not_eq_true', List.isEmpty_eq_false_iff, ne_eq, bne_iff_ne,
      decide_eq_true_eq]
    exact ⟨⟨hne, by omega⟩, a3⟩
  rw [hu] at h1 ⊢
  simp only [] at h1 ⊢
  exact ⟨h1, by rw [putL_store]; exact hs, by rw [putL_redirstack]; exact hr⟩

theorem recordpos_tps (rel : Nat) :
    HT (TpS L sr rk ps i) (recordpos rel) (fun _ l e => TpS L sr rk (ps ++ [i - rel]) i l e) ET := by
  intro l e h
  obtain ⟨h0, hs, hr⟩ := h
  have h1 := recordpos_tp (L := L) (ps := ps) (k := i) rel l e h0
  rw [C11.run_recordpos] at h1 ⊢
  exact ⟨h1, hs, hr⟩

theorem getc_binds {β : Type} {rqn : Bool} {f : Option Char → M β} {Q : β → Local → Env → Prop}
    (h : ∀ c j, GetcR rqn L i j c → HT (TpS L sr rk ps j) (f c) Q ET) :
    HT (TpS L sr rk ps i) (getc rqn >>= f) Q ET :=
  HT.bind (getc_tps rqn) (fun c => HT.pre_exists (fun j => HT.pre_pure (fun hg => h c j hg)))

/-- `_discard_until('\n')`: the cursor is on a newline, or at the end of the line; no newline
    was passed -/
theorem discardUntil_g :
    HT (TpS L sr rk [] i) (discardUntil '\n')
      (fun _ l e => ∃ j, (i ≤ j ∧ (∀ k, i ≤ k → k < j → L[k]? ≠ some '\n') ∧
        (L[j]? = some '\n' ∨ j = L.length)) ∧ TpS L sr rk [] j l e) ET := by
  unfold discardUntil
  refine keep_bind w_loopFuel (fun fuel _ => ?_)
  refine getc_binds (fun c0 i1 hg0 => ?_)
  -- the character `c` was read from `j'`; no newline before `j'`
  let Inv : Option Char → Nat → Prop := fun c j =>
    ∃ j', GetcR false L j' j c ∧ i ≤ j' ∧ ∀ k, i ≤ k → k < j' → L[k]? ≠ some '\n'
  refine HT.bind (Q := fun c l e => ∃ j, (Inv c j ∧ ∀ ch, c = some ch → ch = '\n') ∧
      TpS L sr rk [] j l e) ?_ (fun c1 => ?_)
  · refine HT.pre (HT.loop (E := ET)
      (I := fun c l e => ∃ j, Inv c j ∧ TpS L sr rk [] j l e) True.intro
      (fun c => ?_) fuel c0) (fun l e h => ⟨i1, ⟨i, hg0, Nat.le_refl _, fun k h1 h2 => by omega⟩, h⟩)
    refine HT.pre_exists (fun j => HT.pre_pure (fun hj => ?_))
    cases c with
    | none => exact HT.pure (fun l e h => ⟨j, ⟨hj, fun ch hch => by cases hch⟩, h⟩)
    | some ch =>
      simp only []
      refine HT.ite (fun hne => ?_) (fun hne => ?_)
      · refine getc_binds (fun c' j2 hg' => ?_)
        refine HT.pure (fun l e h => ⟨j2, ⟨j, hg', ?_, ?_⟩, h⟩)
        · obtain ⟨j', hg, h1, _⟩ := hj
          have := hg.le; omega
        · obtain ⟨j', hg, h1, h2⟩ := hj
          intro k hk1 hk2
          by_cases hk : k < j'
          · exact h2 k hk1 hk
          · obtain ⟨g1, g2, _⟩ := hg.char ch rfl
            have hraw := hg.raw rfl
            have hkj : k = j - 1 := by omega
            rw [hkj, g2]
            intro hx
            have : ch = '\n' := by simpa using hx
            subst this
            simp at hne
      · refine HT.pure (fun l e h => ⟨j, ⟨hj, fun ch' hch => ?_⟩, h⟩)
        cases hch
        simpa using hne
  refine HT.pre_exists (fun j => HT.pre_pure (fun hj => ?_))
  obtain ⟨⟨j', hg, h1, h2⟩, hch⟩ := hj
  cases c1 with
  | none =>
    simp only [Option.isSome_none, Bool.false_eq_true, if_false]
    have hjL := (hg.atEnd rfl).1
    have hj' : j' = j := by
      apply Classical.byContradiction
      intro hne
      have hlt : j' < L.length := by have := hg.le; omega
      obtain ⟨x, hx⟩ : ∃ x, L[j']? = some x := ⟨L[j'], List.getElem?_eq_getElem hlt⟩
      have := (hg.exact hx (Or.inr rfl)).1
      cases this
    subst hj'
    exact HT.pure (fun l e h => ⟨j', ⟨h1, h2, Or.inr hjL⟩, h⟩)
  | some ch =>
    simp only [Option.isSome_some, if_true]
    have := hch ch rfl
    subst this
    obtain ⟨g1, g2, g3⟩ := hg.char '\n' rfl
    have hraw := hg.raw rfl
    have hjj : j - 1 = j' := by omega
    refine HT.post (ungetc_tps (j := j) _ (by omega)) (fun _ l e h => ⟨j - 1, ⟨?_, ?_, Or.inl g2⟩, h⟩)
    · omega
    · rw [hjj]; exact h2

end

/-! ## `_readtoken` -/

/-- what `_readtoken` returns, with what was skipped since the entry cursor `i0` -/
def ReadG (L : Str) (i0 : Nat) (r : TokType ⊕ Token) (l : Local) (e : Env) : Prop :=
  match r with
  | .inl ty => ∃ a, Skip L i0 a ∧
      ((ty = .NEWLINE ∧ L[a]? = some '\n' ∧ GathQ L [a] (a + 1) l e) ∨
       (NNty ty ∧ ∃ j, Tp L [a] j l e))
  | .inr t => (t = eofTok ∧ Skip L i0 L.length ∧ Tp L [] L.length l e) ∨
      ∃ a k, Skip L i0 a ∧ t.pos = some (a, k) ∧ a < k ∧ NN t ∧ Tp L [] k l e

section
variable {L : Str} {sr : List RedirCell} {rk : List (Nat × Bool)}

theorem word_leaf_g (hS : ScanHyp) (hnl : NL L) (c : Char) {i0 a : Nat} (hsk : Skip L i0 a) :
    HT (RWI L a { c := some c, allDigit := isDigit c })
      (do let t ← readtokenword c; pure (Sum.inr t) : M (TokType ⊕ Token)) (ReadG L i0) ET := by
  have h := HT.and_sat (readtokenword_tt hS hnl c a) (sat_readtokenword_nn c)
  refine HT.bind (HT.exn h (fun _ _ => True.intro)) (fun t => ?_)
  refine HT.pure (fun l e h => Or.inr ?_)
  obtain ⟨hnn, k, ⟨tw, h1, h2⟩, h3⟩ := h
  exact ⟨a, k, hsk, h2.1, h2.2.1, hnn, h3⟩

theorem bare_leaf_g {i0 a j : Nat} {ty : TokType} (hsk : Skip L i0 a) (hne : NNty ty) :
    HT (Tp L [a] j) (pure (Sum.inl ty) : M (TokType ⊕ Token)) (ReadG L i0) ET :=
  HT.pure (fun l e h => ⟨a, hsk, Or.inr ⟨hne, j, h⟩⟩)

set_option maxHeartbeats 2000000 in
/-- **`_readtoken`**, entered at cursor `i0` -/
theorem readtoken_g (hS : ScanHyp) (hnl : NL L) (hlast : LastNL L)
    (hlen : L.length < 1073741824) (hnd : (rk.map Prod.fst).Nodup) {i0 : Nat}
    (hi0 : i0 ≤ L.length) :
    HT (TpS L sr rk [] i0) readtoken (ReadG L i0) ET := by
  unfold readtoken
  simp only []
  refine keep_bind w_loopFuel (fun fuel _ => ?_)
  refine getc_binds (fun c0 i1 hg0 => ?_)
  let Inv : Option Char → Nat → Prop := fun c i => ∃ m, BlankRun L i0 m ∧ GetcR true L m i c
  refine HT.bind (Q := fun c l e => ∃ i, Inv c i ∧ TpS L sr rk [] i l e) ?_ (fun c1 => ?_)
  · -- skipping blanks
    refine HT.pre (HT.loop (E := ET)
      (I := fun c l e => ∃ i, Inv c i ∧ TpS L sr rk [] i l e) True.intro
      (fun c => ?_) fuel c0) (fun l e h => ⟨i1, ⟨i0, BlankRun.refl L hi0, hg0⟩, h⟩)
    refine HT.pre_exists (fun i => HT.pre_pure (fun hi => ?_))
    cases c with
    | none => exact HT.pure (fun l e h => ⟨i, hi, h⟩)
    | some ch =>
      simp only []
      refine HT.ite (fun hb => ?_) (fun _ => HT.pure (fun l e h => ⟨i, hi, h⟩))
      refine getc_binds (fun c' i' hg' => ?_)
      refine HT.pure (fun l e h => ⟨i', ⟨i, ?_, hg'⟩, h⟩)
      obtain ⟨m, hm, hg⟩ := hi
      obtain ⟨g1, g2, g3⟩ := hg.char ch rfl
      have hlt := (List.getElem?_eq_some_iff.mp g2).1
      have b1 : BlankRun L m (i - 1) := BlankRun.ofDel (by omega) (by omega) g3
      have b2 : BlankRun L (i - 1) (i - 1 + 1) := BlankRun.one g2 hb
      have e1 : i - 1 + 1 = i := by omega
      rw [e1] at b2
      exact hm.trans (b1.trans b2)
  refine HT.pre_exists (fun i => HT.pre_pure (fun hi => ?_))
  obtain ⟨m, hm, hg⟩ := hi
  -- the newline branch, from a state with the start recorded on a newline
  have nlTail : ∀ (a : Nat) (u : Local → Local),
      (∀ l e, GathQ L [a] (a + 1) l e → GathQ L [a] (a + 1) (u l) e) →
      Skip L i0 a → L[a]? = some '\n' →
      HT (TpS L sr rk [a] (a + 1)) (do
        gatherheredocuments
        modify u
        let t ← tokentypeOfChar '\n'
        pure (Sum.inl t) : M (TokType ⊕ Token)) (ReadG L i0) ET := by
    intro a u hu hsk hLa
    have hlt := (List.getElem?_eq_some_iff.mp hLa).1
    refine HT.bind (HT.pre (gather_reg (L := L) (ps := [a]) (c := a + 1) hlast hlen) ?_) (fun _ => ?_)
    · rintro l e ⟨⟨a1, a2, a3, a4, a5⟩, hs, hr⟩
      exact ⟨a1, a2, by omega, a4, a5, by rw [hr]; exact hnd⟩
    refine HT.bind (Q := fun _ l e => GathQ L [a] (a + 1) l e) (HT.modify hu) (fun _ => ?_)
    refine keep_bind (v_tokentypeOfChar '\n') (fun t ht => ?_)
    have : t = .NEWLINE := by
      have : TokType.ofChar '\n' = some .NEWLINE := rfl
      rw [this] at ht; cases ht; rfl
    subst this
    exact HT.pure (fun l e h => ⟨a, hsk, Or.inl ⟨rfl, hLa, h⟩⟩)
  cases c1 with
  | none =>
    have hend := hg.atEnd rfl
    have hsk : Skip L i0 L.length := by
      refine Skip.ofBlank (hm.trans (BlankRun.ofDel ?_ (Nat.le_refl _) ?_))
      · have := hg.le; have := hg.le'; omega
      · rw [← hend.1]; exact hend.2
    refine HT.pure (fun l e h => Or.inl ⟨rfl, hsk, ?_⟩)
    rw [← hend.1]; exact h.1
  | some ch =>
    simp only [pure_bind]
    obtain ⟨g1, g2, g3⟩ := hg.char ch rfl
    have hlt := (List.getElem?_eq_some_iff.mp g2).1
    have hB : BlankRun L i0 (i - 1) := hm.trans (BlankRun.ofDel (by omega) (by omega) g3)
    refine HT.ite (fun hsharp => ?_) (fun hsharp => ?_)
    · -- a comment: skipped, then the newline
      have hch : ch = '#' := by simpa using hsharp
      subst hch
      refine HT.bind discardUntil_g (fun _ => ?_)
      refine HT.pre_exists (fun j => HT.pre_pure (fun hj => ?_))
      obtain ⟨hij, hnn, hj⟩ := hj
      refine getc_binds (fun c2 j2 hg2 => ?_)
      refine HT.bind (recordpos_tps 1) (fun _ => ?_)
      show HT (TpS L sr rk [j2 - 1] j2) _ _ _
      have hpos : 0 < L.length := by omega
      have hLne : L ≠ [] := by intro h0; rw [h0] at hpos; simp at hpos
      have hLlast : L[L.length - 1]? = some '\n' := by
        rw [← List.getLast?_eq_getElem?]; exact hlast hLne
      -- the start recorded: on the newline that ends the comment, behind it the cursor
      have hfacts : L[j2 - 1]? = some '\n' ∧ j2 = (j2 - 1) + 1 ∧ i - 1 < j2 - 1 ∧ j2 - 1 ≤ j := by
        rcases hj with hj | hj
        · obtain ⟨e1, e2⟩ := hg2.exact hj (Or.inr rfl)
          rw [e2]
          refine ⟨by simpa using hj, by omega, by omega, by omega⟩
        · have hj2 : j2 = L.length := by
            have := hg2.le; have := hg2.le'; omega
          rw [hj2]
          refine ⟨hLlast, by omega, ?_, by omega⟩
          -- the `#` is not the last character
          have hne : i - 1 ≠ L.length - 1 := by
            intro he; rw [he, hLlast] at g2; cases g2
          omega
      obtain ⟨hLa, hj2, hlt2, hle2⟩ := hfacts
      have hsk : Skip L i0 (j2 - 1) := by
        refine ⟨i - 1, hB, Or.inr ⟨hlt2, g2, fun k hk1 hk2 => ?_, hLa⟩⟩
        by_cases hk : k = i - 1
        · rw [hk, g2]; intro hx; cases hx
        · exact hnn k (by omega) (by omega)
      refine HT.ite (fun _ => ?_) (fun h => absurd rfl h)
      generalize j2 - 1 = a at hLa hj2 hsk
      subst hj2
      exact nlTail a _ (fun _ _ h => h) hsk hLa
    · refine HT.bind (recordpos_tps 1) (fun _ => ?_)
      show HT (TpS L sr rk [i - 1] i) _ _ _
      have hsk : Skip L i0 (i - 1) := Skip.ofBlank hB
      have hii : i = i - 1 + 1 := by omega
      generalize i - 1 = a at g2 hii hsk
      subst hii
      refine HT.ite (fun hn => ?_) (fun hn => ?_)
      · have : ch = '\n' := by simpa using hn
        subst this
        exact nlTail a _ (fun _ _ h => h) hsk g2
      have hne : ch ≠ '\n' := by simpa using hn
      have hlt' : a + 2 ≤ L.length := hnl _ _ g2 hne
      -- from here on the store and the queue are not needed
      refine HT.pre (P := Tp L [a] (a + 1)) ?_ (fun l e h => h.1)
      have hword : HT (Tp L [a] (a + 1))
          (do let t ← readtokenword ch; pure (Sum.inr t) : M (TokType ⊕ Token)) (ReadG L i0) ET :=
        HT.pre (word_leaf_g hS hnl ch hsk) (fun l e h => ⟨a + 1, winv_init g2 hne hnl, h⟩)
      have hdash : HT (Tp L [a] (a + 1))
          (do let t ← tokentypeOfChar ch; pure (Sum.inl t) : M (TokType ⊕ Token)) (ReadG L i0) ET := by
        refine keep_bind (v_tokentypeOfChar ch) (fun t ht => ?_)
        exact bare_leaf_g hsk (ofChar_ne_nl ht hne)
      refine HT.get_bind (fun l1 => ?_)
      refine HTQAt.ite (fun _ => HTQAt.ofHT hword) (fun _ => HTQAt.ofHT ?_)
      refine keep_bind (v_shellmeta ch) (fun b hb => ?_)
      subst hb
      refine HT.get_bind (fun l2 => ?_)
      refine HTQAt.ite (fun hm => HTQAt.ofHT ?_) (fun _ => HTQAt.ofHT ?_)
      · refine HT.bind (HT.exn (HT.and_sat (readtokenMeta_tt hnl g2 hne) (sat_readtokenMeta_nn ch hne))
          (fun _ _ => True.intro)) (fun r => ?_)
        refine HT.pre_pure (fun hnn => ?_)
        refine HT.pre_exists (fun j => ?_)
        cases r with
        | some ty =>
          simp only []
          exact HT.pre (bare_leaf_g (j := j) hsk (hnn ty rfl)) (fun l e h => h.1)
        | none =>
          simp only []
          refine HT.pre (P := fun l e => ((ch = '<' ∨ ch = '>') ∧ a + 1 ≤ j ∧
            Del (Str.slice L (a + 1) j) [] ∧ L[j]? = some '(') ∧ Tp L [a] j l e)
            (HT.pre_pure (fun hv => ?_)) (fun l e h => ⟨h.2, h.1⟩)
          obtain ⟨hcc, h1, h2, h3⟩ := hv
          refine HT.get_bind (fun l3 => ?_)
          refine HTQAt.ite (fun hd => ?_) (fun _ => HTQAt.ofHT ?_)
          · exfalso
            simp only [Bool.and_eq_true, beq_iff_eq] at hd
            rcases hcc with rfl | rfl <;> exact absurd hd.1 (by decide)
          · refine HT.pre (word_leaf_g hS hnl ch hsk) (fun l e h => ⟨j, ?_, h⟩)
            exact ⟨Hand.procsub ch rfl hcc g2 h1 h2 h3, by show a + 0 < L.length; omega, rfl,
              fun h => by cases h⟩
      · refine HT.get_bind (fun l3 => ?_)
        exact HTQAt.ite (fun _ => HTQAt.ofHT hdash) (fun _ => HTQAt.ofHT hword)

end

end Bashlex.C05.TGT
