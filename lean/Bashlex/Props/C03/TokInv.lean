/-
  C03, token source, part 1: the invariant `W` of the tokenizer's state while one token is read
  (the line, the cursor inside the line with a LOWER BOUND `k`, an empty `_eol_ungetc_lookahead`
  slot, the position stack, the redirect store and queue), a two-invariant form `SatW I J` of the
  state-aware Hoare logic of `Props/C11/Hoare.lean` (invariant `I` before, `J` after), and the
  triples of the tape primitives.

  The cursor discipline (this is where the defects D31 / D32 live):
    * `_getc` never moves the cursor back; it moves it forward by at least one when it returns a
      character (by THREE or more when it skips `\<newline>` pairs), and leaves it at or beyond
      the end of the line when it returns `None`;
    * `_ungetc` moves the cursor back by exactly ONE (whatever `_getc` did before -- D31), also
      for `_ungetc(None)` at the end of the line (D32);
    * hence from `W k` with `k < len(line)`: `_getc` gives `W (k+1)` WHATEVER it returns, and
      `_ungetc` takes `W (k+1)` to `W k`.  The side condition `k < len(line)` is essential: at
      `k = len(line)` (cursor at the end) `_getc(); _ungetc(None)` moves the cursor from
      `len(line)` to `len(line) - 1` (D32), so "a `_getc`/`_ungetc` pair never moves the cursor
      back" is FALSE without it.

  Witnesses (checked with `#eval`, cursor after `do let c ← getc; ungetc c` from cursor `i`):
    * D32  line `ab⏎`, i = 3 (the end):  `_getc` gives `None` at 3, `_ungetc(None)` leaves 2;
    * D31  line `a\⏎b⏎`, i = 1:  `_getc` gives `b` at 4 (it skipped the pair), `_ungetc` leaves 3
           -- right for this pair, but a SECOND `_ungetc` (of the character read before) then
           lands inside the skipped pair: the tokens of `a<\⏎ b` are WORD (0,3) `a<\`,
           NEWLINE (3,4), WORD (5,6): the redirection operator is swallowed by the word;
           `a<\⏎` at the end of the input gives WORD (0,2) `a<` and EOF; `a;\` gives
           SEMICOLON (1,3).
  Formulations that FAIL: "the cursor after a token is the cursor before it plus the length of
  the token's text" (D31), "`_getc(); _ungetc(c)` restores the cursor" (D31: +2), "… never moves
  the cursor back" (D32 at the end of the line), "the cursor never passes below the end of the
  previous `_getc`" (D32).  What HOLDS and suffices for ordered spans: token starts are recorded
  right after a `_getc` that returned a character (start = cursor - 1 ≥ previous end, because the
  slot is empty and `_getc` moves forward), ends are the cursor, and `start < end` is asserted by
  `token.__init__`; the slot stays empty because no `_ungetc(c)` happens at cursor 0 or beyond
  the end (`W` at the two levels).
-/
import Bashlex.Props.C11.Tokens

namespace Bashlex.C03.Tok
open Bashlex Bashlex.M Bashlex.C10 Bashlex.C11
set_option linter.unusedSimpArgs false
set_option linter.unusedVariables false

/-- exceptions are unconstrained in `TokSpans` -/
abbrev ET : Exn → Prop := fun _ => True

/-- the tokenizer's state while a token is read: line `L`, cursor inside the line and at or after
    `k`, empty look-ahead slot, position stack `ps`, redirect store `sr`, queue `rk` -/
def W (L : Str) (sr : List RedirCell) (rk : List (Nat × Bool)) (ps : List Nat) (k : Nat)
    (l : Local) (e : Env) : Prop :=
  (tapeOf l e).line = L ∧ (tapeOf l e).idx ≤ L.length ∧ l.eolLookahead = none ∧
  l.positions = ps ∧ l.store = sr ∧ l.redirstack = rk ∧ k ≤ (tapeOf l e).idx

section
variable {L : Str} {sr : List RedirCell} {rk : List (Nat × Bool)} {ps : List Nat} {k : Nat}

theorem W.mono {j : Nat} {l : Local} {e : Env} (h : W L sr rk ps k l e) (hj : j ≤ k) :
    W L sr rk ps j l e := by
  obtain ⟨a1, a2, a3, a4, a5, a6, a7⟩ := h
  exact ⟨a1, a2, a3, a4, a5, a6, by omega⟩

theorem W.env {l : Local} {e e' : Env} (h : W L sr rk ps k l e) (h1 : e'.tape = e.tape) :
    W L sr rk ps k l e' := by
  unfold W at h ⊢
  rw [tapeOf_env h1]; exact h

instance : EnvStable (W L sr rk ps k) := ⟨fun _ _ _ h h1 _ => h.env h1⟩

/-- the cursor is a lower bound of itself -/
theorem W.self {l : Local} {e : Env} (h : W L sr rk ps k l e) :
    W L sr rk ps (tapeOf l e).idx l e := by
  obtain ⟨a1, a2, a3, a4, a5, a6, a7⟩ := h
  exact ⟨a1, a2, a3, a4, a5, a6, Nat.le_refl _⟩

theorem W.pos_le {l : Local} {e : Env} (h : W L sr rk ps k l e) : k ≤ L.length := by
  obtain ⟨a1, a2, a3, a4, a5, a6, a7⟩ := h
  omega

end

/-! ## the two-invariant form of the logic -/

/-- from `I`: a normal return satisfies `φ` and leaves `J` -/
def SatW {α : Type} (I J : Local → Env → Prop) (m : M α) (φ : α → Prop) : Prop :=
  HT I m (fun a l e => φ a ∧ J l e) ET

/-- the same, knowing that the local state is `l0` -/
def AtW {α : Type} (I J : Local → Env → Prop) (l0 : Local) (m : M α) (φ : α → Prop) : Prop :=
  HT (fun l e => l = l0 ∧ I l e) m (fun a l e => φ a ∧ J l e) ET

namespace SatW
variable {α β : Type} {I I' J : Local → Env → Prop} {φ ψ : α → Prop}

theorem pure {a : α} (hIJ : ∀ l e, I l e → J l e) (h : φ a) : SatW I J (Pure.pure a : M α) φ :=
  HT.pure (fun l e hi => ⟨h, hIJ l e hi⟩)

theorem raise {x : Exn} : SatW I J (M.raise x : M α) φ := HT.raise True.intro
theorem foreign {a b : String} : SatW I J (M.foreign a b : M α) φ := HT.raise True.intro

theorem bind {m : M α} {f : α → M β} {ρ : β → Prop} (hm : SatW I I' m φ)
    (hf : ∀ a, φ a → SatW I' J (f a) ρ) : SatW I J (m >>= f) ρ :=
  HT.bind hm (fun a => HT.pre_pure (fun ha => hf a ha))

theorem bindE {m : M α} {f : α → M β} {ρ : β → Prop} (hm : SatW I I' m (fun _ => True))
    (hf : ∀ a, SatW I' J (f a) ρ) : SatW I J (m >>= f) ρ :=
  bind hm (fun a _ => hf a)

theorem weaken {m : M α} (hm : SatW I J m φ) (h : ∀ a, φ a → ψ a) : SatW I J m ψ :=
  HT.post hm (fun a _ _ ha => ⟨h a ha.1, ha.2⟩)

theorem triv {m : M α} (hm : SatW I J m φ) : SatW I J m (fun _ => True) :=
  hm.weaken (fun _ _ => True.intro)

theorem pre {m : M α} (hm : SatW I J m φ) (h : ∀ l e, I' l e → I l e) : SatW I' J m φ :=
  HT.pre hm h

theorem post {J' : Local → Env → Prop} {m : M α} (hm : SatW I J m φ)
    (h : ∀ l e, J l e → J' l e) : SatW I J' m φ :=
  HT.post hm (fun a l e ha => ⟨ha.1, h l e ha.2⟩)

theorem ite {c : Prop} [Decidable c] {a b : M α} (ha : c → SatW I J a φ) (hb : ¬ c → SatW I J b φ) :
    SatW I J (if c then a else b) φ := HT.ite ha hb

theorem loop {σ : Type} {site : String} {body : σ → M (σ ⊕ α)} (K : σ → Prop)
    (hbody : ∀ s, K s → SatW I I (body s) (Sum.elim K φ)) :
    ∀ fuel s, K s → SatW I I (M.loop site body fuel s) φ := by
  intro fuel s hs
  have := HT.loop (Q := fun a l e => φ a ∧ I l e) (I := fun s l e => K s ∧ I l e) (E := ET)
    (site := site) (body := body) True.intro (fun s => HT.pre_pure (fun hs => by
      refine HT.post (hbody s hs) ?_
      intro r l e h
      cases r with
      | inl s' => exact h
      | inr a => exact h)) fuel s
  exact HT.pre this (fun l e h => ⟨hs, h⟩)

theorem loopT {σ : Type} {site : String} {body : σ → M (σ ⊕ α)}
    (hbody : ∀ s, SatW I I (body s) (fun _ => True)) (fuel : Nat) (s : σ) :
    SatW I I (M.loop site body fuel s) (fun _ => True) :=
  loop (K := fun _ => True)
    (fun s _ => (hbody s).weaken (fun r _ => by cases r <;> exact True.intro)) fuel s True.intro

theorem modifyT {f : Local → Local} (h : ∀ l e, I l e → J (f l) e) :
    SatW I J (_root_.modify f : M Unit) (fun _ => True) :=
  HT.modify (fun l e hi => ⟨True.intro, h l e hi⟩)

theorem get_bind {f : Local → M β} {ρ : β → Prop} (h : ∀ l0, AtW I J l0 (f l0) ρ) :
    SatW I J ((MonadState.get : M Local) >>= f) ρ := by
  refine HT.bind HT.get (fun l0 => ?_)
  exact HT.pre (h l0) (fun l e hp => ⟨hp.1.symm, hp.2⟩)

/-- a computation that leaves the state alone -/
theorem reader {m : M α} (h : ∀ l e, ∃ a, M.run m l e = (.ok (a, l), e)) :
    SatW I I m (fun _ => True) := by
  intro l e hi
  obtain ⟨a, ha⟩ := h l e
  rw [ha]; exact ⟨True.intro, hi⟩

end SatW

namespace AtW
variable {α β : Type} {I J : Local → Env → Prop} {φ : α → Prop} {l0 : Local}

theorem pure {a : α} (hIJ : ∀ l e, I l e → J l e) (h : φ a) : AtW I J l0 (Pure.pure a : M α) φ :=
  HT.pure (fun l e hi => ⟨h, hIJ l e hi.2⟩)

theorem raise {x : Exn} : AtW I J l0 (M.raise x : M α) φ := HT.raise True.intro
theorem foreign {a b : String} : AtW I J l0 (M.foreign a b : M α) φ := HT.raise True.intro

theorem ite {c : Prop} [Decidable c] {a b : M α} (ha : c → AtW I J l0 a φ)
    (hb : ¬ c → AtW I J l0 b φ) : AtW I J l0 (if c then a else b) φ := HT.ite ha hb

theorem ofSatW {m : M α} (h : SatW I J m φ) : AtW I J l0 m φ := HT.pre h (fun _ _ hp => hp.2)

theorem set_bind {l1 : Local} {k : Unit → M β} {ρ : β → Prop} (h : ∀ e, I l0 e → I l1 e)
    (hk : SatW I J (k ()) ρ) : AtW I J l0 ((MonadStateOf.set l1 : M Unit) >>= k) ρ := by
  refine HT.bind (Q := fun _ l e => I l e) (HT.set ?_) (fun _ => hk)
  rintro l e ⟨rfl, hi⟩
  exact h e hi

theorem setT {l1 : Local} (h : ∀ e, I l0 e → J l1 e) :
    AtW I J l0 (MonadStateOf.set l1 : M Unit) (fun _ => True) := by
  refine HT.set ?_
  rintro l e ⟨rfl, hi⟩
  exact ⟨True.intro, h e hi⟩

theorem ite_bind {c : Prop} [Decidable c] {a b : M α} {k : α → M β} {ρ : β → Prop}
    (ha : c → AtW I J l0 (a >>= k) ρ) (hb : ¬ c → AtW I J l0 (b >>= k) ρ) :
    AtW I J l0 ((if c then a else b) >>= k) ρ := by
  split
  · exact ha ‹_›
  · exact hb ‹_›

theorem raise_bind {x : Exn} {k : α → M β} {ρ : β → Prop} :
    AtW I J l0 ((M.raise x : M α) >>= k) ρ := by
  intro l e _; rw [M.run_bind, M.run_raise]; exact True.intro

theorem foreign_bind {a b : String} {k : α → M β} {ρ : β → Prop} :
    AtW I J l0 ((M.foreign a b : M α) >>= k) ρ := raise_bind

theorem pure_bind {a : α} {k : α → M β} {ρ : β → Prop} (h : AtW I J l0 (k a) ρ) :
    AtW I J l0 ((Pure.pure a : M α) >>= k) ρ := by
  have : ((Pure.pure a : M α) >>= k) = k a := by simp
  rw [this]; exact h

end AtW

/-! ## `Tape.getc` never moves back -/

theorem tape_getc_mono (rqn : Bool) : ∀ (fuel : Nat) (t : Tape) (c : Option Char) (t' : Tape),
    t.getc rqn fuel = .ok (c, t') →
      t.idx ≤ t'.idx ∧ ∀ ch, c = some ch → t.idx + 1 ≤ t'.idx ∧ t.line[t'.idx - 1]? = some ch := by
  intro fuel
  induction fuel with
  | zero =>
    intro t c t' h
    simp only [Tape.getc] at h
    cases h
    exact ⟨Nat.le_refl _, fun ch h => by cases h⟩
  | succ fuel ih =>
    intro t c t' h
    unfold Tape.getc at h
    split at h
    · split at h
      · cases h; exact ⟨Nat.le_refl _, fun ch h => by cases h⟩
      · rename_i c0 hc
        simp only [] at h
        split at h
        · split at h
          · cases h
          · rename_i d hd
            split at h
            · obtain ⟨a1, a2⟩ := ih _ _ _ h
              simp only [] at a1 a2
              refine ⟨by omega, fun ch hch => ?_⟩
              obtain ⟨b1, b2⟩ := a2 ch hch
              exact ⟨by omega, b2⟩
            · cases h
              refine ⟨by simp only []; omega, fun ch hch => ?_⟩
              cases hch
              exact ⟨Nat.le_refl _, by simpa using hc⟩
        · cases h
          refine ⟨by simp only []; omega, fun ch hch => ?_⟩
          cases hch
          exact ⟨Nat.le_refl _, by simpa using hc⟩
    · cases h; exact ⟨Nat.le_refl _, fun ch h => by cases h⟩

section
variable {L : Str} {sr : List RedirCell} {rk : List (Nat × Bool)} {ps : List Nat} {k : Nat}

@[simp] theorem putL_positions' (l : Local) (t : Tape) : (putL l t).positions = l.positions := by
  cases l with
  | mk tape => cases tape <;> rfl

theorem W.put {l : Local} {e : Env} (h : W L sr rk ps k l e) {t' : Tape} {j : Nat}
    (h1 : t'.line = (tapeOf l e).line) (h2 : t'.idx ≤ L.length) (h3 : j ≤ t'.idx) :
    W L sr rk ps j (putL l t') (putE l e t') := by
  obtain ⟨a1, a2, a3, a4, a5, a6, a7⟩ := h
  unfold W
  rw [tapeOf_put, putL_eol, putL_positions', putL_store, putL_redirstack]
  exact ⟨h1.trans a1, h2, a3, a4, a5, a6, h3⟩

/-- everything about one `_getc` from a `W` state -/
theorem getc_facts_w (rqn : Bool) (l : Local) (e : Env) (h : W L sr rk ps k l e) :
    match M.run (getc rqn) l e with
    | (.ok (c, l'), e') => W L sr rk ps k l' e' ∧
        (∀ ch, c = some ch → k + 1 ≤ (tapeOf l' e').idx ∧ L[(tapeOf l' e').idx - 1]? = some ch) ∧
        (c = none → L.length ≤ (tapeOf l' e').idx)
    | (.error _, _) => True := by
  have h0 := h
  obtain ⟨a1, a2, a3, a4, a5, a6, a7⟩ := h
  rw [run_getc rqn l e a3]
  cases hgc : (tapeOf l e).getc rqn ((tapeOf l e).line.length + 1) with
  | error u => cases u; exact True.intro
  | ok v =>
    obtain ⟨c, t'⟩ := v
    obtain ⟨b1, b2, b3, b4, b5, b6⟩ := getc_spec rqn _ _ _ _ hgc
    obtain ⟨m1, m2⟩ := tape_getc_mono rqn _ _ _ _ hgc
    rw [a1] at b4 b6 m2
    simp only []
    refine ⟨h0.put b1 (b4 a2) (by omega), ?_, ?_⟩
    · intro ch hch
      rw [tapeOf_put]
      obtain ⟨n1, n2⟩ := m2 ch hch
      exact ⟨by omega, n2⟩
    · intro hc
      rw [tapeOf_put]
      exact b6 hc (by omega)

/-- `_getc` keeps every lower bound -/
theorem getc_keep (rqn : Bool) :
    SatW (W L sr rk ps k) (W L sr rk ps k) (getc rqn) (fun _ => True) := by
  intro l e h
  have := getc_facts_w rqn l e h
  revert this
  rcases M.run (getc rqn) l e with ⟨r, e'⟩
  cases r with
  | ok v => obtain ⟨c, l'⟩ := v; exact fun h => ⟨True.intro, h.1⟩
  | error x => exact fun _ => True.intro

/-- `_getc` below the end of the line raises the lower bound, whatever it returns -/
theorem getc_up (rqn : Bool) (hk : k + 1 ≤ L.length) :
    SatW (W L sr rk ps k) (W L sr rk ps (k + 1)) (getc rqn) (fun _ => True) := by
  intro l e h
  have := getc_facts_w rqn l e h
  revert this
  rcases M.run (getc rqn) l e with ⟨r, e'⟩
  cases r with
  | ok v =>
    obtain ⟨c, l'⟩ := v
    intro h
    refine ⟨True.intro, ?_⟩
    obtain ⟨⟨a1, a2, a3, a4, a5, a6, a7⟩, h2, h3⟩ := h
    refine ⟨a1, a2, a3, a4, a5, a6, ?_⟩
    cases c with
    | none => have := h3 rfl; omega
    | some ch => exact (h2 ch rfl).1
  | error x => exact fun _ => True.intro

/-- `_getc` with everything known about its result -/
theorem getc_w (rqn : Bool) :
    HT (W L sr rk ps k) (getc rqn)
      (fun c l e => W L sr rk ps k l e ∧
        (∀ ch, c = some ch → k + 1 ≤ (tapeOf l e).idx ∧ L[(tapeOf l e).idx - 1]? = some ch) ∧
        (c = none → L.length ≤ (tapeOf l e).idx)) ET := by
  intro l e h
  have := getc_facts_w rqn l e h
  revert this
  rcases M.run (getc rqn) l e with ⟨r, e'⟩
  cases r with
  | ok v => obtain ⟨c, l'⟩ := v; exact fun h => h
  | error x => exact fun _ => True.intro

/-- `_ungetc` above the lower bound moves the cursor back by one -/
theorem ungetc_down (c : Option Char) :
    SatW (W L sr rk ps (k + 1)) (W L sr rk ps k) (ungetc c) (fun _ => True) := by
  intro l e h
  have h0 := h
  obtain ⟨a1, a2, a3, a4, a5, a6, a7⟩ := h
  rw [run_ungetc]
  have hu : (tapeOf l e).ungetc = (true, { tapeOf l e with idx := (tapeOf l e).idx - 1 }) := by
    unfold Tape.ungetc
    rw [if_pos]
    rw [a1]
    have hne : L ≠ [] := by
      intro hl; rw [hl] at a2; simp at a2; omega
    simp only [Bool.and_eq_true, Bool.not_eq_true', List.isEmpty_eq_false_iff, ne_eq, bne_iff_ne,
      decide_eq_true_eq]
    exact ⟨⟨hne, by omega⟩, a2⟩
  rw [hu]
  simp only []
  refine ⟨True.intro, h0.put rfl ?_ ?_⟩
  · show (tapeOf l e).idx - 1 ≤ _; omega
  · show k ≤ (tapeOf l e).idx - 1; omega

end

/-! ## accessors (any invariant) -/

section
variable {I : Local → Env → Prop}

theorem w_curIdx : SatW I I curIdx (fun _ => True) := SatW.reader (fun l e => ⟨_, run_curIdx l e⟩)
theorem w_tapeSource : SatW I I tapeSource (fun _ => True) :=
  SatW.reader (fun l e => ⟨_, run_tapeSource l e⟩)
theorem w_tapeLine : SatW I I tapeLine (fun _ => True) :=
  SatW.reader (fun l e => ⟨_, run_tapeLine l e⟩)
theorem w_tapeAdded : SatW I I tapeAdded (fun _ => True) :=
  SatW.reader (fun l e => ⟨_, run_tapeAdded l e⟩)
theorem w_optStrict : SatW I I optStrict (fun _ => True) :=
  SatW.reader (fun l e => ⟨_, run_optStrict l e⟩)
theorem w_optProceed : SatW I I optProceed (fun _ => True) := SatW.reader run_optProceed

theorem w_syn [EnvStable I] (c : Char) : SatW I I (syn c) (fun _ => True) := by
  intro l e hi
  obtain ⟨e', hr, h1, h2⟩ := run_syn c l e
  rw [hr]; exact ⟨True.intro, EnvStable.env l e e' hi h1 h2⟩

/-- `syn` with its value -/
theorem syn_val [EnvStable I] (c : Char) : SatW I I (syn c) (fun r => r = synClass c) := by
  intro l e hi
  obtain ⟨e', hr, h1, h2⟩ := run_syn c l e
  rw [hr]; exact ⟨rfl, EnvStable.env l e e' hi h1 h2⟩

/-- `MatchedPairError` always raises -/
theorem w_mpe {α : Type} {J : Local → Env → Prop} {φ : α → Prop} (close : Char) :
    SatW I J (matchedPairError close : M α) φ := by
  intro l e _
  have hrun : ∃ x, M.run (matchedPairError close : M α) l e = (.error x, e) := by
    unfold matchedPairError
    simp only [M.run_bind, run_tapeSource, run_curIdx, M.run_raise]
    exact ⟨_, rfl⟩
  obtain ⟨x, hx⟩ := hrun
  rw [hx]; exact True.intro

theorem w_mpe_bind {α β : Type} {J : Local → Env → Prop} {ρ : β → Prop} (close : Char)
    {k : α → M β} : SatW I J ((matchedPairError close : M α) >>= k) ρ := by
  refine HT.bind (Q := fun _ _ _ => False) ?_ (fun _ => HT.pre_false)
  intro l e _
  have hrun : ∃ x, M.run (matchedPairError close : M α) l e = (.error x, e) := by
    unfold matchedPairError
    simp only [M.run_bind, run_tapeSource, run_curIdx, M.run_raise]
    exact ⟨_, rfl⟩
  obtain ⟨x, hx⟩ := hrun
  rw [hx]; exact True.intro

end

end Bashlex.C03.Tok
