/-
  C03, part 2: values occupying intervals.

  `NodeIn len f n g`: the tree `n` is fine (`Strict`), all its nodes end at or before `g`, and its
  root starts at or after `f` -- unless it sits above a D19 pipeline, whose start is 0.
  `ListIn len f l g`: the nodes of `l` occupy consecutive intervals between `f` and `g`
  (ordered, disjoint).  Constructor lemmas: a parent spanning its children first-to-last
  (`mkParent`), a compound extended by redirects (`nodeIn_addRedirects`), ...
-/
import Bashlex.Props.C03.Tree

namespace Bashlex.C03
open Bashlex Bashlex.Spec Bashlex.Node
set_option linter.unusedSimpArgs false
set_option linter.unusedVariables false

/-- every pending here-document redirect of the tree has the shape `p_redirection_heredoc` builds -/
def PendAll (n : Node) : Prop := ∀ m ∈ n.preorder, pendShape m

theorem pendAll_iff {n : Node} : PendAll n ↔ pendShape n ∧ ∀ c, c ∈ n.children → PendAll c := by
  unfold PendAll
  rw [C12.preorder_eq]
  constructor
  · intro h
    refine ⟨h n List.mem_cons_self, fun c hc m hm => h m ?_⟩
    exact List.mem_cons_of_mem _ (C12.mem_preorderL.mpr ⟨c, hc, hm⟩)
  · rintro ⟨h1, h2⟩ m hm
    rcases List.mem_cons.mp hm with rfl | hm
    · exact h1
    · obtain ⟨c, hc, hmc⟩ := C12.mem_preorderL.mp hm
      exact h2 c hc m hmc

/-- no pending redirect anywhere in the tree -/
def NoPend (n : Node) : Prop := ∀ m ∈ n.preorder, pendOf m = none

theorem noPend_iff {n : Node} : NoPend n ↔ pendOf n = none ∧ ∀ c, c ∈ n.children → NoPend c := by
  unfold NoPend
  rw [C12.preorder_eq]
  constructor
  · intro h
    refine ⟨h n List.mem_cons_self, fun c hc m hm => h m ?_⟩
    exact List.mem_cons_of_mem _ (C12.mem_preorderL.mpr ⟨c, hc, hm⟩)
  · rintro ⟨h1, h2⟩ m hm
    rcases List.mem_cons.mp hm with rfl | hm
    · exact h1
    · obtain ⟨c, hc, hmc⟩ := C12.mem_preorderL.mp hm
      exact h2 c hc m hmc

/-- the kinds `resolve` descends into -/
def descends : Node → Bool
  | .list .. | .pipeline .. | .compound .. | .ifN .. | .forN .. | .whileN .. | .untilN ..
  | .caseN .. | .pattern .. | .command .. | .function .. | .unimplemented .. => true
  | _ => false

/-- below a node `resolve` does not descend into (words, redirects, …) there is no pending
    redirect: such subtrees are finished (they come from `expandword`) -/
def Sealed (m : Node) : Prop := descends m = false → ∀ c, c ∈ m.children → NoPend c

def SealedAll (n : Node) : Prop := ∀ m ∈ n.preorder, Sealed m

theorem sealedAll_iff {n : Node} : SealedAll n ↔ Sealed n ∧ ∀ c, c ∈ n.children → SealedAll c := by
  unfold SealedAll
  rw [C12.preorder_eq]
  constructor
  · intro h
    refine ⟨h n List.mem_cons_self, fun c hc m hm => h m ?_⟩
    exact List.mem_cons_of_mem _ (C12.mem_preorderL.mpr ⟨c, hc, hm⟩)
  · rintro ⟨h1, h2⟩ m hm
    rcases List.mem_cons.mp hm with rfl | hm
    · exact h1
    · obtain ⟨c, hc, hmc⟩ := C12.mem_preorderL.mp hm
      exact h2 c hc m hmc

theorem sealed_of_desc {m : Node} (h : descends m = true) : Sealed m := by
  intro h'; rw [h] at h'; cases h'

mutual
/-- a subtree without pending redirects is sealed throughout -/
theorem noPend_sealedAll : (n : Node) → NoPend n → SealedAll n
  | operator .., _ | reservedword .., _ | pipe .., _ | parameter .., _ | tilde .., _
  | heredoc .., _ =>
    sealedAll_iff.mpr ⟨fun _ c hc => by simp [children] at hc, fun c hc => by simp [children] at hc⟩
  | list _ ps, h | pipeline _ ps, h | ifN _ ps, h | forN _ ps, h | whileN _ ps, h
  | untilN _ ps, h | caseN _ ps, h | pattern _ ps, h | command _ ps, h | unimplemented _ ps, h
  | function _ _ _ ps, h | word _ _ ps, h | assignment _ _ ps, h => by
    have h' := noPend_iff.mp h
    rw [sealedAll_iff]
    refine ⟨fun _ c hc => h'.2 c hc, ?_⟩
    simp only [children]
    exact noPendL_sealedAll ps (fun c hc => h'.2 c (by simpa [children] using hc))
  | compound _ l r, h => by
    have h' := noPend_iff.mp h
    rw [sealedAll_iff]
    refine ⟨fun _ c hc => h'.2 c hc, ?_⟩
    simp only [children, List.mem_append]
    rintro c (hc | hc)
    · exact noPendL_sealedAll l (fun c hc => h'.2 c (by simp [children, hc])) c hc
    · exact noPendL_sealedAll r (fun c hc => h'.2 c (by simp [children, hc])) c hc
  | redirect _ _ _ o _ hd _, h => by
    have h' := noPend_iff.mp h
    rw [sealedAll_iff]
    refine ⟨fun _ c hc => h'.2 c hc, ?_⟩
    simp only [children, List.mem_append, Option.mem_toList]
    rintro c (hc | hc)
    · subst hc; exact noPend_sealedAll c (h'.2 c (by simp [children]))
    · subst hc; exact noPend_sealedAll c (h'.2 c (by simp [children]))
  | commandsubstitution _ c, h | processsubstitution _ c, h => by
    have h' := noPend_iff.mp h
    rw [sealedAll_iff]
    refine ⟨fun _ k hk => h'.2 k hk, ?_⟩
    simp only [children, List.mem_singleton]
    rintro k rfl
    exact noPend_sealedAll k (h'.2 k (by simp [children]))
theorem noPendL_sealedAll : (l : List Node) → (∀ c, c ∈ l → NoPend c) → ∀ c, c ∈ l → SealedAll c
  | [], _ => by intro c hc; cases hc
  | n :: ns, h => by
    intro c hc
    rcases List.mem_cons.mp hc with heq | hc
    · exact heq ▸ noPend_sealedAll n (h n List.mem_cons_self)
    · exact noPendL_sealedAll ns (fun c hc => h c (List.mem_cons_of_mem _ hc)) c hc
end

structure NodeIn (len f : Nat) (n : Node) (g : Nat) : Prop where
  strict : Strict len n
  ends : EndsBy g n
  le : f ≤ g
  root : tainted n = true ∨ (f ≤ n.pos.1 ∧ n.pos.1 < n.pos.2)
  pend : PendAll n
  /-- the left bound lies within the input (for an untainted node this follows from `root`) -/
  fl : f ≤ len
  sld : SealedAll n

theorem NodeIn.mono {len f f' g g' : Nat} {n : Node} (h : NodeIn len f n g) (hf : f' ≤ f)
    (hg : g ≤ g') : NodeIn len f' n g' :=
  ⟨h.strict, h.ends.mono hg, by have := h.le; omega, by
    rcases h.root with h | h
    · exact Or.inl h
    · exact Or.inr ⟨by omega, h.2⟩, h.pend, by have := h.fl; omega, h.sld⟩

theorem NodeIn.end_le {len f g : Nat} {n : Node} (h : NodeIn len f n g) : n.pos.2 ≤ g := h.ends.root

theorem NodeIn.nodeS {len f g : Nat} {n : Node} (h : NodeIn len f n g) : NodeS len n :=
  h.strict n (C12.self_mem_preorder n)

theorem NodeIn.rng {len f g : Nat} {n : Node} (h : NodeIn len f n g) (ht : tainted n = false) :
    n.pos.2 ≤ len := h.nodeS.rng ht

theorem NodeIn.start {len f g : Nat} {n : Node} (h : NodeIn len f n g) (ht : tainted n = false) :
    f ≤ n.pos.1 ∧ n.pos.1 < n.pos.2 := by
  rcases h.root with h | h
  · rw [h] at ht; cases ht
  · exact h

def ListIn (len : Nat) : Nat → List Node → Nat → Prop
  | f, [], g => f ≤ g
  | f, n :: ns, g => ∃ m, NodeIn len f n m ∧ ListIn len m ns g

theorem ListIn.le {len : Nat} : ∀ {l : List Node} {f g : Nat}, ListIn len f l g → f ≤ g
  | [], _, _, h => h
  | n :: ns, f, g, h => by
    obtain ⟨m, h1, h2⟩ := h
    have := h1.le
    have := ListIn.le h2
    omega

theorem ListIn.mono {len : Nat} : ∀ {l : List Node} {f f' g g' : Nat}, ListIn len f l g →
    f' ≤ f → g ≤ g' → ListIn len f' l g'
  | [], f, f', g, g', h, hf, hg => by
    have : f ≤ g := h
    show f' ≤ g'
    omega
  | n :: ns, f, f', g, g', h, hf, hg => by
    obtain ⟨m, h1, h2⟩ := h
    exact ⟨m, h1.mono hf (Nat.le_refl _), ListIn.mono h2 (Nat.le_refl _) hg⟩

theorem ListIn.append {len : Nat} : ∀ {a b : List Node} {f m g : Nat}, ListIn len f a m →
    ListIn len m b g → ListIn len f (a ++ b) g
  | [], b, f, m, g, ha, hb => by
    have : f ≤ m := ha
    exact ListIn.mono hb this (Nat.le_refl _)
  | n :: ns, b, f, m, g, ha, hb => by
    obtain ⟨k, h1, h2⟩ := ha
    exact ⟨k, h1, ListIn.append h2 hb⟩

theorem ListIn.split {len : Nat} : ∀ {a b : List Node} {f g : Nat}, ListIn len f (a ++ b) g →
    ∃ m, ListIn len f a m ∧ ListIn len m b g
  | [], b, f, g, h => ⟨f, Nat.le_refl f, h⟩
  | n :: ns, b, f, g, h => by
    obtain ⟨k, h1, h2⟩ := h
    obtain ⟨m, h3, h4⟩ := ListIn.split h2
    exact ⟨m, ⟨k, h1, h3⟩, h4⟩

theorem listIn_single {len f g : Nat} {n : Node} : ListIn len f [n] g ↔ NodeIn len f n g := by
  constructor
  · rintro ⟨m, h1, h2⟩
    have : m ≤ g := h2
    exact h1.mono (Nat.le_refl _) this
  · intro h
    exact ⟨g, h, Nat.le_refl g⟩

theorem ListIn.mem {len : Nat} : ∀ {l : List Node} {f g : Nat}, ListIn len f l g →
    ∀ n ∈ l, NodeIn len f n g
  | [], _, _, _, n, hn => by cases hn
  | a :: as, f, g, h, n, hn => by
    obtain ⟨m, h1, h2⟩ := h
    rcases List.mem_cons.mp hn with rfl | hn
    · exact h1.mono (Nat.le_refl _) (ListIn.le h2)
    · exact (ListIn.mem h2 n hn).mono h1.le (Nat.le_refl _)

theorem ListIn.snoc {len f m g : Nat} {l : List Node} {n : Node} (hl : ListIn len f l m)
    (hn : NodeIn len m n g) : ListIn len f (l ++ [n]) g :=
  ListIn.append hl (listIn_single.mpr hn)

/-- in a chain of untainted nodes: order, and every node between the first start and the last end -/
theorem ListIn.untainted {len : Nat} : ∀ {l : List Node} {f g : Nat}, ListIn len f l g →
    (∀ n ∈ l, tainted n = false) →
    ordered l = true ∧ ∀ a b, l.head? = some a → l.getLast? = some b →
      f ≤ a.pos.1 ∧ b.pos.2 ≤ g ∧ ∀ c ∈ l, a.pos.1 ≤ c.pos.1 ∧ c.pos.1 < c.pos.2 ∧ c.pos.2 ≤ b.pos.2
  | [], _, _, _, _ => ⟨rfl, fun a b ha => by cases ha⟩
  | [x], f, g, h, ht => by
    refine ⟨rfl, ?_⟩
    intro a b ha hb
    simp only [List.head?_cons, Option.some.injEq] at ha
    simp only [List.getLast?_singleton, Option.some.injEq] at hb
    subst ha; subst hb
    have hx := listIn_single.mp h
    have hs := hx.start (ht _ List.mem_cons_self)
    refine ⟨hs.1, hx.end_le, ?_⟩
    intro c hc
    simp only [List.mem_singleton] at hc
    subst hc
    exact ⟨Nat.le_refl _, hs.2, Nat.le_refl _⟩
  | x :: y :: rest, f, g, h, ht => by
    obtain ⟨m, h1, h2⟩ := h
    have ih := ListIn.untainted h2 (fun n hn => ht n (List.mem_cons_of_mem _ hn))
    have hxs := h1.start (ht _ List.mem_cons_self)
    have hxe := h1.end_le
    obtain ⟨m2, hy, _⟩ := h2
    have hys := hy.start (ht _ (List.mem_cons_of_mem _ List.mem_cons_self))
    obtain ⟨b, hb⟩ : ∃ b, (y :: rest).getLast? = some b := by
      cases hgl : (y :: rest).getLast? with
      | none => simp at hgl
      | some b => exact ⟨b, rfl⟩
    obtain ⟨iy1, iy2, iy3⟩ := ih.2 y b rfl hb
    refine ⟨?_, ?_⟩
    · simp only [ordered, Bool.and_eq_true, decide_eq_true_eq]
      exact ⟨by omega, ih.1⟩
    · intro a b' ha hb'
      simp only [List.head?_cons, Option.some.injEq] at ha
      subst ha
      have : (x :: y :: rest).getLast? = (y :: rest).getLast? := by
        simp [List.getLast?_cons_cons]
      rw [this, hb] at hb'
      cases hb'
      refine ⟨hxs.1, iy2, ?_⟩
      intro c hc
      rcases List.mem_cons.mp hc with rfl | hc
      · have := (iy3 y List.mem_cons_self)
        exact ⟨Nat.le_refl _, hxs.2, by omega⟩
      · have := iy3 c hc
        exact ⟨by omega, this.2.1, this.2.2⟩

theorem ordered_append : ∀ {a b : List Node}, ordered a = true → ordered b = true →
    (∀ x ∈ a, ∀ y ∈ b, x.pos.2 ≤ y.pos.1) → ordered (a ++ b) = true
  | [], b, _, hb, _ => hb
  | [x], [], _, _, _ => rfl
  | [x], y :: ys, _, hb, h => by
    show ordered (x :: y :: ys) = true
    simp only [ordered, Bool.and_eq_true, decide_eq_true_eq]
    exact ⟨h x List.mem_cons_self y List.mem_cons_self, hb⟩
  | x :: x' :: xs, b, ha, hb, h => by
    simp only [ordered, Bool.and_eq_true, decide_eq_true_eq] at ha
    show ordered (x :: x' :: (xs ++ b)) = true
    simp only [ordered, Bool.and_eq_true, decide_eq_true_eq]
    refine ⟨ha.1, ?_⟩
    exact ordered_append (a := x' :: xs) ha.2 hb (fun u hu v hv => h u (List.mem_cons_of_mem _ hu) v hv)

/-! ## building a parent -/

theorem strict_mk {len : Nat} {n : Node} (h : NodeS len n) (hc : ∀ c, c ∈ n.children → Strict len c) :
    Strict len n := strict_iff.mpr ⟨h, hc⟩

/-- a node spanning its (non-empty, chained) children from the first to the last -/
theorem mkParent {len f g : Nat} {P : Node} {l : List Node} (hch : P.children = l)
    (hl : ListIn len f l g) {a b : Node} (ha : l.head? = some a) (hb : l.getLast? = some b)
    (hpos : P.pos = (a.pos.1, b.pos.2)) (hsh : pendShape P)
    (hds : descends P = true := by rfl) : NodeIn len f P g := by
  have hmem := ListIn.mem hl
  have hbm : b ∈ l := List.mem_of_getLast? hb
  have ham : a ∈ l := List.mem_of_mem_head? ha
  have hends : EndsBy g P := by
    rw [endsBy_iff]
    refine ⟨?_, fun c hc => (hmem c (hch ▸ hc)).ends⟩
    rw [hpos]; exact (hmem b hbm).end_le
  have hpend : PendAll P := pendAll_iff.mpr ⟨hsh, fun c hc => (hmem c (hch ▸ hc)).pend⟩
  have hkids : ∀ c, c ∈ P.children → Strict len c := fun c hc => (hmem c (hch ▸ hc)).strict
  have hfl : f ≤ len := (hmem a ham).fl
  have hseal : SealedAll P :=
    sealedAll_iff.mpr ⟨sealed_of_desc hds, fun c hc => (hmem c (hch ▸ hc)).sld⟩
  cases ht : tainted P with
  | true =>
    exact ⟨strict_mk (Or.inl ht) hkids, hends, ListIn.le hl, Or.inl ht, hpend, hfl, hseal⟩
  | false =>
    have hut : ∀ n ∈ l, tainted n = false := fun n hn => untainted_child (hch ▸ hn) ht
    obtain ⟨hord, hb2⟩ := ListIn.untainted hl hut
    obtain ⟨h1, h2, h3⟩ := hb2 a b ha hb
    have haa := h3 a ham
    have hloc : LocOK len P := by
      refine ⟨?_, ?_, ?_, ?_, ?_, ?_, ?_⟩
      · rw [hpos]; show a.pos.1 < b.pos.2; omega
      · rw [hpos]; exact (hmem b hbm).rng (hut b hbm)
      · intro c hc; exact (h3 c (hch ▸ hc)).2.1
      · intro c hc _
        rw [hpos]
        have := h3 c (hch ▸ hc)
        exact ⟨this.1, Or.inl this.2.2⟩
      · rw [hch]; exact hord
      · intro _
        exact ⟨a, b, hch ▸ ha, hch ▸ hb, by rw [hpos], Or.inl (by rw [hpos])⟩
      · intro c hc
        rw [hpos]
        exact (h3 c (hch ▸ hc)).1
    refine ⟨strict_mk (Or.inr (Or.inl hloc)) hkids, hends, ListIn.le hl, Or.inr ?_, hpend, hfl, hseal⟩
    rw [hpos]
    show f ≤ a.pos.1 ∧ a.pos.1 < b.pos.2
    omega

/-- a leaf (no children) at a given span -/
theorem nodeIn_leaf {len f g : Nat} {n : Node} (hch : n.children = []) (hsp : spansItsParts n = false)
    (hd : isD19 n = false) (h1 : f ≤ n.pos.1) (h2 : n.pos.1 < n.pos.2) (h3 : n.pos.2 ≤ g)
    (h4 : n.pos.2 ≤ len) (hsh : pendShape n) : NodeIn len f n g := by
  have hloc : LocOK len n := by
    refine ⟨h2, h4, ?_, ?_, ?_, ?_, ?_⟩
    · intro c hc; rw [hch] at hc; cases hc
    · intro c hc; rw [hch] at hc; cases hc
    · rw [hch]; rfl
    · intro h; rw [hsp] at h; cases h
    · intro c hc; rw [hch] at hc; cases hc
  refine ⟨strict_mk (Or.inr (Or.inl hloc)) (by intro c hc; rw [hch] at hc; cases hc), ?_, by omega,
    Or.inr ⟨h1, h2⟩, pendAll_iff.mpr ⟨hsh, by intro c hc; rw [hch] at hc; cases hc⟩, by omega,
    sealedAll_iff.mpr ⟨(by intro _ c hc; rw [hch] at hc; cases hc),
      (by intro c hc; rw [hch] at hc; cases hc)⟩⟩
  rw [endsBy_iff]
  exact ⟨h3, by intro c hc; rw [hch] at hc; cases hc⟩

end Bashlex.C03

namespace Bashlex.C03
open Bashlex Bashlex.Spec Bashlex.Node

/-! ## after `resolve` no redirect is pending -/

mutual
theorem noPend_resolve (st : List RedirCell) : (n : Node) → SealedAll n → NoPend (resolve st n)
  | list p ps, h | pipeline p ps, h | ifN p ps, h | forN p ps, h | whileN p ps, h
  | untilN p ps, h | caseN p ps, h | pattern p ps, h | command p ps, h | unimplemented p ps, h
  | function p _ _ ps, h => by
    have h' := sealedAll_iff.mp h
    rw [noPend_iff]
    refine ⟨by simp [resolve, pendOf], ?_⟩
    simp only [resolve, children]
    exact noPendL_resolve st ps (fun c hc => h'.2 c (by simpa [children] using hc))
  | compound p l r, h => by
    have h' := sealedAll_iff.mp h
    rw [noPend_iff]
    refine ⟨by simp [resolve, pendOf], ?_⟩
    simp only [resolve, children, List.mem_append]
    rintro c (hc | hc)
    · exact noPendL_resolve st l (fun c hc => h'.2 c (by simp [children, hc])) c hc
    · exact noPendL_resolve st r (fun c hc => h'.2 c (by simp [children, hc])) c hc
  | redirect p i t o oa hd hid, h => by
    have h' := sealedAll_iff.mp h
    have hk := h'.1 rfl
    cases hid with
    | none =>
      simp only [resolve]
      rw [noPend_iff]
      exact ⟨rfl, fun c hc => hk c (by simpa [children] using hc)⟩
    | some id =>
      simp only [resolve]
      cases hs : st[id]? with
      | none =>
        simp only
        rw [noPend_iff]
        exact ⟨rfl, fun c hc => hk c (by simpa [children] using hc)⟩
      | some c =>
        simp only
        rw [noPend_iff]
        refine ⟨rfl, ?_⟩
        intro k hkm
        simp only [children, List.mem_append, Option.mem_toList] at hkm
        rcases hkm with hkm | hkm
        · exact hk k (by simp [children, hkm])
        · cases hb : c.heredoc with
          | none => simp [hb] at hkm
          | some b =>
            simp only [hb, Option.map_some, Option.some.injEq] at hkm
            subst hkm
            rw [noPend_iff]
            exact ⟨rfl, by intro c' hc'; simp [children] at hc'⟩
  | operator p a, h | reservedword p a, h | pipe p a, h | word p a b, h | assignment p a b, h
  | parameter p a, h | tilde p a, h | heredoc p a, h | commandsubstitution p a, h
  | processsubstitution p a, h => by
    have h' := sealedAll_iff.mp h
    simp only [resolve]
    rw [noPend_iff]
    exact ⟨rfl, h'.1 rfl⟩
theorem noPendL_resolve (st : List RedirCell) :
    (l : List Node) → (∀ c, c ∈ l → SealedAll c) → ∀ c, c ∈ resolveL st l → NoPend c
  | [], _ => by simp [resolveL]
  | n :: ns, h => by
    intro c hc
    simp only [resolveL, List.mem_cons] at hc
    rcases hc with heq | hc
    · exact heq ▸ noPend_resolve st n (h n List.mem_cons_self)
    · exact noPendL_resolve st ns (fun c hc => h c (List.mem_cons_of_mem _ hc)) c hc
end

end Bashlex.C03
