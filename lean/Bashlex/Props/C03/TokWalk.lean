/-
  C03, token source, part 2: the automatic walk `w_walk` through a program of the model monad
  with the invariant `W` at two levels of the cursor's lower bound: `W … k` ("low", the level a
  function is entered and left at) and `W … (k+1)` ("high", after a `_getc`).  `_ungetc` is only
  accepted at the high level: every `_ungetc` must be preceded, on every path, by a `_getc` with
  no other `_ungetc` in between -- the walk fails otherwise.
  (Same construction as `live_walk` of `Props/C11/Walk.lean`.)
-/
import Lean.Elab.Tactic
import Bashlex.Props.C03.TokInv
import Bashlex.Model.Tokenizer

namespace Bashlex.C03.Tok
open Bashlex Bashlex.M Bashlex.C10 Bashlex.C11
set_option linter.unusedSimpArgs false
set_option linter.unusedVariables false

open Lean Elab Tactic Meta in
/-- split the `match` at the head of the program of a triple (or at the head of the first
    component of its top-level bind) -/
elab "split_headW" : tactic => do
  let goal ← getMainGoal
  let tgt ← whnfR (← instantiateMVars (← goal.getType))
  let args := tgt.getAppArgs
  let fn := tgt.getAppFn
  let prog ←
    if fn.isConstOf ``SatW then pure args[3]!
    else if fn.isConstOf ``AtW then pure args[4]!
    else if fn.isConstOf ``HT then pure args[2]!
    else throwError "split_headW: not a triple"
  let head := if prog.isAppOfArity ``Bind.bind 6 then prog.getAppArgs[4]! else prog
  if (← isMatcherApp head) then
    let gs ← Split.splitMatch goal head
    replaceMainGoal gs
  else throwError "split_headW: the head is not a match"

/-- side goals of a call of a join point: the facts about its arguments (extended later) -/
syntax "jp_side" : tactic
macro_rules | `(tactic| jp_side) => `(tactic| assumption)

open Lean Elab Tactic Meta in
/-- the facts a join point may assume of its arguments: if the context has a local definition
    `jpInv : Token → Prop := P`, every argument `x : Token` comes with `P x` -/
def jpArgFacts (xs : Array Expr) : MetaM (Array Expr) := do
  match (← getLCtx).findFromUserName? `jpInv with
  | some d =>
    match d.value? with
    | some P =>
      let mut hs := #[]
      for x in xs do
        if (← inferType x).isConstOf ``Token then hs := hs.push (mkApp P x).headBeta
      pure hs
    | none => pure #[]
  | none => pure #[]

open Lean Elab Tactic Meta in
/-- the program of a triple starts with a join point `have jp := v; b`: prove the triple for the
    join point once (first goal), then continue with `jp` abstract and the triple for every call
    of it as a hypothesis (second goal) -/
elab "jp_step" : tactic => do
  let goal ← getMainGoal
  goal.withContext do
    let tgt ← instantiateMVars (← goal.getType)
    let fn := tgt.getAppFn
    let args := tgt.getAppArgs
    let idx ←
      if fn.isConstOf ``SatW then pure 3
      else if fn.isConstOf ``AtW then pure 4
      else if fn.isConstOf ``HT then pure 2
      else throwError "jp_step: not a triple"
    let prog := args[idx]!
    match prog with
    | .letE n t v b _ =>
      if t.isForall then
        let keyTy ← forallTelescope t fun xs _ => do
          let call := (mkAppN v xs).headBeta
          let hs ← jpArgFacts xs
          let body ← hs.foldrM (fun h acc => mkArrow h acc) (mkAppN fn (args.set! idx call))
          mkForallFVars xs body
        let keyGoal ← mkFreshExprSyntheticOpaqueMVar keyTy
        let mainTy ← withLocalDeclD n t fun jp => do
          let hyTy ← forallTelescope t fun xs _ => do
            let hs ← jpArgFacts xs
            let body ← hs.foldrM (fun h acc => mkArrow h acc)
              (mkAppN fn (args.set! idx (mkAppN jp xs)))
            mkForallFVars xs body
          withLocalDeclD `hjp hyTy fun hjp => do
            mkForallFVars #[jp, hjp] (mkAppN fn (args.set! idx (b.instantiate1 jp)))
        let mainGoal ← mkFreshExprSyntheticOpaqueMVar mainTy
        goal.assign (mkApp2 mainGoal v keyGoal)
        let (_, k) ← keyGoal.mvarId!.intros
        let (_, m) ← mainGoal.mvarId!.intros
        replaceMainGoal [k, m]
      else
        -- a plain value: substitute it
        let g ← goal.replaceTargetDefEq (mkAppN fn (args.set! idx (b.instantiate1 v)))
        replaceMainGoal [g]
    | .app .. =>
      let prog' := prog.headBeta
      if prog' == prog then throwError "jp_step: nothing to do"
      let g ← goal.replaceTargetDefEq (mkAppN fn (args.set! idx prog'))
      replaceMainGoal [g]
    | _ => throwError "jp_step: the program is not a `have`"

open Lean Elab Tactic Meta in
/-- close the goal by applying a hypothesis (a triple for a join point or a callee); facts about
    the arguments are discharged by `jp_side` -/
elab "use_hyp" : tactic => do
  let goal ← getMainGoal
  goal.withContext do
    let tgt ← instantiateMVars (← goal.getType)
    let fn := tgt.getAppFn
    let args := tgt.getAppArgs
    let idx ←
      if fn.isConstOf ``SatW then pure 3
      else if fn.isConstOf ``AtW then pure 4
      else if fn.isConstOf ``HT then pure 2
      else throwError "use_hyp: not a triple"
    let head := args[idx]!.getAppFn
    unless head.isFVar do throwError "use_hyp: the program is not a call of a local function"
    for ldecl in (← getLCtx).decls.toList.reverse.filterMap id do
      if ldecl.isImplementationDetail then continue
      let ty ← instantiateMVars ldecl.type
      let concl := ty.getForallBody
      let cfn := concl.getAppFn
      let cargs := concl.getAppArgs
      let cidx :=
        if cfn.isConstOf ``SatW then 3
        else if cfn.isConstOf ``AtW then 4
        else if cfn.isConstOf ``HT then 2
        else 100
      if cidx ≥ cargs.size then continue
      unless cargs[cidx]!.getAppFn == head do continue
      let s ← saveState
      try
        let gs ← goal.apply ldecl.toExpr
        let mut ok := true
        for g in gs do
          let r ← Lean.Elab.Tactic.run g (Lean.Elab.Tactic.withoutRecover (withTransparency .default (do evalTactic (← `(tactic| jp_side)))))
          unless r.isEmpty do ok := false
        if ok then
          replaceMainGoal []
          return
        else s.restore
      catch _ => s.restore
    throwError "use_hyp: no hypothesis applies"

/-- monotone in the level: the function keeps every lower bound `k < len(line)` of the cursor -/
abbrev WSat {α : Type} (L : Str) (sr : List RedirCell) (rk : List (Nat × Bool)) (ps : List Nat)
    (k : Nat) (m : M α) : Prop :=
  SatW (W L sr rk ps k) (W L sr rk ps k) m (fun _ => True)

/-- `W j → W k` for `k ≤ j` -/
macro "wmono" : tactic => `(tactic| (intro _ _ h; exact W.mono h (by omega)))

/-- drop from the high level to the low level -/
theorem SatW.drop1 {α : Type} {L : Str} {sr : List RedirCell} {rk : List (Nat × Bool)}
    {ps : List Nat} {k : Nat} {m : M α} {φ : α → Prop}
    (h : SatW (W L sr rk ps k) (W L sr rk ps k) m φ) :
    SatW (W L sr rk ps (k + 1)) (W L sr rk ps k) m φ :=
  SatW.pre h (fun _ _ h => h.mono (Nat.le_succ k))

theorem AtW.drop1 {α : Type} {L : Str} {sr : List RedirCell} {rk : List (Nat × Bool)}
    {ps : List Nat} {k : Nat} {l0 : Local} {m : M α} {φ : α → Prop}
    (h : AtW (W L sr rk ps k) (W L sr rk ps k) l0 m φ) :
    AtW (W L sr rk ps (k + 1)) (W L sr rk ps k) l0 m φ :=
  HT.pre h (fun _ _ h => ⟨h.1, h.2.mono (Nat.le_succ k)⟩)

/-- bind after a computation that keeps the current level -/
theorem SatW.bindSame {α β : Type} {I J : Local → Env → Prop} {m : M α} {f : α → M β}
    {ρ : β → Prop} (hm : SatW I I m (fun _ => True)) (hf : ∀ a, SatW I J (f a) ρ) :
    SatW I J (m >>= f) ρ := SatW.bindE hm hf

/-- known callees (extended after each lemma) -/
syntax "w_atom" : tactic
macro_rules | `(tactic| w_atom) => `(tactic| assumption)
set_option hygiene false in
macro_rules | `(tactic| w_atom) => `(tactic| exact hpmp _)
set_option hygiene false in
macro_rules | `(tactic| w_atom) => `(tactic| exact hpcs _)
set_option hygiene false in
macro_rules | `(tactic| w_atom) => `(tactic| exact hd _ _ _)
set_option hygiene false in
macro_rules | `(tactic| w_atom) => `(tactic| exact hpost _ _ _ _)
set_option hygiene false in
macro_rules | `(tactic| w_atom) => `(tactic| exact hcpost _ _ _)
macro_rules | `(tactic| w_atom) => `(tactic| exact getc_keep _)
macro_rules | `(tactic| w_atom) => `(tactic| exact w_curIdx)
macro_rules | `(tactic| w_atom) => `(tactic| exact w_tapeSource)
macro_rules | `(tactic| w_atom) => `(tactic| exact w_tapeLine)
macro_rules | `(tactic| w_atom) => `(tactic| exact w_tapeAdded)
macro_rules | `(tactic| w_atom) => `(tactic| exact w_optStrict)
macro_rules | `(tactic| w_atom) => `(tactic| exact w_optProceed)
macro_rules | `(tactic| w_atom) => `(tactic| exact w_syn _)
macro_rules | `(tactic| w_atom) => `(tactic| exact w_mpe _)
macro_rules | `(tactic| w_atom) => `(tactic| exact w_mpe_bind _)

theorem w_loopFuel {I : Local → Env → Prop} : SatW I I loopFuel (fun _ => True) :=
  SatW.pure (fun _ _ h => h) True.intro
theorem w_depthFuel {I : Local → Env → Prop} : SatW I I depthFuel (fun _ => True) :=
  SatW.pure (fun _ _ h => h) True.intro
macro_rules | `(tactic| w_atom) => `(tactic| exact w_loopFuel)
macro_rules | `(tactic| w_atom) => `(tactic| exact w_depthFuel)

/-- one step of the walk -/
macro "w_step" : tactic => `(tactic| first
  | jp_step
  | ((with_reducible refine SatW.pure ?_ True.intro); wmono)
  | ((with_reducible refine AtW.pure ?_ True.intro); wmono)
  | with_reducible refine SatW.ite (fun _ => ?_) (fun _ => ?_)
  | with_reducible refine AtW.ite (fun _ => ?_) (fun _ => ?_)
  | with_reducible refine AtW.ite_bind (fun _ => ?_) (fun _ => ?_)
  | with_reducible w_atom
  | with_reducible use_hyp
  | ((with_reducible refine SatW.drop1 ?_); with_reducible use_hyp)
  -- `_getc` at the low level: the continuation runs at the high level
  | with_reducible refine SatW.bindE (getc_up _ (by omega)) (fun _ => ?_)
  -- `_ungetc` at the high level: back to the low level
  | with_reducible refine SatW.bindE (ungetc_down _) (fun _ => ?_)
  | with_reducible exact ungetc_down _
  | with_reducible refine SatW.get_bind (fun _ => ?_)
  | ((with_reducible refine SatW.modifyT ?_); (intro _ _ h; first | exact h | exact W.mono h (by omega)))
  | ((with_reducible refine AtW.set_bind ?_ ?_); focus (intro _ h; exact h))
  | ((with_reducible refine AtW.setT ?_); (intro _ h; first | exact h | exact W.mono h (by omega)))
  | with_reducible exact AtW.foreign_bind
  | with_reducible exact AtW.foreign
  | with_reducible refine AtW.pure_bind ?_
  | split_headW
  | with_reducible refine AtW.ofSatW ?_
  | with_reducible exact SatW.raise
  | with_reducible exact SatW.foreign
  -- a known callee at the current level
  | ((with_reducible refine SatW.bindSame ?_ (fun _ => ?_)); focus (with_reducible w_atom; done))
  -- a known callee after dropping to the low level
  | ((with_reducible refine SatW.drop1 ?_); (with_reducible refine SatW.bindSame ?_ (fun _ => ?_));
     focus (with_reducible w_atom; done))
  | with_reducible refine SatW.loopT (fun _ => ?_) _ _
  | ((with_reducible refine SatW.drop1 ?_); with_reducible refine SatW.loopT (fun _ => ?_) _ _)
  | with_reducible refine SatW.bindSame ?_ (fun _ => ?_))

/-- walk through a program: invariant `W` -/
macro "w_walk" : tactic => `(tactic| repeat' w_step)

end Bashlex.C03.Tok
