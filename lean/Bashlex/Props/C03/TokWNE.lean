/-
  C03, token source, part 10: a delivered WORD token is not empty (`WNE`), for every state
  (state-agnostic logic `Sat`): `_readtokenword` indexes `value[0]` in `_is_assignment` before it
  returns a WORD.  Same walk as `Props/C01/Tokens.lean`.
-/
import Bashlex.Props.C01.Tokens
import Bashlex.Props.C03.Hyp

namespace Bashlex.C03
open Bashlex Bashlex.M Bashlex.C12 Bashlex.C01
set_option linter.unusedVariables false
set_option linter.unusedSimpArgs false

theorem wne_plain {t : Token} {ty : TokType} (h1 : t.ttype = some ty) (hty : ty ≠ .WORD) : WNE t := by
  intro h; rw [h1] at h; cases h; exact absurd rfl hty

theorem wne_word {t : Token} {tw : Str} (h2 : t.value = .str tw) (h3 : tw ≠ []) : WNE t := by
  intro _; simpa [Token.valueStr, h2] using h3

theorem notWord_of_bare {ty : TokType} (h : bareOK ty = true) : ty ≠ .WORD := by
  intro hx; subst hx; revert h; decide

theorem notWord_of_res {ty : TokType} (h : resOK ty = true) : ty ≠ .WORD := by
  intro hx; subst hx; revert h; decide

theorem sat_createtoken_nw {ty : TokType} {v : TVal} {fl : WordFlags} (hty : ty ≠ .WORD) :
    Sat (createtoken ty v fl) WNE :=
  sat_createtoken3.weaken (fun _ h => wne_plain h.1 hty) (fun _ h => h)

theorem lookup_ne {s : Str} {ty : TokType}
    (h : List.lookup s reservedFirstCommandChars = some ty) : s ≠ [] := by
  have hmem := mem_of_lookup h
  have hall : ∀ kv, kv ∈ reservedFirstCommandChars → kv.1 ≠ [] := by decide
  exact hall _ hmem

theorem sat_createtoken_lookup_w {s : Str} {ty : TokType}
    (h : List.lookup s reservedFirstCommandChars = some ty) :
    Sat (createtoken ty (.str s) []) WNE :=
  sat_createtoken3.weaken (fun t ht => wne_word ht.2.1 (lookup_ne h)) (fun _ h => h)

set_option maxHeartbeats 1000000 in
theorem sat_finishWord_w (st : RWState) : Sat (finishWord st) WNE := by
  unfold finishWord
  simp only []
  refine Sat.bind_any (fun _ => ?_)
  refine Sat.bind_any (fun l => ?_)
  refine Sat.ite (fun _ => sat_createtoken_nw (by decide)) (fun _ => ?_)
  refine Sat.bind (sat_specialcasetokens _) (fun r hr => ?_)
  split
  · exact sat_createtoken_nw (notWord_of_res (hr _ rfl).2.1)
  refine Sat.bind_any (fun l => ?_)
  refine Sat.ite (fun _ => ?_) (fun _ => ?_)
  · split
    · rename_i ttype hlook
      have key : Sat (createtoken ttype (TVal.str st.tokenword)) WNE := sat_createtoken_lookup_w hlook
      repeat' (first
        | exact key
        | refine Sat.ite (fun _ => ?_) (fun _ => ?_)
        | refine Sat.bind_any (fun _ => ?_))
    · tf_walk
      all_goals (first
        | exact absurd (by assumption : legalIdentifier _ = true) Bool.false_ne_true
        | exact wne_word (tw := st.tokenword) ‹_ ∧ _ ∧ _›.2.1 (by assumption)
        | exact wne_plain (ty := .ASSIGNMENT_WORD) rfl (by decide))
  · tf_walk
    all_goals (first
        | exact absurd (by assumption : legalIdentifier _ = true) Bool.false_ne_true
        | exact wne_word (tw := st.tokenword) ‹_ ∧ _ ∧ _›.2.1 (by assumption)
        | exact wne_plain (ty := .ASSIGNMENT_WORD) rfl (by decide))

theorem sat_readtokenword_w (c : Char) : Sat (readtokenword c) WNE := by
  unfold readtokenword
  exact Sat.bind_any (fun _ => Sat.bind_any (fun st => sat_finishWord_w st))

def ReadW (r : TokType ⊕ Token) : Prop :=
  match r with
  | .inl ty => bareOK ty = true
  | .inr t => WNE t

theorem sat_readtoken_w : Sat readtoken ReadW := by
  unfold readtoken
  refine Sat.bind_any (fun _ => Sat.bind_any (fun _ => Sat.bind_any (fun c1 => ?_)))
  split
  · exact Sat.pure (wne_plain (ty := .EOF) rfl (by decide))
  rename_i ch
  refine Sat.bind_any (fun character => ?_)
  extract_lets -underBinder jp1
  have key1 : ∀ r c, Sat (jp1 r c) ReadW := by
    intro r c
    simp -zeta only [jp1]
    refine Sat.bind_any (fun _ => ?_)
    have hty : Sat (do let t ← tokentypeOfChar c; pure (Sum.inl t) : M (TokType ⊕ Token)) ReadW :=
      Sat.bind (sat_tokentypeOfChar c) (fun t ht => Sat.pure ht)
    have hword : Sat (do let t ← readtokenword c; pure (Sum.inr t) : M (TokType ⊕ Token)) ReadW :=
      Sat.bind (sat_readtokenword_w c) (fun t ht => Sat.pure ht)
    refine Sat.ite (fun _ => Sat.bind_any (fun _ => Sat.bind_any (fun _ => hty))) (fun _ => ?_)
    refine Sat.bind_any (fun _ => Sat.ite (fun _ => hword) (fun _ => ?_))
    refine Sat.bind_any (fun _ => Sat.bind_any (fun _ => ?_))
    extract_lets -underBinder jp2
    have key2 : ∀ r, Sat (jp2 r) ReadW := by
      intro r
      simp -zeta only [jp2]
      exact Sat.bind_any (fun _ => Sat.ite (fun _ => hty) (fun _ => hword))
    refine Sat.ite (fun _ => ?_) (fun _ => key2 ())
    refine Sat.bind (sat_readtokenMeta c) (fun m hm => ?_)
    split
    · exact Sat.pure (hm _ rfl)
    · exact key2 ()
  refine Sat.ite (fun _ => ?_) (fun _ => key1 () _)
  exact Sat.bind_any (fun _ => Sat.bind_any (fun _ => key1 () _))

/-- **every WORD token `token()` delivers has a non-empty value** -/
theorem sat_nextToken_w : Sat nextToken WNE := by
  unfold nextToken
  refine Sat.bind_any (fun _ => ?_)
  refine Sat.bind sat_readtoken_w (fun r hr => ?_)
  extract_lets -underBinder jp
  have key : ∀ cur, WNE cur → Sat (jp cur) WNE := fun cur h =>
    Sat.bind_any (fun _ => Sat.bind_any (fun _ => Sat.pure h))
  split
  · exact Sat.bind_any (fun _ => Sat.bind (sat_createtoken_nw (notWord_of_bare hr)) (fun cur h => key cur h))
  · exact Sat.bind (Sat.pure (P := WNE) hr) (fun cur h => key cur h)

end Bashlex.C03
