/-
  C03, part 6: facts about the generated grammar and tables the span argument uses, decided by
  the kernel (re-checked whenever the grammar changes):

  * `$end` occurs in no right-hand side (so every action sees only positioned tokens);
  * `simple_list` occurs only on the right of `p_inputunit`, and is the left-hand side of
    `p_simple_list` (the only action that lets the tokenizer extend redirects);
  * `p_elif_clause` never sees a `None` value and its productions end in a node;
    `! x` / `time x` start with a token or a node;
  * default reductions, and reductions on `$end`, apply only to `p_inputunit`,
    `p_simple_list_terminator` and `p_elif_clause`: every other action runs with a look-ahead
    token that starts within the input -- hence everything it sees ends within the input;
  * only state 0 has a goto on `simple_list`.
-/
import Bashlex.Props.C03.Actions
import Bashlex.Props.C12.Grammar
import Bashlex.LR.Real

namespace Bashlex.C03
open Bashlex Bashlex.LR Bashlex.C12
set_option linter.unusedSimpArgs false
set_option linter.unusedVariables false

def fn (p : Nat) : String := Gen.prodFuncs.getD p ""

/-- the action functions that may run without a positioned look-ahead token (by a default
    reduction, or on `$end`) -/
def dfltFuncs : List String := ["p_inputunit", "p_simple_list_terminator", "p_elif_clause"]

def sortIsVal : Srt → Bool
  | .tok _ | .node _ | .nodes _ => true
  | _ => false

def sortIsNodes : Srt → Bool
  | .node _ | .nodes _ => true
  | _ => false

def sortIsTokNode : Srt → Bool
  | .tok _ | .node _ => true
  | _ => false

def prodOK (f : String) (lhs : Nat) (rhs : List Nat) : Bool :=
  !rhs.contains eofSym &&
  (!rhs.contains slSym || f == "p_inputunit") &&
  (f != "p_simple_list" || lhs == slSym) &&
  (f != "p_elif_clause" || ((rhs.all fun s => sortIsVal (sortOfSymbol s)) &&
    (match rhs.getLast? with | some s => sortIsNodes (sortOfSymbol s) | none => false))) &&
  (f != "p_pipeline_command" || rhs.length != 2 || sortIsTokNode (sortOfSymbol (rhs.headD 0)))

def spanGrammarCheck : Bool :=
  (List.zip Gen.prodFuncs Gen.prodTable).all fun (f, (lhs, rhs)) => prodOK f lhs rhs

theorem span_grammar_ok : spanGrammarCheck = true := by decide +kernel

/-- the productions of `p_redirection_heredoc` end in a WORD: the delimiter of a here-document is
    the value of a WORD token (hence not empty, `WNE`) -/
def heredocProdOK (f : String) (rhs : List Nat) : Bool :=
  f != "p_redirection_heredoc" ||
    (match rhs.getLast? with
     | some s => sortOfSymbol s == .tok (some .WORD)
     | none => false)

def heredocGrammarCheck : Bool :=
  (List.zip Gen.prodFuncs Gen.prodTable).all fun (f, (_, rhs)) => heredocProdOK f rhs

theorem heredoc_grammar_ok : heredocGrammarCheck = true := by decide +kernel

def dfltCheck : Bool := Gen.defaultedStates.all fun (_, p) => dfltFuncs.contains (fn p)

theorem dflt_ok : dfltCheck = true := by decide +kernel

def eofRedCheck : Bool :=
  Gen.actionRows.all fun row => row.all fun e =>
    e / 4096 != eofSym ||
      (match decodeAct (e % 4096) with
       | .reduce p => dfltFuncs.contains (fn p)
       | _ => true)

theorem eofRed_ok : eofRedCheck = true := by decide +kernel

def gotoCheck : Bool :=
  Gen.gotoRows.zipIdx.all fun (row, s) => s == 0 || row.all fun e => e / 4096 != slSym

theorem goto_ok : gotoCheck = true := by decide +kernel

/-! ### in usable form -/

theorem prod_ok {p lhs : Nat} {rhs : List Nat} (hp : realTables.prods[p]? = some (lhs, rhs)) :
    prodOK (fn p) lhs rhs = true := by
  have hp' : Gen.prodTable[p]? = some (lhs, rhs) := hp
  have hlt : p < Gen.prodFuncs.length := by
    rw [prodFuncs_length]
    exact (List.getElem?_eq_some_iff.mp hp').1
  have hf : Gen.prodFuncs[p]? = some (fn p) := by
    simp [fn, List.getD_eq_getElem?_getD, List.getElem?_eq_getElem hlt]
  have hz : (List.zip Gen.prodFuncs Gen.prodTable)[p]? = some (fn p, (lhs, rhs)) :=
    List.getElem?_zip_eq_some.mpr ⟨hf, hp'⟩
  have hmem := List.mem_of_getElem? hz
  have hg := span_grammar_ok
  unfold spanGrammarCheck at hg
  exact List.all_eq_true.mp hg _ hmem

theorem heredoc_prod_ok {p lhs : Nat} {rhs : List Nat}
    (hp : realTables.prods[p]? = some (lhs, rhs)) : heredocProdOK (fn p) rhs = true := by
  have hp' : Gen.prodTable[p]? = some (lhs, rhs) := hp
  have hlt : p < Gen.prodFuncs.length := by
    rw [prodFuncs_length]
    exact (List.getElem?_eq_some_iff.mp hp').1
  have hf : Gen.prodFuncs[p]? = some (fn p) := by
    simp [fn, List.getD_eq_getElem?_getD, List.getElem?_eq_getElem hlt]
  have hz : (List.zip Gen.prodFuncs Gen.prodTable)[p]? = some (fn p, (lhs, rhs)) :=
    List.getElem?_zip_eq_some.mpr ⟨hf, hp'⟩
  have hmem := List.mem_of_getElem? hz
  have hg := heredoc_grammar_ok
  unfold heredocGrammarCheck at hg
  exact List.all_eq_true.mp hg _ hmem

theorem dflt_fn {s p : Nat} (h : realTables.dflt s = some p) : dfltFuncs.contains (fn p) = true := by
  have h' : (Gen.defaultedStates.find? (fun d => d.1 == s)).map (·.2) = some p := h
  cases hf : Gen.defaultedStates.find? (fun d => d.1 == s) with
  | none => rw [hf] at h'; cases h'
  | some d =>
    rw [hf] at h'
    simp only [Option.map_some, Option.some.injEq] at h'
    have hmem := List.mem_of_find?_eq_some hf
    have hg := dflt_ok
    unfold dfltCheck at hg
    have := List.all_eq_true.mp hg d hmem
    obtain ⟨s', p'⟩ := d
    simp only at h' this
    subst h'
    simpa using this

theorem mem_getD {α} {l : List (List α)} {i : Nat} {e : α} (h : e ∈ l.getD i []) :
    ∃ row, row ∈ l ∧ e ∈ row ∧ l[i]? = some row := by
  rw [List.getD_eq_getElem?_getD] at h
  cases hi : l[i]? with
  | none => rw [hi] at h; cases h
  | some row =>
    rw [hi] at h
    exact ⟨row, List.mem_of_getElem? hi, h, rfl⟩

theorem eofRed_fn {s p : Nat} (h : realTables.action s eofSym = some (.reduce p)) :
    dfltFuncs.contains (fn p) = true := by
  obtain ⟨e, hmem, hla, hdec⟩ := Raw.action_mem (R := realRaw) h
  obtain ⟨row, hrow, he, _⟩ := mem_getD (l := Gen.actionRows) hmem
  have hg := eofRed_ok
  unfold eofRedCheck at hg
  have := List.all_eq_true.mp (List.all_eq_true.mp hg row hrow) e he
  rw [hdec] at this
  simpa [hla] using this

theorem goto_sl {s t : Nat} (h : realTables.goto s slSym = some t) : s = 0 := by
  have h' : rowLookup (Gen.gotoRows.getD s []) slSym = some t := h
  obtain ⟨e, hmem, hk, _⟩ := rowLookup_mem h'
  obtain ⟨row, hrow, he, hidx⟩ := mem_getD (l := Gen.gotoRows) hmem
  have hz : (row, s) ∈ Gen.gotoRows.zipIdx := by
    rw [List.mem_zipIdx_iff_getElem?]
    simpa using hidx
  have hg := goto_ok
  unfold gotoCheck at hg
  have := List.all_eq_true.mp hg (row, s) hz
  simp only [Bool.or_eq_true, beq_iff_eq, List.all_eq_true, bne_iff_ne, ne_eq] at this
  rcases this with h0 | hall
  · exact h0
  · exact absurd hk (hall e he)

end Bashlex.C03
