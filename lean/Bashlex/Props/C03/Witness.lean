/-
  C03: the known signatures are really produced by the model (kernel-evaluated runs of `parse`),
  and they are recognised by `C03_known`.
-/
import Bashlex.Props.C03

namespace Bashlex.C03
open Bashlex

/-- the signature lists of the trees `parse` returns (`[]` if it does not return trees) -/
def violsOf (s : String) (o : Opts := {}) : List (List String) :=
  match (parse s.toList o).1 with
  | .parts ps => ps.map (Spec.spansWF s.length ·)
  | _ => []

/-- D11: `a <<E⏎x⏎E⏎`: the redirect extended over its body sticks out of its command -/
theorem witness_heredoc_command :
    violsOf "a <<E\nx\nE\n" =
      [["child-outside-parent:redirect+heredoc:command",
        "span-not-first-to-last:command:redirect+heredoc"]] := by decide +kernel

/-- D11: `{ a; } <<E⏎x⏎E⏎`: … out of its compound (`addRedirects` ran before the body was gathered) -/
theorem witness_heredoc_compound :
    violsOf "{ a; } <<E\nx\nE\n" = [["child-outside-parent:redirect+heredoc:compound"]] := by
  decide +kernel

/-- D19: `time -p a` with `proceedonerror`: the reserved word of the pipeline sits at (0,0) -/
theorem witness_time :
    violsOf "time -p a" { proceed := true } = [["empty-span:reservedword"]] := by decide +kernel

/-- D19: `b; time -p a` with `proceedonerror`: the clauses of the ancestors are marked -/
theorem witness_time_desc :
    violsOf "b; time -p a" { proceed := true } =
      [["children-unordered:list+emptydesc", "empty-span:reservedword"]] := by decide +kernel

/-- all of them are known -/
theorem witnesses_known :
    (["child-outside-parent:redirect+heredoc:command",
      "span-not-first-to-last:command:redirect+heredoc",
      "child-outside-parent:redirect+heredoc:compound",
      "empty-span:reservedword",
      "children-unordered:list+emptydesc"].all C03_known) = true := by decide +kernel

/-- … and an unmarked signature is not -/
theorem unknown_not_known :
    (["children-unordered:list", "span-out-of-range:word", "empty-span:word",
      "child-outside-parent:word:command"].any C03_known) = false := by decide +kernel

end Bashlex.C03
