/-
  C03, token source, part 8: `token()` from a `W` state at the frontier `f`.
-/
import Bashlex.Props.C03.TokRead

namespace Bashlex.C03.Tok
open Bashlex Bashlex.M Bashlex.C10 Bashlex.C11
set_option linter.unusedSimpArgs false
set_option linter.unusedVariables false
set_option linter.unusedSectionVars false

variable {L : Str} {sr : List RedirCell} {rk : List (Nat × Bool)} {ps : List Nat} {k : Nat}
  {len f : Nat}

/-! ## `token()` -/

theorem gpost_of_w' {ps : List Nat} {k g : Nat} (hp : PendOK f sr rk) {l : Local} {e : Env}
    (h : W L sr rk ps k l e) : GPost L ps k len f g sr l e := by
  have hs : l.store = sr := h.2.2.2.2.1
  have hr : l.redirstack = rk := h.2.2.2.2.2.1
  refine ⟨by rw [hs, hr]; exact hp, ?_, Or.inl (by rw [hs, hr]; exact h)⟩
  rw [hs]
  exact ⟨rfl, fun i c c' h1 h2 => by rw [h1] at h2; cases h2; exact Or.inl rfl⟩

/-- what `token()` delivers at the frontier `f` -/
def NextQ (L : Str) (len f : Nat) (sr : List RedirCell) (t : Token) (l : Local) (e : Env) : Prop :=
  ∃ a b, f ≤ a ∧ a < b ∧ (t = eofTok ∨ (t.pos = some (a, b) ∧ a + 1 ≤ L.length)) ∧
    GPost L [] (min b L.length) len f (f + 1) sr l e

/-- a bare token type: the end is recorded, the token is created -/
theorem bare_tok {a : Nat} (ty : TokType) (v : TVal) :
    HT (GPost L [a] (a + 1) len f (f + 1) sr) (do recordpos; createtoken ty v : M Token)
      (fun t l e => ∃ b, TokPos a b t ∧ GPost L [] (min b L.length) len f (f + 1) sr l e) ET := by
  intro l e h
  obtain ⟨h1, h2, h3⟩ := h
  have hpos : l.positions = [a] := by
    rcases h3 with h3 | h3
    · exact h3.2.2.2.1
    · exact h3.2.2.2.1
  simp only [M.run_bind, run_recordpos]
  rw [run_createtoken ty v [] _ e a ((tapeOf l e).idx - 0) (by show l.positions ++ _ = _; rw [hpos]; rfl)]
  by_cases hab : a < (tapeOf l e).idx - 0
  · rw [if_pos hab]
    refine ⟨(tapeOf l e).idx - 0, ⟨rfl, hab⟩, h1, h2, ?_⟩
    rcases h3 with h3 | h3
    · left
      obtain ⟨a1, a2, a3, a4, a5, a6, a7⟩ := h3
      exact ⟨a1, a2, a3, rfl, a5, a6, by show min _ _ ≤ (tapeOf l e).idx; omega⟩
    · right
      obtain ⟨a1, a2, a3, a4, a5⟩ := h3
      exact ⟨a1, a2, a3, rfl, a5⟩
  · rw [if_neg hab]; exact True.intro

theorem bare_tok_bind {β : Type} {a : Nat} (ty : TokType) (v : TVal) {k : Token → M β}
    {Q : β → Local → Env → Prop}
    (hk : ∀ cur, HT (fun l e => ∃ b, TokPos a b cur ∧
      GPost L [] (min b L.length) len f (f + 1) sr l e) (k cur) Q ET) :
    HT (GPost L [a] (a + 1) len f (f + 1) sr)
      (recordpos >>= fun _ => createtoken ty v >>= k) Q ET := by
  have h := HT.bind (bare_tok (L := L) (len := len) (f := f) (sr := sr) (a := a) ty v) hk
  simpa only [bind_assoc] using h

/-- **`token()`** at the frontier `f` -/
theorem nextToken_w (hnl : NL L) (hK : L.length ≤ len + 1) (hp : PendOK f sr rk) :
    HT (W L sr rk [] (min f L.length)) nextToken (NextQ L len f sr) ET := by
  unfold nextToken
  simp only []
  refine HT.bind (Q := fun _ l e => W L sr rk [] (min f L.length) l e)
    (HT.modify (fun l e h => h)) (fun _ => ?_)
  refine HT.bind (readtoken_w hnl hK hp) (fun r => ?_)
  -- the two writes after the token was read
  have fin : ∀ (cur : Token) (P : Local → Env → Prop), (∀ l e, P l e → NextQ L len f sr cur l e) →
      HT P (do
        modify fun l => { l with currentToken := cur }
        modify fun l => { l with ps := { l.ps with eoftoken := false } }
        pure cur : M Token) (NextQ L len f sr) ET := by
    intro cur P hP
    refine HT.bind (Q := fun _ l e => NextQ L len f sr cur l e) (HT.modify (fun l e h => ?_))
      (fun _ => ?_)
    · obtain ⟨a, b, h1, h2, h3, h4⟩ := hP l e h
      exact ⟨a, b, h1, h2, h3, GPost.upd h4 rfl rfl rfl rfl rfl rfl⟩
    refine HT.bind (Q := fun _ l e => NextQ L len f sr cur l e) (HT.modify (fun l e h => ?_))
      (fun _ => HT.pure (fun l e h => h))
    obtain ⟨a, b, h1, h2, h3, h4⟩ := h
    exact ⟨a, b, h1, h2, h3, GPost.upd h4 rfl rfl rfl rfl rfl rfl⟩
  cases r with
  | inl ty =>
    refine HT.pre_exists (fun a => HT.pre_pure (fun ha => ?_))
    refine bare_tok_bind ty ty.enumValue (fun cur => ?_)
    refine fin cur _ (fun l e h => ?_)
    obtain ⟨b, h1, h2⟩ := h
    exact ⟨a, b, ha.1, h1.2, Or.inr ⟨h1.1, ha.2⟩, h2⟩
  | inr t =>
    simp only [pure_bind]
    refine fin t _ (fun l e h => ?_)
    rcases h with ⟨h1, h2⟩ | ⟨a, b, h1, h2, h3⟩
    · exact ⟨f, f + 1, Nat.le_refl _, Nat.lt_succ_self _, Or.inl h1,
        gpost_of_w' hp (h2.mono (Nat.min_le_right _ _))⟩
    · exact ⟨a, b, h1.1, h2.2, Or.inr ⟨h2.1, h1.2⟩, gpost_of_w' hp (h3.mono (Nat.min_le_left _ _))⟩

end Bashlex.C03.Tok
