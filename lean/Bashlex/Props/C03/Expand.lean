/-
  C03, part 9: word expansion.  If the nested parser keeps its contract (`NPSpans`: it leaves the
  outer parser object alone and returns a fine tree whose root does not end in two newlines),
  `expandword` returns a word node at the token's span whose parts are non-empty, ordered,
  disjoint and inside the word, and whose nested nodes are fine and inside the word
  (`wordContract`).  Containment inside the word is what `_expandwordinternal`'s visitor asserts
  at run time (`foreign "AssertionError" "visitnode"`): a normal return implies it.
-/
import Bashlex.Props.C03.Run

namespace Bashlex.C03
open Bashlex Bashlex.Spec Bashlex.Node Bashlex.M Bashlex.LR
set_option linter.unusedSimpArgs false
set_option linter.unusedVariables false

/-! ## monotonicity in the input length, shifting -/

theorem LocOK.mono {L L' : Nat} {m : Node} (h : LocOK L m) (hl : L ≤ L') : LocOK L' m :=
  ⟨h.ne, Nat.le_trans h.rng hl, h.kne, h.kin, h.ord, h.fl, h.kst⟩

theorem Strict.mono {L L' : Nat} {n : Node} (h : Strict L n) (hl : L ≤ L') : Strict L' n := by
  intro m hm
  rcases h m hm with h1 | h1 | h1
  · exact Or.inl h1
  · exact Or.inr (Or.inl (h1.mono hl))
  · exact Or.inr (Or.inr ⟨h1.1, Nat.le_trans h1.2 hl⟩)

theorem pendOf_sh (k : Nat) (m : Node) : pendOf (mapPos (sh k) m) = none ↔ pendOf m = none := by
  cases m with
  | redirect p i t o oa hd hid => cases hid <;> simp [mapPos, pendOf]
  | _ => simp [mapPos, pendOf]

theorem noPend_shift {k : Nat} {n : Node} (h : NoPend n) : NoPend (n.shift k) := by
  intro m hm
  rw [shift_eq, C12.preorder_mapPos] at hm
  obtain ⟨m0, hm0, rfl⟩ := List.mem_map.mp hm
  exact (pendOf_sh k m0).mpr (h m0 hm0)

theorem pos_shift (k : Nat) (n : Node) : (n.shift k).pos = (n.pos.1 + k, n.pos.2 + k) := by
  rw [shift_eq, pos_mapPos]; rfl

theorem tainted_shift (k : Nat) (n : Node) : tainted (n.shift k) = tainted n := tainted_sh k n

/-! ## the scanners -/

theorem scanName_ge (string : Str) : ∀ fuel z, z ≤ scanName string fuel z
  | 0, z => Nat.le_refl z
  | fuel + 1, z => by
    unfold scanName
    cases string[z]? with
    | none => exact Nat.le_refl z
    | some c =>
      simp only []
      split
      · exact Nat.le_refl z
      · exact Nat.le_trans (Nat.le_succ z) (scanName_ge string fuel (z + 1))

theorem findFrom_go_ge (c : Char) : ∀ (xs : Str) (i r : Nat), Str.findFrom.go c xs i = some r → i ≤ r
  | [], _, _, h => by simp [Str.findFrom.go] at h
  | x :: xs, i, r, h => by
    unfold Str.findFrom.go at h
    split at h
    · cases h; exact Nat.le_refl _
    · exact Nat.le_trans (Nat.le_succ i) (findFrom_go_ge c xs (i + 1) r h)

theorem findFrom_ge {s : Str} {c : Char} {start r : Nat} (h : Str.findFrom s c start = some r) :
    start ≤ r := findFrom_go_ge c _ _ _ h

theorem backOverNewlines_le (string : Str) : ∀ endp, backOverNewlines string endp ≤ endp
  | 0 => Nat.le_refl 0
  | endp + 1 => by
    unfold backOverNewlines
    split
    · exact Nat.le_trans (backOverNewlines_le string endp) (Nat.le_succ endp)
    · exact Nat.le_refl _

/-! ## parts of a word, with offsets relative to the token value -/

structure PartOK (p : Node) : Prop where
  strict : ∃ L, Strict L p
  nopend : NoPend p
  ne : p.pos.1 < p.pos.2

/-- the parts occupy consecutive intervals between `f` and `g` -/
def PChain : Nat → List Node → Nat → Prop
  | f, [], g => f ≤ g
  | f, p :: ps, g => f ≤ p.pos.1 ∧ PartOK p ∧ PChain p.pos.2 ps g

theorem PChain.le : ∀ {ps : List Node} {f g : Nat}, PChain f ps g → f ≤ g
  | [], _, _, h => h
  | p :: ps, f, g, h => by
    have := h.2.1.ne
    have := PChain.le h.2.2
    have := h.1
    omega

theorem PChain.mono : ∀ {ps : List Node} {f g g' : Nat}, PChain f ps g → g ≤ g' → PChain f ps g'
  | [], f, g, g', h, hg => by have : f ≤ g := h; show f ≤ g'; omega
  | p :: ps, f, g, g', h, hg => ⟨h.1, h.2.1, PChain.mono h.2.2 hg⟩

theorem PChain.snoc : ∀ {ps : List Node} {f m g : Nat} {p : Node}, PChain f ps m → m ≤ p.pos.1 →
    PartOK p → p.pos.2 ≤ g → PChain f (ps ++ [p]) g
  | [], f, m, g, p, h, hm, hp, hg => by
    have : f ≤ m := h
    exact ⟨by omega, hp, hg⟩
  | q :: qs, f, m, g, p, h, hm, hp, hg => ⟨h.1, h.2.1, PChain.snoc h.2.2 hm hp hg⟩

theorem PChain.facts : ∀ {ps : List Node} {f g : Nat}, PChain f ps g →
    ordered ps = true ∧ ∀ p ∈ ps, PartOK p ∧ f ≤ p.pos.1 ∧ p.pos.2 ≤ g
  | [], _, _, _ => ⟨rfl, by intro p hp; cases hp⟩
  | [p], f, g, h => by
    refine ⟨rfl, ?_⟩
    intro q hq; simp at hq; subst hq
    exact ⟨h.2.1, h.1, h.2.2⟩
  | p :: q :: rest, f, g, h => by
    have ih := PChain.facts h.2.2
    refine ⟨?_, ?_⟩
    · simp only [ordered, Bool.and_eq_true, decide_eq_true_eq]
      exact ⟨h.2.2.1, ih.1⟩
    · intro x hx
      rcases List.mem_cons.mp hx with rfl | hx
      · exact ⟨h.2.1, h.1, PChain.le h.2.2⟩
      · obtain ⟨h1, h2, h3⟩ := ih.2 x hx
        have := h.2.1.ne
        have := h.1
        exact ⟨h1, by omega, h3⟩

/-! ## building parts -/

theorem partOK_leaf {n : Node} (hch : n.children = []) (hsp : spansItsParts n = false)
    (hp : pendOf n = none) (hne : n.pos.1 < n.pos.2) : PartOK n := by
  refine ⟨⟨n.pos.2, ?_⟩, noPend_leaf hch hp, hne⟩
  refine strict_mk (Or.inr (Or.inl ⟨hne, Nat.le_refl _, ?_, ?_, by rw [hch]; rfl, ?_, ?_⟩)) ?_
  · intro c hc; rw [hch] at hc; cases hc
  · intro c hc; rw [hch] at hc; cases hc
  · intro h; rw [hsp] at h; cases h
  · intro c hc; rw [hch] at hc; cases hc
  · intro c hc; rw [hch] at hc; cases hc

/-- a substitution node around a shifted nested root -/
theorem partOK_subst {P c : Node} {a b : Nat} (hch : P.children = [c]) (hpos : P.pos = (a, b))
    (hsp : spansItsParts P = false) (hpp : pendOf P = none)
    (hcs : ∃ L, Strict L c) (hcp : NoPend c) (hcr : tainted c = true ∨ c.pos.1 < c.pos.2)
    (hab : a < b) (h1 : a ≤ c.pos.1) (h2 : c.pos.2 ≤ b) : PartOK P := by
  obtain ⟨L, hL⟩ := hcs
  refine ⟨⟨max L b, ?_⟩, ?_, by rw [hpos]; exact hab⟩
  · have hkids : ∀ k, k ∈ P.children → Strict (max L b) k := by
      rw [hch]; intro k hk; simp at hk; subst hk; exact hL.mono (Nat.le_max_left _ _)
    cases ht : tainted P with
    | true => exact strict_mk (Or.inl ht) hkids
    | false =>
      have hct : tainted c = false := untainted_child (by rw [hch]; simp) ht
      have hcne : c.pos.1 < c.pos.2 := by
        rcases hcr with h | h
        · rw [h] at hct; cases hct
        · exact h
      refine strict_mk (Or.inr (Or.inl ⟨by rw [hpos]; exact hab, by rw [hpos]; exact Nat.le_max_right _ _,
        ?_, ?_, by rw [hch]; rfl, ?_, ?_⟩)) hkids
      · rw [hch]; intro k hk; simp at hk; subst hk; exact hcne
      · rw [hch, hpos]; intro k hk _; simp at hk; subst hk; exact ⟨h1, Or.inl h2⟩
      · intro h; rw [hsp] at h; cases h
      · rw [hch, hpos]; intro k hk; simp at hk; subst hk; exact h1
  · rw [noPend_iff, hch]
    exact ⟨hpp, by intro k hk; simp at hk; subst hk; exact hcp⟩

section
variable {TI : Nat → Nat → Local → Env → Prop} {len F : Nat} {st : List RedirCell}

local notation "PP" => StP TI len F st

theorem keeps_tapeSource : Keeps PP tapeSource (fun _ => True) := by
  unfold tapeSource
  refine Keeps.bind Keeps.get ?_
  intro l _
  cases l.tape with
  | none =>
    simp only []
    intro l0 e0 hp
    rw [run_ask]
    exact ⟨hp, trivial⟩
  | some t => exact Keeps.pure trivial

theorem keeps_adjustpositions (n : Node) (base lim : Nat) :
    Keeps PP (adjustpositions n base lim)
      (fun r => r = n.shift base ∧ ∀ m ∈ n.preorder, m.pos.2 + base ≤ lim) := by
  unfold adjustpositions
  split
  · rename_i h
    refine Keeps.pure ⟨rfl, ?_⟩
    intro m hm
    have := List.all_eq_true.mp h m hm
    simpa using this
  · exact Keeps.foreign trivial

/-- what `_recursiveparse` returns: the shifted root of a fine nested tree, all of whose nodes end
    within `base` after the shift (the assertion of `_adjustpositions`), and the root's end -/
def RecOK (base : Str) (sindex : Nat) (r : Node × Nat) : Prop :=
  ∃ n, NestedOK (base.drop sindex) n ∧ r.1 = n.shift sindex ∧ r.2 = n.pos.2 ∧
    ∀ m ∈ n.preorder, m.pos.2 + sindex ≤ base.length

theorem keeps_recursiveparse {np : NestedParse} (hnp : NPSpans TI np) (base : Str) (sindex : Nat)
    (b : Bool) : Keeps PP (recursiveparse np base sindex b) (RecOK base sindex) := by
  unfold recursiveparse
  refine Keeps.bind (hnp _ _ len F st) (fun r hr => ?_)
  split
  · exact Keeps.foreign trivial
  · rename_i node
    simp only []
    refine Keeps.bind (keeps_adjustpositions node sindex base.length) (fun n' hn' => Keeps.pure ?_)
    exact ⟨node, hr node rfl, hn'.1, rfl, hn'.2⟩

/-- what `_parsedolparen` returns: as `RecOK`, with the reported end `e`: the shifted root ends at
    or before `e + 1` -/
def DolOK (base : Str) (sindex : Nat) (r : Node × Nat) : Prop :=
  ∃ n, NestedOK (base.drop sindex) n ∧ r.1 = n.shift sindex ∧ n.pos.2 + sindex ≤ r.2 + 1 ∧
    sindex ≤ r.2 ∧ ∀ m ∈ n.preorder, m.pos.2 + sindex ≤ base.length

theorem keeps_parsedolparen {np : NestedParse} (hnp : NPSpans TI np) (base : Str) (sindex : Nat) :
    Keeps PP (parsedolparen np base sindex) (DolOK base sindex) := by
  unfold parsedolparen
  simp only []
  refine Keeps.bind (keeps_recursiveparse hnp _ _ _) (fun r hr => ?_)
  obtain ⟨node, endp⟩ := r
  obtain ⟨n, hn, h1, h2, h3⟩ := hr
  simp only [] at h1 h2 ⊢
  subst h2
  cases hc : (base.drop sindex)[n.pos.2]? with
  | none => exact Keeps.foreign trivial
  | some c =>
    simp only []
    refine Keeps.pure ⟨n, hn, h1, ?_, Nat.le_add_right _ _, h3⟩
    simp only []
    by_cases hcp : c = ')'
    · simp [hcp]; omega
    · have := hn.2 c hc hcp
      simp [hcp]
      omega

theorem findFrom_go_lt (c : Char) : ∀ (xs : Str) (i r : Nat), Str.findFrom.go c xs i = some r →
    r < i + xs.length
  | [], _, _, h => by simp [Str.findFrom.go] at h
  | x :: xs, i, r, h => by
    unfold Str.findFrom.go at h
    split at h
    · cases h; simp
    · have := findFrom_go_lt c xs (i + 1) r h
      simp only [List.length_cons]; omega

theorem findFrom_lt {s : Str} {c : Char} {start r : Nat} (h : Str.findFrom s c start = some r) :
    r < s.length := by
  have h1 := findFrom_go_lt c _ _ _ h
  have h2 := findFrom_go_ge c _ _ _ h
  rw [List.length_drop] at h1
  omega

/-- a substitution node `(a, e + 1)` around what `_parsedolparen` returned for offset `si` -/
theorem partOK_of_dol {base : Str} {si a : Nat} {r : Node × Nat} {P : Node} (h : DolOK base si r)
    (hch : P.children = [r.1]) (hpos : P.pos = (a, r.2 + 1)) (hsp : spansItsParts P = false)
    (hpp : pendOf P = none) (ha : a ≤ si) : PartOK P := by
  obtain ⟨n, hn, h1, h2, h3, _⟩ := h
  have hpos' : r.1.pos = (n.pos.1 + si, n.pos.2 + si) := by rw [h1, pos_shift]
  refine partOK_subst hch hpos hsp hpp ⟨_, h1 ▸ strict_shift_top hn.1.strict (Nat.le_refl _)⟩
    (h1 ▸ noPend_shift hn.1.nopend) ?_ (by omega) ?_ ?_
  · rw [h1, tainted_shift, pos_shift]
    rcases hn.1.root with h | h
    · exact Or.inl h
    · right; show n.pos.1 + si < n.pos.2 + si; omega
  · rw [hpos']; show a ≤ n.pos.1 + si; omega
  · rw [hpos']; show n.pos.2 + si ≤ r.2 + 1; exact h2

/-- what `_paramexpand` returns -/
def ParOK (sindex : Nat) (r : Option Node × Nat) : Prop :=
  sindex < r.2 ∧ ∀ n, r.1 = some n → sindex ≤ n.pos.1 ∧ n.pos.2 ≤ r.2 ∧ PartOK n

theorem keeps_paramexpand {np : NestedParse} (hnp : NPSpans TI np) (string : Str) (sindex : Nat) :
    Keeps PP (paramexpand np string sindex) (ParOK sindex) := by
  unfold paramexpand
  simp only []
  have hparam : ∀ (e : Nat) (v : Str), sindex < e →
      ParOK sindex (some (Node.parameter (sindex, e) v), e) := by
    intro e v he
    refine ⟨he, ?_⟩
    intro n hn; cases hn
    exact ⟨Nat.le_refl _, Nat.le_refl _, partOK_leaf rfl rfl rfl he⟩
  have hscan : sindex < scanName string (string.length + 1) (sindex + 1) :=
    Nat.lt_of_lt_of_le (Nat.lt_succ_self _) (scanName_ge _ _ _)
  cases hc : string[sindex + 1]? with
  | none => exact Keeps.pure (hparam _ _ hscan)
  | some c =>
    have hlt : sindex + 1 < string.length := (List.getElem?_eq_some_iff.mp hc).1
    simp only []
    refine Keeps.ite (fun _ => Keeps.pure ?_) (fun _ => ?_)
    · simp only [hlt, if_true]
      exact hparam _ _ (by omega)
    refine Keeps.ite (fun _ => ?_) (fun _ => ?_)
    · cases hf : Str.findFrom string '}' (sindex + 1 + 1) with
      | none =>
        simp only []
        exact Keeps.pure ⟨Nat.lt_succ_self _, by intro n hn; cases hn⟩
      | some z =>
        simp only []
        have h1 := findFrom_ge hf
        have h2 := findFrom_lt hf
        refine Keeps.pure ?_
        simp only [h2, if_true]
        exact hparam _ _ (by omega)
    refine Keeps.ite (fun _ => ?_) (fun _ => ?_)
    · cases string[sindex + 1 + 1]? with
      | none => exact Keeps.foreign trivial
      | some d =>
        simp only []
        refine Keeps.ite (fun _ => Keeps.raise trivial) (fun _ => ?_)
        refine Keeps.bind (keeps_parsedolparen hnp _ _) (fun r hr => Keeps.pure ?_)
        obtain ⟨node, e⟩ := r
        have he : sindex + 1 + 1 ≤ e := by obtain ⟨n, _, _, _, h4, _⟩ := hr; exact h4
        refine ⟨by show sindex < e + 1; omega, ?_⟩
        intro n hn
        simp only [Option.some.injEq] at hn
        subst hn
        refine ⟨by show sindex + 1 + 1 - 2 ≥ sindex; omega, Nat.le_refl _, ?_⟩
        exact partOK_of_dol (P := .commandsubstitution (sindex + 1 + 1 - 2, e + 1) node) hr rfl rfl
          rfl rfl (by omega)
    refine Keeps.ite (fun _ => Keeps.raise trivial) (fun _ => ?_)
    exact Keeps.pure (hparam _ _ hscan)

theorem tildeScan_ge (string : Str) (stop : Bool) : ∀ fuel i, i ≤ (tildeScan string stop fuel i).1
  | 0, i => Nat.le_refl i
  | fuel + 1, i => by
    unfold tildeScan
    cases string[i]? with
    | none => exact Nat.le_refl i
    | some r =>
      simp only []
      split
      · exact Nat.le_refl i
      · split
        · exact Nat.le_refl i
        · split
          · exact Nat.le_refl i
          · exact Nat.le_trans (Nat.le_succ i) (tildeScan_ge string stop fuel (i + 1))

theorem stringextract_go_ge (string : Str) (ch : Char) : ∀ fuel i r,
    stringextract.go string ch fuel i = some r → i ≤ r
  | 0, _, _, h => by simp [stringextract.go] at h
  | fuel + 1, i, r, h => by
    unfold stringextract.go at h
    cases hc : string[i]? with
    | none => rw [hc] at h; cases h
    | some c =>
      rw [hc] at h
      simp only [] at h
      split at h
      · split at h
        · exact Nat.le_trans (Nat.le_succ i) (stringextract_go_ge string ch fuel (i + 1) r h)
        · cases h
      · split at h
        · cases h; exact Nat.le_refl _
        · exact Nat.le_trans (Nat.le_succ i) (stringextract_go_ge string ch fuel (i + 1) r h)

theorem slice_length_le (s : Str) (a b : Nat) : (Str.slice s a b).length ≤ b - a := by
  unfold Str.slice
  rw [List.length_drop, List.length_take]
  omega

theorem shift_shift_pos (n : Node) (j k : Nat) :
    ((n.shift j).shift k).pos = (n.pos.1 + j + k, n.pos.2 + j + k) := by
  rw [pos_shift, pos_shift]

theorem keeps_expandStep {np : NestedParse} (hnp : NPSpans TI np) (tok : Token) (string : Str)
    (qd : Bool) (st : ExpSt) (hst : PChain 0 st.parts st.sindex) :
    Keeps PP (expandStep np tok string qd st)
      (Sum.elim (fun st' => PChain 0 st'.parts st'.sindex)
        (fun r => (∃ g, PChain 0 r.1 g) ∧ (r.2.2 = true → r.1 = []))) := by
  unfold expandStep
  simp only []
  have adv : ∀ k, st.sindex ≤ k → PChain 0 st.parts k := fun k hk => hst.mono hk
  refine Keeps.ite (fun _ => Keeps.pure ⟨⟨_, hst⟩, fun h => by cases h⟩) (fun _ => ?_)
  split
  · exact Keeps.foreign trivial
  rename_i c hc
  refine Keeps.ite (fun _ => Keeps.ite (fun _ => Keeps.pure (adv _ (Nat.le_succ _))) (fun _ => ?_))
    (fun _ => ?_)
  · -- process substitution
    refine Keeps.bind (keeps_parsedolparen hnp _ _) (fun r hr => Keeps.pure ?_)
    obtain ⟨node, e⟩ := r
    have he : st.sindex + 2 ≤ e := by obtain ⟨n, _, _, _, h4, _⟩ := hr; exact h4
    show PChain 0 (st.parts ++ [Node.processsubstitution (st.sindex + 2 - 2, e + 1) node]) (e + 1)
    refine PChain.snoc hst (by show st.sindex ≤ st.sindex + 2 - 2; omega) ?_ (Nat.le_refl _)
    exact partOK_of_dol (P := .processsubstitution (st.sindex + 2 - 2, e + 1) node) hr rfl rfl rfl rfl
      (by omega)
  refine Keeps.ite (fun _ => Keeps.ite (fun _ => Keeps.pure (adv _ (Nat.le_succ _)))
    (fun _ => Keeps.pure ?_)) (fun _ => ?_)
  · -- tilde
    simp only [Sum.elim_inl]
    have hge := tildeScan_ge string
      (st.flags.contains .ASSIGNRHS || st.flags.contains .ASSIGNMENT || st.flags.contains .TILDEEXP)
      (string.length + 1) st.sindex
    split
    · rename_i hi
      simp only [Bool.and_eq_true, decide_eq_true_eq] at hi
      exact PChain.snoc hst (Nat.le_refl _) (partOK_leaf rfl rfl rfl hi.1) (Nat.le_refl _)
    · exact adv _ hge
  refine Keeps.ite (fun _ => ?_) (fun _ => ?_)
  · -- `$`
    refine Keeps.bind (keeps_paramexpand hnp _ _) (fun r hr => Keeps.pure ?_)
    obtain ⟨hlt, hn⟩ := hr
    show PChain 0 (match r.1 with | some n => st.parts ++ [n] | none => st.parts) r.2
    cases hr1 : r.1 with
    | none => exact adv _ (Nat.le_of_lt hlt)
    | some n =>
      obtain ⟨h1, h2, h3⟩ := hn n hr1
      exact PChain.snoc hst h1 h3 h2
  refine Keeps.ite (fun _ => Keeps.ite (fun _ => Keeps.pure (adv _ (show st.sindex ≤ st.sindex + 1 + 1 by omega))) (fun _ => ?_))
    (fun _ => ?_)
  · -- backquote
    cases hx : stringextract string (st.sindex + 1) '`' with
    | none => exact Keeps.bind keeps_tapeSource (fun _ _ => Keeps.raise trivial)
    | some x =>
      simp only []
      have hxge : st.sindex + 1 ≤ x := stringextract_go_ge _ _ _ _ _ hx
      refine Keeps.bind (keeps_recursiveparse hnp _ _ _) (fun r hr => ?_)
      obtain ⟨c0, e0⟩ := r
      obtain ⟨n, hn, h1, _, h3⟩ := hr
      simp only [] at h1 ⊢
      refine Keeps.bind (keeps_adjustpositions c0 (st.sindex + 1) string.length)
        (fun cmd hcmd => Keeps.pure ?_)
      obtain ⟨hcmd1, _⟩ := hcmd
      show PChain 0 (st.parts ++ [Node.commandsubstitution (st.sindex, x + 1) cmd]) (x + 1)
      refine PChain.snoc hst (Nat.le_refl _) ?_ (Nat.le_refl _)
      have hnlen : n.pos.2 ≤ x - (st.sindex + 1) := by
        have := h3 n (C12.self_mem_preorder n)
        have := slice_length_le string (st.sindex + 1) x
        omega
      have hpos : cmd.pos = (n.pos.1 + 0 + (st.sindex + 1), n.pos.2 + 0 + (st.sindex + 1)) := by
        rw [hcmd1, h1, shift_shift_pos]
      refine partOK_subst (P := .commandsubstitution (st.sindex, x + 1) cmd) (c := cmd) rfl rfl rfl
        rfl ⟨(List.drop 0 (string.slice (st.sindex + 1) x)).length + 0 + (st.sindex + 1), ?_⟩ ?_ ?_
        (by omega) ?_ ?_
      · rw [hcmd1, h1]
        exact strict_shift_top (strict_shift_top hn.1.strict (Nat.le_refl _)) (Nat.le_refl _)
      · rw [hcmd1, h1]; exact noPend_shift (noPend_shift hn.1.nopend)
      · rw [hpos]
        rw [hcmd1, h1, tainted_shift, tainted_shift]
        rcases hn.1.root with h | h
        · exact Or.inl h
        · right
          show n.pos.1 + 0 + (st.sindex + 1) < n.pos.2 + 0 + (st.sindex + 1)
          omega
      · rw [hpos]; show st.sindex ≤ n.pos.1 + 0 + (st.sindex + 1); omega
      · rw [hpos]; show n.pos.2 + 0 + (st.sindex + 1) ≤ x + 1; omega
  refine Keeps.ite (fun _ => Keeps.pure (adv _ (show st.sindex ≤ st.sindex + 2 by omega))) (fun _ => ?_)
  refine Keeps.ite (fun _ => Keeps.pure (adv _ (Nat.le_succ _))) (fun _ => ?_)
  refine Keeps.ite (fun _ => Keeps.ite (fun _ => Keeps.pure ⟨⟨0, Nat.le_refl 0⟩, fun _ => rfl⟩)
    (fun _ => Keeps.ite (fun _ => Keeps.pure (adv _ (Nat.le_succ _)))
      (fun _ => Keeps.pure (adv _ (Nat.le_succ _))))) (fun _ => Keeps.pure (adv _ (Nat.le_succ _)))

/-! ## `_expandwordinternal`, `_expandword` -/

theorem ordered_cons {x : Node} {l : List Node} :
    ordered (x :: l) = true ↔ (∀ y, l.head? = some y → x.pos.2 ≤ y.pos.1) ∧ ordered l = true := by
  cases l with
  | nil => simp [ordered]
  | cons y ys => simp [ordered]

theorem ordered_head_le : ∀ {l : List Node} {x : Node}, ordered (x :: l) = true →
    (∀ p ∈ x :: l, p.pos.1 < p.pos.2) → ∀ p ∈ l, x.pos.2 ≤ p.pos.1
  | [], _, _, _ => by intro p hp; cases hp
  | y :: ys, x, ho, hne => by
    simp only [ordered, Bool.and_eq_true, decide_eq_true_eq] at ho
    intro p hp
    rcases List.mem_cons.mp hp with rfl | hp
    · exact ho.1
    · have := ordered_head_le (l := ys) (x := y) ho.2
        (fun q hq => hne q (List.mem_cons_of_mem _ hq)) p hp
      have := hne y (List.mem_cons_of_mem _ List.mem_cons_self)
      omega

theorem ordered_filter (f : Node → Bool) : ∀ {l : List Node}, ordered l = true →
    (∀ p ∈ l, p.pos.1 < p.pos.2) → ordered (l.filter f) = true
  | [], _, _ => rfl
  | x :: xs, ho, hne => by
    have ih := ordered_filter f (l := xs) (ordered_cons.mp ho).2
      (fun p hp => hne p (List.mem_cons_of_mem _ hp))
    rw [List.filter_cons]
    split
    · rw [ordered_cons]
      refine ⟨?_, ih⟩
      intro y hy
      have hy' : y ∈ xs.filter f := List.mem_of_mem_head? hy
      exact ordered_head_le ho hne y (List.mem_filter.mp hy').1
    · exact ih

/-- the parts of a word after the shift by the token's start -/
structure ShiftedOK (len a b : Nat) (Q : List Node) : Prop where
  ord : ordered Q = true
  each : ∀ p ∈ Q, p.pos.1 < p.pos.2 ∧ a ≤ p.pos.1 ∧ p.pos.2 ≤ b ∧ Strict len p ∧ EndsBy b p ∧ NoPend p

theorem ShiftedOK.filter {len a b : Nat} {Q : List Node} (h : ShiftedOK len a b Q) (f : Node → Bool) :
    ShiftedOK len a b (Q.filter f) :=
  ⟨ordered_filter f h.ord (fun p hp => (h.each p hp).1),
   fun p hp => h.each p (List.mem_filter.mp hp).1⟩

theorem shiftedOK_nil {len a b : Nat} : ShiftedOK len a b [] :=
  ⟨rfl, by intro p hp; cases hp⟩

/-- the word node over fine parts -/
theorem word_of_parts {len a b : Nat} {s : Str} {Q : List Node} (h : ShiftedOK len a b Q)
    (hab : a < b) (hbl : b ≤ len) :
    NodeIn len a (.word (a, b) s Q) b ∧ NoPend (.word (a, b) s Q) := by
  have hnp : NoPend (.word (a, b) s Q) := by
    rw [noPend_iff]
    exact ⟨rfl, fun c hc => (h.each c (by simpa [children] using hc)).2.2.2.2.2⟩
  refine ⟨⟨?_, ?_, Nat.le_of_lt hab, Or.inr ⟨Nat.le_refl _, hab⟩, hnp.pendAll, by omega,
    noPend_sealedAll _ hnp⟩, hnp⟩
  · have hkids : ∀ c, c ∈ (Node.word (a, b) s Q).children → Strict len c :=
      fun c hc => (h.each c (by simpa [children] using hc)).2.2.2.1
    cases ht : tainted (.word (a, b) s Q) with
    | true => exact strict_mk (Or.inl ht) hkids
    | false =>
      refine strict_mk (Or.inr (Or.inl ⟨hab, hbl, ?_, ?_, h.ord, ?_, ?_⟩)) hkids
      · intro c hc; exact (h.each c (by simpa [children] using hc)).1
      · intro c hc _
        have := h.each c (by simpa [children] using hc)
        exact ⟨this.2.1, Or.inl this.2.2.1⟩
      · intro hh; simp [spansItsParts] at hh
      · intro c hc; exact (h.each c (by simpa [children] using hc)).2.1
  · rw [endsBy_iff]
    exact ⟨Nat.le_refl _, fun c hc => (h.each c (by simpa [children] using hc)).2.2.2.2.1⟩

/-- what `_expandwordinternal` returns: parts chained in the token value, shifted by the token's
    start, every node of every part ending within the token (the visitor's assertion) -/
def IntOK (tok : Token) (r : List Node × Str) : Prop :=
  ∃ ps g, PChain 0 ps g ∧ r.1 = ps.map (·.shift tok.lexpos) ∧
    ∀ p ∈ ps, ∀ m ∈ p.preorder, m.pos.2 + tok.lexpos ≤ tok.endlexpos

theorem keeps_expandwordinternal {np : NestedParse} (hnp : NPSpans TI np) (tok : Token) (qd : Bool) :
    Keeps PP (expandwordinternal np tok qd) (IntOK tok) := by
  unfold expandwordinternal
  simp only []
  refine Keeps.bind (Keeps.loop (I := fun st => PChain 0 st.parts st.sindex)
    (R := fun r => (∃ g, PChain 0 r.1 g) ∧ (r.2.2 = true → r.1 = [])) trivial
    (fun st hst => keeps_expandStep hnp tok _ qd st hst) _ _
    (show PChain 0 ({ flags := tok.flags } : ExpSt).parts ({ flags := tok.flags } : ExpSt).sindex from
      Nat.le_refl 0)) ?_
  rintro ⟨parts, istring, early⟩ ⟨⟨g, hch⟩, hearly⟩
  simp only [] at hch hearly ⊢
  refine Keeps.ite (fun hc => Keeps.pure ?_) (fun _ => ?_)
  · have : parts = [] := by
      simp only [Bool.or_eq_true] at hc
      rcases hc with hc | hc
      · exact hearly hc
      · simpa using hc
    subst this
    exact ⟨[], 0, Nat.le_refl 0, rfl, by intro p hp; cases hp⟩
  · refine Keeps.ite (fun _ => Keeps.bind (Keeps.foreign (Φ := fun _ => False) trivial)
      (fun _ h => h.elim)) (fun hok => Keeps.pure ⟨parts, g, hch, rfl, ?_⟩)
    simp only [Bool.not_eq_true', Bool.not_eq_false] at hok
    intro p hp m hm
    have := List.all_eq_true.mp (List.all_eq_true.mp hok p hp) m hm
    simpa using this

theorem shiftedOK_of_int {tok : Token} {r : List Node × Str} {a b : Nat} (h : IntOK tok r)
    (hp : tok.pos = some (a, b)) (hbl : b ≤ len) : ShiftedOK len a b r.1 := by
  obtain ⟨ps, g, hch, hr, hass⟩ := h
  obtain ⟨hlx, hle⟩ := tok_lexspan hp
  rw [hlx, hle] at hass
  rw [hr, hlx]
  obtain ⟨hord, hfacts⟩ := hch.facts
  refine ⟨?_, ?_⟩
  · have : ps.map (fun x => x.shift a) = ps.map (mapPos (sh a)) := rfl
    rw [this, ordered_sh]; exact hord
  · intro q hq
    obtain ⟨p, hpm, rfl⟩ := List.mem_map.mp hq
    obtain ⟨hpo, _, _⟩ := hfacts p hpm
    have hpa := hass p hpm
    obtain ⟨L, hL⟩ := hpo.strict
    rw [pos_shift]
    refine ⟨by show p.pos.1 + a < p.pos.2 + a; have := hpo.ne; omega, Nat.le_add_left _ _,
      hpa p (C12.self_mem_preorder p), ?_, ?_, noPend_shift hpo.nopend⟩
    · exact strict_sh hL (fun m hm _ => Nat.le_trans (hpa m hm) hbl)
    · intro m hm
      rw [shift_eq, C12.preorder_mapPos] at hm
      obtain ⟨m0, hm0, rfl⟩ := List.mem_map.mp hm
      rw [pos_mapPos]
      exact hpa m0 hm0

/-- **the contract of word expansion**: if the nested parser keeps its contract, `expandword`
    returns a word node at the token's span that is fine, lies within the token, and holds no
    pending redirect -/
theorem wordContract_act (hT : TokAct TI) : WordContract TI := by
  intro np hnp len F st tok
  unfold expandword
  simp only []
  refine Keeps.bind Keeps.get (fun l _ => ?_)
  have hfin : ∀ qd, Keeps (StP TI len F st) (do
      let x ← expandwordinternal np tok qd
      pure (Node.word (tok.lexpos, tok.endlexpos) x.snd
        (if (l.limit == some 0) = true then List.filter (fun n => !isSubstitution n) x.fst
         else x.fst)) : M Node) (WordAt len tok) := by
    intro qd
    refine Keeps.bind (keeps_expandwordinternal hnp tok qd) (fun r hr => Keeps.pure ⟨⟨_, _, rfl⟩, ?_⟩)
    intro a b hp hab hbl
    obtain ⟨hlx, hle⟩ := tok_lexspan hp
    have hsh := shiftedOK_of_int (len := len) hr hp hbl
    rw [hlx, hle]
    split
    · exact word_of_parts (hsh.filter _) hab hbl
    · exact word_of_parts hsh hab hbl
  refine Keeps.ite (fun _ => Keeps.pure ⟨⟨_, _, rfl⟩, ?_⟩) (fun _ => ?_)
  · intro a b hp hab hbl
    obtain ⟨hlx, hle⟩ := tok_lexspan hp
    rw [hlx, hle]
    exact word_of_parts shiftedOK_nil hab hbl
  refine Keeps.ite (fun _ => ?_) (fun _ => Keeps.bind (Keeps.pure (Φ := fun _ => True) trivial)
    (fun _ _ => hfin _))
  split
  · exact Keeps.bind (Keeps.foreign (Φ := fun _ => False) trivial) (fun _ h => h.elim)
  · exact Keeps.bind (Keeps.pure (Φ := fun _ => True) trivial) (fun _ _ => hfin _)

theorem wordContract (hT : TokSpans TI) : WordContract TI := wordContract_act hT.act

end
end Bashlex.C03
