/-
  C03, token source, part 5: the position stack, `_createtoken`, and the part of `_readtokenword`
  after `# got_token` from a `W` state.
-/
import Bashlex.Props.C03.TokWord

namespace Bashlex.C03.Tok
open Bashlex Bashlex.M Bashlex.C10 Bashlex.C11
set_option linter.unusedSimpArgs false
set_option linter.unusedVariables false



variable {L : Str} {sr : List RedirCell} {rk : List (Nat × Bool)} {ps : List Nat} {k : Nat}

/-! ## the position stack -/

/-- the span of a delivered token -/
def TokPos (a b : Nat) (t : Token) : Prop := t.pos = some (a, b) ∧ a < b

theorem recordpos_w (rel : Nat) :
    HT (W L sr rk ps k) (recordpos rel)
      (fun _ l e => ∃ i, k ≤ i ∧ i ≤ L.length ∧ W L sr rk (ps ++ [i - rel]) i l e) ET := by
  intro l e h
  rw [run_recordpos]
  obtain ⟨a1, a2, a3, a4, a5, a6, a7⟩ := h
  refine ⟨(tapeOf l e).idx, a7, a2, a1, a2, a3, ?_, a5, a6, Nat.le_refl _⟩
  show l.positions ++ _ = _; rw [a4]

theorem createtoken_w (ty : TokType) (v : TVal) (fl : WordFlags) (a b : Nat) :
    HT (W L sr rk [a, b] k) (createtoken ty v fl)
      (fun t l e => TokPos a b t ∧ W L sr rk [] k l e) ET := by
  intro l e h
  obtain ⟨a1, a2, a3, a4, a5, a6, a7⟩ := h
  rw [run_createtoken ty v fl l e a b a4]
  by_cases hab : a < b
  · rw [if_pos hab]; exact ⟨⟨rfl, hab⟩, a1, a2, a3, rfl, a5, a6, a7⟩
  · rw [if_neg hab]; exact True.intro

/-- `_createtoken`, then code that only decorates the token -/
theorem ct_switch {β : Type} {ty : TokType} {v : TVal} {fl : WordFlags} {a b : Nat}
    {f : Token → M β} {φ : β → Prop}
    (h : ∀ tok, TokPos a b tok → SatW (W L sr rk [] k) (W L sr rk [] k) (f tok) φ) :
    HT (W L sr rk [a, b] k) (createtoken ty v fl >>= f)
      (fun t l e => φ t ∧ W L sr rk [] k l e) ET :=
  HT.bind (createtoken_w ty v fl a b) (fun tok => HT.pre_pure (fun ht => h tok ht))

theorem tokPos_of_pos {a b : Nat} {t t' : Token} (h : TokPos a b t) (hp : t'.pos = t.pos) :
    TokPos a b t' := by
  unfold TokPos at h ⊢
  rw [hp]; exact h

macro_rules | `(tactic| jp_side) => `(tactic| exact tokPos_of_pos ‹TokPos _ _ _› rfl)

/-- as `w_walk`, keeping the span of the token: `pure` leaves decorate the token -/
macro "w_walk_v" : tactic => `(tactic| repeat' (first
  | w_step
  | ((with_reducible refine SatW.pure (by wmono) ?_); jp_side)
  | ((with_reducible refine AtW.pure (by wmono) ?_); jp_side)))

macro_rules | `(tactic| q_leaf) => `(tactic| with_reducible exact createtoken_w _ _ _ _ _)
macro_rules | `(tactic| q_leaf) => `(tactic|
  ((with_reducible refine ct_switch (fun _ _ => ?_)); focus (w_walk_v; done)))

set_option maxHeartbeats 1000000 in
/-- the part of `_readtokenword` after `# got_token`: the token spans from the recorded start to
    the cursor, which does not move -/
theorem finishWord_w (st : RWState) (a : Nat) :
    HT (W L sr rk [a] k) (finishWord st)
      (fun t l e => ∃ b, TokPos a b t ∧ W L sr rk [] b l e) ET := by
  unfold finishWord
  refine HT.bind (recordpos_w 0) (fun _ => HT.pre_exists (fun b => HT.pre_pure (fun _ =>
    HT.pre_pure (fun _ => ?_))))
  refine HT.post (Q := fun t l e => TokPos a b t ∧ W L sr rk [] b l e) ?_
    (fun t l e h => ⟨b, h⟩)
  show HT (W L sr rk [a, b] b) _ _ _
  let jpInv : Token → Prop := TokPos a b
  q_walk

/-- `_readtokenword(c)`, entered with `c` read and the start recorded -/
theorem readtokenword_w (h2 : 2 ≤ L.length) (c : Char) (a : Nat) :
    HT (W L sr rk [a] 1) (readtokenword c)
      (fun t l e => ∃ b, TokPos a b t ∧ W L sr rk [] b l e) ET := by
  unfold readtokenword
  refine QW.bindSame w_loopFuel (fun fuel => ?_)
  exact HT.bind (rtwLoop_w h2 fuel _) (fun st => finishWord_w st a)

end Bashlex.C03.Tok
