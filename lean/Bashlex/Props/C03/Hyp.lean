/-
  C03, part 3: the hypothesis on the token source (`TokSpans`), semantic values occupying
  intervals along the LR stack (`ValIn`, `Seg`), and the relation between the values on the stack
  and the redirect store (`Fresh`, `EntryOK`).
-/
import Bashlex.Props.C03.Chain
import Bashlex.Proofs.HoareS
import Bashlex.Model.Parse

namespace Bashlex.C03
open Bashlex Bashlex.Spec Bashlex.Node Bashlex.M
set_option linter.unusedSimpArgs false
set_option linter.unusedVariables false

/-! ## the token source -/

/-- a WORD token is not empty (the delimiter of a here-document is the value of a WORD token; an
    empty delimiter would give an empty body span) -/
def WNE (t : Token) : Prop := t.ttype = some .WORD → t.valueStr ≠ []

/-- the (ghost) span `(a, b)` of a delivered token: non-empty; it is the token's recorded position
    unless the token is EOF (whose `pos` and value are `None`); it starts within the input.
    (Nothing is assumed about where a token *ends*: the NEWLINE the tokenizer appends ends at
    `len + 1`, and so does a word that swallowed a final backslash -- `a\` gives WORD (0,3) for
    `len = 2`.  That every token reaching a tree ends within the input follows from the
    look-ahead at the reduction, see `la_range`.) -/
def TokAt (len : Nat) (t : Token) (a b : Nat) : Prop :=
  a < b ∧ ((t.ttype = some .EOF ∧ t.value = .none) ∨ (t.pos = some (a, b) ∧ a ≤ len ∧ WNE t))

/-- how the tokenizer may change a cell of the redirect store (`makeheredoc`): it attaches the
    body once -- a non-empty span after the redirect, within the input -- and, when called from
    `p_simple_list` (`ext`), may extend the redirect's span to the right, which it does only for a
    redirect ending right before the tokenizer's frontier `f` -/
def CellStep (len f : Nat) (ext : Bool) (c c' : RedirCell) : Prop :=
  c' = c ∨ (c.heredoc = none ∧ ∃ x y v, c'.heredoc = some ((x, y), v) ∧
    c.pos.2 ≤ x ∧ x < y ∧ y ≤ len ∧
    (c'.pos = c.pos ∨ (ext = true ∧ c'.pos.1 = c.pos.1 ∧ c.pos.2 ≤ c'.pos.2 ∧ c'.pos.2 ≤ len ∧
      f ≤ c.pos.2 + 1)))

def StoreStep (len f : Nat) (ext : Bool) (st st' : List RedirCell) : Prop :=
  st'.length = st.length ∧
  ∀ (i : Nat) (c c' : RedirCell), st[i]? = some c → st'[i]? = some c' → CellStep len f ext c c'

/-- the nested-parser wrapper of `parserRun` (`_recursiveparse` creating a fresh `_parser`) -/
def npOf (run : M (Option Node)) : NestedParse := fun string dolparen => do
  let outer ← get
  let ps := if dolparen then { outer.ps with cmdsubst := true, eoftoken := true } else outer.ps
  set ({ tape := some (Tape.ofInput string), opts := some (true, false)
         lastReadToken := outer.lastReadToken, tokenBeforeThat := outer.tokenBeforeThat
         twoTokensAgo := outer.twoTokensAgo, ps := ps
         eofToken := if dolparen then some rparenEofToken else none
         limit := outer.limit.map (· - 1) } : Local)
  let r ← run
  let inner ← get
  set { outer with ps := inner.ps }
  pure r

theorem parserRun_succ (d : Nat) : parserRun (d + 1) = (do
    let res ← LR.run LR.realTables (lrHooks (npOf (parserRun d))) 1073741824
    let store := (← get).store
    match res with
    | .accepted (.node n) _ _ _ => pure (some (resolve store n))
    | _ => pure none) := rfl

/-- the state a parser object starts in, over the input `s` -/
def InitState (s : Str) (l : Local) (e : Env) : Prop :=
  l.store = [] ∧ l.redirstack = [] ∧ l.eolLookahead = none ∧ l.positions = [] ∧
  (l.tape = some (Tape.ofInput s) ∨ (l.tape = none ∧ e.tape = Tape.ofInput s))

/-- **the hypothesis on the token source**, for every parser run (top-level and nested).
    `TI len f l e` is a ghost invariant of the tokenizer's state ("the parser object runs over an
    input of length `len`, and every token delivered so far ends at or before the frontier `f`").
    * `next`: `token()` delivers a token at or after the frontier (spans increasing, disjoint,
      non-empty, starting within the input), moves the frontier to its end, and never changes
      the `pos` of a redirect in the store (it may attach here-document bodies);
    * `gather`: `gatherheredocuments` called from `p_simple_list` attaches bodies and may extend
      redirects ending right before the frontier;
    * `queue`, `ps`: the parser's own writes to the parser object (queueing a here-document
      redirect that ends before the frontier, with a non-empty delimiter; parser-state flags)
      keep the invariant;
    * `nested`: a nested parser run leaves the outer tokenizer alone;
    * `init`: a fresh parser object satisfies it. -/
structure TokSpans (TI : Nat → Nat → Local → Env → Prop) : Prop where
  next : ∀ len f st, SatS nextToken (fun l e => TI len f l e ∧ l.store = st)
    (fun t l e => ∃ a b, f ≤ a ∧ TokAt len t a b ∧ TI len b l e ∧ StoreStep len f false st l.store)
  gather : ∀ len f st, SatS gatherheredocuments (fun l e => TI len f l e ∧ l.store = st)
    (fun _ l e => TI len f l e ∧ StoreStep len f true st l.store)
  queue : ∀ len f l e (cell : RedirCell) (kill : Bool), TI len f l e → cell.pos.2 < f →
    cell.heredoc = none → cell.delim ≠ [] →
    TI len f { l with store := l.store ++ [cell],
                      redirstack := l.redirstack ++ [(l.store.length, kill)] } e
  ps : ∀ len f l e (ps : PState), TI len f l e → TI len f { l with ps := ps } e
  nested : ∀ d len f st s b, SatS (npOf (parserRun d) s b)
    (fun l e => TI len f l e ∧ l.store = st) (fun _ l e => TI len f l e ∧ l.store = st)
  init : ∀ s l e, InitState s l e → TI s.length 0 l e

/-- the part of `TokSpans` the semantic actions (and word expansion) use: everything but `next`
    and `init`.  (Separated so that the action lemmas can be instantiated with a tokenizer
    invariant that also pins a ghost token log, which `next` extends: `Props/C05`.) -/
structure TokAct (TI : Nat → Nat → Local → Env → Prop) : Prop where
  gather : ∀ len f st, SatS gatherheredocuments (fun l e => TI len f l e ∧ l.store = st)
    (fun _ l e => TI len f l e ∧ StoreStep len f true st l.store)
  queue : ∀ len f l e (cell : RedirCell) (kill : Bool), TI len f l e → cell.pos.2 < f →
    cell.heredoc = none → cell.delim ≠ [] →
    TI len f { l with store := l.store ++ [cell],
                      redirstack := l.redirstack ++ [(l.store.length, kill)] } e
  ps : ∀ len f l e (ps : PState), TI len f l e → TI len f { l with ps := ps } e
  nested : ∀ d len f st s b, SatS (npOf (parserRun d) s b)
    (fun l e => TI len f l e ∧ l.store = st) (fun _ l e => TI len f l e ∧ l.store = st)

theorem TokSpans.act {TI : Nat → Nat → Local → Env → Prop} (h : TokSpans TI) : TokAct TI :=
  ⟨h.gather, h.queue, h.ps, h.nested⟩

/-- the state predicate the semantic actions maintain: tokenizer invariant at frontier `F`, and a
    known store -/
def StP (TI : Nat → Nat → Local → Env → Prop) (len F : Nat) (st : List RedirCell) :
    Local → Env → Prop :=
  fun l e => TI len F l e ∧ l.store = st

/-! ## semantic values along the stack -/

def nlSym : Nat := TokType.NEWLINE.sym
def eofSym : Nat := TokType.EOF.sym

theorem eofSym_eq : eofSym = 0 := rfl

/-- a token on the stack (entered under the grammar symbol `sym`) occupying `[f, g]` -/
def TokIn (len f sym : Nat) (t : Token) (g : Nat) : Prop :=
  f ≤ g ∧ ((sym = eofSym ∧ t.value = .none) ∨
    ∃ a b, t.pos = some (a, b) ∧ f ≤ a ∧ a < b ∧ b ≤ g ∧ WNE t)

def ValIn (len f : Nat) (x : Nat × SVal) (g : Nat) : Prop :=
  match x.2 with
  | .none => f ≤ g
  | .tok t => TokIn len f x.1 t g
  | .node n => NodeIn len f n g
  | .nodes l => l ≠ [] ∧ ListIn len f l g

theorem ValIn.le {len f g : Nat} {x : Nat × SVal} (h : ValIn len f x g) : f ≤ g := by
  obtain ⟨s, v⟩ := x
  cases v with
  | none => exact h
  | tok t => exact h.1
  | node n => exact NodeIn.le h
  | nodes l => exact ListIn.le h.2

theorem ValIn.mono {len f f' g g' : Nat} {x : Nat × SVal} (h : ValIn len f x g) (hf : f' ≤ f)
    (hg : g ≤ g') : ValIn len f' x g' := by
  obtain ⟨s, v⟩ := x
  cases v with
  | none => have : f ≤ g := h; show f' ≤ g'; omega
  | tok t =>
    obtain ⟨h1, h2⟩ := h
    refine ⟨by omega, ?_⟩
    rcases h2 with h2 | ⟨a, b, hp, ha, hab, hb, hw⟩
    · exact Or.inl h2
    · exact Or.inr ⟨a, b, hp, by omega, hab, by omega, hw⟩
  | node n => exact NodeIn.mono h hf hg
  | nodes l => exact ⟨h.1, ListIn.mono h.2 hf hg⟩

/-- the values of `xs` occupy consecutive intervals between `f` and `g` -/
def Seg (len : Nat) : Nat → List (Nat × SVal) → Nat → Prop
  | f, [], g => f ≤ g
  | f, x :: xs, g => ∃ m, ValIn len f x m ∧ Seg len m xs g

theorem Seg.le {len : Nat} : ∀ {xs : List (Nat × SVal)} {f g : Nat}, Seg len f xs g → f ≤ g
  | [], _, _, h => h
  | x :: xs, f, g, h => by
    obtain ⟨m, h1, h2⟩ := h
    have := h1.le
    have := Seg.le h2
    omega

theorem Seg.mono {len : Nat} : ∀ {xs : List (Nat × SVal)} {f f' g g' : Nat}, Seg len f xs g →
    f' ≤ f → g ≤ g' → Seg len f' xs g'
  | [], f, f', g, g', h, hf, hg => by
    have : f ≤ g := h
    show f' ≤ g'
    omega
  | x :: xs, f, f', g, g', h, hf, hg => by
    obtain ⟨m, h1, h2⟩ := h
    exact ⟨m, h1.mono hf (Nat.le_refl _), Seg.mono h2 (Nat.le_refl _) hg⟩

theorem Seg.append {len : Nat} : ∀ {a b : List (Nat × SVal)} {f m g : Nat}, Seg len f a m →
    Seg len m b g → Seg len f (a ++ b) g
  | [], b, f, m, g, ha, hb => by
    have : f ≤ m := ha
    exact Seg.mono hb this (Nat.le_refl _)
  | x :: xs, b, f, m, g, ha, hb => by
    obtain ⟨k, h1, h2⟩ := ha
    exact ⟨k, h1, Seg.append h2 hb⟩

theorem Seg.split {len : Nat} : ∀ {a b : List (Nat × SVal)} {f g : Nat}, Seg len f (a ++ b) g →
    ∃ m, Seg len f a m ∧ Seg len m b g
  | [], b, f, g, h => ⟨f, Nat.le_refl f, h⟩
  | x :: xs, b, f, g, h => by
    obtain ⟨k, h1, h2⟩ := h
    obtain ⟨m, h3, h4⟩ := Seg.split h2
    exact ⟨m, ⟨k, h1, h3⟩, h4⟩

theorem seg_single {len f g : Nat} {x : Nat × SVal} : Seg len f [x] g ↔ ValIn len f x g := by
  constructor
  · rintro ⟨m, h1, h2⟩
    have : m ≤ g := h2
    exact h1.mono (Nat.le_refl _) this
  · intro h
    exact ⟨g, h, Nat.le_refl g⟩

/-! ## values and the redirect store -/

def svNodes : SVal → List Node
  | .node n => [n]
  | .nodes l => l
  | _ => []

/-- the store cell of a pending redirect still holds the position the node was created with -/
def FreshN (len : Nat) (st : List RedirCell) (m : Node) : Prop :=
  ∀ id p, pendOf m = some (id, p) → ∃ c, st[id]? = some c ∧ c.pos = p ∧ BodyOK len p c.heredoc

def FreshT (len : Nat) (st : List RedirCell) (n : Node) : Prop := ∀ m ∈ n.preorder, FreshN len st m

def Fresh (len : Nat) (st : List RedirCell) (v : SVal) : Prop := ∀ n ∈ svNodes v, FreshT len st n

theorem freshT_iff {len : Nat} {st : List RedirCell} {n : Node} :
    FreshT len st n ↔ FreshN len st n ∧ ∀ c, c ∈ n.children → FreshT len st c := by
  unfold FreshT
  rw [C12.preorder_eq]
  constructor
  · intro h
    refine ⟨h n List.mem_cons_self, fun c hc m hm => h m ?_⟩
    exact List.mem_cons_of_mem _ (C12.mem_preorderL.mpr ⟨c, hc, hm⟩)
  · rintro ⟨h1, h2⟩ m hm
    rcases List.mem_cons.mp hm with rfl | hm
    · exact h1
    · obtain ⟨c, hc, hmc⟩ := C12.mem_preorderL.mp hm
      exact h2 c hc m hmc

theorem freshT_mk {len : Nat} {st : List RedirCell} {n : Node} (h : pendOf n = none)
    (hc : ∀ c, c ∈ n.children → FreshT len st c) : FreshT len st n :=
  freshT_iff.mpr ⟨(by intro id p hp; rw [h] at hp; cases hp), hc⟩

/-- the current position of a node (`nodePos`) as a function of the store -/
def posIn (st : List RedirCell) : Node → Span
  | .redirect p _ _ _ _ _ (some id) => match st[id]? with | some c => c.pos | none => p
  | n => n.pos

theorem posIn_fresh {len : Nat} {st : List RedirCell} {n : Node} (h : FreshT len st n) :
    posIn st n = n.pos := by
  have h0 := h n (C12.self_mem_preorder n)
  cases n with
  | redirect p i t o oa hd hid =>
    cases hid with
    | none => rfl
    | some id =>
      obtain ⟨c, hc, hp, _⟩ := h0 id p rfl
      simp [posIn, hc, hp, Node.pos]
  | _ => rfl

theorem doneN_of_fresh {len g : Nat} {st : List RedirCell} {m : Node} (h : FreshN len st m)
    (hs : pendShape m) : DoneN len g st m := by
  intro id p hp
  obtain ⟨c, hc, hpos, hb⟩ := h id p hp
  refine ⟨hs, ?_⟩
  intro c' hc'
  rw [hc] at hc'
  cases hc'
  exact ⟨hb, Or.inl hpos⟩

theorem done_of_fresh {len g : Nat} {st : List RedirCell} {n : Node} (h : FreshT len st n)
    (hs : PendAll n) : Done len g st n :=
  fun m hm => doneN_of_fresh (h m hm) (hs m hm)

/-- a step of the tokenizer that does not extend redirects keeps values fresh -/
theorem freshN_step {len f : Nat} {st st' : List RedirCell} {m : Node}
    (hs : StoreStep len f false st st') (h : FreshN len st m) : FreshN len st' m := by
  intro id p hp
  obtain ⟨c, hc, hpos, hb⟩ := h id p hp
  have hlt : id < st'.length := by
    rw [hs.1]
    exact (List.getElem?_eq_some_iff.mp hc).1
  obtain ⟨c', hc'⟩ : ∃ c', st'[id]? = some c' := ⟨st'[id], List.getElem?_eq_getElem hlt⟩
  refine ⟨c', hc', ?_⟩
  rcases hs.2 id c c' hc hc' with rfl | ⟨hn, x, y, v, hh, h1, h2, h3, h4⟩
  · exact ⟨hpos, hb⟩
  · rcases h4 with h4 | h4
    · refine ⟨by rw [h4]; exact hpos, ?_⟩
      intro x' y' v' hx
      rw [hh] at hx
      cases hx
      rw [← hpos]
      exact ⟨h1, h2, h3⟩
    · cases h4.1

theorem fresh_step {len f : Nat} {st st' : List RedirCell} {v : SVal}
    (hs : StoreStep len f false st st') (h : Fresh len st v) : Fresh len st' v :=
  fun n hn m hm => freshN_step hs (h n hn m hm)

theorem freshN_append {len : Nat} {st : List RedirCell} {cell : RedirCell} {m : Node}
    (h : FreshN len st m) : FreshN len (st ++ [cell]) m := by
  intro id p hp
  obtain ⟨c, hc, hpos, hb⟩ := h id p hp
  refine ⟨c, ?_, hpos, hb⟩
  have hlt := (List.getElem?_eq_some_iff.mp hc).1
  rw [List.getElem?_append_left hlt]
  exact hc

theorem fresh_append {len : Nat} {st : List RedirCell} {cell : RedirCell} {v : SVal}
    (h : Fresh len st v) : Fresh len (st ++ [cell]) v :=
  fun n hn m hm => freshN_append (h n hn m hm)

/-- the `gatherheredocuments` of `p_simple_list`: fresh values become done values, for every `g`
    below the frontier -/
theorem doneN_gather {len f g : Nat} {st st' : List RedirCell} {m : Node}
    (hs : StoreStep len f true st st') (hg : g < f) (h : FreshN len st m) (hsh : pendShape m) :
    DoneN len g st' m := by
  intro id p hp
  obtain ⟨c, hc, hpos, hb⟩ := h id p hp
  refine ⟨hsh, ?_⟩
  intro c' hc'
  rcases hs.2 id c c' hc hc' with rfl | ⟨hn, x, y, v, hh, h1, h2, h3, h4⟩
  · exact ⟨hb, Or.inl hpos⟩
  · have hbody : BodyOK len p c'.heredoc := by
      intro x' y' v' hx
      rw [hh] at hx
      cases hx
      rw [← hpos]
      exact ⟨h1, h2, h3⟩
    refine ⟨hbody, ?_⟩
    rcases h4 with h4 | ⟨_, e1, e2, e3, e4⟩
    · left; rw [h4]; exact hpos
    · right
      rw [hpos] at e1 e2 e4
      exact ⟨by rw [hh]; rfl, e1, e2, e3, by omega⟩

/-- done values stay done under tokenizer steps that do not extend redirects -/
theorem doneN_step {len f g : Nat} {st st' : List RedirCell} {m : Node}
    (hs : StoreStep len f false st st') (h : DoneN len g st m)
    (hex : ∀ id p, pendOf m = some (id, p) → ∃ c, st[id]? = some c) : DoneN len g st' m := by
  intro id p hp
  obtain ⟨hsh, hcell⟩ := h id p hp
  refine ⟨hsh, ?_⟩
  intro c' hc'
  obtain ⟨c, hc⟩ := hex id p hp
  obtain ⟨hb, hpos⟩ := hcell c hc
  rcases hs.2 id c c' hc hc' with rfl | ⟨hn, x, y, v, hh, h1, h2, h3, h4⟩
  · exact ⟨hb, hpos⟩
  · rcases hpos with hpos | hpos
    · rcases h4 with h4 | h4
      · refine ⟨?_, Or.inl (by rw [h4]; exact hpos)⟩
        intro x' y' v' hx
        rw [hh] at hx
        cases hx
        rw [← hpos]
        exact ⟨h1, h2, h3⟩
      · cases h4.1
    · rw [hn] at hpos; cases hpos.1

/-- what the stack invariant says about one entry and the store: it is fresh, or it is the value
    of `simple_list` (computed after `p_simple_list` gathered the here-documents) -/
def slSym : Nat := Gen.termNames.length + (Gen.ntNames.idxOf "simple_list")

structure DoneV (len : Nat) (st : List RedirCell) (v : SVal) : Prop where
  ex : ∀ n ∈ svNodes v, ∀ m ∈ n.preorder, ∀ id p, pendOf m = some (id, p) → ∃ c, st[id]? = some c
  done : ∀ n ∈ svNodes v, ∃ g, EndsBy g n ∧ Done len g st n

def EntryOK (len : Nat) (st : List RedirCell) (x : Nat × SVal) : Prop :=
  Fresh len st x.2 ∨ (x.1 = slSym ∧ DoneV len st x.2)

end Bashlex.C03
