/-
  C03, token source, part 7: `_readtoken` from a `W` state at the frontier `f`
  (`k0 = min f len(line)` is the lower bound of the cursor): the delivered token starts at or
  after `f` and inside the line, ends at the cursor; the store changes only by
  `gatherheredocuments` behind a newline (bodies start after the newline, hence after `f`).
-/
import Bashlex.Props.C03.TokHeredoc

namespace Bashlex.C03.Tok
open Bashlex Bashlex.M Bashlex.C10 Bashlex.C11
set_option linter.unusedSimpArgs false
set_option linter.unusedVariables false
set_option linter.unusedSectionVars false



variable {L : Str} {sr : List RedirCell} {rk : List (Nat × Bool)} {ps : List Nat} {k : Nat}
  {len f : Nat}

/-- the EOF token of `_readtoken` -/
def eofTok : Token := { ttype := some .EOF, value := .none }

/-- what `_readtoken` returns: a bare type with the start `a` on the position stack (after
    `gatherheredocuments` if it is a newline), the EOF token with the cursor at the end, or a word
    spanning `(a, b)` with the cursor at `b` -/
def ReadQ (L : Str) (len f : Nat) (sr : List RedirCell) (rk : List (Nat × Bool))
    (r : TokType ⊕ Token) (l : Local) (e : Env) : Prop :=
  match r with
  | .inl _ => ∃ a, (f ≤ a ∧ a + 1 ≤ L.length) ∧ GPost L [a] (a + 1) len f (f + 1) sr l e
  | .inr t => (t = eofTok ∧ W L sr rk [] L.length l e) ∨
      ∃ a b, (f ≤ a ∧ a + 1 ≤ L.length) ∧ TokPos a b t ∧ W L sr rk [] b l e

theorem gpost_of_w {a : Nat} (hp : PendOK f sr rk) {l : Local} {e : Env}
    (h : W L sr rk [a] (a + 1) l e) : GPost L [a] (a + 1) len f (f + 1) sr l e := by
  have hs : l.store = sr := h.2.2.2.2.1
  have hr : l.redirstack = rk := h.2.2.2.2.2.1
  refine ⟨by rw [hs, hr]; exact hp, ?_, Or.inl (by rw [hs, hr]; exact h)⟩
  rw [hs]
  exact ⟨rfl, fun i c c' h1 h2 => by rw [h1] at h2; cases h2; exact Or.inl rfl⟩

/-- `GPost` only depends on the tape, the slot, the positions, the store and the queue -/
theorem GPost.upd {ps : List Nat} {k g : Nat} {l l' : Local} {e : Env}
    (h : GPost L ps k len f g sr l e) (h1 : tapeOf l' e = tapeOf l e)
    (h2 : l'.eolLookahead = l.eolLookahead) (h3 : l'.positions = l.positions)
    (h4 : l'.store = l.store) (h5 : l'.redirstack = l.redirstack)
    (h6 : strictOf l' e = strictOf l e) : GPost L ps k len f g sr l' e := by
  obtain ⟨a1, a2, a3⟩ := h
  refine ⟨by rw [h4, h5]; exact a1, by rw [h4]; exact a2, ?_⟩
  rcases a3 with a3 | a3
  · left
    unfold W at a3 ⊢
    rw [h1, h2, h3, h4, h5]; exact ⟨a3.1, a3.2.1, a3.2.2.1, a3.2.2.2.1, rfl, rfl, a3.2.2.2.2.2.2⟩
  · right
    unfold Dead at a3 ⊢
    rw [h1, h2, h3, h6]; exact a3

theorem w_tokentypeOfChar' {I : Local → Env → Prop} (c : Char) :
    SatW I I (tokentypeOfChar c) (fun _ => True) := by
  unfold tokentypeOfChar
  split
  · exact SatW.pure (fun _ _ h => h) True.intro
  · exact SatW.foreign

section tails
variable (hnl : NL L) (hK : L.length ≤ len + 1) (hp : PendOK f sr rk)
include hnl hK hp

/-- the newline branch: `gatherheredocuments`, then the bare NEWLINE type -/
theorem nl_tail {a : Nat} (hfa : f ≤ a) (ha : a + 1 ≤ L.length) {u : Local → Local} {c : Char}
    (hu : ∀ l e, GPost L [a] (a + 1) len f (f + 1) sr l e →
      GPost L [a] (a + 1) len f (f + 1) sr (u l) e) :
    HT (W L sr rk [a] (a + 1)) (do
      gatherheredocuments
      modify u
      let t ← tokentypeOfChar c
      pure (Sum.inl t) : M (TokType ⊕ Token)) (ReadQ L len f sr rk) ET := by
  refine HT.bind (gather_w (g := f + 1) hnl hK (fun x hx _ => by omega) hp) (fun _ => ?_)
  refine HT.bind (Q := fun _ l e => GPost L [a] (a + 1) len f (f + 1) sr l e)
    (HT.modify hu) (fun _ => ?_)
  refine QW.bindSame (w_tokentypeOfChar' c) (fun t => ?_)
  exact HT.pure (fun l e h => ⟨a, ⟨hfa, ha⟩, h⟩)

theorem tt_tail {a : Nat} (hfa : f ≤ a) (ha : a + 1 ≤ L.length) {c : Char} :
    HT (W L sr rk [a] (a + 1)) (do
      let t ← tokentypeOfChar c
      pure (Sum.inl t) : M (TokType ⊕ Token)) (ReadQ L len f sr rk) ET := by
  refine QW.bindSame (w_tokentypeOfChar' c) (fun t => ?_)
  exact HT.pure (fun l e h => ⟨a, ⟨hfa, ha⟩, gpost_of_w hp h⟩)

theorem inl_tail {a : Nat} (hfa : f ≤ a) (ha : a + 1 ≤ L.length) {t : TokType} :
    HT (W L sr rk [a] (a + 1)) (pure (Sum.inl t) : M (TokType ⊕ Token)) (ReadQ L len f sr rk) ET :=
  HT.pure (fun l e h => ⟨a, ⟨hfa, ha⟩, gpost_of_w hp h⟩)

theorem rtw_tail {a : Nat} (hfa : f ≤ a) (ha : a + 2 ≤ L.length) {c : Char} :
    HT (W L sr rk [a] (a + 1)) (do
      let t ← readtokenword c
      pure (Sum.inr t) : M (TokType ⊕ Token)) (ReadQ L len f sr rk) ET := by
  refine HT.bind (HT.pre (readtokenword_w (by omega) c a) (fun l e h => h.mono (by omega)))
    (fun t => ?_)
  refine HT.pure (fun l e h => Or.inr ?_)
  obtain ⟨b, h1, h2⟩ := h
  exact ⟨a, b, ⟨hfa, by omega⟩, h1, h2⟩

end tails


/-- `recordpos(1)`: the start of the token is the cursor minus one -/
theorem recordpos1_w (Φ : Nat → Prop) :
    HT (fun l e => W L sr rk [] k l e ∧ Φ (tapeOf l e).idx) (recordpos 1)
      (fun _ l e => ∃ i, (Φ i ∧ k ≤ i ∧ i ≤ L.length) ∧ W L sr rk [i - 1] i l e) ET := by
  intro l e ⟨h, hφ⟩
  rw [run_recordpos]
  obtain ⟨a1, a2, a3, a4, a5, a6, a7⟩ := h
  refine ⟨(tapeOf l e).idx, ⟨hφ, a7, a2⟩, a1, a2, a3, ?_, a5, a6, Nat.le_refl _⟩
  show l.positions ++ _ = _; rw [a4]; rfl

set_option hygiene false in
macro_rules | `(tactic| q_leaf) => `(tactic|
  ((with_reducible refine nl_tail hnl hK hp hfa ha ?_);
   exact (fun _ _ h => GPost.upd h rfl rfl rfl rfl rfl rfl)))
set_option hygiene false in
macro_rules | `(tactic| q_leaf) => `(tactic| with_reducible exact tt_tail hnl hK hp hfa ha)
set_option hygiene false in
macro_rules | `(tactic| q_leaf) => `(tactic| with_reducible exact inl_tail hnl hK hp hfa ha)
set_option hygiene false in
macro_rules | `(tactic| q_leaf) => `(tactic| with_reducible exact rtw_tail hnl hK hp hfa ha2)

/-- the blank-skipping loop of `_readtoken`: the character in hand was read at the cursor - 1 -/
def BI (L : Str) (sr : List RedirCell) (rk : List (Nat × Bool)) (k0 : Nat) (c : Option Char)
    (l : Local) (e : Env) : Prop :=
  W L sr rk [] k0 l e ∧
  (∀ ch, c = some ch → k0 + 1 ≤ (tapeOf l e).idx ∧ L[(tapeOf l e).idx - 1]? = some ch) ∧
  (c = none → L.length ≤ (tapeOf l e).idx)

set_option maxHeartbeats 2000000 in
/-- **`_readtoken`** at the frontier `f` -/
theorem readtoken_w (hnl : NL L) (hK : L.length ≤ len + 1) (hp : PendOK f sr rk) :
    HT (W L sr rk [] (min f L.length)) readtoken (ReadQ L len f sr rk) ET := by
  unfold readtoken
  simp only []
  generalize hk0 : min f L.length = k0
  refine QW.bindSame w_loopFuel (fun fuel => ?_)
  refine HT.bind (getc_w true) (fun c0 => ?_)
  refine HT.bind (Q := BI L sr rk k0) ?_ (fun c1 => ?_)
  · -- skipping blanks
    refine HT.loop (E := ET) (I := BI L sr rk k0) True.intro (fun c => ?_) fuel c0
    cases c with
    | none => exact HT.pure (fun l e h => h)
    | some ch =>
      refine HT.ite (fun _ => ?_) (fun _ => HT.pure (fun l e h => h))
      refine HT.bind (HT.pre (getc_w true) (fun l e h => h.1)) (fun c' => ?_)
      exact HT.pure (fun l e h => h)
  cases c1 with
  | none => exact HT.pure (fun l e h => Or.inl ⟨rfl, W.raise h.1 (h.2.2 rfl)⟩)
  | some ch =>
    simp only [pure_bind]
    refine HT.ite (fun hsharp => ?_) (fun hsharp => ?_)
    · -- a comment: skipped, then the newline
      have hch : ch = '#' := by simpa using hsharp
      subst hch
      refine HT.pre (P := fun l e => k0 + 2 ≤ L.length ∧ W L sr rk [] (k0 + 1) l e)
        (HT.pre_pure (fun hk2 => ?_)) ?_
      · refine QW.bindSame (w_discardUntil (by omega) _) (fun _ => ?_)
        refine QW.bindSame (getc_keep _) (fun _ => ?_)
        refine HT.bind (HT.pre (recordpos1_w (fun _ => True)) (fun l e h => ⟨h, True.intro⟩))
          (fun _ => ?_)
        refine HT.pre_exists (fun i => HT.pre_pure (fun hi => ?_))
        obtain ⟨_, hi1, hi2⟩ := hi
        have hfa : f ≤ i - 1 := by omega
        have ha : i - 1 + 1 ≤ L.length := by omega
        have hii : i = i - 1 + 1 := by omega
        generalize i - 1 = a at hfa ha hii
        subst hii
        refine HT.ite (fun _ => ?_) (fun h => absurd rfl h)
        q_leaf
      · intro l e h
        obtain ⟨hw, hs, _⟩ := h
        obtain ⟨c1, c2⟩ := hs '#' rfl
        have := hnl _ _ c2 (by decide)
        exact ⟨by omega, W.raise hw c1⟩
    · refine HT.bind (HT.pre (recordpos1_w (fun i => k0 + 1 ≤ i ∧ L[i - 1]? = some ch))
        (fun l e h => ⟨h.1, h.2.1 ch rfl⟩)) (fun _ => ?_)
      refine HT.pre_exists (fun i => HT.pre_pure (fun hi => ?_))
      obtain ⟨⟨hi0, hich⟩, hi1, hi2⟩ := hi
      have hlt : i - 1 < L.length := (List.getElem?_eq_some_iff.mp hich).1
      have hfa : f ≤ i - 1 := by omega
      have ha : i - 1 + 1 ≤ L.length := by omega
      have hii : i = i - 1 + 1 := by omega
      generalize i - 1 = a at hfa ha hii hich hlt
      subst hii
      refine HT.ite (fun _ => ?_) (fun hnln => ?_)
      · q_leaf
      have hne : ch ≠ '\n' := by intro hx; rw [hx] at hnln; exact hnln rfl
      have ha2 : a + 2 ≤ L.length := hnl _ _ hich hne
      q_walk

end Bashlex.C03.Tok
