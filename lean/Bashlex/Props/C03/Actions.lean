/-
  C03, part 5: one lemma per action function of parser.py: from arguments occupying consecutive
  intervals between `f` and `g` (fine trees, ordered, disjoint) the action builds a value that
  is fine and occupies `[f, g]`.
-/
import Bashlex.Props.C03.Vals

namespace Bashlex.C03
open Bashlex Bashlex.Spec Bashlex.Node Bashlex.M Bashlex.LR Bashlex.C12
set_option linter.unusedSimpArgs false
set_option linter.unusedVariables false

/-- the result of an action: a value occupying `[f, g]`, fresh with respect to the store,
    no YaccAccept -/
def Res (len f g : Nat) (st : List RedirCell) (r : SVal × Bool) : Prop :=
  ValInV true len f r.1 g ∧ Fresh len st r.1 ∧ r.2 = false

theorem fresh_node {len : Nat} {st : List RedirCell} {n : Node} (h : FreshT len st n) :
    Fresh len st (.node n) := by
  intro m hm; simp [svNodes] at hm; subst hm; exact h

theorem fresh_nodes {len : Nat} {st : List RedirCell} {l : List Node} (h : ∀ n ∈ l, FreshT len st n) :
    Fresh len st (.nodes l) := fun n hn => h n hn

theorem fresh_none {len : Nat} {st : List RedirCell} : Fresh len st .none := by
  intro m hm; simp [svNodes] at hm

theorem fresh_tok {len : Nat} {st : List RedirCell} {t : Token} : Fresh len st (.tok t) := by
  intro m hm; simp [svNodes] at hm

theorem Fresh.node {len : Nat} {st : List RedirCell} {n : Node} (h : Fresh len st (.node n)) :
    FreshT len st n := h n (by simp [svNodes])

theorem Fresh.nodes {len : Nat} {st : List RedirCell} {l : List Node} (h : Fresh len st (.nodes l)) :
    ∀ n ∈ l, FreshT len st n := fun n hn => h n hn

theorem res_node {len f g : Nat} {st : List RedirCell} {n : Node} (h : NodeIn len f n g)
    (hf : FreshT len st n) : Res len f g st (.node n, false) := ⟨h, fresh_node hf, rfl⟩

theorem res_nodes {len f g : Nat} {st : List RedirCell} {l : List Node} (hne : l ≠ [])
    (h : ListIn len f l g) (hf : ∀ n ∈ l, FreshT len st n) : Res len f g st (.nodes l, false) :=
  ⟨⟨hne, h⟩, fresh_nodes hf, rfl⟩

theorem res_none {len f g : Nat} {st : List RedirCell} (h : f ≤ g) : Res len f g st (.none, false) :=
  ⟨h, fresh_none, rfl⟩

theorem segV_2 {s : Bool} {len f g : Nat} {a b : SVal} (h : SegV s len f [a, b] g) :
    ∃ m, ValInV s len f a m ∧ ValInV s len m b g := by
  obtain ⟨m, h1, h2⟩ := h
  exact ⟨m, h1, segV_single.mp h2⟩

theorem segV_3 {s : Bool} {len f g : Nat} {a b c : SVal} (h : SegV s len f [a, b, c] g) :
    ∃ m1 m2, ValInV s len f a m1 ∧ ValInV s len m1 b m2 ∧ ValInV s len m2 c g := by
  obtain ⟨m, h1, h2⟩ := h
  obtain ⟨m2, h3, h4⟩ := segV_2 h2
  exact ⟨m, m2, h1, h3, h4⟩

theorem segV_4 {s : Bool} {len f g : Nat} {a b c d : SVal} (h : SegV s len f [a, b, c, d] g) :
    ∃ m1 m2 m3, ValInV s len f a m1 ∧ ValInV s len m1 b m2 ∧ ValInV s len m2 c m3 ∧
      ValInV s len m3 d g := by
  obtain ⟨m, h1, h2⟩ := h
  obtain ⟨m2, m3, h3, h4, h5⟩ := segV_3 h2
  exact ⟨m, m2, m3, h1, h3, h4, h5⟩

theorem segV_5 {s : Bool} {len f g : Nat} {a b c d e : SVal} (h : SegV s len f [a, b, c, d, e] g) :
    ∃ m1 m2 m3 m4, ValInV s len f a m1 ∧ ValInV s len m1 b m2 ∧ ValInV s len m2 c m3 ∧
      ValInV s len m3 d m4 ∧ ValInV s len m4 e g := by
  obtain ⟨m, h1, h2⟩ := h
  obtain ⟨m2, m3, m4, h3, h4, h5, h6⟩ := segV_4 h2
  exact ⟨m, m2, m3, m4, h1, h3, h4, h5, h6⟩

/-! ## more constructors -/

/-- a node with the same span and children as a fine node -/
theorem nodeIn_same {len f g : Nat} {P P' : Node} (h : NodeIn len f P g)
    (hpos : P'.pos = P.pos) (hch : P'.children = P.children)
    (hsp : spansItsParts P' = spansItsParts P) (hd : isD19 P' = isD19 P)
    (hrw : isRW P' = isRW P) (hsh : pendShape P')
    (hds : descends P' = descends P := by rfl) : NodeIn len f P' g := by
  have hs := strict_iff.mp h.strict
  have ht : tainted P' = tainted P := by
    rw [Bool.eq_iff_iff, tainted_iff, tainted_iff, hd, hch]
  have hsl : SealedAll P' := by
    have h0 := sealedAll_iff.mp h.sld
    rw [sealedAll_iff]
    refine ⟨?_, by rw [hch]; exact h0.2⟩
    intro hd' c hc
    rw [hds] at hd'
    rw [hch] at hc
    exact h0.1 hd' c hc
  refine ⟨strict_mk ?_ (by rw [hch]; exact hs.2), ?_, h.le, by rw [ht, hpos]; exact h.root, ?_, h.fl,
    hsl⟩
  · rcases hs.1 with h1 | h1 | h1
    · exact Or.inl (by rw [ht]; exact h1)
    · refine Or.inr (Or.inl ⟨by rw [hpos]; exact h1.ne, by rw [hpos]; exact h1.rng,
        by rw [hch]; exact h1.kne, by rw [hch, hpos]; exact h1.kin, by rw [hch]; exact h1.ord, ?_,
        by rw [hch, hpos]; exact h1.kst⟩)
      rw [hsp, hch, hpos]; exact h1.fl
    · exact Or.inr (Or.inr ⟨by rw [hrw]; exact h1.1, by rw [hpos]; exact h1.2⟩)
  · rw [endsBy_iff, hpos, hch]; exact endsBy_iff.mp h.ends
  · rw [pendAll_iff, hch]; exact ⟨hsh, (pendAll_iff.mp h.pend).2⟩

theorem noPend_same {P P' : Node} (h : NoPend P) (hch : P'.children = P.children)
    (hp : pendOf P' = none) : NoPend P' := by
  rw [noPend_iff, hch]; exact ⟨hp, (noPend_iff.mp h).2⟩

theorem freshT_same {len : Nat} {st : List RedirCell} {P P' : Node} (h : FreshT len st P)
    (hch : P'.children = P.children) (hp : pendOf P' = none) : FreshT len st P' := by
  rw [freshT_iff, hch]
  exact ⟨(by intro id p hx; rw [hp] at hx; cases hx), (freshT_iff.mp h).2⟩

/-- a node around one child (a redirect around its target, a substitution around its command) -/
theorem nodeIn_wrap {len f g a b : Nat} {P w : Node} (hch : P.children = [w])
    (hpos : P.pos = (a, b)) (hw : NodeIn len a w b) (hfa : f ≤ a) (hab : a < b) (hbg : b ≤ g)
    (hbl : b ≤ len) (hsp : spansItsParts P = false) (hsh : pendShape P) (hwp : NoPend w) :
    NodeIn len f P g := by
  have hsl : SealedAll P := by
    rw [sealedAll_iff]
    refine ⟨?_, ?_⟩
    · intro _ c hc; rw [hch] at hc; simp at hc; subst hc; exact hwp
    · intro c hc; rw [hch] at hc; simp at hc; subst hc; exact hw.sld
  have hends : EndsBy g P := by
    rw [endsBy_iff, hch, hpos]
    refine ⟨hbg, ?_⟩
    intro c hc; simp at hc; subst hc; exact hw.ends.mono hbg
  have hpend : PendAll P := by
    rw [pendAll_iff, hch]
    refine ⟨hsh, ?_⟩
    intro c hc; simp at hc; subst hc; exact hw.pend
  have hkids : ∀ c, c ∈ P.children → Strict len c := by
    rw [hch]; intro c hc; simp at hc; subst hc; exact hw.strict
  cases ht : tainted P with
  | true => exact ⟨strict_mk (Or.inl ht) hkids, hends, by omega, Or.inl ht, hpend, by omega, hsl⟩
  | false =>
    have hwt : tainted w = false := untainted_child (by rw [hch]; simp) ht
    have hws := hw.start hwt
    have hwe := hw.end_le
    have hloc : LocOK len P := by
      refine ⟨by rw [hpos]; exact hab, by rw [hpos]; exact hbl, ?_, ?_, by rw [hch]; rfl, ?_, ?_⟩
      · rw [hch]; intro c hc; simp at hc; subst hc; exact hws.2
      · rw [hch, hpos]; intro c hc _; simp at hc; subst hc; exact ⟨hws.1, Or.inl hwe⟩
      · intro h; rw [hsp] at h; cases h
      · rw [hch, hpos]; intro c hc; simp at hc; subst hc; exact hws.1
    exact ⟨strict_mk (Or.inr (Or.inl hloc)) hkids, hends, by omega,
      Or.inr (by rw [hpos]; exact ⟨hfa, hab⟩), hpend, by omega, hsl⟩

section
variable {TI : Nat → Nat → Local → Env → Prop} {len F f g : Nat} {st : List RedirCell}

local notation "PP" => StP TI len F st

theorem keeps_optProceed : Keeps PP optProceed (fun _ => True) := by
  unfold optProceed
  refine Keeps.bind Keeps.get ?_
  intro l _
  cases l.opts with
  | none =>
    simp only []
    intro l0 e0 hp
    rw [run_ask]
    exact ⟨hp, trivial⟩
  | some sp => obtain ⟨s, p⟩ := sp; exact Keeps.pure trivial

/-! ## `_makeparts` -/

theorem keeps_makeparts {np : NestedParse} (hW : WordSat PP np len) :
    ∀ {args : List SVal}, SegV true len f args g → (∀ v ∈ args, Fresh len st v) →
    Keeps PP (makeparts ⟨np, args⟩)
      (fun parts => ListIn len f parts g ∧ ∀ n ∈ parts, FreshT len st n) := by
  intro args hseg hfr
  unfold makeparts
  simp only [bind_pure]
  refine Keeps.forIn_list
    (I := fun rest acc => ∃ m, ListIn len f acc m ∧ SegV true len m rest g ∧
      (∀ n ∈ acc, FreshT len st n) ∧ (∀ v ∈ rest, Fresh len st v)) ?_ ?_ args []
    ⟨f, Nat.le_refl f, hseg, (by intro n hn; cases hn), hfr⟩
  · rintro a rest acc ⟨m, hacc, hrest, hfa, hfrest⟩
    obtain ⟨m', ha, hrest'⟩ := hrest
    have hfr' : ∀ v ∈ rest, Fresh len st v := fun v hv => hfrest v (List.mem_cons_of_mem _ hv)
    have hfa0 := hfrest a List.mem_cons_self
    split
    · rename_i n
      refine Keeps.pure ⟨m', ListIn.snoc hacc ha, hrest', ?_, hfr'⟩
      intro k hk
      rcases List.mem_append.mp hk with hk | hk
      · exact hfa k hk
      · simp at hk; subst hk; exact hfa0.node
    · rename_i l
      refine Keeps.pure ⟨m', ListIn.append hacc ha.2, hrest', ?_, hfr'⟩
      intro k hk
      rcases List.mem_append.mp hk with hk | hk
      · exact hfa k hk
      · exact hfa0.nodes k hk
    · rename_i t
      split
      · refine Keeps.bind (hW t) (fun w hw => ?_)
        obtain ⟨hn, hp⟩ := hw.nodeIn ha rfl
        refine Keeps.pure ⟨m', ListIn.snoc hacc hn, hrest', ?_, hfr'⟩
        intro k hk
        rcases List.mem_append.mp hk with hk | hk
        · exact hfa k hk
        · simp at hk; subst hk; exact hp.fresh
      · obtain ⟨hn, hp⟩ := nodeIn_reservedword (w := tvalStr t.value) ha
        refine Keeps.pure ⟨m', ListIn.snoc hacc hn, hrest', ?_, hfr'⟩
        intro k hk
        rcases List.mem_append.mp hk with hk | hk
        · exact hfa k hk
        · simp at hk; subst hk; exact hp.fresh
    · refine Keeps.pure ⟨m', ?_, hrest', hfa, hfr'⟩
      have : m ≤ m' := ha
      exact ListIn.mono hacc (Nat.le_refl _) this
  · rintro acc ⟨m, hacc, hrest, hfa, _⟩
    have : m ≤ g := hrest
    exact ⟨ListIn.mono hacc (Nat.le_refl _) this, hfa⟩

/-- a parent spanning `parts` first-to-last, with `_partsspan` -/
theorem keeps_parent {parts : List Node} (mk : Span → Node)
    (hch : ∀ sp, (mk sp).children = parts) (hpos : ∀ sp, (mk sp).pos = sp)
    (hsh : ∀ sp, pendOf (mk sp) = none)
    (hl : ListIn len f parts g) (hfr : ∀ n ∈ parts, FreshT len st n)
    (hds : ∀ sp, descends (mk sp) = true := by intro _; rfl) :
    Keeps PP (partsspan parts) (fun sp => NodeIn len f (mk sp) g ∧ FreshT len st (mk sp)) := by
  refine (keeps_partsspan hfr).weaken ?_
  rintro sp ⟨a, b, ha, hb, rfl⟩
  refine ⟨mkParent (hch _) hl ha hb (hpos _) (pendShape_of_none (hsh _)) (hds _), ?_⟩
  exact freshT_mk (hsh _) (by rw [hch]; exact hfr)

/-! ## `addRedirects` (p_command, p_function_body) -/

theorem getLast?_append_ne {α} {a b : List α} (h : b ≠ []) : (a ++ b).getLast? = b.getLast? := by
  cases b with
  | nil => exact absurd rfl h
  | cons x xs =>
    rw [List.getLast?_append]
    cases hx : (x :: xs).getLast? with
    | none => simp at hx
    | some y => rfl

theorem nodeIn_addRedirects {pos : Span} {l r reds : List Node} {m : Nat} {last : Node}
    (hn : NodeIn len f (.compound pos l r) m) (hr : ListIn len m reds g) (hne : reds ≠ [])
    (hlast : reds.getLast? = some last) (hlt : pos.1 < last.pos.2) :
    NodeIn len f (.compound (pos.1, last.pos.2) l (r ++ reds)) g := by
  have hmem := ListIn.mem hr
  have hlm : last ∈ reds := List.mem_of_getLast? hlast
  have hns := strict_iff.mp hn.strict
  have hkids : ∀ c, c ∈ (Node.compound (pos.1, last.pos.2) l (r ++ reds)).children → Strict len c := by
    intro c hc
    simp only [children, List.mem_append] at hc
    rcases hc with hc | hc | hc
    · exact hns.2 c (by simp [children, hc])
    · exact hns.2 c (by simp [children, hc])
    · exact (hmem c hc).strict
  have hends : EndsBy g (.compound (pos.1, last.pos.2) l (r ++ reds)) := by
    rw [endsBy_iff]
    refine ⟨(hmem last hlm).end_le, ?_⟩
    intro c hc
    simp only [children, List.mem_append] at hc
    have hmg : m ≤ g := ListIn.le hr
    rcases hc with hc | hc | hc
    · exact ((endsBy_iff.mp hn.ends).2 c (by simp [children, hc])).mono hmg
    · exact ((endsBy_iff.mp hn.ends).2 c (by simp [children, hc])).mono hmg
    · exact (hmem c hc).ends
  have hpend : PendAll (.compound (pos.1, last.pos.2) l (r ++ reds)) := by
    rw [pendAll_iff]
    refine ⟨trivial, ?_⟩
    intro c hc
    simp only [children, List.mem_append] at hc
    rcases hc with hc | hc | hc
    · exact (pendAll_iff.mp hn.pend).2 c (by simp [children, hc])
    · exact (pendAll_iff.mp hn.pend).2 c (by simp [children, hc])
    · exact (hmem c hc).pend
  have hle : f ≤ g := by have := hn.le; have := ListIn.le hr; omega
  have hsl : SealedAll (.compound (pos.1, last.pos.2) l (r ++ reds)) := by
    rw [sealedAll_iff]
    refine ⟨sealed_of_desc rfl, ?_⟩
    intro c hc
    simp only [children, List.mem_append] at hc
    rcases hc with hc | hc | hc
    · exact (sealedAll_iff.mp hn.sld).2 c (by simp [children, hc])
    · exact (sealedAll_iff.mp hn.sld).2 c (by simp [children, hc])
    · exact (hmem c hc).sld
  cases ht : tainted (.compound (pos.1, last.pos.2) l (r ++ reds)) with
  | true => exact ⟨strict_mk (Or.inl ht) hkids, hends, hle, Or.inl ht, hpend, hn.fl, hsl⟩
  | false =>
    have hkt : ∀ c, c ∈ l ++ r ++ reds → tainted c = false := by
      intro c hc
      exact untainted_child (by simpa [children, List.append_assoc] using hc) ht
    have hnt : tainted (.compound pos l r) = false := by
      cases hx : tainted (.compound pos l r) with
      | false => rfl
      | true =>
        rw [tainted_iff] at hx
        rcases hx with hx | ⟨c, hc, hct⟩
        · simp [isD19] at hx
        · simp only [children] at hc
          rw [hkt c (List.mem_append_left reds hc)] at hct
          cases hct
    have hloc : LocOK len (.compound pos l r) := by
      rcases hns.1 with h | h | h
      · rw [h] at hnt; cases hnt
      · exact h
      · exact absurd h.1 (by simp [isRW])
    have hroot := hn.start hnt
    have hut : ∀ n ∈ reds, tainted n = false := fun n hn => hkt n (by simp [hn])
    obtain ⟨hord, hb2⟩ := ListIn.untainted hr hut
    obtain ⟨a, ha⟩ : ∃ a, reds.head? = some a := by
      cases reds with
      | nil => exact absurd rfl hne
      | cons x xs => exact ⟨x, rfl⟩
    obtain ⟨h1, h2, h3⟩ := hb2 a last ha hlast
    have hne' : pos.1 < pos.2 := hloc.ne
    have hroot : f ≤ pos.1 ∧ pos.1 < pos.2 := hroot
    have hpm : pos.2 ≤ m := hn.end_le
    have hold : ∀ c, c ∈ l ++ r → c.pos.2 ≤ m := by
      intro c hc
      exact ((endsBy_iff.mp hn.ends).2 c (by simpa [children] using hc)).root
    have hloc' : LocOK len (.compound (pos.1, last.pos.2) l (r ++ reds)) := by
      refine ⟨hlt, (hmem last hlm).rng (hut last hlm), ?_, ?_, ?_, ?_, ?_⟩
      · intro c hc
        simp only [children, ← List.append_assoc, List.mem_append] at hc
        rcases hc with hc | hc
        · exact hloc.kne c (by simpa [children, List.mem_append] using hc)
        · exact (h3 c hc).2.1
      · intro c hc hh
        simp only [children, ← List.append_assoc, List.mem_append] at hc
        show pos.1 ≤ c.pos.1 ∧ (c.pos.2 ≤ last.pos.2 ∨ _)
        rcases hc with hc | hc
        · have hc' : c ∈ l ++ r := by simpa [List.mem_append] using hc
          obtain ⟨k1, _⟩ := hloc.kin c (by simpa [children] using hc') hh
          have k1' : pos.1 ≤ c.pos.1 := k1
          refine ⟨k1', Or.inl ?_⟩
          have := hold c hc'
          have := (h3 a (List.mem_of_mem_head? ha))
          omega
        · have := h3 c hc
          exact ⟨by omega, Or.inl this.2.2⟩
      · simp only [children, ← List.append_assoc]
        refine ordered_append hloc.ord hord ?_
        intro x hx y hy
        have := hold x hx
        have := h3 y hy
        omega
      · intro h; simp [spansItsParts] at h
      · intro c hc
        simp only [children, ← List.append_assoc, List.mem_append] at hc
        show pos.1 ≤ c.pos.1
        rcases hc with hc | hc
        · have hc' : c ∈ l ++ r := by simpa [List.mem_append] using hc
          exact hloc.kst c (by simpa [children] using hc')
        · have := h3 c hc
          have := (h3 a (List.mem_of_mem_head? ha))
          omega
    exact ⟨strict_mk (Or.inr (Or.inl hloc')) hkids, hends, hle, Or.inr ⟨hroot.1, hlt⟩, hpend, hn.fl,
      hsl⟩

theorem keeps_addRedirects {n : Node} {reds : List Node} {m : Nat} (hn : NodeIn len f n m)
    (hfn : FreshT len st n) (hr : ListIn len m reds g) (hne : reds ≠ [])
    (hfr : ∀ r ∈ reds, FreshT len st r) :
    Keeps PP (addRedirects n reds) (fun n' => NodeIn len f n' g ∧ FreshT len st n') := by
  unfold addRedirects
  refine Keeps.bind (keeps_handleAssert _) (fun u hu => ?_)
  split
  · rename_i pos l r
    simp only []
    cases hl : (r ++ reds).getLast? with
    | none => exact Keeps.foreign trivial
    | some last =>
      simp only []
      rw [getLast?_append_ne hne] at hl
      have hlm : last ∈ reds := List.mem_of_getLast? hl
      refine Keeps.bind (keeps_nodePos_fresh (hfr last hlm)) (fun sp hsp => ?_)
      subst hsp
      refine Keeps.bind (keeps_handleAssert _) (fun _ hlt => ?_)
      simp only [decide_eq_true_eq] at hlt
      refine Keeps.pure ⟨nodeIn_addRedirects hn hr hne hl hlt, ?_⟩
      refine freshT_mk rfl ?_
      intro c hc
      simp only [children, List.mem_append] at hc
      rcases hc with hc | hc | hc
      · exact (freshT_iff.mp hfn).2 c (by simp [children, hc])
      · exact (freshT_iff.mp hfn).2 c (by simp [children, hc])
      · exact hfr c hc
  · exact Keeps.foreign trivial

/-! ## the actions -/

theorem sp_word_list {np : NestedParse} {sorts : List Srt} {args : List SVal} {σ : Srt}
    (hW : WordSat PP np len) (h : absAction "p_word_list" sorts = some σ)
    (ha : Forall2 HasSort sorts args) (hseg : SegV true len f args g)
    (hfr : ∀ v ∈ args, Fresh len st v) :
    Keeps PP (actionCore np "p_word_list" args) (Res len f g st) := by
  unfold absAction at h; simp only [] at h
  split at h
  · cases h
    obtain ⟨a, rfl, ⟨t, rfl, -, -⟩⟩ := forall2_1 ha
    unfold actionCore; simp only []
    simp [PCtx.len, PCtx.tokAt, PCtx.slice]
    have ht : TokInV true len f t g := segV_single.mp hseg
    refine Keeps.map ((hW t).weaken (fun w hw => ?_))
    obtain ⟨hn, hp⟩ := hw.nodeIn ht rfl
    exact res_nodes (by simp) (listIn_single.mpr hn) (by intro n hn'; simp at hn'; subst hn'; exact hp.fresh)
  · cases h
    obtain ⟨a, b, rfl, ⟨l, rfl, hl⟩, ⟨t, rfl, -, -⟩⟩ := forall2_2 ha
    unfold actionCore; simp only []
    simp [PCtx.len, PCtx.tokAt, PCtx.slice, PCtx.nodesAt]
    obtain ⟨m, h1, h2⟩ := segV_2 hseg
    have hfl := (hfr (.nodes l) (by simp)).nodes
    refine Keeps.map ((hW t).weaken (fun w hw => ?_))
    obtain ⟨hn, hp⟩ := hw.nodeIn h2 rfl
    refine res_nodes (by simp) (ListIn.snoc h1.2 hn) ?_
    intro n hn'
    rcases List.mem_append.mp hn' with hn' | hn'
    · exact hfl n hn'
    · simp at hn'; subst hn'; exact hp.fresh
  · cases h

theorem sp_redirection_list {np : NestedParse} {sorts : List Srt} {args : List SVal} {σ : Srt}
    (h : absAction "p_redirection_list" sorts = some σ)
    (ha : Forall2 HasSort sorts args) (hseg : SegV true len f args g)
    (hfr : ∀ v ∈ args, Fresh len st v) :
    Keeps PP (actionCore np "p_redirection_list" args) (Res len f g st) := by
  unfold absAction at h; simp only [] at h
  split at h
  · cases h
    obtain ⟨a, rfl, ⟨n, rfl, -⟩⟩ := forall2_1 ha
    unfold actionCore; simp only []
    simp [PCtx.len, PCtx.nodeAt, PCtx.slice]
    have hn : NodeIn len f n g := segV_single.mp hseg
    have hfn := (hfr (.node n) (by simp)).node
    exact Keeps.pure (res_nodes (by simp) (listIn_single.mpr hn)
      (by intro k hk; simp at hk; subst hk; exact hfn))
  · cases h
    obtain ⟨a, b, rfl, ⟨l, rfl, -⟩, ⟨n, rfl, -⟩⟩ := forall2_2 ha
    unfold actionCore; simp only []
    simp [PCtx.len, PCtx.nodeAt, PCtx.slice, PCtx.nodesAt]
    obtain ⟨m, h1, h2⟩ := segV_2 hseg
    have hfl := (hfr (.nodes l) (by simp)).nodes
    have hfn := (hfr (.node n) (by simp)).node
    refine Keeps.pure (res_nodes (by simp) (ListIn.snoc h1.2 h2) ?_)
    intro k hk
    rcases List.mem_append.mp hk with hk | hk
    · exact hfl k hk
    · simp at hk; subst hk; exact hfn
  · cases h

theorem sp_simple_command {np : NestedParse} {sorts : List Srt} {args : List SVal} {σ : Srt}
    (h : absAction "p_simple_command" sorts = some σ)
    (ha : Forall2 HasSort sorts args) (hseg : SegV true len f args g)
    (hfr : ∀ v ∈ args, Fresh len st v) :
    Keeps PP (actionCore np "p_simple_command" args) (Res len f g st) := by
  unfold absAction at h; simp only [] at h
  split at h
  · cases h
    obtain ⟨a, rfl, ⟨l, rfl, -⟩⟩ := forall2_1 ha
    unfold actionCore; simp only []
    simp [PCtx.len, PCtx.slice]
    exact Keeps.pure ⟨segV_single.mp hseg, hfr (.nodes l) (by simp), rfl⟩
  · cases h
    obtain ⟨a, b, rfl, ⟨l, rfl, -⟩, ⟨r, rfl, -⟩⟩ := forall2_2 ha
    unfold actionCore; simp only []
    simp [PCtx.len, PCtx.slice, PCtx.nodesAt]
    obtain ⟨m, h1, h2⟩ := segV_2 hseg
    have hfl := (hfr (.nodes l) (by simp)).nodes
    have hfrr := (hfr (.nodes r) (by simp)).nodes
    refine Keeps.pure (res_nodes (by simp [h1.1]) (ListIn.append h1.2 h2.2) ?_)
    intro k hk
    rcases List.mem_append.mp hk with hk | hk
    · exact hfl k hk
    · exact hfrr k hk
  · cases h

theorem nodeIn_assignment {p : Span} {s : Str} {ps : List Node}
    (h : NodeIn len f (.word p s ps) g) : NodeIn len f (.assignment p s ps) g :=
  nodeIn_same h rfl rfl rfl rfl rfl trivial

theorem sp_simple_command_element {np : NestedParse} {sorts : List Srt} {args : List SVal} {σ : Srt}
    (hW : WordSat PP np len) (h : absAction "p_simple_command_element" sorts = some σ)
    (ha : Forall2 HasSort sorts args) (hseg : SegV true len f args g)
    (hfr : ∀ v ∈ args, Fresh len st v) :
    Keeps PP (actionCore np "p_simple_command_element" args) (Res len f g st) := by
  unfold absAction at h; simp only [] at h
  split at h
  · cases h
    obtain ⟨a, rfl, ⟨n, rfl, -⟩⟩ := forall2_1 ha
    unfold actionCore; simp only []
    simp [PCtx.slice]
    have hn : NodeIn len f n g := segV_single.mp hseg
    have hfn := (hfr (.node n) (by simp)).node
    exact Keeps.pure (res_nodes (by simp) (listIn_single.mpr hn)
      (by intro k hk; simp at hk; subst hk; exact hfn))
  · cases h
    obtain ⟨a, rfl, ⟨t, rfl, -, -⟩⟩ := forall2_1 ha
    unfold actionCore; simp only []
    simp [PCtx.slice, PCtx.tokAt]
    have ht : TokInV true len f t g := segV_single.mp hseg
    refine Keeps.bind (hW t) (fun w hw => ?_)
    obtain ⟨hn, hp⟩ := hw.nodeIn ht rfl
    have hword : Res len f g st (.nodes [w], false) :=
      res_nodes (by simp) (listIn_single.mpr hn) (by intro k hk; simp at hk; subst hk; exact hp.fresh)
    split
    · split
      · rename_i pos s parts
        refine Keeps.pure (res_nodes (by simp) (listIn_single.mpr (nodeIn_assignment hn)) ?_)
        intro k hk; simp at hk; subst hk
        exact (noPend_same (P' := .assignment pos s parts) hp rfl rfl).fresh
      · exact Keeps.pure hword
    · exact Keeps.pure hword
  · cases h

theorem nodeIn_redirect {i : RedirIn} {ty : Str} {oa : RedirIn} {t o : Token} {m : Nat}
    {out : Option Node} (ht : TokInV true len f t m) (ho : TokInV true len m o g)
    (hout : ∀ w, out = some w → WordAt len o w) :
    NodeIn len f (.redirect (t.lexpos, o.endlexpos) i ty out oa none none) g ∧
      NoPend (.redirect (t.lexpos, o.endlexpos) i ty out oa none none) := by
  obtain ⟨a, b, hp, ha, hab, hb, hr⟩ := ht
  obtain ⟨a', b', hp', ha', hab', hb', hr', hw'⟩ := ho
  rw [(tok_lexspan hp).1, (tok_lexspan hp').2]
  cases out with
  | none =>
    exact ⟨nodeIn_leaf rfl rfl rfl ha (show a < b' by omega) hb' (hr' rfl) trivial,
      noPend_leaf rfl rfl⟩
  | some w =>
    obtain ⟨hn, hnp⟩ := (hout w rfl).2 a' b' hp' hab' (hr' rfl)
    refine ⟨nodeIn_wrap (w := w) rfl rfl (hn.mono (by omega) (Nat.le_refl _)) ha (by omega) hb'
      (hr' rfl) rfl trivial hnp, ?_⟩
    rw [noPend_iff]
    refine ⟨rfl, ?_⟩
    intro c hc; simp [children] at hc; subst hc; exact hnp

theorem sp_redirection {np : NestedParse} {sorts : List Srt} {args : List SVal} {σ : Srt}
    (hW : WordSat PP np len) (h : absAction "p_redirection" sorts = some σ)
    (ha : Forall2 HasSort sorts args) (hseg : SegV true len f args g)
    (hfr : ∀ v ∈ args, Fresh len st v) :
    Keeps PP (actionCore np "p_redirection" args) (Res len f g st) := by
  unfold absAction at h; simp only [] at h
  split at h
  · split at h
    · rename_i hop
      cases h
      simp only [Bool.and_eq_true] at hop
      obtain ⟨a, b, rfl, hop', ho'⟩ := forall2_2 ha
      obtain ⟨t, ty, rfl, hty, hwf, hf⟩ := okTok_inv hop.1 hop'
      obtain ⟨o, tyo, rfl, htyo, hwfo, hfo⟩ := okTok_inv hop.2 ho'
      obtain ⟨m, h1, h2⟩ := segV_2 hseg
      unfold actionCore; simp only []
      simp [PCtx.len, PCtx.tokAt, PCtx.slice, PCtx.strAt, PCtx.lexspan, SVal.lexspan]
      split
      · refine Keeps.map ((hW o).weaken (fun w hw => ?_))
        obtain ⟨hn, hp⟩ := nodeIn_redirect (i := .none) (ty := t.valueStr) (oa := .none)
          (out := some w) h1 h2 (by intro w' hw'; cases hw'; exact hw)
        exact res_node hn hp.fresh
      · refine Keeps.pure ?_
        obtain ⟨hn, hp⟩ := nodeIn_redirect (i := .none) (ty := t.valueStr)
          (oa := match o.value with | .int k => RedirIn.num k | .str s => .str s | .none => .none)
          (out := none) h1 h2 (by intro w' hw'; cases hw')
        exact res_node hn hp.fresh
    · cases h
  · split at h
    · rename_i hop
      cases h
      simp only [Bool.and_eq_true] at hop
      obtain ⟨a, b, c, rfl, hin', hop', ho'⟩ := forall2_3 ha
      obtain ⟨ti, tyi, rfl, htyi, hwfi, hfi⟩ := okTok_inv hop.1.1 hin'
      obtain ⟨t, ty, rfl, hty, hwf, hf⟩ := okTok_inv hop.1.2 hop'
      obtain ⟨o, tyo, rfl, htyo, hwfo, hfo⟩ := okTok_inv hop.2 ho'
      obtain ⟨m1, m2, h1, h2, h3⟩ := segV_3 hseg
      have h1' : TokInV true len f ti m2 := ValInV.mono (v := .tok ti) h1 (Nat.le_refl _) (ValInV.le h2)
      unfold actionCore; simp only []
      simp [PCtx.len, PCtx.tokAt, PCtx.slice, PCtx.strAt, PCtx.lexspan, SVal.lexspan]
      split
      · refine Keeps.map ((hW o).weaken (fun w hw => ?_))
        obtain ⟨hn, hp⟩ := nodeIn_redirect
          (i := match ti.value with | .int k => RedirIn.num k | .str s => .str s | .none => .none)
          (ty := t.valueStr) (oa := .none)
          (out := some w) h1' h3 (by intro w' hw'; cases hw'; exact hw)
        exact res_node hn hp.fresh
      · refine Keeps.pure ?_
        obtain ⟨hn, hp⟩ := nodeIn_redirect
          (i := match ti.value with | .int k => RedirIn.num k | .str s => .str s | .none => .none)
          (ty := t.valueStr)
          (oa := match o.value with | .int k => RedirIn.num k | .str s => .str s | .none => .none)
          (out := none) h1' h3 (by intro w' hw'; cases hw')
        exact res_node hn hp.fresh
    · cases h
  · cases h

theorem sp_command {np : NestedParse} {sorts : List Srt} {args : List SVal} {σ : Srt}
    (h : absAction "p_command" sorts = some σ)
    (ha : Forall2 HasSort sorts args) (hseg : SegV true len f args g)
    (hfr : ∀ v ∈ args, Fresh len st v) :
    Keeps PP (actionCore np "p_command" args) (Res len f g st) := by
  unfold absAction at h; simp only [] at h
  split at h
  · split at h
    · cases h
      obtain ⟨a, rfl, ⟨n, rfl, -⟩⟩ := forall2_1 ha
      unfold actionCore; simp only []
      simp [PCtx.len, PCtx.slice]
      exact Keeps.pure ⟨segV_single.mp hseg, hfr (.node n) (by simp), rfl⟩
    · cases h
  · cases h
    obtain ⟨a, b, rfl, ⟨n, rfl, -⟩, ⟨r, rfl, -⟩⟩ := forall2_2 ha
    obtain ⟨m, h1, h2⟩ := segV_2 hseg
    unfold actionCore; simp only []
    simp [PCtx.len, PCtx.slice, PCtx.nodesAt]
    refine Keeps.map ((keeps_addRedirects h1 (hfr (.node n) (by simp)).node h2.2 h2.1
      (hfr (.nodes r) (by simp)).nodes).weaken (fun n' hn' => ?_))
    exact res_node hn'.1 hn'.2
  · cases h
    obtain ⟨a, rfl, ⟨l, rfl, -⟩⟩ := forall2_1 ha
    have hl : ValInV true len f (.nodes l) g := segV_single.mp hseg
    unfold actionCore; simp only []
    simp [PCtx.len, PCtx.slice, PCtx.nodesAt]
    refine Keeps.map ((keeps_parent (fun sp => Node.command sp l) (fun _ => rfl) (fun _ => rfl)
      (fun _ => rfl) hl.2 (hfr (.nodes l) (by simp)).nodes).weaken (fun sp hsp => ?_))
    exact res_node hsp.1 hsp.2
  · cases h

theorem sp_function_body {np : NestedParse} {sorts : List Srt} {args : List SVal} {σ : Srt}
    (h : absAction "p_function_body" sorts = some σ)
    (ha : Forall2 HasSort sorts args) (hseg : SegV true len f args g)
    (hfr : ∀ v ∈ args, Fresh len st v) :
    Keeps PP (actionCore np "p_function_body" args) (Res len f g st) := by
  unfold absAction at h; simp only [] at h
  split at h
  · cases h
    obtain ⟨a, rfl, ⟨n, rfl, -⟩⟩ := forall2_1 ha
    unfold actionCore; simp only []
    simp [PCtx.len, PCtx.slice, PCtx.nodeAt]
    refine Keeps.map ((keeps_handleAssert _).weaken (fun _ _ => ?_))
    exact ⟨segV_single.mp hseg, hfr (.node n) (by simp), rfl⟩
  · cases h
    obtain ⟨a, b, rfl, ⟨n, rfl, -⟩, ⟨r, rfl, -⟩⟩ := forall2_2 ha
    obtain ⟨m, h1, h2⟩ := segV_2 hseg
    unfold actionCore; simp only []
    simp [PCtx.len, PCtx.slice, PCtx.nodesAt, PCtx.nodeAt]
    refine Keeps.bind (keeps_handleAssert _) (fun _ _ => ?_)
    refine Keeps.map ((keeps_addRedirects h1 (hfr (.node n) (by simp)).node h2.2 h2.1
      (hfr (.nodes r) (by simp)).nodes).weaken (fun n' hn' => ?_))
    exact res_node hn'.1 hn'.2
  · cases h

/-- `compound sp [inner sp parts] []` with `sp = _partsspan(parts)` -/
theorem keeps_mkCompound1 {inner : Span → List Node → Node} {parts : List Node}
    (hch : ∀ sp, (inner sp parts).children = parts) (hpos : ∀ sp, (inner sp parts).pos = sp)
    (hp : ∀ sp, pendOf (inner sp parts) = none)
    (hl : ListIn len f parts g) (hfr : ∀ n ∈ parts, FreshT len st n)
    (hds : ∀ sp, descends (inner sp parts) = true := by intro _; rfl) :
    Keeps PP (mkCompound1 inner parts) (fun v => Res len f g st (v, false)) := by
  unfold mkCompound1
  refine Keeps.bind (keeps_parent (fun sp => inner sp parts) hch hpos hp hl hfr hds) (fun sp hsp => ?_)
  refine Keeps.pure ?_
  have hin := listIn_single.mpr hsp.1
  have hc : NodeIn len f (.compound sp [inner sp parts] []) g :=
    mkParent (P := .compound sp [inner sp parts] []) (l := [inner sp parts])
      (a := inner sp parts) (b := inner sp parts) rfl hin rfl rfl
      (by rw [hpos]; rfl) trivial
  refine res_node hc (freshT_mk rfl ?_)
  intro c hc'; simp [children] at hc'; subst hc'; exact hsp.2

theorem sp_if_command {np : NestedParse} {args : List SVal}
    (hW : WordSat PP np len) (hseg : SegV true len f args g)
    (hfr : ∀ v ∈ args, Fresh len st v) :
    Keeps PP (actionCore np "p_if_command" args) (Res len f g st) := by
  unfold actionCore; simp only []
  refine Keeps.bind (keeps_makeparts hW hseg hfr) (fun parts hparts => ?_)
  refine Keeps.bind (keeps_mkCompound1 (inner := .ifN) (fun _ => rfl) (fun _ => rfl) (fun _ => rfl)
    hparts.1 hparts.2) (fun v hv => Keeps.pure hv)

theorem sp_case_command {np : NestedParse} {args : List SVal}
    (hW : WordSat PP np len) (hseg : SegV true len f args g)
    (hfr : ∀ v ∈ args, Fresh len st v) :
    Keeps PP (actionCore np "p_case_command" args) (Res len f g st) := by
  unfold actionCore; simp only []
  refine Keeps.bind (keeps_makeparts hW hseg hfr) (fun parts hparts => ?_)
  refine Keeps.bind (keeps_mkCompound1 (inner := .caseN) (fun _ => rfl) (fun _ => rfl) (fun _ => rfl)
    hparts.1 hparts.2) (fun v hv => Keeps.pure hv)

theorem sp_shell_command {np : NestedParse} {sorts : List Srt} {args : List SVal} {σ : Srt}
    (hW : WordSat PP np len) (h : absAction "p_shell_command" sorts = some σ)
    (ha : Forall2 HasSort sorts args) (hseg : SegV true len f args g)
    (hfr : ∀ v ∈ args, Fresh len st v) :
    Keeps PP (actionCore np "p_shell_command" args) (Res len f g st) := by
  unfold absAction at h; simp only [] at h
  split at h
  · cases h
    obtain ⟨a, rfl, ⟨n, rfl, -⟩⟩ := forall2_1 ha
    unfold actionCore; simp only []
    simp [PCtx.len, PCtx.slice, PCtx.nodeAt]
    refine Keeps.map ((keeps_handleAssert _).weaken (fun _ _ => ?_))
    exact ⟨segV_single.mp hseg, hfr (.node n) (by simp), rfl⟩
  · split at h
    · rename_i hc
      cases h
      simp only [Bool.and_eq_true, bne_iff_ne, ne_eq] at hc
      have hlen : args.length ≠ 1 := by rw [← forall2_length ha]; exact hc.1
      unfold actionCore; simp only []
      have : ((PCtx.len ⟨np, args⟩ == 2) = false) := by simp [PCtx.len, hlen]
      simp only [this]
      refine Keeps.bind (keeps_makeparts hW hseg hfr) (fun parts hparts => ?_)
      split
      · refine Keeps.bind (keeps_partsspan hparts.2) (fun sp hsp => ?_)
        obtain ⟨a, b, ha', hb', rfl⟩ := hsp
        have mkc : ∀ (inner : Span → List Node → Node),
            (∀ sp, (inner sp parts).children = parts) → (∀ sp, (inner sp parts).pos = sp) →
            (∀ sp, pendOf (inner sp parts) = none) →
            (∀ sp, descends (inner sp parts) = true) →
            Res len f g st (.node (.compound (a.pos.1, b.pos.2) [inner (a.pos.1, b.pos.2) parts] []), false) := by
          intro inner hch hpos hp hds
          have hin : NodeIn len f (inner (a.pos.1, b.pos.2) parts) g :=
            mkParent (hch _) hparts.1 ha' hb' (hpos _) (pendShape_of_none (hp _)) (hds _)
          have hfi : FreshT len st (inner (a.pos.1, b.pos.2) parts) :=
            freshT_mk (hp _) (by rw [hch]; exact hparts.2)
          have hc' : NodeIn len f (.compound (a.pos.1, b.pos.2) [inner (a.pos.1, b.pos.2) parts] []) g :=
            mkParent (P := .compound (a.pos.1, b.pos.2) [inner (a.pos.1, b.pos.2) parts] [])
              (l := [inner (a.pos.1, b.pos.2) parts])
              (a := inner (a.pos.1, b.pos.2) parts) (b := inner (a.pos.1, b.pos.2) parts) rfl
              (listIn_single.mpr hin) rfl rfl (by rw [hpos]; rfl) trivial
          refine res_node hc' (freshT_mk rfl ?_)
          intro c hc''; simp [children] at hc''; subst hc''; exact hfi
        split
        · exact Keeps.pure (mkc .whileN (fun _ => rfl) (fun _ => rfl) (fun _ => rfl) (fun _ => rfl))
        · split
          · exact Keeps.pure (mkc .untilN (fun _ => rfl) (fun _ => rfl) (fun _ => rfl) (fun _ => rfl))
          · exact Keeps.foreign trivial
      · exact Keeps.foreign trivial
    · cases h

/-! ### `for`: the first `;` operator becomes a reserved word -/

theorem nodeIn_op_to_rw {pos : Span} {op w : Str} {f g : Nat}
    (h : NodeIn len f (.operator pos op) g) : NodeIn len f (.reservedword pos w) g := by
  have ht : tainted (.operator pos op) = false := rfl
  have hs := h.start ht
  have hr := h.rng ht
  exact nodeIn_leaf rfl rfl rfl hs.1 hs.2 h.end_le hr trivial

theorem fix_listIn : ∀ {l : List Node} {f g : Nat}, ListIn len f l g →
    ListIn len f (actionCore.fix l) g
  | [], _, _, h => h
  | n :: ns, f, g, h => by
    obtain ⟨m, h1, h2⟩ := h
    cases n with
    | operator pos op =>
      simp only [actionCore.fix]
      split
      · exact ⟨m, nodeIn_op_to_rw h1, h2⟩
      · exact ⟨m, h1, fix_listIn h2⟩
    | _ => exact ⟨m, h1, fix_listIn h2⟩

theorem fix_fresh : ∀ {l : List Node}, (∀ n ∈ l, FreshT len st n) →
    ∀ n ∈ actionCore.fix l, FreshT len st n
  | [], _ => by intro n hn; simp [actionCore.fix] at hn
  | n :: ns, h => by
    have ih := fix_fresh (l := ns) (fun k hk => h k (List.mem_cons_of_mem _ hk))
    cases n with
    | operator pos op =>
      simp only [actionCore.fix]
      split
      · intro k hk
        rcases List.mem_cons.mp hk with rfl | hk
        · exact (noPend_leaf rfl rfl).fresh
        · exact h k (List.mem_cons_of_mem _ hk)
      · intro k hk
        rcases List.mem_cons.mp hk with rfl | hk
        · exact h _ List.mem_cons_self
        · exact ih k hk
    | _ =>
      intro k hk
      simp only [actionCore.fix] at hk
      rcases List.mem_cons.mp hk with rfl | hk
      · exact h _ List.mem_cons_self
      · exact ih k hk

theorem sp_for_command {np : NestedParse} {args : List SVal}
    (hW : WordSat PP np len) (hseg : SegV true len f args g)
    (hfr : ∀ v ∈ args, Fresh len st v) :
    Keeps PP (actionCore np "p_for_command" args) (Res len f g st) := by
  unfold actionCore; simp only []
  refine Keeps.bind (keeps_makeparts hW hseg hfr) (fun parts hparts => ?_)
  refine Keeps.bind (keeps_mkCompound1 (inner := .forN) (fun _ => rfl) (fun _ => rfl) (fun _ => rfl)
    (fix_listIn hparts.1) (fix_fresh hparts.2)) (fun v hv => Keeps.pure hv)

theorem sp_function_def {np : NestedParse} {args : List SVal}
    (hW : WordSat PP np len) (hseg : SegV true len f args g)
    (hfr : ∀ v ∈ args, Fresh len st v) :
    Keeps PP (actionCore np "p_function_def" args) (Res len f g st) := by
  unfold actionCore; simp only []
  refine Keeps.bind (keeps_makeparts hW hseg hfr) (fun parts hparts => ?_)
  split
  · exact Keeps.foreign trivial
  · refine Keeps.bind (keeps_partsspan hparts.2) (fun sp hsp => Keeps.pure ?_)
    obtain ⟨a, b, ha', hb', rfl⟩ := hsp
    refine res_node (mkParent rfl hparts.1 ha' hb' rfl trivial) (freshT_mk rfl ?_)
    exact hparts.2

theorem keeps_notImplemented {np : NestedParse} {args : List SVal} {ty : String}
    (hW : WordSat PP np len) (hseg : SegV true len f args g)
    (hfr : ∀ v ∈ args, Fresh len st v) :
    Keeps PP (handleNotImplemented ⟨np, args⟩ ty) (fun v => Res len f g st (v, false)) := by
  unfold handleNotImplemented
  refine Keeps.bind keeps_optProceed (fun b _ => ?_)
  split
  · refine Keeps.bind (keeps_makeparts hW hseg hfr) (fun parts hparts => ?_)
    refine Keeps.bind (keeps_parent (fun sp => Node.unimplemented sp parts) (fun _ => rfl)
      (fun _ => rfl) (fun _ => rfl) hparts.1 hparts.2) (fun sp hsp => Keeps.pure ?_)
    exact res_node hsp.1 hsp.2
  · exact Keeps.raise trivial

theorem sp_arith_for_command {np : NestedParse} {args : List SVal}
    (hW : WordSat PP np len) (hseg : SegV true len f args g) (hfr : ∀ v ∈ args, Fresh len st v) :
    Keeps PP (actionCore np "p_arith_for_command" args) (Res len f g st) := by
  unfold actionCore; simp only []
  exact Keeps.bind (keeps_notImplemented hW hseg hfr) (fun v hv => Keeps.pure hv)

theorem sp_select_command {np : NestedParse} {args : List SVal}
    (hW : WordSat PP np len) (hseg : SegV true len f args g) (hfr : ∀ v ∈ args, Fresh len st v) :
    Keeps PP (actionCore np "p_select_command" args) (Res len f g st) := by
  unfold actionCore; simp only []
  exact Keeps.bind (keeps_notImplemented hW hseg hfr) (fun v hv => Keeps.pure hv)

theorem sp_coproc {np : NestedParse} {args : List SVal}
    (hW : WordSat PP np len) (hseg : SegV true len f args g) (hfr : ∀ v ∈ args, Fresh len st v) :
    Keeps PP (actionCore np "p_coproc" args) (Res len f g st) := by
  unfold actionCore; simp only []
  exact Keeps.bind (keeps_notImplemented hW hseg hfr) (fun v hv => Keeps.pure hv)

theorem sp_arith_command {np : NestedParse} {args : List SVal}
    (hW : WordSat PP np len) (hseg : SegV true len f args g) (hfr : ∀ v ∈ args, Fresh len st v) :
    Keeps PP (actionCore np "p_arith_command" args) (Res len f g st) := by
  unfold actionCore; simp only []
  exact Keeps.bind (keeps_notImplemented hW hseg hfr) (fun v hv => Keeps.pure hv)

theorem sp_cond_command {np : NestedParse} {args : List SVal}
    (hW : WordSat PP np len) (hseg : SegV true len f args g) (hfr : ∀ v ∈ args, Fresh len st v) :
    Keeps PP (actionCore np "p_cond_command" args) (Res len f g st) := by
  unfold actionCore; simp only []
  exact Keeps.bind (keeps_notImplemented hW hseg hfr) (fun v hv => Keeps.pure hv)

theorem sp_timespec {np : NestedParse} {args : List SVal}
    (hW : WordSat PP np len) (hseg : SegV true len f args g) (hfr : ∀ v ∈ args, Fresh len st v) :
    Keeps PP (actionCore np "p_timespec" args) (Res len f g st) := by
  unfold actionCore; simp only []
  exact Keeps.bind (keeps_notImplemented hW hseg hfr) (fun v hv => Keeps.pure hv)

theorem keeps_group {np : NestedParse} {sorts : List Srt} {args : List SVal} {σ : Srt}
    (h : absGroup sorts = some σ)
    (ha : Forall2 HasSort sorts args) (hseg : SegV true len f args g)
    (hfr : ∀ v ∈ args, Fresh len st v) :
    Keeps PP (do
      let p : PCtx := { np := np, args := args }
      let l ← reservedAt p 1
      let r ← reservedAt p 3
      let mid ← p.nodeAt 2 "_partsspan"
      let parts := [l, mid, r]
      pure (SVal.node (.compound (← partsspan parts) parts []), false)) (Res len f g st) := by
  unfold absGroup at h
  split at h
  · split at h
    · rename_i l c r hc
      cases h
      simp only [Bool.and_eq_true] at hc
      obtain ⟨a, b, d, rfl, hl', ⟨n, rfl, -⟩, hr'⟩ := forall2_3 ha
      obtain ⟨tl, tyl, rfl, -, -, -⟩ := okTok_inv hc.1.1 hl'
      obtain ⟨tr, tyr, rfl, -, -, -⟩ := okTok_inv hc.2 hr'
      obtain ⟨m1, m2, h1, h2, h3⟩ := segV_3 hseg
      simp [reservedAt, PCtx.strAt, PCtx.tokAt, PCtx.slice, PCtx.nodeAt, PCtx.lexspan, SVal.lexspan]
      obtain ⟨hn1, hp1⟩ := nodeIn_reservedword (w := tl.valueStr) h1
      obtain ⟨hn3, hp3⟩ := nodeIn_reservedword (w := tr.valueStr) h3
      have hfn := (hfr (.node n) (by simp)).node
      have hl : ListIn len f [.reservedword (tl.lexpos, tl.endlexpos) tl.valueStr, n,
          .reservedword (tr.lexpos, tr.endlexpos) tr.valueStr] g :=
        ⟨m1, hn1, m2, h2, listIn_single.mpr hn3⟩
      have hfp : ∀ k ∈ [Node.reservedword (tl.lexpos, tl.endlexpos) tl.valueStr, n,
          .reservedword (tr.lexpos, tr.endlexpos) tr.valueStr], FreshT len st k := by
        intro k hk
        simp only [List.mem_cons, List.not_mem_nil, or_false] at hk
        rcases hk with rfl | rfl | rfl
        · exact hp1.fresh
        · exact hfn
        · exact hp3.fresh
      refine Keeps.map ((keeps_partsspan hfp).weaken (fun sp hsp => ?_))
      obtain ⟨a, b, ha', hb', heq⟩ := hsp
      refine res_node (mkParent (by simp [children]) hl ha' hb' heq trivial) (freshT_mk rfl ?_)
      simpa [children] using hfp
    · cases h
  · cases h

theorem sp_subshell {np : NestedParse} {sorts : List Srt} {args : List SVal} {σ : Srt}
    (h : absAction "p_subshell" sorts = some σ)
    (ha : Forall2 HasSort sorts args) (hseg : SegV true len f args g)
    (hfr : ∀ v ∈ args, Fresh len st v) :
    Keeps PP (actionCore np "p_subshell" args) (Res len f g st) := by
  unfold absAction at h; simp only [] at h
  unfold actionCore; simp only []
  exact keeps_group h ha hseg hfr

theorem sp_group_command {np : NestedParse} {sorts : List Srt} {args : List SVal} {σ : Srt}
    (h : absAction "p_group_command" sorts = some σ)
    (ha : Forall2 HasSort sorts args) (hseg : SegV true len f args g)
    (hfr : ∀ v ∈ args, Fresh len st v) :
    Keeps PP (actionCore np "p_group_command" args) (Res len f g st) := by
  unfold absAction at h; simp only [] at h
  unfold actionCore; simp only []
  exact keeps_group h ha hseg hfr

/-- a value that is a node or a non-empty list of nodes -/
def nodeish : SVal → Prop
  | .node _ | .nodes _ => True
  | _ => False

theorem ListIn.fl'' {l : List Node} {f g : Nat} (h : ListIn len f l g) (hne : l ≠ []) : f ≤ len := by
  cases l with
  | nil => exact absurd rfl hne
  | cons n ns => obtain ⟨m, h1, _⟩ := h; exact h1.fl

/-- the left bound of a segment that ends in a node lies within the input -/
theorem segV_fl {s : Bool} : ∀ {xs : List SVal} {m g : Nat}, SegV s len m xs g →
    (∃ v, xs.getLast? = some v ∧ nodeish v) → m ≤ len
  | [], _, _, _, h => by obtain ⟨v, hv, _⟩ := h; simp at hv
  | [x], m, g, hs, h => by
    obtain ⟨v, hv, hn⟩ := h
    simp only [List.getLast?_singleton, Option.some.injEq] at hv
    subst hv
    have hx := segV_single.mp hs
    cases x with
    | node n => exact NodeIn.fl hx
    | nodes l => exact ListIn.fl'' hx.2 hx.1
    | none => cases hn
    | tok t => cases hn
  | x :: y :: rest, m, g, hs, h => by
    obtain ⟨m1, h1, h2⟩ := hs
    rw [List.getLast?_cons_cons] at h
    have := segV_fl h2 h
    have := h1.le
    omega

/-- `p_elif_clause` may be reduced by default (without a look-ahead): that its keyword tokens end
    within the input follows from the node that follows them -/
theorem sp_elif_clause {np : NestedParse} {args : List SVal}
    (hseg : SegV false len f args g) (hfr : ∀ v ∈ args, Fresh len st v)
    (hnn : ∀ v ∈ args, v ≠ SVal.none) (hlast : ∃ v, args.getLast? = some v ∧ nodeish v) :
    Keeps PP (actionCore np "p_elif_clause" args) (Res len f g st) := by
  have hne : args ≠ [] := by
    intro h; subst h; obtain ⟨v, hv, _⟩ := hlast; simp at hv
  unfold actionCore; simp only []
  refine Keeps.bind (Φ := fun parts => parts ≠ [] ∧ ListIn len f parts g ∧ ∀ n ∈ parts, FreshT len st n)
    ?_ (fun parts hparts => Keeps.pure (res_nodes hparts.1 hparts.2.1 hparts.2.2))
  refine Keeps.forIn_list
    (I := fun rest acc => ∃ m, ListIn len f acc m ∧ SegV false len m rest g ∧
      (∀ n ∈ acc, FreshT len st n) ∧ (∀ v ∈ rest, Fresh len st v ∧ v ≠ SVal.none) ∧
      (acc ≠ [] ∨ rest = args) ∧ ∃ done, args = done ++ rest) ?_ ?_ args []
    ⟨f, Nat.le_refl f, hseg, (by intro n hn; cases hn), fun v hv => ⟨hfr v hv, hnn v hv⟩, Or.inr rfl,
      [], rfl⟩
  · rintro a rest acc ⟨m, hacc, hrest, hfa, hfrest, hor, done, hdone⟩
    obtain ⟨m', ha, hrest'⟩ := hrest
    have hfr' : ∀ v ∈ rest, Fresh len st v ∧ v ≠ SVal.none :=
      fun v hv => hfrest v (List.mem_cons_of_mem _ hv)
    have hfa0 := hfrest a List.mem_cons_self
    have hdone' : ∃ done', args = done' ++ rest := ⟨done ++ [a], by simp [hdone]⟩
    split
    · rename_i n
      refine Keeps.pure ⟨m', ListIn.snoc hacc ha, hrest', ?_, hfr', Or.inl (by simp), hdone'⟩
      intro k hk
      rcases List.mem_append.mp hk with hk | hk
      · exact hfa k hk
      · simp at hk; subst hk; exact hfa0.1.node
    · rename_i l
      refine Keeps.pure ⟨m', ListIn.append hacc ha.2, hrest', ?_, hfr', Or.inl (by simp [ha.1]),
        hdone'⟩
      intro k hk
      rcases List.mem_append.mp hk with hk | hk
      · exact hfa k hk
      · exact hfa0.1.nodes k hk
    · rename_i t
      -- the token is followed by the node the production ends in
      have hlast' : ∃ v, (SVal.tok t :: rest).getLast? = some v ∧ nodeish v := by
        obtain ⟨v, hv, hn⟩ := hlast
        rw [hdone, getLast?_append_ne (by simp)] at hv
        exact ⟨v, hv, hn⟩
      have hrne : rest ≠ [] := by
        intro h; subst h
        obtain ⟨v, hv, hn⟩ := hlast'
        simp only [List.getLast?_singleton, Option.some.injEq] at hv
        subst hv; cases hn
      have hm'len : m' ≤ len := by
        refine segV_fl hrest' ?_
        obtain ⟨v, hv, hn⟩ := hlast'
        cases rest with
        | nil => exact absurd rfl hrne
        | cons y ys => rw [List.getLast?_cons_cons] at hv; exact ⟨v, hv, hn⟩
      obtain ⟨hn, hp⟩ := nodeIn_reservedword (w := tvalStr t.value) (tokInV_strong ha hm'len)
      refine Keeps.pure ⟨m', ListIn.snoc hacc hn, hrest', ?_, hfr', Or.inl (by simp), hdone'⟩
      intro k hk
      rcases List.mem_append.mp hk with hk | hk
      · exact hfa k hk
      · simp at hk; subst hk; exact hp.fresh
    · exact absurd rfl hfa0.2
  · rintro acc ⟨m, hacc, hrest, hfa, _, hne', _⟩
    have : m ≤ g := hrest
    refine ⟨?_, ListIn.mono hacc (Nat.le_refl _) this, hfa⟩
    rcases hne' with h | h
    · exact h
    · exact absurd h.symm hne

theorem sp_case_clause {np : NestedParse} {sorts : List Srt} {args : List SVal} {σ : Srt}
    (h : absAction "p_case_clause" sorts = some σ)
    (ha : Forall2 HasSort sorts args) (hseg : SegV true len f args g)
    (hfr : ∀ v ∈ args, Fresh len st v) :
    Keeps PP (actionCore np "p_case_clause" args) (Res len f g st) := by
  unfold absAction at h; simp only [] at h
  split at h
  · cases h
    obtain ⟨a, rfl, ⟨n, rfl, -⟩⟩ := forall2_1 ha
    unfold actionCore; simp only []
    simp [PCtx.len, PCtx.nodeAt, PCtx.slice]
    have hn : NodeIn len f n g := segV_single.mp hseg
    have hfn := (hfr (.node n) (by simp)).node
    exact Keeps.pure (res_nodes (by simp) (listIn_single.mpr hn)
      (by intro k hk; simp at hk; subst hk; exact hfn))
  · cases h
    obtain ⟨a, b, rfl, ⟨l, rfl, -⟩, ⟨n, rfl, -⟩⟩ := forall2_2 ha
    unfold actionCore; simp only []
    simp [PCtx.len, PCtx.nodeAt, PCtx.slice, PCtx.nodesAt]
    obtain ⟨m, h1, h2⟩ := segV_2 hseg
    have hfl := (hfr (.nodes l) (by simp)).nodes
    have hfn := (hfr (.node n) (by simp)).node
    refine Keeps.pure (res_nodes (by simp) (ListIn.snoc h1.2 h2) ?_)
    intro k hk
    rcases List.mem_append.mp hk with hk | hk
    · exact hfl k hk
    · simp at hk; subst hk; exact hfn
  · cases h

theorem sp_case_clause_sequence {np : NestedParse} {sorts : List Srt} {args : List SVal} {σ : Srt}
    (h : absAction "p_case_clause_sequence" sorts = some σ)
    (ha : Forall2 HasSort sorts args) (hseg : SegV true len f args g)
    (hfr : ∀ v ∈ args, Fresh len st v) :
    Keeps PP (actionCore np "p_case_clause_sequence" args) (Res len f g st) := by
  unfold absAction at h; simp only [] at h
  split at h
  · split at h
    · rename_i hs
      cases h
      obtain ⟨a, b, rfl, ⟨n, rfl, -⟩, hs'⟩ := forall2_2 ha
      obtain ⟨t, ty, rfl, -, -, -⟩ := okTok_inv hs hs'
      obtain ⟨m, h1, h2⟩ := segV_2 hseg
      unfold actionCore; simp only []
      simp [PCtx.len, PCtx.nodeAt, PCtx.slice, reservedAt, PCtx.strAt, PCtx.tokAt, PCtx.lexspan,
        SVal.lexspan]
      obtain ⟨hn, hp⟩ := nodeIn_reservedword (w := t.valueStr) h2
      have hfn := (hfr (.node n) (by simp)).node
      refine Keeps.pure (res_nodes (by simp) ⟨m, h1, listIn_single.mpr hn⟩ ?_)
      intro k hk
      simp only [List.mem_cons, List.not_mem_nil, or_false] at hk
      rcases hk with rfl | rfl
      · exact hfn
      · exact hp.fresh
    · cases h
  · split at h
    · rename_i hs
      cases h
      obtain ⟨a, b, c, rfl, ⟨l, rfl, -⟩, ⟨n, rfl, -⟩, hs'⟩ := forall2_3 ha
      obtain ⟨t, ty, rfl, -, -, -⟩ := okTok_inv hs hs'
      obtain ⟨m1, m2, h1, h2, h3⟩ := segV_3 hseg
      unfold actionCore; simp only []
      simp [PCtx.len, PCtx.nodeAt, PCtx.slice, reservedAt, PCtx.strAt, PCtx.tokAt, PCtx.lexspan,
        SVal.lexspan, PCtx.nodesAt]
      obtain ⟨hn, hp⟩ := nodeIn_reservedword (w := t.valueStr) h3
      have hfl := (hfr (.nodes l) (by simp)).nodes
      have hfn := (hfr (.node n) (by simp)).node
      refine Keeps.pure (res_nodes (by simp)
        (ListIn.append h1.2 ⟨m2, h2, listIn_single.mpr hn⟩) ?_)
      intro k hk
      rcases List.mem_append.mp hk with hk | hk
      · exact hfl k hk
      · simp only [List.mem_cons, List.not_mem_nil, or_false] at hk
        rcases hk with rfl | rfl
        · exact hfn
        · exact hp.fresh
    · cases h
  · cases h

theorem sp_pattern {np : NestedParse} {sorts : List Srt} {args : List SVal} {σ : Srt}
    (hW : WordSat PP np len) (h : absAction "p_pattern" sorts = some σ)
    (ha : Forall2 HasSort sorts args) (hseg : SegV true len f args g)
    (hfr : ∀ v ∈ args, Fresh len st v) :
    Keeps PP (actionCore np "p_pattern" args) (Res len f g st) := by
  unfold absAction at h; simp only [] at h
  split at h
  · cases h
    obtain ⟨a, rfl, ⟨t, rfl, -, -⟩⟩ := forall2_1 ha
    unfold actionCore; simp only []
    simp [PCtx.len, PCtx.tokAt, PCtx.slice]
    have ht : TokInV true len f t g := segV_single.mp hseg
    refine Keeps.map ((hW t).weaken (fun w hw => ?_))
    obtain ⟨hn, hp⟩ := hw.nodeIn ht rfl
    exact res_nodes (by simp) (listIn_single.mpr hn)
      (by intro n hn'; simp at hn'; subst hn'; exact hp.fresh)
  · cases h
    obtain ⟨a, b, c, rfl, ⟨l, rfl, -⟩, ⟨tb, rfl, -, -⟩, ⟨t, rfl, -, -⟩⟩ := forall2_3 ha
    obtain ⟨m1, m2, h1, h2, h3⟩ := segV_3 hseg
    unfold actionCore; simp only []
    simp [PCtx.len, PCtx.tokAt, PCtx.slice, PCtx.nodesAt, reservedAt, PCtx.strAt, PCtx.lexspan,
      SVal.lexspan]
    obtain ⟨hnb, hpb⟩ := nodeIn_reservedword (w := tb.valueStr) h2
    have hfl := (hfr (.nodes l) (by simp)).nodes
    refine Keeps.map ((hW t).weaken (fun w hw => ?_))
    obtain ⟨hn, hp⟩ := hw.nodeIn h3 rfl
    refine res_nodes (by simp) (ListIn.append h1.2 ⟨m2, hnb, listIn_single.mpr hn⟩) ?_
    intro k hk
    rcases List.mem_append.mp hk with hk | hk
    · exact hfl k hk
    · simp only [List.mem_cons, List.not_mem_nil, or_false] at hk
      rcases hk with rfl | rfl
      · exact hpb.fresh
      · exact hp.fresh
  · cases h

theorem sp_list {np : NestedParse} {sorts : List Srt} {args : List SVal} {σ : Srt}
    (h : absAction "p_list" sorts = some σ)
    (ha : Forall2 HasSort sorts args) (hseg : SegV true len f args g)
    (hfr : ∀ v ∈ args, Fresh len st v) :
    Keeps PP (actionCore np "p_list" args) (Res len f g st) := by
  unfold absAction at h; simp only [] at h
  split at h
  · cases h
    obtain ⟨a, b, rfl, -, ⟨n, rfl, -⟩⟩ := forall2_2 ha
    obtain ⟨m, h1, h2⟩ := segV_2 hseg
    unfold actionCore; simp only []
    simp [PCtx.slice]
    exact Keeps.pure ⟨ValInV.mono (v := .node n) h2 h1.le (Nat.le_refl _), hfr (.node n) (by simp), rfl⟩
  · cases h

theorem sp_compound_list {np : NestedParse} {sorts : List Srt} {args : List SVal} {σ : Srt}
    (h : absAction "p_compound_list" sorts = some σ)
    (ha : Forall2 HasSort sorts args) (hseg : SegV true len f args g)
    (hfr : ∀ v ∈ args, Fresh len st v) :
    Keeps PP (actionCore np "p_compound_list" args) (Res len f g st) := by
  unfold absAction at h; simp only [] at h
  split at h
  · cases h
    obtain ⟨a, rfl, ⟨n, rfl, -⟩⟩ := forall2_1 ha
    unfold actionCore; simp only []
    simp [PCtx.len, PCtx.slice]
    exact Keeps.pure ⟨segV_single.mp hseg, hfr (.node n) (by simp), rfl⟩
  · cases h
    obtain ⟨a, b, rfl, -, ⟨l, rfl, -⟩⟩ := forall2_2 ha
    obtain ⟨m, h1, h2⟩ := segV_2 hseg
    have hl : ListIn len f l g := ListIn.mono h2.2 h1.le (Nat.le_refl _)
    have hfl := (hfr (.nodes l) (by simp)).nodes
    unfold actionCore; simp only []
    simp [PCtx.len, PCtx.slice, PCtx.nodesAt]
    split
    · refine Keeps.map ((keeps_parent (fun sp => Node.list sp l) (fun _ => rfl) (fun _ => rfl)
        (fun _ => rfl) hl hfl).weaken (fun sp hsp => ?_))
      exact res_node hsp.1 hsp.2
    · cases hh : l.head? with
      | none => exact Keeps.foreign trivial
      | some n =>
        simp only []
        have hm : n ∈ l := List.mem_of_mem_head? hh
        exact Keeps.pure (res_node (hl.mem n hm) (hfl n hm))
  · cases h

theorem sp_empty {np : NestedParse} {args : List SVal} (hseg : SegV true len f args g) :
    Keeps PP (actionCore np "p_empty" args) (Res len f g st) := by
  unfold actionCore; simp only []
  exact Keeps.pure (res_none hseg.le)

/-! ### `x ++ [sep] ++ y` (list1, simple_list1, pipeline) -/

theorem ListIn.fl' {l : List Node} {f g : Nat} (h : ListIn len f l g) (hne : l ≠ []) : f ≤ len := by
  cases l with
  | nil => exact absurd rfl hne
  | cons n ns => obtain ⟨m, h1, _⟩ := h; exact h1.fl

theorem segV_last {s : Bool} : ∀ {xs : List SVal} {f g : Nat} {r : SVal}, SegV s len f xs g →
    xs.getLast? = some r → ∃ m, f ≤ m ∧ ValInV s len m r g
  | [], _, _, _, _, h => by simp at h
  | [x], f, g, r, hs, h => by
    simp only [List.getLast?_singleton, Option.some.injEq] at h
    subst h
    exact ⟨f, Nat.le_refl f, segV_single.mp hs⟩
  | x :: y :: rest, f, g, r, hs, h => by
    obtain ⟨m, h1, h2⟩ := hs
    rw [List.getLast?_cons_cons] at h
    obtain ⟨m', hm, hv⟩ := segV_last h2 h
    exact ⟨m', by have := h1.le; omega, hv⟩

theorem keeps_joinLists {np : NestedParse} {sorts : List Srt} {args : List SVal} {σ : Srt}
    {k : LCls} {elem : NCls} {sep : TokType → Bool} {mk : Span → Str → Node} {site : String}
    (hmk : ∀ (t : Token) (m1 m2 : Nat), TokInV true len m1 t m2 →
      NodeIn len m1 (mk (t.lexpos, t.endlexpos) t.valueStr) m2 ∧
        NoPend (mk (t.lexpos, t.endlexpos) t.valueStr))
    (h : absJoin k elem sep sorts = some σ) (ha : Forall2 HasSort sorts args)
    (hseg : SegV false len f args g) (hfr : ∀ v ∈ args, Fresh len st v) :
    Keeps PP (joinLists ⟨np, args⟩ mk site) (fun v => Res len f g st (v, false)) := by
  unfold absJoin at h
  split at h
  · split at h
    · cases h
      obtain ⟨a, rfl, ⟨n, rfl, -⟩⟩ := forall2_1 ha
      simp [joinLists, PCtx.len, PCtx.nodeAt, PCtx.slice]
      have hn : NodeIn len f n g := segV_single.mp hseg
      have hfn := (hfr (.node n) (by simp)).node
      exact Keeps.pure (res_nodes (by simp) (listIn_single.mpr hn)
        (by intro k hk; simp at hk; subst hk; exact hfn))
    · cases h
  · split at h
    · rename_i hc
      cases h
      simp only [Bool.and_eq_true, beq_iff_eq] at hc
      obtain ⟨⟨rfl, hs⟩, hlast⟩ := hc
      obtain ⟨a, as, rfl, ⟨l, rfl, -⟩, ha2⟩ := forall2_cons ha
      obtain ⟨b, bs, rfl, ⟨t, rfl, -, -⟩, ha3⟩ := forall2_cons ha2
      obtain ⟨v, hv, ⟨r, rfl, -⟩⟩ := forall2_getLast ha3 _ hlast
      have hbs : bs ≠ [] := by intro hb; subst hb; simp at hv
      have hlast' : (SVal.nodes l :: SVal.tok t :: bs).getLast? = some (.nodes r) := by
        cases bs with
        | nil => exact absurd rfl hbs
        | cons c cs => simpa [List.getLast?_cons_cons] using hv
      have hlen : ¬ (PCtx.len ⟨np, SVal.nodes l :: SVal.tok t :: bs⟩ == 2) = true := by
        cases bs with
        | nil => exact absurd rfl hbs
        | cons c cs => simp [PCtx.len]
      obtain ⟨m1, h1, m2, h2, h3⟩ := hseg
      obtain ⟨m3, hm3, hr⟩ := segV_last h3 hv
      have hm3len : m3 ≤ len := ListIn.fl' hr.2 hr.1
      have ht : TokInV true len m1 t m3 :=
        tokInV_strong (ValInV.mono (v := .tok t) h2 (Nat.le_refl _) hm3) hm3len
      obtain ⟨hop, hpop⟩ := hmk t m1 m3 ht
      have hfl := (hfr (.nodes l) (by simp)).nodes
      have hfrr := (hfr (.nodes r) (List.mem_of_getLast? hlast')).nodes
      unfold joinLists
      simp only [hlen, if_false, Bool.false_eq_true]
      simp only [PCtx.nodesAt, slice_last hlast']
      simp [PCtx.slice, PCtx.strAt, PCtx.tokAt, PCtx.lexspan, SVal.lexspan]
      refine Keeps.pure (res_nodes (by simp) ?_ ?_)
      · exact ListIn.append h1.2 ⟨m3, hop, hr.2⟩
      · intro n hn
        simp only [List.mem_append, List.mem_cons, List.not_mem_nil, or_false] at hn
        rcases hn with hn | rfl | hn
        · exact hfl n hn
        · exact hpop.fresh
        · exact hfrr n hn
    · cases h
  · cases h

theorem sp_list1 {np : NestedParse} {sorts : List Srt} {args : List SVal} {σ : Srt}
    (h : absAction "p_list1" sorts = some σ) (ha : Forall2 HasSort sorts args)
    (hseg : SegV false len f args g) (hfr : ∀ v ∈ args, Fresh len st v) :
    Keeps PP (actionCore np "p_list1" args) (Res len f g st) := by
  unfold absAction at h; simp only [] at h
  unfold actionCore; simp only []
  exact Keeps.bind (keeps_joinLists (fun t m1 m2 ht => nodeIn_operator ht) h ha hseg hfr)
    (fun v hv => Keeps.pure hv)

theorem sp_simple_list1 {np : NestedParse} {sorts : List Srt} {args : List SVal} {σ : Srt}
    (h : absAction "p_simple_list1" sorts = some σ) (ha : Forall2 HasSort sorts args)
    (hseg : SegV false len f args g) (hfr : ∀ v ∈ args, Fresh len st v) :
    Keeps PP (actionCore np "p_simple_list1" args) (Res len f g st) := by
  unfold absAction at h; simp only [] at h
  unfold actionCore; simp only []
  exact Keeps.bind (keeps_joinLists (fun t m1 m2 ht => nodeIn_operator ht) h ha hseg hfr)
    (fun v hv => Keeps.pure hv)

theorem sp_pipeline {np : NestedParse} {sorts : List Srt} {args : List SVal} {σ : Srt}
    (h : absAction "p_pipeline" sorts = some σ) (ha : Forall2 HasSort sorts args)
    (hseg : SegV false len f args g) (hfr : ∀ v ∈ args, Fresh len st v) :
    Keeps PP (actionCore np "p_pipeline" args) (Res len f g st) := by
  unfold absAction at h; simp only [] at h
  unfold actionCore; simp only []
  exact Keeps.bind (keeps_joinLists (fun t m1 m2 ht => nodeIn_pipe ht) h ha hseg hfr)
    (fun v hv => Keeps.pure hv)

theorem keeps_compound {parts : List Node} (hl : ListIn len f parts g)
    (hfr : ∀ n ∈ parts, FreshT len st n) :
    Keeps PP (partsspan parts) (fun sp => Res len f g st (.node (.compound sp parts []), false)) := by
  refine (keeps_parent (fun sp => Node.compound sp parts []) (fun _ => by simp [children])
    (fun _ => rfl) (fun _ => rfl) hl hfr).weaken (fun sp hsp => ?_)
  exact res_node hsp.1 hsp.2

theorem sp_pattern_list {np : NestedParse} {sorts : List Srt} {args : List SVal} {σ : Srt}
    (h : absAction "p_pattern_list" sorts = some σ)
    (ha : Forall2 HasSort sorts args) (hseg : SegV true len f args g)
    (hfr : ∀ v ∈ args, Fresh len st v) :
    Keeps PP (actionCore np "p_pattern_list" args) (Res len f g st) := by
  unfold absAction at h; simp only [] at h
  split at h
  · split at h
    · rename_i hc
      cases h
      simp only [Bool.and_eq_true] at hc
      obtain ⟨x, a, b, c, rfl, -, ⟨pat, rfl, -⟩, hr', hb'⟩ := forall2_4 ha
      obtain ⟨tr, tyr, rfl, -, -, -⟩ := okTok_inv hc.1 hr'
      obtain ⟨m1, m2, m3, h1, h2, h3, h4⟩ := segV_4 hseg
      have hfp := (hfr (.nodes pat) (by simp)).nodes
      obtain ⟨hnr, hpr⟩ := nodeIn_reservedword (w := tr.valueStr) h3
      unfold actionCore; simp only []
      simp [PCtx.len, PCtx.slice, PCtx.nodesAt, reservedAt, PCtx.strAt, PCtx.tokAt, PCtx.lexspan,
        SVal.lexspan]
      refine Keeps.bind (keeps_parent (fun sp => Node.pattern sp pat) (fun _ => rfl) (fun _ => rfl)
        (fun _ => rfl) h2.2 hfp) (fun sp hsp => ?_)
      have hbase : ListIn len f [Node.pattern sp pat, .reservedword (tr.lexpos, tr.endlexpos) tr.valueStr] m3 :=
        ListIn.mono (f := m1) ⟨m2, hsp.1, listIn_single.mpr hnr⟩ h1.le (Nat.le_refl _)
      have hfbase : ∀ k ∈ [Node.pattern sp pat, .reservedword (tr.lexpos, tr.endlexpos) tr.valueStr],
          FreshT len st k := by
        intro k hk
        simp only [List.mem_cons, List.not_mem_nil, or_false] at hk
        rcases hk with rfl | rfl
        · exact hsp.2
        · exact hpr.fresh
      rcases bodyOK_inv hc.2 hb' with rfl | ⟨n, rfl, -⟩
      · simp only []
        have hl := ListIn.mono hbase (Nat.le_refl _) (show m3 ≤ g from h4)
        exact Keeps.map (keeps_compound hl hfbase)
      · simp only []
        have hfn := (hfr (.node n) (by simp)).node
        have hl : ListIn len f [Node.pattern sp pat,
            .reservedword (tr.lexpos, tr.endlexpos) tr.valueStr, n] g :=
          ListIn.mono (f := m1) ⟨m2, hsp.1, m3, hnr, listIn_single.mpr h4⟩ h1.le (Nat.le_refl _)
        refine Keeps.map (keeps_compound hl (fun k hk => ?_))
        simp only [List.mem_cons, List.not_mem_nil, or_false] at hk
        rcases hk with rfl | rfl | rfl
        · exact hsp.2
        · exact hpr.fresh
        · exact hfn
    · cases h
  · split at h
    · rename_i hc
      cases h
      simp only [Bool.and_eq_true] at hc
      obtain ⟨x, a0, a, b, c, rfl, -, hl', ⟨pat, rfl, -⟩, hr', hb'⟩ := forall2_5 ha
      obtain ⟨tl, tyl, rfl, -, -, -⟩ := okTok_inv hc.1.1 hl'
      obtain ⟨tr, tyr, rfl, -, -, -⟩ := okTok_inv hc.1.2 hr'
      obtain ⟨m0, m1, m2, m3, h0, h1, h2, h3, h4⟩ := segV_5 hseg
      have hfp := (hfr (.nodes pat) (by simp)).nodes
      obtain ⟨hnl, hpl⟩ := nodeIn_reservedword (w := tl.valueStr) h1
      obtain ⟨hnr, hpr⟩ := nodeIn_reservedword (w := tr.valueStr) h3
      unfold actionCore; simp only []
      simp [PCtx.len, PCtx.slice, PCtx.nodesAt, reservedAt, PCtx.strAt, PCtx.tokAt, PCtx.lexspan,
        SVal.lexspan]
      refine Keeps.bind (keeps_parent (fun sp => Node.pattern sp pat) (fun _ => rfl) (fun _ => rfl)
        (fun _ => rfl) h2.2 hfp) (fun sp hsp => ?_)
      have hbase : ListIn len f [.reservedword (tl.lexpos, tl.endlexpos) tl.valueStr,
          Node.pattern sp pat, .reservedword (tr.lexpos, tr.endlexpos) tr.valueStr] m3 :=
        ListIn.mono (f := m0) ⟨m1, hnl, m2, hsp.1, listIn_single.mpr hnr⟩ h0.le (Nat.le_refl _)
      have hfbase : ∀ k ∈ [.reservedword (tl.lexpos, tl.endlexpos) tl.valueStr,
          Node.pattern sp pat, .reservedword (tr.lexpos, tr.endlexpos) tr.valueStr],
          FreshT len st k := by
        intro k hk
        simp only [List.mem_cons, List.not_mem_nil, or_false] at hk
        rcases hk with rfl | rfl | rfl
        · exact hpl.fresh
        · exact hsp.2
        · exact hpr.fresh
      rcases bodyOK_inv hc.2 hb' with rfl | ⟨n, rfl, -⟩
      · simp only []
        have hl := ListIn.mono hbase (Nat.le_refl _) (show m3 ≤ g from h4)
        exact Keeps.map (keeps_compound hl hfbase)
      · simp only []
        have hfn := (hfr (.node n) (by simp)).node
        have hl : ListIn len f [.reservedword (tl.lexpos, tl.endlexpos) tl.valueStr,
            Node.pattern sp pat, .reservedword (tr.lexpos, tr.endlexpos) tr.valueStr, n] g :=
          ListIn.mono (f := m0) ⟨m1, hnl, m2, hsp.1, m3, hnr, listIn_single.mpr h4⟩ h0.le
            (Nat.le_refl _)
        refine Keeps.map (keeps_compound hl (fun k hk => ?_))
        simp only [List.mem_cons, List.not_mem_nil, or_false] at hk
        rcases hk with rfl | rfl | rfl | rfl
        · exact hpl.fresh
        · exact hsp.2
        · exact hpr.fresh
        · exact hfn
    · cases h
  · cases h

/-! ### `p_pipeline_command`: `!` / `time` in front of a pipeline -/

/-- D19: the reserved word of a pipeline built from a `timespec` sits at (0,0); the pipeline is
    tainted, nothing is claimed about its own clauses -/
theorem nodeIn_d19 {sp : Span} {w : Str} {kids : List Node}
    (hk : ∀ c ∈ kids, Strict len c ∧ EndsBy g c ∧ PendAll c ∧ SealedAll c) (hsp : sp.2 ≤ g) (hfg : f ≤ g)
    (hfl : f ≤ len) : NodeIn len f (.pipeline sp (.reservedword (0, 0) w :: kids)) g := by
  have ht : tainted (.pipeline sp (.reservedword (0, 0) w :: kids)) = true := by
    rw [tainted_iff]; left; simp [isD19, emptyRWb]
  have hb : Strict len (.reservedword (0, 0) w) ∧ EndsBy g (.reservedword (0, 0) w) ∧
      PendAll (.reservedword (0, 0) w) ∧ SealedAll (.reservedword (0, 0) w) := by
    refine ⟨strict_mk (Or.inr (Or.inr ⟨rfl, Nat.zero_le _⟩)) (by intro c hc; simp [children] at hc),
      ?_, ?_, noPend_sealedAll _ (noPend_leaf rfl rfl)⟩
    · rw [endsBy_iff]; exact ⟨Nat.zero_le _, by intro c hc; simp [children] at hc⟩
    · rw [pendAll_iff]; exact ⟨trivial, by intro c hc; simp [children] at hc⟩
  have hall : ∀ c ∈ (Node.pipeline sp (.reservedword (0, 0) w :: kids)).children,
      Strict len c ∧ EndsBy g c ∧ PendAll c ∧ SealedAll c := by
    intro c hc
    simp only [children, List.mem_cons] at hc
    rcases hc with rfl | hc
    · exact hb
    · exact hk c hc
  refine ⟨strict_mk (Or.inl ht) (fun c hc => (hall c hc).1), ?_, hfg, Or.inl ht, ?_, hfl, ?_⟩
  · rw [endsBy_iff]; exact ⟨hsp, fun c hc => (hall c hc).2.1⟩
  · rw [pendAll_iff]; exact ⟨trivial, fun c hc => (hall c hc).2.2.1⟩
  · rw [sealedAll_iff]; exact ⟨sealed_of_desc rfl, fun c hc => (hall c hc).2.2.2⟩

theorem ordered_le_last : ∀ {l : List Node} {b : Node}, ordered l = true →
    (∀ c ∈ l, c.pos.1 < c.pos.2) → l.getLast? = some b → ∀ c ∈ l, c.pos.2 ≤ b.pos.2
  | [], _, _, _, h => by simp at h
  | [x], b, _, _, h => by
    simp only [List.getLast?_singleton, Option.some.injEq] at h
    subst h
    intro c hc; simp at hc; subst hc; exact Nat.le_refl _
  | x :: y :: rest, b, ho, hne, h => by
    simp only [ordered, Bool.and_eq_true, decide_eq_true_eq] at ho
    rw [List.getLast?_cons_cons] at h
    have ih := ordered_le_last (l := y :: rest) ho.2
      (fun c hc => hne c (List.mem_cons_of_mem _ hc)) h
    intro c hc
    rcases List.mem_cons.mp hc with rfl | hc
    · have := ih y List.mem_cons_self
      have := hne y (List.mem_cons_of_mem _ List.mem_cons_self)
      omega
    · exact ih c hc

/-- `! a | b`: the parts of the pipeline node after the `!` -/
theorem nodeIn_bang_pipeline {t : Token} {sp : Span} {parts : List Node} {m : Nat} {b : Node}
    (ht : TokInV true len f t m) (hn : NodeIn len m (.pipeline sp parts) g)
    (hb : (Node.reservedword (t.lexpos, t.endlexpos) ['!'] :: parts).getLast? = some b) :
    NodeIn len f (.pipeline (t.lexpos, b.pos.2)
      (.reservedword (t.lexpos, t.endlexpos) ['!'] :: parts)) g := by
  obtain ⟨hbang, _⟩ := nodeIn_reservedword (w := ['!']) ht
  obtain ⟨a, e, hp, hfa, hae, hem, hel, hwt⟩ := ht
  obtain ⟨hlx, hle⟩ := tok_lexspan hp
  have hns := strict_iff.mp hn.strict
  have hne := endsBy_iff.mp hn.ends
  have hnp := pendAll_iff.mp hn.pend
  have hmg := hn.le
  have hkids : ∀ c, c ∈ (Node.pipeline (t.lexpos, b.pos.2)
      (.reservedword (t.lexpos, t.endlexpos) ['!'] :: parts)).children → Strict len c := by
    intro c hc
    simp only [children, List.mem_cons] at hc
    rcases hc with rfl | hc
    · exact hbang.strict
    · exact hns.2 c (by simpa [children] using hc)
  have hbm : b ∈ Node.reservedword (t.lexpos, t.endlexpos) ['!'] :: parts := List.mem_of_getLast? hb
  have hbg : b.pos.2 ≤ g := by
    rcases List.mem_cons.mp hbm with rfl | hbm
    · show t.endlexpos ≤ g; omega
    · exact (hne.2 b (by simpa [children] using hbm)).root
  have hends : EndsBy g (.pipeline (t.lexpos, b.pos.2)
      (.reservedword (t.lexpos, t.endlexpos) ['!'] :: parts)) := by
    rw [endsBy_iff]
    refine ⟨hbg, ?_⟩
    intro c hc
    simp only [children, List.mem_cons] at hc
    rcases hc with rfl | hc
    · exact hbang.ends.mono hmg
    · exact hne.2 c (by simpa [children] using hc)
  have hpend : PendAll (.pipeline (t.lexpos, b.pos.2)
      (.reservedword (t.lexpos, t.endlexpos) ['!'] :: parts)) := by
    rw [pendAll_iff]
    refine ⟨trivial, ?_⟩
    intro c hc
    simp only [children, List.mem_cons] at hc
    rcases hc with rfl | hc
    · exact hbang.pend
    · exact hnp.2 c (by simpa [children] using hc)
  have hfg : f ≤ g := by omega
  have hfl : f ≤ len := hbang.fl
  have hsl : SealedAll (.pipeline (t.lexpos, b.pos.2)
      (.reservedword (t.lexpos, t.endlexpos) ['!'] :: parts)) := by
    rw [sealedAll_iff]
    refine ⟨sealed_of_desc rfl, ?_⟩
    intro c hc
    simp only [children, List.mem_cons] at hc
    rcases hc with rfl | hc
    · exact hbang.sld
    · exact (sealedAll_iff.mp hn.sld).2 c (by simpa [children] using hc)
  cases htt : tainted (.pipeline (t.lexpos, b.pos.2)
      (.reservedword (t.lexpos, t.endlexpos) ['!'] :: parts)) with
  | true => exact ⟨strict_mk (Or.inl htt) hkids, hends, hfg, Or.inl htt, hpend, hfl, hsl⟩
  | false =>
    have hpt : ∀ c ∈ parts, tainted c = false := fun c hc =>
      untainted_child (by simp [children, hc]) htt
    have hd : isD19 (.pipeline sp parts) = false := by
      cases hx : isD19 (.pipeline sp parts) with
      | false => rfl
      | true =>
        have : tainted (.pipeline (t.lexpos, b.pos.2)
            (.reservedword (t.lexpos, t.endlexpos) ['!'] :: parts)) = true := by
          rw [tainted_iff]; left
          simp only [isD19, List.any_cons] at hx ⊢
          rw [hx, Bool.or_true]
        rw [this] at htt; cases htt
    have hnt : tainted (.pipeline sp parts) = false := by
      cases hx : tainted (.pipeline sp parts) with
      | false => rfl
      | true =>
        rw [tainted_iff] at hx
        rcases hx with hx | ⟨c, hc, hct⟩
        · rw [hd] at hx; cases hx
        · rw [hpt c (by simpa [children] using hc)] at hct; cases hct
    have hloc : LocOK len (.pipeline sp parts) := by
      rcases hns.1 with h | h | h
      · rw [h] at hnt; cases hnt
      · exact h
      · exact absurd h.1 (by simp [isRW])
    have hroot : m ≤ sp.1 ∧ sp.1 < sp.2 := hn.start hnt
    have hord : ordered parts = true := hloc.ord
    have hkne : ∀ c ∈ parts, c.pos.1 < c.pos.2 := fun c hc => hloc.kne c (by simpa [children] using hc)
    have hkin : ∀ c ∈ parts, sp.1 ≤ c.pos.1 := fun c hc => hloc.kst c (by simpa [children] using hc)
    have hrng : ∀ c ∈ parts, c.pos.2 ≤ len := fun c hc =>
      ((hns.2 c (by simpa [children] using hc)) c (C12.self_mem_preorder c)).rng (hpt c hc)
    have hel' : e ≤ len := hel rfl
    -- facts about the last part
    have hbfacts : a < b.pos.2 ∧ b.pos.2 ≤ len ∧ e ≤ b.pos.2 ∧ ∀ c ∈ parts, c.pos.2 ≤ b.pos.2 := by
      cases hparts : parts with
      | nil =>
        rw [hparts] at hb
        simp only [List.getLast?_singleton, Option.some.injEq] at hb
        subst hb
        refine ⟨by show a < t.endlexpos; omega, by show t.endlexpos ≤ len; omega,
          by show e ≤ t.endlexpos; omega, by intro c hc; cases hc⟩
      | cons y rest =>
        subst hparts
        rw [List.getLast?_cons_cons] at hb
        have hbm' : b ∈ y :: rest := List.mem_of_getLast? hb
        have h1 := hkne b hbm'
        have h2 := hkin b hbm'
        exact ⟨by omega, hrng b hbm', by omega, ordered_le_last hord hkne hb⟩
    obtain ⟨hb1, hb2, hb3, hb4⟩ := hbfacts
    have hloc' : LocOK len (.pipeline (t.lexpos, b.pos.2)
        (.reservedword (t.lexpos, t.endlexpos) ['!'] :: parts)) := by
      refine ⟨by show t.lexpos < b.pos.2; omega, hb2, ?_, ?_, ?_, ?_, ?_⟩
      · intro c hc
        simp only [children, List.mem_cons] at hc
        rcases hc with rfl | hc
        · show t.lexpos < t.endlexpos; omega
        · exact hkne c hc
      · intro c hc _
        simp only [children, List.mem_cons] at hc
        show t.lexpos ≤ c.pos.1 ∧ (c.pos.2 ≤ b.pos.2 ∨ _)
        rcases hc with rfl | hc
        · exact ⟨Nat.le_refl _, Or.inl (by show t.endlexpos ≤ b.pos.2; omega)⟩
        · have := hkin c hc
          exact ⟨by omega, Or.inl (hb4 c hc)⟩
      · simp only [children]
        cases hparts : parts with
        | nil => rfl
        | cons y rest =>
          simp only [ordered, Bool.and_eq_true, decide_eq_true_eq]
          have := hkin y (by rw [hparts]; exact List.mem_cons_self)
          refine ⟨by show t.endlexpos ≤ y.pos.1; omega, ?_⟩
          rw [← hparts]; exact hord
      · intro _
        exact ⟨_, b, rfl, hb, rfl, Or.inl rfl⟩
      · intro c hc
        simp only [children, List.mem_cons] at hc
        show t.lexpos ≤ c.pos.1
        rcases hc with rfl | hc
        · exact Nat.le_refl _
        · have := hkin c hc; omega
    exact ⟨strict_mk (Or.inr (Or.inl hloc')) hkids, hends, hfg,
      Or.inr ⟨by show f ≤ t.lexpos; omega, by show t.lexpos < b.pos.2; omega⟩, hpend, hfl, hsl⟩

theorem keeps_bang {np : NestedParse} {x y : SVal} {m : Nat}
    (hx : ValInV true len f x m) (hy : ValInV true len m y g)
    (hfx : (∃ t, x = .tok t) ∨ (∃ n, x = .node n))
    (hyn : y = .none ∨ ∃ n, y = .node n) (hfy : Fresh len st y) :
    Keeps PP (do
      let p : PCtx := { np := np, args := [x, y] }
      let bang := Node.reservedword (p.lexspan 1) ['!']
      match p.slice 2 with
      | .none => pure (SVal.node (.pipeline bang.pos [bang]), false)
      | .node (.pipeline _ parts) =>
        let parts := bang :: parts
        match parts.getLast? with
        | some b => pure (SVal.node (.pipeline (bang.pos.1, (← nodePos b).2) parts), false)
        | none => M.foreign "IndexError" "p_pipeline_command"
      | .node n => pure (SVal.node (.pipeline (bang.pos.1, (← nodePos n).2) [bang, n]), false)
      | _ => M.foreign "AttributeError" "p_pipeline_command") (Res len f g st) := by
  have hmg : m ≤ g := hy.le
  have hfm : f ≤ m := hx.le
  rcases hfx with ⟨t, rfl⟩ | ⟨ts, rfl⟩
  · -- a real `!` token
    have ht : TokInV true len f t m := hx
    obtain ⟨hbang, hpb⟩ := nodeIn_reservedword (w := ['!']) ht
    simp only [PCtx.lexspan, PCtx.slice, SVal.lexspan, List.getD_cons_zero, Nat.sub_self,
      Nat.add_one_sub_one, List.getD_cons_succ]
    rcases hyn with rfl | ⟨n, rfl⟩
    · simp only []
      refine Keeps.pure (res_node ?_ (freshT_mk rfl ?_))
      · exact mkParent (l := [.reservedword (t.lexpos, t.endlexpos) ['!']]) rfl
          (listIn_single.mpr (hbang.mono (Nat.le_refl _) hmg)) rfl rfl rfl trivial
      · intro c hc; simp [children] at hc; subst hc; exact hpb.fresh
    · have hn : NodeIn len m n g := hy
      have hfn := hfy.node
      split
      · rename_i hh; cases hh
      · rename_i sp parts hh
        cases hh
        cases hb : (Node.reservedword (t.lexpos, t.endlexpos) ['!'] :: parts).getLast? with
        | none => exact Keeps.foreign trivial
        | some b =>
          simp only []
          have hbm := List.mem_of_getLast? hb
          have hfk : ∀ c ∈ Node.reservedword (t.lexpos, t.endlexpos) ['!'] :: parts, FreshT len st c := by
            intro c hc
            rcases List.mem_cons.mp hc with rfl | hc
            · exact hpb.fresh
            · exact (freshT_iff.mp hfn).2 c (by simpa [children] using hc)
          refine Keeps.bind (keeps_nodePos_fresh (hfk b hbm)) (fun spb hspb => ?_)
          subst hspb
          exact Keeps.pure (res_node (nodeIn_bang_pipeline ht hn hb) (freshT_mk rfl hfk))
      · rename_i n' hnp hh
        cases hh
        refine Keeps.bind (keeps_nodePos_fresh hfn) (fun spn hspn => ?_)
        subst hspn
        refine Keeps.pure (res_node ?_ (freshT_mk rfl ?_))
        · exact mkParent (l := [.reservedword (t.lexpos, t.endlexpos) ['!'], n]) rfl
            ⟨m, hbang, listIn_single.mpr hn⟩ rfl rfl rfl trivial
        · intro c hc
          simp only [children, List.mem_cons, List.not_mem_nil, or_false] at hc
          rcases hc with rfl | rfl
          · exact hpb.fresh
          · exact hfn
      · rename_i hh1 hh2
        exact absurd rfl (hh2 n)
  · -- D19: a `timespec` value: the reserved word sits at (0,0)
    have hts : NodeIn len f ts m := hx
    have hfl : f ≤ len := hts.fl
    have hfg : f ≤ g := by omega
    simp only [PCtx.lexspan, PCtx.slice, SVal.lexspan, List.getD_cons_zero, Nat.sub_self,
      Nat.add_one_sub_one, List.getD_cons_succ]
    have hfb : FreshT len st (.reservedword (0, 0) ['!']) := (noPend_leaf rfl rfl).fresh
    rcases hyn with rfl | ⟨n, rfl⟩
    · simp only []
      refine Keeps.pure (res_node (nodeIn_d19 (by intro c hc; cases hc) (Nat.zero_le _) hfg hfl)
        (freshT_mk rfl ?_))
      intro c hc; simp [children] at hc; subst hc; exact hfb
    · have hn : NodeIn len m n g := hy
      have hfn := hfy.node
      split
      · rename_i hh; cases hh
      · rename_i sp parts hh
        cases hh
        cases hb : (Node.reservedword (0, 0) ['!'] :: parts).getLast? with
        | none => exact Keeps.foreign trivial
        | some b =>
          simp only []
          have hbm := List.mem_of_getLast? hb
          have hfk : ∀ c ∈ Node.reservedword (0, 0) ['!'] :: parts, FreshT len st c := by
            intro c hc
            rcases List.mem_cons.mp hc with rfl | hc
            · exact hfb
            · exact (freshT_iff.mp hfn).2 c (by simpa [children] using hc)
          refine Keeps.bind (keeps_nodePos_fresh (hfk b hbm)) (fun spb hspb => ?_)
          subst hspb
          have hkids : ∀ c ∈ parts, Strict len c ∧ EndsBy g c ∧ PendAll c ∧ SealedAll c := fun c hc =>
            ⟨(strict_iff.mp hn.strict).2 c (by simpa [children] using hc),
             (endsBy_iff.mp hn.ends).2 c (by simpa [children] using hc),
             (pendAll_iff.mp hn.pend).2 c (by simpa [children] using hc),
             (sealedAll_iff.mp hn.sld).2 c (by simpa [children] using hc)⟩
          have hbg : b.pos.2 ≤ g := by
            rcases List.mem_cons.mp hbm with rfl | hbm
            · exact Nat.zero_le _
            · exact (hkids b hbm).2.1.root
          exact Keeps.pure (res_node (nodeIn_d19 hkids hbg hfg hfl) (freshT_mk rfl hfk))
      · rename_i n' hnp hh
        cases hh
        refine Keeps.bind (keeps_nodePos_fresh hfn) (fun spn hspn => ?_)
        subst hspn
        refine Keeps.pure (res_node (nodeIn_d19 (kids := [n]) ?_ hn.end_le hfg hfl)
          (freshT_mk rfl ?_))
        · intro c hc; simp at hc; subst hc; exact ⟨hn.strict, hn.ends, hn.pend, hn.sld⟩
        · intro c hc
          simp only [children, List.mem_cons, List.not_mem_nil, or_false] at hc
          rcases hc with rfl | rfl
          · exact hfb
          · exact hfn
      · rename_i hh1 hh2
        exact absurd rfl (hh2 n)

theorem sp_pipeline_command {np : NestedParse} {sorts : List Srt} {args : List SVal} {σ : Srt}
    (h : absAction "p_pipeline_command" sorts = some σ)
    (ha : Forall2 HasSort sorts args) (hseg : SegV true len f args g)
    (hfr : ∀ v ∈ args, Fresh len st v)
    (hfirst : ∀ x y, args = [x, y] → (∃ t, x = .tok t) ∨ (∃ n, x = .node n)) :
    Keeps PP (actionCore np "p_pipeline_command" args) (Res len f g st) := by
  unfold absAction at h; simp only [] at h
  have two : ∀ x y, args = [x, y] → (y = .none ∨ ∃ n, y = .node n) →
      Keeps PP (actionCore np "p_pipeline_command" args) (Res len f g st) := by
    intro x y hargs hy
    subst hargs
    obtain ⟨m, h1, h2⟩ := segV_2 hseg
    unfold actionCore; simp only []
    have hlen : ((PCtx.len ⟨np, [x, y]⟩ == 2) = false) := rfl
    simp only [hlen, Bool.false_eq_true, if_false]
    exact keeps_bang h1 h2 (hfirst x y rfl) hy (hfr y (by simp))
  split at h
  · cases h
    obtain ⟨a, rfl, ⟨l, rfl, -⟩⟩ := forall2_1 ha
    have hl : ValInV true len f (.nodes l) g := segV_single.mp hseg
    have hfl := (hfr (.nodes l) (by simp)).nodes
    unfold actionCore; simp only []
    simp [PCtx.len, PCtx.slice, PCtx.nodesAt]
    split
    · rename_i n
      exact Keeps.pure (res_node (listIn_single.mp hl.2) (hfl n (by simp)))
    · cases hha : l.head? with
      | none => exact Keeps.foreign trivial
      | some a =>
        cases hhb : l.getLast? with
        | none => exact Keeps.foreign trivial
        | some b =>
          simp only []
          refine Keeps.bind (keeps_nodePos_fresh (hfl a (List.mem_of_mem_head? hha))) (fun sa hsa => ?_)
          refine Keeps.map ((keeps_nodePos_fresh (hfl b (List.mem_of_getLast? hhb))).weaken
            (fun sb hsb => ?_))
          subst hsa; subst hsb
          exact res_node (mkParent rfl hl.2 hha hhb rfl trivial) (freshT_mk rfl hfl)
  · cases h
    obtain ⟨x, y, rfl, -, ⟨n, rfl, -⟩⟩ := forall2_2 ha
    exact two x (.node n) rfl (Or.inr ⟨n, rfl⟩)
  · cases h
    obtain ⟨x, y, rfl, -, hy⟩ := forall2_2 ha
    refine two x y rfl ?_
    rcases hy with rfl | ⟨n, rfl, -⟩
    · exact Or.inl rfl
    · exact Or.inr ⟨n, rfl⟩
  · cases h

/-- `list0 : list1 (NEWLINE | & | ;) newline_list`: the terminator becomes an operator node.  The
    terminator may be the NEWLINE the tokenizer appended to the input (ending at `len + 1`); that
    it is not follows from the look-ahead: the reduction happens on a look-ahead token that
    starts within the input (`hg`, supplied by the engine from the tables: `list0` productions are
    not reduced by default, nor on `$end`). -/
theorem sp_list0 {np : NestedParse} {sorts : List Srt} {args : List SVal} {σ : Srt}
    (h : absAction "p_list0" sorts = some σ)
    (ha : Forall2 HasSort sorts args) (hseg : SegV false len f args g)
    (hfr : ∀ v ∈ args, Fresh len st v) (hg : g ≤ len) :
    Keeps PP (actionCore np "p_list0" args) (Res len f g st) := by
  unfold absAction at h; simp only [] at h
  split at h
  · split at h
    · cases h
      obtain ⟨a, as, rfl, ⟨l, rfl, -⟩, ha2⟩ := forall2_cons ha
      obtain ⟨b, bs, rfl, ⟨t, rfl, -, -⟩, -⟩ := forall2_cons ha2
      obtain ⟨m1, h1, m2, h2, h3⟩ := hseg
      have hm2g : m2 ≤ g := h3.le
      have ht : TokInV true len m1 t g :=
        tokInV_strong (ValInV.mono (v := .tok t) h2 (Nat.le_refl _) hm2g) hg
      obtain ⟨hop, hpop⟩ := nodeIn_operator (w := t.valueStr) ht
      have hfl := (hfr (.nodes l) (by simp)).nodes
      have hlg : ListIn len f l g := ListIn.mono h1.2 (Nat.le_refl _) (by have := h2.le; omega)
      unfold actionCore; simp only []
      simp [PCtx.slice, PCtx.nodesAt, operatorAt, PCtx.strAt, PCtx.tokAt, PCtx.lexspan, SVal.lexspan]
      split
      · have hl : ListIn len f (l ++ [.operator (t.lexpos, t.endlexpos) t.valueStr]) g :=
          ListIn.snoc h1.2 hop
        refine Keeps.map ((keeps_parent (fun sp => Node.list sp _) (fun _ => rfl) (fun _ => rfl)
          (fun _ => rfl) hl ?_).weaken (fun sp hsp => res_node hsp.1 hsp.2))
        intro k hk
        rcases List.mem_append.mp hk with hk | hk
        · exact hfl k hk
        · simp at hk; subst hk; exact hpop.fresh
      · cases hh : l.head? with
        | none => exact Keeps.foreign trivial
        | some n =>
          simp only []
          have hm : n ∈ l := List.mem_of_mem_head? hh
          exact Keeps.pure (res_node (hlg.mem n hm) (hfl n hm))
    · cases h
  · cases h

theorem sp_newline_list {np : NestedParse} {args : List SVal} (hseg : SegV false len f args g) :
    Keeps PP (actionCore np "p_newline_list" args) (Res len f g st) := by
  unfold actionCore; simp only []
  exact Keeps.pure (res_none hseg.le)

theorem sp_simple_list_terminator {np : NestedParse} {args : List SVal}
    (hseg : SegV false len f args g) :
    Keeps PP (actionCore np "p_simple_list_terminator" args) (Res len f g st) := by
  unfold actionCore; simp only []
  exact Keeps.pure (res_none hseg.le)

theorem sp_list_terminator {np : NestedParse} {args : List SVal} (hseg : SegV true len f args g) :
    Keeps PP (actionCore np "p_list_terminator" args) (Res len f g st) := by
  unfold actionCore; simp only []
  have hfg := hseg.le
  cases args with
  | nil =>
    simp [PCtx.slice]
    exact Keeps.pure (res_none hfg)
  | cons x rest =>
    obtain ⟨m, hx, hrest⟩ := hseg
    have hmg : m ≤ g := hrest.le
    cases x with
    | tok t =>
      simp only [PCtx.slice, Nat.sub_self, List.getD_cons_zero, PCtx.lexspan, SVal.lexspan]
      split
      · obtain ⟨hn, hpn⟩ := nodeIn_operator (w := [';'])
          (ValInV.mono (v := .tok t) hx (Nat.le_refl _) hmg : TokInV true len f t g)
        exact Keeps.pure (res_node hn hpn.fresh)
      · exact Keeps.pure (res_none hfg)
    | none => simp [PCtx.slice]; exact Keeps.pure (res_none hfg)
    | node n => simp [PCtx.slice]; exact Keeps.pure (res_none hfg)
    | nodes l => simp [PCtx.slice]; exact Keeps.pure (res_none hfg)

end
end Bashlex.C03
