/-
  C03, part 1: span well-formedness as predicates on trees.

    `C03_known`   the known signatures (decidable): one exact string and two marked families
    `LocOK`       the local clauses of `Spec.localSpanViol` as a proposition, relaxed exactly where
                  a redirect extended over its here-document body may stick out (`+heredoc`)
    `NodeS`       a node is fine: it sits above a D19 pipeline (`tainted`, all its clauses are
                  marked `+emptydesc`), or `LocOK`, or it is a reserved word (only
                  `empty-span:reservedword` can be raised for it)
    `Strict`      every node of a tree is `NodeS`;  `strict_known`: then every signature of
                  `Spec.spansWF` is known
-/
import Bashlex.Spec.Tree
import Bashlex.Model.Parse
import Bashlex.Props.C12.Tree

namespace Bashlex.C03
open Bashlex Bashlex.Spec Bashlex.Node
set_option linter.unusedSimpArgs false
set_option linter.unusedVariables false

/-! ## known signatures -/

/-- does the character list `p` occur in `l` -/
def infixB (p : List Char) : List Char → Bool
  | [] => p.isEmpty
  | c :: cs => p.isPrefixOf (c :: cs) || infixB p cs

/-- the known signatures of `Spec.spansWF` (each with a witness, checked in
    `Props/C03/Witness.lean`):
    * `empty-span:reservedword`: `time -p a` with `proceedonerror`: the `!`/`time` reserved word of
      a pipeline built from a `timespec` sits at span (0,0) (D19);
    * every signature marked `+emptydesc`: clauses of the ancestors of such a pipeline
      (`b; time -p a` with `proceedonerror`);
    * every signature marked `+heredoc`: a redirect extended over its here-document body sticks
      out of its parent, whose span was computed before the body was gathered (D11):
      `a <<E\nx\nE\n` → `child-outside-parent:redirect+heredoc:command`,
      `span-not-first-to-last:command:redirect+heredoc`;
      `{ a; } <<E\nx\nE\n` → `child-outside-parent:redirect+heredoc:compound`. -/
def emptyRW : String := "empty-span:" ++ "reservedword"

def C03_known (v : String) : Bool :=
  v == emptyRW || infixB "+heredoc".toList v.toList ||
    infixB "+emptydesc".toList v.toList

theorem infixB_append_left (p : List Char) : ∀ (a b : List Char), infixB p b = true →
    infixB p (a ++ b) = true := by
  intro a
  induction a with
  | nil => intro b h; exact h
  | cons c cs ih =>
    intro b h
    show infixB p (c :: (cs ++ b)) = true
    simp only [infixB, Bool.or_eq_true]
    exact Or.inr (ih b h)

theorem infixB_prefix (p b : List Char) : infixB p (p ++ b) = true := by
  cases hp : p ++ b with
  | nil =>
    have : p = [] := by
      cases p with
      | nil => rfl
      | cons _ _ => simp at hp
    simp [infixB, this]
  | cons c cs =>
    simp only [infixB, Bool.or_eq_true]
    left
    rw [← hp]
    exact List.isPrefixOf_iff_prefix.mpr (List.prefix_append p b)

theorem infixB_mid (p a b : List Char) : infixB p (a ++ p ++ b) = true := by
  rw [List.append_assoc]
  exact infixB_append_left p a _ (infixB_prefix p b)

/-- a string with the mark somewhere inside -/
theorem known_heredoc (a b : String) : C03_known (a ++ "+heredoc" ++ b) = true := by
  unfold C03_known
  have : infixB "+heredoc".toList (a ++ "+heredoc" ++ b).toList = true := by
    rw [String.toList_append, String.toList_append]
    exact infixB_mid _ _ _
  rw [this, Bool.or_true, Bool.true_or]

theorem known_emptydesc (a b : String) : C03_known (a ++ "+emptydesc" ++ b) = true := by
  unfold C03_known
  have : infixB "+emptydesc".toList (a ++ "+emptydesc" ++ b).toList = true := by
    rw [String.toList_append, String.toList_append]
    exact infixB_mid _ _ _
  rw [this, Bool.or_true]

/-! ## taint: sitting above a D19 pipeline -/

/-- the D19 shape: a pipeline with a reserved word of empty span among its parts -/
def emptyRWb : Node → Bool
  | .reservedword p _ => decide (p.2 ≤ p.1)
  | _ => false

def isD19 : Node → Bool
  | .pipeline _ ps => ps.any emptyRWb
  | _ => false

def tainted (n : Node) : Bool := containsD19 n

theorem tainted_eq (n : Node) : tainted n = n.preorder.any isD19 := by
  unfold tainted containsD19
  congr 1

theorem tainted_iff (n : Node) :
    tainted n = true ↔ isD19 n = true ∨ ∃ c, c ∈ n.children ∧ tainted c = true := by
  rw [tainted_eq, C12.preorder_eq]
  simp only [List.any_cons, Bool.or_eq_true, List.any_eq_true]
  constructor
  · rintro (h | ⟨m, hm, hd⟩)
    · exact Or.inl h
    · obtain ⟨c, hc, hmc⟩ := C12.mem_preorderL.mp hm
      refine Or.inr ⟨c, hc, ?_⟩
      rw [tainted_eq, List.any_eq_true]
      exact ⟨m, hmc, hd⟩
  · rintro (h | ⟨c, hc, ht⟩)
    · exact Or.inl h
    · rw [tainted_eq, List.any_eq_true] at ht
      obtain ⟨m, hmc, hd⟩ := ht
      exact Or.inr ⟨m, C12.mem_preorderL.mpr ⟨c, hc, hmc⟩, hd⟩

theorem tainted_of_child {n c : Node} (hc : c ∈ n.children) (h : tainted c = true) :
    tainted n = true :=
  (tainted_iff n).mpr (Or.inr ⟨c, hc, h⟩)

theorem untainted_child {n c : Node} (hc : c ∈ n.children) (h : tainted n = false) :
    tainted c = false := by
  cases hct : tainted c with
  | false => rfl
  | true => rw [tainted_of_child hc hct] at h; cases h

/-! ## local clauses -/

def isRW : Node → Bool | .reservedword .. => true | _ => false

/-- the clauses of `Spec.localSpanViol`, relaxed where a redirect carrying a here-document body
    may stick out to the right of its parent (signatures marked `+heredoc`) -/
structure LocOK (len : Nat) (n : Node) : Prop where
  ne : n.pos.1 < n.pos.2
  rng : n.pos.2 ≤ len
  kne : ∀ c ∈ n.children, c.pos.1 < c.pos.2
  kin : ∀ c ∈ n.children, isHeredoc c = false →
    n.pos.1 ≤ c.pos.1 ∧ (c.pos.2 ≤ n.pos.2 ∨ isRedirectWithHeredoc c = true)
  ord : ordered n.children = true
  fl : spansItsParts n = true → ∃ a b, n.children.head? = some a ∧ n.children.getLast? = some b ∧
    n.pos.1 = a.pos.1 ∧ (n.pos.2 = b.pos.2 ∨ isRedirectWithHeredoc b = true)
  /-- no child (here-document bodies included) starts before its parent -/
  kst : ∀ c ∈ n.children, n.pos.1 ≤ c.pos.1

/-- a node is fine -/
def NodeS (len : Nat) (m : Node) : Prop :=
  tainted m = true ∨ LocOK len m ∨ (isRW m = true ∧ m.pos.2 ≤ len)

/-- every node of the tree is fine -/
def Strict (len : Nat) (n : Node) : Prop := ∀ m ∈ n.preorder, NodeS len m

theorem known_heredoc' (a1 a2 b : String) : C03_known (a1 ++ (a2 ++ ("+heredoc" ++ b))) = true := by
  have := known_heredoc (a1 ++ a2) b
  simpa only [String.append_assoc] using this

theorem known_heredoc'' (a1 a2 a3 a4 b : String) :
    C03_known (a1 ++ (a2 ++ (a3 ++ (a4 ++ ("+heredoc" ++ b))))) = true := by
  have := known_heredoc (a1 ++ a2 ++ a3 ++ a4) b
  simpa only [String.append_assoc] using this

theorem toString_str (s : String) : toString s = s := rfl

theorem locOK_known {len : Nat} {m : Node} (h : LocOK len m) :
    ∀ v ∈ localSpanViol len m, C03_known v = true := by
  intro v hv
  unfold localSpanViol at hv
  simp only [List.mem_append, List.mem_filterMap, toString_str] at hv
  rcases hv with (hv | hv) | (hv | hv) | hv
  · rw [if_pos h.ne] at hv; cases hv
  · rw [if_pos h.rng] at hv; cases hv
  · obtain ⟨a, ha, hv⟩ := hv
    cases hh : isHeredoc a with
    | true => rw [hh] at hv; simp at hv
    | false =>
      rw [hh] at hv
      simp only [Bool.false_eq_true, if_false] at hv
      obtain ⟨h1, h2⟩ := h.kin a ha hh
      by_cases hs : spanIn a.pos m.pos = true
      · rw [if_pos hs] at hv; cases hv
      · rw [if_neg hs] at hv
        rcases h2 with h2 | h2
        · exfalso; apply hs
          simp [spanIn, h1, h2]
        · rw [h2] at hv
          simp only [if_true, Option.some.injEq] at hv
          rw [← hv]
          simp only [String.append_assoc]
          exact known_heredoc' _ _ _
  · rw [if_pos h.ord] at hv; cases hv
  · by_cases hsp : spansItsParts m = true
    · rw [if_pos hsp] at hv
      obtain ⟨a, b, ha, hb, h1, h2⟩ := h.fl hsp
      rw [ha, hb] at hv
      simp only at hv
      rcases h2 with h2 | h2
      · have : (m.pos == (a.pos.1, b.pos.2)) = true := by
          rw [beq_iff_eq]
          exact Prod.ext h1 h2
        rw [if_pos this] at hv; cases hv
      · split at hv
        · cases hv
        · simp only [h2, if_true, List.mem_singleton] at hv
          rw [hv]
          simp only [String.append_assoc]
          exact known_heredoc'' _ _ _ _ _
    · rw [if_neg hsp] at hv; cases hv

theorem lsv_rw (len : Nat) (p : Span) (w : Str) : localSpanViol len (.reservedword p w) =
    (if p.1 < p.2 then [] else ["empty-span:" ++ "reservedword"]) ++
    (if p.2 ≤ len then [] else ["span-out-of-range:" ++ "reservedword"]) ++ [] := rfl

theorem rw_known {len : Nat} {m : Node} (h1 : isRW m = true) (h2 : m.pos.2 ≤ len) :
    ∀ v ∈ localSpanViol len m, v = emptyRW := by
  intro v hv
  cases m with
  | reservedword p w =>
    rw [lsv_rw] at hv
    have h2' : p.2 ≤ len := h2
    rw [if_pos h2', List.append_nil, List.append_nil] at hv
    split at hv
    · cases hv
    · rw [List.mem_singleton] at hv; rw [hv]; rfl
  | _ => simp [isRW] at h1

theorem nodeS_known {len : Nat} {m : Node} (h : NodeS len m) :
    ∀ v ∈ localSpanViol len m,
      C03_known (v ++ (if containsD19 m then "+emptydesc" else "") ++ "") = true := by
  intro v hv
  rcases h with h | h | h
  · have : containsD19 m = true := h
    rw [this]
    simp only [if_true]
    exact known_emptydesc _ _
  · by_cases ht : containsD19 m = true
    · rw [ht]; simp only [if_true]; exact known_emptydesc _ _
    · simp only [ht, Bool.false_eq_true, if_false, String.append_empty]
      exact locOK_known h v hv
  · by_cases ht : containsD19 m = true
    · rw [ht]; simp only [if_true]; exact known_emptydesc _ _
    · simp only [ht, Bool.false_eq_true, if_false, String.append_empty]
      rw [rw_known h.1 h.2 v hv]
      simp [C03_known]

/-- **the link to the executable specification**: in a `Strict` tree, every signature raised by
    `Spec.spansWF` is known -/
theorem strict_known {len : Nat} {n : Node} (h : Strict len n) :
    ∀ v ∈ spansWF len n, C03_known v = true := by
  intro v hv
  unfold spansWF at hv
  obtain ⟨l, hl, hvl⟩ := List.mem_flatten.mp hv
  obtain ⟨m, hm, rfl⟩ := List.mem_map.mp hl
  obtain ⟨v0, hv0, rfl⟩ := List.mem_map.mp hvl
  simp only [Bool.false_eq_true, if_false]
  exact nodeS_known (h m hm) v0 hv0

/-! ## recursive characterisations -/

theorem strict_iff {len : Nat} {n : Node} :
    Strict len n ↔ NodeS len n ∧ ∀ c, c ∈ n.children → Strict len c := by
  unfold Strict
  rw [C12.preorder_eq]
  constructor
  · intro h
    refine ⟨h n List.mem_cons_self, fun c hc m hm => h m ?_⟩
    exact List.mem_cons_of_mem _ (C12.mem_preorderL.mpr ⟨c, hc, hm⟩)
  · rintro ⟨h1, h2⟩ m hm
    rcases List.mem_cons.mp hm with rfl | hm
    · exact h1
    · obtain ⟨c, hc, hmc⟩ := C12.mem_preorderL.mp hm
      exact h2 c hc m hmc

/-- every node of the tree ends at or before `g` -/
def EndsBy (g : Nat) (n : Node) : Prop := ∀ m ∈ n.preorder, m.pos.2 ≤ g

theorem endsBy_iff {g : Nat} {n : Node} :
    EndsBy g n ↔ n.pos.2 ≤ g ∧ ∀ c, c ∈ n.children → EndsBy g c := by
  unfold EndsBy
  rw [C12.preorder_eq]
  constructor
  · intro h
    refine ⟨h n List.mem_cons_self, fun c hc m hm => h m ?_⟩
    exact List.mem_cons_of_mem _ (C12.mem_preorderL.mpr ⟨c, hc, hm⟩)
  · rintro ⟨h1, h2⟩ m hm
    rcases List.mem_cons.mp hm with rfl | hm
    · exact h1
    · obtain ⟨c, hc, hmc⟩ := C12.mem_preorderL.mp hm
      exact h2 c hc m hmc

theorem EndsBy.mono {g g' : Nat} {n : Node} (h : EndsBy g n) (hg : g ≤ g') : EndsBy g' n :=
  fun m hm => Nat.le_trans (h m hm) hg

theorem EndsBy.root {g : Nat} {n : Node} (h : EndsBy g n) : n.pos.2 ≤ g := (endsBy_iff.mp h).1

/-! ## positions under `mapPos` -/

theorem pos_mapPos (f : Span → Span) (n : Node) : (mapPos f n).pos = f n.pos := by
  cases n <;> simp [mapPos, Node.pos]

theorem children_mapPos (f : Span → Span) (n : Node) :
    (mapPos f n).children = n.children.map (mapPos f) := by
  cases n <;> simp [mapPos, children, C12.mapPosL_eq, C12.mapPosO_eq]
  case redirect p i t o oa h hid => cases o <;> cases h <;> simp

theorem kind_mapPos (f : Span → Span) (n : Node) : (mapPos f n).kind = n.kind := by
  cases n <;> simp [mapPos, Node.kind]

theorem isHeredoc_mapPos (f : Span → Span) (n : Node) : isHeredoc (mapPos f n) = isHeredoc n := by
  cases n <;> simp [mapPos, isHeredoc]

theorem isRWH_mapPos (f : Span → Span) (n : Node) :
    isRedirectWithHeredoc (mapPos f n) = isRedirectWithHeredoc n := by
  cases n <;> simp [mapPos, isRedirectWithHeredoc]
  case redirect p i t o oa h hid => cases h <;> simp [C12.mapPosO_eq, isRedirectWithHeredoc]

theorem spansItsParts_mapPos (f : Span → Span) (n : Node) :
    spansItsParts (mapPos f n) = spansItsParts n := by
  cases n <;> simp [mapPos, spansItsParts]

theorem isRW_mapPos (f : Span → Span) (n : Node) : isRW (mapPos f n) = isRW n := by
  cases n <;> simp [mapPos, isRW]

/-- the shift of `posshifter` / `_adjustpositions` -/
def sh (k : Nat) (p : Span) : Span := (p.1 + k, p.2 + k)

theorem shift_eq (k : Nat) (n : Node) : n.shift k = mapPos (sh k) n := rfl

theorem isD19_sh (k : Nat) (n : Node) : isD19 (mapPos (sh k) n) = isD19 n := by
  cases n <;> simp [mapPos, isD19]
  case pipeline p ps =>
    rw [C12.mapPosL_eq, List.any_map]
    congr 1
    funext q
    cases q <;> simp [mapPos, sh, emptyRWb]

theorem tainted_sh (k : Nat) (n : Node) : tainted (mapPos (sh k) n) = tainted n := by
  rw [tainted_eq, tainted_eq, C12.preorder_mapPos, List.any_map]
  congr 1
  funext m
  exact isD19_sh k m

theorem ordered_sh (k : Nat) : ∀ l : List Node, ordered (l.map (mapPos (sh k))) = ordered l
  | [] => rfl
  | [a] => rfl
  | a :: b :: rest => by
    have ih := ordered_sh k (b :: rest)
    simp only [List.map_cons] at ih ⊢
    simp only [ordered, pos_mapPos, sh, ih]
    congr 1
    simp

theorem locOK_sh {len len' k : Nat} {m : Node} (h : LocOK len m) (hr : m.pos.2 + k ≤ len') :
    LocOK len' (mapPos (sh k) m) := by
  refine ⟨?_, ?_, ?_, ?_, ?_, ?_, ?_⟩
  · rw [pos_mapPos]; simp only [sh]; have := h.ne; omega
  · rw [pos_mapPos]; exact hr
  · intro c hc
    rw [children_mapPos] at hc
    obtain ⟨c0, hc0, rfl⟩ := List.mem_map.mp hc
    rw [pos_mapPos]; simp only [sh]; have := h.kne c0 hc0; omega
  · intro c hc hh
    rw [children_mapPos] at hc
    obtain ⟨c0, hc0, rfl⟩ := List.mem_map.mp hc
    rw [isHeredoc_mapPos] at hh
    obtain ⟨h1, h2⟩ := h.kin c0 hc0 hh
    rw [pos_mapPos, pos_mapPos, isRWH_mapPos]
    simp only [sh]
    refine ⟨by omega, ?_⟩
    rcases h2 with h2 | h2
    · left; omega
    · right; exact h2
  · rw [children_mapPos, ordered_sh]; exact h.ord
  · intro hsp
    rw [spansItsParts_mapPos] at hsp
    obtain ⟨a, b, ha, hb, h1, h2⟩ := h.fl hsp
    refine ⟨mapPos (sh k) a, mapPos (sh k) b, ?_, ?_, ?_, ?_⟩
    · rw [children_mapPos, List.head?_map, ha]; rfl
    · rw [children_mapPos, List.getLast?_map, hb]; rfl
    · rw [pos_mapPos, pos_mapPos]; simp only [sh]; omega
    · rw [pos_mapPos, pos_mapPos, isRWH_mapPos]; simp only [sh]
      rcases h2 with h2 | h2
      · left; omega
      · right; exact h2
  · intro c hc
    rw [children_mapPos] at hc
    obtain ⟨c0, hc0, rfl⟩ := List.mem_map.mp hc
    rw [pos_mapPos, pos_mapPos]; simp only [sh]
    have := h.kst c0 hc0
    omega

theorem isRW_untainted {m : Node} (h : isRW m = true) : tainted m = false := by
  cases m <;> simp [isRW] at h
  rfl

theorem nodeS_sh {len len' k : Nat} {m : Node} (h : NodeS len m)
    (hr : tainted m = false → m.pos.2 + k ≤ len') : NodeS len' (mapPos (sh k) m) := by
  rcases h with h | h | h
  · left; rw [tainted_sh]; exact h
  · cases ht : tainted m with
    | true => left; rw [tainted_sh]; exact ht
    | false => right; left; exact locOK_sh h (hr ht)
  · right; right
    refine ⟨by rw [isRW_mapPos]; exact h.1, ?_⟩
    rw [pos_mapPos]
    exact hr (isRW_untainted h.1)

theorem strict_sh {len len' k : Nat} {n : Node} (h : Strict len n)
    (hr : ∀ m ∈ n.preorder, tainted m = false → m.pos.2 + k ≤ len') :
    Strict len' (n.shift k) := by
  intro m hm
  rw [shift_eq, C12.preorder_mapPos] at hm
  obtain ⟨m0, hm0, rfl⟩ := List.mem_map.mp hm
  exact nodeS_sh (h m0 hm0) (hr m0 hm0)

theorem NodeS.rng {len : Nat} {m : Node} (h : NodeS len m) (ht : tainted m = false) :
    m.pos.2 ≤ len := by
  rcases h with h | h | h
  · rw [h] at ht; cases ht
  · exact h.rng
  · exact h.2

/-- the top-level `posshifter`: a part found in `s.drop index` and shifted by `index` -/
theorem strict_shift_top {len len' k : Nat} {n : Node} (h : Strict len n) (hl : len + k ≤ len') :
    Strict len' (n.shift k) :=
  strict_sh h (fun m hm ht => by have := (h m hm).rng ht; omega)

theorem endsBy_shift {g k : Nat} {n : Node} (h : EndsBy g n) : EndsBy (g + k) (n.shift k) := by
  intro m hm
  rw [shift_eq, C12.preorder_mapPos] at hm
  obtain ⟨m0, hm0, rfl⟩ := List.mem_map.mp hm
  rw [pos_mapPos]
  simp only [sh]
  have := h m0 hm0
  omega

/-! ## `resolve`: the final positions of pending here-document redirects -/

def pendOf : Node → Option (Nat × Span)
  | .redirect p _ _ _ _ _ (some id) => some (id, p)
  | _ => none

/-- the body `makeheredoc` attached lies after the redirect's original span and is in range -/
def BodyOK (len : Nat) (p : Span) (h : Option (Span × Str)) : Prop :=
  ∀ x y v, h = some ((x, y), v) → p.2 ≤ x ∧ x < y ∧ y ≤ len

/-- the store cell of a pending redirect created at span `p`, in a tree whose nodes all end at or
    before `g`: the position is unchanged, or the body was attached and the span was extended
    to the right -- which happens only to a redirect ending at `g` or later -/
def DoneCell (len g : Nat) (p : Span) (c : RedirCell) : Prop :=
  BodyOK len p c.heredoc ∧
  (c.pos = p ∨ (c.heredoc.isSome = true ∧ c.pos.1 = p.1 ∧ p.2 ≤ c.pos.2 ∧ c.pos.2 ≤ len ∧ g ≤ p.2))

/-- the shape `p_redirection_heredoc` gives a pending redirect: no body yet, a plain target -/
def pendShape : Node → Prop
  | .redirect _ _ _ o _ h (some _) =>
    h = none ∧ ∀ w, o = some w → isHeredoc w = false ∧ isRedirectWithHeredoc w = false
  | _ => True

def DoneN (len g : Nat) (st : List RedirCell) (m : Node) : Prop :=
  ∀ id p, pendOf m = some (id, p) →
    pendShape m ∧ ∀ c, st[id]? = some c → DoneCell len g p c

def Done (len g : Nat) (st : List RedirCell) (n : Node) : Prop := ∀ m ∈ n.preorder, DoneN len g st m

theorem done_iff {len g : Nat} {st : List RedirCell} {n : Node} :
    Done len g st n ↔ DoneN len g st n ∧ ∀ c, c ∈ n.children → Done len g st c := by
  unfold Done
  rw [C12.preorder_eq]
  constructor
  · intro h
    refine ⟨h n List.mem_cons_self, fun c hc m hm => h m ?_⟩
    exact List.mem_cons_of_mem _ (C12.mem_preorderL.mpr ⟨c, hc, hm⟩)
  · rintro ⟨h1, h2⟩ m hm
    rcases List.mem_cons.mp hm with rfl | hm
    · exact h1
    · obtain ⟨c, hc, hmc⟩ := C12.mem_preorderL.mp hm
      exact h2 c hc m hmc

/-- how `resolve` may change what a parent sees of a child -/
structure Ext (len g : Nat) (c c' : Node) : Prop where
  s : c'.pos.1 = c.pos.1
  e : c.pos.2 ≤ c'.pos.2
  hd : isHeredoc c' = isHeredoc c
  rwh : isRedirectWithHeredoc c = true → isRedirectWithHeredoc c' = true
  ext : c.pos.2 < c'.pos.2 → isRedirectWithHeredoc c' = true ∧ g ≤ c.pos.2 ∧ c'.pos.2 ≤ len

theorem Ext.refl' {len g : Nat} {c c' : Node} (hp : c'.pos = c.pos) (hd : isHeredoc c' = isHeredoc c)
    (hr : isRedirectWithHeredoc c' = isRedirectWithHeredoc c) : Ext len g c c' :=
  ⟨by rw [hp], by rw [hp]; exact Nat.le_refl _, hd, by rw [hr]; exact id,
   by rw [hp]; intro h; exact absurd h (Nat.lt_irrefl _)⟩

theorem ext_resolve {len g : Nat} {st : List RedirCell} {m : Node} (h : DoneN len g st m) :
    Ext len g m (resolve st m) := by
  cases m with
  | redirect p i t o oa hd hid =>
    cases hid with
    | none => exact Ext.refl' (by simp [resolve]) (by simp [resolve]) (by simp [resolve])
    | some id =>
      obtain ⟨hsh, h2⟩ := h id p rfl
      have h1 : isRedirectWithHeredoc (.redirect p i t o oa hd (some id)) = false := by
        rw [hsh.1]; rfl
      simp only [resolve]
      cases hs : st[id]? with
      | none =>
        refine Ext.refl' rfl rfl ?_
        cases hd <;> rfl
      | some c =>
        simp only
        obtain ⟨hb, hc⟩ := h2 c hs
        rcases hc with hc | ⟨hsome, hc1, hc2, hc3, hc4⟩
        · refine ⟨by simp [Node.pos, hc], by simp [Node.pos, hc], rfl, ?_, ?_⟩
          · intro hx; rw [h1] at hx; cases hx
          · intro hx; simp [Node.pos, hc] at hx
        · refine ⟨hc1, hc2, rfl, ?_, ?_⟩
          · intro hx; rw [h1] at hx; cases hx
          · intro _
            refine ⟨?_, hc4, hc3⟩
            cases hh : c.heredoc with
            | none => rw [hh] at hsome; cases hsome
            | some b => simp [isRedirectWithHeredoc]
  | _ => exact Ext.refl' (by simp [resolve, Node.pos]) (by simp [resolve, isHeredoc])
          (by simp [resolve, isRedirectWithHeredoc])

theorem ordered_ext {len g : Nat} {r : Node → Node} : ∀ (l : List Node), ordered l = true →
    (∀ c ∈ l, c.pos.1 < c.pos.2) → (∀ c ∈ l, c.pos.2 ≤ g) → (∀ c ∈ l, Ext len g c (r c)) →
    ordered (l.map r) = true
  | [], _, _, _, _ => rfl
  | [a], _, _, _, _ => rfl
  | a :: b :: rest, ho, hne, hg, he => by
    simp only [ordered, Bool.and_eq_true, decide_eq_true_eq] at ho
    have ih := ordered_ext (b :: rest) ho.2 (fun c hc => hne c (List.mem_cons_of_mem _ hc))
      (fun c hc => hg c (List.mem_cons_of_mem _ hc)) (fun c hc => he c (List.mem_cons_of_mem _ hc))
    simp only [List.map_cons] at ih ⊢
    simp only [ordered, Bool.and_eq_true, decide_eq_true_eq]
    refine ⟨?_, ih⟩
    have ea := he a List.mem_cons_self
    have eb := he b (List.mem_cons_of_mem _ List.mem_cons_self)
    rw [eb.s]
    by_cases hx : a.pos.2 < (r a).pos.2
    · obtain ⟨_, h2, _⟩ := ea.ext hx
      have := hne b (List.mem_cons_of_mem _ List.mem_cons_self)
      have := hg b (List.mem_cons_of_mem _ List.mem_cons_self)
      omega
    · have := ea.e; omega

theorem locOK_ext {len g : Nat} {r : Node → Node} {P P' : Node} (h : LocOK len P)
    (hp : P'.pos = P.pos) (hsp : spansItsParts P' = spansItsParts P)
    (hch : P'.children = P.children.map r)
    (he : ∀ c ∈ P.children, Ext len g c (r c) ∧ c.pos.2 ≤ g) : LocOK len P' := by
  refine ⟨by rw [hp]; exact h.ne, by rw [hp]; exact h.rng, ?_, ?_, ?_, ?_, ?_⟩
  · intro c hc
    rw [hch] at hc
    obtain ⟨c0, hc0, rfl⟩ := List.mem_map.mp hc
    have e := (he c0 hc0).1
    have := h.kne c0 hc0
    rw [e.s]; have := e.e; omega
  · intro c hc hh
    rw [hch] at hc
    obtain ⟨c0, hc0, rfl⟩ := List.mem_map.mp hc
    have e := (he c0 hc0).1
    rw [e.hd] at hh
    obtain ⟨h1, h2⟩ := h.kin c0 hc0 hh
    rw [hp, e.s]
    refine ⟨h1, ?_⟩
    by_cases hx : c0.pos.2 < (r c0).pos.2
    · exact Or.inr (e.ext hx).1
    · rcases h2 with h2 | h2
      · left; have := e.e; omega
      · exact Or.inr (e.rwh h2)
  · rw [hch]
    exact ordered_ext _ h.ord h.kne (fun c hc => (he c hc).2) (fun c hc => (he c hc).1)
  · intro hs
    rw [hsp] at hs
    obtain ⟨a, b, ha, hb, h1, h2⟩ := h.fl hs
    have hma : a ∈ P.children := List.mem_of_mem_head? ha
    have hmb : b ∈ P.children := List.mem_of_getLast? hb
    have ea := (he a hma).1
    have eb := (he b hmb).1
    refine ⟨r a, r b, by rw [hch, List.head?_map, ha]; rfl, by rw [hch, List.getLast?_map, hb]; rfl,
      by rw [hp, ea.s]; exact h1, ?_⟩
    rw [hp]
    by_cases hx : b.pos.2 < (r b).pos.2
    · exact Or.inr (eb.ext hx).1
    · rcases h2 with h2 | h2
      · left; have := eb.e; omega
      · exact Or.inr (eb.rwh h2)
  · intro c hc
    rw [hch] at hc
    obtain ⟨c0, hc0, rfl⟩ := List.mem_map.mp hc
    rw [hp, ((he c0 hc0).1).s]
    exact h.kst c0 hc0

theorem emptyRWb_resolve (st : List RedirCell) (q : Node) : emptyRWb (resolve st q) = emptyRWb q := by
  cases q with
  | redirect p i t o oa h hid =>
    cases hid with
    | none => simp [resolve, emptyRWb]
    | some id => simp only [resolve]; cases st[id]? <;> simp [emptyRWb]
  | _ => simp [resolve, emptyRWb]

theorem isD19_resolve (st : List RedirCell) (n : Node) : isD19 (resolve st n) = isD19 n := by
  cases n with
  | pipeline p ps =>
    simp only [resolve, isD19, C12.resolveL_eq, List.any_map]
    congr 1
    funext q
    exact emptyRWb_resolve st q
  | redirect p i t o oa h hid =>
    cases hid with
    | none => simp [resolve, isD19]
    | some id => simp only [resolve]; cases st[id]? <;> simp [isD19]
  | _ => simp [resolve, isD19]

theorem strict_heredoc_leaf {len x y : Nat} {v : Str} (h1 : x < y) (h2 : y ≤ len) :
    Strict len (.heredoc (x, y) v) := by
  rw [strict_iff]
  refine ⟨Or.inr (Or.inl ⟨h1, h2, ?_, ?_, rfl, ?_, ?_⟩), ?_⟩
  · intro c hc; simp [children] at hc
  · intro c hc; simp [children] at hc
  · intro h; simp [spansItsParts] at h
  · intro c hc; simp [children] at hc
  · intro c hc; simp [children] at hc

mutual
theorem tainted_resolve {len g : Nat} (st : List RedirCell) :
    (n : Node) → Done len g st n → tainted n = true → tainted (resolve st n) = true
  | list p ps, hd, h | pipeline p ps, hd, h | ifN p ps, hd, h | forN p ps, hd, h
  | whileN p ps, hd, h | untilN p ps, hd, h | caseN p ps, hd, h | pattern p ps, hd, h
  | command p ps, hd, h | unimplemented p ps, hd, h | function p _ _ ps, hd, h => by
    rw [tainted_iff] at h ⊢
    rw [done_iff] at hd
    rcases h with h | ⟨c, hc, ht⟩
    · left; rw [isD19_resolve]; exact h
    · right
      simp only [resolve, children] at hc ⊢
      exact taintedL_resolve st ps (fun c hc => hd.2 c (by simpa [children] using hc)) ⟨c, hc, ht⟩
  | compound p l r, hd, h => by
    rw [tainted_iff] at h ⊢
    rw [done_iff] at hd
    rcases h with h | ⟨c, hc, ht⟩
    · left; rw [isD19_resolve]; exact h
    · right
      simp only [resolve, children, List.mem_append] at hc ⊢
      rcases hc with hc | hc
      · obtain ⟨c', hc', ht'⟩ := taintedL_resolve st l
          (fun c hc => hd.2 c (by simp [children, hc])) ⟨c, hc, ht⟩
        exact ⟨c', Or.inl hc', ht'⟩
      · obtain ⟨c', hc', ht'⟩ := taintedL_resolve st r
          (fun c hc => hd.2 c (by simp [children, hc])) ⟨c, hc, ht⟩
        exact ⟨c', Or.inr hc', ht'⟩
  | redirect p i t o oa hh hid, hd, h => by
    rw [tainted_iff] at h ⊢
    rw [done_iff] at hd
    rcases h with h | ⟨c, hc, ht⟩
    · simp [isD19] at h
    · right
      refine ⟨c, ?_, ht⟩
      cases hid with
      | none => simpa [resolve] using hc
      | some id =>
        have hsh := (hd.1 id p rfl).1
        simp only [pendShape] at hsh
        simp only [resolve]
        simp only [children, List.mem_append, Option.mem_toList, hsh.1] at hc
        rcases hc with hc | hc
        · cases hs : st[id]? <;> simp [children, hc]
        · cases hc
  | operator .., _, h | reservedword .., _, h | pipe .., _, h | word .., _, h
  | assignment .., _, h | parameter .., _, h | tilde .., _, h | heredoc .., _, h
  | commandsubstitution .., _, h | processsubstitution .., _, h => by simpa [resolve] using h
theorem taintedL_resolve {len g : Nat} (st : List RedirCell) :
    (l : List Node) → (∀ c, c ∈ l → Done len g st c) → (∃ c, c ∈ l ∧ tainted c = true) →
    ∃ c, c ∈ resolveL st l ∧ tainted c = true
  | [], _, h => by obtain ⟨c, hc, _⟩ := h; cases hc
  | n :: ns, hd, h => by
    obtain ⟨c, hc, ht⟩ := h
    simp only [resolveL, List.mem_cons]
    rcases List.mem_cons.mp hc with heq | hc
    · exact ⟨resolve st n, Or.inl rfl,
        tainted_resolve st n (hd n List.mem_cons_self) (heq ▸ ht)⟩
    · obtain ⟨c', hc', ht'⟩ := taintedL_resolve st ns
        (fun c hc => hd c (List.mem_cons_of_mem _ hc)) ⟨c, hc, ht⟩
      exact ⟨c', Or.inr hc', ht'⟩
end

theorem locOK_parent_resolve {len g : Nat} {st : List RedirCell} {P : Node}
    (hl : LocOK len P) (he : EndsBy g P) (hd : Done len g st P)
    (hp : (resolve st P).pos = P.pos) (hsp : spansItsParts (resolve st P) = spansItsParts P)
    (hch : (resolve st P).children = P.children.map (resolve st)) : LocOK len (resolve st P) := by
  refine locOK_ext (g := g) (r := resolve st) hl hp hsp hch ?_
  intro c hc
  exact ⟨ext_resolve (((done_iff.mp hd).2 c hc) c (C12.self_mem_preorder c)),
    ((endsBy_iff.mp he).2 c hc).root⟩

mutual
/-- **resolving keeps a tree fine**: a redirect whose span `makeheredoc` extended is the last
    child of its parent (nothing in the tree ends after `g`, and only redirects ending at `g` or
    later are extended), so only the clauses marked `+heredoc` can break -/
theorem strict_resolve {len g : Nat} (st : List RedirCell) :
    (n : Node) → Strict len n → EndsBy g n → Done len g st n → Strict len (resolve st n)
  | list p ps, hs, he, hd | pipeline p ps, hs, he, hd | ifN p ps, hs, he, hd
  | forN p ps, hs, he, hd | whileN p ps, hs, he, hd | untilN p ps, hs, he, hd
  | caseN p ps, hs, he, hd | pattern p ps, hs, he, hd | command p ps, hs, he, hd
  | unimplemented p ps, hs, he, hd | function p _ _ ps, hs, he, hd => by
    have hs' := strict_iff.mp hs
    have he' := endsBy_iff.mp he
    have hd' := done_iff.mp hd
    rw [strict_iff]
    refine ⟨?_, ?_⟩
    · rcases hs'.1 with ht | hl | hr
      · exact Or.inl (tainted_resolve st _ hd ht)
      · exact Or.inr (Or.inl (locOK_parent_resolve hl he hd (by simp [resolve, Node.pos])
          (by simp [resolve, spansItsParts]) (by simp [resolve, children, C12.resolveL_eq])))
      · simp [isRW] at hr
    · simp only [resolve, children]
      exact strictL_resolve st ps (fun c hc =>
        ⟨hs'.2 c (by simpa [children] using hc), he'.2 c (by simpa [children] using hc),
         hd'.2 c (by simpa [children] using hc)⟩)
  | compound p l r, hs, he, hd => by
    have hs' := strict_iff.mp hs
    have he' := endsBy_iff.mp he
    have hd' := done_iff.mp hd
    rw [strict_iff]
    refine ⟨?_, ?_⟩
    · rcases hs'.1 with ht | hl | hr
      · exact Or.inl (tainted_resolve st _ hd ht)
      · exact Or.inr (Or.inl (locOK_parent_resolve hl he hd (by simp [resolve, Node.pos])
          (by simp [resolve, spansItsParts]) (by simp [resolve, children, C12.resolveL_eq])))
      · simp [isRW] at hr
    · simp only [resolve, children, List.mem_append]
      rintro c (hc | hc)
      · exact strictL_resolve st l (fun c hc =>
          ⟨hs'.2 c (by simp [children, hc]), he'.2 c (by simp [children, hc]),
           hd'.2 c (by simp [children, hc])⟩) c hc
      · exact strictL_resolve st r (fun c hc =>
          ⟨hs'.2 c (by simp [children, hc]), he'.2 c (by simp [children, hc]),
           hd'.2 c (by simp [children, hc])⟩) c hc
  | redirect p i t o oa hh hid, hs, he, hd => by
    cases hid with
    | none => simpa [resolve] using hs
    | some id =>
      have hs' := strict_iff.mp hs
      have hd' := done_iff.mp hd
      obtain ⟨hsh, hcell⟩ := hd'.1 id p rfl
      simp only [pendShape] at hsh
      obtain ⟨rfl, hout⟩ := hsh
      simp only [resolve]
      cases hst : st[id]? with
      | none =>
        simp only
        rw [strict_iff]
        refine ⟨?_, fun c hc => hs'.2 c (by simpa [children] using hc)⟩
        rcases hs'.1 with ht | hl | hr
        · left
          rw [tainted_iff] at ht ⊢
          rcases ht with ht | ht
          · simp [isD19] at ht
          · exact Or.inr (by simpa [children] using ht)
        · exact Or.inr (Or.inl ⟨hl.ne, hl.rng, hl.kne, hl.kin, hl.ord, hl.fl, hl.kst⟩)
        · simp [isRW] at hr
      | some c =>
        simp only
        obtain ⟨hb, hc⟩ := hcell c hst
        rw [strict_iff]
        refine ⟨?_, ?_⟩
        · rcases hs'.1 with ht | hl | hr
          · left
            rw [tainted_iff] at ht ⊢
            rcases ht with ht | ⟨k, hk, hkt⟩
            · simp [isD19] at ht
            · refine Or.inr ⟨k, ?_, hkt⟩
              simp only [children, Option.toList_none, List.append_nil] at hk
              simp [children, hk]
          · right; left
            have hne := hl.ne
            have hrng := hl.rng
            simp only [Node.pos] at hne hrng
            have hpos : c.pos.1 = p.1 ∧ p.2 ≤ c.pos.2 ∧ c.pos.2 ≤ len := by
              rcases hc with hc | ⟨_, h1, h2, h3, _⟩
              · rw [hc]; exact ⟨rfl, Nat.le_refl _, hrng⟩
              · exact ⟨h1, h2, h3⟩
            refine ⟨?_, ?_, ?_, ?_, ?_, ?_, ?_⟩
            · simp only [Node.pos]; omega
            · simp only [Node.pos]; exact hpos.2.2
            · intro k hk
              simp only [children, List.mem_append, Option.mem_toList] at hk
              rcases hk with hk | hk
              · exact hl.kne k (by simp [children, hk])
              · cases hb' : c.heredoc with
                | none => simp [hb'] at hk
                | some b =>
                  obtain ⟨⟨x, y⟩, v⟩ := b
                  simp only [hb', Option.map_some, Option.some.injEq] at hk
                  subst hk
                  exact (hb x y v hb').2.1
            · intro k hk hkh
              simp only [children, List.mem_append, Option.mem_toList] at hk
              rcases hk with hk | hk
              · obtain ⟨h1, h2⟩ := hl.kin k (by simp [children, hk]) hkh
                simp only [Node.pos] at h1 h2 ⊢
                refine ⟨by omega, ?_⟩
                rcases h2 with h2 | h2
                · left; omega
                · exact Or.inr h2
              · cases hb' : c.heredoc with
                | none => simp [hb'] at hk
                | some b =>
                  simp only [hb', Option.map_some, Option.some.injEq] at hk
                  subst hk
                  simp [isHeredoc] at hkh
            · simp only [children]
              cases ho : o with
              | none => cases c.heredoc <;> rfl
              | some w =>
                cases hb' : c.heredoc with
                | none => rfl
                | some b =>
                  obtain ⟨⟨x, y⟩, v⟩ := b
                  obtain ⟨hw1, hw2⟩ := hout w ho
                  obtain ⟨_, h2⟩ := hl.kin w (by simp [children, ho]) hw1
                  rw [hw2] at h2
                  have h2' : w.pos.2 ≤ p.2 := by
                    rcases h2 with h2 | h2
                    · exact h2
                    · cases h2
                  have := (hb x y v hb').1
                  show (decide (w.pos.2 ≤ x) && true) = true
                  simp only [Bool.and_true, decide_eq_true_eq]
                  omega
            · intro h; simp [spansItsParts] at h
            · intro k hk
              simp only [children, List.mem_append, Option.mem_toList] at hk
              show c.pos.1 ≤ k.pos.1
              rcases hk with hk | hk
              · have := hl.kst k (by simp [children, hk])
                have h' : p.1 ≤ k.pos.1 := this
                omega
              · cases hb' : c.heredoc with
                | none => simp [hb'] at hk
                | some b =>
                  obtain ⟨⟨x, y⟩, v⟩ := b
                  simp only [hb', Option.map_some, Option.some.injEq] at hk
                  subst hk
                  have := (hb x y v hb').1
                  show c.pos.1 ≤ x
                  omega
          · simp [isRW] at hr
        · intro k hk
          simp only [children, List.mem_append, Option.mem_toList] at hk
          rcases hk with hk | hk
          · exact hs'.2 k (by simp [children, hk])
          · cases hb' : c.heredoc with
            | none => simp [hb'] at hk
            | some b =>
              obtain ⟨⟨x, y⟩, v⟩ := b
              simp only [hb', Option.map_some, Option.some.injEq] at hk
              subst hk
              obtain ⟨_, h2, h3⟩ := hb x y v hb'
              exact strict_heredoc_leaf h2 h3
  | operator .., hs, _, _ | reservedword .., hs, _, _ | pipe .., hs, _, _ | word .., hs, _, _
  | assignment .., hs, _, _ | parameter .., hs, _, _ | tilde .., hs, _, _ | heredoc .., hs, _, _
  | commandsubstitution .., hs, _, _ | processsubstitution .., hs, _, _ => by
    simpa [resolve] using hs
theorem strictL_resolve {len g : Nat} (st : List RedirCell) :
    (l : List Node) → (∀ c, c ∈ l → Strict len c ∧ EndsBy g c ∧ Done len g st c) →
    ∀ c, c ∈ resolveL st l → Strict len c
  | [], _ => by simp [resolveL]
  | n :: ns, h => by
    intro c hc
    simp only [resolveL, List.mem_cons] at hc
    rcases hc with heq | hc
    · have := h n List.mem_cons_self
      exact heq ▸ strict_resolve st n this.1 this.2.1 this.2.2
    · exact strictL_resolve st ns (fun c hc => h c (List.mem_cons_of_mem _ hc)) c hc
end

end Bashlex.C03
