/-
  C03, token source, part 3: the walk through `Model/Tokenizer.lean` below `_readtoken`: every
  function keeps the invariant `W` at every lower bound `k < len(line)` of the cursor -- in
  particular the `_eol_ungetc_lookahead` slot stays empty (no `_ungetc` at cursor 0 or beyond the
  end of the line), and the redirect store and queue are not touched.
-/
import Bashlex.Props.C03.TokWalk

namespace Bashlex.C03.Tok
open Bashlex Bashlex.M Bashlex.C10 Bashlex.C11
set_option linter.unusedSimpArgs false
set_option linter.unusedVariables false

variable {L : Str} {sr : List RedirCell} {rk : List (Nat × Bool)} {ps : List Nat} {k : Nat}

/-! ### tape access -/

theorem w_shellmeta (c : Char) : WSat L sr rk ps k (shellmeta c) := by unfold shellmeta; w_walk
theorem w_shellquote (c : Char) : WSat L sr rk ps k (shellquote c) := by unfold shellquote; w_walk
theorem w_shellexp (c : Char) : WSat L sr rk ps k (shellexp c) := by unfold shellexp; w_walk
theorem w_shellbreak (c : Char) : WSat L sr rk ps k (shellbreak c) := by unfold shellbreak; w_walk
macro_rules | `(tactic| w_atom) => `(tactic| exact w_shellmeta _)
macro_rules | `(tactic| w_atom) => `(tactic| exact w_shellquote _)
macro_rules | `(tactic| w_atom) => `(tactic| exact w_shellexp _)
macro_rules | `(tactic| w_atom) => `(tactic| exact w_shellbreak _)

theorem w_peekc (hk : k < L.length) (rqn : Bool) : WSat L sr rk ps k (peekc rqn) := by
  unfold peekc; (try simp only []); w_walk
macro_rules | `(tactic| w_atom) => `(tactic| exact w_peekc (by omega) _)

/-- `readline(False)` (the only call: `makeheredoc`) never calls `_ungetc` -/
theorem w_readline_false : WSat L sr rk ps k (readline false) := by
  unfold readline; simp only [Bool.and_false, Bool.false_eq_true, if_false]; w_walk
macro_rules | `(tactic| w_atom) => `(tactic| exact w_readline_false)

/-! ### `_parse_matched_pair`, `_parse_comsub` -/

theorem w_pushDelimiter (c : Char) : WSat L sr rk ps k (pushDelimiter c) := by unfold pushDelimiter; w_walk
theorem w_popDelimiter : WSat L sr rk ps k popDelimiter := by unfold popDelimiter; (try simp only []); w_walk
theorem w_currentDelimiter : WSat L sr rk ps k currentDelimiter := by unfold currentDelimiter; w_walk
macro_rules | `(tactic| w_atom) => `(tactic| exact w_pushDelimiter _)
macro_rules | `(tactic| w_atom) => `(tactic| exact w_popDelimiter)
macro_rules | `(tactic| w_atom) => `(tactic| exact w_currentDelimiter)

theorem w_mpInit (P : MPParams) : WSat L sr rk ps k (mpInit P) := by
  unfold mpInit; (try simp only []); w_walk
macro_rules | `(tactic| w_atom) => `(tactic| exact w_mpInit _)

theorem w_mpPre (hk : k < L.length) (P : MPParams) (lfc : Bool) (st : MPState) :
    WSat L sr rk ps k (mpPre P lfc st) := by
  unfold mpPre; (try simp only []); w_walk
macro_rules | `(tactic| w_atom) => `(tactic| exact w_mpPre (by omega) _ _ _)

theorem w_handledollarword {pmp : MPParams → M Str} {pcs : CSParams → M Str}
    (hpmp : ∀ P, WSat L sr rk ps k (pmp P)) (hpcs : ∀ P, WSat L sr rk ps k (pcs P)) (P : MPParams)
    (rdquote : Bool) (c : Char) : WSat L sr rk ps k (handledollarword pmp pcs P rdquote c) := by
  unfold handledollarword; (try simp only []); w_walk

theorem w_mpPost {pmp : MPParams → M Str} {pcs : CSParams → M Str}
    (hpmp : ∀ P, WSat L sr rk ps k (pmp P)) (hpcs : ∀ P, WSat L sr rk ps k (pcs P)) (P : MPParams)
    (rdquote : Bool) (st : MPState) (c : Char) : WSat L sr rk ps k (mpPost pmp pcs P rdquote st c) := by
  have hd := w_handledollarword hpmp hpcs
  unfold mpPost; (try simp only []); w_walk

theorem w_csDelimMatches (st : CSState) : WSat L sr rk ps k (csDelimMatches st) := by
  unfold csDelimMatches; (try simp only []); w_walk
macro_rules | `(tactic| w_atom) => `(tactic| exact w_csDelimMatches _)

theorem w_csA (hk : k < L.length) (P : CSParams) (st : CSState) : WSat L sr rk ps k (csA P st) := by
  unfold csA; (try simp only []); w_walk
theorem w_csB (hk : k < L.length) (b : Bool) (st : CSState) (c : Char) :
    WSat L sr rk ps k (csB b st c) := by
  unfold csB; (try simp only []); w_walk
theorem w_csC (hk : k < L.length) (P : CSParams) (b : Bool) (st : CSState) (c : Char) :
    WSat L sr rk ps k (csC P b st c) := by
  unfold csC; (try simp only []); w_walk
theorem w_csD (P : CSParams) (st : CSState) (c : Char) : WSat L sr rk ps k (csD P st c) := by
  unfold csD; (try simp only []); w_walk
macro_rules | `(tactic| w_atom) => `(tactic| exact w_csA (by omega) _ _)
macro_rules | `(tactic| w_atom) => `(tactic| exact w_csB (by omega) _ _ _)
macro_rules | `(tactic| w_atom) => `(tactic| exact w_csC (by omega) _ _ _ _)
macro_rules | `(tactic| w_atom) => `(tactic| exact w_csD _ _ _)

theorem w_csPre (hk : k < L.length) (P : CSParams) (b : Bool) (st : CSState) :
    WSat L sr rk ps k (csPre P b st) := by
  unfold csPre; (try simp only []); w_walk
macro_rules | `(tactic| w_atom) => `(tactic| exact w_csPre (by omega) _ _ _)

theorem w_csPost {pmp : MPParams → M Str} {pcs : CSParams → M Str}
    (hpmp : ∀ P, WSat L sr rk ps k (pmp P)) (hpcs : ∀ P, WSat L sr rk ps k (pcs P)) (P : CSParams)
    (st : CSState) (c : Char) : WSat L sr rk ps k (csPost pmp pcs P st c) := by
  unfold csPost; (try simp only []); w_walk

/-- the two mutually recursive scanners, by induction on the depth fuel -/
theorem w_pmp_pcs (hk : k < L.length) : ∀ fuel,
    (∀ P, WSat L sr rk ps k (parseMatchedPair fuel P)) ∧
    (∀ P, WSat L sr rk ps k (parseComsub fuel P)) := by
  intro fuel
  induction fuel with
  | zero =>
    refine ⟨fun P => ?_, fun P => ?_⟩
    · unfold parseMatchedPair; w_walk
    · unfold parseComsub; w_walk
  | succ fuel ih =>
    obtain ⟨hpmp, hpcs⟩ := ih
    have hpost := w_mpPost hpmp hpcs
    have hcpost := w_csPost hpmp hpcs
    refine ⟨fun P => ?_, fun P => ?_⟩
    · unfold parseMatchedPair; (try simp only []); w_walk
    · unfold parseComsub; (try simp only []); w_walk

theorem w_parseMatchedPair (hk : k < L.length) (fuel : Nat) (P : MPParams) :
    WSat L sr rk ps k (parseMatchedPair fuel P) := (w_pmp_pcs hk fuel).1 P
theorem w_parseComsub (hk : k < L.length) (fuel : Nat) (P : CSParams) :
    WSat L sr rk ps k (parseComsub fuel P) := (w_pmp_pcs hk fuel).2 P
macro_rules | `(tactic| w_atom) => `(tactic| exact w_parseMatchedPair (by omega) _ _)
macro_rules | `(tactic| w_atom) => `(tactic| exact w_parseComsub (by omega) _ _)

/-! ### words -/

theorem w_isAssignment (s : Str) : WSat L sr rk ps k (isAssignment s) := by
  unfold isAssignment; (try simp only []); w_walk
macro_rules | `(tactic| w_atom) => `(tactic| exact w_isAssignment _)

theorem w_specialcasetokens (s : Str) : WSat L sr rk ps k (specialcasetokens s) := by
  unfold specialcasetokens; (try simp only []); w_walk
macro_rules | `(tactic| w_atom) => `(tactic| exact w_specialcasetokens _)

theorem w_handleshellquote (hk : k < L.length) (st : RWState) (c : Char) :
    WSat L sr rk ps k (handleshellquote st c) := by
  unfold handleshellquote; (try simp only []); w_walk
macro_rules | `(tactic| w_atom) => `(tactic| exact w_handleshellquote (by omega) _ _)

theorem w_handleshellexp (hk : k < L.length) (st : RWState) (c : Char) (cd : Option Char) :
    WSat L sr rk ps k (handleshellexp st c cd) := by
  unfold handleshellexp; (try simp only []); w_walk
macro_rules | `(tactic| w_atom) => `(tactic| exact w_handleshellexp (by omega) _ _ _)

theorem w_discardUntil (hk : k < L.length) (c : Char) : WSat L sr rk ps k (discardUntil c) := by
  unfold discardUntil; (try simp only []); w_walk
macro_rules | `(tactic| w_atom) => `(tactic| exact w_discardUntil (by omega) _)

theorem w_tokentypeOfChar (c : Char) : WSat L sr rk ps k (tokentypeOfChar c) := by
  unfold tokentypeOfChar; (try simp only []); w_walk
macro_rules | `(tactic| w_atom) => `(tactic| exact w_tokentypeOfChar _)

theorem w_readtokenMeta (hk : k < L.length) (c : Char) : WSat L sr rk ps k (readtokenMeta c) := by
  unfold readtokenMeta; (try simp only []); w_walk
macro_rules | `(tactic| w_atom) => `(tactic| exact w_readtokenMeta (by omega) _)

end Bashlex.C03.Tok
