/-
  C03, the hypothesis `RootEnds`.

  `RootEnds` (`Props/C03/Run.lean`) says that the root a parser run returns for `s` does not end
  in two newline characters unless the next character is `)`; `_parsedolparen` steps back over
  newlines before the end it reports and needs this for the substitution node to cover its
  command (`keeps_parsedolparen`, the only use).  It is a statement about the TEXT under a span.

  ## What this file proves

  * A RUN-TIME CHECK takes the place of the hypothesis.  `parserRunK` is `parserRun` whose
    nested-parser wrapper raises `foreign "RootEnd" …` when a nested run returns a root violating
    the decidable `rootEndOKb` (`npK`).
      `parserRunK_plain`   whenever the checked run returns, the plain run returns the same result
                           in the same state (C16's relational logic, `rel_level`);
      `parserRunK_spans`   the span theorem for the checked run, WITHOUT any hypothesis (the proof
                           of `parserRun_spans` with the check supplying `RootEndOK`);
      `parseK_sound`       the checked `parse`, when it goes through, is the plain `parse`;
      **`C03_total_checked`**, `C03_total_single_checked`: for every input and all options, if
                           `rootEndsChecked s o = true` (the checked parse goes through: a
                           decidable condition, evaluated per input) then every signature
                           `Spec.spansWF` raises on a tree of the PLAIN `parse` is known.
    No hypothesis is left (`#print axioms`: the three standard ones).  `Props/C05Checked.lean` and
    `Props/C16/Stable.lean` do the same for C05 and C16.
  * `rootEndsChecked_of_rootEnds`: under `RootEnds` the check never fires, i.e. the per-input
    condition holds for every input `parse` accepts: the checked theorems SUBSUME the conditional
    ones (`C03_total_conditional`, `C05_total_conditional`).
  * `rootEndOK_noNLNL`: over a text without two consecutive newline characters the check cannot
    fire, whatever the root.

  ## Is `RootEnds` true?  Exploration

  No counterexample on 8.3 million generated parser runs: batch 1 (5.5 million runs, 9 alphabets)
  checked `rootEndOKb` on the top-level root, "command inside its substitution node" on every
  substitution node, and unknown `spansWF` signatures; batch 2 (2.8 million runs, 8 alphabets,
  150 000 accepted inputs) compared `parse` with the checked `parseK` (`parse` accepts and the
  checked parse raises: never).  Inputs: all sequences of up to 6-7 pieces around `$(`, backquotes,
  `<(`, quoted newlines, line continuations, here-documents with blank lines inside and after the
  body, `;` `&` `&&` `||` `|` before blank lines, compound commands, comments, `time`/`!` with
  `proceedonerror`; strict and non-strict/proceed; in batch 2 every nested run at every depth is
  checked.  The candidates of the task statement, evaluated:
    `$('a⏎⏎')`, `$('a⏎⏎' )`   the word ends with its closing QUOTE: root (2,7) ends in `'`;
    `$(a⏎⏎)`, `$(a⏎⏎b)`        D9: the nested parser stops at the first NEWLINE (which is dropped:
                                `simple_list_terminator`); root `a` = (2,3), node (0,4);
    `$({ a⏎⏎})`                 the NEWLINE after `a` is dropped (`list0`), root ends with `}`;
    `$({ a;b⏎⏎} )`              here the NEWLINE IS an operator leaf, but of the inner list: the
                                root is the compound and ends with `}`;
    `$(a <<E⏎x⏎E⏎⏎)`            the root `a <<E` = (2,7) is not extended over the body (only the
                                redirect is, D11); the body's value ends with the delimiter;
    `$(a;\⏎⏎)`, `$(a &\⏎\⏎⏎)`  the operator's span is the operator alone: roots (2,4), (2,5);
    `$(a\⏎⏎)`                  the word `a` spans `a` only; root (2,3).
  Why it holds: the root is the value of `simple_list`, whose last terminal is never NEWLINE
  (`simple_list : simple_list1 | simple_list1 '&' | simple_list1 ';'`, and a `pipeline_command`
  ends with a word, a redirection target, a reserved word or `!`/`time`); the root's end is the
  end of that token (or 0 for D19's pipeline at (0,0)); the text of a token other than NEWLINE
  does not end in a raw newline -- at most in the newline of a line continuation, which follows a
  backslash.

  ## Why `theorem rootEnds (hT : C04.TokText) : RootEnds` is NOT delivered

  A proof needs three facts, none of which is available from the finished developments:
  (S)  structural: the root's end IS the end of a delivered token that is not NEWLINE.  C03's
       `Strict` pins a node's end to its last child's only for commands, pipelines and lists
       (`LocOK.fl`), loses it when the last child is a redirect carrying a body, and says nothing
       above a D19 pipeline; "the last token of the root is not NEWLINE" is a fact about the
       grammar (the last terminal of `simple_list`) that no invariant records (C12's sorts do not
       separate the operators of `simple_list` from those of `compound_list`; C05's groups allow
       a NEWLINE leaf anywhere).  It needs a new pass over all 39 action functions in the
       state-aware logic (`nodePos` reads the redirect store).
  (T)  text: `TokText` (`TT line t`): for a token spanning `sl` with value `v`,
       `stripContinuations sl = stripContinuations v ++ r`.  If `sl` ended in two raw newlines the
       residue would be empty and `v` would end in a newline.
  (W)  … and `TT` does NOT exclude that: it bounds the value of a token by the line but says
       nothing about its last character.  "The value of a WORD / reserved-word token does not end
       in a newline" is a further fact about `_readtokenword` (a newline always breaks a word; an
       escaped newline is a continuation and is not appended) that is not state-agnostic (the
       syntax table and the tape are environment queries: `shellbreak`, `getc` after `ungetc`)
       and is proved nowhere.  So `RootEnds` does not follow from `TokText` alone; it would have
       to be added to the (validated, unproved) hypothesis.
  The run-time check avoids all three and leaves nothing unproved.
-/
import Bashlex.Props.C03Total
import Bashlex.Props.C16

namespace Bashlex.C03
open Bashlex Bashlex.Spec Bashlex.Node Bashlex.M Bashlex.LR Bashlex.C12
set_option linter.unusedSimpArgs false
set_option linter.unusedVariables false

/-! ## the check -/

/-- `RootEndOK`, decidable -/
def rootEndOKb (s : Str) (n : Node) : Bool :=
  match s[n.pos.2]? with
  | none => true
  | some c => c == ')' || decide (n.pos.2 ≤ backOverNewlines s n.pos.2 + 1)

theorem rootEndOK_of_b {s : Str} {n : Node} (h : rootEndOKb s n = true) : RootEndOK s n := by
  intro c hc hne
  unfold rootEndOKb at h
  rw [hc] at h
  simp only [Bool.or_eq_true, beq_iff_eq, decide_eq_true_eq] at h
  rcases h with h | h
  · exact absurd h hne
  · exact h

theorem rootEndOKb_of {s : Str} {n : Node} (h : RootEndOK s n) : rootEndOKb s n = true := by
  unfold rootEndOKb
  cases hc : s[n.pos.2]? with
  | none => rfl
  | some c =>
    simp only [Bool.or_eq_true, beq_iff_eq, decide_eq_true_eq]
    by_cases hp : c = ')'
    · exact Or.inl hp
    · exact Or.inr (h c hc hp)

def rootOKb (s : Str) (r : Option Node) : Bool :=
  match r with
  | some n => rootEndOKb s n
  | none => true

/-- the nested parser with the run-time check (`chk = false`: the plain nested parser) -/
def npK (chk : Bool) (rec : M (Option Node)) : NestedParse := fun string dolparen => do
  let outer ← get
  set (C16.nestedInit outer string dolparen)
  let r ← rec
  let inner ← get
  if chk && !rootOKb string r then M.foreign "RootEnd" "the root of a nested parse ends in two newlines"
  set { outer with ps := inner.ps }
  pure r

/-- **the checked parser**: `parserRun`, except that a nested run returning a root that violates
    `RootEndOK` raises -/
def parserRunK : Nat → M (Option Node)
  | 0 => M.raise (.outOfFuel "nesting")
  | depth + 1 => C16.level (npK true (parserRunK depth))

theorem parserRunK_succ (d : Nat) : parserRunK (d + 1) = C16.level (npK true (parserRunK d)) := rfl

theorem npPlain_eq_npK (rec : M (Option Node)) : C16.npPlain rec = npK false rec := by
  funext string dolparen
  simp [C16.npPlain, npK, C16.nestedInit]

/-! ## the checked run agrees with the plain run whenever it returns -/

section plain
attribute [local instance] C16.stdEnvRel
open C16

theorem rel_npK_eq {rec₁ rec₂ : M (Option Node)} (hrec : Rel Eq Eq rec₁ rec₂ Eq) (chk : Bool) :
    NPR Eq Eq (npK chk rec₁) (npPlain rec₂) := by
  rw [npPlain_eq_npK]
  intro string dolparen
  unfold npK
  refine Rel.bind Rel.get ?_
  rintro outer _ rfl
  refine Rel.bind (Rel.set rfl) ?_
  intro _ _ _
  refine Rel.bind hrec ?_
  rintro r _ rfl
  refine Rel.bind Rel.get ?_
  rintro inner _ rfl
  by_cases hc : (chk && !rootOKb string r) = true
  · simp only [hc, if_true]
    exact Rel.noRet (NoRet.bind_left NoRet.foreign)
  · simp only [hc, Bool.false_and, Bool.false_eq_true, if_false, pure_bind]
    refine Rel.bind (Rel.set rfl) ?_
    intro _ _ _
    exact Rel.pure (orel_eq rfl)

/-- **the checked run, when it returns, is the plain run** (same result, same final state,
    environments equal up to the shared syntax-table store) -/
theorem parserRunK_plain : ∀ (d : Nat), Rel Eq Eq (parserRunK d) (parserRun d) Eq := by
  intro d
  induction d with
  | zero => exact Rel.raise_left
  | succ d ih =>
    rw [C16.parserRun_succ]
    show Rel Eq Eq (level _) (level _) Eq
    refine (rel_level sok_eq (f := idf) (g := idf) (fun _ _ => rfl)
      (rel_expandword_eq (rel_npK_eq ih _))).conseq ?_
    intro a b h
    exact orel_idf h

/-- a state-agnostic fact about a program carries over to a program that refines it -/
theorem sat_of_rel {α : Type} {m₁ m₂ : M α} {P : α → Prop} {E : Exn → Prop}
    (h : Rel Eq Eq m₁ m₂ Eq) (h2 : Sat m₂ P E) : Sat m₁ P := by
  intro l e
  rcases hr : m₁.run l e with ⟨r, e'⟩
  cases r with
  | error x => trivial
  | ok v =>
    obtain ⟨a, l'⟩ := v
    obtain ⟨a₂, l₂', e₂', h3, rfl, _, _⟩ := h l l e e rfl (EnvR.refl e) a l' e' hr
    exact h2.ok h3

end plain

/-! ## the span theorem for the checked run, without hypothesis -/

section spans
attribute [local instance] C16.stdEnvRel

theorem orel_eq_eq {r₁ r₂ : Option Node} (h : C16.ORel Eq r₁ r₂) : r₁ = r₂ := by
  cases r₁ <;> cases r₂ <;> simp only [C16.ORel] at h <;> first | rfl | exact h.elim | skip
  rw [h]

theorem npok_npK (d : Nat) : NPOK (npK true (parserRunK d)) := by
  intro s b
  have h : Sat (C16.npPlain (parserRun d) s b) (fun r => ∀ n, r = some n → InCls .top n) :=
    npok_npOf d s b
  exact sat_of_rel ((rel_npK_eq (parserRunK_plain d) true s b).conseq (fun _ _ => orel_eq_eq)) h

/-- what one call of the checked nested parser does -/
theorem run_npK (inner : M (Option Node)) (s : Str) (b : Bool) (l : Local) (e : Env) :
    M.run (npK true inner s b) l e =
      match M.run inner (C16.nestedInit l s b) e with
      | (.ok (r, l'), e') =>
        if rootOKb s r = true then (.ok (r, { l with ps := l'.ps }), e')
        else (.error (.foreign "RootEnd" "the root of a nested parse ends in two newlines"), e')
      | (.error x, e') => (.error x, e') := by
  unfold npK
  simp only [M.run_bind, C10.run_get, C10.run_set]
  generalize M.run inner _ e = x
  rcases x with ⟨r, e'⟩
  cases r with
  | error x => rfl
  | ok v =>
    obtain ⟨r, l'⟩ := v
    simp only [Bool.true_and]
    by_cases hc : rootOKb s r = true
    · simp only [hc, Bool.not_true, Bool.false_eq_true, if_false, if_true, M.run_pure, C10.run_set]
      rfl
    · simp only [hc, Bool.not_false, if_true, if_false]
      rfl

theorem npSpans_npK (d : Nat)
    (ih : ∀ s, SatS (parserRunK d) (InitState s) (fun r _ _ => ∀ n, r = some n → TopOK s.length n)) :
    NPSpans TI (npK true (parserRunK d)) := by
  intro s b len F st
  rintro l e ⟨hti, hst⟩
  rw [run_npK]
  rcases hr : M.run (parserRunK d) (C16.nestedInit l s b) e with ⟨r, e'⟩
  cases r with
  | error x => exact True.intro
  | ok v =>
    obtain ⟨r, l'⟩ := v
    simp only []
    by_cases hc : rootOKb s r = true
    · rw [if_pos hc]
      obtain ⟨r₂, l₂', e₂', h2, hr2, hl2, hE2⟩ :=
        parserRunK_plain d _ _ e e rfl (C16.EnvR.refl e) r l' e' hr
      subst hr2; subst hl2
      have hE : C16.EnvR e e₂' := C16.nestedEnv_thm d (C16.nestedInit l s b) e r l' e₂' rfl rfl h2
      have hE' : C16.EnvR e e' := hE.trans hE2.symm
      refine ⟨⟨(tokSpans_ps len F l e l'.ps hti).env hE'.1.symm hE'.2.1.symm, hst⟩, ?_⟩
      intro n hn
      subst hn
      have hinit : InitState s (C16.nestedInit l s b) e := ⟨rfl, rfl, rfl, rfl, Or.inl rfl⟩
      exact ⟨(ih s).ok hinit hr n rfl, rootEndOK_of_b hc⟩
    · rw [if_neg hc]; exact True.intro

/-- **one checked parser run**: from a fresh parser object over `s`, every tree the checked run
    returns is fine for `len(s)` -- no hypothesis -/
theorem parserRunK_spans :
    ∀ d s, SatS (parserRunK d) (InitState s) (fun r _ _ => ∀ n, r = some n → TopOK s.length n) := by
  intro d
  induction d with
  | zero => intro s; exact SatS.raise trivial
  | succ d ih =>
    intro s
    rw [parserRunK_succ]
    unfold C16.level
    have hT := tokSpans
    have hnps := npSpans_npK d ih
    have hH := spans_hooks (len := s.length) hT (npok_npK d) (wordContract hT _ hnps s.length)
    refine SatS.bind (SatS.weaken (run_sound_ord real_WF _ hH 1073741824) ?_ (fun _ _ _ h => h)
      (fun _ _ => trivial)) (fun res => ?_)
    · intro l e hinit
      refine ⟨⟨0, 0, Nat.le_refl 0, Nat.le_refl 0, hT.init s l e hinit, ?_⟩, ?_, ?_⟩
      · intro x hx; cases hx
      · intro x hx; cases hx
      · intro x hx; cases hx
    · refine SatS.bind SatS.get (fun l => ?_)
      split
      · rename_i n _ _ _
        refine SatS.pure ?_
        rintro l' e' ⟨rfl, hgood⟩ m hm
        cases hm
        obtain ⟨hs, hroot, hseal, g, hends, hdone⟩ := hgood n rfl
        refine ⟨strict_resolve _ n hs hends hdone, noPend_resolve _ n hseal, ?_⟩
        rcases hroot with ht | hne
        · exact Or.inl (tainted_resolve _ n hdone ht)
        · obtain ⟨e1, e2⟩ := ext_pos_resolve hdone
          right; omega
      · exact SatS.pure (fun _ _ _ n hn => by cases hn)

end spans

/-! ## the checked entry points -/

/-- `runParser` with the checked parser -/
def runParserK (s : Str) (o : Opts) (touched : List Char) : Except Exn (Option Node) × List Char :=
  let env : Env := { tape := Tape.ofInput s, strict := o.strict, proceed := o.proceed, touched := touched }
  let (r, env') := (parserRunK maxDepth).run { limit := o.limit } env
  (r.map (·.1), env'.touched)

def parseLoopK (s : Str) (o : Opts) :
    Nat → Nat → List Node → List Char → Except Exn (List Node) × List Char
  | 0, _, _, touched => (.error (.outOfFuel "parse"), touched)
  | fuel + 1, index, parts, touched =>
    if index < s.length then
      match runParserK (s.drop index) o touched with
      | (.error e, t) => (.error e, t)
      | (.ok none, t) => (.ok parts, t)
      | (.ok (some part), t) =>
        let part := part.shift index
        parseLoopK s o fuel (max (nextIndex part) (index + 1)) (parts ++ [part]) t
    else (.ok parts, touched)

/-- `parse` with the checked parser: raises `RootEnd` when a nested parser returns a root that
    ends in two newlines and is not followed by `)` -/
def parseK (s : Str) (o : Opts := {}) : Outcome × List Char :=
  match runParserK s o [] with
  | (.error e, t) => (.exn e, t)
  | (.ok none, t) => (.parts [], t)
  | (.ok (some first), t) =>
    match parseLoopK s o (s.length + 1) (max (nextIndex first) 1) [first] t with
    | (.error e, t) => (.exn e, t)
    | (.ok parts, t) => (.parts parts, t)

/-- **the per-input condition** (decidable): the checked parse goes through -/
def rootEndsChecked (s : Str) (o : Opts) : Bool :=
  match (parseK s o).1 with
  | .parts _ => true
  | _ => false

section entry
attribute [local instance] C16.stdEnvRel

theorem runParserK_ok {s : Str} {o : Opts} {t : List Char} {r : Option Node}
    (h : (runParserK s o t).1 = .ok r) :
    ∃ l' e', (parserRunK maxDepth).run { limit := o.limit }
      { tape := Tape.ofInput s, strict := o.strict, proceed := o.proceed, touched := t } =
      (.ok (r, l'), e') := by
  unfold runParserK at h
  simp only [] at h
  rcases hr : (parserRunK maxDepth).run { limit := o.limit }
      { tape := Tape.ofInput s, strict := o.strict, proceed := o.proceed, touched := t } with ⟨x, e'⟩
  rw [hr] at h
  cases x with
  | error x => simp [Except.map] at h
  | ok v =>
    obtain ⟨a, l'⟩ := v
    simp only [Except.map] at h
    cases h
    exact ⟨l', e', rfl⟩

/-- the plain run returns what the checked run returns -/
theorem runParserK_plain (s : Str) (o : Opts) (t₁ t₂ : List Char) {r : Option Node}
    (h : (runParserK s o t₁).1 = .ok r) : (runParser s o t₂).1 = .ok r := by
  obtain ⟨l', e', hr⟩ := runParserK_ok h
  obtain ⟨r₂, l₂', e₂', h2, hR, _, _⟩ := parserRunK_plain maxDepth
    { limit := o.limit } { limit := o.limit }
    { tape := Tape.ofInput s, strict := o.strict, proceed := o.proceed, touched := t₁ }
    { tape := Tape.ofInput s, strict := o.strict, proceed := o.proceed, touched := t₂ } rfl
    ⟨rfl, rfl, rfl⟩ r l' e' hr
  subst hR
  exact C16.runParser_of_run h2

theorem runParserK_spans {s : Str} {o : Opts} {t : List Char} {n : Node}
    (h : (runParserK s o t).1 = .ok (some n)) : TopOK s.length n := by
  obtain ⟨l', e', hr⟩ := runParserK_ok h
  have hinit : InitState s ({ limit := o.limit } : Local)
      { tape := Tape.ofInput s, strict := o.strict, proceed := o.proceed, touched := t } :=
    ⟨rfl, rfl, rfl, rfl, Or.inr ⟨rfl, rfl⟩⟩
  exact (parserRunK_spans maxDepth s).ok hinit hr n rfl

theorem parseLoopK_plain (s : Str) (o : Opts) :
    ∀ (fuel index : Nat) (parts : List Node) (t₁ t₂ : List Char) (ps : List Node),
      (parseLoopK s o fuel index parts t₁).1 = .ok ps →
      (parseLoop s o fuel index parts t₂).1 = .ok ps := by
  intro fuel
  induction fuel with
  | zero => intro index parts t₁ t₂ ps h; simp [parseLoopK] at h
  | succ fuel ih =>
    intro index parts t₁ t₂ ps h
    unfold parseLoopK at h
    unfold parseLoop
    split at h
    · rename_i hlt
      rw [if_pos hlt]
      rcases hr : runParserK (s.drop index) o t₁ with ⟨r, t'⟩
      rw [hr] at h
      cases r with
      | error e => simp only [] at h; cases h
      | ok v =>
        have h2 := runParserK_plain (s.drop index) o t₁ t₂ (r := v) (by rw [hr])
        rcases hr2 : runParser (s.drop index) o t₂ with ⟨r2, t2'⟩
        rw [hr2] at h2
        simp only [] at h2
        subst h2
        cases v with
        | none => simp only [] at h ⊢; cases h; rfl
        | some part =>
          simp only [] at h ⊢
          exact ih _ _ t' t2' ps h
    · rename_i hlt
      rw [if_neg hlt]
      cases h; rfl

/-- **the checked parse, when it goes through, is the plain parse** -/
theorem parseK_sound (s : Str) (o : Opts) (parts : List Node)
    (h : (parseK s o).1 = .parts parts) : (parse s o).1 = .parts parts := by
  unfold parseK at h
  unfold parse
  rcases hr : runParserK s o [] with ⟨r, t⟩
  rw [hr] at h
  cases r with
  | error e => simp only [] at h; cases h
  | ok v =>
    have h2 := runParserK_plain s o [] [] (r := v) (by rw [hr])
    rcases hr2 : runParser s o [] with ⟨r2, t2⟩
    rw [hr2] at h2
    simp only [] at h2
    subst h2
    cases v with
    | none => simp only [] at h ⊢; exact h
    | some first =>
      simp only [] at h ⊢
      rcases hl : parseLoopK s o (s.length + 1) (max (nextIndex first) 1) [first] t with ⟨r3, t3⟩
      rw [hl] at h
      cases r3 with
      | error e => simp only [] at h; cases h
      | ok ps =>
        simp only [] at h
        cases h
        have := parseLoopK_plain s o _ _ _ t t2 parts (by rw [hl])
        rcases hl2 : parseLoop s o (s.length + 1) (max (nextIndex first) 1) [first] t2 with ⟨r4, t4⟩
        rw [hl2] at this
        simp only [] at this
        subst this
        rfl

theorem parseLoopK_spans (s : Str) (o : Opts) :
    ∀ (fuel index : Nat) (parts : List Node) (touched : List Char) (ps : List Node),
      (∀ n, n ∈ parts → Strict s.length n) → (parseLoopK s o fuel index parts touched).1 = .ok ps →
      ∀ n, n ∈ ps → Strict s.length n := by
  intro fuel
  induction fuel with
  | zero => intro index parts touched ps _ h; simp [parseLoopK] at h
  | succ fuel ih =>
    intro index parts touched ps hparts h
    unfold parseLoopK at h
    split at h
    · rename_i hidx
      rcases hr : runParserK (s.drop index) o touched with ⟨r, t⟩
      rw [hr] at h
      cases r with
      | error e => simp only [] at h; cases h
      | ok v =>
        cases v with
        | none => simp only [] at h; cases h; exact hparts
        | some part =>
          simp only [] at h
          have hp : TopOK (s.drop index).length part := runParserK_spans (by rw [hr])
          refine ih _ _ _ ps ?_ h
          intro n hn
          rcases List.mem_append.mp hn with hn | hn
          · exact hparts n hn
          · simp at hn; subst hn
            refine strict_shift_top hp.strict ?_
            rw [List.length_drop]
            omega
    · cases h; exact hparts

/-- every part the checked parse returns is fine -/
theorem parseK_strict (s : Str) (o : Opts) (parts : List Node)
    (h : (parseK s o).1 = .parts parts) : ∀ n, n ∈ parts → Strict s.length n := by
  unfold parseK at h
  rcases hr : runParserK s o [] with ⟨r, t⟩
  rw [hr] at h
  cases r with
  | error e => simp only [] at h; cases h
  | ok v =>
    cases v with
    | none => simp only [] at h; cases h; intro n hn; cases hn
    | some first =>
      simp only [] at h
      have hp : TopOK s.length first := runParserK_spans (by rw [hr])
      rcases hl : parseLoopK s o (s.length + 1) (max (nextIndex first) 1) [first] t with ⟨r2, t2⟩
      rw [hl] at h
      cases r2 with
      | error e => simp only [] at h; cases h
      | ok ps =>
        simp only [] at h
        cases h
        exact parseLoopK_spans s o (s.length + 1) (max (nextIndex first) 1) [first] t _
          (by intro n hn; simp at hn; subst hn; exact hp.strict)
          (by rw [hl])

end entry

/-- if the checked parse goes through, it returns what the plain parse returns -/
theorem parseK_of_checked {s : Str} {o : Opts} {parts : List Node}
    (hc : rootEndsChecked s o = true) (h : (parse s o).1 = .parts parts) :
    (parseK s o).1 = .parts parts := by
  unfold rootEndsChecked at hc
  rcases hK : (parseK s o).1 with ps | _ | _ | _ <;> rw [hK] at hc <;> simp only [] at hc <;>
    try exact absurd hc (by decide)
  have := parseK_sound s o ps hK
  rw [h] at this
  cases this
  rfl

/-- C03 in terms of `Strict`, for the plain `parse`, under the per-input condition -/
theorem parse_strict_checked (s : Str) (o : Opts) (parts : List Node)
    (hc : rootEndsChecked s o = true) (h : (parse s o).1 = .parts parts) :
    ∀ n, n ∈ parts → Strict s.length n :=
  parseK_strict s o parts (parseK_of_checked hc h)

/-- **C03 (model level), `parse`, without hypothesis**: for every input and all options, if the
    checked parse goes through (`rootEndsChecked s o`, a decidable condition on the input: no
    nested parser run returns a root that ends in two newlines and is not followed by `)`), every
    clause of `Spec.spansWF` violated by a tree `parse` returns is a known defect
    (`empty-span:reservedword` (D19), or marked `+emptydesc` (D19), or marked `+heredoc` (D11)). -/
theorem C03_total_checked (s : Str) (o : Opts) (parts : List Node)
    (hc : rootEndsChecked s o = true) (h : (parse s o).1 = .parts parts) :
    ∀ n ∈ parts, ∀ v ∈ Spec.spansWF s.length n, C03_known v = true := by
  intro n hn v hv
  exact strict_known (parse_strict_checked s o parts hc h n hn) v hv

/-! ## the checked theorem subsumes the conditional one -/

section converse
attribute [local instance] C16.stdEnvRel
open C16

theorem run_npPlain (inner : M (Option Node)) (s : Str) (b : Bool) (l : Local) (e : Env) :
    M.run (npPlain inner s b) l e =
      match M.run inner (nestedInit l s b) e with
      | (.ok (r, l'), e') => (.ok (r, { l with ps := l'.ps }), e')
      | (.error x, e') => (.error x, e') := by
  unfold npPlain nestedInit
  simp only [M.run_bind, C10.run_get, C10.run_set]
  generalize M.run inner _ e = x
  rcases x with ⟨r, e'⟩
  cases r with
  | error x => rfl
  | ok v => obtain ⟨r, l'⟩ := v; rfl

/-- under `RootEnds` the check never fires: the plain nested parser is refined by the checked one -/
theorem rel_npK_conv (hR : RootEnds) {d : Nat} (hrec : Rel Eq Eq (parserRun d) (parserRunK d) Eq) :
    NPR Eq Eq (npPlain (parserRun d)) (npK true (parserRunK d)) := by
  intro s b l₁ l₂ e₁ e₂ hl hE a l₁' e₁' hr
  subst hl
  rw [run_npPlain] at hr
  rcases h1 : M.run (parserRun d) (nestedInit l₁ s b) e₁ with ⟨r, e'⟩
  rw [h1] at hr
  cases r with
  | error x => cases hr
  | ok v =>
    obtain ⟨r, l'⟩ := v
    simp only [] at hr
    cases hr
    obtain ⟨r₂, l₂', e₂', h2, hr2, hl2, hE2⟩ := hrec _ _ e₁ e₂ rfl hE a l' e₁' h1
    subst hr2; subst hl2
    have hinit : InitState s (nestedInit l₁ s b) e₁ := ⟨rfl, rfl, rfl, rfl, Or.inl rfl⟩
    have hok : rootOKb s a = true := by
      cases a with
      | none => rfl
      | some n => exact rootEndOKb_of ((hR d s).ok hinit h1 n rfl)
    refine ⟨a, { l₁ with ps := l'.ps }, e₂', ?_, orel_eq rfl, rfl, hE2⟩
    rw [run_npK, h2]
    simp only [hok, if_true]

theorem parserRun_K (hR : RootEnds) : ∀ (d : Nat), Rel Eq Eq (parserRun d) (parserRunK d) Eq := by
  intro d
  induction d with
  | zero => exact Rel.raise_left
  | succ d ih =>
    rw [C16.parserRun_succ, parserRunK_succ]
    refine (rel_level sok_eq (f := idf) (g := idf) (fun _ _ => rfl)
      (rel_expandword_eq (rel_npK_conv hR ih))).conseq ?_
    intro a b h
    exact orel_idf h

theorem runParser_ok' {s : Str} {o : Opts} {t : List Char} {r : Option Node}
    (h : (runParser s o t).1 = .ok r) :
    ∃ l' e', (parserRun maxDepth).run { limit := o.limit }
      { tape := Tape.ofInput s, strict := o.strict, proceed := o.proceed, touched := t } =
      (.ok (r, l'), e') := by
  unfold runParser at h
  simp only [] at h
  rcases hr : (parserRun maxDepth).run { limit := o.limit }
      { tape := Tape.ofInput s, strict := o.strict, proceed := o.proceed, touched := t } with ⟨x, e'⟩
  rw [hr] at h
  cases x with
  | error x => simp [Except.map] at h
  | ok v =>
    obtain ⟨a, l'⟩ := v
    simp only [Except.map] at h
    cases h
    exact ⟨l', e', rfl⟩

theorem runParserK_of_run {s : Str} {o : Opts} {t : List Char} {r : Option Node} {l' : Local}
    {e' : Env}
    (h : (parserRunK maxDepth).run { limit := o.limit }
      { tape := Tape.ofInput s, strict := o.strict, proceed := o.proceed, touched := t } =
      (.ok (r, l'), e')) : (runParserK s o t).1 = .ok r := by
  unfold runParserK
  simp only []
  rw [h]
  rfl

theorem runParser_K (hR : RootEnds) (s : Str) (o : Opts) (t₁ t₂ : List Char) {r : Option Node}
    (h : (runParser s o t₁).1 = .ok r) : (runParserK s o t₂).1 = .ok r := by
  obtain ⟨l', e', hr⟩ := runParser_ok' h
  obtain ⟨r₂, l₂', e₂', h2, hR2, _, _⟩ := parserRun_K hR maxDepth
    { limit := o.limit } { limit := o.limit }
    { tape := Tape.ofInput s, strict := o.strict, proceed := o.proceed, touched := t₁ }
    { tape := Tape.ofInput s, strict := o.strict, proceed := o.proceed, touched := t₂ } rfl
    ⟨rfl, rfl, rfl⟩ r l' e' hr
  subst hR2
  exact runParserK_of_run h2

theorem parseLoop_K (hR : RootEnds) (s : Str) (o : Opts) :
    ∀ (fuel index : Nat) (parts : List Node) (t₁ t₂ : List Char) (ps : List Node),
      (parseLoop s o fuel index parts t₁).1 = .ok ps →
      (parseLoopK s o fuel index parts t₂).1 = .ok ps := by
  intro fuel
  induction fuel with
  | zero => intro index parts t₁ t₂ ps h; simp [parseLoop] at h
  | succ fuel ih =>
    intro index parts t₁ t₂ ps h
    unfold parseLoop at h
    unfold parseLoopK
    split at h
    · rename_i hlt
      rw [if_pos hlt]
      rcases hr : runParser (s.drop index) o t₁ with ⟨r, t'⟩
      rw [hr] at h
      cases r with
      | error e => simp only [] at h; cases h
      | ok v =>
        have h2 := runParser_K hR (s.drop index) o t₁ t₂ (r := v) (by rw [hr])
        rcases hr2 : runParserK (s.drop index) o t₂ with ⟨r2, t2'⟩
        rw [hr2] at h2
        simp only [] at h2
        subst h2
        cases v with
        | none => simp only [] at h ⊢; cases h; rfl
        | some part =>
          simp only [] at h ⊢
          exact ih _ _ t' t2' ps h
    · rename_i hlt
      rw [if_neg hlt]
      cases h; rfl

/-- **`RootEnds` implies the per-input condition** for every input `parse` accepts: the checked
    theorems subsume the conditional ones (`C03_total_conditional`, `C05_total_conditional`) -/
theorem rootEndsChecked_of_rootEnds (hR : RootEnds) (s : Str) (o : Opts) (parts : List Node)
    (h : (parse s o).1 = .parts parts) : rootEndsChecked s o = true := by
  have key : (parseK s o).1 = .parts parts := by
    unfold parse at h
    unfold parseK
    rcases hr : runParser s o [] with ⟨r, t⟩
    rw [hr] at h
    cases r with
    | error e => simp only [] at h; cases h
    | ok v =>
      have h2 := runParser_K hR s o [] [] (r := v) (by rw [hr])
      rcases hr2 : runParserK s o [] with ⟨r2, t2⟩
      rw [hr2] at h2
      simp only [] at h2
      subst h2
      cases v with
      | none => simp only [] at h ⊢; exact h
      | some first =>
        simp only [] at h ⊢
        rcases hl : parseLoop s o (s.length + 1) (max (nextIndex first) 1) [first] t with ⟨r3, t3⟩
        rw [hl] at h
        cases r3 with
        | error e => simp only [] at h; cases h
        | ok ps =>
          simp only [] at h
          cases h
          have := parseLoop_K hR s o _ _ _ t t2 parts (by rw [hl])
          rcases hl2 : parseLoopK s o (s.length + 1) (max (nextIndex first) 1) [first] t2 with ⟨r4, t4⟩
          rw [hl2] at this
          simp only [] at this
          subst this
          rfl
  unfold rootEndsChecked
  rw [key]

end converse

/-! ## `parsesingle` -/

def parsesingleK (s : Str) (o : Opts := {}) : Outcome × List Char :=
  match runParserK s o [] with
  | (.error e, t) => (.exn e, t)
  | (.ok n, t) => (.single n, t)

def rootEndsCheckedSingle (s : Str) (o : Opts) : Bool :=
  match (parsesingleK s o).1 with
  | .single _ => true
  | _ => false

/-- **C03 (model level), `parsesingle`, without hypothesis** -/
theorem C03_total_single_checked (s : Str) (o : Opts) (n : Node)
    (hc : rootEndsCheckedSingle s o = true) (h : (parsesingle s o).1 = .single (some n)) :
    ∀ v ∈ Spec.spansWF s.length n, C03_known v = true := by
  intro v hv
  unfold rootEndsCheckedSingle parsesingleK at hc
  unfold parsesingle at h
  rcases hr : runParserK s o [] with ⟨r, t⟩
  rw [hr] at hc
  cases r with
  | error e => simp only [] at hc; exact absurd hc (by decide)
  | ok v' =>
    have h2 := runParserK_plain s o [] [] (r := v') (by rw [hr])
    rcases hr2 : runParser s o [] with ⟨r2, t2⟩
    rw [hr2] at h h2
    simp only [] at h2
    subst h2
    simp only [] at h
    cases h
    exact strict_known (runParserK_spans (by rw [hr])).strict v hv

/-! ## when the check cannot fire: no two consecutive newlines -/

/-- `s` holds no two consecutive newline characters -/
def NoNLNL (s : Str) : Prop := ∀ i, ¬ (s[i]? = some '\n' ∧ s[i + 1]? = some '\n')

theorem backOverNewlines_noNLNL {s : Str} (h : NoNLNL s) : ∀ e, e ≤ backOverNewlines s e + 1
  | 0 => Nat.zero_le _
  | e + 1 => by
    unfold backOverNewlines
    split
    · rename_i hc
      have hc' : s[e]? = some '\n' := by simpa using hc
      cases e with
      | zero => simp [backOverNewlines]
      | succ e' =>
        have hne : ¬ (s[e']? = some '\n') := fun h1 => h e' ⟨h1, hc'⟩
        have : backOverNewlines s (e' + 1) = e' + 1 := by
          unfold backOverNewlines
          rw [if_neg (by simpa using hne)]
        omega
    · exact Nat.le_succ _

/-- over a text without two consecutive newlines every root passes the check -/
theorem rootEndOK_noNLNL {s : Str} (h : NoNLNL s) (n : Node) : RootEndOK s n :=
  fun _ _ _ => backOverNewlines_noNLNL h _

/-! ## witnesses (kernel-evaluated) -/

/-- the check is not vacuous: a root `a⏎⏎` followed by `b` is rejected -/
theorem witness_check_rejects :
    rootEndOKb "a\n\nb".toList (.command (0, 3) [.word (0, 1) ['a'] []]) = false := by decide

/-- quoted newlines at the end of a word: the word ends with its closing quote -/
theorem witness_quoted : rootEndsChecked "$('a\n\n' )".toList {} = true := by decide +kernel
/-- D9: only the first line of the body is parsed; the root is `a` -/
theorem witness_two_lines : rootEndsChecked "$(a\n\nb)".toList {} = true := by decide +kernel
/-- a here-document body inside a substitution, blank line after it -/
theorem witness_heredoc : rootEndsChecked "$(a <<E\nx\nE\n\n)".toList {} = true := by
  decide +kernel
/-- an operator followed by line continuations and a blank line: its span is the operator alone -/
theorem witness_cont : rootEndsChecked "$(a &\\\n\\\n\n)".toList {} = true := by decide +kernel

end Bashlex.C03

#print axioms Bashlex.C03.parserRunK_plain
#print axioms Bashlex.C03.parserRunK_spans
#print axioms Bashlex.C03.parseK_sound
#print axioms Bashlex.C03.C03_total_checked
#print axioms Bashlex.C03.C03_total_single_checked
#print axioms Bashlex.C03.rootEndOK_noNLNL
#print axioms Bashlex.C03.rootEndsChecked_of_rootEnds
