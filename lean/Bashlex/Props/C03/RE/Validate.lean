/-
  RootEnds: cross-check of the token-level statements `TokEnds` (`Props/C03/RE/Engine.lean`),
  `TokValW` and `StoreEnds` (`Props/C03/RE/TokT.lean`) by evaluation of the model (the way
  `C04.TokText` was validated before it was proved).  All three are now PROVED (`tokValW`,
  `gather_pre` / `sg_storeStep`, `tokEnds_of`); the evaluation stays as a cross-check of the
  statements.

  `chkRunE` is `parserRun` with one change: the token source checks, on every token it delivers,
  `WordValOK t` (fact (W): a value ending in a newline belongs to an operator token),
  `TokG line t` (the token is a NEWLINE with value "\n" or ends at a position not preceded by two
  raw newlines; `line` read from the tape the tokenizer reads) and `SG line store` (every cell of
  the redirect store ends at such a position) before and after `token()` and after every semantic
  action (`TokEnds.gather`, `RE.keepsQ_actionCore`); a failing check raises a marked exception.
  Nested parsers run the same check on their own line.  Inputs: C04's corpus (1173 strings) and
  grids (3730 + … strings, all suffixes), and a grid of strings of length ≤ 5 over
  `a ; \ ⏎ ' < E space` that contain two newlines (the shapes `RootEnds` is about: blank lines
  after continuations, quotes, operators and here-documents), and all strings of length ≤ 4 over
  `a \ ⏎ ' " $ ( ) backquote` that contain a newline (fact (W)).  The `#eval`s print the number of
  failing inputs: `0`.
-/
import Bashlex.Props.C04.Validate
import Bashlex.Props.C03.RE.TokT

namespace Bashlex.C03.RE
open Bashlex Bashlex.C04

def tokGb (L : Str) (t : Token) : Bool :=
  (t.ttype == some .NEWLINE && t.value == .str ['\n']) || decide (EG L t.endlexpos)

def sgb (L : Str) (st : List RedirCell) : Bool := st.all fun c => decide (EG L c.pos.2)

def chkHooksE (np : NestedParse) : LR.Hooks SVal :=
  { lrHooks np with
    next := do
      let line ← tapeLine
      if !sgb line (← get).store then M.raise (.foreign "RE" "store before token()")
      let t ← nextToken
      if !sgb line (← get).store then M.raise (.foreign "RE" "store after token()")
      if !decide (WordValOK t) then M.raise (.foreign "RE" s!"(W) {repr t}")
      if tokGb line t then pure (symOfTok t, .tok t)
      else M.raise (.foreign "RE" s!"{repr t} line={repr (String.ofList line)}")
    act := fun p args => do
      let r ← (lrHooks np).act p args
      let line ← tapeLine
      if !sgb line (← get).store then M.raise (.foreign "RE" "store after an action")
      pure r }

def chkRunE : Nat → M (Option Node)
  | 0 => M.raise (.outOfFuel "nesting")
  | depth + 1 => do
    let np : NestedParse := fun string dolparen => do
      let outer ← get
      let ps := if dolparen then { outer.ps with cmdsubst := true, eoftoken := true } else outer.ps
      set ({ tape := some (Tape.ofInput string), opts := some (true, false)
             lastReadToken := outer.lastReadToken, tokenBeforeThat := outer.tokenBeforeThat
             twoTokensAgo := outer.twoTokensAgo, ps := ps
             eofToken := if dolparen then some rparenEofToken else none
             limit := outer.limit.map (· - 1) } : Local)
      let r ← chkRunE depth
      let inner ← get
      set { outer with ps := inner.ps }
      pure r
    let res ← LR.run LR.realTables (chkHooksE np) 1073741824
    let store := (← get).store
    match res with
    | .accepted (.node n) _ _ _ => pure (some (resolve store n))
    | _ => pure none

def chkOneE (s : Str) (o : Opts) : Option String :=
  let env : Env := { tape := Tape.ofInput s, strict := o.strict, proceed := o.proceed }
  match (chkRunE 8).run { limit := o.limit } env with
  | (.error (.foreign "RE" m), _) => some m
  | _ => none

def chkInputE (s : String) : List String :=
  let l := s.toList
  (suffixStarts l).filterMap fun i =>
    ((chkOneE (l.drop i) {}).map (fun m => s!"[{i}] {m}")).orElse fun _ =>
      (chkOneE (l.drop i) { strict := false, proceed := true }).map (fun m => s!"[{i},proceed] {m}")

def failingE (l : List String) : List (String × List String) :=
  (l.map fun s => (s, chkInputE s)).filter (fun p => !p.2.isEmpty)

def reportE (l : List String) : Nat × Nat × List (String × List String) :=
  let f := failingE l
  (l.length, f.length, (f.take 5).map fun p => (p.1, (p.2.take 1).map fun m => (m.take 240).toString))

def gridAlpha3 : List Char := ['a', ';', '\\', '\n', '\'', '<', 'E', ' ']
def gridK : Nat → List (List Char)
  | 0 => [[]]
  | n+1 => (gridK n).flatMap fun w => gridAlpha3.map fun c => c :: w
def hasNLNL : List Char → Bool
  | '\n' :: '\n' :: _ => true
  | _ :: r => hasNLNL r
  | [] => false
def gridInputs3 : List String :=
  ((List.range 6).flatMap gridK).filter hasNLNL |>.map String.ofList

/-- the shapes of the exploration of `Props/C03/RootEnds.lean`, and here-documents whose
    delimiter line is followed / preceded by blank lines and continuations -/
def shapes : List String :=
  ["$('a\n\n')", "$(a\n\n)", "$(a\n\nb)", "$({ a\n\n})", "$({ a;b\n\n} )", "$(a <<E\nx\nE\n\n)",
   "$(a;\\\n\n)", "$(a &\\\n\\\n\n)", "$(a\\\n\n)", "cat <<''\\\n\n\n", "cat <<E\\\n\nE\n\n",
   "cat <<E\n\n\nE\n\n\n", "cat <<-E\n\t\n\n\tE\n\n", "$(cat <<E\n\n\nE\n\n\n)", "a \"\n\n\"\n\n",
   "a $'\n\n'\n\n", "a `\n\n`\n\n", "a $(\n\n)\n\n", "a ${x\n\n}\n\n", "! \n\n", "time\n\n",
   "a 2>\\\n\nb", "a >&\\\n\n-", "cat <<E <<F\nE\n\nF\n\n", "f() { a\n\n}\n\n", "a |\n\nb\n\n",
   "a &&\n\nb;\n\n", "for x in a\n\ndo b\n\ndone\n\n", "case a in a) b\n\n;; esac\n\n",
   "a <<E\nx\n\n", "a <<E\n\n\n"]

/-- all strings of length ≤ 4 over `a \ ⏎ ' " $ ( ) backquote` that contain a newline: values with
    newlines inside quotes and substitutions, escaped newlines (fact (W)) -/
def gridAlpha4 : List Char := ['a', '\\', '\n', '\'', '"', '$', '(', ')', '`']
def gridQ : Nat → List (List Char)
  | 0 => [[]]
  | n+1 => (gridQ n).flatMap fun w => gridAlpha4.map fun c => c :: w
def gridInputs4 : List String :=
  ((List.range 5).flatMap gridQ).filter (·.contains '\n') |>.map String.ofList

#eval reportE shapes
#eval reportE corpus
#eval reportE gridInputs
#eval reportE gridInputs2
#eval reportE gridInputs3
#eval reportE gridInputs4

end Bashlex.C03.RE
