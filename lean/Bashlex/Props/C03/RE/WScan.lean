/-
  RootEnds, fact (W), part 1 (state-agnostic): what `_parse_matched_pair` / `_parse_comsub`
  return does not end in a newline (it ends with the closing character, or with what a nested
  scanner returned).
-/
import Bashlex.Props.C04.WBPlain
import Bashlex.Proofs.Hoare

namespace Bashlex.C03.RE
open Bashlex Bashlex.M
set_option linter.unusedSimpArgs false
set_option linter.unusedVariables false

/-- does not end in a newline -/
def NoNL (r : Str) : Prop := r.getLast? ≠ some '\n'

theorem noNL_nil : NoNL [] := by unfold NoNL; simp

theorem noNL_snoc (a : Str) {c : Char} (hc : c ≠ '\n') : NoNL (a ++ [c]) := by
  unfold NoNL
  rw [List.getLast?_append]
  simpa using hc

theorem noNL_append {a b : Str} (ha : NoNL a) (hb : NoNL b) : NoNL (a ++ b) := by
  unfold NoNL at *
  rw [List.getLast?_append]
  cases h : b.getLast? with
  | none => simpa using ha
  | some x => rw [h] at hb; simpa using hb

/-- walk through a program in the state-agnostic logic; the leaves are left as goals -/
macro "s_walk" : tactic => `(tactic| repeat' (first
  | with_reducible exact Sat.foreign trivial
  | with_reducible exact Sat.raise trivial
  | with_reducible refine Sat.ite (fun _ => ?_) (fun _ => ?_)
  | with_reducible refine Sat.bind_any (fun _ => ?_)
  | with_reducible refine Sat.pure ?_
  | (show Sat _ _ _; split)))

def MPQ (r : Step MPState) : Prop :=
  match r with
  | .cont s => s.count ≠ 0
  | .done x => NoNL x
  | .next s _ => s.count ≠ 0

theorem sat_matchedPairError {α : Type} (c : Char) {Q : α → Prop} :
    Sat (matchedPairError c : M α) Q := by
  unfold matchedPairError
  s_walk

set_option maxHeartbeats 1000000 in
theorem sat_mpPre (P : MPParams) (lfc : Bool) (st : MPState) (hc : P.close ≠ '\n')
    (h0 : st.count ≠ 0) : Sat (mpPre P lfc st) MPQ := by
  unfold mpPre
  simp only []
  refine Sat.bind_any (fun c0 => ?_)
  s_walk
  all_goals (first
    | (simp_all [MPQ]; done)
    | (simp_all [MPQ]; omega)
    | (simp_all [MPQ]; exact noNL_snoc _ (by first | assumption | decide)))


/-- `mpPost` leaves the counter alone; what it appends comes from nested scanners -/
theorem sat_mpPost {pmp : MPParams → M Str} {pcs : CSParams → M Str} (P : MPParams) (rdq : Bool)
    (st : MPState) (c : Char) :
    Sat (mpPost pmp pcs P rdq st c) (fun s' => s'.count = st.count) := by
  unfold mpPost
  simp only []
  s_walk
  all_goals rfl

/-! ## `_parse_comsub` -/

def CSI (st : CSState) : Prop := st.count = 0 → NoNL st.ret

def CSQ (r : Step CSState) : Prop :=
  match r with
  | .cont s => s.count ≠ 0
  | .done x => NoNL x
  | .next s c => s.count ≠ 0 ∧ s.ret.getLast? = some c

/-- a step result that keeps the counter -/
def CSK (n : Nat) (r : Step CSState) : Prop :=
  match r with
  | .cont s => s.count = n
  | .done _ => False
  | .next s _ => s.count = n

theorem sat_csDelimMatches (st : CSState) {Q : Bool → Prop} (h : ∀ b, Q b) :
    Sat (csDelimMatches st) Q := by
  unfold csDelimMatches
  s_walk
  all_goals exact h _

set_option maxHeartbeats 2000000 in
theorem sat_csA (P : CSParams) (st : CSState) : Sat (csA P st) (CSK st.count) := by
  unfold csA
  simp only []
  refine Sat.bind_any (fun c0 => ?_)
  s_walk
  all_goals (first | rfl | (simp_all [CSK, csEndHeredoc]; done))

end Bashlex.C03.RE
