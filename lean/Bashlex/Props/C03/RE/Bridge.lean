/-
  RootEnds, part 6: `token()` never moves a redirect — half of fact (H) discharged.

  C03's `tokSpans : TokSpans TI` (proved for the real tokenizer) says that `token()` attaches
  here-document bodies but never changes the `pos` of a redirect cell (`StoreStep … false`: a
  here-document is queued by `p_redirection_heredoc`, which runs with the look-ahead already
  read; when a later NEWLINE token gathers it the cursor is beyond the redirect).  To use it the
  engine pass of `RootEndsProof.lean` is run TOGETHER with C03's span invariant `SI TI len`
  (`spans_hooks`), by induction on the nesting depth (C03's invariant needs `NestedOK`, i.e.
  `RootEndOK`, of the nested results: the induction hypothesis).

  The other half of (H) -- `gatherheredocuments` as called by `p_simple_list`, the only place
  where a redirect is extended over its body -- is `gather_pre`, from the exact-cursor walk of
  `Heredoc.lean` (`gather_e`); C03's invariant supplies "the queued delimiters are not empty"
  (`PendOK`).

  Result: `rootEnds_conditional'' : TokValW → RootEnds`; fact (W) is `tokValW` (`WRead.lean`),
  hence `C03.rootEnds` (`Props/C03/RootEndsProof.lean`).
-/
import Bashlex.Props.C03.RE.Heredoc

namespace Bashlex.C03.RE
open Bashlex Bashlex.M Bashlex.LR Bashlex.C04
set_option linter.unusedSimpArgs false
set_option linter.unusedVariables false

/-- **`gatherheredocuments` as called by `p_simple_list`** keeps the redirect cells ending well
    (fact (H), second half): in the states the engine pass runs it in -/
theorem gather_pre {g : C11.Ghost} (hg : C11.WFG g) {len : Nat} {vs : List (Nat × SVal)}
    {la : Option (Nat × SVal)} :
    C11.HT (fun l e => PreE g l e ∧ C03.SI C03.TI len vs la l e) gatherheredocuments
      (fun _ l _ => SG g.line l.store) (fun _ => True) := by
  intro l e ⟨hpre, hsi⟩
  obtain ⟨⟨g0, F, _, _, hti, _⟩, _⟩ := hsi
  obtain ⟨L', _, hpend, _⟩ := hti
  have hpd : PendD l.store l.redirstack := by
    intro p hp
    obtain ⟨c, h1, _, _, h4⟩ := hpend.2 p hp
    exact ⟨c, h1, h4⟩
  obtain ⟨⟨⟨hgood, hslot⟩, hbi⟩, hsg⟩ := hpre
  obtain ⟨⟨_, hline, _⟩, _, hidx, hps⟩ := hgood
  have hlastL : g.line ≠ [] → g.line.getLast? = some '\n' := by
    rcases C04.TTP.wfg_line hg with h | ⟨_, h⟩
    · intro h'; exact absurd h h'
    · exact fun _ => h
  by_cases hle : (C10.tapeOf l e).idx ≤ g.line.length
  · have h := gather_e hlastL hsg hpd (C10.tapeOf l e).idx l e
      ⟨⟨hline, rfl, hle, hslot, hps⟩, rfl, rfl⟩
    revert h
    rcases gatherheredocuments.run l e with ⟨r, e'⟩
    cases r with
    | error x => exact fun _ => True.intro
    | ok v => exact fun h => h
  · rcases hidx with hidx | ⟨_, hstrict⟩
    · exact absurd hidx hle
    · have h := C03.gather_dead (L := g.line) (ps := []) (sr := l.store) (rk := l.redirstack) l e
        ⟨⟨hline, by omega, hslot, hps, hstrict⟩, rfl, rfl⟩
      revert h
      rcases gatherheredocuments.run l e with ⟨r, e'⟩
      cases r with
      | error x => exact fun _ => True.intro
      | ok v =>
        obtain ⟨u, l'⟩ := v
        intro h
        show SG g.line l'.store
        rw [h.2.1]; exact hsg

/-- a step of the store that moves no redirect keeps the cells ending well -/
theorem sg_storeStep {L : Str} {len f : Nat} {st st' : List RedirCell}
    (h : C03.StoreStep len f false st st') (hs : SG L st) : SG L st' := by
  intro c' hc'
  obtain ⟨i, hi⟩ := List.getElem?_of_mem hc'
  have hlt : i < st'.length := (List.getElem?_eq_some_iff.mp hi).1
  have hlt' : i < st.length := by rw [← h.1]; exact hlt
  have hc : st[i]? = some st[i] := List.getElem?_eq_getElem hlt'
  have hmem : st[i] ∈ st := List.getElem_mem hlt'
  rcases h.2 i st[i] c' hc hi with h1 | ⟨_, x, y, v, _, _, _, _, h2⟩
  · rw [h1]; exact hs _ hmem
  · rcases h2 with h2 | ⟨h2, _⟩
    · rw [h2]; exact hs _ hmem
    · cases h2

/-! ## the two invariants together -/

def SIb (g : C11.Ghost) (len : Nat) (vs : List (Nat × SVal)) (la : Option (Nat × SVal))
    (l : Local) (e : Env) : Prop :=
  SIe g vs la l e ∧ C03.SI C03.TI len vs la l e

def FinB (g : C11.Ghost) (len : Nat) (v : SVal) (l : Local) (e : Env) : Prop :=
  FinE g v l e ∧ C03.Fin len v l e

section hooks
variable {g : C11.Ghost} {d len : Nat}

theorem hooks_B (hW : TokValW) (hg : C11.WFG g)
    (hnp11 : C11.NPOK g (fun _ => True) (C07.nestedOf d))
    (h3 : HooksOrd realTables (lrHooks (C07.nestedOf d)) (C03.SI C03.TI len) (C03.Fin len)
      (fun _ => True)) :
    HooksOrdH realTables (lrHooks (C07.nestedOf d)) (SIb g len) (FinB g len) (fun _ => True)
      (fun s => s = C05.iuSym) := by
  obtain ⟨src, hline, hadd⟩ := hg
  have hg : C11.WFG g := ⟨src, hline, hadd⟩
  refine ⟨?_, ?_, ?_, ?_, ?_, fun la => Sat.trivial _⟩
  · -- next
    intro vs l e hsi
    obtain ⟨⟨hpre, hvs, _⟩, h3s⟩ := hsi
    obtain ⟨⟨g0, F, hseg, hlain, hti, hent⟩, _⟩ := id h3s
    have a3 := h3.next vs l e h3s
    have c1 := next_W (src := src) hg hline l e hpre.1
    have c2 := hW.next g hg l e hpre.1
    have c3 := C03.tokSpans.next len F l.store l e ⟨hti, rfl⟩
    have hrun : (lrHooks (C07.nestedOf d)).next.run l e =
        match nextToken.run l e with
        | (.ok (t, l'), e') => (.ok ((symOfTok t, SVal.tok t), l'), e')
        | (.error x, e') => (.error x, e') := by
      show (nextToken >>= fun t => pure (symOfTok t, SVal.tok t)).run l e = _
      rw [M.run_bind]
      rcases nextToken.run l e with ⟨r, e'⟩
      cases r with
      | error x => rfl
      | ok v => obtain ⟨t, l'⟩ := v; rfl
    rw [hrun] at a3 ⊢
    rcases hr : nextToken.run l e with ⟨r, e'⟩
    rw [hr] at a3 c1 c2 c3
    cases r with
    | error x => trivial
    | ok v =>
      obtain ⟨t, l'⟩ := v
      simp only [] at a3 c1 c2 c3 ⊢
      obtain ⟨_, _, _, _, _, hstep⟩ := c3
      have hk := c1.2.2.1
      rw [← hline] at hk
      have htg : TokG g.line t := tokG_of hk.1 hk.2 c2
      refine ⟨⟨⟨c1.1, sg_storeStep hstep hpre.2⟩, hvs, ?_⟩, a3⟩
      intro x hx
      cases hx
      exact ⟨fun t' ht' => by cases ht'; exact c1.2.1, vie_tok htg⟩
  · -- shift
    rintro vs la l e ⟨⟨hpre, hvs, hla⟩, h3s⟩
    refine ⟨⟨hpre, ?_, fun x hx => by cases hx⟩, h3.shift vs la l e h3s⟩
    intro x hx
    rcases List.mem_append.mp hx with hx | hx
    · exact hvs x hx
    · simp at hx; subst hx; exact hla _ rfl
  · -- a NEWLINE shifted in state 0
    rintro la l e _ ⟨⟨hpre, hvs, _⟩, h3s⟩
    exact ⟨⟨hpre, hvs, fun x hx => by cases hx⟩, h3.shiftNl la l e h3s⟩
  · -- act
    intro p lhs rhs rest args la hp hargs hrest hlah
    have A3 := h3.act p lhs rhs rest args la hp hargs hrest hlah
    intro l e hsi
    obtain ⟨⟨hpre, hvs, hla⟩, h3s⟩ := hsi
    have hA : ∀ x ∈ args, VIall g x := fun x hx => hvs x (List.mem_append_right _ hx)
    have hv11 : ∀ a, a ∈ args.map (·.2) → C11.VI g a := by
      intro a ha
      obtain ⟨x, hx, rfl⟩ := List.mem_map.mp ha
      exact (hA x hx).1
    have A1 : SatS ((lrHooks (C07.nestedOf d)).act p (args.map (·.2)))
        (fun l e => PreE g l e ∧ C03.SI C03.TI len (rest ++ args) la l e)
        (fun r l e => I5 g l e ∧ C11.VI g r.1) (fun _ => True) :=
      fun l e h => act_state_W hnp11 (Gen.prodFuncs.getD p "") _ hv11 l e h.1.1
    have A2 : SatS ((lrHooks (C07.nestedOf d)).act p (args.map (·.2)))
        (fun l e => PreE g l e ∧ C03.SI C03.TI len (rest ++ args) la l e)
        (fun r l e => (SGP g.line l e ∧ VIe g.line lhs r.1 ∧
          (acceptingActions.contains (fn p) = true → strict lhs = true ∨ soft lhs = true)) ∧
          (r.2 = true → acceptingActions.contains (fn p) = true)) (fun _ => True) :=
      sats_action (act_core (np := C07.nestedOf d)
        (Pre := fun l e => PreE g l e ∧ C03.SI C03.TI len (rest ++ args) la l e)
        (fun _ _ h => h.1) (gather_pre hg) hg (q_nestedOf _ d)
        hp hargs (fun x hx => (hA x hx).2))
    have A3' : SatS ((lrHooks (C07.nestedOf d)).act p (args.map (·.2)))
        (fun l e => PreE g l e ∧ C03.SI C03.TI len (rest ++ args) la l e)
        (fun r l e => if r.2 = true then C03.Fin len r.1 l e
          else C03.SI C03.TI len (rest ++ [(lhs, r.1)]) la l e) (fun _ => True) :=
      SatS.pre A3 (fun _ _ h => h.2)
    refine SatS.post (SatS.and (SatS.and A1 A2) A3') ?_ l e ⟨hpre, h3s⟩
    rintro r l' e' ⟨⟨a1, ⟨hsg, hvie, hacc⟩, hr2⟩, a3⟩
    by_cases h2 : r.2 = true
    · rw [if_pos h2] at a3 ⊢
      refine ⟨⟨hsg, ?_⟩, a3⟩
      intro n hn
      rcases hacc (hr2 h2) with hst | hso
      · have := hvie.2.1 hst
        rw [hn] at this; exact this
      · exact hvie.2.2 hso n hn
    · rw [if_neg h2] at a3 ⊢
      refine ⟨⟨⟨a1.1, hsg⟩, ?_, hla⟩, a3⟩
      intro x hx
      rcases List.mem_append.mp hx with hx | hx
      · exact hvs x (List.mem_append_left _ hx)
      · simp at hx; subst hx; exact ⟨a1.2, hvie⟩
  · -- accept
    rintro vs x la l e hx ⟨⟨hpre, hvs, _⟩, h3s⟩
    refine ⟨⟨hpre.2, ?_⟩, h3.accept vs x la l e h3s⟩
    have hv := (hvs x (List.mem_append_right _ (by simp))).2
    have hsoft : soft x.1 = true := by rw [hx]; exact soft_iu
    exact hv.2.2 hsoft

end hooks

/-! ## every parser run, by induction on the nesting depth -/

theorem parserRun_B (hW : TokValW) : ∀ d s,
    SatS (parserRun d) (InitState s) (fun r _ _ => ∀ n, r = some n → C03.NestedOK s n)
  | 0, s => SatS.raise trivial
  | d + 1, s => by
    have ih := parserRun_B hW d
    have hnps : C03.NPSpans C03.TI (C03.npOf (parserRun d)) := by
      intro s' b len F st
      have h1 := C03.tokSpans.nested d len F st s' b
      have h2 := C03.npOf_result (b := b)
        (Φ := fun r => ∀ n, r = some n → C03.NestedOK s' n) (ih s')
      refine SatS.post (SatS.and h1 (SatS.pre h2 (fun _ _ _ => trivial))) ?_
      rintro r l e ⟨hp, h3⟩
      exact ⟨hp, h3⟩
    have h3 : HooksOrd realTables (lrHooks (C07.nestedOf d)) (C03.SI C03.TI s.length)
        (C03.Fin s.length) (fun _ => True) :=
      C03.spans_hooks (len := s.length) C03.tokSpans (C03.npok_npOf d)
        (C03.wordContract C03.tokSpans _ hnps s.length)
    rw [C07.parserRun_succ]
    refine SatS.intro_state (fun l0 e0 hinit => ?_)
    have hg := initGhost_wf s l0 e0
    have hnp11 : C11.NPOK (initGhost s l0 e0) (fun _ => True) (C07.nestedOf d) := by
      refine npok_of_run (fun g' hg' => ?_) _
      obtain ⟨s', hl', _⟩ := hg'
      exact C11.HT.post (parserRun_C04 tokText d s' g' ⟨s', hl', by assumption⟩ hl')
        (fun _ _ _ h => h.2)
    have hH := hooks_B (len := s.length) hW hg hnp11 h3
    refine SatS.bind (SatS.weaken (run_sound_ordH real_WF C05.accept_iu _ hH 1073741824) ?_
      (fun _ _ _ h => h) (fun _ _ => trivial)) (fun res => ?_)
    · rintro l e ⟨rfl, rfl⟩
      refine ⟨⟨pre_init hinit, fun x hx => (by cases hx), fun x hx => (by cases hx)⟩, ?_⟩
      refine ⟨⟨0, 0, Nat.le_refl 0, Nat.le_refl 0, C03.tokSpans.init s l e hinit, ?_⟩, ?_, ?_⟩
      · intro x hx; cases hx
      · intro x hx; cases hx
      · intro x hx; cases hx
    · refine SatS.bind SatS.get (fun l => ?_)
      split
      · rename_i n _ _ _
        refine SatS.pure ?_
        rintro l' e' ⟨rfl, hgood⟩ m hm
        cases hm
        obtain ⟨⟨hsg, hng⟩, hfin⟩ := hgood
        obtain ⟨hs, hroot, hseal, g1, hends, hdone⟩ := hfin n rfl
        refine ⟨⟨C03.strict_resolve _ n hs hends hdone, C03.noPend_resolve _ n hseal, ?_⟩, ?_⟩
        · rcases hroot with ht | hne
          · exact Or.inl (C03.tainted_resolve _ n hdone ht)
          · obtain ⟨e1, e2⟩ := C03.ext_pos_resolve hdone
            right; omega
        · have := resolve_pos_eg hsg (hng n rfl).1
          rw [show (initGhost s l0 e0).line = (Tape.ofInput s).line from rfl] at this
          exact rootEndOK_of_EG this
      · exact SatS.pure (fun _ _ _ n hn => by cases hn)

/-- **`RootEnds`** from fact (W) alone ((S), (T) and (H) proved) -/
theorem rootEnds_conditional'' (hW : TokValW) : RootEnds := by
  intro d s
  exact SatS.post (parserRun_B hW d s) (fun r _ _ h n hn => (h n hn).2)

end Bashlex.C03.RE

#print axioms Bashlex.C03.RE.rootEnds_conditional''
