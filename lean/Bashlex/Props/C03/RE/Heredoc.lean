/-
  RootEnds, fact (H'): `gatherheredocuments` keeps the redirect cells ending well.

  An exact-cursor walk (`TpS` of `Props/C05/TGRead.lean`, `GetcR` of `Props/C04/TTTape.lean`) of
  `readline(False)`, `makeheredoc` and `gatherheredocuments`, after the cursor-bound walk of
  `Props/C03/TokHeredoc.lean`:
    * `readline_e`: a line of two characters or more ends (cursor `j`, its newline at `j - 1`)
      at a position not preceded by two raw newlines: the character before the newline is no
      newline, and what `_getc` skipped in between are backslash-newline pairs;
    * `makeheredoc_e`: the delimiter line is such a line (the delimiter is not empty: C03's
      `PendOK`), and the cell is extended to `cursor - 1` or left alone;
    * `gather_e`: the loop over the queue.
-/
import Bashlex.Props.C03.RE.TokT
import Bashlex.Props.C03Total

namespace Bashlex.C03.RE
open Bashlex Bashlex.M Bashlex.C10 Bashlex.C11 Bashlex.C03.Tok Bashlex.C04 Bashlex.C04.TTP
  Bashlex.C05.TG
set_option linter.unusedSimpArgs false
set_option linter.unusedVariables false

section
variable {L : Str} {sr : List RedirCell} {rk : List (Nat × Bool)}

/-- after a character that is no newline (at `p - 1`) and a run of pairs `L[p:k]` -/
theorem eg_after {p k : Nat} {c' : Char} (hp : 1 ≤ p) (hc : L[p - 1]? = some c') (hne : c' ≠ '\n')
    (hd : Del (Str.slice L p k) []) (hpk : p ≤ k) (hk : k ≤ L.length) : EG L k := by
  rintro ⟨h2, h3, h4⟩
  by_cases hpk' : p = k
  · subst hpk'
    rw [hc] at h3
    exact hne (by simpa using h3)
  · obtain ⟨b1, b2, b3, _, _⟩ := pairs_back hd (by omega) hk
    rw [b3] at h4; cases h4

/-! ## `readline(False)` -/

def RLIe (L : Str) (sr : List RedirCell) (rk : List (Nat × Bool)) (st : RLState) (l : Local)
    (e : Env) : Prop :=
  ∃ p, (st.indx = st.linebuffer.length ∧
    (st.linebuffer ≠ [] → 1 ≤ p ∧ ∃ c', L[p - 1]? = some c' ∧ c' ≠ '\n')) ∧ TpS L sr rk [] p l e

/-- a line was read up to cursor `j`: if it has two characters or more, its newline (at `j - 1`)
    is not preceded by two raw newlines -/
def RLPe (L : Str) (sr : List RedirCell) (rk : List (Nat × Bool)) (r : Option Str) (l : Local)
    (e : Env) : Prop :=
  ∃ j, TpS L sr rk [] j l e ∧ ∀ txt, r = some txt → 1 ≤ j ∧ (2 ≤ txt.length → EG L (j - 1))

theorem readline_e (hlast : L ≠ [] → L.getLast? = some '\n') (i0 : Nat) :
    HT (TpS L sr rk [] i0) (readline false) (RLPe L sr rk) ET := by
  unfold readline
  simp only [Bool.and_false, Bool.false_eq_true, if_false]
  refine keep_bind w_loopFuel (fun fuel _ => ?_)
  refine HT.pre (HT.loop (E := ET) (I := RLIe L sr rk) True.intro (fun st => ?_) fuel _) ?_
  · refine HT.pre_exists (fun p => HT.pre_pure (fun hp => ?_))
    obtain ⟨hidx, hprev⟩ := hp
    refine getc_binds (fun c0 j hg => ?_)
    have tailR : ∀ (c : Char), 1 ≤ j → (st.linebuffer ≠ [] → EG L (j - 1)) →
        HT (TpS L sr rk [] j)
          (pure (Sum.inr (some (st.linebuffer ++ [c]))) : M (RLState ⊕ Option Str))
          (fun r l e => match r with
            | .inl s' => RLIe L sr rk s' l e
            | .inr a => RLPe L sr rk a l e) ET := by
      intro c a1 a2
      refine HT.pure (fun l e h => ⟨j, h, ?_⟩)
      intro txt ht
      cases ht
      refine ⟨a1, fun hlen => a2 ?_⟩
      intro hnil
      rw [hnil] at hlen
      simp at hlen
    have tailC : ∀ (c : Char), 1 ≤ j → L[j - 1]? = some c → c ≠ '\n' → ∀ (pn : Bool),
        HT (TpS L sr rk [] j)
          (pure (Sum.inl { linebuffer := st.linebuffer ++ [c], passnext := pn,
                           indx := st.indx + 1 }) : M (RLState ⊕ Option Str))
          (fun r l e => match r with
            | .inl s' => RLIe L sr rk s' l e
            | .inr a => RLPe L sr rk a l e) ET := by
      intro c a1 a2 a3 pn
      refine HT.pure (fun l e h => ⟨j, ⟨?_, fun _ => ⟨a1, c, a2, a3⟩⟩, h⟩)
      simp only [List.length_append, List.length_cons, List.length_nil]; omega
    cases c0 with
    | none =>
      obtain ⟨hjL, hdel⟩ := hg.atEnd rfl
      simp only [Option.isNone_none, Bool.true_and, Option.getD_none]
      refine HT.ite (fun hi => ?_) (fun hi => ?_)
      · exact HT.pure (fun l e h => ⟨j, h, fun txt ht => by cases ht⟩)
      · have hne : st.linebuffer ≠ [] := by
          intro hnil
          rw [hnil] at hidx
          apply hi
          simp [hidx]
        obtain ⟨hp1, c', hc', hcne⟩ := hprev hne
        have hple := hg.le
        have hLne : L ≠ [] := by
          intro h0; rw [h0] at hjL; simp at hjL; omega
        have hpj : p < j := by
          rcases Nat.lt_or_ge p j with h | h
          · exact h
          · exfalso
            have hpe : p = L.length := by omega
            have hl := hlast hLne
            rw [List.getLast?_eq_getElem?, ← hpe, hc'] at hl
            exact hcne (by simpa using hl)
        obtain ⟨b1, b2, b3, _, _⟩ := pairs_back hdel hpj (by omega)
        have hE : EG L (j - 1) := by
          rintro ⟨h2, h3, h4⟩
          have : j - 1 - 1 = j - 2 := by omega
          rw [this, b3] at h3; cases h3
        refine HT.ite (fun _ => ?_) (fun _ => ?_)
        · refine HT.ite (fun _ => ?_) (fun hc => absurd rfl hc)
          exact tailR '\n' (by omega) (fun _ => hE)
        · refine HT.ite (fun _ => ?_) (fun hc => absurd rfl hc)
          exact tailR '\n' (by omega) (fun _ => hE)
    | some ch =>
      obtain ⟨g1, g2, g3⟩ := hg.char ch rfl
      simp only [Option.isNone_some, Bool.false_and, Option.getD_some, Bool.false_eq_true, if_false]
      have hne : ∀ (hc : ¬ (ch == '\n') = true), ch ≠ '\n' := by
        intro hc hx; rw [hx] at hc; exact hc rfl
      have hE : (ch == '\n') = true → st.linebuffer ≠ [] → EG L (j - 1) := by
        intro _ hnb
        obtain ⟨hp1, c', hc', hcne⟩ := hprev hnb
        have hjl := hg.le'
        exact eg_after hp1 hc' hcne g3 (by omega) (by omega)
      refine HT.ite (fun _ => ?_) (fun _ => ?_)
      · refine HT.ite (fun hc => ?_) (fun hc => ?_)
        · exact tailR ch (by omega) (hE hc)
        · exact tailC ch (by omega) g2 (hne hc) false
      · refine HT.ite (fun hc => ?_) (fun hc => ?_)
        · exact tailR ch (by omega) (hE hc)
        · exact tailC ch (by omega) g2 (hne hc) st.passnext
  · intro l e h
    exact ⟨i0, ⟨rfl, fun h => absurd rfl h⟩, h⟩

/-! ## `makeheredoc` -/

def HDIe (L : Str) (sr : List RedirCell) (rk : List (Nat × Bool)) (st : HDState) (l : Local)
    (e : Env) : Prop :=
  ∃ j, (∀ txt, st.fullline = some txt → 1 ≤ j ∧ (2 ≤ txt.length → EG L (j - 1))) ∧
    TpS L sr rk [] j l e

def HDPe (L : Str) (sr : List RedirCell) (rk : List (Nat × Bool)) (st : HDState) (l : Local)
    (e : Env) : Prop :=
  ∃ j, (strTruthy st.fullline = true → 1 ≤ j ∧ EG L (j - 1)) ∧ TpS L sr rk [] j l e

def HDQe (L : Str) (sr : List RedirCell) (rk : List (Nat × Bool)) (r : HDState ⊕ HDState)
    (l : Local) (e : Env) : Prop :=
  match r with
  | .inl s' => HDIe L sr rk s' l e
  | .inr a => HDPe L sr rk a l e

set_option maxHeartbeats 1000000 in
/-- **`makeheredoc`**: the cell keeps its delimiter and ends well -/
theorem makeheredoc_e (hlast : L ≠ [] → L.getLast? = some '\n') {id : Nat} {cell : RedirCell}
    (kill : Bool) (hcell : sr[id]? = some cell) (hd : cell.delim ≠ []) (hsg : SG L sr) (i0 : Nat) :
    HT (TpS L sr rk [] i0) (makeheredoc id kill)
      (fun _ l e => ∃ j c', (c'.delim = cell.delim ∧ EG L c'.pos.2) ∧
        TpS L (sr.set id c') rk [] j l e) ET := by
  unfold makeheredoc
  simp only []
  refine HT.get_bind (fun l0 => ?_)
  refine HT.pre (P := fun l e => l0.store[id]? = some cell ∧ TpS L sr rk [] i0 l e)
    (HT.pre_pure (fun hc => ?_)) (fun l e h => ⟨by rw [← h.1, h.2.2.1]; exact hcell, h.2⟩)
  rw [hc]
  simp only [pure_bind]
  refine HT.bind (HT.reader run_curIdx) (fun s0 => ?_)
  refine HT.pre (P := fun l e => TpS L sr rk [] i0 l e) ?_ (fun l e h => h.2)
  refine HT.bind (readline_e hlast i0) (fun first => ?_)
  refine HT.pre_exists (fun j0 => ?_)
  refine keep_bind w_loopFuel (fun fuel _ => ?_)
  refine HT.bind (Q := fun fin l e => HDPe L sr rk fin l e) ?_ (fun fin => ?_)
  · -- the loop
    refine HT.pre (HT.loop (E := ET) (I := HDIe L sr rk) True.intro (fun st => ?_) fuel _) ?_
    · refine HT.post (Q := HDQe L sr rk) ?_ (fun r l e h => by cases r <;> exact h)
      refine HT.pre_exists (fun j => HT.pre_pure (fun hj => ?_))
      refine HT.ite (fun hnt => ?_) (fun htr => ?_)
      · -- `fullline` is falsy: leave
        refine HT.pure (fun l e h => ⟨j, fun ht => ?_, h⟩)
        rw [ht] at hnt; cases hnt
      have htr' : strTruthy st.fullline = true := by
        cases hx : strTruthy st.fullline with
        | true => rfl
        | false => rw [hx] at htr; exact absurd rfl htr
      obtain ⟨t0, ht0⟩ := truthy_some htr'
      have hg : st.fullline.getD [] = t0 := by rw [ht0]; rfl
      obtain ⟨hj1, hj2⟩ := hj t0 ht0
      have leafA : ∀ (f d : Str), f.isEmpty = true → HT (TpS L sr rk [] j)
          (pure (Sum.inl { fullline := some f, document := d }) : M (HDState ⊕ HDState))
          (HDQe L sr rk) ET := by
        intro f d hf
        have hf' : f = [] := by simpa using hf
        subst hf'
        refine HT.pure (fun l e h => ⟨j, ?_, h⟩)
        intro txt htxt
        cases htxt
        exact ⟨hj1, fun hlen => by simp at hlen⟩
      have leafB : ∀ (f d : Str), f.length ≤ t0.length → (pyDropLastN f 1 == cell.delim) = true →
          HT (TpS L sr rk [] j)
          (pure (Sum.inr { fullline := some f, document := d }) : M (HDState ⊕ HDState))
          (HDQe L sr rk) ET := by
        intro f d hlen hm
        have := dropLast_len hm hd
        exact HT.pure (fun l e h => ⟨j, fun _ => ⟨hj1, hj2 (by omega)⟩, h⟩)
      have leafC : ∀ (d : Str), HT (TpS L sr rk [] j)
          (readline false >>= fun next => pure (Sum.inl { fullline := next, document := d }) :
            M (HDState ⊕ HDState))
          (HDQe L sr rk) ET := by
        intro d
        refine HT.bind (readline_e hlast j) (fun next => ?_)
        refine HT.pure (fun l e h => ?_)
        obtain ⟨j', hw, hn⟩ := h
        exact ⟨j', fun txt htxt => hn txt htxt, hw⟩
      rw [hg]
      repeat' (first
        | refine HT.ite (fun _ => ?_) (fun _ => ?_)
        | exact C03.Tok.foreign_bind_ht
        | exact leafA _ _ (by assumption)
        | exact leafB _ _ (Nat.le_refl _) (by assumption)
        | exact leafB _ _ (strip_len (by assumption)) (by assumption)
        | exact leafC _
        | split_head)
    · -- the first line
      intro l e h
      obtain ⟨hw, hn⟩ := h
      exact ⟨j0, fun txt htxt => hn txt htxt, hw⟩
  · -- after the loop
    refine HT.ite (fun _ => ?_) (fun htr => ?_)
    · intro l e _
      simp only [M.run_bind, run_tapeLine, run_curIdx, M.run_raise]
      exact True.intro
    have htr' : strTruthy fin.fullline = true := by
      cases hx : strTruthy fin.fullline with
      | true => rfl
      | false => rw [hx] at htr; exact absurd rfl htr
    refine HT.bind (HT.reader run_curIdx) (fun i1 => ?_)
    refine HT.get_bind (fun l1 => ?_)
    refine HT.set ?_
    rintro l e ⟨rfl, hi1, j, hq, hw⟩
    obtain ⟨hq1, hq2⟩ := hq htr'
    obtain ⟨⟨a1, a2, a3, a4, a5⟩, a6, a7⟩ := hw
    have hi1' : i1 = j := by rw [hi1, a2]
    refine ⟨j, cellOf cell s0 (i1 - 1) fin.document, ⟨rfl, ?_⟩, ⟨a1, a2, a3, a4, a5⟩, ?_, a7⟩
    · show EG L (if (cell.pos.2 + 1 == s0) = true then (cell.pos.1, i1 - 1) else cell.pos).2
      split
      · rw [hi1']; exact hq2
      · exact hsg cell (List.mem_of_getElem? hcell)
    · show l.store.set id _ = _
      rw [a6]; rfl

/-! ## `gatherheredocuments` -/

/-- what is queued has a cell with a non-empty delimiter (part of C03's `PendOK`) -/
def PendD (sr : List RedirCell) (rk : List (Nat × Bool)) : Prop :=
  ∀ p ∈ rk, ∃ c, sr[p.1]? = some c ∧ c.delim ≠ []

theorem peekc_e (rqn : Bool) (i : Nat) :
    HT (TpS L sr rk [] i) (peekc rqn) (fun _ l e => ∃ i', TpS L sr rk [] i' l e) ET := by
  unfold peekc
  refine getc_binds (fun c j hg => ?_)
  cases c with
  | none =>
    refine HT.ite (fun h => by cases h) (fun _ => ?_)
    exact HT.pure (fun l e h => ⟨j, h⟩)
  | some ch =>
    refine HT.ite (fun _ => ?_) (fun h => absurd rfl h)
    have hj : 0 < j := by have := (hg.char ch rfl).1; omega
    refine HT.bind (ungetc_tps _ hj) (fun _ => ?_)
    exact HT.pure (fun l e h => ⟨j - 1, h⟩)

theorem bumpIdx_store (st : List RedirCell) :
    HT (fun l _ => l.store = st) bumpIdx (fun _ l _ => l.store = st) ET := by
  intro l e h
  rw [run_bumpIdx]
  show (putL l _).store = st
  rw [putL_store]; exact h

def GIe (L : Str) (l : Local) (e : Env) : Prop :=
  ∃ sr1 rk1 i, (SG L sr1 ∧ PendD sr1 rk1) ∧ TpS L sr1 rk1 [] i l e

def GQe (L : Str) (r : Unit ⊕ Unit) (l : Local) (e : Env) : Prop :=
  match r with
  | .inl _ => GIe L l e
  | .inr _ => SG L l.store

set_option maxHeartbeats 1000000 in
/-- **`gatherheredocuments`** keeps the cells ending well -/
theorem gather_e (hlast : L ≠ [] → L.getLast? = some '\n') (hsg : SG L sr) (hp : PendD sr rk)
    (i0 : Nat) :
    HT (TpS L sr rk [] i0) gatherheredocuments (fun _ l _ => SG L l.store) ET := by
  unfold gatherheredocuments
  simp only []
  refine HT.get_bind (fun l00 => HTQAt.ofHT ?_)
  refine HT.pre (HT.loop (E := ET) (I := fun _ l e => GIe L l e) True.intro (fun _ => ?_) _ ()) ?_
  · refine HT.post (Q := GQe L) ?_ (fun r l e h => by cases r <;> exact h)
    refine HT.pre_exists (fun sr1 => HT.pre_exists (fun rk1 => HT.pre_exists (fun i =>
      HT.pre_pure (fun hinv => ?_))))
    obtain ⟨hsg1, hp1⟩ := hinv
    refine HT.get_bind (fun l0 => ?_)
    refine HT.pre (P := fun l e => l0.redirstack = rk1 ∧ TpS L sr1 rk1 [] i l e)
      (HT.pre_pure (fun hrk => ?_)) (fun l e h => ⟨by rw [← h.1]; exact h.2.2.2, h.2⟩)
    rw [hrk]
    cases rk1 with
    | nil =>
      refine HT.pure (fun l e h => ?_)
      show SG L l.store
      rw [h.2.1]; exact hsg1
    | cons p rest =>
      obtain ⟨id, kill⟩ := p
      simp only []
      obtain ⟨cell, hc1, hc4⟩ := hp1 (id, kill) List.mem_cons_self
      have hjp : ∀ {P : Local → Env → Prop},
          (∀ l e, P l e → ∃ i', TpS L sr1 ((id, kill) :: rest) [] i' l e) →
          HT P (do
            modify fun l => { l with redirstack := rest }
            makeheredoc id kill
            pure (Sum.inl ()) : M (Unit ⊕ Unit))
            (GQe L) ET := by
        intro P hP
        refine HT.bind (Q := fun _ l e => ∃ i', TpS L sr1 rest [] i' l e) (HT.modify (fun l e h => ?_))
          (fun _ => ?_)
        · obtain ⟨i', a, b, c⟩ := hP l e h
          exact ⟨i', a, b, rfl⟩
        refine HT.pre_exists (fun i' => ?_)
        refine HT.bind (makeheredoc_e hlast kill hc1 hc4 hsg1 i') (fun _ => ?_)
        refine HT.pure (fun l e h => ?_)
        obtain ⟨j, c', ⟨hcd, hce⟩, hw⟩ := h
        have hidlt : id < sr1.length := (List.getElem?_eq_some_iff.mp hc1).1
        refine ⟨sr1.set id c', rest, j, ⟨?_, ?_⟩, hw⟩
        · intro c hc
          rcases List.mem_or_eq_of_mem_set hc with h1 | h1
          · exact hsg1 c h1
          · rw [h1]; exact hce
        · intro p hp
          obtain ⟨c, d1, d2⟩ := hp1 p (List.mem_cons_of_mem _ hp)
          by_cases hid : id = p.1
          · refine ⟨c', ?_, ?_⟩
            · rw [← hid, List.getElem?_set_self hidlt]
            · rw [hcd]; exact hc4
          · exact ⟨c, by rw [getElem?_set_ne' hid]; exact d1, d2⟩
      refine HT.bind (peekc_e true i) (fun p => ?_)
      cases p with
      | none =>
        refine HT.ite (fun _ => ?_) (fun h => absurd rfl h)
        refine HT.bind (HT.reader run_optStrict) (fun s => ?_)
        cases s with
        | false =>
          refine HT.ite (fun _ => ?_) (fun h => absurd rfl h)
          refine HT.bind (Q := fun _ l e => l.store = sr1) ?_ (fun _ => HT.pure (fun l e h => ?_))
          · exact HT.pre (bumpIdx_store sr1) (fun l e h => by
              obtain ⟨_, i', hw⟩ := h
              exact hw.2.1)
          · show SG L l.store
            rw [h]; exact hsg1
        | true =>
          refine HT.ite (fun h => by cases h) (fun _ => ?_)
          exact hjp (P := fun l e => true = strictOf l e ∧
            ∃ i', TpS L sr1 ((id, kill) :: rest) [] i' l e) (fun l e h => h.2)
      | some c =>
        refine HT.ite (fun h => by cases h) (fun _ => ?_)
        exact hjp (P := fun l e => ∃ i', TpS L sr1 ((id, kill) :: rest) [] i' l e)
          (fun l e h => h)
  · intro l e h
    exact ⟨sr, rk, i0, ⟨hsg, hp⟩, h⟩

end

end Bashlex.C03.RE
