/-
  RootEnds, fact (S): the engine pass (`TokEnds → RootEnds`).  See `Props/C03/RootEndsProof.lean`
  for the overview.  `TokEnds` (facts (T) + (W) + (H) in one statement about the token source),
  the value invariant `VIe`, `act_core` (every semantic action), `hooks_E`, `parserRun_E`,
  `rootEnds_conditional : TokEnds → RootEnds`.
-/
import Bashlex.Props.C04Words
import Bashlex.Props.C05.Grammar
import Bashlex.Props.C05.TokGapsProof
import Bashlex.Props.C03.RE.Actions
import Bashlex.Props.C03.RE.Grammar

namespace Bashlex.C03.RE
open Bashlex Bashlex.M Bashlex.LR Bashlex.C04
set_option linter.unusedSimpArgs false
set_option linter.unusedVariables false
set_option linter.unusedSectionVars false

/-! ## the hypothesis on the token source -/

/-- a delivered token is a NEWLINE token with value "\n", or ends well -/
def TokG (L : Str) (t : Token) : Prop :=
  (t.ttype = some .NEWLINE ∧ t.value = .str ['\n']) ∨ EG L t.endlexpos

instance (L : Str) (t : Token) : Decidable (TokG L t) := by unfold TokG; exact inferInstance

/-- **the hypothesis on the token source** (facts (T) and (W)) -/
structure TokEnds : Prop where
  next : ∀ g, C11.WFG g →
    C11.HT (fun l e => I5 g l e ∧ SG g.line l.store) nextToken
      (fun t l _ => TokG g.line t ∧ SG g.line l.store) (fun _ => True)
  gather : ∀ g, C11.WFG g →
    C11.HT (fun l e => I5 g l e ∧ SG g.line l.store) gatherheredocuments
      (fun _ l _ => SG g.line l.store) (fun _ => True)

/-! ## the value invariant along the LR stack -/

def VIe (L : Str) (s : Nat) (v : SVal) : Prop :=
  (s < nTerm → ∃ t, v = .tok t ∧ ((s = nlSym ∧ t.value = .str ['\n']) ∨ EG L t.endlexpos)) ∧
  (strict s = true → GoodNE L v) ∧ (soft s = true → ∀ n, v = .node n → NG L n)

variable {L : Str}

theorem vie_tok {t : Token} (h : TokG L t) : VIe L (symOfTok t) (.tok t) := by
  refine ⟨fun _ => ⟨t, rfl, ?_⟩, ?_, ?_⟩
  · rcases h with ⟨h1, h2⟩ | h
    · exact Or.inl ⟨symOfTok_nl h1, h2⟩
    · exact Or.inr h
  · intro hs
    have := strict_nt _ hs
    have := symOfTok_lt t
    omega
  · intro hs
    have := soft_nt _ hs
    have := symOfTok_lt t
    omega

theorem vie_good {s : Nat} {v : SVal} (h : VIe L s v) (hg : goodSym s = true) : GoodNE L v := by
  unfold goodSym at hg
  simp only [Bool.or_eq_true, Bool.and_eq_true, decide_eq_true_eq, bne_iff_ne, ne_eq] at hg
  rcases hg with ⟨h1, h2⟩ | hg
  · obtain ⟨t, rfl, ht⟩ := h.1 h1
    rcases ht with ⟨h3, _⟩ | ht
    · exact absurd h3 h2
    · exact ht
  · exact h.2.1 hg

theorem vie_nt {s : Nat} {v : SVal} (hs : nTerm ≤ s) (h1 : strict s = true → GoodNE L v)
    (h2 : soft s = true → ∀ n, v = .node n → NG L n) : VIe L s v :=
  ⟨fun h => by omega, h1, h2⟩

/-! ## slots -/

section slots
variable {np : NestedParse} {args : List (Nat × SVal)} {rhs : List Nat}

theorem slot_vi (hargs : args.map (·.1) = rhs) (hA : ∀ x ∈ args, VIe L x.1 x.2) (i : Nat)
    (hi : i < rhs.length) : VIe L (rhs.getD i 0) ((args.map (·.2)).getD i .none) := by
  subst hargs
  rw [List.length_map] at hi
  have hx := hA _ (List.getElem_mem hi)
  simp only [List.getD_eq_getElem?_getD, List.getElem?_map, List.getElem?_eq_getElem hi,
    Option.map_some, Option.getD_some]
  exact hx

theorem len_eq (hargs : args.map (·.1) = rhs) :
    (⟨np, args.map (·.2)⟩ : PCtx).len = rhs.length + 1 := by
  subst hargs; simp [PCtx.len]

theorem slice_eq (i : Nat) :
    (⟨np, args.map (·.2)⟩ : PCtx).slice (i + 1) = (args.map (·.2)).getD i .none := rfl

theorem slot_good (hargs : args.map (·.1) = rhs) (hA : ∀ x ∈ args, VIe L x.1 x.2) (i : Nat)
    (hi : i < rhs.length) (hg : goodSym (rhs.getD i 0) = true) :
    GoodNE L ((⟨np, args.map (·.2)⟩ : PCtx).slice (i + 1)) :=
  vie_good (slot_vi hargs hA i hi) hg

theorem last_facts (hargs : args.map (·.1) = rhs) (hA : ∀ x ∈ args, VIe L x.1 x.2)
    (h : lastG rhs = true) :
    GoodNE L ((⟨np, args.map (·.2)⟩ : PCtx).slice ((⟨np, args.map (·.2)⟩ : PCtx).len - 1)) ∧
    (∀ a, (args.map (·.2)).getLast? = some a → GoodNE L a) ∧ args.map (·.2) ≠ [] := by
  unfold lastG at h
  simp only [Bool.and_eq_true, decide_eq_true_eq] at h
  obtain ⟨h1, h2⟩ := h
  have hlen := len_eq (np := np) hargs
  have hg := slot_good (np := np) hargs hA (rhs.length - 1) (by omega) h2
  have e1 : rhs.length - 1 + 1 = (⟨np, args.map (·.2)⟩ : PCtx).len - 1 := by omega
  rw [e1] at hg
  refine ⟨hg, ?_, ?_⟩
  · intro a ha
    rw [List.getLast?_eq_getElem?] at ha
    have hl : (args.map (·.2)).length = rhs.length := by subst hargs; simp
    have : (⟨np, args.map (·.2)⟩ : PCtx).slice ((⟨np, args.map (·.2)⟩ : PCtx).len - 1) = a := by
      rw [← e1]
      show (args.map (·.2)).getD (rhs.length - 1) .none = a
      rw [List.getD_eq_getElem?_getD, ← hl, ha]; rfl
    rw [← this]; exact hg
  · intro hnil
    have hl : (args.map (·.2)).length = rhs.length := by subst hargs; simp
    rw [hnil] at hl
    simp at hl; omega

end slots

/-! ## `action` from `actionCore` -/

theorem sats_action {np : NestedParse} {f : String} {args : List SVal} {P : Local → Env → Prop}
    {Q : SVal × Bool → Local → Env → Prop}
    (h : SatS (actionCore np f args) P Q) :
    SatS (action np f args) P
      (fun r l e => Q r l e ∧ (r.2 = true → acceptingActions.contains f = true)) := by
  unfold action
  refine SatS.bind h (fun r => ?_)
  split
  · exact SatS.foreign trivial
  · rename_i hc
    refine SatS.pure (fun l e hq => ⟨hq, ?_⟩)
    intro h2
    simp only [Bool.and_eq_true, Bool.not_eq_true', not_and, Bool.not_eq_false] at hc
    exact hc h2

/-! ## every action re-establishes the invariant -/

section act
variable {g : C11.Ghost} {np : NestedParse}

/-- the state the actions run in -/
def PreE (g : C11.Ghost) : Local → Env → Prop := fun l e => I5 g l e ∧ SG g.line l.store

theorem pre_sgp {l : Local} {e : Env} (h : PreE g l e) : SGP g.line l e := h.2

theorem of_keeps {α : Type} {m : M α} {Φ : α → Prop} (h : Keeps (SGP g.line) m Φ) :
    SatS m (PreE g) (fun r l e => SGP g.line l e ∧ Φ r) :=
  SatS.pre h (fun _ _ hp => hp.2)

set_option maxHeartbeats 1000000 in
/-- **every semantic action**: from good arguments, a good value; the store cells keep ending
    well -/
theorem act_core {Pre : Local → Env → Prop} (hPre : ∀ l e, Pre l e → PreE g l e)
    (hG : C11.HT Pre gatherheredocuments (fun _ l _ => SG g.line l.store) (fun _ => True))
    (hg : C11.WFG g) (hnp : ∀ s b, KeepsQ (SG g.line) (np s b))
    {p lhs : Nat} {rhs : List Nat} {args : List (Nat × SVal)}
    (hp : realTables.prods[p]? = some (lhs, rhs)) (hargs : args.map (·.1) = rhs)
    (hA : ∀ x ∈ args, VIe g.line x.1 x.2) :
    SatS (actionCore np (fn p) (args.map (·.2))) Pre
      (fun r l e => SGP g.line l e ∧ VIe g.line lhs r.1 ∧
        (acceptingActions.contains (fn p) = true → strict lhs = true ∨ soft lhs = true)) := by
  have of_keeps : ∀ {α : Type} {m : M α} {Φ : α → Prop}, Keeps (SGP g.line) m Φ →
      SatS m Pre (fun r l e => SGP g.line l e ∧ Φ r) :=
    fun h => SatS.pre h (fun l e hp => (hPre l e hp).2)
  have hk := re_ok hp
  unfold reOK at hk
  simp only [Bool.and_eq_true, decide_eq_true_eq] at hk
  obtain ⟨hlhs, hk⟩ := hk
  have hlen := len_eq (np := np) hargs
  by_cases hgood : (strict lhs || soft lhs) = true
  · rw [if_pos hgood] at hk
    simp only [Bool.and_eq_true] at hk
    obtain ⟨⟨hmem, hs⟩, hsoft⟩ := hk
    have hacc : acceptingActions.contains (fn p) = true → strict lhs = true ∨ soft lhs = true := by
      intro _; simpa using hgood
    -- the generic conclusion from a strict value
    have fromNE : ∀ {r : SVal × Bool} {l : Local} {e : Env},
        SGP g.line l e ∧ GoodNE g.line r.1 → SGP g.line l e ∧ VIe g.line lhs r.1 ∧
        (acceptingActions.contains (fn p) = true → strict lhs = true ∨ soft lhs = true) := by
      intro r l e h
      refine ⟨h.1, vie_nt hlhs (fun _ => h.2) ?_, hacc⟩
      intro hso n hn
      have h2 := h.2
      rw [hn] at h2; exact h2
    -- strict or soft, by function
    generalize hf : fn p = f at hmem hs hsoft hacc fromNE ⊢
    have fromSoft : ∀ {r : SVal × Bool} {l : Local} {e : Env}, strict lhs = false →
        SGP g.line l e ∧ (∀ n, r.1 = .node n → NG g.line n) → SGP g.line l e ∧ VIe g.line lhs r.1 ∧
        (acceptingActions.contains f = true → strict lhs = true ∨ soft lhs = true) := by
      intro r l e hst h
      exact ⟨h.1, vie_nt hlhs (fun h' => by rw [hst] at h'; cases h') (fun _ => h.2), hacc⟩
    have kq : ∀ f', f' ≠ "p_redirection_heredoc" → f' ≠ "p_simple_list" →
        KeepsQ (SG g.line) (actionCore np f' (args.map (·.2))) :=
      fun f' h1 h2 => keepsQ_actionCore hnp f' h1 h2 _
    have l12 : len12 rhs = true → (⟨np, args.map (·.2)⟩ : PCtx).len = 2 ∨
        (⟨np, args.map (·.2)⟩ : PCtx).len = 3 := by
      intro h
      unfold len12 at h
      simp only [Bool.or_eq_true, beq_iff_eq] at h
      rcases h with h | h
      · left; omega
      · right; omega
    unfold goodFuncs at hmem
    simp only [List.contains_iff_mem, List.mem_cons, List.not_mem_nil, or_false] at hmem
    rcases hmem with rfl | rfl | rfl | rfl | rfl | rfl | rfl | rfl | rfl | rfl | rfl | rfl | rfl |
      rfl | rfl | rfl | rfl | rfl | rfl | rfl | rfl | rfl | rfl | rfl | rfl | rfl
    · -- p_inputunit
      have hst : strict lhs = false := by simpa using hsoft
      have hh : ∀ n, (⟨np, args.map (·.2)⟩ : PCtx).slice 1 = .node n → NG g.line n := by
        intro n hn
        by_cases h0 : 0 < rhs.length
        · have hv := slot_vi hargs hA 0 h0
          rw [show (⟨np, args.map (·.2)⟩ : PCtx).slice 1 = (args.map (·.2)).getD 0 .none from rfl] at hn
          rw [hn] at hv
          simp only [slotsOK, if_true, beq_self_eq_true, Bool.or_eq_true, decide_eq_true_eq] at hs
          rcases hs with (h1 | h1) | h1
          · obtain ⟨t, ht, _⟩ := hv.1 h1; cases ht
          · exact hv.2.1 h1
          · exact hv.2.2 h1 n rfl
        · have : args.map (·.2) = [] := by
            have hl : (args.map (·.2)).length = rhs.length := by subst hargs; simp
            exact List.eq_nil_of_length_eq_zero (by omega)
          rw [show (⟨np, args.map (·.2)⟩ : PCtx).slice 1 = (args.map (·.2)).getD 0 .none from rfl,
            this] at hn
          cases hn
      exact SatS.post (of_keeps (keeps_QS (kq _ (by decide) (by decide)) (sat_inputunit _ hh)))
        (fun r l e h => fromSoft hst h)
    · -- p_list_terminator
      have hst : strict lhs = false := by simpa using hsoft
      simp only [slotsOK] at hs
      simp only [beq_self_eq_true, if_true, Bool.and_eq_true, decide_eq_true_eq,
        show ("p_list_terminator" == "p_inputunit") = false from by decide, if_false,
        Bool.false_eq_true] at hs
      have hv := slot_vi hargs hA 0 (by omega)
      have hh : ∀ t, (⟨np, args.map (·.2)⟩ : PCtx).slice 1 = .tok t →
          t.value = .str ['\n'] ∨ EG g.line t.endlexpos := by
        intro t ht
        rw [show (⟨np, args.map (·.2)⟩ : PCtx).slice 1 = (args.map (·.2)).getD 0 .none from rfl] at ht
        obtain ⟨t', ht', h'⟩ := hv.1 hs.2
        rw [ht] at ht'; cases ht'
        rcases h' with h' | h'
        · exact Or.inl h'.2
        · exact Or.inr h'
      exact SatS.post (of_keeps (keeps_QS (kq _ (by decide) (by decide)) (sat_list_terminator _ hh)))
        (fun r l e h => fromSoft hst h)
    · -- p_redirection
      simp [slotsOK] at hs
      obtain ⟨h23, hlg⟩ := hs
      obtain ⟨hl1, hl2, hl3⟩ := last_facts (np := np) hargs hA hlg
      have lexEG : ∀ k, (⟨np, args.map (·.2)⟩ : PCtx).len - 1 = k →
          EG g.line ((⟨np, args.map (·.2)⟩ : PCtx).lexspan k).2 :=
        fun k hk => by rw [← hk]; exact eg_lexspan hl1
      unfold len23 at h23
      simp only [Bool.or_eq_true, beq_iff_eq] at h23
      have h2 : ((⟨np, args.map (·.2)⟩ : PCtx).len == 3) = true →
          EG g.line ((⟨np, args.map (·.2)⟩ : PCtx).lexspan 2).2 := by
        intro h; have : (⟨np, args.map (·.2)⟩ : PCtx).len = 3 := by simpa using h
        exact lexEG 2 (by omega)
      have h3 : ¬ ((⟨np, args.map (·.2)⟩ : PCtx).len == 3) = true →
          EG g.line ((⟨np, args.map (·.2)⟩ : PCtx).lexspan 3).2 := by
        intro h
        have : (⟨np, args.map (·.2)⟩ : PCtx).len ≠ 3 := by simpa using h
        exact lexEG 3 (by omega)
      exact SatS.post (of_keeps (keeps_QS (kq _ (by decide) (by decide)) (sat_redirection _ h2 h3)))
        (fun r l e h => fromNE h)
    · -- p_redirection_heredoc
      simp [slotsOK] at hs
      obtain ⟨h23, hlg⟩ := hs
      obtain ⟨hl1, hl2, hl3⟩ := last_facts (np := np) hargs hA hlg
      have lexEG : ∀ k, (⟨np, args.map (·.2)⟩ : PCtx).len - 1 = k →
          EG g.line ((⟨np, args.map (·.2)⟩ : PCtx).lexspan k).2 :=
        fun k hk => by rw [← hk]; exact eg_lexspan hl1
      unfold len23 at h23
      simp only [Bool.or_eq_true, beq_iff_eq] at h23
      have h2 : ((⟨np, args.map (·.2)⟩ : PCtx).len == 3) = true →
          EG g.line ((⟨np, args.map (·.2)⟩ : PCtx).lexspan 2).2 := by
        intro h; have : (⟨np, args.map (·.2)⟩ : PCtx).len = 3 := by simpa using h
        exact lexEG 2 (by omega)
      have h3 : ¬ ((⟨np, args.map (·.2)⟩ : PCtx).len == 3) = true →
          EG g.line ((⟨np, args.map (·.2)⟩ : PCtx).lexspan 3).2 := by
        intro h
        have : (⟨np, args.map (·.2)⟩ : PCtx).len ≠ 3 := by simpa using h
        exact lexEG 3 (by omega)
      exact SatS.post (of_keeps (keeps_heredoc _ h2 h3)) (fun r l e h => fromNE h)
    · -- p_simple_command_element
      simp [slotsOK] at hs
      obtain ⟨h1, hlg⟩ := hs
      obtain ⟨hl1, hl2, hl3⟩ := last_facts (np := np) hargs hA hlg
      have hh : GoodNE g.line ((⟨np, args.map (·.2)⟩ : PCtx).slice 1) := by
        rw [hlen, h1] at hl1; exact hl1
      exact SatS.post (of_keeps (keeps_QS (kq _ (by decide) (by decide))
        (sat_simple_command_element _ hh))) (fun r l e h => fromNE h)
    · -- p_redirection_list
      simp [slotsOK] at hs
      obtain ⟨h12, hlg⟩ := hs
      obtain ⟨hl1, hl2, hl3⟩ := last_facts (np := np) hargs hA hlg
      exact SatS.post (of_keeps (keeps_QS (kq _ (by decide) (by decide))
        (sat_redirection_list _ (l12 h12) hl1))) (fun r l e h => fromNE h)
    · -- p_simple_command
      simp [slotsOK] at hs
      obtain ⟨h12, hlg⟩ := hs
      obtain ⟨hl1, hl2, hl3⟩ := last_facts (np := np) hargs hA hlg
      exact SatS.post (of_keeps (keeps_QS (kq _ (by decide) (by decide))
        (sat_simple_command _ (l12 h12) hl1))) (fun r l e h => fromNE h)
    · -- p_function_body
      simp [slotsOK] at hs
      obtain ⟨h12, hlg⟩ := hs
      obtain ⟨hl1, hl2, hl3⟩ := last_facts (np := np) hargs hA hlg
      exact SatS.post (of_keeps (keeps_function_body hnp _ (l12 h12) hl1)) (fun r l e h => fromNE h)
    · -- p_command
      simp [slotsOK] at hs
      obtain ⟨⟨h12, hlg⟩, hg0⟩ := hs
      obtain ⟨hl1, hl2, hl3⟩ := last_facts (np := np) hargs hA hlg
      have hpos : 0 < rhs.length := by
        unfold lastG at hlg; simp only [Bool.and_eq_true, decide_eq_true_eq] at hlg; omega
      have h1 := slot_good (np := np) hargs hA 0 hpos hg0
      exact SatS.post (of_keeps (keeps_command hnp _ (l12 h12) h1 hl1)) (fun r l e h => fromNE h)
    · -- p_subshell
      simp [slotsOK] at hs
      obtain ⟨h3, hlg⟩ := hs
      obtain ⟨hl1, hl2, hl3⟩ := last_facts (np := np) hargs hA hlg
      have h0 : actionCore np "p_subshell" (args.map (·.2)) = (do
          let l ← reservedAt ⟨np, args.map (·.2)⟩ 1
          let r ← reservedAt ⟨np, args.map (·.2)⟩ 3
          let mid ← (⟨np, args.map (·.2)⟩ : PCtx).nodeAt 2 "_partsspan"
          let sp ← partsspan [l, mid, r]
          pure (SVal.node (Node.compound sp [l, mid, r] []), false)) := by
        unfold actionCore; simp only []
      rw [h0]
      have he : EG g.line ((⟨np, args.map (·.2)⟩ : PCtx).lexspan 3).2 := by
        have := eg_lexspan hl1
        rw [hlen, h3] at this; exact this
      exact SatS.post (of_keeps (keeps_group _ he)) (fun r l e h => fromNE h)
    · -- p_group_command
      simp [slotsOK] at hs
      obtain ⟨h3, hlg⟩ := hs
      obtain ⟨hl1, hl2, hl3⟩ := last_facts (np := np) hargs hA hlg
      have h0 : actionCore np "p_group_command" (args.map (·.2)) = (do
          let l ← reservedAt ⟨np, args.map (·.2)⟩ 1
          let r ← reservedAt ⟨np, args.map (·.2)⟩ 3
          let mid ← (⟨np, args.map (·.2)⟩ : PCtx).nodeAt 2 "_partsspan"
          let sp ← partsspan [l, mid, r]
          pure (SVal.node (Node.compound sp [l, mid, r] []), false)) := by
        unfold actionCore; simp only []
      rw [h0]
      have he : EG g.line ((⟨np, args.map (·.2)⟩ : PCtx).lexspan 3).2 := by
        have := eg_lexspan hl1
        rw [hlen, h3] at this; exact this
      exact SatS.post (of_keeps (keeps_group _ he)) (fun r l e h => fromNE h)
    · -- p_simple_list
      simp [slotsOK] at hs
      obtain ⟨⟨h12, hlg⟩, hg0⟩ := hs
      obtain ⟨hl1, hl2, hl3⟩ := last_facts (np := np) hargs hA hlg
      have hpos : 0 < rhs.length := by
        unfold lastG at hlg; simp only [Bool.and_eq_true, decide_eq_true_eq] at hlg; omega
      have h1 := slot_good (np := np) hargs hA 0 hpos hg0
      have h2 : ((⟨np, args.map (·.2)⟩ : PCtx).len == 3) = true →
          EG g.line ((⟨np, args.map (·.2)⟩ : PCtx).lexspan 2).2 := by
        intro h; have h3 : (⟨np, args.map (·.2)⟩ : PCtx).len = 3 := by simpa using h
        have := eg_lexspan hl1
        rw [h3] at this; exact this
      have hgath : SatS gatherheredocuments Pre (fun _ l e => SGP g.line l e) :=
        fun l e h => hG l e h
      exact SatS.post (sats_simple_list hgath _ h1 h2) (fun r l e h => fromNE h)
    · -- p_pipeline_command
      simp [slotsOK] at hs
      obtain ⟨⟨h12, hg0⟩, hg1⟩ := hs
      have hpos : 0 < rhs.length := by
        unfold len12 at h12; simp only [Bool.or_eq_true, beq_iff_eq] at h12; omega
      have h1 := slot_good (np := np) hargs hA 0 hpos hg0
      have h2 : ∀ n, (⟨np, args.map (·.2)⟩ : PCtx).slice 2 = .node n → NG g.line n := by
        intro n hn
        by_cases h1l : 1 < rhs.length
        · have hv := slot_vi hargs hA 1 h1l
          rw [show (⟨np, args.map (·.2)⟩ : PCtx).slice 2 = (args.map (·.2)).getD 1 .none from rfl] at hn
          rw [hn] at hv
          rcases hg1 with (hg1 | hg1) | hg1
          · omega
          · have := vie_good hv hg1; exact this
          · exact hv.2.2 hg1 n rfl
        · have hl : (args.map (·.2)).length = rhs.length := by subst hargs; simp
          rw [show (⟨np, args.map (·.2)⟩ : PCtx).slice 2 = (args.map (·.2)).getD 1 .none from rfl,
            List.getD_eq_getElem?_getD, List.getElem?_eq_none (by omega)] at hn
          cases hn
      exact SatS.post (of_keeps (keeps_pipeline_command _ (l12 h12) h1 h2)) (fun r l e h => fromNE h)
    · -- p_shell_command
      simp [slotsOK] at hs
      obtain ⟨hl1, hl2, hl3⟩ := last_facts (np := np) hargs hA hs
      exact SatS.post (of_keeps (keeps_shell_command hnp _ hl2 hl3 hl1)) (fun r l e h => fromNE h)
    · -- p_for_command
      simp [slotsOK] at hs
      obtain ⟨hl1, hl2, hl3⟩ := last_facts (np := np) hargs hA hs
      exact SatS.post (of_keeps (keeps_for_command hnp _ hl2 hl3)) (fun r l e h => fromNE h)
    · -- p_case_command
      simp [slotsOK] at hs
      obtain ⟨hl1, hl2, hl3⟩ := last_facts (np := np) hargs hA hs
      exact SatS.post (of_keeps (keeps_case_command hnp _ hl2 hl3)) (fun r l e h => fromNE h)
    · -- p_if_command
      simp [slotsOK] at hs
      obtain ⟨hl1, hl2, hl3⟩ := last_facts (np := np) hargs hA hs
      exact SatS.post (of_keeps (keeps_if_command hnp _ hl2 hl3)) (fun r l e h => fromNE h)
    · -- p_function_def
      simp [slotsOK] at hs
      obtain ⟨hl1, hl2, hl3⟩ := last_facts (np := np) hargs hA hs
      exact SatS.post (of_keeps (keeps_function_def hnp _ hl2 hl3)) (fun r l e h => fromNE h)
    · -- p_arith_for_command
      simp [slotsOK] at hs
      obtain ⟨hl1, hl2, hl3⟩ := last_facts (np := np) hargs hA hs
      have h0 : actionCore np "p_arith_for_command" (args.map (·.2)) =
          (do let r ← handleNotImplemented ⟨np, args.map (·.2)⟩ "arithmetic for"; pure (r, false)) := by
        unfold actionCore; simp only []
      rw [h0]
      exact SatS.post (of_keeps (keeps_ni hnp _ _ hl2 hl3)) (fun r l e h => fromNE h)
    · -- p_select_command
      simp [slotsOK] at hs
      obtain ⟨hl1, hl2, hl3⟩ := last_facts (np := np) hargs hA hs
      have h0 : actionCore np "p_select_command" (args.map (·.2)) =
          (do let r ← handleNotImplemented ⟨np, args.map (·.2)⟩ "select command"; pure (r, false)) := by
        unfold actionCore; simp only []
      rw [h0]
      exact SatS.post (of_keeps (keeps_ni hnp _ _ hl2 hl3)) (fun r l e h => fromNE h)
    · -- p_coproc
      simp [slotsOK] at hs
      obtain ⟨hl1, hl2, hl3⟩ := last_facts (np := np) hargs hA hs
      have h0 : actionCore np "p_coproc" (args.map (·.2)) =
          (do let r ← handleNotImplemented ⟨np, args.map (·.2)⟩ "coproc"; pure (r, false)) := by
        unfold actionCore; simp only []
      rw [h0]
      exact SatS.post (of_keeps (keeps_ni hnp _ _ hl2 hl3)) (fun r l e h => fromNE h)
    · -- p_arith_command
      simp [slotsOK] at hs
      obtain ⟨hl1, hl2, hl3⟩ := last_facts (np := np) hargs hA hs
      have h0 : actionCore np "p_arith_command" (args.map (·.2)) =
          (do let r ← handleNotImplemented ⟨np, args.map (·.2)⟩ "arithmetic command"; pure (r, false)) := by
        unfold actionCore; simp only []
      rw [h0]
      exact SatS.post (of_keeps (keeps_ni hnp _ _ hl2 hl3)) (fun r l e h => fromNE h)
    · -- p_cond_command
      simp [slotsOK] at hs
      obtain ⟨hl1, hl2, hl3⟩ := last_facts (np := np) hargs hA hs
      have h0 : actionCore np "p_cond_command" (args.map (·.2)) =
          (do let r ← handleNotImplemented ⟨np, args.map (·.2)⟩ "cond command"; pure (r, false)) := by
        unfold actionCore; simp only []
      rw [h0]
      exact SatS.post (of_keeps (keeps_ni hnp _ _ hl2 hl3)) (fun r l e h => fromNE h)
    · -- p_timespec
      simp [slotsOK] at hs
      obtain ⟨hl1, hl2, hl3⟩ := last_facts (np := np) hargs hA hs
      have h0 : actionCore np "p_timespec" (args.map (·.2)) =
          (do let r ← handleNotImplemented ⟨np, args.map (·.2)⟩ "time command"; pure (r, false)) := by
        unfold actionCore; simp only []
      rw [h0]
      exact SatS.post (of_keeps (keeps_ni hnp _ _ hl2 hl3)) (fun r l e h => fromNE h)
    · -- p_simple_list1
      simp [slotsOK] at hs
      obtain ⟨hl1, hl2, hl3⟩ := last_facts (np := np) hargs hA hs
      have h0 : actionCore np "p_simple_list1" (args.map (·.2)) =
          (do let r ← joinLists ⟨np, args.map (·.2)⟩ Node.operator "p_simple_list1"; pure (r, false)) := by
        unfold actionCore; simp only []
      have hq := kq "p_simple_list1" (by decide) (by decide)
      rw [h0] at hq ⊢
      exact SatS.post (of_keeps (keeps_QS hq (sat_joined "p_simple_list1" _ _ _ hl1)))
        (fun r l e h => fromNE h)
    · -- p_pipeline
      simp [slotsOK] at hs
      obtain ⟨hl1, hl2, hl3⟩ := last_facts (np := np) hargs hA hs
      have h0 : actionCore np "p_pipeline" (args.map (·.2)) =
          (do let r ← joinLists ⟨np, args.map (·.2)⟩ Node.pipe "p_pipeline"; pure (r, false)) := by
        unfold actionCore; simp only []
      have hq := kq "p_pipeline" (by decide) (by decide)
      rw [h0] at hq ⊢
      exact SatS.post (of_keeps (keeps_QS hq (sat_joined "p_pipeline" _ _ _ hl1)))
        (fun r l e h => fromNE h)
  · rw [if_neg hgood] at hk
    simp only [Bool.and_eq_true, bne_iff_ne, ne_eq] at hk
    obtain ⟨⟨h1, h2⟩, h3⟩ := hk
    simp only [Bool.or_eq_true, not_or, Bool.not_eq_true] at hgood
    refine SatS.post (of_keeps (keeps_of_Q (keepsQ_actionCore hnp _ h1 h2 _))) ?_
    intro r l e h
    refine ⟨h.1, vie_nt hlhs (fun h' => by rw [hgood.1] at h'; cases h')
      (fun h' => by rw [hgood.2] at h'; cases h'), ?_⟩
    intro hc
    unfold acceptingActions at hc
    simp only [List.contains_iff_mem, List.mem_cons, List.not_mem_nil, or_false] at hc
    rcases hc with hc | hc
    · exact absurd hc h3
    · exact absurd hc h2

end act

/-! ## the LR engine -/

def VIall (g : C11.Ghost) (x : Nat × SVal) : Prop := C11.VI g x.2 ∧ VIe g.line x.1 x.2

def SIe (g : C11.Ghost) (vs : List (Nat × SVal)) (la : Option (Nat × SVal)) (l : Local) (e : Env) :
    Prop :=
  PreE g l e ∧ (∀ x ∈ vs, VIall g x) ∧ (∀ x, la = some x → VIall g x)

def FinE (g : C11.Ghost) (v : SVal) (l : Local) (e : Env) : Prop :=
  SG g.line l.store ∧ ∀ n, v = .node n → NG g.line n

/-- a nested parser runs on a parser object of its own: the caller's store stays -/
theorem q_nestedOf (Q : List RedirCell → Prop) (d : Nat) (s : Str) (b : Bool) :
    KeepsQ Q (C07.nestedOf d s b) := by
  intro l e a l' e' hq hr
  have hrw : M.run (C07.nestedOf d s b) l e =
      match M.run (parserRun d) (C11.nestedLocal l s b) e with
      | (.ok (r, l'), e') => (.ok (r, { l with ps := l'.ps }), e')
      | (.error x, e') => (.error x, e') := C11.run_nestedOf (parserRun d) s b l e
  rw [hrw] at hr
  rcases hr' : M.run (parserRun d) (C11.nestedLocal l s b) e with ⟨r, e''⟩
  rw [hr'] at hr
  cases r with
  | error x => simp at hr
  | ok v =>
    obtain ⟨r, l1⟩ := v
    simp only [Prod.mk.injEq, Except.ok.injEq] at hr
    rw [← hr.1.2]; exact hq

section hooks
variable {g : C11.Ghost} {d : Nat}

theorem hooks_E (hT : TokEnds) (hg : C11.WFG g)
    (hnp11 : C11.NPOK g (fun _ => True) (C07.nestedOf d)) :
    HooksOrdH realTables (lrHooks (C07.nestedOf d)) (SIe g) (FinE g) (fun _ => True)
      (fun s => s = C05.iuSym) := by
  obtain ⟨src, hline, _⟩ := hg
  have hg : C11.WFG g := ⟨src, hline, by assumption⟩
  refine ⟨?_, ?_, ?_, ?_, ?_, fun la => Sat.trivial _⟩
  · -- next
    intro vs l e hsi
    obtain ⟨hpre, hvs, _⟩ := hsi
    have b1 : C11.HT (I5 g) (lrHooks (C07.nestedOf d)).next
        (fun la l e => I5 g l e ∧ C11.VI g la.2) (fun _ => True) := by
      show C11.HT _ (nextToken >>= fun t => pure (symOfTok t, SVal.tok t)) _ _
      refine C11.HT.bind (next_W (src := src) hg hline) (fun t => C11.HT.pure (fun l e hp => ?_))
      refine ⟨hp.1, ?_⟩
      intro t' ht'; cases ht'; exact hp.2.1
    have b2 : C11.HT (PreE g) (lrHooks (C07.nestedOf d)).next
        (fun la l e => SG g.line l.store ∧ VIe g.line la.1 la.2) (fun _ => True) := by
      show C11.HT _ (nextToken >>= fun t => pure (symOfTok t, SVal.tok t)) _ _
      exact C11.HT.bind (hT.next g hg) (fun t => C11.HT.pure (fun l e hp => ⟨hp.2, vie_tok hp.1⟩))
    have a1 := b1 l e hpre.1
    have a2 := b2 l e hpre
    rcases hr : (lrHooks (C07.nestedOf d)).next.run l e with ⟨r, e'⟩
    rw [hr] at a1 a2
    cases r with
    | error x => trivial
    | ok v =>
      obtain ⟨la, l'⟩ := v
      exact ⟨⟨a1.1, a2.1⟩, hvs, fun x hx => by cases hx; exact ⟨a1.2, a2.2⟩⟩
  · -- shift
    rintro vs la l e ⟨hpre, hvs, hla⟩
    refine ⟨hpre, ?_, fun x hx => by cases hx⟩
    intro x hx
    rcases List.mem_append.mp hx with hx | hx
    · exact hvs x hx
    · simp at hx; subst hx; exact hla _ rfl
  · -- a NEWLINE shifted in state 0
    rintro la l e _ ⟨hpre, hvs, _⟩
    exact ⟨hpre, hvs, fun x hx => by cases hx⟩
  · -- act
    intro p lhs rhs rest args la hp hargs _ _ l e hsi
    obtain ⟨hpre, hvs, hla⟩ := hsi
    have hA : ∀ x ∈ args, VIall g x := fun x hx => hvs x (List.mem_append_right _ hx)
    have hv11 : ∀ a, a ∈ args.map (·.2) → C11.VI g a := by
      intro a ha
      obtain ⟨x, hx, rfl⟩ := List.mem_map.mp ha
      exact (hA x hx).1
    have A1 : SatS ((lrHooks (C07.nestedOf d)).act p (args.map (·.2)))
        (fun l e => PreE g l e) (fun r l e => I5 g l e ∧ C11.VI g r.1) (fun _ => True) :=
      fun l e h => act_state_W hnp11 (Gen.prodFuncs.getD p "") _ hv11 l e h.1
    have A2 : SatS ((lrHooks (C07.nestedOf d)).act p (args.map (·.2)))
        (fun l e => PreE g l e)
        (fun r l e => (SGP g.line l e ∧ VIe g.line lhs r.1 ∧
          (acceptingActions.contains (fn p) = true → strict lhs = true ∨ soft lhs = true)) ∧
          (r.2 = true → acceptingActions.contains (fn p) = true)) (fun _ => True) :=
      sats_action (act_core (np := C07.nestedOf d) (fun _ _ h => h) (hT.gather g hg) hg
        (q_nestedOf _ d) hp hargs
        (fun x hx => (hA x hx).2))
    refine SatS.post (SatS.and A1 A2) ?_ l e hpre
    rintro r l' e' ⟨a1, ⟨hsg, hvie, hacc⟩, hr2⟩
    by_cases h2 : r.2 = true
    · rw [if_pos h2]
      refine ⟨hsg, ?_⟩
      intro n hn
      rcases hacc (hr2 h2) with hst | hso
      · have := hvie.2.1 hst
        rw [hn] at this; exact this
      · exact hvie.2.2 hso n hn
    · rw [if_neg h2]
      refine ⟨⟨a1.1, hsg⟩, ?_, hla⟩
      intro x hx
      rcases List.mem_append.mp hx with hx | hx
      · exact hvs x (List.mem_append_left _ hx)
      · simp at hx; subst hx; exact ⟨a1.2, hvie⟩
  · -- accept
    rintro vs x la l e hx ⟨hpre, hvs, _⟩
    have hv := (hvs x (List.mem_append_right _ (by simp))).2
    refine ⟨hpre.2, ?_⟩
    have hsoft : soft x.1 = true := by rw [hx]; exact soft_iu
    exact hv.2.2 hsoft

end hooks

/-! ## one parser run -/

theorem resolve_pos_eg {L : Str} {st : List RedirCell} {n : Node} (hs : SG L st)
    (hn : EG L n.pos.2) : EG L (resolve st n).pos.2 := by
  cases n with
  | redirect p i t o oa h hid =>
    cases hid with
    | none => simp only [resolve]; exact hn
    | some id =>
      simp only [resolve]
      split
      · rename_i c hc
        exact hs c (List.mem_of_getElem? hc)
      · exact hn
  | _ => simp only [resolve]; exact hn

/-- **every parser run**: the root ends at a position not preceded by two raw newlines -/
theorem parserRun_E (hT : TokEnds) : ∀ d g, C11.WFG g →
    C11.HT (PreE g) (parserRun d)
      (fun r _ _ => ∀ n, r = some n → EG g.line n.pos.2) (fun _ => True) := by
  intro d
  cases d with
  | zero => intro g _; exact C11.HT.raise trivial
  | succ d =>
    intro g hg
    have hnp11 : C11.NPOK g (fun _ => True) (C07.nestedOf d) := by
      refine npok_of_run (fun g' hg' => ?_) g
      obtain ⟨s', hl', _⟩ := hg'
      exact C11.HT.post (parserRun_C04 tokText d s' g' ⟨s', hl', by assumption⟩ hl')
        (fun _ _ _ h => h.2)
    rw [C07.parserRun_succ]
    have hrun := run_sound_ordH real_WF C05.accept_iu (lrHooks (C07.nestedOf d))
      (hooks_E hT hg hnp11) 1073741824
    have hrun' : C11.HT (PreE g) (LR.run realTables (lrHooks (C07.nestedOf d)) 1073741824)
        (fun res l e => GoodO (FinE g) res l e) (fun _ => True) := by
      intro l e hI
      have h1 := hrun l e ⟨hI, fun x hx => (by cases hx), fun x hx => (by cases hx)⟩
      rcases hr : (LR.run realTables (lrHooks (C07.nestedOf d)) 1073741824).run l e with ⟨r, e'⟩
      rw [hr] at h1
      cases r with
      | ok v => exact h1
      | error x => trivial
    refine C11.HT.bind hrun' (fun res => ?_)
    refine C11.HT.bind C11.HT.get (fun l0 => ?_)
    split
    · rename_i n _ _ _
      refine C11.HT.pure ?_
      rintro l e ⟨rfl, hfin⟩
      intro m hm
      cases hm
      obtain ⟨hsg, hng⟩ := hfin
      exact resolve_pos_eg hsg (hng n rfl).1
    · exact C11.HT.pure (fun _ _ h => fun n hn => (by cases hn))

/-! ## from the line back to the input -/

theorem bon_ge (s : Str) : ∀ p, ¬ (2 ≤ p ∧ s[p - 1]? = some '\n' ∧ s[p - 2]? = some '\n') →
    p ≤ backOverNewlines s p + 1
  | 0, _ => Nat.zero_le _
  | 1, _ => by
    unfold backOverNewlines
    split
    · unfold backOverNewlines; omega
    · omega
  | p + 2, h => by
    unfold backOverNewlines
    split
    · rename_i h1
      unfold backOverNewlines
      split
      · rename_i h2
        exfalso
        apply h
        refine ⟨by omega, ?_, ?_⟩
        · simpa using h1
        · simpa using h2
      · omega
    · omega

theorem line_getElem? (s : Str) (i : Nat) (hi : i < s.length) :
    (Tape.ofInput s).line[i]? = s[i]? := by
  unfold Tape.ofInput
  split
  · rfl
  · split
    · rfl
    · simp only []
      rw [List.getElem?_append_left hi]

theorem rootEndOK_of_EG {s : Str} {n : Node} (h : EG (Tape.ofInput s).line n.pos.2) :
    RootEndOK s n := by
  intro c hc _
  have hlt : n.pos.2 < s.length := by
    rcases Nat.lt_or_ge n.pos.2 s.length with h1 | h1
    · exact h1
    · rw [List.getElem?_eq_none h1] at hc; cases hc
  refine bon_ge s n.pos.2 ?_
  rintro ⟨h2, h3, h4⟩
  apply h
  refine ⟨h2, ?_, ?_⟩
  · rw [line_getElem? s _ (by omega)]; exact h3
  · rw [line_getElem? s _ (by omega)]; exact h4

/-! ## the theorem -/

/-- the ghost of a parser object in its initial state over `s` -/
def initGhost (s : Str) (l : Local) (e : Env) : C11.Ghost :=
  { env := if l.tape.isSome then some e.tape else none
    line := (Tape.ofInput s).line, added := (Tape.ofInput s).added, strict := e.strict }

theorem initGhost_wf (s : Str) (l : Local) (e : Env) : C11.WFG (initGhost s l e) := ⟨s, rfl, rfl⟩

theorem pre_init {s : Str} {l : Local} {e : Env} (h : InitState s l e) :
    PreE (initGhost s l e) l e := by
  obtain ⟨h1, h2, h3, h4, h5⟩ := h
  have ht : C10.tapeOf l e = Tape.ofInput s := C05.TG.initState_tape ⟨h1, h2, h3, h4, h5⟩
  refine ⟨⟨⟨⟨⟨⟨?_, rfl⟩, ?_, ?_⟩, ?_, ?_, h4⟩, h3⟩, ?_, ?_⟩, ?_⟩
  · rcases h5 with h5 | ⟨h5, h6⟩
    · simp [initGhost, h5]
    · simp [initGhost, h5]
  · rw [ht]; rfl
  · rw [ht]; rfl
  · intro h; rw [h3] at h; cases h
  · left; rw [ht, C11.ofInput_idx]; exact Nat.zero_le _
  · rw [ht]; rfl
  · rw [ht, C11.ofInput_idx]; exact bndB_zero _
  · intro c hc; rw [h1] at hc; cases hc

/-- **`RootEnds` from the hypothesis on the token source** (fact (S) discharged) -/
theorem rootEnds_conditional (hT : TokEnds) : RootEnds := by
  intro d s l e hinit
  have h := parserRun_E hT d (initGhost s l e) (initGhost_wf s l e) l e (pre_init hinit)
  rcases hr : (parserRun d).run l e with ⟨r, e'⟩
  rw [hr] at h
  cases r with
  | error x => trivial
  | ok v =>
    obtain ⟨r, l'⟩ := v
    intro n hn
    exact rootEndOK_of_EG (h n hn)

end Bashlex.C03.RE

#print axioms Bashlex.C03.RE.rootEnds_conditional
