/-
  RootEnds, fact (W), part 3: the loop of `_readtokenword` never leaves `tokenword` ending in a
  newline.  State-agnostic walk of one iteration (after `C04/WBPlain.lean`); the only
  state-dependent step -- the character appended after a backslash is not a newline -- is the
  field `pn` of `C04.TTP.WInv`, so the iteration is conjoined with `step_tt`.
-/
import Bashlex.Props.C03.RE.WScan2
import Bashlex.Props.C04.TokTextProof

namespace Bashlex.C03.RE
open Bashlex Bashlex.M Bashlex.C10 Bashlex.C11 Bashlex.C03.Tok Bashlex.C04 Bashlex.C04.TTP
  Bashlex.C04.WB
set_option linter.unusedSimpArgs false
set_option linter.unusedVariables false

/-! ## the closures -/

theorem sat_handleshellquote_n (st : RWState) (c : Char) (hq : (synClass c).quote = true) :
    Sat (handleshellquote st c) (fun st' => NoNL st'.tokenword) := by
  unfold handleshellquote
  refine Sat.bind_any (fun _ => Sat.bind_any (fun fuel => ?_))
  refine Sat.bind (sat_pmp fuel _ (quote_ne_nl hq)) (fun ttok ht => ?_)
  refine Sat.bind_any (fun _ => Sat.pure ?_)
  show NoNL (st.tokenword ++ [c] ++ ttok)
  exact noNL_append (noNL_snoc _ (quote_ne_nl hq)) ht

theorem exp_ne_nl {c : Char} (h : (synClass c).exp = true) : c ≠ '\n' := by
  rcases exp_cases h with rfl | rfl | rfl <;> decide

set_option maxHeartbeats 1000000 in
theorem sat_handleshellexp_n (st : RWState) (c : Char) (cd : Option Char)
    (hx : (synClass c).exp = true) :
    Sat (handleshellexp st c cd)
      (fun x => (x.2 = true → x.1 = st) ∧ (x.2 = false → NoNL x.1.tokenword)) := by
  have hcne := exp_ne_nl hx
  unfold handleshellexp
  simp only []
  refine Sat.bind_any (fun peek => ?_)
  refine Sat.ite (fun h1 => ?_) (fun h1 => ?_)
  · -- `$(`, `${`, `$[`, `<(`, `>(`
    have hpre : NoNL (st.tokenword ++ [c] ++ peek.toList) := by
      cases peek with
      | none => simpa using noNL_snoc st.tokenword hcne
      | some p =>
        have hp : p ≠ '\n' := by
          intro hp; subst hp
          simp at h1
        show NoNL (st.tokenword ++ [c] ++ [p])
        exact noNL_snoc _ hp
    have fin : ∀ ttok, NoNL ttok → Sat (pure ({ st with
        tokenword := st.tokenword ++ [c] ++ peek.toList ++ ttok,
        dollarPresent := true, allDigit := false }, false) : M (RWState × Bool))
        (fun x => (x.2 = true → x.1 = st) ∧ (x.2 = false → NoNL x.1.tokenword)) :=
      fun ttok ht => Sat.pure ⟨fun h => (by cases h), fun _ => noNL_append hpre ht⟩
    repeat' first
      | exact sat_pmp _ _ (by simp)
      | exact sat_pcs _ _ (by simp)
      | refine Sat.bind (P := NoNL) ?_ (fun ttok ht => fin ttok ht)
      | exact fin _ (by assumption)
      | refine Sat.bind (P := NoNL) (sat_pmp _ _ ?_) (fun ttok ht => ?_)
      | refine Sat.bind (P := NoNL) (sat_pcs _ _ ?_) (fun ttok ht => ?_)
      | refine Sat.ite (fun _ => ?_) (fun _ => ?_)
      | exact Sat.pure (by assumption)
      | refine Sat.bind_any (fun _ => ?_)
      | (show _ ≠ _; simp)
  · refine Sat.ite (fun h2 => ?_) (fun h2 => ?_)
    · -- `$'…'`, `$"…"`
      have hp : peek.getD '"' ≠ '\n' := by
        cases peek with
        | none => decide
        | some p =>
          intro hp
          have : p = '\n' := hp
          subst this
          simp at h2
      refine Sat.bind_any (fun _ => Sat.bind_any (fun fuel => ?_))
      refine Sat.bind (sat_pmp fuel _ hp) (fun ttok ht => ?_)
      refine Sat.bind_any (fun _ => Sat.pure ⟨fun h => (by cases h), fun _ => ?_⟩)
      show NoNL (st.tokenword ++ [c, peek.getD '"'] ++ ttok)
      refine noNL_append ?_ ht
      have : st.tokenword ++ [c, peek.getD '"'] = (st.tokenword ++ [c]) ++ [peek.getD '"'] := by simp
      rw [this]; exact noNL_snoc _ hp
    · refine Sat.ite (fun h3 => ?_) (fun h3 => ?_)
      · refine Sat.pure ⟨fun h => (by cases h), fun _ => ?_⟩
        show NoNL (st.tokenword ++ ['$', '$'])
        have : st.tokenword ++ ['$', '$'] = (st.tokenword ++ ['$']) ++ ['$'] := by simp
        rw [this]; exact noNL_snoc _ (by decide)
      · exact Sat.bind_any (fun _ => Sat.pure ⟨fun _ => rfl, fun h => (by cases h)⟩)

/-! ## one iteration -/

def NStep (r : RWState ⊕ RWState) : Prop :=
  match r with
  | .inl s => NoNL s.tokenword
  | .inr s => NoNL s.tokenword

theorem sat_rwTail_n (st : RWState) (h : NoNL st.tokenword) : Sat (rwTail st) NStep := by
  unfold rwTail
  exact Sat.bind_any (fun _ => Sat.bind_any (fun nc => Sat.pure h))

theorem sat_rwBreak_true_n (st : RWState) (c : Char) (h : NoNL st.tokenword) :
    Sat (rwBreak st c true) NStep := by
  rw [rwBreak_true]; exact sat_rwTail_n st h

theorem sat_rwBreak_false_n (st : RWState) (c : Char) (h : NoNL st.tokenword) :
    Sat (rwBreak st c false) NStep := by
  unfold rwBreak
  simp only [Bool.not_false, if_true]
  refine Sat.bind (sat_shellbreak c) (fun b hb => ?_)
  subst hb
  refine Sat.ite (fun hbrk => ?_) (fun hbrk => ?_)
  · exact Sat.bind_any (fun _ => Sat.pure h)
  · have hbrk' : (synClass c).brk = false := by simpa using hbrk
    refine sat_rwTail_n (handleescapedchar st c) ?_
    show NoNL (st.tokenword ++ [c])
    refine noNL_snoc _ ?_
    intro hc; subst hc
    rw [brk_nl] at hbrk'; cases hbrk'

set_option maxHeartbeats 1000000 in
/-- **one iteration of the loop of `_readtokenword`**: `tokenword` does not end in a newline,
    provided the character in hand after a backslash is not a newline -/
theorem sat_step_n (st : RWState) (h : NoNL st.tokenword)
    (hpn : st.passNext = true → ∀ c, st.c = some c → c ≠ '\n') :
    Sat (readtokenwordStep st) NStep := by
  rw [readtokenwordStep_eq]
  cases hc : st.c with
  | none => exact Sat.pure h
  | some c0 =>
    simp only []
    by_cases hp : st.passNext = true
    · rw [if_pos hp]
      refine sat_rwTail_n _ ?_
      show NoNL (st.tokenword ++ [c0])
      exact noNL_snoc _ (hpn hp c0 hc)
    · rw [if_neg hp]
      refine Sat.bind_any (fun cd => ?_)
      refine Sat.ite (fun hbs => ?_) (fun hbs => ?_)
      · have hc0 : c0 = '\\' := by simpa using hbs
        subst hc0
        refine Sat.bind_any (fun peek => ?_)
        refine Sat.ite (fun _ => sat_rwBreak_true_n st _ h) (fun _ => ?_)
        refine Sat.bind_any (fun _ => Sat.bind_any (fun cond => ?_))
        refine Sat.ite (fun _ => ?_) (fun _ => ?_)
        · refine sat_rwBreak_true_n _ _ ?_
          show NoNL (st.tokenword ++ ['\\'])
          exact noNL_snoc _ (by decide)
        · exact sat_rwBreak_false_n st '\\' h
      · refine Sat.bind (sat_shellquote c0) (fun b hb => ?_)
        subst hb
        refine Sat.ite (fun hq => ?_) (fun hq => ?_)
        · refine Sat.bind (sat_handleshellquote_n st c0 hq) (fun st' hst' => ?_)
          exact sat_rwBreak_true_n st' c0 hst'
        · refine Sat.bind (sat_shellexp c0) (fun b hb => ?_)
          subst hb
          refine Sat.ite (fun hx => ?_) (fun hx => ?_)
          · refine Sat.bind (sat_handleshellexp_n st c0 cd hx) (fun x hx' => ?_)
            obtain ⟨st', r⟩ := x
            cases r with
            | false =>
              show Sat (rwBreak st' c0 (!false)) _
              rw [Bool.not_false]
              exact sat_rwBreak_true_n st' c0 (hx'.2 rfl)
            | true =>
              show Sat (rwBreak st' c0 (!true)) _
              rw [Bool.not_true]
              have : st' = st := hx'.1 rfl
              subst this
              exact sat_rwBreak_false_n st' c0 h
          · exact sat_rwBreak_false_n st c0 h

/-! ## the loop, `_readtokenword` -/

section
variable {L : Str} {a : Nat}

theorem rtwLoop_n (hS : ScanHyp) (hnl : NL L) (fuel : Nat) (st : RWState) :
    HT (fun l e => RWI L a st l e ∧ NoNL st.tokenword)
      (M.loop "_readtokenword" readtokenwordStep fuel st)
      (fun s l e => ExitQ L a s l e ∧ NoNL s.tokenword) ET := by
  refine HT.loop (I := fun s l e => RWI L a s l e ∧ NoNL s.tokenword) True.intro (fun s => ?_) fuel st
  refine HT.pre (P := fun l e => NoNL s.tokenword ∧ RWI L a s l e)
    (HT.pre_pure (fun hN => ?_)) (fun l e h => ⟨h.2, h.1⟩)
  refine HT.pre_exists (fun i => HT.pre_pure (fun hw => ?_))
  have hs := sat_step_n s hN (fun hp c hc => by
    obtain ⟨i0, rqn, p, hpne, hcp, _⟩ := hw.pn hp
    rw [hc] at hcp; cases hcp; exact hpne)
  refine HT.post (HT.exn (HT.and_sat (step_tt hS hnl s hw) hs) (fun _ _ => True.intro)) ?_
  intro r l e h
  cases r with
  | inl s' => exact ⟨h.2, h.1⟩
  | inr s' => exact ⟨h.2, h.1⟩

/-- **`_readtokenword(c)`**: the value of the token does not end in a newline -/
theorem readtokenword_n (hS : ScanHyp) (hnl : NL L) (c : Char) (a : Nat) :
    HT (RWI L a { c := some c, allDigit := isDigit c }) (readtokenword c)
      (fun t _ _ => ∃ k tw, NoNL tw ∧ WordTok a k tw t) ET := by
  unfold readtokenword
  refine HT.bind (Q := fun _ l e => RWI L a { c := some c, allDigit := isDigit c } l e)
    (HT.pure (fun _ _ h => h)) (fun fuel => ?_)
  refine HT.bind (HT.pre (rtwLoop_n hS hnl fuel _) (fun l e h => ⟨h, noNL_nil⟩)) (fun st => ?_)
  refine HT.pre (P := fun l e => NoNL st.tokenword ∧ ExitQ L a st l e)
    (HT.pre_pure (fun hN => ?_)) (fun l e h => ⟨h.2, h.1⟩)
  refine HT.pre_exists (fun k => HT.pre_pure (fun hk => ?_))
  refine HT.post (finishWord_tt st a) ?_
  intro t l e h
  exact ⟨k, st.tokenword, hN, h.1⟩

end

end Bashlex.C03.RE
