/-
  RootEnds, part 3: the facts about the generated grammar fact (S) rests on, decided by the kernel
  (re-checked whenever the grammar changes).

  `strict`: the non-terminals whose value is a node / a non-empty list of nodes that ends where a
  delivered token other than NEWLINE ends (everything that can be the last symbol of
  `simple_list`); `soft`: `list_terminator` (`;` gives an operator node, NEWLINE gives `None`) and
  `inputunit`.  For every production whose left-hand side is strict or soft, the slots of the
  right-hand side the action takes the END of its result from are good symbols (`slotsOK`):
  terminals other than NEWLINE, or strict non-terminals.
-/
import Bashlex.Props.C03.Grammar

namespace Bashlex.C03.RE
open Bashlex Bashlex.LR Bashlex.C12
set_option linter.unusedSimpArgs false
set_option linter.unusedVariables false

def nTerm : Nat := Gen.termNames.length
def ntSym (n : String) : Nat := nTerm + Gen.ntNames.idxOf n

def strictNames : List String :=
  ["simple_list", "simple_list1", "pipeline_command", "pipeline", "command", "simple_command",
   "simple_command_element", "redirection", "redirection_list", "shell_command", "for_command",
   "arith_for_command", "select_command", "case_command", "function_def", "function_body",
   "subshell", "group_command", "coproc", "if_command", "arith_command", "cond_command",
   "timespec"]
def softNames : List String := ["list_terminator", "inputunit"]

def strict (s : Nat) : Bool := (strictNames.map ntSym).contains s
def soft (s : Nat) : Bool := (softNames.map ntSym).contains s

/-- a symbol whose value ends well: a terminal other than NEWLINE, or a strict non-terminal -/
def goodSym (s : Nat) : Bool := (decide (s < nTerm) && s != nlSym) || strict s

/-- the action functions that build strict / soft values -/
def goodFuncs : List String :=
  ["p_inputunit", "p_list_terminator", "p_redirection", "p_redirection_heredoc",
   "p_simple_command_element", "p_redirection_list", "p_simple_command", "p_function_body",
   "p_command", "p_subshell", "p_group_command", "p_simple_list", "p_pipeline_command",
   "p_shell_command", "p_for_command", "p_case_command", "p_if_command", "p_function_def",
   "p_arith_for_command", "p_select_command", "p_coproc", "p_arith_command", "p_cond_command",
   "p_timespec", "p_simple_list1", "p_pipeline"]

def lastG (rhs : List Nat) : Bool :=
  decide (1 ≤ rhs.length) && goodSym (rhs.getD (rhs.length - 1) 0)
def len12 (rhs : List Nat) : Bool := rhs.length == 1 || rhs.length == 2
def len23 (rhs : List Nat) : Bool := rhs.length == 2 || rhs.length == 3

/-- the slots an action takes the end of its result from are good -/
def slotsOK (f : String) (rhs : List Nat) : Bool :=
  if f == "p_inputunit" then
    decide (rhs.getD 0 0 < nTerm) || strict (rhs.getD 0 0) || soft (rhs.getD 0 0)
  else if f == "p_list_terminator" then decide (1 ≤ rhs.length) && decide (rhs.getD 0 0 < nTerm)
  else if f == "p_redirection" || f == "p_redirection_heredoc" then len23 rhs && lastG rhs
  else if f == "p_simple_command_element" then rhs.length == 1 && lastG rhs
  else if f == "p_redirection_list" || f == "p_simple_command" || f == "p_function_body" then
    len12 rhs && lastG rhs
  else if f == "p_command" || f == "p_simple_list" then
    len12 rhs && lastG rhs && goodSym (rhs.getD 0 0)
  else if f == "p_subshell" || f == "p_group_command" then rhs.length == 3 && lastG rhs
  else if f == "p_pipeline_command" then
    len12 rhs && goodSym (rhs.getD 0 0) &&
      (rhs.length == 1 || goodSym (rhs.getD 1 0) || soft (rhs.getD 1 0))
  else lastG rhs

def reOK (f : String) (lhs : Nat) (rhs : List Nat) : Bool :=
  decide (nTerm ≤ lhs) &&
  (if strict lhs || soft lhs then goodFuncs.contains f && slotsOK f rhs &&
      (!(f == "p_inputunit" || f == "p_list_terminator") || !strict lhs)
   else f != "p_redirection_heredoc" && f != "p_simple_list" && f != "p_inputunit")

def reGrammarCheck : Bool :=
  (List.zip Gen.prodFuncs Gen.prodTable).all fun (f, (lhs, rhs)) => reOK f lhs rhs

theorem re_grammar_ok : reGrammarCheck = true := by decide +kernel

theorem re_ok {p lhs : Nat} {rhs : List Nat} (hp : realTables.prods[p]? = some (lhs, rhs)) :
    reOK (fn p) lhs rhs = true := by
  have hp' : Gen.prodTable[p]? = some (lhs, rhs) := hp
  have hlt : p < Gen.prodFuncs.length := by
    rw [prodFuncs_length]
    exact (List.getElem?_eq_some_iff.mp hp').1
  have hf : Gen.prodFuncs[p]? = some (fn p) := by
    simp [fn, List.getD_eq_getElem?_getD, List.getElem?_eq_getElem hlt]
  have hz : (List.zip Gen.prodFuncs Gen.prodTable)[p]? = some (fn p, (lhs, rhs)) :=
    List.getElem?_zip_eq_some.mpr ⟨hf, hp'⟩
  have hmem := List.mem_of_getElem? hz
  have hg := re_grammar_ok
  unfold reGrammarCheck at hg
  exact List.all_eq_true.mp hg _ hmem

/-- strict and soft symbols are non-terminals -/
theorem strict_nt : ∀ s, strict s = true → nTerm ≤ s := by
  intro s h
  unfold strict at h
  rw [List.contains_iff_mem] at h
  obtain ⟨n, _, rfl⟩ := List.mem_map.mp h
  exact Nat.le_add_right _ _

theorem soft_nt : ∀ s, soft s = true → nTerm ≤ s := by
  intro s h
  unfold soft at h
  rw [List.contains_iff_mem] at h
  obtain ⟨n, _, rfl⟩ := List.mem_map.mp h
  exact Nat.le_add_right _ _

/-- the terminal of a token -/
theorem symOfTok_lt (t : Token) : symOfTok t < nTerm := by
  unfold symOfTok
  cases t.ttype with
  | none => decide
  | some ty => cases ty <;> decide

theorem symOfTok_nl {t : Token} (h : t.ttype = some .NEWLINE) : symOfTok t = nlSym := by
  unfold symOfTok; rw [h]; rfl

/-- `inputunit` is soft -/
theorem soft_iu : soft (Gen.termNames.length + Gen.ntNames.idxOf "inputunit") = true := by decide

end Bashlex.C03.RE
