/-
  RootEnds, fact (T): from the token-text relation (`C04.tokText`, proved) to the END of a token.

  `eg_of_del`: if the text under a span is the string `x` with some backslash-newline pairs put
  back (`C04.Del`) and `x` does not end in a newline, the text does not end in two raw newlines:
  the last newline of the text is not preceded by a backslash, so it is not deleted.
  `tokG_of`: a token satisfying `TT` (text relation) and `TokWF` (type / value consistency of
  C12) whose value does not end in a newline unless it is an operator (`WordValOK`) satisfies
  `TokG`.
-/
import Bashlex.Props.C03.RE.Engine

namespace Bashlex.C03.RE
open Bashlex Bashlex.C04 Bashlex.Spec
set_option linter.unusedSimpArgs false
set_option linter.unusedVariables false

/-! ## `Del` and a text ending in two newlines -/

theorem del_single_nl {w : Str} (h : Del ['\n'] w) : w = ['\n'] := by
  cases h with
  | keep c h' => cases h'; rfl

theorem getLast?_cons_some {α : Type} {a x : α} {rest : List α} (h : rest.getLast? = some x) :
    (a :: rest).getLast? = some x := by
  cases rest with
  | nil => cases h
  | cons y ys => rw [List.getLast?_cons_cons]; exact h

theorem del_last_nl : ∀ {s w : Str}, Del s w → ∀ s0, s = s0 ++ ['\n', '\n'] →
    w.getLast? = some '\n' := by
  intro s w h
  induction h with
  | nil => intro s0 h0; cases s0 <;> simp at h0
  | @keep c s w h ih =>
    intro s0 h0
    cases s0 with
    | nil =>
      simp only [List.nil_append, List.cons.injEq] at h0
      obtain ⟨rfl, rfl⟩ := h0
      rw [del_single_nl h]; rfl
    | cons x s0' =>
      simp only [List.cons_append, List.cons.injEq] at h0
      exact getLast?_cons_some (ih s0' h0.2)
  | @skip s w h ih =>
    intro s0 h0
    cases s0 with
    | nil => simp at h0
    | cons x s1 =>
      cases s1 with
      | nil =>
        simp only [List.cons_append, List.nil_append, List.cons.injEq] at h0
        obtain ⟨_, _, rfl⟩ := h0
        rw [del_single_nl h]; rfl
      | cons y s2 =>
        simp only [List.cons_append, List.cons.injEq] at h0
        exact ih s2 h0.2.2

/-- **fact (T)** -/
theorem eg_of_del {L : Str} {a e : Nat} {x : Str} (hae : a < e)
    (hd : Del (Str.slice L a e) x) (hx : x.getLast? ≠ some '\n') : EG L e := by
  rintro ⟨h2, h3, h4⟩
  apply hx
  obtain ⟨j, rfl⟩ : ∃ j, e = j + 1 := ⟨e - 1, by omega⟩
  simp only [Nat.add_sub_cancel] at h3
  rw [slice_snoc L h3 (by omega)] at hd
  by_cases haj : a = j
  · subst haj
    rw [slice_self, List.nil_append] at hd
    rw [del_single_nl hd]; rfl
  · obtain ⟨k, rfl⟩ : ∃ k, j = k + 1 := ⟨j - 1, by omega⟩
    have h4' : L[k]? = some '\n' := by
      have : k + 1 + 1 - 2 = k := by omega
      rw [this] at h4; exact h4
    rw [slice_snoc L h4' (by omega), List.append_assoc] at hd
    exact del_last_nl hd _ rfl

/-! ## `stripContinuations` is a `Del` -/

theorem del_strip : ∀ s : Str, Del s (stripContinuations s)
  | [] => by simp [stripContinuations]; exact .nil
  | [c] => by
    rw [strip_cons (by simp)]
    simp [stripContinuations]
    exact .keep c .nil
  | c :: d :: rest => by
    by_cases h : c = '\\' ∧ d = '\n'
    · obtain ⟨rfl, rfl⟩ := h
      rw [strip_pair]
      exact .skip (del_strip rest)
    · rw [strip_cons (by simpa using h)]
      exact .keep c (del_strip (d :: rest))

/-! ## tokens -/

/-- **fact (W), as a property of a delivered token**: a value ending in a newline belongs to an
    operator token (whose value is its spelling: `TokWF`) -/
def WordValOK (t : Token) : Prop :=
  ∀ v, t.value = .str v → v.getLast? = some '\n' → ∃ ty, t.ttype = some ty ∧ ty.strValueChars.isSome

instance (t : Token) : Decidable (WordValOK t) := by
  unfold WordValOK
  cases t.value with
  | str v =>
    by_cases h : v.getLast? = some '\n'
    · cases hty : t.ttype with
      | none => exact isFalse (fun hh => by obtain ⟨ty, h1, _⟩ := hh v rfl h; cases h1)
      | some ty =>
        by_cases h2 : ty.strValueChars.isSome
        · exact isTrue (fun v' hv' _ => ⟨ty, rfl, h2⟩)
        · exact isFalse (fun hh => by
            obtain ⟨ty', h1, h3⟩ := hh v rfl h
            cases h1; exact h2 h3)
    · exact isTrue (fun v' hv' hl => by cases hv'; exact absurd hl h)
  | int k => exact isTrue (fun v hv => by cases hv)
  | none => exact isTrue (fun v hv => by cases hv)

theorem residues_last {b : Bool} {line : Str} {e : Nat} {r : Str} (h : r ∈ residues b line e) :
    r = [] ∨ (r ≠ [] ∧ r.getLast? ≠ some '\n') := by
  unfold residues at h
  simp only [List.mem_append, List.mem_singleton, List.mem_ite_nil_right, List.mem_cons,
    List.not_mem_nil, or_false] at h
  rcases h with ((h | h) | h) | h
  · exact Or.inl h
  · right; rw [h.2]; exact ⟨by simp, by decide⟩
  · right; rcases h.2 with h | h <;> (rw [h]; exact ⟨by simp, by decide⟩)
  · right; rcases h.2 with h | h <;> (rw [h]; exact ⟨by simp, by decide⟩)

theorem getLast?_append_ne_nil {α : Type} (a : List α) {b : List α} (hb : b ≠ []) :
    (a ++ b).getLast? = b.getLast? := by
  rw [List.getLast?_append]
  cases h : b.getLast? with
  | none => rw [List.getLast?_eq_none_iff] at h; exact absurd h hb
  | some x => rfl

theorem strval_last {ty : TokType} {s : Str} (h : ty.strValueChars = some s)
    (hl : s.getLast? = some '\n') : ty = .NEWLINE ∧ s = ['\n'] := by
  cases ty <;> simp [TokType.strValueChars] at h <;> subst h <;> first | (exact ⟨rfl, rfl⟩) | (revert hl; decide)

/-- a delivered token ends well -/
theorem tokG_of {L : Str} {t : Token} (hTT : TT L t) (hWF : C12.TokWF t) (hW : WordValOK t) :
    TokG L t := by
  cases hv : t.value with
  | none =>
    right
    have := (hTT.none hv).2
    simp only [Token.endlexpos, this, Option.getD_none]
    exact EG_zero L
  | int k =>
    right
    unfold TT ttOK at hTT
    rw [hv] at hTT
    cases hp : t.pos with
    | none => rw [hp] at hTT; simp at hTT
    | some p =>
      obtain ⟨a, e⟩ := p
      rw [hp] at hTT
      simp only [Bool.and_eq_true, decide_eq_true_eq, List.any_eq_true] at hTT
      obtain ⟨⟨⟨_, hae⟩, hel⟩, r, hr, hrel⟩ := hTT
      simp only [Bool.and_eq_true, decide_eq_true_eq, beq_iff_eq] at hrel
      obtain ⟨⟨⟨hlen, hsuf⟩, hnum⟩, _⟩ := hrel
      have he : t.endlexpos = e := by simp [Token.endlexpos, hp]
      rw [he]
      refine eg_of_del hae (del_strip _) ?_
      intro hlast
      have hd : stripContinuations (Str.slice L a e) =
          (stripContinuations (Str.slice L a e)).take
            ((stripContinuations (Str.slice L a e)).length - r.length) ++ r := by
        conv => lhs; rw [← List.take_append_drop
          ((stripContinuations (Str.slice L a e)).length - r.length)
          (stripContinuations (Str.slice L a e))]
        rw [hsuf]
      rcases residues_last hr with hr0 | hr0
      · subst hr0
        simp only [List.length_nil, Nat.sub_zero, List.take_length] at hnum
        unfold legalNumber at hnum
        simp only [Bool.and_eq_true, List.all_eq_true] at hnum
        have hm := List.mem_of_getLast? hlast
        have := hnum.2 _ hm
        revert this; decide
      · rw [hd, getLast?_append_ne_nil _ hr0.1] at hlast
        exact hr0.2 hlast
  | str v =>
    obtain ⟨a, e, hp, hae, _, hnum, heof, hty, _, hmain⟩ := hTT.str hv
    have he : t.endlexpos = e := by simp [Token.endlexpos, hp]
    rcases hmain with ⟨hel, _, _, r, hr, hrel⟩ | hnl
    · by_cases hlast : v.getLast? = some '\n'
      · -- an operator token: its value is its spelling, hence NEWLINE
        obtain ⟨ty, hty', hsome⟩ := hW v hv hlast
        left
        cases hs : ty.strValueChars with
        | none => rw [hs] at hsome; cases hsome
        | some s =>
          have hval := hWF ty hty'
          have hne : ty ≠ .EOF := by
            intro h; subst h
            simp [Token.is, hty'] at heof
          have hres : C12.resOK ty = true := by
            cases ty <;> first | rfl | exact absurd rfl hne | (simp [TokType.strValueChars] at hs)
          obtain ⟨s', hs', _, hsp⟩ := hval.1 hres
          rw [hv] at hs'
          cases hs'
          have := hsp s hs
          subst this
          obtain ⟨rfl, rfl⟩ := strval_last hs hlast
          exact ⟨hty', hv⟩
      · right
        rw [he]
        unfold textRel at hrel
        refine eg_of_del hae (delB_iff.mp hrel) ?_
        rcases residues_last hr with hr0 | hr0
        · subst hr0; rw [List.append_nil]; exact hlast
        · rw [getLast?_append_ne_nil _ hr0.1]; exact hr0.2
    · left
      unfold nlOver at hnl
      simp only [Bool.and_eq_true, beq_iff_eq] at hnl
      obtain ⟨⟨h1, h2⟩, _⟩ := hnl
      refine ⟨?_, by rw [hv, h2]⟩
      unfold Token.is at h1
      simpa using h1

end Bashlex.C03.RE

/-! ## `TokEnds`, reduced to facts (W) and (H)

  (`TokValW` is proved in `WRead.lean`: `tokValW`; `StoreEnds` is superseded by `Bridge.lean`,
  which proves fact (H) inside the engine pass, where C03's invariant is available.) -/

namespace Bashlex.C03.RE
open Bashlex Bashlex.C04

/-- **fact (W)**: the value of a token `token()` delivers does not end in a newline unless the
    token is an operator (a statement about `_readtokenword`: a newline breaks a word, an escaped
    newline is a continuation and is not appended, what a quote or an expansion returns ends with
    its closing character) -/
structure TokValW : Prop where
  next : ∀ g, C11.WFG g → C11.HT (I5 g) nextToken (fun t _ _ => WordValOK t) (fun _ => True)

/-- **fact (H)**: `token()` (which gathers here-documents when it reads a NEWLINE) and
    `gatherheredocuments` keep the redirect cells ending well: an extended redirect ends with
    the delimiter line of its body, before that line's newline -/
structure StoreEnds : Prop where
  next : ∀ g, C11.WFG g →
    C11.HT (fun l e => I5 g l e ∧ SG g.line l.store) nextToken
      (fun _ l _ => SG g.line l.store) (fun _ => True)
  gather : ∀ g, C11.WFG g →
    C11.HT (fun l e => I5 g l e ∧ SG g.line l.store) gatherheredocuments
      (fun _ l _ => SG g.line l.store) (fun _ => True)

/-- **`TokEnds` from (W) and (H)**: fact (T) is `tokG_of`, from `C04.tokText` -/
theorem tokEnds_of (hW : TokValW) (hH : StoreEnds) : TokEnds where
  next := by
    intro g hg l e hpre
    obtain ⟨src, hline, hadd⟩ := hg
    have hg : C11.WFG g := ⟨src, hline, hadd⟩
    have a1 := next_W (src := src) hg hline l e hpre.1
    have a2 := hW.next g hg l e hpre.1
    have a3 := hH.next g hg l e hpre
    rcases hr : nextToken.run l e with ⟨r, e'⟩
    rw [hr] at a1 a2 a3
    cases r with
    | error x => trivial
    | ok v =>
      obtain ⟨t, l'⟩ := v
      simp only [] at a1 a2 a3 ⊢
      refine ⟨?_, a3⟩
      have hk := a1.2.2.1
      rw [← hline] at hk
      exact tokG_of hk.1 hk.2 a2
  gather := hH.gather

/-- **`RootEnds` from facts (W) and (H)** ((S) and (T) proved) -/
theorem rootEnds_conditional' (hW : TokValW) (hH : StoreEnds) : RootEnds :=
  rootEnds_conditional (tokEnds_of hW hH)

end Bashlex.C03.RE

#print axioms Bashlex.C03.RE.tokG_of
#print axioms Bashlex.C03.RE.rootEnds_conditional'
