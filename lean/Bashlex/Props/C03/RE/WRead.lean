/-
  RootEnds, fact (W), part 4: `_readtoken`, `token()` — **`tokValW : TokValW`**.

  The walk of `_readtoken` is the one of `Props/C04/TTRead.lean` (`readtoken_tt`), with the
  post-condition "a token read by `_readtokenword` has a value that does not end in a newline";
  nothing is needed of the bare token types, and the newline / comment branches are skipped.
-/
import Bashlex.Props.C03.RE.WWord
import Bashlex.Props.C03.RE.TokT

namespace Bashlex.C03.RE
open Bashlex Bashlex.M Bashlex.C10 Bashlex.C11 Bashlex.C03.Tok Bashlex.C04 Bashlex.C04.TTP
  Bashlex.C04.WB
set_option linter.unusedSimpArgs false
set_option linter.unusedVariables false

/-- what `_readtoken` returns: a bare type, or a token with a good value -/
def RW (r : TokType ⊕ Token) : Prop := ∀ t, r = .inr t → WordValOK t

theorem wordValOK_of_tok {a k : Nat} {tw : Str} {t : Token} (hN : NoNL tw)
    (h : WordTok a k tw t) : WordValOK t := by
  intro v hv hl
  rcases h.2.2 with h1 | ⟨h1, _, _⟩
  · rw [h1] at hv; cases hv; exact absurd hl hN
  · rw [h1] at hv; cases hv

theorem wordValOK_none {t : Token} (h : t.value = .none) : WordValOK t := by
  intro v hv; rw [h] at hv; cases hv

theorem enumValue_str {ty : TokType} {v : Str} (h : ty.enumValue = .str v) :
    ty.strValueChars.isSome = true := by
  unfold TokType.enumValue at h
  split at h
  · rename_i s hs; rw [hs]; rfl
  · cases h

theorem wordValOK_bare {t : Token} {ty : TokType} (h : t.ttype = some ty ∧ t.value = ty.enumValue) :
    WordValOK t := by
  intro v hv _
  rw [h.2] at hv
  exact ⟨ty, h.1, enumValue_str hv⟩

theorem ht_of_sat {α : Type} {P : Local → Env → Prop} {m : M α} {φ : α → Prop}
    (h : Sat m φ) : HT P m (fun a _ _ => φ a) ET := by
  intro l e _
  have h1 := h l e
  revert h1
  rcases m.run l e with ⟨r, e'⟩
  cases r with
  | ok v => exact fun h => h
  | error x => exact fun _ => True.intro

section
variable {L : Str}

theorem rtw_leaf (hS : ScanHyp) (hnl : NL L) (c : Char) (a : Nat) :
    HT (RWI L a { c := some c, allDigit := isDigit c })
      (do let t ← readtokenword c; pure (Sum.inr t) : M (TokType ⊕ Token))
      (fun r _ _ => RW r) ET := by
  refine HT.bind (readtokenword_n hS hnl c a) (fun t => ?_)
  refine HT.pure (fun l e h t' ht' => ?_)
  cases ht'
  obtain ⟨k, tw, hN, hw⟩ := h
  exact wordValOK_of_tok hN hw

theorem rw_inl {P : Local → Env → Prop} (ty : TokType) :
    HT P (pure (Sum.inl ty) : M (TokType ⊕ Token)) (fun r _ _ => RW r) ET :=
  HT.pure (fun _ _ _ t ht => by cases ht)

/-- the newline branch: whatever happens, a bare type is returned -/
theorem nl_tail {P : Local → Env → Prop} (u : Local → Local) (c : Char) :
    HT P (do
      gatherheredocuments
      modify u
      let t ← tokentypeOfChar c
      pure (Sum.inl t) : M (TokType ⊕ Token)) (fun r _ _ => RW r) ET :=
  HT.skip (fun _ => HT.skip (fun _ => HT.skip (fun t => rw_inl t)))

set_option maxHeartbeats 2000000 in
/-- **`_readtoken`** -/
theorem readtoken_n (hS : ScanHyp) (hnl : NL L) (hlast : L ≠ [] → L.getLast? = some '\n')
    {i0 : Nat} :
    HT (Tp L [] i0) readtoken (fun r _ _ => RW r) ET := by
  unfold readtoken
  simp only []
  refine keep_bind w_loopFuel (fun fuel _ => ?_)
  refine getc_bind (fun c0 i1 hg0 => ?_)
  refine HT.bind (Q := fun c l e => ∃ i, (∃ i', GetcR true L i' i c) ∧ Tp L [] i l e) ?_
    (fun c1 => ?_)
  · -- skipping blanks
    refine HT.pre (HT.loop (E := ET)
      (I := fun c l e => ∃ i, (∃ i', GetcR true L i' i c) ∧ Tp L [] i l e) True.intro
      (fun c => ?_) fuel c0) (fun l e h => ⟨i1, ⟨i0, hg0⟩, h⟩)
    refine HT.pre_exists (fun i => HT.pre_pure (fun hi => ?_))
    cases c with
    | none => exact HT.pure (fun l e h => ⟨i, hi, h⟩)
    | some ch =>
      simp only []
      refine HT.ite (fun _ => ?_) (fun _ => HT.pure (fun l e h => ⟨i, hi, h⟩))
      refine getc_bind (fun c' i' hg' => ?_)
      exact HT.pure (fun l e h => ⟨i', ⟨i, hg'⟩, h⟩)
  refine HT.pre_exists (fun i => HT.pre_pure (fun hi => ?_))
  obtain ⟨i', hg⟩ := hi
  cases c1 with
  | none => exact HT.pure (fun l e h t ht => by cases ht; exact wordValOK_none rfl)
  | some ch =>
    simp only [pure_bind]
    obtain ⟨g1, g2, g3⟩ := hg.char ch rfl
    refine HT.ite (fun hsharp => ?_) (fun hsharp => ?_)
    · -- a comment: skipped, then the newline
      refine HT.skip (fun _ => HT.skip (fun _ => HT.skip (fun _ => ?_)))
      refine HT.ite (fun _ => ?_) (fun h => absurd rfl h)
      exact nl_tail _ _
    · refine HT.bind (recordpos_tp 1) (fun _ => ?_)
      show HT (Tp L [i - 1] i) _ _ _
      have hii : i = i - 1 + 1 := by omega
      generalize i - 1 = a at g2 hii
      subst hii
      refine HT.ite (fun hn => nl_tail _ _) (fun hn => ?_)
      have hne : ch ≠ '\n' := by simpa using hn
      have hlt : a + 2 ≤ L.length := hnl _ _ g2 hne
      have hword : HT (Tp L [a] (a + 1))
          (do let t ← readtokenword ch; pure (Sum.inr t) : M (TokType ⊕ Token))
          (fun r _ _ => RW r) ET :=
        HT.pre (rtw_leaf hS hnl ch a) (fun l e h => ⟨a + 1, winv_init g2 hne hnl, h⟩)
      have hdash : HT (Tp L [a] (a + 1))
          (do let t ← tokentypeOfChar ch; pure (Sum.inl t) : M (TokType ⊕ Token))
          (fun r _ _ => RW r) ET :=
        HT.skip (fun t => rw_inl t)
      refine HT.get_bind (fun l1 => ?_)
      refine HTQAt.ite (fun _ => HTQAt.ofHT hword) (fun _ => HTQAt.ofHT ?_)
      refine keep_bind (v_shellmeta ch) (fun b hb => ?_)
      subst hb
      refine HT.get_bind (fun l2 => ?_)
      refine HTQAt.ite (fun hm => HTQAt.ofHT ?_) (fun _ => HTQAt.ofHT ?_)
      · refine HT.bind (readtokenMeta_tt hnl g2 hne) (fun r => ?_)
        refine HT.pre_exists (fun j => ?_)
        cases r with
        | some ty =>
          simp only []
          exact rw_inl ty
        | none =>
          simp only []
          refine HT.pre (P := fun l e => ((ch = '<' ∨ ch = '>') ∧ a + 1 ≤ j ∧
            Del (Str.slice L (a + 1) j) [] ∧ L[j]? = some '(') ∧ Tp L [a] j l e)
            (HT.pre_pure (fun hv => ?_)) (fun l e h => ⟨h.2, h.1⟩)
          obtain ⟨hcc, h1, h2, h3⟩ := hv
          refine HT.get_bind (fun l3 => ?_)
          refine HTQAt.ite (fun hd => ?_) (fun _ => HTQAt.ofHT ?_)
          · exfalso
            simp only [Bool.and_eq_true, beq_iff_eq] at hd
            rcases hcc with rfl | rfl <;> exact absurd hd.1 (by decide)
          · refine HT.pre (rtw_leaf hS hnl ch a) (fun l e h => ⟨j, ?_, h⟩)
            exact ⟨Hand.procsub ch rfl hcc g2 h1 h2 h3, by show a + 0 < L.length; omega, rfl,
              fun h => by cases h⟩
      · refine HT.get_bind (fun l3 => ?_)
        exact HTQAt.ite (fun _ => HTQAt.ofHT hdash) (fun _ => HTQAt.ofHT hword)

/-- **`token()`** -/
theorem nextToken_n (hS : ScanHyp) (hnl : NL L) (hlast : L ≠ [] → L.getLast? = some '\n')
    {i0 : Nat} :
    HT (Tp L [] i0) nextToken (fun t _ _ => WordValOK t) ET := by
  unfold nextToken
  simp only []
  refine HT.bind (Q := fun _ l e => Tp L [] i0 l e) (HT.modify (fun l e h => h)) (fun _ => ?_)
  refine HT.bind (readtoken_n hS hnl hlast) (fun r => ?_)
  cases r with
  | inl ty =>
    (try simp only [])
    (try simp only [bind_assoc])
    refine HT.skip (fun _ => ?_)
    refine HT.bind (HT.post (ht_of_sat sat_createtoken') (fun t _ _ h => wordValOK_bare h))
      (fun cur => ?_)
    refine HT.pre (P := fun l e => WordValOK cur ∧ True) (HT.pre_pure (fun hc => ?_))
      (fun _ _ h => ⟨h, trivial⟩)
    exact HT.skip (fun _ => HT.skip (fun _ => HT.pure (fun _ _ _ => hc)))
  | inr t =>
    simp only [pure_bind]
    refine HT.pre (P := fun l e => RW (Sum.inr t) ∧ True) (HT.pre_pure (fun hc => ?_))
      (fun _ _ h => ⟨h, trivial⟩)
    exact HT.skip (fun _ => HT.skip (fun _ => HT.pure (fun _ _ _ => hc t rfl)))

end

/-- **fact (W) holds of the real tokenizer** (no hypotheses) -/
theorem tokValW : TokValW where
  next := by
    intro g hg
    refine HT.pre (P := fun l e => (∃ i, Tp g.line [] i l e) ∨
      C03.DeadS g.line [] l.store l.redirstack l e) ?_ ?_
    · intro l e hp
      rcases hp with ⟨i, hp⟩ | hp
      · have hfacts : NL g.line ∧ (g.line ≠ [] → g.line.getLast? = some '\n') := by
          rcases wfg_line hg with hl | ⟨hnl, hlast⟩
          · rw [hl]
            exact ⟨fun i ch h => by simp at h, fun h => absurd rfl h⟩
          · exact ⟨hnl, fun _ => hlast⟩
        exact nextToken_n scanHyp hfacts.1 hfacts.2 (i0 := i) l e hp
      · have h := C03.nextToken_dead (L := g.line) (sr := l.store) (rk := l.redirstack) l e hp
        revert h
        rcases nextToken.run l e with ⟨r, e'⟩
        cases r with
        | error x => exact fun _ => True.intro
        | ok v =>
          obtain ⟨t, l'⟩ := v
          intro h
          obtain ⟨rfl, _⟩ := h
          exact wordValOK_none rfl
    · intro l e hI
      obtain ⟨⟨hgood, hslot⟩, _⟩ := hI
      obtain ⟨⟨_, hline, _⟩, _, hidx, hps⟩ := hgood
      rcases hidx with hidx | ⟨_, hstrict⟩
      · left
        exact ⟨(tapeOf l e).idx, hline, rfl, hidx, hslot, hps⟩
      · by_cases hle : (tapeOf l e).idx ≤ g.line.length
        · left
          exact ⟨(tapeOf l e).idx, hline, rfl, hle, hslot, hps⟩
        · right
          exact ⟨⟨hline, by omega, hslot, hps, hstrict⟩, rfl, rfl⟩

end Bashlex.C03.RE

#print axioms Bashlex.C03.RE.tokValW
