/-
  RootEnds, part 2 — fact (S): the end of what an action builds is the end of its last argument.

  `EG L p`: the text of `L` before position `p` does not end in two raw newlines.
  `SG L st`: every cell of the redirect store ends at such a position (state invariant; kept by
  every action: `Frame.lean`; `p_redirection_heredoc` adds the span of the redirect itself).
  `NG L n`: the node `n` ends at such a position (for a pipeline: its last part too, which is
  what `! pipeline` reads).  `GoodNE L v`: the semantic value `v` is a token / a node / a
  non-empty list of nodes whose (last) end is such a position.
  One lemma per action function that can build (the last part of) the root.
-/
import Bashlex.Props.C03.RE.Frame
import Bashlex.Proofs.HoareS

namespace Bashlex.C03.RE
open Bashlex Bashlex.M
set_option linter.unusedSimpArgs false
set_option linter.unusedVariables false
set_option linter.unusedSectionVars false

/-! ## definitions -/

/-- the text before position `p` does not end in two raw newline characters -/
def EG (L : Str) (p : Nat) : Prop := ¬ (2 ≤ p ∧ L[p - 1]? = some '\n' ∧ L[p - 2]? = some '\n')

instance (L : Str) (p : Nat) : Decidable (EG L p) := by unfold EG; exact inferInstance

theorem EG_zero (L : Str) : EG L 0 := by
  intro h; omega

/-- every cell of the redirect store ends well -/
abbrev SG (L : Str) (st : List RedirCell) : Prop := ∀ c ∈ st, EG L c.pos.2

/-- the state invariant -/
def SGP (L : Str) : Local → Env → Prop := fun l _ => SG L l.store

/-- a node that ends well (a pipeline: its last part too) -/
def NG (L : Str) (n : Node) : Prop :=
  EG L n.pos.2 ∧ ∀ p ps b, n = .pipeline p ps → ps.getLast? = some b → EG L b.pos.2

/-- a value that is there and ends well -/
def GoodNE (L : Str) : SVal → Prop
  | .tok t => EG L t.endlexpos
  | .node n => NG L n
  | .nodes l => ∃ b, l.getLast? = some b ∧ NG L b
  | .none => False

/-- the last of a list of nodes ends well -/
def LastEG (L : Str) (l : List Node) : Prop := ∃ b, l.getLast? = some b ∧ EG L b.pos.2

variable {L : Str}

theorem NG.eg {n : Node} (h : NG L n) : EG L n.pos.2 := h.1

theorem ng_of {n : Node} (h : EG L n.pos.2) (hnp : ∀ p ps, n ≠ .pipeline p ps) : NG L n :=
  ⟨h, fun p ps b hn _ => absurd hn (hnp p ps)⟩

theorem lastEG_of_goodNE_nodes {l : List Node} (h : GoodNE L (.nodes l)) : LastEG L l := by
  obtain ⟨b, hb, hn⟩ := h
  exact ⟨b, hb, hn.1⟩

theorem lastEG_append {a b : List Node} (h : LastEG L b) : LastEG L (a ++ b) := by
  obtain ⟨x, hx, he⟩ := h
  refine ⟨x, ?_, he⟩
  rw [List.getLast?_append, hx]; rfl

theorem lastEG_single {n : Node} (h : EG L n.pos.2) : LastEG L [n] := ⟨n, rfl, h⟩

theorem lastEG_snoc {a : List Node} {n : Node} (h : EG L n.pos.2) : LastEG L (a ++ [n]) :=
  lastEG_append (lastEG_single h)

/-! ## from the frame to `Keeps` -/

theorem keeps_of_Q {α : Type} {m : M α} (h : KeepsQ (SG L) m) :
    Keeps (SGP L) m (fun _ => True) := by
  intro l e hp
  have h' := h l e
  rcases hr : m.run l e with ⟨r, e'⟩
  cases r with
  | error x => trivial
  | ok v =>
    obtain ⟨a, l'⟩ := v
    exact ⟨h' a l' e' hp hr, trivial⟩

theorem keeps_QS {α : Type} {m : M α} {Ψ : α → Prop} (h : KeepsQ (SG L) m)
    (hs : Sat m Ψ (fun _ => True)) : Keeps (SGP L) m Ψ :=
  Keeps.weaken (Keeps.and_sat (keeps_of_Q h) hs) (fun _ h => h.2)

/-! ## stateless facts -/

/-- `_expandword` returns a node at the token's span (copied from `C04/ProvActions.lean`) -/
theorem sat_expandword_pos (np : NestedParse) (tok : Token) :
    Sat (expandword np tok) (fun w => w.pos = (tok.lexpos, tok.endlexpos)) := by
  unfold expandword
  refine Sat.bind_any (fun l => ?_)
  simp only []
  repeat' first
    | exact Sat.pure rfl
    | exact Sat.foreign trivial
    | refine Sat.ite (fun _ => ?_) (fun _ => ?_)
    | refine Sat.bind_any (fun _ => ?_)
    | (show M.Sat _ _ _; split)

/-- `_expandword` returns a word node at the token's span -/
theorem sat_expandword_word (np : NestedParse) (tok : Token) :
    Sat (expandword np tok) (fun w => ∃ v ps, w = .word (tok.lexpos, tok.endlexpos) v ps) := by
  unfold expandword
  refine Sat.bind_any (fun l => ?_)
  simp only []
  repeat' first
    | exact Sat.pure ⟨_, _, rfl⟩
    | exact Sat.foreign trivial
    | refine Sat.ite (fun _ => ?_) (fun _ => ?_)
    | refine Sat.bind_any (fun _ => ?_)
    | (show M.Sat _ _ _; split)

theorem sat_tokAt (p : PCtx) (i : Nat) : Sat (p.tokAt i) (fun t => p.slice i = .tok t) := by
  unfold PCtx.tokAt
  split
  · rename_i t h; exact Sat.pure h
  · exact Sat.foreign trivial

theorem sat_nodeAt (p : PCtx) (i : Nat) (s : String) :
    Sat (p.nodeAt i s) (fun n => p.slice i = .node n) := by
  unfold PCtx.nodeAt
  split
  · rename_i t h; exact Sat.pure h
  · exact Sat.foreign trivial

theorem sat_nodesAt (p : PCtx) (i : Nat) (s : String) :
    Sat (p.nodesAt i s) (fun n => p.slice i = .nodes n) := by
  unfold PCtx.nodesAt
  split
  · rename_i t h; exact Sat.pure h
  · exact Sat.foreign trivial

/-! ## `nodePos`, `_partsspan` -/

theorem keeps_nodePos {n : Node} (hn : EG L n.pos.2) :
    Keeps (SGP L) (nodePos n) (fun p => EG L p.2) := by
  unfold nodePos
  split
  · rename_i p a b c d e' id
    refine Keeps.bind Keeps.get (fun l0 h0 => ?_)
    obtain ⟨e0, h0⟩ := h0
    split
    · rename_i c hc
      exact Keeps.pure (h0 c (List.mem_of_getElem? hc))
    · exact Keeps.pure hn
  · exact Keeps.pure hn

theorem keeps_partsspan {parts : List Node} (h : LastEG L parts) :
    Keeps (SGP L) (partsspan parts) (fun sp => EG L sp.2) := by
  obtain ⟨b, hb, he⟩ := h
  unfold partsspan
  split
  · rename_i a b' h1 h2
    rw [hb] at h2
    cases h2
    refine Keeps.bind (keeps_of_Q (keepsQ_nodePos a)) (fun x _ => ?_)
    exact Keeps.bind (keeps_nodePos he) (fun y hy => Keeps.pure hy)
  · exact Keeps.foreign trivial


/-! ## `_makeparts` and what is built on it -/

theorem getLast?_cons_of_some {α : Type} {a x : α} {rest : List α} (h : rest.getLast? = some x) :
    (a :: rest).getLast? = some x := by
  cases rest with
  | nil => cases h
  | cons y ys => rw [List.getLast?_cons_cons]; exact h


section
variable {np : NestedParse} (hnp : ∀ s b, KeepsQ (SG L) (np s b))
include hnp

theorem keeps_expandword (t : Token) :
    Keeps (SGP L) (expandword np t) (fun w => w.pos = (t.lexpos, t.endlexpos)) :=
  keeps_QS (keepsQ_expandword hnp t) (sat_expandword_pos np t)

/-- the last part `_makeparts` returns comes from the last argument -/
theorem keeps_makeparts {args : List SVal}
    (hl : ∀ a, args.getLast? = some a → GoodNE L a) (hne : args ≠ []) :
    Keeps (SGP L) (makeparts ⟨np, args⟩) (LastEG L) := by
  unfold makeparts
  simp only [bind_pure]
  refine Keeps.forIn_list
    (I := fun rest acc => (∀ a, rest.getLast? = some a → GoodNE L a) ∧ (rest = [] → LastEG L acc))
    ?_ ?_ args [] ⟨hl, fun h => absurd h hne⟩
  · rintro a rest acc ⟨h1, h2⟩
    have hnext : ∀ x, rest.getLast? = some x → GoodNE L x :=
      fun x hx => h1 x (getLast?_cons_of_some hx)
    have ha : rest = [] → GoodNE L a := by
      intro hr; subst hr; exact h1 a rfl
    split
    · rename_i n
      exact Keeps.pure ⟨hnext, fun hr => lastEG_snoc (ha hr).1⟩
    · rename_i l
      exact Keeps.pure ⟨hnext, fun hr => lastEG_append (lastEG_of_goodNE_nodes (ha hr))⟩
    · rename_i t
      split
      · refine Keeps.bind (keeps_expandword hnp t) (fun w hw => ?_)
        refine Keeps.pure ⟨hnext, fun hr => lastEG_snoc ?_⟩
        rw [hw]; exact ha hr
      · exact Keeps.pure ⟨hnext, fun hr => lastEG_snoc (ha hr)⟩
    · exact Keeps.pure ⟨hnext, fun hr => (ha hr).elim⟩
  · rintro b ⟨_, h2⟩; exact h2 rfl

theorem keeps_handleNotImplemented {args : List SVal} (ty : String)
    (hl : ∀ a, args.getLast? = some a → GoodNE L a) (hne : args ≠ []) :
    Keeps (SGP L) (handleNotImplemented ⟨np, args⟩ ty) (GoodNE L) := by
  unfold handleNotImplemented
  refine Keeps.bind (keeps_of_Q keepsQ_optProceed) (fun b _ => ?_)
  split
  · refine Keeps.bind (keeps_makeparts hnp hl hne) (fun parts hp => ?_)
    refine Keeps.bind (keeps_partsspan hp) (fun sp hsp => ?_)
    exact Keeps.pure (ng_of hsp (by intro p ps h; cases h))
  · exact Keeps.raise trivial

end

theorem keeps_mkCompound1 {inner : Span → List Node → Node} {parts : List Node}
    (h : LastEG L parts) : Keeps (SGP L) (mkCompound1 inner parts) (GoodNE L) := by
  unfold mkCompound1
  refine Keeps.bind (keeps_partsspan h) (fun sp hsp => ?_)
  exact Keeps.pure (ng_of hsp (by intro p ps h; cases h))

theorem keeps_addRedirects {n : Node} {reds : List Node} (h : LastEG L reds) :
    Keeps (SGP L) (addRedirects n reds) (NG L) := by
  unfold addRedirects
  refine Keeps.bind (keeps_of_Q (keepsQ_handleAssert _)) (fun _ _ => ?_)
  split
  · rename_i pos l r
    simp only []
    obtain ⟨x, hx, hex⟩ := lastEG_append (a := r) h
    split
    · rename_i hnone; rw [hx] at hnone; cases hnone
    · rename_i last hlast
      rw [hx] at hlast; cases hlast
      refine Keeps.bind (keeps_nodePos hex) (fun sp hsp => ?_)
      refine Keeps.bind (keeps_of_Q (keepsQ_handleAssert _)) (fun _ _ => ?_)
      exact Keeps.pure (ng_of hsp (by intro p ps h; cases h))
  · exact Keeps.foreign trivial

/-! ## stateless: `x ++ [sep] ++ y` -/

theorem sat_joinLists (p : PCtx) (mk : Span → Str → Node) (site : String)
    (hlast : GoodNE L (p.slice (p.len - 1))) : Sat (joinLists p mk site) (GoodNE L) := by
  unfold joinLists
  split
  · rename_i h
    have h2 : p.len = 2 := by simpa using h
    refine Sat.bind (sat_nodeAt p 1 site) (fun n hn => ?_)
    rw [h2] at hlast
    rw [show (2 - 1 : Nat) = 1 from rfl, hn] at hlast
    exact Sat.pure ⟨n, rfl, hlast⟩
  · refine Sat.bind_any (fun l => ?_)
    refine Sat.bind (sat_nodesAt p (p.len - 1) site) (fun r hr => ?_)
    refine Sat.bind_any (fun s => ?_)
    rw [hr] at hlast
    obtain ⟨b, hb, hn⟩ := hlast
    refine Sat.pure ⟨b, ?_, hn⟩
    rw [List.getLast?_append, hb]; rfl


/-! ## the action functions -/

theorem fix_pos : ∀ l : List Node, (actionCore.fix l).map Node.pos = l.map Node.pos
  | [] => by simp [actionCore.fix]
  | n :: ns => by
    cases n with
    | operator pos op =>
      simp only [actionCore.fix]
      split
      · simp [Node.pos]
      · simp [Node.pos, fix_pos ns]
    | _ => simp [actionCore.fix, fix_pos ns]

theorem lastEG_iff_map (l : List Node) :
    LastEG L l ↔ ∃ q, (l.map Node.pos).getLast? = some q ∧ EG L q.2 := by
  unfold LastEG
  rw [List.getLast?_map]
  constructor
  · rintro ⟨b, hb, he⟩; exact ⟨b.pos, by rw [hb]; rfl, he⟩
  · rintro ⟨q, hq, he⟩
    cases hl : l.getLast? with
    | none => rw [hl] at hq; cases hq
    | some b =>
      rw [hl] at hq
      simp only [Option.map_some, Option.some.injEq] at hq
      exact ⟨b, rfl, by rw [hq]; exact he⟩

theorem lastEG_fix {l : List Node} (h : LastEG L l) : LastEG L (actionCore.fix l) := by
  rw [lastEG_iff_map] at h ⊢
  rw [fix_pos]; exact h

theorem sat_reservedAt (p : PCtx) (i : Nat) : Sat (reservedAt p i) (fun n => n.pos = p.lexspan i) := by
  unfold reservedAt
  exact Sat.bind_any (fun _ => Sat.pure rfl)

theorem sat_operatorAt (p : PCtx) (i : Nat) : Sat (operatorAt p i) (fun n => n.pos = p.lexspan i) := by
  unfold operatorAt
  exact Sat.bind_any (fun _ => Sat.pure rfl)

theorem lexspan_of_tok {p : PCtx} {i : Nat} {t : Token} (h : p.slice i = .tok t) :
    p.lexspan i = (t.lexpos, t.endlexpos) := by
  unfold PCtx.lexspan; rw [h]; rfl

/-- the end of `p.lexspan i` for a slot that ends well: the token's end, or 0 -/
theorem eg_lexspan {p : PCtx} {i : Nat} (h : GoodNE L (p.slice i)) : EG L (p.lexspan i).2 := by
  unfold PCtx.lexspan
  cases hs : p.slice i with
  | tok t => rw [hs] at h; exact h
  | none => exact EG_zero L
  | node n => exact EG_zero L
  | nodes l => exact EG_zero L

section
variable {np : NestedParse} (hnp : ∀ s b, KeepsQ (SG L) (np s b))

/-! ### stateless ones -/

theorem sat_redirection (args : List SVal)
    (h2 : ((⟨np, args⟩ : PCtx).len == 3) = true → EG L ((⟨np, args⟩ : PCtx).lexspan 2).2)
    (h3 : ¬ ((⟨np, args⟩ : PCtx).len == 3) = true → EG L ((⟨np, args⟩ : PCtx).lexspan 3).2) :
    Sat (actionCore np "p_redirection" args) (fun r => GoodNE L r.1) := by
  unfold actionCore
  simp only []
  refine Sat.bind_any (fun otok => ?_)
  split
  · refine Sat.bind_any (fun w => ?_)
    refine Sat.bind_any (fun x => ?_)
    split
    · rename_i h
      exact Sat.bind_any (fun _ => Sat.pure (ng_of (h2 h) (by intro p ps h; cases h)))
    · rename_i h
      exact Sat.bind_any (fun _ => Sat.bind_any (fun _ =>
        Sat.pure (ng_of (h3 h) (by intro p ps h; cases h))))
  · refine Sat.bind_any (fun x => ?_)
    split
    · rename_i h
      exact Sat.bind_any (fun _ => Sat.pure (ng_of (h2 h) (by intro p ps h; cases h)))
    · rename_i h
      exact Sat.bind_any (fun _ => Sat.bind_any (fun _ =>
        Sat.pure (ng_of (h3 h) (by intro p ps h; cases h))))

theorem sat_simple_command_element (args : List SVal)
    (h : GoodNE L ((⟨np, args⟩ : PCtx).slice 1)) :
    Sat (actionCore np "p_simple_command_element" args) (fun r => GoodNE L r.1) := by
  unfold actionCore
  simp only []
  split
  · rename_i n hn
    rw [hn] at h
    exact Sat.pure ⟨n, rfl, h⟩
  · refine Sat.bind (sat_tokAt _ 1) (fun t ht => ?_)
    rw [ht] at h
    refine Sat.bind (sat_expandword_word np t) (fun w hw => ?_)
    obtain ⟨v, ps, rfl⟩ := hw
    split
    · exact Sat.pure ⟨_, rfl, ng_of h (by intro p ps h; cases h)⟩
    · exact Sat.pure ⟨_, rfl, ng_of h (by intro p ps h; cases h)⟩


theorem sat_redirection_list (args : List SVal)
    (hlen : (⟨np, args⟩ : PCtx).len = 2 ∨ (⟨np, args⟩ : PCtx).len = 3)
    (hlast : GoodNE L ((⟨np, args⟩ : PCtx).slice ((⟨np, args⟩ : PCtx).len - 1))) :
    Sat (actionCore np "p_redirection_list" args) (fun r => GoodNE L r.1) := by
  unfold actionCore
  simp only []
  split
  · rename_i h
    have h2 : (⟨np, args⟩ : PCtx).len = 2 := by simpa using h
    rw [h2] at hlast
    refine Sat.bind (sat_nodeAt _ 1 _) (fun n hn => ?_)
    rw [show (2 - 1 : Nat) = 1 from rfl, hn] at hlast
    exact Sat.pure ⟨n, rfl, hlast⟩
  · rename_i h
    have h3 : (⟨np, args⟩ : PCtx).len = 3 := by
      rcases hlen with h2 | h3
      · rw [h2] at h; exact absurd rfl h
      · exact h3
    rw [h3] at hlast
    refine Sat.bind_any (fun l => ?_)
    refine Sat.bind (sat_nodeAt _ 2 _) (fun n hn => ?_)
    rw [show (3 - 1 : Nat) = 2 from rfl, hn] at hlast
    exact Sat.pure ⟨n, by simp, hlast⟩

theorem sat_simple_command (args : List SVal)
    (hlen : (⟨np, args⟩ : PCtx).len = 2 ∨ (⟨np, args⟩ : PCtx).len = 3)
    (hlast : GoodNE L ((⟨np, args⟩ : PCtx).slice ((⟨np, args⟩ : PCtx).len - 1))) :
    Sat (actionCore np "p_simple_command" args) (fun r => GoodNE L r.1) := by
  unfold actionCore
  simp only []
  split
  · rename_i h
    have h3 : (⟨np, args⟩ : PCtx).len = 3 := by simpa using h
    rw [h3] at hlast
    refine Sat.bind_any (fun l => ?_)
    refine Sat.bind (sat_nodesAt _ 2 _) (fun r hr => ?_)
    rw [show (3 - 1 : Nat) = 2 from rfl, hr] at hlast
    obtain ⟨b, hb, hn⟩ := hlast
    refine Sat.pure ⟨b, ?_, hn⟩
    rw [List.getLast?_append, hb]; rfl
  · rename_i h
    have h2 : (⟨np, args⟩ : PCtx).len = 2 := by
      rcases hlen with h2 | h3
      · exact h2
      · rw [h3] at h; exact absurd rfl h
    rw [h2] at hlast
    exact Sat.pure hlast

theorem sat_joined (f : String) (args : List SVal) (mk : Span → Str → Node) (site : String)
    (hlast : GoodNE L ((⟨np, args⟩ : PCtx).slice ((⟨np, args⟩ : PCtx).len - 1))) :
    Sat (do let r ← joinLists ⟨np, args⟩ mk site; pure (r, false) : M (SVal × Bool))
      (fun r => GoodNE L r.1) :=
  Sat.bind (sat_joinLists _ mk site hlast) (fun r hr => Sat.pure hr)

theorem sat_list_terminator (args : List SVal)
    (h : ∀ t, (⟨np, args⟩ : PCtx).slice 1 = .tok t → t.value = .str ['\n'] ∨ EG L t.endlexpos) :
    Sat (actionCore np "p_list_terminator" args) (fun r => ∀ n, r.1 = .node n → NG L n) := by
  unfold actionCore
  simp only []
  split
  · rename_i t ht
    split
    · rename_i hv
      refine Sat.pure ?_
      intro n hn
      cases hn
      refine ng_of ?_ (by intro p ps h; cases h)
      rw [lexspan_of_tok ht]
      rcases h t ht with h1 | h1
      · rw [h1] at hv; exact absurd hv (by decide)
      · exact h1
    · exact Sat.pure (fun n hn => by cases hn)
  · exact Sat.pure (fun n hn => by cases hn)

theorem sat_inputunit (args : List SVal)
    (h : ∀ n, (⟨np, args⟩ : PCtx).slice 1 = .node n → NG L n) :
    Sat (actionCore np "p_inputunit" args) (fun r => ∀ n, r.1 = .node n → NG L n) := by
  unfold actionCore
  simp only []
  refine Sat.bind_any (fun l => ?_)
  have key : Sat (match (⟨np, args⟩ : PCtx).slice 1 with
      | SVal.node n => pure (SVal.node n, true)
      | x => pure (SVal.none, false) : M (SVal × Bool)) (fun r => ∀ n, r.1 = .node n → NG L n) := by
    split
    · rename_i n hn
      exact Sat.pure (fun m hm => by cases hm; exact h n hn)
    · exact Sat.pure (fun m hm => by cases hm)
  split
  · exact Sat.bind_any (fun _ => key)
  · exact key

/-! ### the ones that read positions -/

include hnp

theorem keeps_command (args : List SVal)
    (hlen : (⟨np, args⟩ : PCtx).len = 2 ∨ (⟨np, args⟩ : PCtx).len = 3)
    (h1 : GoodNE L ((⟨np, args⟩ : PCtx).slice 1))
    (hlast : GoodNE L ((⟨np, args⟩ : PCtx).slice ((⟨np, args⟩ : PCtx).len - 1))) :
    Keeps (SGP L) (actionCore np "p_command" args) (fun r => GoodNE L r.1) := by
  unfold actionCore
  simp only []
  split
  · rename_i n hn
    split
    · rename_i h
      have h3 : (⟨np, args⟩ : PCtx).len = 3 := by simpa using h
      rw [h3] at hlast
      refine Keeps.bind (keeps_QS (keepsQ_nodesAt _ _ _) (sat_nodesAt _ 2 _)) (fun r hr => ?_)
      rw [show (3 - 1 : Nat) = 2 from rfl, hr] at hlast
      refine Keeps.bind (keeps_addRedirects (lastEG_of_goodNE_nodes hlast)) (fun m hm => ?_)
      exact Keeps.pure hm
    · rename_i h
      have h2 : (⟨np, args⟩ : PCtx).len = 2 := by
        rcases hlen with h2 | h3
        · exact h2
        · rw [h3] at h; exact absurd rfl h
      rw [h2, show (2 - 1 : Nat) = 1 from rfl, hn] at hlast
      exact Keeps.pure hlast
  · rename_i hnn
    refine Keeps.bind (keeps_QS (keepsQ_nodesAt _ _ _) (sat_nodesAt _ 1 _)) (fun parts hp => ?_)
    have hl : LastEG L parts := by
      rw [hp] at h1; exact lastEG_of_goodNE_nodes h1
    refine Keeps.bind (keeps_partsspan hl) (fun sp hsp => ?_)
    exact Keeps.pure (ng_of hsp (by intro p ps h; cases h))


theorem keeps_function_body (args : List SVal)
    (hlen : (⟨np, args⟩ : PCtx).len = 2 ∨ (⟨np, args⟩ : PCtx).len = 3)
    (hlast : GoodNE L ((⟨np, args⟩ : PCtx).slice ((⟨np, args⟩ : PCtx).len - 1))) :
    Keeps (SGP L) (actionCore np "p_function_body" args) (fun r => GoodNE L r.1) := by
  unfold actionCore
  simp only []
  refine Keeps.bind (keeps_QS (keepsQ_nodeAt _ _ _) (sat_nodeAt _ 1 _)) (fun n hn => ?_)
  refine Keeps.bind (keeps_of_Q (keepsQ_handleAssert _)) (fun _ _ => ?_)
  split
  · rename_i h
    have h3 : (⟨np, args⟩ : PCtx).len = 3 := by simpa using h
    rw [h3] at hlast
    refine Keeps.bind (keeps_QS (keepsQ_nodesAt _ _ _) (sat_nodesAt _ 2 _)) (fun r hr => ?_)
    rw [show (3 - 1 : Nat) = 2 from rfl, hr] at hlast
    refine Keeps.bind (keeps_addRedirects (lastEG_of_goodNE_nodes hlast)) (fun m hm => ?_)
    exact Keeps.pure hm
  · rename_i h
    have h2 : (⟨np, args⟩ : PCtx).len = 2 := by
      rcases hlen with h2 | h3
      · exact h2
      · rw [h3] at h; exact absurd rfl h
    rw [h2, show (2 - 1 : Nat) = 1 from rfl, hn] at hlast
    exact Keeps.pure hlast

theorem keeps_shell_command (args : List SVal)
    (hl : ∀ a, args.getLast? = some a → GoodNE L a) (hne : args ≠ [])
    (hlast : GoodNE L ((⟨np, args⟩ : PCtx).slice ((⟨np, args⟩ : PCtx).len - 1))) :
    Keeps (SGP L) (actionCore np "p_shell_command" args) (fun r => GoodNE L r.1) := by
  unfold actionCore
  simp only []
  split
  · rename_i h
    have h2 : (⟨np, args⟩ : PCtx).len = 2 := by simpa using h
    refine Keeps.bind (keeps_QS (keepsQ_nodeAt _ _ _) (sat_nodeAt _ 1 _)) (fun n hn => ?_)
    refine Keeps.bind (keeps_of_Q (keepsQ_handleAssert _)) (fun _ _ => ?_)
    rw [h2, show (2 - 1 : Nat) = 1 from rfl, hn] at hlast
    exact Keeps.pure hlast
  · refine Keeps.bind (keeps_makeparts hnp hl hne) (fun parts hp => ?_)
    split
    · refine Keeps.bind (keeps_partsspan hp) (fun sp hsp => ?_)
      split
      · exact Keeps.pure (ng_of hsp (by intro p ps h; cases h))
      · split
        · exact Keeps.pure (ng_of hsp (by intro p ps h; cases h))
        · exact Keeps.foreign trivial
    · exact Keeps.foreign trivial

theorem keeps_for_command (args : List SVal)
    (hl : ∀ a, args.getLast? = some a → GoodNE L a) (hne : args ≠ []) :
    Keeps (SGP L) (actionCore np "p_for_command" args) (fun r => GoodNE L r.1) := by
  unfold actionCore
  simp only []
  refine Keeps.bind (keeps_makeparts hnp hl hne) (fun parts hp => ?_)
  exact Keeps.bind (keeps_mkCompound1 (lastEG_fix hp)) (fun v hv => Keeps.pure hv)

theorem keeps_case_command (args : List SVal)
    (hl : ∀ a, args.getLast? = some a → GoodNE L a) (hne : args ≠ []) :
    Keeps (SGP L) (actionCore np "p_case_command" args) (fun r => GoodNE L r.1) := by
  unfold actionCore
  simp only []
  refine Keeps.bind (keeps_makeparts hnp hl hne) (fun parts hp => ?_)
  exact Keeps.bind (keeps_mkCompound1 hp) (fun v hv => Keeps.pure hv)

theorem keeps_if_command (args : List SVal)
    (hl : ∀ a, args.getLast? = some a → GoodNE L a) (hne : args ≠ []) :
    Keeps (SGP L) (actionCore np "p_if_command" args) (fun r => GoodNE L r.1) := by
  unfold actionCore
  simp only []
  refine Keeps.bind (keeps_makeparts hnp hl hne) (fun parts hp => ?_)
  exact Keeps.bind (keeps_mkCompound1 hp) (fun v hv => Keeps.pure hv)

theorem keeps_ni (ty : String) (args : List SVal)
    (hl : ∀ a, args.getLast? = some a → GoodNE L a) (hne : args ≠ []) :
    Keeps (SGP L) (do let r ← handleNotImplemented ⟨np, args⟩ ty; pure (r, false) : M (SVal × Bool))
      (fun r => GoodNE L r.1) :=
  Keeps.bind (keeps_handleNotImplemented hnp ty hl hne) (fun v hv => Keeps.pure hv)

theorem keeps_function_def (args : List SVal)
    (hl : ∀ a, args.getLast? = some a → GoodNE L a) (hne : args ≠ []) :
    Keeps (SGP L) (actionCore np "p_function_def" args) (fun r => GoodNE L r.1) := by
  unfold actionCore
  simp only []
  refine Keeps.bind (keeps_makeparts hnp hl hne) (fun parts hp => ?_)
  split
  · exact Keeps.bind (Φ := fun _ => False) (Keeps.foreign trivial) (fun _ h => h.elim)
  · refine Keeps.bind (keeps_partsspan hp) (fun sp hsp => ?_)
    exact Keeps.pure (ng_of hsp (by intro p ps h; cases h))

omit hnp in
theorem keeps_group (args : List SVal) (h3 : EG L ((⟨np, args⟩ : PCtx).lexspan 3).2) :
    Keeps (SGP L) (do
      let l ← reservedAt ⟨np, args⟩ 1
      let r ← reservedAt ⟨np, args⟩ 3
      let mid ← (⟨np, args⟩ : PCtx).nodeAt 2 "_partsspan"
      let sp ← partsspan [l, mid, r]
      pure (SVal.node (Node.compound sp [l, mid, r] []), false) : M (SVal × Bool))
      (fun r => GoodNE L r.1) := by
  refine Keeps.bind (keeps_of_Q (keepsQ_reservedAt _ _)) (fun l _ => ?_)
  refine Keeps.bind (keeps_QS (keepsQ_reservedAt _ _) (sat_reservedAt _ 3)) (fun r hr => ?_)
  refine Keeps.bind (keeps_of_Q (keepsQ_nodeAt _ _ _)) (fun mid _ => ?_)
  have hl : LastEG L [l, mid, r] := ⟨r, rfl, by rw [hr]; exact h3⟩
  refine Keeps.bind (keeps_partsspan hl) (fun sp hsp => ?_)
  exact Keeps.pure (ng_of hsp (by intro p ps h; cases h))


omit hnp in
theorem keeps_pipeline_command (args : List SVal)
    (hlen : (⟨np, args⟩ : PCtx).len = 2 ∨ (⟨np, args⟩ : PCtx).len = 3)
    (h1 : GoodNE L ((⟨np, args⟩ : PCtx).slice 1))
    (h2 : ∀ n, (⟨np, args⟩ : PCtx).slice 2 = .node n → NG L n) :
    Keeps (SGP L) (actionCore np "p_pipeline_command" args) (fun r => GoodNE L r.1) := by
  unfold actionCore
  simp only []
  split
  · refine Keeps.bind (keeps_QS (keepsQ_nodesAt _ _ _) (sat_nodesAt _ 1 _)) (fun l hl => ?_)
    rw [hl] at h1
    obtain ⟨b, hb, hnb⟩ := h1
    split
    · rename_i n
      simp only [List.getLast?_singleton, Option.some.injEq] at hb
      subst hb
      exact Keeps.pure hnb
    · split
      · rename_i a b' ha hb'
        rw [hb] at hb'; cases hb'
        refine Keeps.bind (keeps_of_Q (keepsQ_nodePos a)) (fun x _ => ?_)
        refine Keeps.bind (keeps_nodePos hnb.1) (fun y hy => ?_)
        refine Keeps.pure ⟨hy, ?_⟩
        intro p ps b2 hp hb2
        cases hp
        rw [hb] at hb2; cases hb2
        exact hnb.1
      · exact Keeps.foreign trivial
  · have hbang : EG L ((⟨np, args⟩ : PCtx).lexspan 1).2 := eg_lexspan h1
    split
    · refine Keeps.pure ⟨hbang, ?_⟩
      intro p ps b hp hb
      cases hp
      simp only [List.getLast?_singleton, Option.some.injEq] at hb
      subst hb; exact hbang
    · rename_i pos parts hs
      have hn := h2 _ hs
      split
      · rename_i b1 hb1
        have hb1e : EG L b1.pos.2 := by
          cases parts with
          | nil =>
            simp only [List.getLast?_singleton, Option.some.injEq] at hb1
            subst hb1; exact hbang
          | cons q qs =>
            rw [List.getLast?_cons_cons] at hb1
            exact hn.2 pos (q :: qs) b1 rfl hb1
        refine Keeps.bind (keeps_nodePos hb1e) (fun y hy => ?_)
        refine Keeps.pure ⟨hy, ?_⟩
        intro p ps b2 hp hb2
        cases hp
        rw [hb1] at hb2; cases hb2
        exact hb1e
      · exact Keeps.foreign trivial
    · rename_i n hnp' hs
      have hn := h2 _ hs
      refine Keeps.bind (keeps_nodePos hn.1) (fun y hy => ?_)
      refine Keeps.pure ⟨hy, ?_⟩
      intro p ps b2 hp hb2
      cases hp
      simp at hb2
      subst hb2; exact hn.1
    · exact Keeps.foreign trivial

omit hnp in
theorem keeps_heredoc (args : List SVal)
    (h2 : ((⟨np, args⟩ : PCtx).len == 3) = true → EG L ((⟨np, args⟩ : PCtx).lexspan 2).2)
    (h3 : ¬ ((⟨np, args⟩ : PCtx).len == 3) = true → EG L ((⟨np, args⟩ : PCtx).lexspan 3).2) :
    Keeps (SGP L) (actionCore np "p_redirection_heredoc" args) (fun r => GoodNE L r.1) := by
  unfold actionCore
  simp only [pure_bind]
  refine Keeps.bind (keeps_of_Q (keepsQ_tokAt _ _)) (fun wtok _ => ?_)
  split
  · rename_i h
    refine Keeps.bind (keeps_of_Q (keepsQ_strAt _ _)) (fun s1 _ => ?_)
    intro l e hp
    simp only [M.run_bind, run_get, run_set, M.run_pure]
    refine ⟨?_, ng_of (h2 h) (by intro p ps h; cases h)⟩
    intro c hc
    rcases List.mem_append.mp hc with hc | hc
    · exact hp c hc
    · simp only [List.mem_singleton] at hc; subst hc; exact h2 h
  · rename_i h
    refine Keeps.bind (keeps_of_Q (keepsQ_tokAt _ _)) (fun t1 _ => ?_)
    refine Keeps.bind (keeps_of_Q (keepsQ_strAt _ _)) (fun s1 _ => ?_)
    intro l e hp
    simp only [M.run_bind, run_get, run_set, M.run_pure]
    refine ⟨?_, ng_of (h3 h) (by intro p ps h; cases h)⟩
    intro c hc
    rcases List.mem_append.mp hc with hc | hc
    · exact hp c hc
    · simp only [List.mem_singleton] at hc; subst hc; exact h3 h

omit hnp in
/-- `p_simple_list`, given what `gatherheredocuments` does to the store from the states `Pre` -/
theorem sats_simple_list {Pre : Local → Env → Prop}
    (hg : SatS gatherheredocuments Pre (fun _ l e => SGP L l e)) (args : List SVal)
    (h1 : GoodNE L ((⟨np, args⟩ : PCtx).slice 1))
    (h2 : ((⟨np, args⟩ : PCtx).len == 3) = true → EG L ((⟨np, args⟩ : PCtx).lexspan 2).2) :
    SatS (actionCore np "p_simple_list" args) Pre (fun r l e => SGP L l e ∧ GoodNE L r.1) := by
  unfold actionCore
  simp only [pure_bind]
  refine SatS.bind hg (fun _ => ?_)
  show Keeps (SGP L) _ _
  refine Keeps.bind (keeps_QS (keepsQ_nodesAt _ _ _) (sat_nodesAt _ 1 _)) (fun l1 hl1 => ?_)
  rw [hl1] at h1
  have hl : LastEG L l1 := lastEG_of_goodNE_nodes h1
  split
  · split
    · rename_i _ h
      refine Keeps.bind (keeps_QS (keepsQ_operatorAt _ _) (sat_operatorAt _ 2)) (fun op hop => ?_)
      have hl' : LastEG L (l1 ++ [op]) := lastEG_snoc (by rw [hop]; exact h2 h)
      refine Keeps.bind (keeps_partsspan hl') (fun sp hsp => ?_)
      refine Keeps.bind Keeps.get (fun l _ => ?_)
      exact Keeps.pure (ng_of hsp (by intro p ps h; cases h))
    · refine Keeps.bind (keeps_partsspan hl) (fun sp hsp => ?_)
      refine Keeps.bind Keeps.get (fun l _ => ?_)
      exact Keeps.pure (ng_of hsp (by intro p ps h; cases h))
  · split
    · rename_i n
      obtain ⟨b, hb, hnb⟩ := h1
      simp only [List.getLast?_singleton, Option.some.injEq] at hb
      subst hb
      refine Keeps.bind Keeps.get (fun l _ => ?_)
      exact Keeps.pure hnb
    · exact Keeps.bind (Φ := fun _ => False) (Keeps.foreign trivial) (fun _ h => h.elim)

end

end Bashlex.C03.RE
