/-
  RootEnds, fact (W), part 2 (state-agnostic): `_parse_comsub`, and the two scanners.
-/
import Bashlex.Props.C03.RE.WScan

namespace Bashlex.C03.RE
open Bashlex Bashlex.M
set_option linter.unusedSimpArgs false
set_option linter.unusedVariables false

set_option maxHeartbeats 4000000 in
theorem sat_csB (ck : Bool) (st : CSState) (c : Char) : Sat (csB ck st c) (CSK st.count) := by
  unfold csB
  simp only []
  s_walk
  all_goals (first | rfl | (simp_all [CSK]; done))

set_option maxHeartbeats 4000000 in
theorem sat_csC (P : CSParams) (ck : Bool) (st : CSState) (c : Char) :
    Sat (csC P ck st c) (CSK st.count) := by
  unfold csC
  simp only []
  s_walk
  all_goals (first | rfl | (simp_all [CSK]; done))

theorem isDolOpen_ne {c : Char} (h : isDolOpen c = true) : c ≠ '\n' := by
  unfold isDolOpen at h
  simp only [Bool.or_eq_true, beq_iff_eq] at h
  rcases h with (rfl | rfl) | rfl <;> decide

set_option maxHeartbeats 1000000 in
theorem sat_csD (P : CSParams) (st : CSState) (c : Char) (hc : P.close ≠ '\n')
    (h0 : st.count ≠ 0) : Sat (csD P st c) CSQ := by
  unfold csD
  simp only []
  s_walk
  all_goals (first
    | (simp_all [CSQ]; done)
    | (simp_all [CSQ]; omega)
    | (simp_all [CSQ]; exact noNL_snoc _ (by first | assumption | decide)))

theorem sat_csPre (P : CSParams) (ck : Bool) (st : CSState) (hc : P.close ≠ '\n')
    (h0 : st.count ≠ 0) : Sat (csPre P ck st) CSQ := by
  unfold csPre
  refine Sat.bind (sat_csA P st) (fun r1 h1 => ?_)
  cases r1 with
  | cont s => exact Sat.pure (by show s.count ≠ 0; rw [show s.count = st.count from h1]; exact h0)
  | done r => exact h1.elim
  | next s1 c1 =>
    have e1 : s1.count = st.count := h1
    refine Sat.bind (sat_csB ck s1 c1) (fun r2 h2 => ?_)
    cases r2 with
    | cont s => exact Sat.pure (by
        show s.count ≠ 0; rw [show s.count = s1.count from h2, e1]; exact h0)
    | done r => exact h2.elim
    | next s2 c2 =>
      have e2 : s2.count = s1.count := h2
      refine Sat.bind (sat_csC P ck s2 c2) (fun r3 h3 => ?_)
      cases r3 with
      | cont s => exact Sat.pure (by
          show s.count ≠ 0; rw [show s.count = s2.count from h3, e2, e1]; exact h0)
      | done r => exact h3.elim
      | next s3 c3 =>
        have e3 : s3.count = s2.count := h3
        exact sat_csD P s3 c3 hc (by rw [e3, e2, e1]; exact h0)

set_option maxHeartbeats 1000000 in
theorem sat_csPost {pmp : MPParams → M Str} {pcs : CSParams → M Str}
    (hpmp : ∀ P', P'.close ≠ '\n' → Sat (pmp P') NoNL)
    (hpcs : ∀ P', P'.close ≠ '\n' → Sat (pcs P') NoNL)
    (P : CSParams) (st : CSState) (c : Char) (h0 : st.count ≠ 0)
    (hl : st.ret.getLast? = some c) : Sat (csPost pmp pcs P st c) CSI := by
  unfold csPost
  simp only []
  refine Sat.bind_any (fun q => ?_)
  refine Sat.ite (fun _ => ?_) (fun _ => ?_)
  · -- a quote: the counter stays
    refine Sat.bind_any (fun _ => Sat.bind_any (fun _ => Sat.bind_any (fun _ => Sat.pure ?_)))
    intro hz
    exact absurd hz h0
  · refine Sat.ite (fun hd => ?_) (fun _ => ?_)
    · have hcne : c ≠ '\n' := by
        simp only [Bool.and_eq_true] at hd
        exact isDolOpen_ne hd.2
      have hret : NoNL st.ret := by
        unfold NoNL; rw [hl]; simpa using hcne
      repeat' first
        | refine Sat.bind (P := NoNL) (hpcs _ ?_) (fun r hr => ?_)
        | refine Sat.bind (P := NoNL) (hpmp _ ?_) (fun r hr => ?_)
        | refine Sat.ite (fun _ => ?_) (fun _ => ?_)
        | exact Sat.pure (fun _ => noNL_append hret (by assumption))
        | (show Sat _ _ _; split)
        | decide
    · exact Sat.pure (fun hz => absurd hz h0)

/-! ## the two scanners -/

/-- **`_parse_matched_pair`** returns a string that does not end in a newline -/
theorem sat_pmp (fuel : Nat) (P : MPParams) (hc : P.close ≠ '\n') :
    Sat (parseMatchedPair fuel P) NoNL := by
  cases fuel with
  | zero => unfold parseMatchedPair; exact Sat.raise trivial
  | succ fuel =>
    unfold parseMatchedPair
    simp only []
    refine Sat.bind_any (fun x => ?_)
    refine Sat.bind_any (fun lf => ?_)
    refine Sat.loop (I := fun st => st.count ≠ 0) (R := NoNL) trivial (fun st h0 => ?_) lf _
      (by show (1 : Nat) ≠ 0; decide)
    refine Sat.ite (fun hz => ?_) (fun _ => ?_)
    · exact absurd (by simpa using hz) h0
    refine Sat.bind (sat_mpPre P _ st hc h0) (fun r hr => ?_)
    cases r with
    | cont s => exact Sat.pure hr
    | done r => exact Sat.pure hr
    | next s c =>
      refine Sat.bind (sat_mpPost P _ s c) (fun s' hs' => Sat.pure ?_)
      show s'.count ≠ 0
      rw [hs']; exact hr

/-- **`_parse_comsub`** returns a string that does not end in a newline -/
theorem sat_pcs : ∀ (fuel : Nat) (P : CSParams), P.close ≠ '\n' → Sat (parseComsub fuel P) NoNL
  | 0, P, _ => by unfold parseComsub; exact Sat.raise trivial
  | fuel + 1, P, hc => by
    unfold parseComsub
    simp only []
    refine Sat.bind_any (fun peek => Sat.bind_any (fun _ => ?_))
    refine Sat.ite (fun _ => sat_pmp fuel _ hc) (fun _ => ?_)
    refine Sat.bind_any (fun lf => ?_)
    refine Sat.loop (I := CSI) (R := NoNL) trivial (fun st hI => ?_) lf _ (fun h => by cases h)
    refine Sat.ite (fun hz => Sat.pure (hI (by simpa using hz))) (fun hz => ?_)
    have h0 : st.count ≠ 0 := by simpa using hz
    refine Sat.bind (sat_csPre P _ st hc h0) (fun r hr => ?_)
    cases r with
    | cont s => exact Sat.pure (fun hz' => absurd hz' hr)
    | done r => exact Sat.pure hr
    | next s c =>
      exact Sat.bind (sat_csPost (fun P' h' => sat_pmp fuel P' h') (fun P' h' => sat_pcs fuel P' h')
        P s c hr.1 hr.2) (fun s' hs' => Sat.pure hs')

end Bashlex.C03.RE

#print axioms Bashlex.C03.RE.sat_pcs
