/-
  RootEnds, part 1: the frame.  `KeepsQ Q m`: every normal return of `m` started in a state whose
  redirect store satisfies `Q` ends in such a state.  A clone of the walk of `Props/C04/Eol.lean`
  (there: the look-ahead slot).  Above the tokenizer the store is written by
  `p_redirection_heredoc` (a new cell) and by `gatherheredocuments` (called by `p_simple_list`)
  only; the nested parsers run on a parser object of their own.
-/
import Bashlex.Props.C10.Entry
import Bashlex.Model.Actions

namespace Bashlex.C03.RE
open Bashlex Bashlex.C10
set_option linter.unusedSimpArgs false
set_option linter.unusedVariables false

variable {α β γ : Type}

/-- `m` keeps a predicate on the redirect store -/
def KeepsQ (Q : List RedirCell → Prop) {α : Type} (m : M α) : Prop :=
  ∀ l e a l' e', Q l.store → M.run m l e = (.ok (a, l'), e') → Q l'.store

variable {Q : List RedirCell → Prop}

theorem KeepsQ.pure {α : Type} (a : α) : KeepsQ Q (Pure.pure a : M α) := by
  intro l e a' l' e' hl hr
  rw [M.run_pure] at hr
  simp only [Prod.mk.injEq, Except.ok.injEq] at hr
  rw [← hr.1.2]; exact hl

theorem KeepsQ.bind {α β : Type} {m : M α} {f : α → M β} (hm : KeepsQ Q m)
    (hf : ∀ a, KeepsQ Q (f a)) : KeepsQ Q (m >>= f) := by
  intro l e b l2 e2 hl hr
  obtain ⟨a, l1, e1, h1, h2⟩ := run_bind_ok hr
  exact hf a l1 e1 b l2 e2 (hm l e a l1 e1 hl h1) h2

theorem KeepsQ.loop {σ α : Type} {site : String} {body : σ → M (σ ⊕ α)}
    (hb : ∀ s, KeepsQ Q (body s)) : ∀ (fuel : Nat) (s : σ), KeepsQ Q (M.loop site body fuel s)
  | 0, s => by
    intro l e a l' e' _ hr
    rw [run_loop_zero] at hr; simp at hr
  | fuel + 1, s => by
    show KeepsQ Q (body s >>= _)
    refine KeepsQ.bind (hb s) (fun r => ?_)
    cases r with
    | inl s' => exact KeepsQ.loop hb fuel s'
    | inr a => exact KeepsQ.pure a

theorem keepsQ_raise (x : Exn) : KeepsQ Q (M.raise x : M α) := by
  intro l e a l' e' _ hr
  rw [M.run_raise] at hr; cases hr

theorem keepsQ_foreign (a b : String) : KeepsQ Q (M.foreign a b : M α) := keepsQ_raise _

theorem KeepsQ.ite {c : Prop} [Decidable c] {a b : M α} (ha : KeepsQ Q a) (hb : KeepsQ Q b) :
    KeepsQ Q (if c then a else b) := by
  split
  · exact ha
  · exact hb

theorem KeepsQ.get_bind {f : Local → M β} (h : ∀ l0, Q l0.store → KeepsQ Q (f l0)) :
    KeepsQ Q ((get : M Local) >>= f) := by
  intro l e b l2 e2 hl hr
  rw [M.run_bind, run_get] at hr
  exact h l hl l e b l2 e2 hl hr

theorem keepsQ_get : KeepsQ Q (get : M Local) := by
  intro l e a l' e' hl hr
  rw [run_get] at hr
  simp only [Prod.mk.injEq, Except.ok.injEq] at hr
  rw [← hr.1.2]; exact hl

theorem keepsQ_set {l1 : Local} (h : Q l1.store) : KeepsQ Q (set l1 : M Unit) := by
  intro l e a l' e' _ hr
  rw [run_set] at hr
  simp only [Prod.mk.injEq, Except.ok.injEq] at hr
  rw [← hr.1.2]; exact h

theorem keepsQ_modify {f : Local → Local}
    (h : ∀ l, Q l.store → Q (f l).store) : KeepsQ Q (modify f : M Unit) := by
  intro l e a l' e' hl hr
  rw [run_modify] at hr
  simp only [Prod.mk.injEq, Except.ok.injEq] at hr
  rw [← hr.1.2]; exact h l hl

theorem keepsQ_ask (q : Query) : KeepsQ Q (M.ask q) := by
  intro l e a l' e' hl hr
  rw [run_ask] at hr
  simp only [Prod.mk.injEq, Except.ok.injEq] at hr
  rw [← hr.1.2]; exact hl

theorem keepsQ_forIn {f : γ → β → M (ForInStep β)} (h : ∀ a b, KeepsQ Q (f a b)) :
    ∀ (l : List γ) (b : β), KeepsQ Q (forIn l b f)
  | [], b => by rw [List.forIn_nil]; exact KeepsQ.pure b
  | a :: rest, b => by
    rw [List.forIn_cons]
    refine KeepsQ.bind (h a b) (fun r => ?_)
    cases r with
    | done b' => exact KeepsQ.pure b'
    | yield b' => exact keepsQ_forIn h rest b'

theorem KeepsQ.map {m : M α} {f : α → β} (h : KeepsQ Q m) : KeepsQ Q (f <$> m) := by
  rw [map_eq_pure_bind]
  exact KeepsQ.bind h (fun a => KeepsQ.pure _)

/-- one step of the walk -/
macro "q_step" : tactic => `(tactic| first
  | with_reducible exact KeepsQ.pure _
  | with_reducible exact keepsQ_raise _
  | with_reducible exact keepsQ_foreign _ _
  | with_reducible assumption
  | with_reducible exact keepsQ_ask _
  | with_reducible exact keepsQ_get
  | with_reducible exact keepsQ_set (by assumption)
  | with_reducible exact keepsQ_modify (fun _ h => h)
  | with_reducible refine KeepsQ.ite ?_ ?_
  | with_reducible refine KeepsQ.get_bind (fun _ _ => ?_)
  | with_reducible refine KeepsQ.bind ?_ (fun _ => ?_)
  | with_reducible refine KeepsQ.map ?_
  | with_reducible refine KeepsQ.loop (fun _ => ?_) _ _
  | with_reducible refine keepsQ_forIn (fun _ _ => ?_) _ _
  | (show KeepsQ Q _; split)
  | (show KeepsQ Q _; dsimp only))

macro "q_walk" : tactic => `(tactic| repeat' q_step)

/-! ## readers -/

theorem keepsQ_optProceed : KeepsQ Q optProceed := by unfold optProceed; q_walk
theorem keepsQ_tapeSource : KeepsQ Q tapeSource := by unfold tapeSource; q_walk

/-! ## word expansion -/

section
variable {np : NestedParse} (hnp : ∀ s b, KeepsQ Q (np s b))
include hnp

omit hnp in
theorem keepsQ_adjustpositions (n : Node) (a b : Nat) : KeepsQ Q (adjustpositions n a b) := by
  unfold adjustpositions; q_walk

theorem keepsQ_recursiveparse (base : Str) (i : Nat) (b : Bool) :
    KeepsQ Q (recursiveparse np base i b) := by
  have h1 := keepsQ_adjustpositions (Q := Q)
  unfold recursiveparse
  refine KeepsQ.bind (hnp _ _) (fun r => ?_)
  split
  · exact keepsQ_foreign _ _
  · exact KeepsQ.bind (h1 _ _ _) (fun _ => KeepsQ.pure _)

theorem keepsQ_parsedolparen (base : Str) (i : Nat) : KeepsQ Q (parsedolparen np base i) := by
  have h1 := keepsQ_recursiveparse hnp
  unfold parsedolparen
  simp only []
  refine KeepsQ.bind (h1 _ _ _) (fun r => ?_)
  q_walk

theorem keepsQ_paramexpand (s : Str) (i : Nat) : KeepsQ Q (paramexpand np s i) := by
  have h1 := keepsQ_parsedolparen hnp
  unfold paramexpand
  simp only []
  repeat' first
    | with_reducible exact h1 _ _
    | q_step

theorem keepsQ_expandStep (tok : Token) (s : Str) (qd : Bool) (st : ExpSt) :
    KeepsQ Q (expandStep np tok s qd st) := by
  have h1 := keepsQ_parsedolparen hnp
  have h2 := keepsQ_paramexpand hnp
  have h3 := keepsQ_recursiveparse hnp
  have h4 := keepsQ_tapeSource (Q := Q)
  have h5 := keepsQ_adjustpositions (Q := Q)
  unfold expandStep
  simp only []
  repeat' first
    | with_reducible exact h5 _ _ _
    | with_reducible exact h1 _ _
    | exact h2 _ _
    | with_reducible exact h3 _ _ _
    | exact h4
    | q_step

theorem keepsQ_expandwordinternal (tok : Token) (qd : Bool) :
    KeepsQ Q (expandwordinternal np tok qd) := by
  have h1 := keepsQ_expandStep hnp
  unfold expandwordinternal
  simp only []
  repeat' first
    | with_reducible exact h1 _ _ _ _
    | q_step

theorem keepsQ_expandword (tok : Token) : KeepsQ Q (expandword np tok) := by
  have h1 := keepsQ_expandwordinternal hnp
  unfold expandword
  simp only []
  repeat' first
    | with_reducible exact h1 _ _
    | q_step

end

/-! ## the actions -/

theorem keepsQ_nodePos (n : Node) : KeepsQ Q (nodePos n) := by unfold nodePos; q_walk

theorem keepsQ_partsspan (parts : List Node) : KeepsQ Q (partsspan parts) := by
  have h := keepsQ_nodePos (Q := Q)
  unfold partsspan
  repeat' first
    | exact h _
    | q_step

theorem keepsQ_tokAt (p : PCtx) (i : Nat) : KeepsQ Q (p.tokAt i) := by unfold PCtx.tokAt; q_walk
theorem keepsQ_strAt (p : PCtx) (i : Nat) : KeepsQ Q (p.strAt i) := by
  have := keepsQ_tokAt (Q := Q) p i
  unfold PCtx.strAt; q_walk
theorem keepsQ_nodeAt (p : PCtx) (i : Nat) (s : String) : KeepsQ Q (p.nodeAt i s) := by
  unfold PCtx.nodeAt; q_walk
theorem keepsQ_nodesAt (p : PCtx) (i : Nat) (s : String) : KeepsQ Q (p.nodesAt i s) := by
  unfold PCtx.nodesAt; q_walk
theorem keepsQ_reservedAt (p : PCtx) (i : Nat) : KeepsQ Q (reservedAt p i) := by
  have := keepsQ_strAt (Q := Q) p i
  unfold reservedAt; q_walk
theorem keepsQ_operatorAt (p : PCtx) (i : Nat) : KeepsQ Q (operatorAt p i) := by
  have := keepsQ_strAt (Q := Q) p i
  unfold operatorAt; q_walk
theorem keepsQ_handleAssert (b : Bool) : KeepsQ Q (handleAssert b) := by
  unfold handleAssert; q_walk

theorem keepsQ_addRedirects (n : Node) (reds : List Node) : KeepsQ Q (addRedirects n reds) := by
  have h1 := keepsQ_handleAssert (Q := Q)
  have h2 := keepsQ_nodePos (Q := Q)
  unfold addRedirects
  repeat' first
    | with_reducible exact h1 _
    | exact h2 _
    | q_step

theorem keepsQ_mkCompound1 (inner : Span → List Node → Node) (parts : List Node) :
    KeepsQ Q (mkCompound1 inner parts) := by
  have h := keepsQ_partsspan (Q := Q)
  unfold mkCompound1
  repeat' first
    | exact h _
    | q_step

theorem keepsQ_joinLists (p : PCtx) (mk : Span → Str → Node) (s : String) :
    KeepsQ Q (joinLists p mk s) := by
  have h1 := keepsQ_nodeAt (Q := Q) p
  have h2 := keepsQ_nodesAt (Q := Q) p
  have h3 := keepsQ_strAt (Q := Q) p
  unfold joinLists
  repeat' first
    | with_reducible exact h1 _ _
    | exact h2 _ _
    | with_reducible exact h3 _
    | q_step

section
variable {np : NestedParse} (hnp : ∀ s b, KeepsQ Q (np s b))
include hnp

theorem keepsQ_makeparts (args : List SVal) : KeepsQ Q (makeparts ⟨np, args⟩) := by
  have h1 := keepsQ_expandword hnp
  unfold makeparts
  simp only []
  repeat' first
    | with_reducible exact h1 _
    | q_step

theorem keepsQ_handleNotImplemented (args : List SVal) (ty : String) :
    KeepsQ Q (handleNotImplemented ⟨np, args⟩ ty) := by
  have h1 := keepsQ_makeparts hnp
  have h2 := keepsQ_partsspan (Q := Q)
  have h3 := keepsQ_optProceed (Q := Q)
  unfold handleNotImplemented
  repeat' first
    | with_reducible exact h1 _
    | exact h2 _
    | with_reducible exact h3
    | q_step

set_option maxHeartbeats 4000000 in
/-- **every semantic action but `p_redirection_heredoc` (a new cell) and `p_simple_list`
    (`gatherheredocuments`) keeps the store predicate**, given that the nested parser does -/
theorem keepsQ_actionCore (fname : String)
    (hne : fname ≠ "p_redirection_heredoc") (hne2 : fname ≠ "p_simple_list")
    (args : List SVal) : KeepsQ Q (actionCore np fname args) := by
  have a1 := keepsQ_expandword hnp
  have a2 := keepsQ_makeparts hnp
  have a3 := keepsQ_handleNotImplemented hnp
  have a4 := keepsQ_partsspan (Q := Q)
  have a5 := keepsQ_nodePos (Q := Q)
  have a6 := keepsQ_addRedirects (Q := Q)
  have a7 := keepsQ_mkCompound1 (Q := Q)
  have a8 := keepsQ_handleAssert (Q := Q)
  unfold actionCore
  simp only []
  split
  all_goals first
    | exact absurd rfl hne
    | exact absurd rfl hne2
    | repeat' first
      | exact a1 _
      | with_reducible exact a2 _
      | exact a3 _ _
      | with_reducible exact a4 _
      | exact a5 _
      | with_reducible exact a6 _ _
      | exact a7 _ _
      | with_reducible exact a8 _
      | exact keepsQ_tokAt _ _
      | with_reducible exact keepsQ_strAt _ _
      | exact keepsQ_nodeAt _ _ _
      | with_reducible exact keepsQ_nodesAt _ _ _
      | exact keepsQ_reservedAt _ _
      | with_reducible exact keepsQ_operatorAt _ _
      | exact keepsQ_joinLists _ _ _
      | q_step

end

end Bashlex.C03.RE
