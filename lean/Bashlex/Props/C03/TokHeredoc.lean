/-
  C03, token source, part 6: the here-document reader from a `W` state: `readline(False)`,
  `makeheredoc`, `gatherheredocuments` -- where the bodies lie (`CellStepG`), that a body spans at
  least two characters (the delimiter is not empty), and that nothing else in the store changes.
-/
import Bashlex.Props.C03.TokFinish

namespace Bashlex.C03.Tok
open Bashlex Bashlex.M Bashlex.C10 Bashlex.C11
set_option linter.unusedSimpArgs false
set_option linter.unusedVariables false

/-- the line ends in a newline: a character other than newline is followed by another one -/
def NL (L : Str) : Prop := ∀ i ch, L[i]? = some ch → ch ≠ '\n' → i + 2 ≤ L.length

variable {L : Str} {sr : List RedirCell} {rk : List (Nat × Bool)} {ps : List Nat} {k : Nat}

theorem W.raise {j : Nat} {l : Local} {e : Env} (h : W L sr rk ps k l e)
    (hj : j ≤ (tapeOf l e).idx) : W L sr rk ps j l e := by
  obtain ⟨a1, a2, a3, a4, a5, a6, a7⟩ := h
  exact ⟨a1, a2, a3, a4, a5, a6, hj⟩

/-! ## `readline(False)` -/

def RLInv (L : Str) (sr : List RedirCell) (rk : List (Nat × Bool)) (ps : List Nat) (i0 : Nat)
    (st : RLState) (l : Local) (e : Env) : Prop :=
  ∃ j, (i0 ≤ j ∧ st.indx = st.linebuffer.length ∧
    (1 ≤ st.indx → i0 + 1 ≤ j ∧ j + 1 ≤ L.length) ∧ (2 ≤ st.indx → i0 + 2 ≤ j)) ∧
    W L sr rk ps j l e

/-- `readline(False)` from cursor ≥ `i0`: `None` without a bound, or a line with the cursor at
    `i0 + 1` or beyond -- at `i0 + 2` or beyond if the line has two characters or more (its final
    newline may be virtual, at the end of the input, but then the cursor is at the end) -/
def RLPost (L : Str) (sr : List RedirCell) (rk : List (Nat × Bool)) (ps : List Nat) (i0 : Nat)
    (r : Option Str) (l : Local) (e : Env) : Prop :=
  match r with
  | none => W L sr rk ps i0 l e
  | some txt => ∃ j, W L sr rk ps j l e ∧ i0 + 1 ≤ j ∧ (2 ≤ txt.length → i0 + 2 ≤ j)

theorem readline_w (hnl : NL L) (i0 : Nat) :
    HT (W L sr rk ps i0) (readline false) (RLPost L sr rk ps i0) ET := by
  unfold readline
  simp only [Bool.and_false, Bool.false_eq_true, if_false]
  refine QW.bindSame w_loopFuel (fun fuel => ?_)
  refine HT.pre (HT.loop (E := ET) (I := RLInv L sr rk ps i0) True.intro (fun st => ?_) fuel _) ?_
  · refine HT.pre_exists (fun j => HT.pre_pure (fun hj => ?_))
    obtain ⟨h0, h1, h2, h3⟩ := hj
    refine HT.bind (getc_w true) (fun c0 => ?_)
    -- the tail: append the character, return at a newline
    have tailR : ∀ (c : Char) (j' : Nat), i0 + 1 ≤ j' → (1 ≤ st.indx → i0 + 2 ≤ j') →
        HT (W L sr rk ps j')
          (pure (Sum.inr (some (st.linebuffer ++ [c]))) : M (RLState ⊕ Option Str))
          (fun r l e => match r with
            | .inl s' => RLInv L sr rk ps i0 s' l e
            | .inr a => RLPost L sr rk ps i0 a l e) ET := by
      intro c j' a1 a2
      refine HT.pure (fun l e h => ⟨j', h, a1, ?_⟩)
      intro hlen
      simp only [List.length_append, List.length_cons, List.length_nil] at hlen
      exact a2 (by omega)
    have tailC : ∀ (c : Char) (j' : Nat), i0 + 1 ≤ j' → (1 ≤ st.indx → i0 + 2 ≤ j') →
        j' + 1 ≤ L.length → ∀ (pn : Bool), HT (W L sr rk ps j')
          (pure (Sum.inl { linebuffer := st.linebuffer ++ [c], passnext := pn,
                           indx := st.indx + 1 }) : M (RLState ⊕ Option Str))
          (fun r l e => match r with
            | .inl s' => RLInv L sr rk ps i0 s' l e
            | .inr a => RLPost L sr rk ps i0 a l e) ET := by
      intro c j' a1 a2 a3 pn
      refine HT.pure (fun l e h => ⟨j', ⟨by omega, ?_, ?_, ?_⟩, h⟩)
      · simp only [List.length_append, List.length_cons, List.length_nil]; omega
      · intro _
        exact ⟨a1, a3⟩
      · intro h2'
        exact a2 (by show 1 ≤ st.indx; simp only [] at h2'; omega)
    cases c0 with
    | none =>
      refine HT.pre (P := fun l e => j ≤ L.length ∧ W L sr rk ps L.length l e)
        (HT.pre_pure (fun hjK => ?_)) (fun l e h => ⟨h.1.pos_le, W.raise h.1 (h.2.2 rfl)⟩)
      simp only [Option.isNone_none, Bool.true_and, Option.getD_none]
      refine HT.ite (fun hi => ?_) (fun hi => ?_)
      · exact HT.pure (fun l e h => W.mono h (by omega))
      · have hi' : 1 ≤ st.indx := by
          have : st.indx ≠ 0 := by intro hx; rw [hx] at hi; exact hi rfl
          omega
        obtain ⟨b1, b2⟩ := h2 hi'
        refine HT.ite (fun _ => ?_) (fun _ => ?_)
        · refine HT.ite (fun _ => ?_) (fun hc => absurd rfl hc)
          exact HT.pre (tailR '\n' L.length (by omega) (fun _ => by omega)) (fun _ _ h => h)
        · refine HT.ite (fun _ => ?_) (fun hc => absurd rfl hc)
          exact HT.pre (tailR '\n' L.length (by omega) (fun _ => by omega)) (fun _ _ h => h)
    | some ch =>
      refine HT.pre (P := fun l e => (ch ≠ '\n' → j + 2 ≤ L.length) ∧ W L sr rk ps (j + 1) l e)
        (HT.pre_pure (fun hch => ?_)) ?_
      · simp only [Option.isNone_some, Bool.false_and, Option.getD_some, Bool.false_eq_true, if_false]
        have hne : ∀ (hc : ¬ (ch == '\n') = true), ch ≠ '\n' := by
          intro hc hx; rw [hx] at hc; exact hc rfl
        refine HT.ite (fun _ => ?_) (fun _ => ?_)
        · refine HT.ite (fun _ => ?_) (fun hc => ?_)
          · exact HT.pre (tailR ch (j + 1) (by omega) (fun hi => by have := (h2 hi).1; omega))
              (fun _ _ h => h)
          · exact HT.pre (tailC ch (j + 1) (by omega) (fun hi => by have := (h2 hi).1; omega)
              (by have := hch (hne hc); omega) false) (fun _ _ h => h)
        · refine HT.ite (fun _ => ?_) (fun hc => ?_)
          · exact HT.pre (tailR ch (j + 1) (by omega) (fun hi => by have := (h2 hi).1; omega))
              (fun _ _ h => h)
          · exact HT.pre (tailC ch (j + 1) (by omega) (fun hi => by have := (h2 hi).1; omega)
              (by have := hch (hne hc); omega) st.passnext) (fun _ _ h => h)
      · intro l e h
        obtain ⟨hw, hs, _⟩ := h
        obtain ⟨c1, c2⟩ := hs ch rfl
        refine ⟨fun hne => ?_, W.raise hw c1⟩
        have := hnl _ _ c2 hne
        omega
  · intro l e h
    exact ⟨i0, ⟨Nat.le_refl _, rfl, (fun h => by cases h), (fun h => by cases h)⟩, h⟩

/-! ## `makeheredoc` -/

theorem strip_len : ∀ {s f : Str}, stripLeadingTabs s = some f → f.length ≤ s.length
  | [], f, h => by simp [stripLeadingTabs] at h
  | c :: cs, f, h => by
    unfold stripLeadingTabs at h
    split at h
    · have := strip_len h
      simp only [List.length_cons]; omega
    · cases h; exact Nat.le_refl _

theorem dropLast_len {f d : Str} (h : (pyDropLastN f 1 == d) = true) (hd : d ≠ []) : 2 ≤ f.length := by
  have h1 : pyDropLastN f 1 = d := by simpa using h
  unfold pyDropLastN at h1
  have h2 : (f.take (f.length - 1)).length = d.length := by rw [h1]
  rw [List.length_take] at h2
  have h3 : 0 < d.length := List.length_pos_iff.mpr hd
  omega

theorem foreign_bind_ht {α β : Type} {P : Local → Env → Prop} {Q : β → Local → Env → Prop}
    {a b : String} {k : α → M β} : HT P ((M.foreign a b : M α) >>= k) Q ET := by
  intro l e _; rw [M.run_bind]; exact True.intro

/-- the cell after the body was attached -/
def cellOf (cell : RedirCell) (x y : Nat) (v : Str) : RedirCell :=
  { pos := if (cell.pos.2 + 1 == x) = true then (cell.pos.1, y) else cell.pos,
    heredoc := some ((x, y), v), delim := cell.delim }

/-- invariant of the loop of `makeheredoc`, the first line having been read from cursor `s0` -/
def HDInv (L : Str) (sr : List RedirCell) (rk : List (Nat × Bool)) (ps : List Nat) (s0 : Nat)
    (st : HDState) (l : Local) (e : Env) : Prop :=
  ∃ j, (s0 ≤ j ∧ (strTruthy st.fullline = true → s0 + 1 ≤ j) ∧
    (∀ txt, st.fullline = some txt → 2 ≤ txt.length → s0 + 2 ≤ j)) ∧ W L sr rk ps j l e

def HDPost (L : Str) (sr : List RedirCell) (rk : List (Nat × Bool)) (ps : List Nat) (s0 : Nat)
    (st : HDState) (l : Local) (e : Env) : Prop :=
  (strTruthy st.fullline = true → s0 + 2 ≤ (tapeOf l e).idx) ∧ W L sr rk ps s0 l e

def HDStepQ (L : Str) (sr : List RedirCell) (rk : List (Nat × Bool)) (ps : List Nat) (s0 : Nat)
    (r : HDState ⊕ HDState) (l : Local) (e : Env) : Prop :=
  match r with
  | .inl s' => HDInv L sr rk ps s0 s' l e
  | .inr a => HDPost L sr rk ps s0 a l e

theorem truthy_some {o : Option Str} (h : strTruthy o = true) : ∃ t, o = some t := by
  cases o with
  | none => cases h
  | some t => exact ⟨t, rfl⟩

set_option maxHeartbeats 1000000 in
theorem makeheredoc_w (hnl : NL L) {id : Nat} {cell : RedirCell} (kill : Bool)
    (hcell : sr[id]? = some cell) (hd : cell.delim ≠ []) (i0 : Nat) :
    HT (W L sr rk ps i0) (makeheredoc id kill)
      (fun _ l e => ∃ x y v, i0 ≤ x ∧ x < y ∧ y + 1 ≤ L.length ∧
        W L (sr.set id (cellOf cell x y v)) rk ps (y + 1) l e) ET := by
  unfold makeheredoc
  simp only []
  refine HT.get_bind (fun l0 => ?_)
  refine HT.pre (P := fun l e => l0.store[id]? = some cell ∧ W L sr rk ps i0 l e)
    (HT.pre_pure (fun hc => ?_)) (fun l e h => ⟨by rw [← h.1, h.2.2.2.2.2.1]; exact hcell, h.2⟩)
  rw [hc]
  simp only [pure_bind]
  -- `startpos`
  refine HT.bind (HT.reader run_curIdx) (fun s0 => ?_)
  refine HT.pre (P := fun l e => i0 ≤ s0 ∧ W L sr rk ps s0 l e) (HT.pre_pure (fun hs0 => ?_))
    (fun l e h => ⟨by rw [h.1]; exact h.2.2.2.2.2.2.2, by rw [h.1]; exact h.2.self⟩)
  refine HT.bind (readline_w hnl s0) (fun first => ?_)
  refine QW.bindSame w_loopFuel (fun fuel => ?_)
  refine HT.bind (Q := fun fin l e => HDPost L sr rk ps s0 fin l e) ?_ (fun fin => ?_)
  · -- the loop
    refine HT.pre (HT.loop (E := ET) (I := HDInv L sr rk ps s0) True.intro (fun st => ?_) fuel _) ?_
    · refine HT.post (Q := HDStepQ L sr rk ps s0) ?_ (fun r l e h => by cases r <;> exact h)
      refine HT.pre_exists (fun j => HT.pre_pure (fun hj => ?_))
      obtain ⟨h0, h1, h2⟩ := hj
      refine HT.ite (fun _ => ?_) (fun htr => ?_)
      · -- `fullline` is falsy: leave
        refine HT.pure (fun l e h => ⟨fun ht => ?_, h.mono h0⟩)
        rename_i hnt
        rw [ht] at hnt; cases hnt
      have htr' : strTruthy st.fullline = true := by
        cases hx : strTruthy st.fullline with
        | true => rfl
        | false => rw [hx] at htr; exact absurd rfl htr
      obtain ⟨t0, ht0⟩ := truthy_some htr'
      have hg : st.fullline.getD [] = t0 := by rw [ht0]; rfl
      have leafA : ∀ (f d : Str), f.isEmpty = true → HT (W L sr rk ps j)
          (pure (Sum.inl { fullline := some f, document := d }) : M (HDState ⊕ HDState))
          (HDStepQ L sr rk ps s0) ET := by
        intro f d hf
        have hf' : f = [] := by simpa using hf
        subst hf'
        refine HT.pure (fun l e h => ⟨j, ⟨h0, (fun ht => by cases ht), ?_⟩, h⟩)
        intro txt htxt hlen
        cases htxt
        simp at hlen
      have leafB : ∀ (f d : Str), f.length ≤ t0.length → (pyDropLastN f 1 == cell.delim) = true →
          HT (W L sr rk ps j)
          (pure (Sum.inr { fullline := some f, document := d }) : M (HDState ⊕ HDState))
          (HDStepQ L sr rk ps s0) ET := by
        intro f d hlen hm
        have := dropLast_len hm hd
        have hj2 := h2 t0 ht0 (by omega)
        refine HT.pure (fun l e h => ⟨fun _ => ?_, h.mono h0⟩)
        have := h.2.2.2.2.2.2
        omega
      have leafC : ∀ (d : Str), HT (W L sr rk ps j)
          (readline false >>= fun next => pure (Sum.inl { fullline := next, document := d }) :
            M (HDState ⊕ HDState))
          (HDStepQ L sr rk ps s0) ET := by
        intro d
        refine HT.bind (readline_w hnl j) (fun next => ?_)
        cases next with
        | none =>
          refine HT.pure (fun l e h => ⟨j, ⟨h0, (fun ht => by cases ht), ?_⟩, h⟩)
          intro txt htxt; cases htxt
        | some txt =>
          refine HT.pure (fun l e h => ?_)
          obtain ⟨j', hw, a1, a2⟩ := h
          refine ⟨j', ⟨by omega, (fun _ => by omega), ?_⟩, hw⟩
          intro txt' htxt hlen
          cases htxt
          have := a2 hlen
          omega
      rw [hg]
      repeat' (first
        | refine HT.ite (fun _ => ?_) (fun _ => ?_)
        | exact foreign_bind_ht
        | exact leafA _ _ (by assumption)
        | exact leafB _ _ (Nat.le_refl _) (by assumption)
        | exact leafB _ _ (strip_len (by assumption)) (by assumption)
        | exact leafC _
        | split_head)
    · -- the first line
      intro l e h
      cases first with
      | none => exact ⟨s0, ⟨Nat.le_refl _, (fun ht => by cases ht), (fun txt ht => by cases ht)⟩, h⟩
      | some txt =>
        obtain ⟨j, hw, a1, a2⟩ := h
        exact ⟨j, ⟨by omega, (fun _ => a1), (fun txt' ht hlen => by cases ht; exact a2 hlen)⟩, hw⟩
  · -- after the loop
    refine HT.ite (fun _ => ?_) (fun htr => ?_)
    · -- delimited by end-of-file: raises
      intro l e _
      simp only [M.run_bind, run_tapeLine, run_curIdx, M.run_raise]
      exact True.intro
    have htr' : strTruthy fin.fullline = true := by
      cases hx : strTruthy fin.fullline with
      | true => rfl
      | false => rw [hx] at htr; exact absurd rfl htr
    refine HT.bind (HT.reader run_curIdx) (fun i1 => ?_)
    refine HT.get_bind (fun l1 => ?_)
    refine HT.set ?_
    rintro l e ⟨rfl, rfl, hq, hw⟩
    have h2 := hq htr'
    obtain ⟨a1, a2, a3, a4, a5, a6, a7⟩ := hw
    refine ⟨s0, (tapeOf l e).idx - 1, fin.document, hs0, by omega, by omega, ?_⟩
    refine ⟨a1, a2, a3, a4, ?_, a6, ?_⟩
    · show l.store.set id _ = _
      rw [a5]; rfl
    · show (tapeOf l e).idx - 1 + 1 ≤ (tapeOf l e).idx
      omega


/-! ## `gatherheredocuments` -/

/-- what is queued: distinct cells of the store, without a body, ending before the frontier `f`,
    with a non-empty delimiter -/
def PendOK (f : Nat) (sr : List RedirCell) (rk : List (Nat × Bool)) : Prop :=
  (rk.map (·.1)).Nodup ∧
  ∀ p ∈ rk, ∃ c, sr[p.1]? = some c ∧ c.heredoc = none ∧ c.pos.2 < f ∧ c.delim ≠ []

theorem PendOK.mono {f f' : Nat} {sr : List RedirCell} {rk : List (Nat × Bool)}
    (h : PendOK f sr rk) (hf : f ≤ f') : PendOK f' sr rk := by
  refine ⟨h.1, fun p hp => ?_⟩
  obtain ⟨c, h1, h2, h3, h4⟩ := h.2 p hp
  exact ⟨c, h1, h2, by omega, h4⟩

/-- how `gatherheredocuments` changes a cell: not at all, or it attaches the body, which starts at
    `g` or later -/
def CellStepG (len f g : Nat) (c c' : RedirCell) : Prop :=
  c' = c ∨ (c.heredoc = none ∧ c.pos.2 < f ∧
    ∃ x y v, g ≤ x ∧ x < y ∧ y ≤ len ∧ c' = cellOf c x y v)

def StoreStepG (len f g : Nat) (sr sr' : List RedirCell) : Prop :=
  sr'.length = sr.length ∧
  ∀ (i : Nat) (c c' : RedirCell), sr[i]? = some c → sr'[i]? = some c' → CellStepG len f g c c'

/-- the cursor was moved past the end of the line by the non-strict skip: nothing can be read -/
def Dead (L : Str) (ps : List Nat) (l : Local) (e : Env) : Prop :=
  (tapeOf l e).line = L ∧ L.length < (tapeOf l e).idx ∧ l.eolLookahead = none ∧
  l.positions = ps ∧ strictOf l e = false

def GInv (L : Str) (ps : List Nat) (k len f g : Nat) (sr0 : List RedirCell)
    (l : Local) (e : Env) : Prop :=
  ∃ sr rk, (PendOK f sr rk ∧ (∀ p ∈ rk, sr[p.1]? = sr0[p.1]?) ∧ StoreStepG len f g sr0 sr) ∧
    W L sr rk ps k l e

def GPost (L : Str) (ps : List Nat) (k len f g : Nat) (sr0 : List RedirCell)
    (l : Local) (e : Env) : Prop :=
  PendOK f l.store l.redirstack ∧ StoreStepG len f g sr0 l.store ∧
  (W L l.store l.redirstack ps k l e ∨ Dead L ps l e)

def GStepQ (L : Str) (ps : List Nat) (k len f g : Nat) (sr0 : List RedirCell)
    (r : Unit ⊕ Unit) (l : Local) (e : Env) : Prop :=
  match r with
  | .inl _ => GInv L ps k len f g sr0 l e
  | .inr _ => GPost L ps k len f g sr0 l e

theorem peekc_w (rqn : Bool) :
    HT (W L sr rk ps k) (peekc rqn)
      (fun p l e => W L sr rk ps k l e ∧ (p = none → L.length ≤ (tapeOf l e).idx)) ET := by
  unfold peekc
  refine HT.bind (getc_w rqn) (fun c => ?_)
  cases c with
  | none =>
    refine HT.ite (fun h => by cases h) (fun _ => ?_)
    exact HT.pure (fun l e h => ⟨h.1, fun _ => h.2.2 rfl⟩)
  | some ch =>
    refine HT.ite (fun _ => ?_) (fun h => absurd rfl h)
    refine HT.pre (P := W L sr rk ps (k + 1)) ?_ (fun l e h => W.raise h.1 (h.2.1 ch rfl).1)
    refine QW.bind (ungetc_down _) (fun _ => ?_)
    exact HT.pure (fun l e h => ⟨h, fun h' => by cases h'⟩)

theorem bumpIdx_dead :
    HT (fun l e => W L sr rk ps k l e ∧ L.length ≤ (tapeOf l e).idx ∧ strictOf l e = false) bumpIdx
      (fun _ l e => Dead L ps l e ∧ l.store = sr ∧ l.redirstack = rk) ET := by
  intro l e ⟨hw, hge, hs⟩
  rw [run_bumpIdx]
  obtain ⟨a1, a2, a3, a4, a5, a6, a7⟩ := hw
  refine ⟨⟨?_, ?_, ?_, ?_, ?_⟩, ?_, ?_⟩
  · rw [tapeOf_put]; exact a1
  · rw [tapeOf_put]; show L.length < (tapeOf l e).idx + 1; omega
  · rw [putL_eol]; exact a3
  · rw [putL_positions']; exact a4
  · rw [strictOf_put]; exact hs
  · rw [putL_store]; exact a5
  · rw [putL_redirstack]; exact a6

theorem getElem?_set_ne' {α : Type} {l : List α} {i j : Nat} {a : α} (h : i ≠ j) :
    (l.set i a)[j]? = l[j]? := by
  simp [List.getElem?_set, h]

set_option maxHeartbeats 1000000 in
/-- **`gatherheredocuments`** from a `W` state with cursor ≥ `k`, when every body that can still be
    read starts at `g` or later -/
theorem gather_w (hnl : NL L) {len f g : Nat} (hK : L.length ≤ len + 1)
    (hg : ∀ x, k ≤ x → x + 2 ≤ L.length → g ≤ x) (hp : PendOK f sr rk) :
    HT (W L sr rk ps k) gatherheredocuments (fun _ l e => GPost L ps k len f g sr l e) ET := by
  unfold gatherheredocuments
  simp only []
  refine HT.get_bind (fun l00 => HTQAt.ofHT ?_)
  refine HT.pre (HT.loop (E := ET) (I := fun _ l e => GInv L ps k len f g sr l e) True.intro
    (fun _ => ?_) _ ()) ?_
  · refine HT.post (Q := GStepQ L ps k len f g sr) ?_ (fun r l e h => by cases r <;> exact h)
    refine HT.pre_exists (fun sr1 => HT.pre_exists (fun rk1 => HT.pre_pure (fun hinv => ?_)))
    obtain ⟨hp1, hsame, hstep⟩ := hinv
    refine HT.get_bind (fun l0 => ?_)
    refine HT.pre (P := fun l e => l0.redirstack = rk1 ∧ W L sr1 rk1 ps k l e)
      (HT.pre_pure (fun hrk => ?_)) (fun l e h => ⟨by rw [← h.1]; exact h.2.2.2.2.2.2.1, h.2⟩)
    rw [hrk]
    cases rk1 with
    | nil =>
      refine HT.pure (fun l e h => ?_)
      have hs : l.store = sr1 := h.2.2.2.2.1
      have hr : l.redirstack = [] := h.2.2.2.2.2.1
      refine ⟨by rw [hs, hr]; exact hp1, by rw [hs]; exact hstep, Or.inl (by rw [hs, hr]; exact h)⟩
    | cons p rest =>
      obtain ⟨id, kill⟩ := p
      simp only []
      obtain ⟨cell, hc1, hc2, hc3, hc4⟩ := hp1.2 (id, kill) List.mem_cons_self
      have hnd : id ∉ rest.map (·.1) ∧ (rest.map (·.1)).Nodup := by
        have := hp1.1
        simpa [List.nodup_cons] using this
      -- the common continuation
      have hjp : ∀ {P : Local → Env → Prop}, (∀ l e, P l e → W L sr1 ((id, kill) :: rest) ps k l e) →
          HT P (do
            modify fun l => { l with redirstack := rest }
            makeheredoc id kill
            pure (Sum.inl ()) : M (Unit ⊕ Unit))
            (GStepQ L ps k len f g sr) ET := by
        intro P hP
        refine HT.bind (Q := fun _ l e => W L sr1 rest ps k l e) (HT.modify (fun l e h => ?_))
          (fun _ => ?_)
        · obtain ⟨a1, a2, a3, a4, a5, a6, a7⟩ := hP l e h
          exact ⟨a1, a2, a3, a4, a5, rfl, a7⟩
        refine HT.bind (makeheredoc_w hnl kill hc1 hc4 k) (fun _ => ?_)
        refine HT.pure (fun l e h => ?_)
        obtain ⟨x, y, v, b1, b2, b3, hw⟩ := h
        have hidlt : id < sr1.length := (List.getElem?_eq_some_iff.mp hc1).1
        refine ⟨sr1.set id (cellOf cell x y v), rest, ⟨⟨hnd.2, ?_⟩, ?_, ?_, ?_⟩, hw.mono (by omega)⟩
        · intro p hp
          have hne : id ≠ p.1 := by
            intro hx
            exact hnd.1 (by rw [hx]; exact List.mem_map_of_mem hp)
          obtain ⟨c, d1, d2, d3, d4⟩ := hp1.2 p (List.mem_cons_of_mem _ hp)
          exact ⟨c, by rw [getElem?_set_ne' hne]; exact d1, d2, d3, d4⟩
        · intro p hp
          have hne : id ≠ p.1 := by
            intro hx
            exact hnd.1 (by rw [hx]; exact List.mem_map_of_mem hp)
          rw [getElem?_set_ne' hne]
          exact hsame p (List.mem_cons_of_mem _ hp)
        · rw [List.length_set]; exact hstep.1
        · intro i c c' hi hi'
          by_cases hid : id = i
          · subst hid
            have h0 : sr[id]? = some cell := by
              rw [← hsame (id, kill) List.mem_cons_self]; exact hc1
            rw [h0] at hi; cases hi
            rw [List.getElem?_set_self hidlt] at hi'; cases hi'
            refine Or.inr ⟨hc2, hc3, x, y, v, hg x b1 (by omega), b2, by omega, rfl⟩
          · rw [getElem?_set_ne' hid] at hi'
            exact hstep.2 i c c' hi hi'
      refine HT.bind (peekc_w true) (fun p => ?_)
      cases p with
      | none =>
        refine HT.ite (fun _ => ?_) (fun h => absurd rfl h)
        refine HT.bind (HT.reader run_optStrict) (fun s => ?_)
        cases s with
        | false =>
          refine HT.ite (fun _ => ?_) (fun h => absurd rfl h)
          refine HT.bind (Q := fun _ l e => Dead L ps l e ∧ l.store = sr1 ∧
            l.redirstack = (id, kill) :: rest) ?_ (fun _ => HT.pure (fun l e h => ?_))
          · exact HT.pre bumpIdx_dead (fun l e h => ⟨h.2.1, h.2.2 rfl, h.1.symm⟩)
          · obtain ⟨hd, hs, hr⟩ := h
            exact ⟨by rw [hs, hr]; exact hp1, by rw [hs]; exact hstep, Or.inr hd⟩
        | true =>
          refine HT.ite (fun h => by cases h) (fun _ => ?_)
          exact hjp (P := fun l e => true = strictOf l e ∧ W L sr1 ((id, kill) :: rest) ps k l e ∧
            (none = none → L.length ≤ (tapeOf l e).idx)) (fun l e h => h.2.1)
      | some c =>
        refine HT.ite (fun h => by cases h) (fun _ => ?_)
        exact hjp (P := fun l e => W L sr1 ((id, kill) :: rest) ps k l e ∧
            (some c = none → L.length ≤ (tapeOf l e).idx)) (fun l e h => h.1)
  · intro l e h
    exact ⟨sr, rk, ⟨hp, fun _ _ => rfl, rfl, fun i c c' h1 h2 => by rw [h1] at h2; cases h2; exact Or.inl rfl⟩,
      h⟩

end Bashlex.C03.Tok
