/-
  C03, the hypothesis `RootEnds` — PROVED for the real tokenizer: **`rootEnds : RootEnds`**, no
  hypotheses (facts (S), (T), (H), (W) below).

  `RootEnds` (`Props/C03/Run.lean`): the root a parser run returns for `s` does not end in two
  newline characters unless the next character is `)`.  The header of `Props/C03/RootEnds.lean`
  lists the facts a proof needs.  The development (`Props/C03/RE/*.lean`; this file states the
  result):

  (S)  STRUCTURAL (`RE/Engine.lean`, `RE/Frame.lean`, `RE/Actions.lean`, `RE/Grammar.lean`), for every
       input, all options, every nesting depth: the end of the root is the end of a delivered
       token other than NEWLINE, the end of a redirect cell of the store (a here-document redirect,
       possibly extended over its body), or 0 (D19: `time` / `!` pipelines at (0,0)).  Carrier: a
       new pass over the action functions (`RE/Frame.lean`: the store frame; `RE/Actions.lean`: one
       lemma per action function that can build the last part of the root; `RE/Grammar.lean`: the
       kernel-decided facts about the generated grammar: for every production whose left-hand
       side can end a `simple_list`, the slot the action takes its end from is a terminal other
       than NEWLINE or again such a non-terminal), `LR.run_sound_ordH` with the stateless value
       invariant `VIe` and the state invariant `SG` ("every cell of the store ends well"), on top
       of the state invariant `I5` of `Props/C04Words.lean` (so that the token-level facts of
       C04 / C11 are available at every call of `token()`).
       Result: `rootEnds_conditional : TokEnds → RootEnds`, `TokEnds` = (T) + (W) + (H).
  (T)  TEXT (`RE/TokT.lean`): from `C04.tokText` (proved): if the value of a token does not end
       in a newline, the text under its span does not end in two raw newlines (`eg_of_del`,
       `tokG_of`); `tokEnds_of : TokValW → StoreEnds → TokEnds`.
  (H)  HERE-DOCUMENTS (`RE/Heredoc.lean`, `RE/Bridge.lean`): `token()` never moves a redirect
       (`C03.tokSpans`), and `gatherheredocuments` called by `p_simple_list` extends a redirect
       to the end of the delimiter line of its body, before that line's newline; the delimiter
       is not empty (C03's `PendOK`): exact-cursor walk `readline_e`, `makeheredoc_e`, `gather_e`.
       The engine pass is run together with C03's span invariant, by induction on the depth.
       Result: **`rootEnds_conditional'' : TokValW → RootEnds`** (`RE/Bridge.lean`).
  (W)  WORD VALUES (`RE/WScan.lean`, `RE/WScan2.lean`, `RE/WWord.lean`, `RE/WRead.lean`):
       **`tokValW : TokValW`** — the value of a token `token()` delivers does not end in a
       newline unless the token is an operator.  State-agnostic: what `_parse_matched_pair` /
       `_parse_comsub` return ends with the closing character or with what a nested scanner
       returned (`sat_pmp`, `sat_pcs`, by induction on the depth fuel), and one iteration of the
       loop of `_readtokenword` keeps `tokenword` from ending in a newline (`sat_step_n`), PROVIDED
       the character appended after a backslash is not a newline — which is the field `pn` of
       `C04.TTP.WInv`, so the iteration is conjoined with `step_tt` (`rtwLoop_n`); the walk of
       `_readtoken` of `C04/TTRead.lean` is repeated with the new post-condition (`readtoken_n`).
       Cross-check by evaluation: `RE/Validate.lean` (0 failures on 13405 inputs, all suffixes).

  Candidate counterexample examined (and checked with `#eval`): `cat <<''\⏎⏎⏎` -- an EMPTY
  delimiter after a continuation would make the extended redirect end in two raw newlines; but
  the delimiter is the RAW word `''` (quotes are not removed: `makeheredoc` compares with
  `redirnode.output.word`), so the blank line does not end the body: ParsingError
  "here-document … delimited by end-of-file (wanted \"''\")".
-/
import Bashlex.Props.C03.RE.Bridge
import Bashlex.Props.C03.RE.WRead

namespace Bashlex.C03
open Bashlex

/-- **`RootEnds` holds of the real tokenizer and parser**: for every input, all options, every
    nesting depth, the root a parser run returns does not end in two newline characters unless
    the next character is `)` -/
theorem rootEnds : RootEnds := RE.rootEnds_conditional'' RE.tokValW

end Bashlex.C03

#print axioms Bashlex.C03.rootEnds
