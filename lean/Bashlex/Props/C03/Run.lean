/-
  C03, part 8: one parser run (`parserRun_spans`, by induction on the nesting depth), from the
  hypothesis on the token source, the engine theorem `run_sound_ord` and `strict_resolve`.
-/
import Bashlex.Props.C03.Engine

namespace Bashlex.C03
open Bashlex Bashlex.Spec Bashlex.Node Bashlex.M Bashlex.LR Bashlex.C12
set_option linter.unusedSimpArgs false
set_option linter.unusedVariables false

/-- what a parser run over an input of length `len` returns -/
structure TopOK (len : Nat) (n : Node) : Prop where
  strict : Strict len n
  nopend : NoPend n
  root : tainted n = true ∨ n.pos.1 < n.pos.2

/-- the root a nested parser returns for `s` does not end in two newline characters when it is
    not followed by `)` (`_parsedolparen` steps back over newlines before the end it reports; it
    would then cut the substitution node short of its command) -/
def RootEndOK (s : Str) (n : Node) : Prop :=
  ∀ c, s[n.pos.2]? = some c → c ≠ ')' → n.pos.2 ≤ backOverNewlines s n.pos.2 + 1

def NestedOK (s : Str) (n : Node) : Prop := TopOK s.length n ∧ RootEndOK s n

/-- the contract of the nested parser: it leaves the outer parser object alone (tokenizer
    invariant, store) and returns a fine tree -/
def NPSpans (TI : Nat → Nat → Local → Env → Prop) (np : NestedParse) : Prop :=
  ∀ s b len F st, Keeps (StP TI len F st) (np s b) (fun r => ∀ n, r = some n → NestedOK s n)

/-- the contract of word expansion relative to the nested parser's (proved in `Expand.lean`) -/
def WordContract (TI : Nat → Nat → Local → Env → Prop) : Prop :=
  ∀ np, NPSpans TI np → ∀ len F st, WordSat (StP TI len F st) np len

/-- the second hypothesis (on nested runs only): see `RootEndOK` -/
def RootEnds : Prop :=
  ∀ d s, SatS (parserRun d) (InitState s) (fun r _ _ => ∀ n, r = some n → RootEndOK s n)

section
variable {TI : Nat → Nat → Local → Env → Prop}

theorem npok_npOf (d : Nat) : NPOK (npOf (parserRun d)) := by
  intro s b
  unfold npOf
  refine Sat.bind_any (fun _ => Sat.bind_any (fun _ =>
    Sat.bind (parserRun_ok sat_nextToken d) (fun r hr => ?_)))
  exact Sat.bind_any (fun _ => Sat.bind_any (fun _ => Sat.pure hr))

/-- a fact about what the wrapped run returns carries over to the wrapper -/
theorem npOf_result {run : M (Option Node)} {s : Str} {b : Bool} {Φ : Option Node → Prop}
    (h : SatS run (InitState s) (fun r _ _ => Φ r)) :
    SatS (npOf run s b) (fun _ _ => True) (fun r _ _ => Φ r) := by
  unfold npOf
  refine SatS.bind SatS.get (fun outer => ?_)
  refine SatS.bind SatS.set (fun _ => ?_)
  refine SatS.bind (SatS.pre h ?_) (fun r => ?_)
  · rintro l e ⟨rfl, _⟩
    exact ⟨rfl, rfl, rfl, rfl, Or.inl rfl⟩
  · refine SatS.bind SatS.get (fun inner => ?_)
    refine SatS.bind SatS.set (fun _ => ?_)
    refine SatS.pure ?_
    rintro l e ⟨_, l1, _, hr⟩
    exact hr

theorem npSpans_npOf (hT : TokSpans TI) (hR : RootEnds) (d : Nat)
    (ih : ∀ s, SatS (parserRun d) (InitState s) (fun r _ _ => ∀ n, r = some n → TopOK s.length n)) :
    NPSpans TI (npOf (parserRun d)) := by
  intro s b len F st
  have h1 := hT.nested d len F st s b
  have h2 := npOf_result (b := b)
    (Φ := fun r => (∀ n, r = some n → TopOK s.length n) ∧ (∀ n, r = some n → RootEndOK s n))
    (SatS.and (ih s) (hR d s))
  refine SatS.post (SatS.and h1 (SatS.pre h2 (fun _ _ _ => trivial))) ?_
  rintro r l e ⟨hp, h3⟩
  exact ⟨hp, fun n hn => ⟨h3.1 n hn, h3.2 n hn⟩⟩

theorem ext_pos_resolve {len g : Nat} {st : List RedirCell} {n : Node} (h : Done len g st n) :
    (resolve st n).pos.1 = n.pos.1 ∧ n.pos.2 ≤ (resolve st n).pos.2 :=
  let e := ext_resolve (h n (C12.self_mem_preorder n))
  ⟨e.s, e.e⟩

/-- **one parser run**: from a fresh parser object over `s`, every tree `_parser.parse()`
    returns is fine for `len(s)`: every signature `Spec.spansWF` raises on it is known -/
theorem parserRun_spans (hT : TokSpans TI) (hR : RootEnds) (hWC : WordContract TI) :
    ∀ d s, SatS (parserRun d) (InitState s) (fun r _ _ => ∀ n, r = some n → TopOK s.length n) := by
  intro d
  induction d with
  | zero => intro s; exact SatS.raise trivial
  | succ d ih =>
    intro s
    rw [parserRun_succ]
    have hnps := npSpans_npOf hT hR d ih
    have hH := spans_hooks (len := s.length) hT (npok_npOf d) (hWC _ hnps s.length)
    refine SatS.bind (SatS.weaken (run_sound_ord real_WF _ hH 1073741824) ?_ (fun _ _ _ h => h)
      (fun _ _ => trivial)) (fun res => ?_)
    · -- a fresh parser object satisfies the stack invariant of the empty stack
      intro l e hinit
      refine ⟨⟨0, 0, Nat.le_refl 0, Nat.le_refl 0, hT.init s l e hinit, ?_⟩, ?_, ?_⟩
      · intro x hx; cases hx
      · intro x hx; cases hx
      · intro x hx; cases hx
    · refine SatS.bind SatS.get (fun l => ?_)
      split
      · rename_i n _ _ _
        refine SatS.pure ?_
        rintro l' e' ⟨rfl, hgood⟩ m hm
        cases hm
        obtain ⟨hs, hroot, hseal, g, hends, hdone⟩ := hgood n rfl
        refine ⟨strict_resolve _ n hs hends hdone, noPend_resolve _ n hseal, ?_⟩
        rcases hroot with ht | hne
        · exact Or.inl (tainted_resolve _ n hdone ht)
        · obtain ⟨e1, e2⟩ := ext_pos_resolve hdone
          right; omega
      · exact SatS.pure (fun _ _ _ n hn => by cases hn)

end
end Bashlex.C03
