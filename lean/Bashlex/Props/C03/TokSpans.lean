/-
  C03, token source, part 9: **the hypothesis `TokSpans` holds of the real tokenizer.**

  The ghost invariant `TI len f l e`: the parser object runs over a line `L` built by
  `tokenizer.__init__` from an input of length `len` (`|L| ≤ len + 1`, `L` ends in a newline);
  the redirects queued for `gatherheredocuments` are distinct cells of the store without a body,
  ending before the frontier `f`, with a non-empty delimiter (`PendOK`); and either
    * the cursor is inside the line, at or after `min f |L|` (at or after the frontier, or at the
      end of the line), the `_eol_ungetc_lookahead` slot is empty and no positions are recorded
      (`W`), or
    * the cursor was moved beyond the end of the line by the non-strict here-document skip
      (`Dead`; only EOF tokens from then on).
-/
import Bashlex.Props.C03.TokNext
import Bashlex.Props.C03.Hyp
import Bashlex.Props.C16.FrameInst
import Bashlex.Props.C11.Parse
import Bashlex.Props.C03.TokWNE

namespace Bashlex.C03
open Bashlex Bashlex.M Bashlex.C10 Bashlex.C11 Bashlex.C03.Tok
set_option linter.unusedSimpArgs false
set_option linter.unusedVariables false

/-- **the ghost invariant of the tokenizer** (see the header) -/
def TI (len f : Nat) (l : Local) (e : Env) : Prop :=
  ∃ L : Str, (L.length ≤ len + 1 ∧ NL L) ∧ PendOK f l.store l.redirstack ∧
    (W L l.store l.redirstack [] (min f L.length) l e ∨ Dead L [] l e)

theorem satS_of_ht {α : Type} {m : M α} {P : Local → Env → Prop} {Q : α → Local → Env → Prop}
    (h : HT P m Q ET) : SatS m P Q := by
  intro l e hp
  have h1 := h l e hp
  revert h1
  rcases m.run l e with ⟨r, e'⟩
  cases r with
  | ok v => exact fun h => h
  | error x => exact fun _ => True.intro

/-! ## the store relations -/

theorem cellStep_false {len f : Nat} {c c' : RedirCell} (h : CellStepG len f (f + 1) c c') :
    CellStep len f false c c' := by
  rcases h with h | ⟨h1, h2, x, y, v, h3, h4, h5, rfl⟩
  · exact Or.inl h
  · refine Or.inr ⟨h1, x, y, v, rfl, by omega, h4, h5, Or.inl ?_⟩
    show (if (c.pos.2 + 1 == x) = true then (c.pos.1, y) else c.pos) = c.pos
    rw [if_neg]
    intro hx
    have : c.pos.2 + 1 = x := by simpa using hx
    omega

theorem cellStep_true {len f : Nat} {c c' : RedirCell} (h : CellStepG len f f c c') :
    CellStep len f true c c' := by
  rcases h with h | ⟨h1, h2, x, y, v, h3, h4, h5, rfl⟩
  · exact Or.inl h
  · refine Or.inr ⟨h1, x, y, v, rfl, by omega, h4, h5, ?_⟩
    show (cellOf c x y v).pos = c.pos ∨ _
    by_cases hx : c.pos.2 + 1 = x
    · right
      have e1 : (cellOf c x y v).pos = (c.pos.1, y) := by
        show (if (c.pos.2 + 1 == x) = true then (c.pos.1, y) else c.pos) = _
        rw [if_pos (by simpa using hx)]
      rw [e1]
      exact ⟨rfl, rfl, by show c.pos.2 ≤ y; omega, h5, by omega⟩
    · left
      show (if (c.pos.2 + 1 == x) = true then (c.pos.1, y) else c.pos) = c.pos
      rw [if_neg (by simpa using hx)]

theorem storeStep_false {len f : Nat} {sr sr' : List RedirCell}
    (h : StoreStepG len f (f + 1) sr sr') : StoreStep len f false sr sr' :=
  ⟨h.1, fun i c c' h1 h2 => cellStep_false (h.2 i c c' h1 h2)⟩

theorem storeStep_true {len f : Nat} {sr sr' : List RedirCell}
    (h : StoreStepG len f f sr sr') : StoreStep len f true sr sr' :=
  ⟨h.1, fun i c c' h1 h2 => cellStep_true (h.2 i c c' h1 h2)⟩

theorem storeStepG_refl {len f g : Nat} (sr : List RedirCell) : StoreStepG len f g sr sr :=
  ⟨rfl, fun i c c' h1 h2 => by rw [h1] at h2; cases h2; exact Or.inl rfl⟩

/-! ## the dead states -/

/-- a dead state, with the store and the queue -/
def DeadS (L : Str) (ps : List Nat) (sr : List RedirCell) (rk : List (Nat × Bool))
    (l : Local) (e : Env) : Prop :=
  Dead L ps l e ∧ l.store = sr ∧ l.redirstack = rk

section dead
variable {L : Str} {ps : List Nat} {sr : List RedirCell} {rk : List (Nat × Bool)}

theorem getc_dead (rqn : Bool) :
    HT (DeadS L ps sr rk) (getc rqn) (fun c l e => c = none ∧ DeadS L ps sr rk l e) ET := by
  intro l e h
  obtain ⟨⟨a1, a2, a3, a4, a5⟩, a6, a7⟩ := h
  rw [run_getc rqn l e a3]
  cases hgc : (tapeOf l e).getc rqn ((tapeOf l e).line.length + 1) with
  | error u => cases u; exact True.intro
  | ok v =>
    obtain ⟨c, t'⟩ := v
    obtain ⟨b1, b2, b3, b4, b5, b6⟩ := getc_spec rqn _ _ _ _ hgc
    obtain ⟨rfl, rfl⟩ := b3 (by rw [a1]; omega)
    simp only []
    rw [putL_self, putE_self]
    exact ⟨by first | rfl | trivial, ⟨a1, a2, a3, a4, a5⟩, a6, a7⟩

theorem deadS_upd {l l' : Local} {e : Env} (h : DeadS L ps sr rk l e)
    (h1 : tapeOf l' e = tapeOf l e) (h2 : l'.eolLookahead = l.eolLookahead)
    (h3 : l'.positions = l.positions) (h4 : l'.store = l.store)
    (h5 : l'.redirstack = l.redirstack) (h6 : strictOf l' e = strictOf l e) :
    DeadS L ps sr rk l' e := by
  obtain ⟨a, b, c⟩ := h
  refine ⟨?_, by rw [h4]; exact b, by rw [h5]; exact c⟩
  unfold Dead at a ⊢
  rw [h1, h2, h3, h6]; exact a

/-- in a dead state `token()` delivers EOF -/
theorem nextToken_dead :
    HT (DeadS L [] sr rk) nextToken (fun t l e => t = eofTok ∧ DeadS L [] sr rk l e) ET := by
  unfold nextToken
  simp only []
  refine HT.bind (Q := fun _ l e => DeadS L [] sr rk l e)
    (HT.modify (fun l e h => deadS_upd h rfl rfl rfl rfl rfl rfl)) (fun _ => ?_)
  refine HT.bind (Q := fun r l e => r = .inr eofTok ∧ DeadS L [] sr rk l e) ?_ (fun r => ?_)
  · unfold readtoken
    simp only []
    refine HT.bind (Q := fun _ l e => DeadS L [] sr rk l e) (HT.pure (fun _ _ h => h)) (fun fuel => ?_)
    refine HT.bind (getc_dead true) (fun c0 => ?_)
    refine HT.bind (Q := fun c l e => c = none ∧ DeadS L [] sr rk l e) ?_ (fun c1 => ?_)
    · refine HT.loop (E := ET) (I := fun c l e => c = none ∧ DeadS L [] sr rk l e) True.intro
        (fun c => ?_) fuel c0
      refine HT.pre_pure (fun hc => ?_)
      subst hc
      exact HT.pure (fun l e h => ⟨rfl, h⟩)
    · refine HT.pre_pure (fun hc => ?_)
      subst hc
      exact HT.pure (fun l e h => ⟨rfl, h⟩)
  · refine HT.pre_pure (fun hr => ?_)
    subst hr
    simp only [pure_bind]
    refine HT.bind (Q := fun _ l e => DeadS L [] sr rk l e)
      (HT.modify (fun l e h => deadS_upd h rfl rfl rfl rfl rfl rfl)) (fun _ => ?_)
    refine HT.bind (Q := fun _ l e => DeadS L [] sr rk l e)
      (HT.modify (fun l e h => deadS_upd h rfl rfl rfl rfl rfl rfl)) (fun _ => ?_)
    exact HT.pure (fun l e h => ⟨rfl, h⟩)

/-- in a dead state `gatherheredocuments` skips again -/
theorem gather_dead :
    HT (DeadS L ps sr rk) gatherheredocuments (fun _ l e => DeadS L ps sr rk l e) ET := by
  unfold gatherheredocuments
  simp only []
  refine HT.get_bind (fun l00 => HTQAt.ofHT ?_)
  refine HT.loop (E := ET) (I := fun _ l e => DeadS L ps sr rk l e) True.intro (fun _ => ?_) _ ()
  refine HT.get_bind (fun l0 => ?_)
  split
  · exact HT.pure (fun l e h => h.2)
  · rename_i id kill rest _
    refine HTQAt.ofHT ?_
    unfold peekc
    simp only [bind_assoc]
    refine HT.bind (getc_dead true) (fun c => ?_)
    refine HT.pre_pure (fun hc => ?_)
    subst hc
    simp only [Option.isSome_none, Bool.false_eq_true, if_false, pure_bind, Option.isNone_none,
      if_true]
    refine HT.bind (HT.reader run_optStrict) (fun s => ?_)
    refine HT.pre (P := fun l e => s = false ∧ DeadS L ps sr rk l e) (HT.pre_pure (fun hs => ?_))
      (fun l e h => ⟨by rw [h.1]; exact h.2.1.2.2.2.2, h.2⟩)
    subst hs
    simp only [Bool.not_false, if_true]
    refine HT.bind (Q := fun _ l e => DeadS L ps sr rk l e) ?_ (fun _ => HT.pure (fun l e h => h))
    intro l e h
    rw [run_bumpIdx]
    obtain ⟨⟨a1, a2, a3, a4, a5⟩, a6, a7⟩ := h
    refine ⟨⟨?_, ?_, ?_, ?_, ?_⟩, ?_, ?_⟩
    · rw [tapeOf_put]; exact a1
    · rw [tapeOf_put]; show L.length < (tapeOf l e).idx + 1; omega
    · rw [putL_eol]; exact a3
    · rw [putL_positions']; exact a4
    · rw [strictOf_put]; exact a5
    · rw [putL_store]; exact a6
    · rw [putL_redirstack]; exact a7

end dead


/-! ## the fields of `TokSpans` -/

theorem TI.env {len f : Nat} {l : Local} {e e' : Env} (h : TI len f l e) (h1 : e'.tape = e.tape)
    (h2 : e'.strict = e.strict) : TI len f l e' := by
  obtain ⟨L, hL, hp, hc⟩ := h
  refine ⟨L, hL, hp, ?_⟩
  rcases hc with hc | hc
  · exact Or.inl (hc.env h1)
  · right
    unfold Dead at hc ⊢
    rw [tapeOf_env h1, strictOf_env h2]; exact hc

/-- **`next`**: `token()` delivers a token at or after the frontier, starting inside the input,
    non-empty, moves the frontier to its end and changes no `pos` in the store -/
theorem tokSpans_next0 (len f : Nat) (st : List RedirCell) :
    SatS nextToken (fun l e => TI len f l e ∧ l.store = st)
      (fun t l e => ∃ a b, f ≤ a ∧ (a < b ∧ ((t.ttype = some .EOF ∧ t.value = .none) ∨
        (t.pos = some (a, b) ∧ a ≤ len))) ∧ TI len b l e ∧ StoreStep len f false st l.store) := by
  refine SatS.intro_state (fun l0 e0 h0 => ?_)
  obtain ⟨⟨L, ⟨hK, hnl⟩, hp, hc⟩, hst⟩ := h0
  rcases hc with hc | hc
  · refine satS_of_ht (HT.weaken (nextToken_w (len := len) hnl hK hp) ?_ ?_ (fun _ h => h))
    · rintro l e ⟨rfl, rfl⟩; exact hc
    · rintro t l e ⟨a, b, h1, h2, h3, h4, h5, h6⟩
      refine ⟨a, b, h1, ⟨h2, ?_⟩, ⟨L, ⟨hK, hnl⟩, h4.mono (by omega), h6⟩, ?_⟩
      · rcases h3 with h3 | h3
        · left; rw [h3]; exact ⟨rfl, rfl⟩
        · right; exact ⟨h3.1, by omega⟩
      · rw [← hst]; exact storeStep_false h5
  · refine satS_of_ht (HT.weaken (nextToken_dead (L := L) (sr := l0.store) (rk := l0.redirstack))
      ?_ ?_ (fun _ h => h))
    · rintro l e ⟨rfl, rfl⟩; exact ⟨hc, rfl, rfl⟩
    · rintro t l e ⟨rfl, hd, hs, hr⟩
      refine ⟨f, f + 1, Nat.le_refl _, ⟨Nat.lt_succ_self _, Or.inl ⟨rfl, rfl⟩⟩,
        ⟨L, ⟨hK, hnl⟩, ?_, Or.inr hd⟩, ?_⟩
      · rw [hs, hr]; exact hp.mono (Nat.le_succ _)
      · rw [hs, ← hst]
        exact storeStep_false (storeStepG_refl _)

/-- **`next`**: `token()` delivers a token at or after the frontier, starting inside the input,
    non-empty, moves the frontier to its end and changes no `pos` in the store; a WORD token has a
    non-empty value -/
theorem tokSpans_next (len f : Nat) (st : List RedirCell) :
    SatS nextToken (fun l e => TI len f l e ∧ l.store = st)
      (fun t l e => ∃ a b, f ≤ a ∧ TokAt len t a b ∧ TI len b l e ∧
        StoreStep len f false st l.store) := by
  refine SatS.post (SatS.and_sat (tokSpans_next0 len f st) sat_nextToken_w) (fun t l e h => ?_)
  obtain ⟨⟨a, b, h1, h2, h3, h4⟩, hw⟩ := h
  exact ⟨a, b, h1, ⟨h2.1, h2.2.imp id (fun h => ⟨h.1, h.2, hw⟩)⟩, h3, h4⟩

/-- **`gather`**: `gatherheredocuments` called from `p_simple_list` -/
theorem tokSpans_gather (len f : Nat) (st : List RedirCell) :
    SatS gatherheredocuments (fun l e => TI len f l e ∧ l.store = st)
      (fun _ l e => TI len f l e ∧ StoreStep len f true st l.store) := by
  refine SatS.intro_state (fun l0 e0 h0 => ?_)
  obtain ⟨⟨L, ⟨hK, hnl⟩, hp, hc⟩, hst⟩ := h0
  rcases hc with hc | hc
  · refine satS_of_ht (HT.weaken (gather_w (len := len) (g := f) (k := min f L.length) (ps := []) hnl hK
      (fun x hx _ => by omega) hp)
      ?_ ?_ (fun _ h => h))
    · rintro l e ⟨rfl, rfl⟩; exact hc
    · rintro _ l e ⟨h1, h2, h3⟩
      exact ⟨⟨L, ⟨hK, hnl⟩, h1, h3⟩, by rw [← hst]; exact storeStep_true h2⟩
  · refine satS_of_ht (HT.weaken (gather_dead (L := L) (ps := []) (sr := l0.store)
      (rk := l0.redirstack)) ?_ ?_ (fun _ h => h))
    · rintro l e ⟨rfl, rfl⟩; exact ⟨hc, rfl, rfl⟩
    · rintro _ l e ⟨hd, hs, hr⟩
      refine ⟨⟨L, ⟨hK, hnl⟩, by rw [hs, hr]; exact hp, Or.inr hd⟩, ?_⟩
      rw [hs, ← hst]
      exact storeStep_true (storeStepG_refl _)

/-- **`queue`**: `p_redirection_heredoc` queues a redirect that ends before the frontier; its
    delimiter (the value of a WORD token) is not empty -/
theorem tokSpans_queue (len f : Nat) (l : Local) (e : Env) (cell : RedirCell) (kill : Bool)
    (h : TI len f l e) (hpos : cell.pos.2 < f) (hh : cell.heredoc = none) (hd : cell.delim ≠ []) :
    TI len f { l with store := l.store ++ [cell],
                      redirstack := l.redirstack ++ [(l.store.length, kill)] } e := by
  obtain ⟨L, hL, hp, hc⟩ := h
  refine ⟨L, hL, ?_, ?_⟩
  · show PendOK f (l.store ++ [cell]) (l.redirstack ++ [(l.store.length, kill)])
    have hlt : ∀ p ∈ l.redirstack, p.1 < l.store.length := by
      intro p hp'
      obtain ⟨c, h1, _⟩ := hp.2 p hp'
      exact (List.getElem?_eq_some_iff.mp h1).1
    refine ⟨?_, ?_⟩
    · rw [List.map_append, List.nodup_append]
      refine ⟨hp.1, by simp, ?_⟩
      intro a ha b hb
      simp only [List.map_cons, List.map_nil, List.mem_singleton] at hb
      subst hb
      obtain ⟨p, hp', rfl⟩ := List.mem_map.mp ha
      have := hlt p hp'
      omega
    · intro p hp'
      rcases List.mem_append.mp hp' with hp' | hp'
      · obtain ⟨c, h1, h2, h3, h4⟩ := hp.2 p hp'
        exact ⟨c, by rw [List.getElem?_append_left (hlt p hp')]; exact h1, h2, h3, h4⟩
      · simp only [List.mem_singleton] at hp'
        subst hp'
        exact ⟨cell, by simp, hh, hpos, hd⟩
  · rcases hc with hc | hc
    · left
      obtain ⟨a1, a2, a3, a4, a5, a6, a7⟩ := hc
      exact ⟨a1, a2, a3, a4, rfl, rfl, a7⟩
    · right; exact hc

/-- **`ps`**: the parser-state flags are not part of the invariant -/
theorem tokSpans_ps (len f : Nat) (l : Local) (e : Env) (ps : PState) (h : TI len f l e) :
    TI len f { l with ps := ps } e := h

/-! ### `init` -/

theorem nl_of_getLast {L : Str} (h : ∀ c, L.getLast? = some c → c = '\n') : NL L := by
  intro i ch hi hne
  have hlt : i < L.length := (List.getElem?_eq_some_iff.mp hi).1
  by_cases hx : i = L.length - 1
  · exfalso
    apply hne
    apply h
    rw [List.getLast?_eq_getElem?, ← hx]; exact hi
  · omega

theorem ofInput_line (s : Str) :
    (Tape.ofInput s).line.length ≤ s.length + 1 ∧
    ∀ c, (Tape.ofInput s).line.getLast? = some c → c = '\n' := by
  unfold Tape.ofInput
  split
  · rename_i hn
    exact ⟨Nat.le_succ _, fun c hc => by simp only [] at hc; rw [hn] at hc; cases hc⟩
  · rename_i c0 hc0
    split
    · rename_i hnl
      refine ⟨Nat.le_succ _, fun c hc => ?_⟩
      simp only [] at hc
      rw [hc0] at hc; cases hc
      simpa using hnl
    · refine ⟨by simp, fun c hc => ?_⟩
      simp only [List.getLast?_append, List.getLast?_singleton, Option.some_or] at hc
      cases hc; rfl

/-- **`init`**: a fresh parser object -/
theorem tokSpans_init (s : Str) (l : Local) (e : Env) (h : InitState s l e) : TI s.length 0 l e := by
  obtain ⟨h1, h2, h3, h4, h5⟩ := h
  have ht : tapeOf l e = Tape.ofInput s := by
    rcases h5 with h5 | ⟨h5, h6⟩
    · unfold tapeOf; rw [h5]
    · unfold tapeOf; rw [h5]; exact h6
  obtain ⟨k1, k2⟩ := ofInput_line s
  refine ⟨(Tape.ofInput s).line, ⟨k1, nl_of_getLast k2⟩, ?_, Or.inl ?_⟩
  · rw [h1, h2]
    exact ⟨List.nodup_nil, fun p hp => by cases hp⟩
  · refine ⟨by rw [ht], ?_, h3, h4, rfl, rfl, ?_⟩
    · rw [ht, ofInput_idx]; exact Nat.zero_le _
    · rw [ht, ofInput_idx]; simp

/-! ### `nested` -/

theorem run_npOf (inner : M (Option Node)) (s : Str) (b : Bool) (l : Local) (e : Env) :
    M.run (npOf inner s b) l e =
      match M.run inner (nestedLocal l s b) e with
      | (.ok (r, l'), e') => (.ok (r, { l with ps := l'.ps }), e')
      | (.error x, e') => (.error x, e') := by
  unfold npOf nestedLocal
  simp only [M.run_bind, C10.run_get, C10.run_set]
  generalize M.run inner _ e = x
  rcases x with ⟨r, e'⟩
  cases r with
  | error x => rfl
  | ok v => obtain ⟨r, l'⟩ := v; rfl

/-- **`nested`**: a nested parser run has its own parser object (own tape, fixed options): it
    leaves the caller's tape alone (`C16.nestedEnv_thm`) and restores the caller's state -/
theorem tokSpans_nested (d len f : Nat) (st : List RedirCell) (s : Str) (b : Bool) :
    SatS (npOf (parserRun d) s b) (fun l e => TI len f l e ∧ l.store = st)
      (fun _ l e => TI len f l e ∧ l.store = st) := by
  intro l e ⟨hti, hst⟩
  rw [run_npOf]
  rcases hr : M.run (parserRun d) (nestedLocal l s b) e with ⟨r, e'⟩
  cases r with
  | error x => exact True.intro
  | ok v =>
    obtain ⟨r, l'⟩ := v
    have hE := C16.nestedEnv_thm d (nestedLocal l s b) e r l' e' rfl rfl hr
    exact ⟨(tokSpans_ps len f l e l'.ps hti).env hE.1.symm hE.2.1.symm, hst⟩


/-- **the hypothesis on the token source holds of the real tokenizer** -/
theorem tokSpans : TokSpans TI where
  next := tokSpans_next
  gather := tokSpans_gather
  queue := tokSpans_queue
  ps := tokSpans_ps
  nested := tokSpans_nested
  init := tokSpans_init

end Bashlex.C03

#print axioms Bashlex.C03.tokSpans_next
#print axioms Bashlex.C03.tokSpans_gather
#print axioms Bashlex.C03.tokSpans_queue
#print axioms Bashlex.C03.tokSpans_ps
#print axioms Bashlex.C03.tokSpans_nested
#print axioms Bashlex.C03.tokSpans_init
#print axioms Bashlex.C03.tokSpans
