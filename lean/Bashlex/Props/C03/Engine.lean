/-
  C03, part 7: the stack invariant `SI` of the LR engine for spans, and its closure under the
  engine's moves for the real hooks (`spans_hooks : HooksOrd …`), from
    * the hypothesis on the token source (`TokSpans`),
    * the contract of the nested parser (through `WordSat`),
    * the action lemmas (`Actions.lean`) and the kernel-checked grammar/table facts
      (`Grammar.lean`), and C12's sort discipline (`VI`, reused for arities and shapes).
-/
import Bashlex.Props.C03.Grammar
import Bashlex.LR.SoundOrd
import Bashlex.Props.C12

namespace Bashlex.C03
open Bashlex Bashlex.Spec Bashlex.Node Bashlex.M Bashlex.LR Bashlex.C12
set_option linter.unusedSimpArgs false
set_option linter.unusedVariables false

/-- the look-ahead: a token starting at or after the end of everything on the stack (`g`) and
    ending at or before the tokenizer's frontier `F` -/
def LaIn (len g : Nat) (la : Option (Nat × SVal)) (F : Nat) : Prop :=
  match la with
  | none => g ≤ F
  | some x => ∃ t a b, x = (symOfTok t, SVal.tok t) ∧ g ≤ a ∧ b ≤ F ∧ TokAt len t a b

/-- the span part of the stack invariant: the values occupy consecutive intervals from 0 to `g`,
    the look-ahead follows, the tokenizer's invariant holds at the frontier `F`, and every value is
    fresh with respect to the redirect store (or is the finished value of `simple_list`) -/
def SIs (TI : Nat → Nat → Local → Env → Prop) (len : Nat) (vs : List (Nat × SVal))
    (la : Option (Nat × SVal)) (l : Local) (e : Env) : Prop :=
  ∃ g F, Seg len 0 vs g ∧ LaIn len g la F ∧ TI len F l e ∧ ∀ x ∈ vs, EntryOK len l.store x

/-- C12's sort discipline, for every entry and the look-ahead -/
def VIall (vs : List (Nat × SVal)) (la : Option (Nat × SVal)) : Prop :=
  (∀ x ∈ vs, VI x.1 x.2) ∧ ∀ x, la = some x → VI x.1 x.2

def SI (TI : Nat → Nat → Local → Env → Prop) (len : Nat) (vs : List (Nat × SVal))
    (la : Option (Nat × SVal)) (l : Local) (e : Env) : Prop :=
  SIs TI len vs la l e ∧ VIall vs la

/-- what an accepted value satisfies, in the final state: exactly what `strict_resolve` needs -/
def Fin (len : Nat) (v : SVal) (l : Local) (e : Env) : Prop :=
  ∀ n, v = .node n → Strict len n ∧ (tainted n = true ∨ n.pos.1 < n.pos.2) ∧ SealedAll n ∧
    ∃ g, EndsBy g n ∧ Done len g l.store n

theorem fin_of_nodeIn_fresh {len f g : Nat} {n : Node} {l : Local} {e : Env}
    (h : NodeIn len f n g) (hf : FreshT len l.store n) : Fin len (.node n) l e := by
  intro n' hn'
  cases hn'
  refine ⟨h.strict, ?_, h.sld, g, h.ends, done_of_fresh hf h.pend⟩
  rcases h.root with h1 | h1
  · exact Or.inl h1
  · exact Or.inr h1.2

theorem fin_of_entry {len f g sym : Nat} {v : SVal} {l : Local} {e : Env}
    (hv : ValIn len f (sym, v) g) (he : EntryOK len l.store (sym, v)) : Fin len v l e := by
  intro n hn
  subst hn
  have h : NodeIn len f n g := hv
  rcases he with he | ⟨_, he⟩
  · exact fin_of_nodeIn_fresh (e := e) h (he n (by simp [svNodes])) n rfl
  · obtain ⟨g', h1, h2⟩ := he.done n (by simp [svNodes])
    refine ⟨h.strict, ?_, h.sld, g', h1, h2⟩
    rcases h.root with h1 | h1
    · exact Or.inl h1
    · exact Or.inr h1.2

/-! ## entries under store changes -/

theorem doneV_step {len f : Nat} {st st' : List RedirCell} {v : SVal}
    (hs : StoreStep len f false st st') (h : DoneV len st v) : DoneV len st' v := by
  refine ⟨?_, ?_⟩
  · intro n hn m hm id p hp
    obtain ⟨c, hc⟩ := h.ex n hn m hm id p hp
    have hlt : id < st'.length := by
      rw [hs.1]; exact (List.getElem?_eq_some_iff.mp hc).1
    exact ⟨st'[id], List.getElem?_eq_getElem hlt⟩
  · intro n hn
    obtain ⟨g, h1, h2⟩ := h.done n hn
    exact ⟨g, h1, fun m hm => doneN_step hs (h2 m hm) (h.ex n hn m hm)⟩

theorem entryOK_step {len f : Nat} {st st' : List RedirCell} {x : Nat × SVal}
    (hs : StoreStep len f false st st') (h : EntryOK len st x) : EntryOK len st' x := by
  rcases h with h | ⟨h1, h2⟩
  · exact Or.inl (fresh_step hs h)
  · exact Or.inr ⟨h1, doneV_step hs h2⟩

theorem doneV_append {len : Nat} {st : List RedirCell} {cell : RedirCell} {v : SVal}
    (h : DoneV len st v) : DoneV len (st ++ [cell]) v := by
  have key : ∀ (id : Nat) (c : RedirCell), st[id]? = some c → (st ++ [cell])[id]? = some c := by
    intro id c hc
    rw [List.getElem?_append_left (List.getElem?_eq_some_iff.mp hc).1]; exact hc
  refine ⟨?_, ?_⟩
  · intro n hn m hm id p hp
    obtain ⟨c, hc⟩ := h.ex n hn m hm id p hp
    exact ⟨c, key id c hc⟩
  · intro n hn
    obtain ⟨g, h1, h2⟩ := h.done n hn
    refine ⟨g, h1, ?_⟩
    intro m hm id p hp
    obtain ⟨hsh, hcell⟩ := h2 m hm id p hp
    refine ⟨hsh, ?_⟩
    intro c' hc'
    obtain ⟨c, hc⟩ := h.ex n hn m hm id p hp
    rw [key id c hc] at hc'
    have heq : c = c' := Option.some.inj hc'
    rw [← heq]
    exact hcell c hc

theorem entryOK_append {len : Nat} {st : List RedirCell} {cell : RedirCell} {x : Nat × SVal}
    (h : EntryOK len st x) : EntryOK len (st ++ [cell]) x := by
  rcases h with h | ⟨h1, h2⟩
  · exact Or.inl (fresh_append h)
  · exact Or.inr ⟨h1, doneV_append h2⟩

/-! ## lifting the action lemmas to the stack invariant -/

section
variable {TI : Nat → Nat → Local → Env → Prop} {len : Nat}

theorem satS_action_of_core {np : NestedParse} {fname : String} {args : List SVal}
    {P : Local → Env → Prop} {Q : SVal × Bool → Local → Env → Prop}
    (h : SatS (actionCore np fname args) P Q) : SatS (action np fname args) P Q := by
  unfold action
  refine SatS.bind h ?_
  intro r
  split
  · exact SatS.foreign True.intro
  · exact SatS.pure (fun _ _ h => h)

/-- the post-condition of a reduction, span part -/
def PostS (TI : Nat → Nat → Local → Env → Prop) (len : Nat) (rest : List (Nat × SVal)) (lhs : Nat)
    (la : Option (Nat × SVal)) (r : SVal × Bool) (l : Local) (e : Env) : Prop :=
  if r.2 = true then Fin len r.1 l e else SIs TI len (rest ++ [(lhs, r.1)]) la l e

theorem fresh_of_entries {st : List RedirCell} {args : List (Nat × SVal)}
    (hent : ∀ x ∈ args, EntryOK len st x) (hsl : ∀ x ∈ args, x.1 ≠ slSym) :
    ∀ v ∈ args.map (·.2), Fresh len st v := by
  intro v hv
  obtain ⟨x, hx, rfl⟩ := List.mem_map.mp hv
  rcases hent x hx with h | ⟨h, _⟩
  · exact h
  · exact absurd h (hsl x hx)

/-- an action that only reads the state and returns a fresh value occupying the interval of its
    arguments re-establishes the stack invariant -/
theorem lift_res {np : NestedParse} {fname : String} {s : Bool} {rest args : List (Nat × SVal)}
    {lhs : Nat} {la : Option (Nat × SVal)}
    (hK : ∀ F st f g, SegV s len f (args.map (·.2)) g → (∀ v ∈ args.map (·.2), Fresh len st v) →
      LaIn len g la F →
      Keeps (StP TI len F st) (actionCore np fname (args.map (·.2))) (Res len f g st))
    (hsym : ∀ x ∈ args, x.1 ≠ eofSym) (hrng : s = true → ∀ g F, LaIn len g la F → g ≤ len)
    (hsl : ∀ x ∈ args, x.1 ≠ slSym) :
    SatS (actionCore np fname (args.map (·.2))) (SIs TI len (rest ++ args) la)
      (PostS TI len rest lhs la) := by
  refine SatS.intro_state ?_
  rintro l e ⟨g, F, hseg, hlain, hti, hent⟩
  obtain ⟨m, hrs, has⟩ := Seg.split hseg
  have hsegV := segV_of_seg (s := s) has hsym (fun hs => hrng hs g F hlain)
  have hfresh := fresh_of_entries (st := l.store)
    (fun x hx => hent x (List.mem_append_right _ hx)) hsl
  refine SatS.weaken (hK F l.store m g hsegV hfresh hlain) ?_ ?_ (fun _ h => h)
  · rintro l1 e1 ⟨rfl, rfl⟩; exact ⟨hti, rfl⟩
  · rintro r l' e' ⟨⟨hti', hst'⟩, hres, hfr, hacc⟩
    unfold PostS
    rw [hacc]
    simp only [Bool.false_eq_true, if_false]
    refine ⟨g, F, Seg.append hrs (seg_single.mpr (valIn_of_valInV hres (Or.inl rfl))), hlain, hti', ?_⟩
    intro x hx
    rw [hst']
    rcases List.mem_append.mp hx with hx | hx
    · exact hent x (List.mem_append_left _ hx)
    · simp only [List.mem_singleton] at hx
      subst hx
      exact Or.inl hfr

/-! ## the actions that write to the parser object -/

theorem nodeIn_heredoc_redirect {f g m id : Nat} {t o : Token} {i : RedirIn} {ty : Str}
    (ht : TokInV true len f t m) (ho : TokInV true len m o g) :
    NodeIn len f (.redirect (t.lexpos, o.endlexpos) i ty
      (some (.word (o.lexpos, o.endlexpos) o.valueStr [])) .none none (some id)) g := by
  obtain ⟨a, b, hp, ha, hab, hb, hr⟩ := ht
  obtain ⟨a', b', hp', ha', hab', hb', hr', hw'⟩ := ho
  rw [(tok_lexspan hp).1, (tok_lexspan hp').2, (tok_lexspan hp').1]
  have hw : NodeIn len a (.word (a', b') o.valueStr []) b' :=
    nodeIn_leaf rfl rfl rfl (show a ≤ a' by omega) hab' (Nat.le_refl _) (hr' rfl) trivial
  refine nodeIn_wrap (w := .word (a', b') o.valueStr []) rfl rfl hw ha (by omega) hb' (hr' rfl)
    rfl ?_ (noPend_leaf rfl rfl)
  exact ⟨rfl, fun w hw => by cases hw; exact ⟨rfl, rfl⟩⟩

theorem fresh_heredoc_redirect {st : List RedirCell} {pos : Span} {i : RedirIn} {ty : Str}
    {w : Node} {delim : Str} (hw : NoPend w) :
    FreshT len (st ++ [{ pos := pos, delim := delim }])
      (.redirect pos i ty (some w) .none none (some st.length)) := by
  rw [freshT_iff]
  refine ⟨?_, ?_⟩
  · intro id p hp
    simp only [pendOf, Option.some.injEq, Prod.mk.injEq] at hp
    obtain ⟨rfl, rfl⟩ := hp
    refine ⟨{ pos := pos, delim := delim }, by simp, rfl, ?_⟩
    intro x y v hx; cases hx
  · intro c hc
    simp [children] at hc
    subst hc
    exact hw.fresh

theorem sp_redirection_heredoc (hT : TokAct TI) {np : NestedParse} {sorts : List Srt}
    {args : List SVal} {σ : Srt} {F f g : Nat} {st : List RedirCell}
    (h : absAction "p_redirection_heredoc" sorts = some σ)
    (hlast : ∀ s, sorts.getLast? = some s → s = .tok (some .WORD))
    (ha : Forall2 HasSort sorts args) (hseg : SegV true len f args g) (hgF : g < F) :
    SatS (actionCore np "p_redirection_heredoc" args) (StP TI len F st)
      (fun r l e => ∃ cell, TI len F l e ∧ l.store = st ++ [cell] ∧ ValInV true len f r.1 g ∧
        Fresh len (st ++ [cell]) r.1 ∧ r.2 = false) := by
  unfold absAction at h; simp only [] at h
  split at h
  · split at h
    · rename_i hop
      cases h
      obtain ⟨a, b, rfl, hop', ⟨w, rfl, hwty, -⟩⟩ := forall2_2 ha
      have hwty' : w.ttype = some .WORD := by
        have := hlast _ rfl
        cases this
        exact hwty
      obtain ⟨t, ty, rfl, hty, hwf, hf⟩ := okTok_inv hop hop'
      obtain ⟨m, h1, h2⟩ := segV_2 hseg
      unfold actionCore; simp only []
      simp only [PCtx.len, PCtx.tokAt, PCtx.slice, PCtx.strAt, PCtx.lexspan, SVal.lexspan,
        List.length_cons, List.length_nil, Nat.reduceAdd, Nat.reduceSub, List.getD_cons_succ,
        List.getD_cons_zero, Nat.reduceBEq, beq_self_eq_true, if_true, bind_pure_comp, pure_bind,
        map_pure, bind_map_left]
      refine SatS.bind SatS.get ?_
      intro l
      refine SatS.map ?_
      rintro l0 e0 ⟨hl, hti, hst⟩
      subst hl
      have hwend : w.endlexpos < F := by
        obtain ⟨a', b', hp', _, _, hb', _⟩ := (h2 : TokInV true len m w g)
        rw [(tok_lexspan hp').2]; omega
      have hwne : w.valueStr ≠ [] := by
        obtain ⟨a', b', hp', _, _, hb', _, hw⟩ := (h2 : TokInV true len m w g)
        exact hw hwty'
      refine ⟨{ pos := (t.lexpos, w.endlexpos), delim := w.valueStr },
        hT.queue len F l e0 _ _ hti hwend rfl hwne, ?_, nodeIn_heredoc_redirect h1 h2, ?_, rfl⟩
      · show l.store ++ _ = st ++ _
        rw [hst]
      · rw [← hst]
        exact fresh_node (fresh_heredoc_redirect (noPend_leaf rfl rfl))
    · cases h
  · split at h
    · rename_i hop
      cases h
      simp only [Bool.and_eq_true] at hop
      obtain ⟨a, b, c, rfl, hin', hop', ⟨w, rfl, hwty, -⟩⟩ := forall2_3 ha
      have hwty' : w.ttype = some .WORD := by
        have := hlast _ rfl
        cases this
        exact hwty
      obtain ⟨t, ty, rfl, hty, hwf, hf⟩ := okTok_inv hop.2 hop'
      obtain ⟨ti, tyi, rfl, htyi, hwfi, hfi⟩ := okTok_inv hop.1 hin'
      obtain ⟨m1, m2, h1, h2, h3⟩ := segV_3 hseg
      have h1' : TokInV true len f ti m2 := ValInV.mono (v := .tok ti) h1 (Nat.le_refl _) (ValInV.le h2)
      unfold actionCore; simp only []
      simp only [PCtx.len, PCtx.tokAt, PCtx.slice, PCtx.strAt, PCtx.lexspan, SVal.lexspan,
        List.length_cons, List.length_nil, Nat.reduceAdd, Nat.reduceSub, List.getD_cons_succ,
        List.getD_cons_zero, Nat.reduceBEq, beq_self_eq_true, if_true, bind_pure_comp, pure_bind,
        map_pure, bind_map_left, Bool.false_eq_true, if_false]
      refine SatS.bind SatS.get ?_
      intro l
      refine SatS.map ?_
      rintro l0 e0 ⟨hl, hti, hst⟩
      subst hl
      have hwend : w.endlexpos < F := by
        obtain ⟨a', b', hp', _, _, hb', _⟩ := (h3 : TokInV true len m2 w g)
        rw [(tok_lexspan hp').2]; omega
      have hwne : w.valueStr ≠ [] := by
        obtain ⟨a', b', hp', _, _, hb', _, hw⟩ := (h3 : TokInV true len m2 w g)
        exact hw hwty'
      refine ⟨{ pos := (ti.lexpos, w.endlexpos), delim := w.valueStr },
        hT.queue len F l e0 _ _ hti hwend rfl hwne, ?_, nodeIn_heredoc_redirect h1' h3, ?_, rfl⟩
      · show l.store ++ _ = st ++ _
        rw [hst]
      · rw [← hst]
        exact fresh_node (fresh_heredoc_redirect (noPend_leaf rfl rfl))
    · cases h
  · cases h

theorem altOp_nopend {l : List Node} (h : InL .altOp l) : ∀ n ∈ l, pendOf n = none := by
  intro n hn
  rcases Alt.mem h n hn with hx | hs
  · have := pc_commandLike hx
    cases n <;> simp [isCommandLike] at this <;> rfl
  · have := hs.2
    cases n <;> simp [isOperator] at this <;> rfl

theorem posIn_nopend {st : List RedirCell} {n : Node} (h : pendOf n = none) : posIn st n = n.pos := by
  cases n with
  | redirect p i t o oa hd hid =>
    cases hid with
    | none => rfl
    | some id => simp [pendOf] at h
  | _ => rfl

theorem keeps_partsspan_np {F : Nat} {st : List RedirCell} {parts : List Node}
    (h : ∀ n ∈ parts, pendOf n = none) :
    Keeps (StP TI len F st) (partsspan parts)
      (fun sp => ∃ a b, parts.head? = some a ∧ parts.getLast? = some b ∧ sp = (a.pos.1, b.pos.2)) := by
  unfold partsspan
  cases ha : parts.head? with
  | none => exact Keeps.foreign trivial
  | some a =>
    cases hb : parts.getLast? with
    | none => exact Keeps.foreign trivial
    | some b =>
      simp only []
      refine Keeps.bind (keeps_nodePos a) ?_
      intro sa hsa
      refine Keeps.bind (keeps_nodePos b) ?_
      intro sb hsb
      refine Keeps.pure ⟨a, b, rfl, rfl, ?_⟩
      rw [hsa, hsb, posIn_nopend (h a (List.mem_of_mem_head? ha)),
        posIn_nopend (h b (List.mem_of_getLast? hb))]

theorem sp_simple_list (hT : TokAct TI) {np : NestedParse} {sorts : List Srt}
    {args : List SVal} {σ : Srt} {F f g : Nat} {st : List RedirCell}
    (h : absAction "p_simple_list" sorts = some σ)
    (ha : Forall2 HasSort sorts args) (hseg : SegV true len f args g)
    (hfr : ∀ v ∈ args, Fresh len st v) :
    SatS (actionCore np "p_simple_list" args) (StP TI len F st)
      (fun r l e => TI len F l e ∧ StoreStep len F true st l.store ∧
        ∃ n, r.1 = .node n ∧ NodeIn len f n g ∧ FreshT len st n) := by
  -- after `gatherheredocuments`, the rest only reads the state
  have rest : ∀ (prog : M (SVal × Bool)),
      (∀ st', Keeps (StP TI len F st') prog
        (fun r => ∃ n, r.1 = .node n ∧ NodeIn len f n g ∧ FreshT len st n)) →
      SatS (gatherheredocuments >>= fun _ => prog) (StP TI len F st)
        (fun r l e => TI len F l e ∧ StoreStep len F true st l.store ∧
          ∃ n, r.1 = .node n ∧ NodeIn len f n g ∧ FreshT len st n) := by
    intro prog hprog
    refine SatS.bind (hT.gather len F st) ?_
    intro _
    refine SatS.intro_state ?_
    rintro l0 e0 ⟨hti, hstep⟩
    refine SatS.weaken (hprog l0.store) ?_ ?_ (fun _ h => h)
    · rintro l e ⟨rfl, rfl⟩; exact ⟨hti, rfl⟩
    · rintro r l e ⟨⟨hti', hst'⟩, hr⟩
      exact ⟨hti', by rw [hst']; exact hstep, hr⟩
  unfold absAction at h; simp only [] at h
  split at h
  · cases h
    obtain ⟨a, rfl, ⟨l, rfl, hl⟩⟩ := forall2_1 ha
    have hv : ValInV true len f (.nodes l) g := segV_single.mp hseg
    have hfl := (hfr (.nodes l) (by simp)).nodes
    have hnp := altOp_nopend hl
    unfold actionCore; simp only []
    simp only [PCtx.len, PCtx.slice, PCtx.nodesAt, List.length_cons, List.length_nil, Nat.reduceAdd,
      Nat.reduceSub, List.getD_cons_zero, Nat.reduceBEq, Bool.false_or, Bool.false_eq_true,
      if_false, pure_bind, Nat.sub_self]
    refine rest _ (fun st' => ?_)
    split
    · refine Keeps.bind (keeps_partsspan_np hnp) (fun sp hsp => ?_)
      obtain ⟨a, b, ha', hb', rfl⟩ := hsp
      refine Keeps.bind Keeps.get (fun l1 _ => Keeps.pure ⟨_, rfl, ?_, ?_⟩)
      · exact mkParent rfl hv.2 ha' hb' rfl trivial
      · exact freshT_mk rfl hfl
    · split
      · rename_i n hlen
        refine Keeps.bind Keeps.get (fun l1 _ => Keeps.pure ⟨n, rfl, listIn_single.mp hv.2, ?_⟩)
        exact hfl n (by simp)
      · exact Keeps.bind (Keeps.foreign (Φ := fun _ => False) trivial) (fun _ h => h.elim)
  · split at h
    · rename_i hop
      cases h
      obtain ⟨a, b, rfl, ⟨l, rfl, hl⟩, ⟨t, rfl, hty, hwf⟩⟩ := forall2_2 ha
      obtain ⟨m, h1, h2⟩ := segV_2 hseg
      have hfl := (hfr (.nodes l) (by simp)).nodes
      have hnp := altOp_nopend hl
      obtain ⟨hop', hpop⟩ := nodeIn_operator (w := t.valueStr) (h2 : TokInV true len m t g)
      unfold actionCore; simp only []
      simp only [PCtx.len, PCtx.slice, PCtx.nodesAt, List.length_cons, List.length_nil, Nat.reduceAdd,
        Nat.reduceSub, List.getD_cons_zero, Nat.reduceBEq, Bool.true_or, if_true, pure_bind,
        Nat.sub_self, operatorAt, PCtx.strAt, PCtx.tokAt, PCtx.lexspan, SVal.lexspan,
        List.getD_cons_succ, bind_pure_comp, map_pure, Bool.false_and, beq_self_eq_true]
      refine rest _ (fun st' => ?_)
      have hnp' : ∀ n ∈ l ++ [Node.operator (t.lexpos, t.endlexpos) t.valueStr], pendOf n = none := by
        intro n hn
        rcases List.mem_append.mp hn with hn | hn
        · exact hnp n hn
        · simp at hn; subst hn; rfl
      refine Keeps.bind (keeps_partsspan_np hnp') (fun sp hsp => ?_)
      obtain ⟨a, b, ha', hb', rfl⟩ := hsp
      refine Keeps.map (Keeps.get.weaken (fun l1 _ => ⟨_, rfl, ?_, ?_⟩))
      · exact mkParent rfl (ListIn.snoc h1.2 hop') ha' hb' rfl trivial
      · refine freshT_mk rfl ?_
        intro n hn
        rcases List.mem_append.mp hn with hn | hn
        · exact hfl n hn
        · simp at hn; subst hn; exact hpop.fresh
    · cases h
  · cases h

theorem keeps_inputunit (hT : TokAct TI) {np : NestedParse} {args : List SVal} {F : Nat}
    {st : List RedirCell} :
    Keeps (StP TI len F st) (actionCore np "p_inputunit" args)
      (fun r => r = (.none, false) ∨ ∃ n, r = (.node n, true) ∧ args.head? = some (.node n)) := by
  unfold actionCore; simp only []
  refine Keeps.bind Keeps.get (fun l _ => ?_)
  have hm : Keeps (StP TI len F st) (match PCtx.slice ⟨np, args⟩ 1 with
      | .node n => (pure (SVal.node n, true) : M (SVal × Bool))
      | _ => pure (SVal.none, false))
      (fun r => r = (.none, false) ∨ ∃ n, r = (.node n, true) ∧ args.head? = some (.node n)) := by
    split
    · rename_i n hn
      refine Keeps.pure (Or.inr ⟨n, rfl, ?_⟩)
      cases args with
      | nil => simp [PCtx.slice] at hn
      | cons x xs => simp [PCtx.slice] at hn; simp [hn]
    · exact Keeps.pure (Or.inl rfl)
  split
  · refine Keeps.bind (Keeps.modify ?_) (fun _ _ => hm)
    rintro l e ⟨hti, hst⟩
    exact ⟨hT.ps len F l e _ hti, hst⟩
  · exact hm

/-! ## the dispatch -/

theorem syms_of_prodOK {f : String} {lhs : Nat} {rhs : List Nat} {args : List (Nat × SVal)}
    (hk : prodOK f lhs rhs = true) (hargs : args.map (·.1) = rhs) :
    (∀ x ∈ args, x.1 ≠ eofSym) ∧
    ((f == "p_inputunit") = false → ∀ x ∈ args, x.1 ≠ slSym) := by
  unfold prodOK at hk
  simp only [Bool.and_eq_true, Bool.or_eq_true, Bool.not_eq_true'] at hk
  obtain ⟨⟨⟨⟨k1, k3⟩, _⟩, _⟩, _⟩ := hk
  have mem : ∀ x ∈ args, x.1 ∈ rhs := by
    intro x hx; rw [← hargs]; exact List.mem_map_of_mem hx
  refine ⟨?_, ?_⟩
  · intro x hx hc
    have := mem x hx
    rw [hc] at this
    have : rhs.contains eofSym = true := by simpa using this
    rw [k1] at this; cases this
  · intro hf x hx hc
    rcases k3 with k3 | k3
    · have := mem x hx
      rw [hc] at this
      have : rhs.contains slSym = true := by simpa using this
      rw [k3] at this; cases this
    · rw [hf] at k3; cases k3

theorem la_present {p : Nat} {la : Option (Nat × SVal)} (hla : LaHint realTables la p)
    (hf : dfltFuncs.contains (fn p) = false) :
    ∃ x s, la = some x ∧ realTables.action s x.1 = some (.reduce p) := by
  rcases hla with ⟨s, hs⟩ | h
  · rw [dflt_fn hs] at hf; cases hf
  · exact h

theorem laIn_lt {g F : Nat} {x : Nat × SVal} (h : LaIn len g (some x) F) : g < F := by
  obtain ⟨t, a, b, _, h1, h2, h3, _⟩ := h
  omega

theorem symOfTok_eof {t : Token} (h : t.ttype = some .EOF) : symOfTok t = eofSym := by
  simp [symOfTok, h, TokType.sym, eofSym]

theorem symOfTok_nl {t : Token} (h : t.ttype = some .NEWLINE) : symOfTok t = nlSym := by
  simp [symOfTok, h, nlSym]

/-- **range from the look-ahead**: an action other than `p_inputunit`,
    `p_simple_list_terminator`, `p_elif_clause` is reduced on a look-ahead token that is not
    `$end`; it starts within the input, and after everything on the stack -/
theorem la_range {p g F : Nat} {la : Option (Nat × SVal)} (hla : LaHint realTables la p)
    (hf : dfltFuncs.contains (fn p) = false) (h : LaIn len g la F) : g ≤ len := by
  obtain ⟨x, s, rfl, hact⟩ := la_present hla hf
  obtain ⟨t, a, b, rfl, h1, h2, h3, h4⟩ := h
  rcases h4 with ⟨h4, _⟩ | ⟨_, h4⟩
  · exfalso
    simp only [symOfTok_eof h4] at hact
    rw [eofRed_fn hact] at hf
    cases hf
  · omega

theorem hasSort_val {σ : Srt} {v : SVal} (h : sortIsVal σ = true) (hv : HasSort σ v) :
    v ≠ SVal.none := by
  cases σ with
  | tok ty => obtain ⟨t, rfl, _⟩ := hv; intro h; cases h
  | node c => obtain ⟨n, rfl, _⟩ := hv; intro h; cases h
  | nodes k => obtain ⟨l, rfl, _⟩ := hv; intro h; cases h
  | none => cases h
  | optNode c => cases h

theorem forall2_all {P : Srt → Bool} {Q : SVal → Prop} (hPQ : ∀ σ v, P σ = true → HasSort σ v → Q v) :
    ∀ {sorts : List Srt} {vals : List SVal}, Forall2 HasSort sorts vals → sorts.all P = true →
    ∀ v ∈ vals, Q v := by
  intro sorts vals h
  induction h with
  | nil => intro _ v hv; cases hv
  | cons h1 _ ih =>
    intro hall v hv
    simp only [List.all_cons, Bool.and_eq_true] at hall
    rcases List.mem_cons.mp hv with rfl | hv
    · exact hPQ _ _ hall.1 h1
    · exact ih hall.2 v hv

theorem elif_facts {lhs : Nat} {rhs : List Nat} {vals : List SVal}
    (hk : prodOK "p_elif_clause" lhs rhs = true)
    (ha : Forall2 HasSort (rhs.map sortOfSymbol) vals) :
    (∀ v ∈ vals, v ≠ SVal.none) ∧ ∃ v, vals.getLast? = some v ∧ nodeish v := by
  unfold prodOK at hk
  simp only [Bool.and_eq_true, Bool.or_eq_true, Bool.not_eq_true'] at hk
  obtain ⟨⟨_, k5⟩, _⟩ := hk
  rcases k5 with k5 | k5
  · simp at k5
  · obtain ⟨k5a, k5b⟩ := k5
    refine ⟨?_, ?_⟩
    · refine forall2_all (P := sortIsVal) (fun σ v h1 h2 => hasSort_val h1 h2) ha ?_
      rw [List.all_map]
      exact k5a
    · cases hl : rhs.getLast? with
      | none => rw [hl] at k5b; cases k5b
      | some sy =>
        rw [hl] at k5b
        simp only at k5b
        have hl' : (rhs.map sortOfSymbol).getLast? = some (sortOfSymbol sy) := by
          rw [List.getLast?_map, hl]; rfl
        obtain ⟨v, hv, hvs⟩ := forall2_getLast ha _ hl'
        refine ⟨v, hv, ?_⟩
        cases hs : sortOfSymbol sy with
        | node c => rw [hs] at hvs; obtain ⟨n, rfl, _⟩ := hvs; trivial
        | nodes k => rw [hs] at hvs; obtain ⟨l, rfl, _⟩ := hvs; trivial
        | none => rw [hs] at k5b; cases k5b
        | tok ty => rw [hs] at k5b; cases k5b
        | optNode c => rw [hs] at k5b; cases k5b

theorem pipeline_facts {lhs : Nat} {rhs : List Nat} {vals : List SVal}
    (hk : prodOK "p_pipeline_command" lhs rhs = true)
    (ha : Forall2 HasSort (rhs.map sortOfSymbol) vals) :
    ∀ x y, vals = [x, y] → (∃ t, x = SVal.tok t) ∨ (∃ n, x = SVal.node n) := by
  intro x y hv
  subst hv
  unfold prodOK at hk
  simp only [Bool.and_eq_true, Bool.or_eq_true, Bool.not_eq_true'] at hk
  obtain ⟨_, k6⟩ := hk
  have hlen : rhs.length = 2 := by
    have := forall2_length ha
    simpa using this
  rcases k6 with (k6 | k6) | k6
  · simp at k6
  · simp [hlen] at k6
  · cases rhs with
    | nil => simp at hlen
    | cons r rs =>
      simp only [List.headD_cons] at k6
      simp only [List.map_cons] at ha
      obtain ⟨b, bs, hb, h1, _⟩ := forall2_cons ha
      simp only [List.cons.injEq] at hb
      obtain ⟨rfl, _⟩ := hb
      cases hs : sortOfSymbol r with
      | tok ty => rw [hs] at h1; obtain ⟨t, rfl, _⟩ := h1; exact Or.inl ⟨t, rfl⟩
      | node c => rw [hs] at h1; obtain ⟨n, rfl, _⟩ := h1; exact Or.inr ⟨n, rfl⟩
      | none => rw [hs] at k6; cases k6
      | optNode c => rw [hs] at k6; cases k6
      | nodes k => rw [hs] at k6; cases k6

/-- **every semantic action re-establishes the span invariant of the stack** -/
theorem act_spans (hT : TokAct TI) {np : NestedParse}
    (hW : ∀ F st, WordSat (StP TI len F st) np len)
    {p lhs : Nat} {rhs : List Nat} {rest args : List (Nat × SVal)} {la : Option (Nat × SVal)}
    (hprod : realTables.prods[p]? = some (lhs, rhs)) (hargs : args.map (·.1) = rhs)
    (hrest : RestHint realTables rest lhs) (hla : LaHint realTables la p) {σ : Srt}
    (hab : absAction (fn p) (rhs.map sortOfSymbol) = some σ)
    (ha : Forall2 HasSort (rhs.map sortOfSymbol) (args.map (·.2))) :
    SatS (actionCore np (fn p) (args.map (·.2))) (SIs TI len (rest ++ args) la)
      (PostS TI len rest lhs la) := by
  have hk := prod_ok hprod
  generalize hf : fn p = fname at hab hk
  obtain ⟨s1, s3⟩ := syms_of_prodOK hk hargs
  -- the generic cases: a look-ahead token is present and starts within the input
  have strong : dfltFuncs.contains fname = false →
      (∀ F st f g, SegV true len f (args.map (·.2)) g → (∀ v ∈ args.map (·.2), Fresh len st v) →
        Keeps (StP TI len F st) (actionCore np fname (args.map (·.2))) (Res len f g st)) →
      SatS (actionCore np fname (args.map (·.2))) (SIs TI len (rest ++ args) la)
        (PostS TI len rest lhs la) := by
    intro h1 hK
    have hnin : (fname == "p_inputunit") = false := by
      cases hx : fname == "p_inputunit" with
      | false => rfl
      | true =>
        rw [beq_iff_eq] at hx
        rw [hx] at h1
        exact absurd h1 (by decide)
    exact lift_res (s := true) (fun F st f g hs hfr _ => hK F st f g hs hfr) s1
      (fun _ g F hl => la_range hla (by rw [hf]; exact h1) hl) (s3 hnin)
  have weak : (fname == "p_inputunit") = false →
      (∀ F st f g, SegV false len f (args.map (·.2)) g → (∀ v ∈ args.map (·.2), Fresh len st v) →
        Keeps (StP TI len F st) (actionCore np fname (args.map (·.2))) (Res len f g st)) →
      SatS (actionCore np fname (args.map (·.2))) (SIs TI len (rest ++ args) la)
        (PostS TI len rest lhs la) := by
    intro h2 hK
    exact lift_res (s := false) (fun F st f g hs hfr _ => hK F st f g hs hfr) s1
      (fun h => by cases h) (s3 h2)
  unfold absAction at hab
  split at hab
  · -- p_inputunit
    refine SatS.intro_state ?_
    rintro l e ⟨g, F, hseg, hlain, hti, hent⟩
    obtain ⟨m, hrs, has⟩ := Seg.split hseg
    refine SatS.weaken (keeps_inputunit (len := len) hT (F := F) (st := l.store)) ?_ ?_ (fun _ h => h)
    · rintro l1 e1 ⟨rfl, rfl⟩; exact ⟨hti, rfl⟩
    · rintro r l' e' ⟨⟨hti', hst'⟩, hr⟩
      unfold PostS
      rcases hr with rfl | ⟨n, rfl, hn⟩
      · simp only [Bool.false_eq_true, if_false]
        refine ⟨g, F, Seg.append hrs (seg_single.mpr (show m ≤ g from has.le)), hlain, hti', ?_⟩
        intro x hx
        rw [hst']
        rcases List.mem_append.mp hx with hx | hx
        · exact hent x (List.mem_append_left _ hx)
        · simp only [List.mem_singleton] at hx; subst hx; exact Or.inl fresh_none
      · simp only [if_true]
        cases hargs' : args with
        | nil => rw [hargs'] at hn; simp at hn
        | cons x xs =>
          rw [hargs'] at hn has hent
          simp only [List.map_cons, List.head?_cons, Option.some.injEq] at hn
          obtain ⟨m', hx, _⟩ := has
          obtain ⟨sym, v⟩ := x
          simp only at hn
          subst hn
          have hex := hent (sym, .node n) (by simp)
          rw [← hst'] at hex
          exact fin_of_entry hx hex
  · exact strong (by decide) (fun F st f g hs hfr => sp_word_list (hW F st) hab ha hs hfr)
  · -- p_redirection_heredoc
    obtain ⟨x, s, hlax, _⟩ := la_present hla (by rw [hf]; decide)
    refine SatS.intro_state ?_
    rintro l e ⟨g, F, hseg, hlain, hti, hent⟩
    obtain ⟨m, hrs, has⟩ := Seg.split hseg
    have hsegV := segV_of_seg (s := true) has s1
      (fun _ => la_range hla (by rw [hf]; decide) hlain)
    have hgF : g < F := by rw [hlax] at hlain; exact laIn_lt hlain
    have hlast : ∀ s, (rhs.map sortOfSymbol).getLast? = some s → s = .tok (some .WORD) := by
      intro s0 hs0
      have hh := heredoc_prod_ok hprod
      rw [hf] at hh
      unfold heredocProdOK at hh
      simp only [bne_self_eq_false, Bool.false_or] at hh
      rw [List.getLast?_map] at hs0
      cases hl : rhs.getLast? with
      | none => rw [hl] at hs0; cases hs0
      | some y =>
        rw [hl] at hs0 hh
        simp only [Option.map_some, Option.some.injEq] at hs0
        rw [← hs0]
        simpa using hh
    refine SatS.weaken (sp_redirection_heredoc hT (F := F) (st := l.store) hab hlast ha hsegV hgF)
      ?_ ?_ (fun _ h => h)
    · rintro l1 e1 ⟨rfl, rfl⟩; exact ⟨hti, rfl⟩
    · rintro r l' e' ⟨cell, hti', hst', hres, hfr, hacc⟩
      unfold PostS
      rw [hacc]
      simp only [Bool.false_eq_true, if_false]
      refine ⟨g, F, Seg.append hrs (seg_single.mpr (valIn_of_valInV hres (Or.inl rfl))), hlain,
        hti', ?_⟩
      intro y hy
      rw [hst']
      rcases List.mem_append.mp hy with hy | hy
      · exact entryOK_append (hent y (List.mem_append_left _ hy))
      · simp only [List.mem_singleton] at hy; subst hy; exact Or.inl hfr
  · exact strong (by decide) (fun F st f g hs hfr => sp_redirection (hW F st) hab ha hs hfr)
  · exact strong (by decide)
      (fun F st f g hs hfr => sp_simple_command_element (hW F st) hab ha hs hfr)
  · exact strong (by decide) (fun F st f g hs hfr => sp_redirection_list hab ha hs hfr)
  · exact strong (by decide) (fun F st f g hs hfr => sp_simple_command hab ha hs hfr)
  · exact strong (by decide) (fun F st f g hs hfr => sp_command hab ha hs hfr)
  · exact strong (by decide) (fun F st f g hs hfr => sp_shell_command (hW F st) hab ha hs hfr)
  · exact strong (by decide) (fun F st f g hs hfr => sp_for_command (hW F st) hs hfr)
  · exact strong (by decide) (fun F st f g hs hfr => sp_arith_for_command (hW F st) hs hfr)
  · exact strong (by decide) (fun F st f g hs hfr => sp_select_command (hW F st) hs hfr)
  · exact strong (by decide) (fun F st f g hs hfr => sp_case_command (hW F st) hs hfr)
  · exact strong (by decide) (fun F st f g hs hfr => sp_function_def (hW F st) hs hfr)
  · exact strong (by decide) (fun F st f g hs hfr => sp_function_body hab ha hs hfr)
  · exact strong (by decide) (fun F st f g hs hfr => sp_subshell hab ha hs hfr)
  · exact strong (by decide) (fun F st f g hs hfr => sp_group_command hab ha hs hfr)
  · exact strong (by decide) (fun F st f g hs hfr => sp_coproc (hW F st) hs hfr)
  · exact strong (by decide) (fun F st f g hs hfr => sp_if_command (hW F st) hs hfr)
  · exact strong (by decide) (fun F st f g hs hfr => sp_arith_command (hW F st) hs hfr)
  · exact strong (by decide) (fun F st f g hs hfr => sp_cond_command (hW F st) hs hfr)
  · obtain ⟨e1, e2⟩ := elif_facts hk ha
    exact weak (by decide) (fun F st f g hs hfr => sp_elif_clause hs hfr e1 e2)
  · exact strong (by decide) (fun F st f g hs hfr => sp_case_clause hab ha hs hfr)
  · exact strong (by decide) (fun F st f g hs hfr => sp_pattern_list hab ha hs hfr)
  · exact strong (by decide)
      (fun F st f g hs hfr => sp_case_clause_sequence hab ha hs hfr)
  · exact strong (by decide) (fun F st f g hs hfr => sp_pattern (hW F st) hab ha hs hfr)
  · exact strong (by decide) (fun F st f g hs hfr => sp_list hab ha hs hfr)
  · exact strong (by decide) (fun F st f g hs hfr => sp_compound_list hab ha hs hfr)
  · exact lift_res (s := true)
      (fun F st f g hs hfr hl => sp_list0 hab ha (SegV.weak hs) hfr
        (la_range hla (by rw [hf]; decide) hl)) s1
      (fun _ g F hl => la_range hla (by rw [hf]; decide) hl) (s3 (by decide))
  · exact strong (by decide) (fun F st f g hs hfr => sp_list1 hab ha (SegV.weak hs) hfr)
  · exact weak (by decide) (fun F st f g hs hfr => sp_simple_list_terminator hs)
  · exact strong (by decide) (fun F st f g hs hfr => sp_list_terminator hs)
  · exact strong (by decide) (fun F st f g hs hfr => sp_newline_list (SegV.weak hs))
  · -- p_simple_list
    obtain ⟨x, s, hlax, _⟩ := la_present hla (by rw [hf]; decide)
    have hlhs : lhs = slSym := by
      unfold prodOK at hk
      simp only [Bool.and_eq_true, Bool.or_eq_true, Bool.not_eq_true', beq_iff_eq] at hk
      rcases hk.1.1.2 with h | h
      · simp at h
      · exact h
    have hrest0 : rest = [] := by
      rcases hrest with h | ⟨s', t, hs', hg⟩
      · exact h
      · rw [hlhs] at hg; exact absurd (goto_sl hg) hs'
    subst hrest0
    refine SatS.intro_state ?_
    rintro l e ⟨g, F, hseg, hlain, hti, hent⟩
    simp only [List.nil_append] at hseg hent ⊢
    have hsegV := segV_of_seg (s := true) hseg s1
      (fun _ => la_range hla (by rw [hf]; decide) hlain)
    have hfresh := fresh_of_entries (st := l.store) hent (s3 (by decide))
    have hgF : g < F := by rw [hlax] at hlain; exact laIn_lt hlain
    refine SatS.weaken (sp_simple_list hT (F := F) (st := l.store) hab ha hsegV hfresh)
      ?_ ?_ (fun _ h => h)
    · rintro l1 e1 ⟨rfl, rfl⟩; exact ⟨hti, rfl⟩
    · rintro r l' e' ⟨hti', hstep, n, hr, hn, hfn⟩
      have hdone : Done len g l'.store n :=
        fun m hm => doneN_gather hstep hgF (hfn m hm) (hn.pend m hm)
      obtain ⟨r1, r2⟩ := r
      simp only at hr
      subst hr
      unfold PostS
      by_cases hacc : r2 = true
      · simp only [hacc, if_true]
        intro n' hn'
        cases hn'
        refine ⟨hn.strict, ?_, hn.sld, g, hn.ends, hdone⟩
        rcases hn.root with h1 | h1
        · exact Or.inl h1
        · exact Or.inr h1.2
      · simp only [hacc, if_false]
        refine ⟨g, F, seg_single.mpr (show NodeIn len 0 n g from hn), hlain, hti', ?_⟩
        intro y hy
        simp only [List.nil_append, List.mem_singleton] at hy
        subst hy
        refine Or.inr ⟨hlhs, ?_, ?_⟩
        · intro n' hn' m hm id p hp
          simp [svNodes] at hn'
          subst hn'
          obtain ⟨c, hc, _⟩ := hfn m hm id p hp
          have hlt : id < l'.store.length := by
            rw [hstep.1]; exact (List.getElem?_eq_some_iff.mp hc).1
          exact ⟨l'.store[id], List.getElem?_eq_getElem hlt⟩
        · intro n' hn'
          simp [svNodes] at hn'
          subst hn'
          exact ⟨g, hn.ends, hdone⟩
  · exact strong (by decide) (fun F st f g hs hfr =>
      sp_simple_list1 hab ha (SegV.weak hs) hfr)
  · exact strong (by decide) (fun F st f g hs hfr =>
      sp_pipeline_command hab ha hs hfr (pipeline_facts hk ha))
  · exact strong (by decide) (fun F st f g hs hfr =>
      sp_pipeline hab ha (SegV.weak hs) hfr)
  · exact strong (by decide) (fun F st f g hs hfr => sp_timespec (hW F st) hs hfr)
  · exact strong (by decide) (fun F st f g hs hfr => sp_empty hs)
  · cases hab

/-! ## the hooks of the real parser are closed under the engine's moves -/

theorem forall2_vi : ∀ (args : List (Nat × SVal)), (∀ x ∈ args, VI x.1 x.2) →
    Forall2 VI (args.map (·.1)) (args.map (·.2))
  | [], _ => .nil
  | x :: xs, h => .cons (h x List.mem_cons_self)
      (forall2_vi xs (fun y hy => h y (List.mem_cons_of_mem _ hy)))

theorem forall2_hasSort_of_vi : ∀ {rhs : List Nat} {vals : List SVal}, Forall2 VI rhs vals →
    Forall2 HasSort (rhs.map sortOfSymbol) vals := by
  intro rhs vals h
  induction h with
  | nil => exact .nil
  | cons h1 _ ih => exact .cons h1 ih

theorem tokAt_valIn {g F a b : Nat} {t : Token} (h : TokAt len t a b) (hga : g ≤ a) (hbF : b ≤ F) :
    ValIn len g (symOfTok t, SVal.tok t) F := by
  obtain ⟨hab, h4⟩ := h
  refine ⟨by omega, ?_⟩
  rcases h4 with ⟨h4, hv⟩ | ⟨hp, _, hw⟩
  · exact Or.inl ⟨symOfTok_eof h4, hv⟩
  · exact Or.inr ⟨a, b, hp, hga, hab, hbF, hw⟩

theorem lrHooks_act (np : NestedParse) (p : Nat) (args : List SVal) :
    (lrHooks np).act p args = action np (fn p) args := rfl

theorem spans_hooks (hT : TokSpans TI) {np : NestedParse} (hnp : NPOK np)
    (hW : ∀ F st, WordSat (StP TI len F st) np len) :
    HooksOrd realTables (lrHooks np) (SI TI len) (Fin len) (fun _ => True) := by
  have hC := hooks_ok sat_nextToken hnp
  refine ⟨?_, ?_, ?_, ?_, ?_, fun la => Sat.trivial _⟩
  · -- next
    intro vs
    have h1 : SatS (lrHooks np).next (SI TI len vs none)
        (fun la l e => SIs TI len vs (some la) l e ∧ ∀ x ∈ vs, VI x.1 x.2) := by
      refine SatS.intro_state ?_
      rintro l e ⟨⟨g, F, hseg, hlain, hti, hent⟩, hvi, _⟩
      show SatS (nextToken >>= fun t => pure (symOfTok t, SVal.tok t)) _ _
      refine SatS.bind (SatS.pre (hT.next len F l.store) ?_) ?_
      · rintro l1 e1 ⟨rfl, rfl⟩; exact ⟨hti, rfl⟩
      · intro t
        refine SatS.pure ?_
        rintro l' e' ⟨a, b, hFa, htok, hti', hstep⟩
        refine ⟨⟨g, b, hseg, ⟨t, a, b, rfl, ?_, Nat.le_refl _, htok⟩, hti', ?_⟩, hvi⟩
        · have : g ≤ F := hlain
          omega
        · intro x hx; exact entryOK_step hstep (hent x hx)
    refine SatS.post (SatS.and_sat h1 hC.next) ?_
    rintro la l e ⟨⟨hs, hvi⟩, hla⟩
    exact ⟨hs, hvi, by intro x hx; cases hx; exact hla⟩
  · -- shift
    rintro vs la l e ⟨⟨g, F, hseg, hlain, hti, hent⟩, hvi, hvila⟩
    obtain ⟨t, a, b, rfl, hga, hbF, htok⟩ := hlain
    refine ⟨⟨F, F, Seg.append hseg (seg_single.mpr (tokAt_valIn htok hga hbF)), Nat.le_refl F, hti, ?_⟩,
      ?_, by intro x hx; cases hx⟩
    · intro x hx
      rcases List.mem_append.mp hx with hx | hx
      · exact hent x hx
      · simp only [List.mem_singleton] at hx; subst hx; exact Or.inl fresh_tok
    · intro x hx
      rcases List.mem_append.mp hx with hx | hx
      · exact hvi x hx
      · simp only [List.mem_singleton] at hx; subst hx; exact hvila _ rfl
  · -- a NEWLINE shifted in state 0 is dropped
    rintro la l e ⟨⟨g, F, hseg, hlain, hti, hent⟩, hvi, hvila⟩
    exact ⟨⟨0, F, Nat.le_refl 0, Nat.zero_le F, hti, (by intro x hx; cases hx)⟩,
      ⟨(by intro x hx; cases hx), (by intro x hx; cases hx)⟩⟩
  · -- the semantic actions
    intro p lhs rhs rest args la hprod hargs hrest hla
    rw [lrHooks_act]
    refine SatS.intro_state ?_
    rintro l0 e0 ⟨hs0, hvi, hvila⟩
    have hvargs : ∀ x ∈ args, VI x.1 x.2 := fun x hx => hvi x (List.mem_append_right _ hx)
    have hvrest : ∀ x ∈ rest, VI x.1 x.2 := fun x hx => hvi x (List.mem_append_left _ hx)
    have hF2 : Forall2 VI rhs (args.map (·.2)) := by rw [← hargs]; exact forall2_vi args hvargs
    have hCact := hC.act p lhs rhs _ hprod hF2
    -- the grammar obligation of C12: the action is well-sorted
    have hp' : Gen.prodTable[p]? = some (lhs, rhs) := hprod
    have hlt : p < Gen.prodFuncs.length := by
      rw [prodFuncs_length]; exact (List.getElem?_eq_some_iff.mp hp').1
    have hfn : Gen.prodFuncs[p]? = some (fn p) := by
      simp [fn, List.getD_eq_getElem?_getD, List.getElem?_eq_getElem hlt]
    have hz : (List.zip Gen.prodFuncs Gen.prodTable)[p]? = some (fn p, (lhs, rhs)) :=
      List.getElem?_zip_eq_some.mpr ⟨hfn, hp'⟩
    have hg := grammar_ok
    unfold grammarCheck at hg
    have hthis := List.all_eq_true.mp hg _ (List.mem_of_getElem? hz)
    simp only [Bool.or_eq_true, beq_iff_eq] at hthis
    rcases hthis with he | hab
    · rw [he]
      exact SatS.weaken (SatS.of_sat action_unknown _) (fun _ _ _ => trivial)
        (fun _ _ _ h => h.elim) (fun _ h => h)
    · have hspan := satS_action_of_core (act_spans (len := len) hT.act hW hprod hargs hrest hla hab
        (forall2_hasSort_of_vi hF2))
      refine SatS.weaken (SatS.and_sat hspan
        (hCact.weaken (fun _ h => h.1) (fun _ _ => trivial))) ?_ ?_ (fun _ h => h)
      · rintro l e ⟨rfl, rfl⟩; exact hs0
      · rintro r l e ⟨hpost, hvr⟩
        unfold PostS at hpost
        by_cases hacc : r.2 = true
        · simp only [hacc, if_true] at hpost ⊢
          exact hpost
        · simp only [hacc, if_false] at hpost ⊢
          refine ⟨hpost, ?_, hvila⟩
          intro x hx
          rcases List.mem_append.mp hx with hx | hx
          · exact hvrest x hx
          · simp only [List.mem_singleton] at hx; subst hx; exact hvr
  · -- the `accept` entry
    rintro vs x la l e ⟨⟨g, F, hseg, hlain, hti, hent⟩, _⟩
    obtain ⟨m, _, hx⟩ := Seg.split hseg
    obtain ⟨sym, v⟩ := x
    exact fin_of_entry (seg_single.mp hx) (hent (sym, v) (by simp))

end

end Bashlex.C03
