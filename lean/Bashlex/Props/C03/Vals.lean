/-
  C03, part 4: the semantic actions' view of their arguments (`SegV`: a list of semantic values
  occupying consecutive intervals, tokens positioned), the contract of `expandword`
  (`WordAt`, `WordSat`) and the helper functions of parser.py (`nodePos`, `_partsspan`,
  `_makeparts`, ...), in the state-aware logic.
-/
import Bashlex.Props.C03.Hyp
import Bashlex.Props.C12.Actions

namespace Bashlex.C03
open Bashlex Bashlex.Spec Bashlex.Node Bashlex.M Bashlex.LR
set_option linter.unusedSimpArgs false
set_option linter.unusedVariables false

/-! ## values as the actions see them -/

/-- a positioned token occupying `[f, g]`; `strong`: it also ends within the input -/
def TokInV (strong : Bool) (len f : Nat) (t : Token) (g : Nat) : Prop :=
  ∃ a b, t.pos = some (a, b) ∧ f ≤ a ∧ a < b ∧ b ≤ g ∧ (strong = true → b ≤ len) ∧ WNE t

def ValInV (s : Bool) (len f : Nat) (v : SVal) (g : Nat) : Prop :=
  match v with
  | .none => f ≤ g
  | .tok t => TokInV s len f t g
  | .node n => NodeIn len f n g
  | .nodes l => l ≠ [] ∧ ListIn len f l g

theorem ValInV.le {s : Bool} {len f g : Nat} {v : SVal} (h : ValInV s len f v g) : f ≤ g := by
  cases v with
  | none => exact h
  | tok t => obtain ⟨a, b, _, h1, h2, h3, _⟩ := h; omega
  | node n => exact NodeIn.le h
  | nodes l => exact ListIn.le h.2

theorem ValInV.mono {s : Bool} {len f f' g g' : Nat} {v : SVal} (h : ValInV s len f v g)
    (hf : f' ≤ f) (hg : g ≤ g') : ValInV s len f' v g' := by
  cases v with
  | none => have : f ≤ g := h; show f' ≤ g'; omega
  | tok t =>
    obtain ⟨a, b, hp, h1, h2, h3, h4⟩ := h
    exact ⟨a, b, hp, by omega, h2, by omega, h4⟩
  | node n => exact NodeIn.mono h hf hg
  | nodes l => exact ⟨h.1, ListIn.mono h.2 hf hg⟩

def SegV (s : Bool) (len : Nat) : Nat → List SVal → Nat → Prop
  | f, [], g => f ≤ g
  | f, x :: xs, g => ∃ m, ValInV s len f x m ∧ SegV s len m xs g

theorem SegV.le {s : Bool} {len : Nat} : ∀ {xs : List SVal} {f g : Nat}, SegV s len f xs g → f ≤ g
  | [], _, _, h => h
  | x :: xs, f, g, h => by
    obtain ⟨m, h1, h2⟩ := h
    have := h1.le
    have := SegV.le h2
    omega

theorem SegV.mono {s : Bool} {len : Nat} : ∀ {xs : List SVal} {f f' g g' : Nat},
    SegV s len f xs g → f' ≤ f → g ≤ g' → SegV s len f' xs g'
  | [], f, f', g, g', h, hf, hg => by
    have : f ≤ g := h
    show f' ≤ g'
    omega
  | x :: xs, f, f', g, g', h, hf, hg => by
    obtain ⟨m, h1, h2⟩ := h
    exact ⟨m, h1.mono hf (Nat.le_refl _), SegV.mono h2 (Nat.le_refl _) hg⟩

theorem tokInV_strong {len f g : Nat} {t : Token} (h : TokInV false len f t g) (hg : g ≤ len) :
    TokInV true len f t g := by
  obtain ⟨a, b, hp, ha, hab, hb, _, hw⟩ := h
  exact ⟨a, b, hp, ha, hab, hb, (fun _ => by omega), hw⟩

theorem ValInV.weak {len f g : Nat} {v : SVal} (h : ValInV true len f v g) : ValInV false len f v g := by
  cases v with
  | none => exact h
  | node n => exact h
  | nodes l => exact h
  | tok t =>
    obtain ⟨a, b, hp, h1, h2, h3, h4, hw⟩ := h
    exact ⟨a, b, hp, h1, h2, h3, (fun hc => by cases hc), hw⟩

theorem SegV.weak {len : Nat} : ∀ {xs : List SVal} {f g : Nat}, SegV true len f xs g →
    SegV false len f xs g
  | [], _, _, h => h
  | x :: xs, f, g, h => by
    obtain ⟨m, h1, h2⟩ := h
    exact ⟨m, h1.weak, SegV.weak h2⟩

theorem segV_single {s : Bool} {len f g : Nat} {x : SVal} :
    SegV s len f [x] g ↔ ValInV s len f x g := by
  constructor
  · rintro ⟨m, h1, h2⟩
    have : m ≤ g := h2
    exact h1.mono (Nat.le_refl _) this
  · intro h
    exact ⟨g, h, Nat.le_refl g⟩

/-- from the stack's view to the actions' view: the tokens of a right-hand side without `$end`
    are positioned; if everything on the stack ends within the input (`g ≤ len`, which the
    look-ahead gives), so do they -/
theorem segV_of_seg {s : Bool} {len : Nat} : ∀ {xs : List (Nat × SVal)} {f g : Nat},
    Seg len f xs g → (∀ x ∈ xs, x.1 ≠ eofSym) → (s = true → g ≤ len) →
    SegV s len f (xs.map (·.2)) g
  | [], _, _, h, _, _ => h
  | x :: xs, f, g, h, hs, hg => by
    obtain ⟨m, h1, h2⟩ := h
    have hmg : m ≤ g := Seg.le h2
    refine ⟨m, ?_, segV_of_seg h2 (fun y hy => hs y (List.mem_cons_of_mem _ hy)) hg⟩
    obtain ⟨sym, v⟩ := x
    have hx := hs (sym, v) List.mem_cons_self
    cases v with
    | none => exact h1
    | node n => exact h1
    | nodes l => exact h1
    | tok t =>
      obtain ⟨hle, h3⟩ := h1
      rcases h3 with h3 | ⟨a, b, hp, ha, hab, hb, hw⟩
      · exact absurd h3.1 hx
      · exact ⟨a, b, hp, ha, hab, hb, (fun hst => by have := hg hst; omega), hw⟩

theorem valIn_of_valInV {s : Bool} {len f g sym : Nat} {v : SVal} (h : ValInV s len f v g)
    (hs : s = true ∨ ∀ t, v ≠ .tok t) : ValIn len f (sym, v) g := by
  cases v with
  | none => exact h
  | node n => exact h
  | nodes l => exact h
  | tok t =>
    rcases hs with hs | hs
    · obtain ⟨a, b, hp, ha, hab, hb, hr, hw⟩ := h
      exact ⟨by omega, Or.inr ⟨a, b, hp, ha, hab, hb, hw⟩⟩
    · exact absurd rfl (hs t)

/-! ## no pending redirects -/

theorem pendShape_of_none {m : Node} (h : pendOf m = none) : pendShape m := by
  cases m with
  | redirect p i t o oa hd hid =>
    cases hid with
    | none => trivial
    | some id => simp [pendOf] at h
  | _ => trivial

theorem NoPend.pendAll {n : Node} (h : NoPend n) : PendAll n :=
  fun m hm => pendShape_of_none (h m hm)

theorem NoPend.fresh {len : Nat} {st : List RedirCell} {n : Node} (h : NoPend n) : FreshT len st n := by
  intro m hm id p hp
  rw [h m hm] at hp
  cases hp

theorem noPend_leaf {n : Node} (h : n.children = []) (hp : pendOf n = none) : NoPend n :=
  noPend_iff.mpr ⟨hp, by intro c hc; rw [h] at hc; cases hc⟩

/-! ## the contract of `expandword` -/

/-- `expandword` returns a word node at the token's span; if the token is positioned and ends
    within the input, the node (with its expansion parts and the nodes of nested parses) is fine,
    lies within the token's span, and holds no pending redirect -/
def WordAt (len : Nat) (t : Token) (w : Node) : Prop :=
  (∃ s ps, w = .word (t.lexpos, t.endlexpos) s ps) ∧
  ∀ a b, t.pos = some (a, b) → a < b → b ≤ len → NodeIn len a w b ∧ NoPend w

def WordSat (P : Local → Env → Prop) (np : NestedParse) (len : Nat) : Prop :=
  ∀ t, Keeps P (expandword np t) (WordAt len t)

theorem tok_lexspan {t : Token} {a b : Nat} (h : t.pos = some (a, b)) :
    t.lexpos = a ∧ t.endlexpos = b := by
  simp [Token.lexpos, Token.endlexpos, h]

/-- the word node of a positioned token, as a value -/
theorem WordAt.nodeIn {s : Bool} {len f g : Nat} {t : Token} {w : Node} (h : WordAt len t w)
    (ht : TokInV s len f t g) (hs : s = true) : NodeIn len f w g ∧ NoPend w := by
  obtain ⟨a, b, hp, ha, hab, hb, hr, hw⟩ := ht
  obtain ⟨h1, h2⟩ := h.2 a b hp hab (hr hs)
  exact ⟨h1.mono ha hb, h2⟩

/-! ## leaves built from tokens -/

theorem nodeIn_reservedword {len f g : Nat} {t : Token} {w : Str} (ht : TokInV true len f t g) :
    NodeIn len f (.reservedword (t.lexpos, t.endlexpos) w) g ∧
      NoPend (.reservedword (t.lexpos, t.endlexpos) w) := by
  obtain ⟨a, b, hp, ha, hab, hb, hr, hw⟩ := ht
  obtain ⟨h1, h2⟩ := tok_lexspan hp
  rw [h1, h2]
  exact ⟨nodeIn_leaf rfl rfl rfl ha hab hb (hr rfl) trivial, noPend_leaf rfl rfl⟩

theorem nodeIn_operator {len f g : Nat} {t : Token} {w : Str} (ht : TokInV true len f t g) :
    NodeIn len f (.operator (t.lexpos, t.endlexpos) w) g ∧
      NoPend (.operator (t.lexpos, t.endlexpos) w) := by
  obtain ⟨a, b, hp, ha, hab, hb, hr, hw⟩ := ht
  obtain ⟨h1, h2⟩ := tok_lexspan hp
  rw [h1, h2]
  exact ⟨nodeIn_leaf rfl rfl rfl ha hab hb (hr rfl) trivial, noPend_leaf rfl rfl⟩

theorem nodeIn_pipe {len f g : Nat} {t : Token} {w : Str} (ht : TokInV true len f t g) :
    NodeIn len f (.pipe (t.lexpos, t.endlexpos) w) g ∧
      NoPend (.pipe (t.lexpos, t.endlexpos) w) := by
  obtain ⟨a, b, hp, ha, hab, hb, hr, hw⟩ := ht
  obtain ⟨h1, h2⟩ := tok_lexspan hp
  rw [h1, h2]
  exact ⟨nodeIn_leaf rfl rfl rfl ha hab hb (hr rfl) trivial, noPend_leaf rfl rfl⟩

/-! ## `nodePos`, `_partsspan` -/

section
variable {TI : Nat → Nat → Local → Env → Prop} {len F : Nat} {st : List RedirCell}

theorem keeps_nodePos (n : Node) :
    Keeps (StP TI len F st) (nodePos n) (fun sp => sp = posIn st n) := by
  cases n with
  | redirect p i t o oa hd hid =>
    cases hid with
    | none => exact Keeps.pure rfl
    | some id =>
      unfold nodePos
      simp only []
      refine Keeps.bind Keeps.get ?_
      rintro l ⟨e, _, hst⟩
      rw [hst]
      simp only [posIn]
      cases st[id]? with
      | none => exact Keeps.pure rfl
      | some c => exact Keeps.pure rfl
  | _ => exact Keeps.pure rfl

theorem keeps_nodePos_fresh {n : Node} (h : FreshT len st n) :
    Keeps (StP TI len F st) (nodePos n) (fun sp => sp = n.pos) :=
  (keeps_nodePos n).weaken (fun sp hsp => by rw [hsp, posIn_fresh h])

theorem keeps_partsspan {parts : List Node} (h : ∀ n ∈ parts, FreshT len st n) :
    Keeps (StP TI len F st) (partsspan parts)
      (fun sp => ∃ a b, parts.head? = some a ∧ parts.getLast? = some b ∧ sp = (a.pos.1, b.pos.2)) := by
  unfold partsspan
  cases ha : parts.head? with
  | none => exact Keeps.foreign trivial
  | some a =>
    cases hb : parts.getLast? with
    | none => exact Keeps.foreign trivial
    | some b =>
      simp only []
      refine Keeps.bind (keeps_nodePos_fresh (h a (List.mem_of_mem_head? ha))) ?_
      intro sa hsa
      refine Keeps.bind (keeps_nodePos_fresh (h b (List.mem_of_getLast? hb))) ?_
      intro sb hsb
      exact Keeps.pure ⟨a, b, rfl, rfl, by rw [hsa, hsb]⟩

theorem keeps_handleAssert (b : Bool) :
    Keeps (StP TI len F st) (handleAssert b) (fun _ => b = true) := by
  unfold handleAssert
  split
  · exact Keeps.pure ‹_›
  · exact Keeps.foreign trivial

end

end Bashlex.C03
