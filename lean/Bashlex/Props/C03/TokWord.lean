/-
  C03, token source, part 4: `_readtokenword` from a `W` state.  A second walk (`q_walk`) for
  triples with an arbitrary post-condition; the loop of `_readtokenword` keeps "the character in
  hand was read: the cursor is at 1 or beyond" and leaves through `_ungetc(c)`.
-/
import Bashlex.Props.C03.TokTokenizer

namespace Bashlex.C03.Tok
open Bashlex Bashlex.M Bashlex.C10 Bashlex.C11
set_option linter.unusedSimpArgs false
set_option linter.unusedVariables false



/-- bind after a computation with a `SatW` triple, towards an arbitrary post-condition -/
theorem QW.bind {α β : Type} {I I' : Local → Env → Prop} {m : M α} {f : α → M β}
    {Q : β → Local → Env → Prop} (hm : SatW I I' m (fun _ => True))
    (hf : ∀ a, HT I' (f a) Q ET) : HT I (m >>= f) Q ET :=
  HT.bind hm (fun a => HT.pre_pure (fun _ => hf a))

theorem QW.bindSame {α β : Type} {I : Local → Env → Prop} {m : M α} {f : α → M β}
    {Q : β → Local → Env → Prop} (hm : SatW I I m (fun _ => True))
    (hf : ∀ a, HT I (f a) Q ET) : HT I (m >>= f) Q ET := QW.bind hm hf

theorem QW.drop1 {α : Type} {L : Str} {sr : List RedirCell} {rk : List (Nat × Bool)}
    {ps : List Nat} {k : Nat} {m : M α} {Q : α → Local → Env → Prop}
    (h : HT (W L sr rk ps k) m Q ET) : HT (W L sr rk ps (k + 1)) m Q ET :=
  HT.pre h (fun _ _ h => h.mono (Nat.le_succ k))

theorem QW.modify {I : Local → Env → Prop} {β : Type} {f : Local → Local} {k : Unit → M β}
    {Q : β → Local → Env → Prop} (h : ∀ l e, I l e → I (f l) e) (hk : HT I (k ()) Q ET) :
    HT I (_root_.modify f >>= k) Q ET :=
  HT.bind (Q := fun _ l e => I l e) (HT.modify h) (fun _ => hk)

/-- leaves of a `q_walk` (extended per function) -/
syntax "q_leaf" : tactic
macro_rules | `(tactic| q_leaf) => `(tactic| assumption)
macro_rules | `(tactic| q_leaf) => `(tactic|
  ((with_reducible refine HT.pure ?_); (intro _ _ h; exact W.mono h (by omega))))

/-- one step of the walk towards an arbitrary post-condition -/
macro "q_step" : tactic => `(tactic| first
  | jp_step
  | with_reducible refine HT.ite (fun _ => ?_) (fun _ => ?_)
  | with_reducible refine HTQAt.ite (fun _ => ?_) (fun _ => ?_)
  | with_reducible refine HTQAt.ite_bind (fun _ => ?_) (fun _ => ?_)
  | q_leaf
  | with_reducible use_hyp
  | with_reducible refine QW.bind (getc_up _ (by omega)) (fun _ => ?_)
  | with_reducible refine QW.bind (ungetc_down _) (fun _ => ?_)
  | with_reducible refine HT.get_bind (fun _ => ?_)
  | ((with_reducible refine QW.modify ?_ ?_); focus (intro _ _ h; exact h))
  | ((with_reducible refine HTQAt.set_bind ?_ ?_); focus (intro _ h; exact h))
  | with_reducible exact HTQAt.foreign_bind True.intro
  | with_reducible exact HTQAt.foreign True.intro
  | with_reducible refine HTQAt.pure_bind ?_
  | split_head
  | with_reducible refine HTQAt.ofHT ?_
  | with_reducible exact HT.foreign True.intro
  | with_reducible exact HT.raise True.intro
  | ((with_reducible refine QW.bindSame ?_ (fun _ => ?_)); focus (with_reducible w_atom; done))
  | ((with_reducible refine QW.drop1 ?_); (with_reducible refine QW.bindSame ?_ (fun _ => ?_));
     focus (with_reducible w_atom; done))
  | ((with_reducible refine QW.bindSame ?_ (fun _ => ?_)); focus (w_walk; done)))

macro "q_walk" : tactic => `(tactic| repeat' q_step)

variable {L : Str} {sr : List RedirCell} {rk : List (Nat × Bool)} {ps : List Nat}

/-- the post-condition of one iteration of `_readtokenword`'s loop -/
def StepQ (L : Str) (sr : List RedirCell) (rk : List (Nat × Bool)) (ps : List Nat)
    (r : RWState ⊕ RWState) (l : Local) (e : Env) : Prop :=
  match r with
  | .inl _ => W L sr rk ps 1 l e
  | .inr _ => W L sr rk ps 0 l e

set_option maxHeartbeats 1000000 in
theorem rtwStep_w (h2 : 2 ≤ L.length) (st : RWState) :
    HT (W L sr rk ps (0 + 1)) (readtokenwordStep st) (StepQ L sr rk ps) ET := by
  unfold readtokenwordStep
  simp only []
  q_walk

end Bashlex.C03.Tok

namespace Bashlex.C03.Tok
open Bashlex Bashlex.M Bashlex.C10 Bashlex.C11
set_option linter.unusedSimpArgs false
set_option linter.unusedVariables false



variable {L : Str} {sr : List RedirCell} {rk : List (Nat × Bool)} {ps : List Nat} {k : Nat}

/-- the loop of `_readtokenword`: entered with the first character read (cursor ≥ 1) -/
theorem rtwLoop_w (h2 : 2 ≤ L.length) (fuel : Nat) (st : RWState) :
    HT (W L sr rk ps 1) (M.loop "_readtokenword" readtokenwordStep fuel st)
      (fun _ l e => W L sr rk ps 0 l e) ET := by
  refine HT.loop (I := fun _ l e => W L sr rk ps 1 l e) True.intro (fun s => ?_) fuel st
  refine HT.post (rtwStep_w h2 s) ?_
  intro r l e h
  cases r with
  | inl s' => exact h
  | inr a => exact h

end Bashlex.C03.Tok
