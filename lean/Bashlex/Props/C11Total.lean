/-
  Property C11 (error positions) at model level WITHOUT the hypothesis `TokLen`.

  `Props/C11.lean` is conditional on `TokLen` ("the value of a delivered token is not longer than
  the rest of the line from the token's start"), stated from EVERY `Good` state -- including states
  with a character in the tokenizer's `_eol_ungetc_lookahead` slot, about which the token-text
  theorem `C04.tokText` says nothing (with a foreign character in the slot the text relation is
  false).  So `TokLen` is not instantiated; instead C11's state invariant is strengthened by "the
  slot is empty" (`Good4`), which `token()` (`tokText.next`), the semantic actions
  (`C04.keepsEol_action`) and the nested parsers keep, and C11's engine lemma `run_ok` -- generic in
  the state invariant -- is used again.  The start states of `parse` / `parsesingle` / nested
  parsers have an empty slot.  Below: every `_conditional` theorem of `Props/C11.lean`, without
  the hypothesis (for parser runs from arbitrary start states: from start states with an empty
  slot, `Start4`).
-/
import Bashlex.Props.C11
import Bashlex.Props.C04.TokTextProof
import Bashlex.Props.C04.Eol

namespace Bashlex.C11
open Bashlex Bashlex.M Bashlex.C10 Bashlex.LR
set_option linter.unusedSimpArgs false
set_option linter.unusedVariables false

/-- C11's state invariant together with an empty `_eol_ungetc_lookahead` slot -/
def Good4 (g : Ghost) (l : Local) (e : Env) : Prop := Good g [] l e ∧ l.eolLookahead = none

section
variable {g : Ghost} {N : Exn → Prop} {np : NestedParse}

theorem hooks_ok4 (hg : WFG g) (hnp : NPOK g N np) (hk : ∀ s b, C10.KeepsEol (np s b)) :
    HooksOK (Good4 g) (lrHooks np) (VI g) (EN g N) := by
  refine ⟨?_, ?_, ?_, ?_, ?_⟩
  · show SatI (Good4 g) (nextToken >>= fun t => pure (symOfTok t, SVal.tok t)) _ _
    have h : HT (Good4 g) nextToken (fun t l e => TokOK g t ∧ Good4 g l e) (EN g N) := by
      intro l e hI
      have a1 := nextToken_good (g := g) l e hI.1
      have a2 := C04.tokText.next g hg l e hI
      rcases hr : nextToken.run l e with ⟨r, e'⟩
      rw [hr] at a1 a2
      cases r with
      | error x => exact Or.inl a1
      | ok v => obtain ⟨t, l'⟩ := v; exact ⟨⟨a1.1, a2.1.tl⟩, a1.2, a2.2⟩
    refine HT.bind h (fun t => HT.pure (fun l e hp => ⟨?_, hp.2⟩))
    intro t' ht'
    cases ht'
    exact hp.1
  · intro p args hargs
    show SatI (Good4 g) (action np (Gen.prodFuncs.getD p "") args) _ _
    intro l e hI
    have a1 := g_action hnp (Gen.prodFuncs.getD p "") args hargs l e hI.1
    have a2 := C04.keepsEol_action hk C04.tokText.gather (Gen.prodFuncs.getD p "") args l e
    rcases hr : (action np (Gen.prodFuncs.getD p "") args).run l e with ⟨r, e'⟩
    rw [hr] at a1
    cases r with
    | error x => exact a1
    | ok v =>
      obtain ⟨r, l'⟩ := v
      exact ⟨a1.1, a1.2, a2 r l' e' hI.2 hr⟩
  · rintro ⟨sym, v⟩ hv
    show HT _ (match v with | .tok t => pError t | _ => M.foreign "AssertionError" "p_error") _ _
    split
    · rename_i t
      exact HT.pre (pError_ht t (hv t rfl).1) (fun l e h => h.1)
    · exact HT.foreign (Or.inl (topE_foreign rfl))
  · intro ty
    exact ⟨Or.inl (topE_foreign (by simp)), Or.inl (topE_foreign (by simp))⟩
  · exact Or.inl topE_fuel

/-- **one parser run over an arbitrary nested-parse function**, from states with an empty slot -/
theorem parserRunWith_good4 (hg : WFG g) (hnp : NPOK g N np)
    (hk : ∀ s b, C10.KeepsEol (np s b)) :
    SatI (Good4 g) (parserRunWith np) (fun _ => True) (EN g N) := by
  unfold parserRunWith
  refine SatI.bindE (run_ok _ _ (hooks_ok4 hg hnp hk) _) (fun res => ?_)
  refine SatI.bindE (SatI.get (fun _ => True.intro)) (fun l => ?_)
  split <;> exact SatI.pure True.intro

end

/-- the nested parser runs on a parser object of its own: the caller's slot is untouched -/
theorem keepsEol_nestedOf (inner : M (Option Node)) (s : Str) (b : Bool) :
    C10.KeepsEol (nestedOf inner s b) := by
  intro l e a l' e' hl hr
  rw [run_nestedOf] at hr
  rcases hi : M.run inner (nestedLocal l s b) e with ⟨r, e1⟩
  rw [hi] at hr
  cases r with
  | error x => simp at hr
  | ok v =>
    obtain ⟨r, l1⟩ := v
    simp only [Prod.mk.injEq, Except.ok.injEq] at hr
    rw [← hr.1.2]
    exact hl

theorem nestedOf_ok4 {inner : M (Option Node)} {Ninner : Ghost → Exn → Prop}
    (hin : ∀ g', WFG g' → SatI (Good4 g') inner (fun _ => True) (Ninner g')) (g : Ghost) :
    NPOK g (fun x => ∃ g', WFG g' ∧ Ninner g' x) (nestedOf inner) := by
  intro s b l e hgood
  rw [run_nestedOf]
  have hwf : WFG (nestedGhost s e) := ⟨s, rfl, rfl⟩
  have h := hin (nestedGhost s e) hwf (nestedLocal l s b) e ⟨good_nested l s b e, rfl⟩
  rcases hr : M.run inner (nestedLocal l s b) e with ⟨r, e'⟩
  rw [hr] at h
  cases r with
  | error x => exact Or.inr ⟨_, hwf, h⟩
  | ok v =>
    obtain ⟨r, l'⟩ := v
    obtain ⟨_, hg', _⟩ := h
    obtain ⟨⟨⟨hfr, hstrict⟩, _, _⟩, _⟩ := hg'
    have htape : e'.tape = e.tape := hfr.2
    have hst : e'.strict = e.strict := hstrict
    exact ⟨True.intro, Good.env (l := { l with ps := l'.ps }) hgood htape hst⟩

/-- every nesting depth, from states with an empty slot -/
theorem parserRun_good4 :
    ∀ d g, WFG g → SatI (Good4 g) (parserRun d) (fun _ => True) (ExnAt d g) := by
  intro d
  induction d with
  | zero => intro g _; exact SatI.raise rfl
  | succ d ih =>
    intro g hg
    rw [parserRun_succ]
    exact parserRunWith_good4 hg (nestedOf_ok4 ih g) (keepsEol_nestedOf _)

theorem runParser_exn' {s : Str} {o : Opts} {t : List Char} {x : Exn}
    (h : (runParser s o t).1 = .error x) : ExnAt maxDepth (topGhost s o) x := by
  unfold runParser at h
  simp only [] at h
  rcases hrun : (parserRun maxDepth).run { limit := o.limit }
      { tape := Tape.ofInput s, strict := o.strict, proceed := o.proceed, touched := t } with ⟨r, env'⟩
  rw [hrun] at h
  simp only [] at h
  cases r with
  | ok v => simp only [Except.map] at h; cases h
  | error y =>
    simp only [Except.map] at h
    cases h
    exact HT.err (parserRun_good4 maxDepth _ (topGhost_wf s o)) ⟨good_top s o t, rfl⟩ hrun

/-! ## the theorems of `Props/C11.lean` without `TokLen` -/

/-- the states a parser starts in, with an empty `_eol_ungetc_lookahead` slot (all start states
    of `parse`, `parsesingle` and of the nested parsers are of this kind) -/
def Start4 (l : Local) (e : Env) : Prop := ∃ g, WFG g ∧ Good g [] l e ∧ l.eolLookahead = none

/-- **(1)** every exception of a parser run, at every nesting depth, from every start state with an
    empty slot -/
theorem C11_parserRun (d : Nat) : HT Start4 (parserRun d) (fun _ _ _ => True) ErrShape := by
  intro l e ⟨g, hg, hgood, hslot⟩
  have h := parserRun_good4 d g hg l e ⟨hgood, hslot⟩
  rcases hr : (parserRun d).run l e with ⟨r, e'⟩
  rw [hr] at h
  cases r with
  | ok v => exact True.intro
  | error x => exact exnAt_shape d g x h

/-- **(1)**, as asked: `AssertionError|ParsingError.__init__` never escapes a parser run -/
theorem no_init_assert (d : Nat) :
    HT Start4 (parserRun d) (fun _ _ _ => True)
      (fun x => x ≠ .foreign "AssertionError" "ParsingError.__init__") :=
  (C11_parserRun d).exn (fun _ h => h.1)

theorem runParser_shape {s : Str} {o : Opts} {t : List Char} {x : Exn}
    (h : (runParser s o t).1 = .error x) : ErrShape x :=
  exnAt_shape _ _ _ (runParser_exn' h)

/-- **C11 (model level), `parse`**: every escaping exception has the shape (no hypotheses) -/
theorem C11_parse (s : Str) (o : Opts) {x : Exn} (h : (parse s o).1 = .exn x) : ErrShape x := by
  rcases parse_exn s o h with h | rfl | ⟨i, t, _, _, h⟩
  · exact runParser_shape h
  · exact ⟨(fun h => by cases h), fun m src p h => by cases h⟩
  · exact runParser_shape h

theorem C11_parsesingle (s : Str) (o : Opts) {x : Exn} (h : (parsesingle s o).1 = .exn x) :
    ErrShape x :=
  runParser_shape (parsesingle_exn s o h)

/-- **C01 strengthened** (no hypotheses): the exception discipline of C01 without the entry
    `AssertionError|ParsingError.__init__` in `knownForeign` / `tokForeign` -/
theorem C01_partial' (s : Str) (o : Opts) :
    match (parse s o).1 with
    | .parts _ => True
    | .exn x => C01.Disciplined x ∧ x ≠ .foreign "AssertionError" "ParsingError.__init__"
    | _ => False := by
  have h1 := C01.C01_partial s o
  have h2 := fun x => C11_parse s o (x := x)
  revert h1 h2
  cases (parse s o).1 with
  | exn x => exact fun h1 h2 => ⟨h1, (h2 x rfl).1⟩
  | parts _ => exact fun h1 _ => h1
  | single _ => exact fun h1 _ => h1
  | strs _ => exact fun h1 _ => h1

/-- **(2) C11_toplevel** (no hypotheses): over any nested-parse function `np` that preserves
    `Good`, keeps the slot empty and raises no `ParsingError`, every `ParsingError` of a parser run
    is one of the run's own: classified (`TopParsing`) -/
theorem C11_toplevel {g : Ghost} (hg : WFG g) {np : NestedParse}
    (hnp : NPOK g (fun x => ∀ m src p, x ≠ .parsing m src p) np)
    (hk : ∀ s b, C10.KeepsEol (np s b)) :
    SatI (Good4 g) (parserRunWith np) (fun _ => True)
      (fun x => ∀ m src p, x = .parsing m src p → TopParsing g m src p) := by
  refine SatI.weaken (parserRunWith_good4 hg hnp hk) (fun _ h => h) ?_
  rintro x (h | h) m src p rfl
  · exact h
  · exact absurd rfl (h m src p)

/-- **(2) C11_first** (no hypotheses) -/
theorem C11_first (s : Str) (o : Opts) {m : String} {src : Str} {p : Int}
    (h : (runParser s o []).1 = .error (.parsing m src p)) :
    TopParsing (topGhost s o) m src p ∨
    ∃ g', WFG g' ∧ ExnAt (maxDepth - 1) g' (.parsing m src p) := by
  have := runParser_exn' h
  exact this

/-- **(3)** (no hypotheses): every escaping `ParsingError` of `parse`: "unexpected EOF" is at the
    end of its source; "unexpected token R" is at the `lexpos` of a delivered token `t` with
    `repr(t.value) = R`, and `t` starts inside the line of the parser that delivered it -/
theorem C11_position (s : Str) (o : Opts) {m : String} {src : Str} {p : Int}
    (h : (parse s o).1 = .exn (.parsing m src p)) :
    (m = "unexpected EOF" → p = src.length) ∧
    (∀ r, m = "unexpected token " ++ r →
      ∃ t g', TF g' t ∧ r = tokRepr t ∧ p = (t.lexpos : Nat) ∧ src = g'.source) := by
  have hcl : ∃ g', TopParsing g' m src p := by
    rcases parse_exn s o h with h | h | ⟨i, t, _, _, h⟩
    · exact exnAt_classified _ _ _ (runParser_exn' h) m src p rfl
    · cases h
    · exact exnAt_classified _ _ _ (runParser_exn' h) m src p rfl
  obtain ⟨g', hg'⟩ := hcl
  refine ⟨fun hm => (topParsing_eof hg' hm).1, fun r hm => ?_⟩
  obtain ⟨t, h1, h2, h3, h4⟩ := topParsing_token hg' hm
  exact ⟨t, g', h1, h2, h3, h4⟩

/-- **(4)** (no hypotheses) -/
theorem C11_later' (s : Str) (o : Opts) {m : String} {src : Str} {p : Int}
    (h : (parse s o).1 = .exn (.parsing m src p))
    (hfirst : (runParser s o []).1 ≠ .error (.parsing m src p)) :
    ∃ i, 0 < i ∧ i < s.length ∧
      (TopParsing (topGhost (s.drop i) o) m src p ∨
       ∃ g', WFG g' ∧ ExnAt (maxDepth - 1) g' (.parsing m src p)) := by
  rcases C11_later s o h hfirst with h | ⟨i, t, h0, h1, h2⟩
  · cases h
  · exact ⟨i, h0, h1, runParser_exn' h2⟩

/-- the slot-empty form of `TokLen`, from `tokText` -/
theorem tokLen4 : ∀ g, WFG g → HT (Good4 g) nextToken (fun t l _ => TL g t ∧ l.eolLookahead = none)
    (fun _ => True) := by
  intro g hg
  exact HT.post (C04.tokText.next g hg) (fun t l e h => ⟨h.1.tl, h.2⟩)

end Bashlex.C11

#print axioms Bashlex.C11.parserRun_good4
#print axioms Bashlex.C11.C11_parserRun
#print axioms Bashlex.C11.no_init_assert
#print axioms Bashlex.C11.C11_parse
#print axioms Bashlex.C11.C11_parsesingle
#print axioms Bashlex.C11.C01_partial'
#print axioms Bashlex.C11.C11_toplevel
#print axioms Bashlex.C11.C11_first
#print axioms Bashlex.C11.C11_position
#print axioms Bashlex.C11.C11_later'
