/-
  A minimal partial-correctness logic for the model monad `M`.
  `Sat m P`: whenever `m` returns normally (in any local state and environment), its result
  satisfies `P`.  Enough to carry invariants through the LR engine for *arbitrary* token sources
  and semantic actions.
-/
import Bashlex.Model.Monad

namespace Bashlex

namespace Q
theorem run_bind {α β : Type} (m : Q α) (f : α → Q β) (e : Env) :
    Q.run (Q.bind m f) e = Q.run (f (Q.run m e).1) (Q.run m e).2 := by
  induction m generalizing e with
  | pure a => rfl
  | ask q k ih => simp only [Q.bind, Q.run]; exact ih _ _
end Q

namespace M

/-- the result of running `m`, as `Except` with final local state, plus final environment -/
theorem run_pure {α : Type} (a : α) (l : Local) (e : Env) :
    (pure a : M α).run l e = (.ok (a, l), e) := rfl

theorem run_bind {α β : Type} (m : M α) (f : α → M β) (l : Local) (e : Env) :
    (m >>= f).run l e =
      match m.run l e with
      | (.ok (a, l'), e') => (f a).run l' e'
      | (.error x, e') => (.error x, e') := by
  show Q.run (Q.bind (m l) _) e = _
  rw [Q.run_bind]
  show _ = match Q.run (m l) e with
      | (.ok (a, l'), e') => (f a).run l' e'
      | (.error x, e') => (.error x, e')
  rcases h : Q.run (m l) e with ⟨r, e'⟩
  cases r with
  | ok v => obtain ⟨a, l'⟩ := v; rfl
  | error x => rfl

theorem run_raise {α : Type} (x : Exn) (l : Local) (e : Env) :
    (M.raise x : M α).run l e = (.error x, e) := rfl

/-- `Sat m P E`: in any local state and environment, a normal return of `m` satisfies `P` and an
    exception raised by `m` satisfies `E` -/
def Sat {α : Type} (m : M α) (P : α → Prop) (E : Exn → Prop := fun _ => True) : Prop :=
  ∀ l e, match m.run l e with
    | (.ok (a, _), _) => P a
    | (.error x, _) => E x

theorem Sat.pure {α : Type} {P : α → Prop} {E : Exn → Prop} {a : α} (h : P a) :
    Sat (Pure.pure a : M α) P E := by
  intro l e; rw [run_pure]; exact h

theorem Sat.raise {α : Type} {P : α → Prop} {E : Exn → Prop} {x : Exn} (h : E x) :
    Sat (M.raise x : M α) P E := by
  intro l e; rw [run_raise]; exact h

theorem Sat.foreign {α : Type} {P : α → Prop} {E : Exn → Prop} {a b : String}
    (h : E (.foreign a b)) : Sat (M.foreign a b : M α) P E :=
  Sat.raise h

theorem Sat.bind {α β : Type} {m : M α} {f : α → M β} {P : α → Prop} {R : β → Prop}
    {E : Exn → Prop} (hm : Sat m P E) (hf : ∀ a, P a → Sat (f a) R E) : Sat (m >>= f) R E := by
  intro l e
  rw [run_bind]
  have h1 := hm l e
  rcases h : m.run l e with ⟨r, e'⟩
  rw [h] at h1
  cases r with
  | ok v =>
    obtain ⟨a, l'⟩ := v
    exact hf a h1 l' e'
  | error x => exact h1

theorem Sat.weaken {α : Type} {m : M α} {P R : α → Prop} {E F : Exn → Prop} (hm : Sat m P E)
    (h : ∀ a, P a → R a) (hE : ∀ x, E x → F x) : Sat m R F := by
  intro l e
  have h1 := hm l e
  rcases hr : m.run l e with ⟨r, e'⟩
  rw [hr] at h1
  cases r with
  | ok v => exact h _ h1
  | error x => exact hE _ h1

theorem Sat.and {α : Type} {m : M α} {P R : α → Prop} {E : Exn → Prop} (h1 : Sat m P E) (h2 : Sat m R E) :
    Sat m (fun a => P a ∧ R a) E := by
  intro l e
  have a := h1 l e
  have b := h2 l e
  rcases hr : m.run l e with ⟨r, e'⟩
  rw [hr] at a b
  cases r with
  | ok v => exact ⟨a, b⟩
  | error x => exact a

theorem Sat.trivial {α : Type} (m : M α) : Sat m (fun _ => True) (fun _ => True) := by
  intro l e
  rcases m.run l e with ⟨r, e'⟩
  cases r <;> exact True.intro

theorem Sat.loop {σ α : Type} {site : String} {body : σ → M (σ ⊕ α)} {I : σ → Prop} {R : α → Prop}
    {E : Exn → Prop} (hfuel : E (.outOfFuel site))
    (hbody : ∀ s, I s → Sat (body s) (Sum.elim I R) E) :
    ∀ fuel s, I s → Sat (M.loop site body fuel s) R E := by
  intro fuel
  induction fuel with
  | zero => intro s _; exact Sat.raise hfuel
  | succ n ih =>
    intro s hs
    show Sat (body s >>= _) R E
    refine Sat.bind (hbody s hs) ?_
    intro r hr
    cases r with
    | inl s' => exact ih s' hr
    | inr a => exact Sat.pure hr

/-- what a normal return tells: the old formulation, as a corollary -/
theorem Sat.ok {α : Type} {m : M α} {P : α → Prop} {E : Exn → Prop} (h : Sat m P E)
    {l e a l' e'} (hr : m.run l e = (.ok (a, l'), e')) : P a := by
  have := h l e; rw [hr] at this; exact this

theorem Sat.err {α : Type} {m : M α} {P : α → Prop} {E : Exn → Prop} (h : Sat m P E)
    {l e x e'} (hr : m.run l e = (.error x, e')) : E x := by
  have := h l e; rw [hr] at this; exact this

end M
end Bashlex
