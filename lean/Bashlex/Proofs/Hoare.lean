/-
  A minimal partial-correctness logic for the model monad `M`.
  `Sat m P`: whenever `m` returns normally (in any local state and environment), its result
  satisfies `P`.  Enough to carry invariants through the LR engine for *arbitrary* token sources
  and semantic actions.
-/
import Bashlex.Model.Monad

namespace Bashlex

namespace Q
theorem run_bind {α β : Type} (m : Q α) (f : α → Q β) (e : Env) :
    Q.run (Q.bind m f) e = Q.run (f (Q.run m e).1) (Q.run m e).2 := by
  induction m generalizing e with
  | pure a => rfl
  | ask q k ih => simp only [Q.bind, Q.run]; exact ih _ _
end Q

namespace Q
theorem bind_pure' {α : Type} (x : Q α) : Q.bind x Q.pure = x := by
  induction x with
  | pure a => rfl
  | ask q k ih => simp only [Q.bind]; congr; funext a; exact ih a

theorem bind_assoc' {α β γ : Type} (x : Q α) (f : α → Q β) (g : β → Q γ) :
    Q.bind (Q.bind x f) g = Q.bind x (fun a => Q.bind (f a) g) := by
  induction x with
  | pure a => rfl
  | ask q k ih => simp only [Q.bind]; congr; funext a; exact ih a

/-- `Q` is a lawful monad, hence so is `M` (`pure_bind`, `bind_assoc` are available to `simp`) -/
instance : LawfulMonad Q := LawfulMonad.mk'
  (id_map := fun x => bind_pure' x)
  (pure_bind := fun _ _ => rfl)
  (bind_assoc := fun x f g => bind_assoc' x f g)
end Q

namespace M

/-- the result of running `m`, as `Except` with final local state, plus final environment -/
theorem run_pure {α : Type} (a : α) (l : Local) (e : Env) :
    (pure a : M α).run l e = (.ok (a, l), e) := rfl

theorem run_bind {α β : Type} (m : M α) (f : α → M β) (l : Local) (e : Env) :
    (m >>= f).run l e =
      match m.run l e with
      | (.ok (a, l'), e') => (f a).run l' e'
      | (.error x, e') => (.error x, e') := by
  show Q.run (Q.bind (m l) _) e = _
  rw [Q.run_bind]
  show _ = match Q.run (m l) e with
      | (.ok (a, l'), e') => (f a).run l' e'
      | (.error x, e') => (.error x, e')
  rcases h : Q.run (m l) e with ⟨r, e'⟩
  cases r with
  | ok v => obtain ⟨a, l'⟩ := v; rfl
  | error x => rfl

theorem run_raise {α : Type} (x : Exn) (l : Local) (e : Env) :
    (M.raise x : M α).run l e = (.error x, e) := rfl

/-- `Sat m P E`: in any local state and environment, a normal return of `m` satisfies `P` and an
    exception raised by `m` satisfies `E` -/
def Sat {α : Type} (m : M α) (P : α → Prop) (E : Exn → Prop := fun _ => True) : Prop :=
  ∀ l e, match m.run l e with
    | (.ok (a, _), _) => P a
    | (.error x, _) => E x

theorem Sat.pure {α : Type} {P : α → Prop} {E : Exn → Prop} {a : α} (h : P a) :
    Sat (Pure.pure a : M α) P E := by
  intro l e; rw [run_pure]; exact h

theorem Sat.raise {α : Type} {P : α → Prop} {E : Exn → Prop} {x : Exn} (h : E x) :
    Sat (M.raise x : M α) P E := by
  intro l e; rw [run_raise]; exact h

theorem Sat.foreign {α : Type} {P : α → Prop} {E : Exn → Prop} {a b : String}
    (h : E (.foreign a b)) : Sat (M.foreign a b : M α) P E :=
  Sat.raise h

theorem Sat.bind {α β : Type} {m : M α} {f : α → M β} {P : α → Prop} {R : β → Prop}
    {E : Exn → Prop} (hm : Sat m P E) (hf : ∀ a, P a → Sat (f a) R E) : Sat (m >>= f) R E := by
  intro l e
  rw [run_bind]
  have h1 := hm l e
  rcases h : m.run l e with ⟨r, e'⟩
  rw [h] at h1
  cases r with
  | ok v =>
    obtain ⟨a, l'⟩ := v
    exact hf a h1 l' e'
  | error x => exact h1

theorem Sat.weaken {α : Type} {m : M α} {P R : α → Prop} {E F : Exn → Prop} (hm : Sat m P E)
    (h : ∀ a, P a → R a) (hE : ∀ x, E x → F x) : Sat m R F := by
  intro l e
  have h1 := hm l e
  rcases hr : m.run l e with ⟨r, e'⟩
  rw [hr] at h1
  cases r with
  | ok v => exact h _ h1
  | error x => exact hE _ h1

theorem Sat.trivial {α : Type} (m : M α) : Sat m (fun _ => True) (fun _ => True) := by
  intro l e
  rcases m.run l e with ⟨r, e'⟩
  cases r <;> exact True.intro

theorem Sat.loop {σ α : Type} {site : String} {body : σ → M (σ ⊕ α)} {I : σ → Prop} {R : α → Prop}
    {E : Exn → Prop} (hfuel : E (.outOfFuel site))
    (hbody : ∀ s, I s → Sat (body s) (Sum.elim I R) E) :
    ∀ fuel s, I s → Sat (M.loop site body fuel s) R E := by
  intro fuel
  induction fuel with
  | zero => intro s _; exact Sat.raise hfuel
  | succ n ih =>
    intro s hs
    show Sat (body s >>= _) R E
    refine Sat.bind (hbody s hs) ?_
    intro r hr
    cases r with
    | inl s' => exact ih s' hr
    | inr a => exact Sat.pure hr

/-- what a normal return tells: the old formulation, as a corollary -/
theorem Sat.ok {α : Type} {m : M α} {P : α → Prop} {E : Exn → Prop} (h : Sat m P E)
    {l e a l' e'} (hr : m.run l e = (.ok (a, l'), e')) : P a := by
  have := h l e; rw [hr] at this; exact this

theorem Sat.err {α : Type} {m : M α} {P : α → Prop} {E : Exn → Prop} (h : Sat m P E)
    {l e x e'} (hr : m.run l e = (.error x, e')) : E x := by
  have := h l e; rw [hr] at this; exact this

/-! ### more rules -/

theorem Sat.and {α : Type} {m : M α} {P R : α → Prop} {E : Exn → Prop}
    (h1 : Sat m P E) (h2 : Sat m R E) : Sat m (fun a => P a ∧ R a) E := by
  intro l e
  have a1 := h1 l e
  have a2 := h2 l e
  rcases hr : m.run l e with ⟨r, e'⟩
  rw [hr] at a1 a2
  cases r with
  | ok v => exact ⟨a1, a2⟩
  | error x => exact a1

/-- bind with nothing known about the first computation -/
theorem Sat.bind_any {α β : Type} {m : M α} {f : α → M β} {R : β → Prop}
    (hf : ∀ a, Sat (f a) R) : Sat (m >>= f) R :=
  Sat.bind (Sat.trivial m) (fun a _ => hf a)

/-- continuation-style bind: convenient with `apply` (no intermediate assertion to supply) -/
theorem Sat.bind' {α β : Type} {m : M α} {f : α → M β} {R : β → Prop} {E : Exn → Prop}
    (hm : Sat m (fun a => Sat (f a) R E) E) : Sat (m >>= f) R E :=
  Sat.bind hm (fun _ h => h)

theorem Sat.map {α β : Type} {m : M α} {f : α → β} {P : β → Prop} {E : Exn → Prop}
    (h : Sat m (fun a => P (f a)) E) : Sat (f <$> m) P E := by
  rw [map_eq_pure_bind]
  exact Sat.bind h (fun a ha => Sat.pure ha)

theorem Sat.ite {α : Type} {c : Prop} [Decidable c] {a b : M α} {P : α → Prop} {E : Exn → Prop}
    (ha : c → Sat a P E) (hb : ¬ c → Sat b P E) : Sat (if c then a else b) P E := by
  split
  · exact ha ‹_›
  · exact hb ‹_›

theorem Sat.get {P : Local → Prop} {E : Exn → Prop} (h : ∀ l, P l) :
    Sat (get : M Local) P E := by
  intro l e; exact h l

theorem Sat.getThe {P : Local → Prop} {E : Exn → Prop} (h : ∀ l, P l) :
    Sat (getThe Local : M Local) P E := by
  intro l e; exact h l

theorem Sat.set {P : Unit → Prop} {E : Exn → Prop} {l : Local} (h : P ()) :
    Sat (set l : M Unit) P E := by
  intro _ e; exact h

theorem Sat.modify {P : Unit → Prop} {E : Exn → Prop} {f : Local → Local} (h : P ()) :
    Sat (modify f : M Unit) P E := by
  intro _ e; exact h

theorem Sat.unit {m : M Unit} : Sat m (fun _ => True) := Sat.trivial m

/-- `for x in l do …` over a list (`forIn`), with an invariant indexed by the elements still to
    be visited -/
theorem Sat.forIn_list {α β : Type} {f : α → β → M (ForInStep β)} {R : β → Prop}
    {E : Exn → Prop} (I : List α → β → Prop)
    (hstep : ∀ a rest b, I (a :: rest) b →
      Sat (f a b) (fun r => match r with | .yield b' => I rest b' | .done b' => R b') E)
    (hdone : ∀ b, I [] b → R b) :
    ∀ (l : List α) (b : β), I l b → Sat (forIn l b f) R E := by
  intro l
  induction l with
  | nil => intro b hb; rw [List.forIn_nil]; exact Sat.pure (hdone b hb)
  | cons a rest ih =>
    intro b hb
    rw [List.forIn_cons]
    refine Sat.bind (hstep a rest b hb) ?_
    intro r hr
    cases r with
    | done b' => exact Sat.pure hr
    | yield b' => exact ih b' hr

end M
end Bashlex
