/-
  Generic theorems about *every* program `p : Q α` (hence about the whole parser model, whose
  only contact with the outside world are the queries of `Q`), proved once by induction over the
  free monad — no walk through the tokenizer's or the LR engine's control flow.

  1. `Q.steps`, `Q.trace`, `Q.asked`: the queries a run actually makes (with the environment each
     was put to / the answer each got).  `Q.replay_trace`, `Q.run_eq_of_trace_eq`: the result of
     a run is a function of its trace alone.

  2. **T6 `Q.run_congr`** (`Q.run_congr_on` for a fixed set of queries): if `R e e'` and, at every
     step of the run from `e`, `R`-related environments give the same answer and `R`-related
     successors, then the two runs have the same trace, the same result and `R`-related final
     environments.  Instances:
     a. `Q.run_strict_irrelevant`, `Q.run_proceed_irrelevant` (+ `_tape`; converse
        `Q.optStrict_asked_of_ne`, `Q.optProceed_asked_of_ne`) — **C17**: an option that is not
        read along the run is irrelevant for result, trace, final tape and store.
     b. `Q.run_prefix` (`Q.run_prefix_idx`, `Q.run_prefix_maxCell`) — **C13**: a run that asks
        none of `.source/.line/.added` and examines only cells `< k` (`Q.maxCell p e ≤ k`) gives the
        same result, trace and final head position on every tape that agrees on the cells `< k`.
        "Examined cell `i`" means: the answer depends on the look-up `line[i]?` — its content *or*
        the fact that it does not exist.  With this reading `_getc`'s test `idx < len(line)` is the
        examination of cell `idx`, and `_ungetc`'s `line != "" and idx != 0 and idx <= len(line)`
        is (for `idx ≠ 0`) the examination of cell `idx-1` (`Tape.ungetc_eq`), so no extra
        hypothesis on lengths is needed.  `_getc`'s fuel `len(line)+1` differs between the two
        tapes; `Tape.getc_agree` shows that any sufficient fuel gives the same answer.
     c. `Q.run_eqModStore`, `Q.run_touched_irrelevant`, `Q.trace_touched_irrelevant`,
        `Q.tape_touched_irrelevant` — **C18/C19**: answers never depend on `Env.touched`
        (`Env.answer_eqModStore`); `Q.run_touched` gives the final store exactly
        (`foldl addKey` over the keys looked up), with corollaries `Q.touched_prefix` (nothing
        removed), `Q.key_mem_touched` (every key looked up is in), `Q.mem_touched` (nothing else).
     Also `Q.run_frame`: no run changes the options, the input line or `_added_newline`.

  3. **T7 history independence (C18)**: a `Job` is a program with its own tape/options; a process
     runs a list of jobs threading the shared store (`History.run`).
     `History.results_eq_solo` / `History.result_get`: every call of every history returns what it
     returns as the only call of a fresh process; `History.store_prefix`,
     `History.storeBefore_mono`: the store only grows.

  4. **T7 interleaving independence (C19)**: `Pool` = threads sharing only the store; `Pool.step i`
     lets thread `i` make one query against its own environment with the global store plugged in
     and writes the store back; `Pool.exec` runs an arbitrary schedule `List Nat`.
     `Pool.exec_value` / `Pool.exec_pure`: under every schedule a thread that has returned holds its
     solo result from the fresh store; `Pool.exec_done`: a thread scheduled at least `Job.todo`
     times (a schedule-independent number) has returned; `Pool.exec_all`: if that holds for all
     threads, the list of results is the list of solo results; `Pool.exec_seqSchedule`: such a
     schedule exists; `Pool.exec_store_prefix`: the store only grows.

  5. `Examples`: a three-query program on which every hypothesis is discharged by `decide`.

  6. The same for `M` (`M.run m l e = Q.run (m l) e`): `M.run_strict_irrelevant`, ...; and for the
     entry points: `runParser_strict_irrelevant`, `runParser_proceed_irrelevant`,
     `runParser_touched_irrelevant`, `runParser_store_prefix`, `runParser_prefix`,
     `parsesingle_*`, `parse_strict_irrelevant`, `parse_proceed_irrelevant` (hypothesis on
     `parseAsked`, the queries of all parser runs of the loop), `parseFrom_touched_irrelevant`
     (`parse` started with any content of `sh_syntaxtab`).
-/
import Bashlex.Proofs.Hoare
import Bashlex.Model.Parse

namespace Bashlex

/-! ## 1. Steps, trace, asked -/

namespace Q
variable {α : Type}

/-- the steps of a run: every query made, paired with the environment it was put to -/
def steps : Q α → Env → List (Env × Query)
  | .pure _, _ => []
  | .ask q k, e => (e, q) :: steps (k (e.answer q).1) (e.answer q).2

/-- the queries a run actually makes, each with the answer it got -/
def trace : Q α → Env → List (Σ q : Query, Answer q)
  | .pure _, _ => []
  | .ask q k, e => ⟨q, (e.answer q).1⟩ :: trace (k (e.answer q).1) (e.answer q).2

/-- the queries a run actually makes -/
def asked (p : Q α) (e : Env) : List Query := (trace p e).map (·.1)

@[simp] theorem run_pure' (a : α) (e : Env) : run (.pure a) e = (a, e) := rfl
theorem run_ask (q : Query) (k : Answer q → Q α) (e : Env) :
    run (.ask q k) e = run (k (e.answer q).1) (e.answer q).2 := rfl

@[simp] theorem steps_pure (a : α) (e : Env) : steps (.pure a) e = [] := rfl
@[simp] theorem steps_ask (q : Query) (k : Answer q → Q α) (e : Env) :
    steps (.ask q k) e = (e, q) :: steps (k (e.answer q).1) (e.answer q).2 := rfl
@[simp] theorem trace_pure (a : α) (e : Env) : trace (.pure a) e = [] := rfl
@[simp] theorem trace_ask (q : Query) (k : Answer q → Q α) (e : Env) :
    trace (.ask q k) e = ⟨q, (e.answer q).1⟩ :: trace (k (e.answer q).1) (e.answer q).2 := rfl
@[simp] theorem asked_pure (a : α) (e : Env) : asked (.pure a) e = [] := rfl
@[simp] theorem asked_ask (q : Query) (k : Answer q → Q α) (e : Env) :
    asked (.ask q k) e = q :: asked (k (e.answer q).1) (e.answer q).2 := rfl

theorem asked_eq_steps (p : Q α) : ∀ e, asked p e = (steps p e).map (·.2) := by
  induction p with
  | pure a => intro e; rfl
  | ask q k ih => intro e; simp [ih]

theorem mem_asked_of_mem_steps {p : Q α} {e : Env} {s : Env × Query} (h : s ∈ steps p e) :
    s.2 ∈ asked p e := by
  rw [asked_eq_steps]; exact List.mem_map_of_mem h

/-- replay a program against a recorded list of answers (no environment) -/
def replay : Q α → List (Σ q : Query, Answer q) → Option α
  | .pure a, _ => some a
  | .ask _ _, [] => none
  | .ask q k, ⟨q', a⟩ :: tr => if h : q' = q then replay (k (h ▸ a)) tr else none

/-- the result of a run is a function of its trace alone -/
theorem replay_trace (p : Q α) : ∀ e, replay p (trace p e) = some (run p e).1 := by
  induction p with
  | pure a => intro e; rfl
  | ask q k ih => intro e; simp [replay, run_ask, ih]

theorem run_eq_of_trace_eq {p : Q α} {e e' : Env} (h : trace p e = trace p e') :
    (run p e).1 = (run p e').1 := by
  have h1 := replay_trace p e
  rw [h, replay_trace] at h1
  exact (Option.some.inj h1).symm

/-! ## 2. T6: the congruence theorem -/

/-- **T6.**  Let `R` relate two environments.  If at every step `(s, q)` of the run from `e`
    (environment `s`, query `q`) every `R`-partner of `s` gives the same answer to `q` and the
    successor environments are `R`-related again, then the runs from `e` and from any `R`-partner
    `e'` make the same queries, get the same answers, return the same result, and end in
    `R`-related environments. -/
theorem run_congr (R : Env → Env → Prop) (p : Q α) : ∀ (e e' : Env), R e e' →
    (∀ s ∈ steps p e, ∀ e₂, R s.1 e₂ →
        (s.1.answer s.2).1 = (e₂.answer s.2).1 ∧ R (s.1.answer s.2).2 (e₂.answer s.2).2) →
    (run p e).1 = (run p e').1 ∧ R (run p e).2 (run p e').2 ∧ trace p e = trace p e' := by
  induction p with
  | pure a => intro e e' h _; exact ⟨rfl, h, rfl⟩
  | ask q k ih =>
    intro e e' h hs
    obtain ⟨h1, h2⟩ := hs (e, q) (by simp) e' h
    have h3 := ih (e.answer q).1 (e.answer q).2 (e'.answer q).2 h2
      (fun s hs' => hs s (by simp [hs']))
    simp only [run_ask, trace_ask]
    rw [← h1]
    exact ⟨h3.1, h3.2.1, by rw [h3.2.2]⟩

/-- T6 with the side condition given by a set `S` of queries: `R` is a congruence for the
    queries in `S` and the run asks only queries in `S`. -/
theorem run_congr_on (R : Env → Env → Prop) (S : Query → Prop)
    (hstep : ∀ e e' q, S q → R e e' →
      (e.answer q).1 = (e'.answer q).1 ∧ R (e.answer q).2 (e'.answer q).2)
    (p : Q α) (e e' : Env) (hR : R e e') (hS : ∀ q ∈ asked p e, S q) :
    (run p e).1 = (run p e').1 ∧ R (run p e).2 (run p e').2 ∧ trace p e = trace p e' :=
  run_congr R p e e' hR
    (fun s hs e₂ h => hstep s.1 e₂ s.2 (hS _ (mem_asked_of_mem_steps hs)) h)

end Q

/-! ## 2a. option irrelevance (C17) -/

namespace Env

theorem answer_setStrict (e : Env) (b : Bool) (q : Query) (hq : q ≠ .optStrict) :
    ({ e with strict := b }.answer q).1 = (e.answer q).1 ∧
    ({ e with strict := b }.answer q).2 = { (e.answer q).2 with strict := b } := by
  cases q with
  | optStrict => exact absurd rfl hq
  | getc rqn =>
    simp only [answer]
    cases e.tape.getc rqn (e.tape.line.length + 1) with
    | error u => exact ⟨rfl, rfl⟩
    | ok r => exact ⟨rfl, rfl⟩
  | syntab c =>
    refine ⟨rfl, ?_⟩
    simp only [answer]
    cases e.touched.contains c <;> rfl
  | _ => exact ⟨rfl, rfl⟩

theorem answer_setProceed (e : Env) (b : Bool) (q : Query) (hq : q ≠ .optProceed) :
    ({ e with proceed := b }.answer q).1 = (e.answer q).1 ∧
    ({ e with proceed := b }.answer q).2 = { (e.answer q).2 with proceed := b } := by
  cases q with
  | optProceed => exact absurd rfl hq
  | getc rqn =>
    simp only [answer]
    cases e.tape.getc rqn (e.tape.line.length + 1) with
    | error u => exact ⟨rfl, rfl⟩
    | ok r => exact ⟨rfl, rfl⟩
  | syntab c =>
    refine ⟨rfl, ?_⟩
    simp only [answer]
    cases e.touched.contains c <;> rfl
  | _ => exact ⟨rfl, rfl⟩

end Env

namespace Q
variable {α : Type}

/-- **C17 (strict).**  A run that never asks `.optStrict` returns the same result, makes the same
    queries, and ends in the same environment (up to the `strict` field itself) whatever the value
    of `strict`. -/
theorem run_strict_irrelevant (p : Q α) (e : Env) (b : Bool) (h : Query.optStrict ∉ asked p e) :
    (run p { e with strict := b }).1 = (run p e).1 ∧
    (run p { e with strict := b }).2 = { (run p e).2 with strict := b } ∧
    trace p { e with strict := b } = trace p e := by
  have := run_congr_on (fun e e' => e' = { e with strict := b }) (fun q => q ≠ .optStrict)
    (fun e e' q hq hR => by
      subst hR
      exact ⟨(e.answer_setStrict b q hq).1.symm, (e.answer_setStrict b q hq).2⟩)
    p e { e with strict := b } rfl (fun q hq hq' => h (hq' ▸ hq))
  exact ⟨this.1.symm, this.2.1, this.2.2.symm⟩

/-- **C17 (proceed).** -/
theorem run_proceed_irrelevant (p : Q α) (e : Env) (b : Bool) (h : Query.optProceed ∉ asked p e) :
    (run p { e with proceed := b }).1 = (run p e).1 ∧
    (run p { e with proceed := b }).2 = { (run p e).2 with proceed := b } ∧
    trace p { e with proceed := b } = trace p e := by
  have := run_congr_on (fun e e' => e' = { e with proceed := b }) (fun q => q ≠ .optProceed)
    (fun e e' q hq hR => by
      subst hR
      exact ⟨(e.answer_setProceed b q hq).1.symm, (e.answer_setProceed b q hq).2⟩)
    p e { e with proceed := b } rfl (fun q hq hq' => h (hq' ▸ hq))
  exact ⟨this.1.symm, this.2.1, this.2.2.symm⟩

/-- same final tape and store -/
theorem run_strict_irrelevant_tape (p : Q α) (e : Env) (b : Bool)
    (h : Query.optStrict ∉ asked p e) :
    (run p { e with strict := b }).2.tape = (run p e).2.tape ∧
    (run p { e with strict := b }).2.touched = (run p e).2.touched := by
  rw [(run_strict_irrelevant p e b h).2.1]; exact ⟨rfl, rfl⟩

theorem run_proceed_irrelevant_tape (p : Q α) (e : Env) (b : Bool)
    (h : Query.optProceed ∉ asked p e) :
    (run p { e with proceed := b }).2.tape = (run p e).2.tape ∧
    (run p { e with proceed := b }).2.touched = (run p e).2.touched := by
  rw [(run_proceed_irrelevant p e b h).2.1]; exact ⟨rfl, rfl⟩

/-- converse direction: a run whose result is sensitive to `strict` reads it -/
theorem optStrict_asked_of_ne (p : Q α) (e : Env) (b : Bool)
    (h : (run p { e with strict := b }).1 ≠ (run p e).1) : Query.optStrict ∈ asked p e :=
  Classical.byContradiction fun hn => h (run_strict_irrelevant p e b hn).1

theorem optProceed_asked_of_ne (p : Q α) (e : Env) (b : Bool)
    (h : (run p { e with proceed := b }).1 ≠ (run p e).1) : Query.optProceed ∈ asked p e :=
  Classical.byContradiction fun hn => h (run_proceed_irrelevant p e b hn).1

end Q

/-! ## The tape primitives in terms of cell look-ups `line[i]?` -/

namespace Tape

theorem getc_zero (t : Tape) (rqn : Bool) : t.getc rqn 0 = .ok (none, t) := rfl

/-- one unfolding of `_getc`, with the length test expressed by the look-up `line[idx]?` -/
theorem getc_succ (t : Tape) (rqn : Bool) (f : Nat) :
    t.getc rqn (f + 1) =
      match t.line[t.idx]? with
      | none => .ok (none, t)
      | some c =>
        if (c == '\\' && rqn) = true then
          match t.line[t.idx + 1]? with
          | none => .error ()
          | some d =>
            if (d == '\n') = true then getc { t with idx := t.idx + 2 } rqn f
            else .ok (some c, { t with idx := t.idx + 1 })
        else .ok (some c, { t with idx := t.idx + 1 }) := by
  conv => lhs; unfold getc
  by_cases h : t.idx < t.line.length
  · rw [if_pos h, List.getElem?_eq_getElem h]; rfl
  · rw [if_neg h, List.getElem?_eq_none (Nat.le_of_not_lt h)]

/-- `_getc` moves the head only -/
theorem getc_frame (rqn : Bool) : ∀ (f : Nat) (t : Tape) (c : Option Char) (u : Tape),
    t.getc rqn f = .ok (c, u) → u.line = t.line ∧ u.added = t.added := by
  intro f
  induction f with
  | zero =>
    intro t c u h
    rw [getc_zero] at h
    cases h; exact ⟨rfl, rfl⟩
  | succ f ih =>
    intro t c u h
    rw [getc_succ] at h
    split at h
    · cases h; exact ⟨rfl, rfl⟩
    · split at h
      · split at h
        · cases h
        · split at h
          · exact ih { t with idx := t.idx + 2 } _ _ h
          · cases h; exact ⟨rfl, rfl⟩
      · cases h; exact ⟨rfl, rfl⟩

/-- `_ungetc` in terms of the look-up of the cell before the head -/
theorem ungetc_eq (t : Tape) :
    t.ungetc = if t.idx ≠ 0 ∧ (t.line[t.idx - 1]?).isSome = true
      then (true, { t with idx := t.idx - 1 }) else (false, t) := by
  unfold ungetc
  by_cases h0 : t.idx = 0
  · simp [h0]
  · by_cases h1 : t.idx ≤ t.line.length
    · have h2 : t.idx - 1 < t.line.length := by omega
      have h3 : t.line ≠ [] := by
        intro h; rw [h] at h2; simp at h2
      simp [h0, h1, h2, h3]
    · have h2 : ¬ t.idx - 1 < t.line.length := by omega
      simp [h0, h1, h2]

end Tape

/-! ## Frame: what no query changes -/

namespace Env

/-- no query changes the options, the input line, or `_added_newline` -/
theorem answer_frame (e : Env) (q : Query) :
    (e.answer q).2.strict = e.strict ∧ (e.answer q).2.proceed = e.proceed ∧
    (e.answer q).2.tape.line = e.tape.line ∧ (e.answer q).2.tape.added = e.tape.added := by
  cases q with
  | getc rqn =>
    simp only [answer]
    cases h : e.tape.getc rqn (e.tape.line.length + 1) with
    | error u => exact ⟨rfl, rfl, rfl, rfl⟩
    | ok r =>
      obtain ⟨c, u⟩ := r
      exact ⟨rfl, rfl, Tape.getc_frame rqn _ _ _ _ h⟩
  | ungetc =>
    simp only [answer, Tape.ungetc]
    split <;> simp
  | syntab c =>
    simp only [answer]
    cases e.touched.contains c <;> exact ⟨rfl, rfl, rfl, rfl⟩
  | _ => exact ⟨rfl, rfl, rfl, rfl⟩

end Env

namespace Q
variable {α : Type}

/-- no run changes the options, the input line, or `_added_newline` -/
theorem run_frame (p : Q α) : ∀ e : Env,
    (run p e).2.strict = e.strict ∧ (run p e).2.proceed = e.proceed ∧
    (run p e).2.tape.line = e.tape.line ∧ (run p e).2.tape.added = e.tape.added := by
  induction p with
  | pure a => intro e; exact ⟨rfl, rfl, rfl, rfl⟩
  | ask q k ih =>
    intro e
    rw [run_ask]
    obtain ⟨h1, h2, h3, h4⟩ := ih (e.answer q).1 (e.answer q).2
    obtain ⟨g1, g2, g3, g4⟩ := e.answer_frame q
    exact ⟨h1.trans g1, h2.trans g2, h3.trans g3, h4.trans g4⟩

end Q

/-! ## 2c. the shared table is irrelevant (C18/C19) -/

/-- the key of `sh_syntaxtab` a query looks up -/
def Query.key : Query → Option Char
  | .syntab c => some c
  | _ => none

/-- the growth of the defaultdict on one look-up -/
def addKey (t : List Char) (c : Char) : List Char := if t.contains c then t else t ++ [c]

namespace Env

/-- equal except for the shared store `touched` -/
def EqModStore (e e' : Env) : Prop :=
  e.tape = e'.tape ∧ e.strict = e'.strict ∧ e.proceed = e'.proceed

theorem EqModStore.refl (e : Env) : EqModStore e e := ⟨rfl, rfl, rfl⟩
theorem eqModStore_setTouched (e : Env) (t t' : List Char) :
    EqModStore { e with touched := t } { e with touched := t' } := ⟨rfl, rfl, rfl⟩

/-- **key lemma**: the answer to any query, and its effect on everything but the store,
    do not depend on the store -/
theorem answer_eqModStore {e e' : Env} (h : EqModStore e e') (q : Query) :
    (e.answer q).1 = (e'.answer q).1 ∧ EqModStore (e.answer q).2 (e'.answer q).2 := by
  obtain ⟨tp, st, pr, tc⟩ := e
  obtain ⟨tp', st', pr', tc'⟩ := e'
  obtain ⟨h1, h2, h3⟩ := h
  simp only at h1 h2 h3
  subst h1 h2 h3
  cases q with
  | getc rqn =>
    simp only [answer]
    cases tp.getc rqn (tp.line.length + 1) with
    | error u => exact ⟨rfl, rfl, rfl, rfl⟩
    | ok r => exact ⟨rfl, rfl, rfl, rfl⟩
  | syntab c =>
    refine ⟨rfl, ?_⟩
    simp only [answer]
    cases tc.contains c <;> cases tc'.contains c <;> exact ⟨rfl, rfl, rfl⟩
  | _ => exact ⟨rfl, rfl, rfl, rfl⟩

/-- the only effect on the store is the defaultdict's growth by the key looked up -/
theorem answer_touched (e : Env) (q : Query) :
    (e.answer q).2.touched =
      match q.key with
      | some c => addKey e.touched c
      | none => e.touched := by
  cases q with
  | getc rqn =>
    simp only [answer, Query.key]
    cases e.tape.getc rqn (e.tape.line.length + 1) <;> rfl
  | syntab c =>
    simp only [answer, Query.key, addKey]
    cases e.touched.contains c <;> rfl
  | _ => rfl

end Env

theorem prefix_addKey (t : List Char) (c : Char) : t <+: addKey t c := by
  unfold addKey; split
  · exact List.prefix_refl t
  · exact List.prefix_append t [c]

theorem mem_addKey_self (t : List Char) (c : Char) : c ∈ addKey t c := by
  unfold addKey; split
  · next h => simpa using h
  · simp

theorem mem_addKey {t : List Char} {c d : Char} (h : d ∈ addKey t c) : d ∈ t ∨ d = c := by
  unfold addKey at h; split at h
  · exact .inl h
  · simpa using h

theorem prefix_foldl_addKey (ks : List Char) : ∀ t : List Char, t <+: ks.foldl addKey t := by
  induction ks with
  | nil => intro t; exact List.prefix_refl t
  | cons c ks ih => intro t; exact List.IsPrefix.trans (prefix_addKey t c) (ih _)

theorem mem_foldl_addKey_of_mem (ks : List Char) :
    ∀ (t : List Char) (c : Char), c ∈ ks → c ∈ ks.foldl addKey t := by
  induction ks with
  | nil => intro t c h; cases h
  | cons d ks ih =>
    intro t c h
    rcases List.mem_cons.1 h with rfl | h
    · exact (prefix_foldl_addKey ks _).subset (mem_addKey_self t c)
    · exact ih _ c h

theorem mem_foldl_addKey (ks : List Char) :
    ∀ (t : List Char) (c : Char), c ∈ ks.foldl addKey t → c ∈ t ∨ c ∈ ks := by
  induction ks with
  | nil => intro t c h; exact .inl h
  | cons d ks ih =>
    intro t c h
    rcases ih _ c h with h | h
    · rcases mem_addKey h with h | rfl
      · exact .inl h
      · exact .inr (List.mem_cons_self ..)
    · exact .inr (List.mem_cons_of_mem _ h)

namespace Q
variable {α : Type}

/-- the keys of `sh_syntaxtab` looked up during a run, in order -/
def keys (p : Q α) (e : Env) : List Char := (asked p e).filterMap Query.key

/-- **C18/C19 core.**  Two environments that differ only in the shared store give the same
    result, the same trace (hence the same keys), and the same final tape. -/
theorem run_eqModStore (p : Q α) {e e' : Env} (h : Env.EqModStore e e') :
    (run p e).1 = (run p e').1 ∧ Env.EqModStore (run p e).2 (run p e').2 ∧
    trace p e = trace p e' :=
  run_congr_on Env.EqModStore (fun _ => True)
    (fun _ _ q _ hR => Env.answer_eqModStore hR q) p e e' h (fun _ _ => trivial)

theorem run_touched_irrelevant (p : Q α) (e : Env) (t t' : List Char) :
    (run p { e with touched := t }).1 = (run p { e with touched := t' }).1 :=
  (run_eqModStore p (e.eqModStore_setTouched t t')).1

theorem trace_touched_irrelevant (p : Q α) (e : Env) (t t' : List Char) :
    trace p { e with touched := t } = trace p { e with touched := t' } :=
  (run_eqModStore p (e.eqModStore_setTouched t t')).2.2

theorem asked_touched_irrelevant (p : Q α) (e : Env) (t t' : List Char) :
    asked p { e with touched := t } = asked p { e with touched := t' } := by
  unfold asked; rw [trace_touched_irrelevant]

theorem keys_touched_irrelevant (p : Q α) (e : Env) (t t' : List Char) :
    keys p { e with touched := t } = keys p { e with touched := t' } := by
  unfold keys; rw [asked_touched_irrelevant]

theorem tape_touched_irrelevant (p : Q α) (e : Env) (t t' : List Char) :
    (run p { e with touched := t }).2.tape = (run p { e with touched := t' }).2.tape :=
  (run_eqModStore p (e.eqModStore_setTouched t t')).2.1.1

/-- the final store, exactly: the initial store grown by the keys looked up, in order -/
theorem run_touched (p : Q α) : ∀ e : Env,
    (run p e).2.touched = (keys p e).foldl addKey e.touched := by
  induction p with
  | pure a => intro e; rfl
  | ask q k ih =>
    intro e
    rw [run_ask, ih, Env.answer_touched]
    unfold keys
    rw [asked_ask, List.filterMap_cons]
    cases q.key <;> rfl

/-- nothing is removed from the store (and the order of old entries is kept) -/
theorem touched_prefix (p : Q α) (e : Env) : e.touched <+: (run p e).2.touched := by
  rw [run_touched]; exact prefix_foldl_addKey _ _

theorem touched_mono (p : Q α) (e : Env) {c : Char} (h : c ∈ e.touched) :
    c ∈ (run p e).2.touched := (touched_prefix p e).subset h

/-- every key looked up is in the final store -/
theorem key_mem_touched (p : Q α) (e : Env) {c : Char} (h : Query.syntab c ∈ asked p e) :
    c ∈ (run p e).2.touched := by
  rw [run_touched]
  refine mem_foldl_addKey_of_mem _ _ _ ?_
  unfold keys
  exact List.mem_filterMap.2 ⟨_, h, rfl⟩

/-- nothing but the keys looked up is added -/
theorem mem_touched (p : Q α) (e : Env) {c : Char} (h : c ∈ (run p e).2.touched) :
    c ∈ e.touched ∨ Query.syntab c ∈ asked p e := by
  rw [run_touched] at h
  rcases mem_foldl_addKey _ _ _ h with h | h
  · exact .inl h
  · refine .inr ?_
    unfold keys at h
    obtain ⟨q, hq, hk⟩ := List.mem_filterMap.1 h
    cases q <;> simp [Query.key] at hk
    subst hk; exact hq

end Q

/-! ## 2b. tape prefix (C13) -/

namespace Tape

/-- 1 + the largest cell `i` whose look-up `line[i]?` (its content, or the fact that it does not
    exist) `_getc` depends on.  Mirrors `Tape.getc`.  (`getc` tests `idx < len(line)`, which is the
    same as `line[idx]?` being `some`; a backslash with `rqn` also looks at `line[idx+1]?`, and
    after backslash-newline the loop goes on from `idx+2`.) -/
def getcCells (t : Tape) (rqn : Bool) : Nat → Nat
  | 0 => t.idx + 1
  | fuel + 1 =>
    match t.line[t.idx]? with
    | none => t.idx + 1
    | some c =>
      if c == '\\' && rqn then
        match t.line[t.idx + 1]? with
        | none => t.idx + 2
        | some d =>
          if d == '\n' then max (t.idx + 2) (getcCells { t with idx := t.idx + 2 } rqn fuel)
          else t.idx + 2
      else t.idx + 1

theorem lt_getcCells (t : Tape) (rqn : Bool) (f : Nat) : t.idx < t.getcCells rqn f := by
  cases f with
  | zero => exact Nat.lt_succ_self _
  | succ f =>
    unfold getcCells
    split
    · exact Nat.lt_succ_self _
    · split
      · split
        · omega
        · split <;> omega
      · exact Nat.lt_succ_self _

/-- the observable part of `_getc`'s result: the character and the new head position -/
def getcObs (r : Except Unit (Option Char × Tape)) : Except Unit (Option Char × Nat) :=
  match r with
  | .ok (c, u) => .ok (c, u.idx)
  | .error () => .error ()

/-- `_getc` on two tapes with the same head whose lines agree on the cells examined: same
    character, same new head.  The fuels may differ; each must be sufficient for its own tape
    (`line.length + 1` always is). -/
theorem getc_agree (k : Nat) (rqn : Bool) : ∀ (f f' : Nat) (t t' : Tape),
    t.idx = t'.idx → (∀ i, i < k → t.line[i]? = t'.line[i]?) →
    t.line.length < f + t.idx → t'.line.length < f' + t'.idx →
    t.getcCells rqn f ≤ k →
    getcObs (t.getc rqn f) = getcObs (t'.getc rqn f') := by
  intro f
  induction f with
  | zero =>
    intro f' t t' hi hl hf hf' hc
    have h0 : t.line[t.idx]? = none := List.getElem?_eq_none (by omega)
    have h1 : t'.line[t'.idx]? = none := by
      rw [← hi, ← hl _ (Nat.lt_of_lt_of_le (lt_getcCells t rqn 0) hc)]; exact h0
    cases f' with
    | zero => simp only [getc_zero, getcObs, hi]
    | succ f' => rw [getc_zero, getc_succ, h1]; simp only [getcObs, hi]
  | succ f ih =>
    intro f' t t' hi hl hf hf' hc
    have hk : t.idx < k := Nat.lt_of_lt_of_le (lt_getcCells t rqn _) hc
    have h01 : t.line[t.idx]? = t'.line[t'.idx]? := by rw [← hi]; exact hl _ hk
    cases f' with
    | zero =>
      have h1 : t'.line[t'.idx]? = none := List.getElem?_eq_none (by omega)
      rw [h1] at h01
      rw [getc_zero, getc_succ, h01]; simp only [getcObs, hi]
    | succ f' =>
      rw [getc_succ, getc_succ, ← h01, ← hi]
      unfold getcCells at hc
      cases h0 : t.line[t.idx]? with
      | none => simp only [getcObs, hi]
      | some c =>
        rw [h0] at hc
        simp only at hc ⊢
        by_cases hb : (c == '\\' && rqn) = true
        · rw [if_pos hb] at hc ⊢
          rw [if_pos hb]
          have hk1 : t.idx + 1 < k := by
            revert hc; split
            · omega
            · split <;> omega
          rw [← hl _ hk1]
          cases h1 : t.line[t.idx + 1]? with
          | none => rfl
          | some d =>
            rw [h1] at hc
            simp only at hc ⊢
            by_cases hd : (d == '\n') = true
            · rw [if_pos hd] at hc ⊢
              rw [if_pos hd]
              exact ih f' { t with idx := t.idx + 2 } { t' with idx := t.idx + 2 } rfl hl
                (by simp only; omega) (by simp only; omega)
                (Nat.le_trans (Nat.le_max_right _ _) hc)
            · rw [if_neg hd, if_neg hd]; rfl
        · rw [if_neg hb, if_neg hb]; rfl

/-- `_ungetc` depends on the cell before the head only (none if the head is at 0) -/
theorem ungetc_agree (k : Nat) (t t' : Tape) (hi : t.idx = t'.idx)
    (hl : ∀ i, i < k → t.line[i]? = t'.line[i]?) (hc : t.idx ≤ k) :
    t.ungetc.1 = t'.ungetc.1 ∧ t.ungetc.2.idx = t'.ungetc.2.idx ∧
    t.ungetc.2.line = t.line ∧ t'.ungetc.2.line = t'.line := by
  rw [ungetc_eq, ungetc_eq, ← hi]
  by_cases h0 : t.idx = 0
  · simp [h0, ← hi]
  · rw [← hl (t.idx - 1) (by omega)]
    by_cases h1 : (t.line[t.idx - 1]?).isSome = true
    · rw [if_pos ⟨h0, h1⟩, if_pos ⟨h0, h1⟩]; exact ⟨rfl, rfl, rfl, rfl⟩
    · rw [if_neg (fun h => h1 h.2), if_neg (fun h => h1 h.2)]; exact ⟨rfl, hi, rfl, rfl⟩

end Tape

/-- queries whose answer depends on the whole line / on `_added_newline` -/
def Query.readsWhole : Query → Bool
  | .source | .line | .added => true
  | _ => false

namespace Env

/-- 1 + the largest cell `i` whose look-up `line[i]?` the answer to `q` in `e` (and the new head
    position) depends on; 0 if none.  `ungetc` moves the head back iff `idx ≠ 0` and cell `idx-1`
    exists (this is what `line != "" and idx != 0 and idx ≤ len(line)` amounts to).
    For the `readsWhole` queries the value 0 is a dummy: they are excluded separately. -/
def cells (e : Env) : Query → Nat
  | .getc rqn => e.tape.getcCells rqn (e.tape.line.length + 1)
  | .ungetc => e.tape.idx
  | _ => 0

/-- same head, lines agree on all cells `< k` (content and existence), same options and store;
    `added` and the rest of the lines are unconstrained -/
def PrefixAgree (k : Nat) (e e' : Env) : Prop :=
  e.tape.idx = e'.tape.idx ∧ (∀ i, i < k → e.tape.line[i]? = e'.tape.line[i]?) ∧
  e.strict = e'.strict ∧ e.proceed = e'.proceed ∧ e.touched = e'.touched

theorem prefixAgree_of_take {k : Nat} {e e' : Env} (hi : e.tape.idx = e'.tape.idx)
    (hl : e.tape.line.take k = e'.tape.line.take k) (hs : e.strict = e'.strict)
    (hp : e.proceed = e'.proceed) (ht : e.touched = e'.touched) : PrefixAgree k e e' := by
  refine ⟨hi, ?_, hs, hp, ht⟩
  intro i h
  have := congrArg (·[i]?) hl
  simpa [List.getElem?_take, h] using this

theorem answer_prefixAgree {k : Nat} {e e' : Env} (h : PrefixAgree k e e') (q : Query)
    (hq : q.readsWhole = false) (hc : e.cells q ≤ k) :
    (e.answer q).1 = (e'.answer q).1 ∧ PrefixAgree k (e.answer q).2 (e'.answer q).2 := by
  obtain ⟨tp, st, pr, tc⟩ := e
  obtain ⟨tp', st', pr', tc'⟩ := e'
  obtain ⟨hi, hl, h2, h3, h4⟩ := h
  simp only at hi hl h2 h3 h4
  subst h2 h3 h4
  cases q with
  | getc rqn =>
    have key := Tape.getc_agree k rqn (tp.line.length + 1) (tp'.line.length + 1) tp tp' hi hl
      (by omega) (by omega) hc
    simp only [answer]
    cases h1 : tp.getc rqn (tp.line.length + 1) with
    | error u =>
      cases h2 : tp'.getc rqn (tp'.line.length + 1) with
      | error u' => exact ⟨rfl, hi, hl, rfl, rfl, rfl⟩
      | ok r' => rw [h1, h2] at key; obtain ⟨c', u'⟩ := r'; cases key
    | ok r =>
      obtain ⟨c, u⟩ := r
      cases h2 : tp'.getc rqn (tp'.line.length + 1) with
      | error u' => rw [h1, h2] at key; cases key
      | ok r' =>
        obtain ⟨c', u'⟩ := r'
        rw [h1, h2] at key
        simp only [Tape.getcObs, Except.ok.injEq, Prod.mk.injEq] at key
        obtain ⟨rfl, hu⟩ := key
        refine ⟨rfl, hu, ?_, rfl, rfl, rfl⟩
        show ∀ i, i < k → u.line[i]? = u'.line[i]?
        rw [(Tape.getc_frame rqn _ _ _ _ h1).1, (Tape.getc_frame rqn _ _ _ _ h2).1]
        exact hl
  | ungetc =>
    obtain ⟨g1, g2, g3, g4⟩ := Tape.ungetc_agree k tp tp' hi hl hc
    refine ⟨g1, g2, ?_, rfl, rfl, rfl⟩
    show ∀ i, i < k → tp.ungetc.2.line[i]? = tp'.ungetc.2.line[i]?
    rw [g3, g4]; exact hl
  | idx => exact ⟨hi, hi, hl, rfl, rfl, rfl⟩
  | bump => exact ⟨rfl, congrArg (· + 1) hi, hl, rfl, rfl, rfl⟩
  | source => cases hq
  | line => cases hq
  | added => cases hq
  | optStrict => exact ⟨rfl, hi, hl, rfl, rfl, rfl⟩
  | optProceed => exact ⟨rfl, hi, hl, rfl, rfl, rfl⟩
  | syntab c =>
    refine ⟨rfl, ?_⟩
    simp only [answer]
    cases tc.contains c <;> exact ⟨hi, hl, rfl, rfl, rfl⟩

end Env

namespace Q
variable {α : Type}

/-- 1 + the largest tape cell examined during the run from `e` (0 if none) -/
def maxCell : Q α → Env → Nat
  | .pure _, _ => 0
  | .ask q k, e => max (e.cells q) (maxCell (k (e.answer q).1) (e.answer q).2)

theorem cells_le_maxCell (p : Q α) : ∀ (e : Env) (s : Env × Query), s ∈ steps p e →
    s.1.cells s.2 ≤ maxCell p e := by
  induction p with
  | pure a => intro e s h; cases h
  | ask q k ih =>
    intro e s h
    rw [steps_ask] at h
    rcases List.mem_cons.1 h with rfl | h
    · exact Nat.le_max_left _ _
    · exact Nat.le_trans (ih _ _ s h) (Nat.le_max_right _ _)

/-- **C13.**  If the run from `e` asks none of `.source`, `.line`, `.added` and examines only
    cells `< k`, then from every `e'` with the same head position, options and store whose line
    agrees with `e`'s on the cells `< k` the run returns the same result, makes the same queries
    with the same answers, and ends with the same head position (and options, store). -/
theorem run_prefix (p : Q α) (k : Nat) (e e' : Env) (h : Env.PrefixAgree k e e')
    (hq : ∀ q ∈ asked p e, q.readsWhole = false) (hk : maxCell p e ≤ k) :
    (run p e).1 = (run p e').1 ∧ Env.PrefixAgree k (run p e).2 (run p e').2 ∧
    trace p e = trace p e' :=
  run_congr (Env.PrefixAgree k) p e e' h (fun s hs _ hR =>
    Env.answer_prefixAgree hR s.2 (hq _ (mem_asked_of_mem_steps hs))
      (Nat.le_trans (cells_le_maxCell p e s hs) hk))

theorem run_prefix_idx (p : Q α) (k : Nat) (e e' : Env) (h : Env.PrefixAgree k e e')
    (hq : ∀ q ∈ asked p e, q.readsWhole = false) (hk : maxCell p e ≤ k) :
    (run p e).2.tape.idx = (run p e').2.tape.idx ∧ (run p e).2.touched = (run p e').2.touched :=
  ⟨(run_prefix p k e e' h hq hk).2.1.1, (run_prefix p k e e' h hq hk).2.1.2.2.2.2⟩

end Q

namespace Q
variable {α : Type}

/-- C13 with `k` instantiated: the result depends only on the cells the run examines -/
theorem run_prefix_maxCell (p : Q α) (e e' : Env) (h : Env.PrefixAgree (maxCell p e) e e')
    (hq : ∀ q ∈ asked p e, q.readsWhole = false) :
    (run p e).1 = (run p e').1 ∧ (run p e).2.tape.idx = (run p e').2.tape.idx :=
  ⟨(run_prefix p _ e e' h hq (Nat.le_refl _)).1, (run_prefix p _ e e' h hq (Nat.le_refl _)).2.1.1⟩

theorem asked_eq_of_eqModStore (p : Q α) {e e' : Env} (h : Env.EqModStore e e') :
    asked p e = asked p e' := by
  unfold asked; rw [(run_eqModStore p h).2.2]

end Q

/-! ## 3. T7: history independence (C18) -/

/-- a call of an entry point made by a process: a program together with the part of its
    environment that is its own (input tape, options).  The field `env.touched` is ignored: the
    process plugs in the current content of the shared store. -/
structure Job where
  {α : Type}
  prog : Q α
  env : Env

namespace Job

/-- the environment builder: own tape and options, the process's store -/
def envAt (j : Job) (store : List Char) : Env := { j.env with touched := store }
/-- result of the call when the shared store holds `store` -/
def result (j : Job) (store : List Char) : j.α := (Q.run j.prog (j.envAt store)).1
/-- the shared store after the call -/
def storeAfter (j : Job) (store : List Char) : List Char := (Q.run j.prog (j.envAt store)).2.touched
/-- result of the call as the first call of a fresh process -/
def solo (j : Job) : j.α := j.result []
/-- number of queries the call makes -/
def todo (j : Job) : Nat := (Q.asked j.prog (j.envAt [])).length

/-- results of jobs of different types, tagged with the type -/
abbrev Val : Type 1 := Σ α : Type, α
def resultVal (j : Job) (store : List Char) : Val := ⟨j.α, j.result store⟩
def soloVal (j : Job) : Val := ⟨j.α, j.solo⟩

/-- **C18, one call.**  The result of a call does not depend on the shared store. -/
theorem result_eq_solo (j : Job) (store : List Char) : j.result store = j.solo :=
  Q.run_touched_irrelevant j.prog j.env store []

theorem prefix_storeAfter (j : Job) (store : List Char) : store <+: j.storeAfter store :=
  Q.touched_prefix j.prog (j.envAt store)

end Job

/-- a process making the calls `js` one after the other, starting with the store `s`: the list
    of results and the final store -/
def History.run : List Job → List Char → List Job.Val × List Char
  | [], s => ([], s)
  | j :: js, s => (j.resultVal s :: (History.run js (j.storeAfter s)).1,
                   (History.run js (j.storeAfter s)).2)

/-- the store at the moment of the `i`-th call -/
def History.storeBefore (js : List Job) (s : List Char) (i : Nat) : List Char :=
  (History.run (js.take i) s).2

/-- **T7 (history independence, C18).**  Every call in every history returns what it returns as
    the only call of a fresh process. -/
theorem History.results_eq_solo (js : List Job) : ∀ s : List Char,
    (History.run js s).1 = js.map Job.soloVal := by
  induction js with
  | nil => intro s; rfl
  | cons j js ih =>
    intro s
    simp only [History.run, List.map_cons, ih]
    unfold Job.resultVal Job.soloVal
    rw [Job.result_eq_solo]

/-- the same, for the `i`-th call -/
theorem History.result_get (js : List Job) (s : List Char) (i : Nat) (j : Job)
    (h : js[i]? = some j) :
    (History.run js s).1[i]? = some j.soloVal ∧
    j.result (History.storeBefore js s i) = j.solo := by
  refine ⟨?_, Job.result_eq_solo _ _⟩
  rw [History.results_eq_solo, List.getElem?_map, h]; rfl

/-- the store only grows along a history (old entries keep their place) -/
theorem History.store_prefix (js : List Job) : ∀ s : List Char, s <+: (History.run js s).2 := by
  induction js with
  | nil => intro s; exact List.prefix_refl s
  | cons j js ih =>
    intro s
    exact List.IsPrefix.trans (j.prefix_storeAfter s) (ih _)

theorem History.storeBefore_mono (js : List Job) (s : List Char) (i : Nat) :
    History.storeBefore js s i <+: History.storeBefore js s (i + 1) := by
  unfold History.storeBefore
  induction js generalizing s i with
  | nil => simp [History.run]
  | cons j js ih =>
    cases i with
    | zero =>
      simp only [List.take_zero, List.take_succ_cons, History.run]
      exact j.prefix_storeAfter s
    | succ i =>
      simp only [List.take_succ_cons, History.run]
      exact ih _ i

/-! ## 4. T7: interleaving independence (C19) -/

namespace Job

/-- the thread has returned -/
def value? : Job → Option Val
  | ⟨.pure a, _⟩ => some ⟨_, a⟩
  | ⟨.ask _ _, _⟩ => none

/-- one query of the thread against its own environment with the global store plugged in;
    returns the thread's new state and the new global store -/
def step : Job → List Char → Job × List Char
  | ⟨.pure a, e⟩, s => (⟨.pure a, e⟩, s)
  | ⟨.ask q k, e⟩, s =>
    (⟨k (({ e with touched := s } : Env).answer q).1, (({ e with touched := s } : Env).answer q).2⟩,
     (({ e with touched := s } : Env).answer q).2.touched)

/-- **key lemma**: a step of a thread, taken against any store, does not change what the thread
    returns when run alone from the fresh store -/
theorem soloVal_step (j : Job) (s : List Char) : (j.step s).1.soloVal = j.soloVal := by
  obtain ⟨p, e⟩ := j
  cases p with
  | pure a => rfl
  | ask q k =>
    have h := Env.answer_eqModStore (e.eqModStore_setTouched s []) q
    simp only [step, soloVal, solo, result, envAt]
    congr 1
    rw [Q.run_ask, h.1]
    refine (Q.run_eqModStore _ ?_).1
    exact ⟨h.2.1, h.2.2.1, h.2.2.2⟩

theorem todo_step (j : Job) (s : List Char) : (j.step s).1.todo = j.todo - 1 := by
  obtain ⟨p, e⟩ := j
  cases p with
  | pure a => rfl
  | ask q k =>
    have h := Env.answer_eqModStore (e.eqModStore_setTouched s []) q
    simp only [step, todo, envAt, Q.asked_ask, List.length_cons, Nat.add_sub_cancel]
    rw [h.1]
    refine congrArg List.length (Q.asked_eq_of_eqModStore _ ?_)
    exact ⟨h.2.1, h.2.2.1, h.2.2.2⟩

theorem prefix_step (j : Job) (s : List Char) : s <+: (j.step s).2 := by
  obtain ⟨p, e⟩ := j
  cases p with
  | pure a => exact List.prefix_refl s
  | ask q k =>
    simp only [step]
    rw [Env.answer_touched]
    cases q.key with
    | none => exact List.prefix_refl s
    | some c => exact prefix_addKey s c

theorem value?_eq_some_iff_todo (j : Job) : j.value?.isSome = true ↔ j.todo = 0 := by
  obtain ⟨p, e⟩ := j
  cases p with
  | pure a => simp [value?, todo]
  | ask q k => simp [value?, todo]

/-- a thread that has returned holds its solo result -/
theorem value?_eq_soloVal (j : Job) (v : Val) (h : j.value? = some v) : v = j.soloVal := by
  obtain ⟨p, e⟩ := j
  cases p with
  | pure a => simp only [value?, Option.some.injEq] at h; subst h; rfl
  | ask q k => simp [value?] at h

end Job

/-- a pool of threads sharing only the store -/
structure Pool where
  jobs : List Job
  store : List Char

namespace Pool

/-- the scheduler picks thread `i`: it makes one query (nothing happens if there is no such
    thread or it has returned) -/
def step (c : Pool) (i : Nat) : Pool :=
  match c.jobs[i]? with
  | none => c
  | some j => { jobs := c.jobs.set i (j.step c.store).1, store := (j.step c.store).2 }

/-- run a schedule -/
def exec (c : Pool) (sched : List Nat) : Pool := sched.foldl step c

@[simp] theorem exec_nil (c : Pool) : c.exec [] = c := rfl
@[simp] theorem exec_cons (c : Pool) (i : Nat) (sched : List Nat) :
    c.exec (i :: sched) = (c.step i).exec sched := rfl

theorem step_jobs_get (c : Pool) (i n : Nat) :
    (c.step i).jobs[n]? =
      if i = n then (c.jobs[n]?).map (fun j => (j.step c.store).1) else c.jobs[n]? := by
  unfold step
  cases h : c.jobs[i]? with
  | none =>
    simp only
    split
    · next hin => subst hin; rw [h]; rfl
    · rfl
  | some j =>
    simp only [List.getElem?_set]
    split
    · next hin =>
      subst hin
      have hlt : i < c.jobs.length := by
        rcases Nat.lt_or_ge i c.jobs.length with h' | h'
        · exact h'
        · rw [List.getElem?_eq_none h'] at h; cases h
      rw [h]; simp [hlt]
    · rfl

theorem step_length (c : Pool) (i : Nat) : (c.step i).jobs.length = c.jobs.length := by
  unfold step
  cases c.jobs[i]? with
  | none => rfl
  | some j => simp

theorem prefix_step (c : Pool) (i : Nat) : c.store <+: (c.step i).store := by
  unfold step
  cases c.jobs[i]? with
  | none => exact List.prefix_refl _
  | some j => exact j.prefix_step c.store

/-- a step changes no thread's solo result -/
theorem step_soloVal (c : Pool) (i n : Nat) :
    ((c.step i).jobs[n]?).map Job.soloVal = (c.jobs[n]?).map Job.soloVal := by
  rw [step_jobs_get]
  split
  · cases c.jobs[n]? with
    | none => rfl
    | some j => simp only [Option.map_some]; rw [Job.soloVal_step]
  · rfl

theorem step_todo (c : Pool) (i n : Nat) :
    ((c.step i).jobs[n]?).map Job.todo =
      (c.jobs[n]?).map (fun j => j.todo - (if i = n then 1 else 0)) := by
  rw [step_jobs_get]
  split
  · cases c.jobs[n]? with
    | none => rfl
    | some j => simp only [Option.map_some]; rw [Job.todo_step]
  · cases c.jobs[n]? <;> rfl

/-- **invariant of every schedule**: what each thread would return alone from the fresh store -/
theorem exec_soloVal (sched : List Nat) : ∀ (c : Pool) (n : Nat),
    ((c.exec sched).jobs[n]?).map Job.soloVal = (c.jobs[n]?).map Job.soloVal := by
  induction sched with
  | nil => intro c n; rfl
  | cons i sched ih => intro c n; rw [exec_cons, ih, step_soloVal]

theorem exec_length (sched : List Nat) : ∀ c : Pool, (c.exec sched).jobs.length = c.jobs.length := by
  induction sched with
  | nil => intro c; rfl
  | cons i sched ih => intro c; rw [exec_cons, ih, step_length]

/-- the store only grows under every schedule -/
theorem exec_store_prefix (sched : List Nat) : ∀ c : Pool, c.store <+: (c.exec sched).store := by
  induction sched with
  | nil => intro c; exact List.prefix_refl _
  | cons i sched ih => intro c; exact List.IsPrefix.trans (c.prefix_step i) (ih _)

/-- progress: thread `n` has as many queries left as it had, minus the times it was scheduled -/
theorem exec_todo (sched : List Nat) : ∀ (c : Pool) (n : Nat),
    ((c.exec sched).jobs[n]?).map Job.todo =
      (c.jobs[n]?).map (fun j => j.todo - sched.count n) := by
  induction sched with
  | nil => intro c n; simp only [exec_nil, List.count_nil, Nat.sub_zero]
  | cons i sched ih =>
    intro c n
    rw [exec_cons, ih]
    have h := step_todo c i n
    cases h1 : (c.step i).jobs[n]? with
    | none =>
      rw [h1] at h
      cases h2 : c.jobs[n]? with
      | none => rfl
      | some j => rw [h2] at h; cases h
    | some j' =>
      rw [h1] at h
      cases h2 : c.jobs[n]? with
      | none => rw [h2] at h; cases h
      | some j =>
        rw [h2] at h
        simp only [Option.map_some, Option.some.injEq] at h ⊢
        rw [h, List.count_cons]
        by_cases hin : i = n
        · simp [hin]; omega
        · simp [hin]

/-- **T7 (interleaving independence, C19).**  Under every schedule, a thread that has returned
    holds exactly the value it returns when run alone from the fresh store. -/
theorem exec_value (c : Pool) (sched : List Nat) (n : Nat) (j' : Job) (v : Job.Val)
    (hj' : (c.exec sched).jobs[n]? = some j') (hv : j'.value? = some v) :
    ∃ j, c.jobs[n]? = some j ∧ v = j.soloVal := by
  have h := exec_soloVal sched c n
  rw [hj'] at h
  cases h2 : c.jobs[n]? with
  | none => rw [h2] at h; cases h
  | some j =>
    rw [h2] at h
    simp only [Option.map_some, Option.some.injEq] at h
    exact ⟨j, rfl, (Job.value?_eq_soloVal j' v hv).trans h⟩

/-- the same without type tags -/
theorem exec_pure {α : Type} (c : Pool) (sched : List Nat) (n : Nat) (a : α) (e' : Env)
    (h : (c.exec sched).jobs[n]? = some ⟨.pure a, e'⟩) :
    ∃ (p : Q α) (e : Env), c.jobs[n]? = some ⟨p, e⟩ ∧
      (Q.run p { e with touched := [] }).1 = a := by
  obtain ⟨j, hj, hv⟩ := exec_value c sched n _ ⟨α, a⟩ h rfl
  obtain ⟨p, e⟩ := j
  simp only [Job.soloVal, Job.solo, Job.result, Job.envAt] at hv
  cases hv
  exact ⟨p, e, hj, rfl⟩

/-- fairness: a schedule that picks thread `n` at least as often as the thread makes queries
    (a number that does not depend on the schedule) lets it return -/
theorem exec_done (c : Pool) (sched : List Nat) (n : Nat) (j : Job) (hj : c.jobs[n]? = some j)
    (hfair : j.todo ≤ sched.count n) :
    ∃ j', (c.exec sched).jobs[n]? = some j' ∧ j'.value? = some j.soloVal := by
  have h := exec_todo sched c n
  have hs := exec_soloVal sched c n
  rw [hj] at h hs
  cases h1 : (c.exec sched).jobs[n]? with
  | none => rw [h1] at h; cases h
  | some j' =>
    rw [h1] at h hs
    simp only [Option.map_some, Option.some.injEq] at h hs
    refine ⟨j', rfl, ?_⟩
    have h0 : j'.todo = 0 := by omega
    have := (Job.value?_eq_some_iff_todo j').2 h0
    cases hv : j'.value? with
    | none => rw [hv] at this; cases this
    | some v => rw [Job.value?_eq_soloVal j' v hv, hs]

/-- **C19, all threads.**  Under a schedule that is long enough for every thread, all threads
    return, and the list of results is the list of solo results: no interleaving is observable. -/
theorem exec_all (c : Pool) (sched : List Nat)
    (hfair : ∀ n j, c.jobs[n]? = some j → j.todo ≤ sched.count n) :
    (c.exec sched).jobs.map Job.value? = c.jobs.map (fun j => some j.soloVal) := by
  apply List.ext_getElem?
  intro n
  rw [List.getElem?_map, List.getElem?_map]
  cases hj : c.jobs[n]? with
  | none =>
    have : (c.exec sched).jobs[n]? = none := by
      rw [List.getElem?_eq_none_iff, exec_length, ← List.getElem?_eq_none_iff]; exact hj
    rw [this]; rfl
  | some j =>
    obtain ⟨j', h1, h2⟩ := exec_done c sched n j hj (hfair n j hj)
    rw [h1]; simp only [Option.map_some, h2]

/-- such a schedule exists: e.g. run the threads to completion one after the other -/
def seqSchedule (js : List Job) : List Nat :=
  go js 0
where
  go : List Job → Nat → List Nat
    | [], _ => []
    | j :: js, i => List.replicate j.todo i ++ go js (i + 1)

theorem seqSchedule_fair (js : List Job) : ∀ n j, js[n]? = some j →
    j.todo ≤ (seqSchedule js).count n := by
  have key : ∀ (js : List Job) (b n : Nat) (j : Job), js[n]? = some j →
      j.todo ≤ (seqSchedule.go js b).count (b + n) := by
    intro js
    induction js with
    | nil => intro b n j h; cases h
    | cons j0 js ih =>
      intro b n j h
      cases n with
      | zero =>
        simp only [List.getElem?_cons_zero, Option.some.injEq] at h
        subst h
        simp [seqSchedule.go, List.count_append]
      | succ n =>
        simp only [List.getElem?_cons_succ] at h
        have := ih (b + 1) n j h
        simp only [seqSchedule.go, List.count_append]
        have e : b + 1 + n = b + (n + 1) := by omega
        rw [e] at this
        omega
  intro n j h
  simpa [seqSchedule] using key js 0 n j h

end Pool

namespace Pool

/-- no interleaving is observable under the sequential schedule (in particular the hypothesis of
    `exec_all` is satisfiable for every pool) -/
theorem exec_seqSchedule (c : Pool) :
    (c.exec (seqSchedule c.jobs)).jobs.map Job.value? = c.jobs.map (fun j => some j.soloVal) :=
  exec_all c _ (seqSchedule_fair c.jobs)

end Pool

/-! ## 6. The model monad `M` and the entry points -/

namespace M
variable {α : Type}

/-- queries made by `m` started in local state `l` and environment `e` -/
def asked (m : M α) (l : Local) (e : Env) : List Query := Q.asked (m l) e
/-- 1 + the largest cell of the caller's input examined -/
def maxCell (m : M α) (l : Local) (e : Env) : Nat := Q.maxCell (m l) e

theorem run_strict_irrelevant (m : M α) (l : Local) (e : Env) (b : Bool)
    (h : Query.optStrict ∉ asked m l e) :
    (m.run l { e with strict := b }).1 = (m.run l e).1 ∧
    (m.run l { e with strict := b }).2 = { (m.run l e).2 with strict := b } :=
  ⟨(Q.run_strict_irrelevant (m l) e b h).1, (Q.run_strict_irrelevant (m l) e b h).2.1⟩

theorem run_proceed_irrelevant (m : M α) (l : Local) (e : Env) (b : Bool)
    (h : Query.optProceed ∉ asked m l e) :
    (m.run l { e with proceed := b }).1 = (m.run l e).1 ∧
    (m.run l { e with proceed := b }).2 = { (m.run l e).2 with proceed := b } :=
  ⟨(Q.run_proceed_irrelevant (m l) e b h).1, (Q.run_proceed_irrelevant (m l) e b h).2.1⟩

theorem run_touched_irrelevant (m : M α) (l : Local) (e : Env) (t t' : List Char) :
    (m.run l { e with touched := t }).1 = (m.run l { e with touched := t' }).1 ∧
    (m.run l { e with touched := t }).2.tape = (m.run l { e with touched := t' }).2.tape :=
  ⟨Q.run_touched_irrelevant (m l) e t t', Q.tape_touched_irrelevant (m l) e t t'⟩

theorem touched_prefix (m : M α) (l : Local) (e : Env) : e.touched <+: (m.run l e).2.touched :=
  Q.touched_prefix (m l) e

theorem run_prefix (m : M α) (l : Local) (k : Nat) (e e' : Env) (h : Env.PrefixAgree k e e')
    (hq : ∀ q ∈ asked m l e, q.readsWhole = false) (hk : maxCell m l e ≤ k) :
    (m.run l e).1 = (m.run l e').1 ∧ (m.run l e).2.tape.idx = (m.run l e').2.tape.idx ∧
    (m.run l e).2.touched = (m.run l e').2.touched :=
  ⟨(Q.run_prefix (m l) k e e' h hq hk).1, Q.run_prefix_idx (m l) k e e' h hq hk⟩

end M

/-! ### one top-level parser run: `runParser` -/

/-- the environment `runParser` builds -/
def runParserEnv (s : Str) (o : Opts) (t : List Char) : Env :=
  { tape := Tape.ofInput s, strict := o.strict, proceed := o.proceed, touched := t }

/-- the queries one top-level parser run makes -/
def runParserAsked (s : Str) (o : Opts) (t : List Char) : List Query :=
  (parserRun maxDepth).asked { limit := o.limit } (runParserEnv s o t)

theorem runParser_eq (s : Str) (o : Opts) (t : List Char) :
    runParser s o t =
      ((((parserRun maxDepth).run { limit := o.limit } (runParserEnv s o t)).1).map (·.1),
       ((parserRun maxDepth).run { limit := o.limit } (runParserEnv s o t)).2.touched) := rfl

/-- **C17 for one parser run**: if the run does not read `strictmode`, its value is irrelevant -/
theorem runParser_strict_irrelevant (s : Str) (o : Opts) (t : List Char) (b : Bool)
    (h : Query.optStrict ∉ runParserAsked s o t) :
    runParser s { o with strict := b } t = runParser s o t := by
  have h1 := M.run_strict_irrelevant (parserRun maxDepth) { limit := o.limit }
    (runParserEnv s o t) b h
  rw [runParser_eq, runParser_eq]
  have e1 : runParserEnv s { o with strict := b } t = { runParserEnv s o t with strict := b } := rfl
  rw [e1, h1.1, h1.2]

theorem runParser_proceed_irrelevant (s : Str) (o : Opts) (t : List Char) (b : Bool)
    (h : Query.optProceed ∉ runParserAsked s o t) :
    runParser s { o with proceed := b } t = runParser s o t := by
  have h1 := M.run_proceed_irrelevant (parserRun maxDepth) { limit := o.limit }
    (runParserEnv s o t) b h
  rw [runParser_eq, runParser_eq]
  have e1 : runParserEnv s { o with proceed := b } t = { runParserEnv s o t with proceed := b } :=
    rfl
  rw [e1, h1.1, h1.2]

/-- **C18 for one parser run**: the outcome does not depend on the content of `sh_syntaxtab` -/
theorem runParser_touched_irrelevant (s : Str) (o : Opts) (t t' : List Char) :
    (runParser s o t).1 = (runParser s o t').1 := by
  rw [runParser_eq, runParser_eq]
  exact congrArg (Except.map (·.1))
    (M.run_touched_irrelevant (parserRun maxDepth) { limit := o.limit } (runParserEnv s o []) t t').1

theorem runParser_store_prefix (s : Str) (o : Opts) (t : List Char) : t <+: (runParser s o t).2 := by
  rw [runParser_eq]
  exact M.touched_prefix (parserRun maxDepth) { limit := o.limit } (runParserEnv s o t)

/-- **C13 for one parser run**: two inputs whose tapes agree on the cells the run examines
    give the same outcome -/
theorem runParser_prefix (s s' : Str) (o : Opts) (t : List Char) (k : Nat)
    (hl : ∀ i, i < k → (Tape.ofInput s).line[i]? = (Tape.ofInput s').line[i]?)
    (hq : ∀ q ∈ runParserAsked s o t, q.readsWhole = false)
    (hk : (parserRun maxDepth).maxCell { limit := o.limit } (runParserEnv s o t) ≤ k) :
    runParser s o t = runParser s' o t := by
  have hi : ∀ s : Str, (Tape.ofInput s).idx = 0 := by
    intro s; unfold Tape.ofInput; split
    · rfl
    · split <;> rfl
  have h := M.run_prefix (parserRun maxDepth) { limit := o.limit } k (runParserEnv s o t)
    (runParserEnv s' o t) ⟨(hi s).trans (hi s').symm, hl, rfl, rfl, rfl⟩ hq hk
  rw [runParser_eq, runParser_eq, h.1, h.2.2]

/-! ### `parsesingle`, `parse` -/

theorem parsesingle_strict_irrelevant (s : Str) (o : Opts) (b : Bool)
    (h : Query.optStrict ∉ runParserAsked s o []) :
    parsesingle s { o with strict := b } = parsesingle s o := by
  unfold parsesingle; rw [runParser_strict_irrelevant s o [] b h]

theorem parsesingle_proceed_irrelevant (s : Str) (o : Opts) (b : Bool)
    (h : Query.optProceed ∉ runParserAsked s o []) :
    parsesingle s { o with proceed := b } = parsesingle s o := by
  unfold parsesingle; rw [runParser_proceed_irrelevant s o [] b h]

/-- the loop of `parse` returns the same parts whatever `sh_syntaxtab` holds when it starts -/
theorem parseLoop_touched_irrelevant (s : Str) (o : Opts) : ∀ (fuel index : Nat) (parts : List Node)
    (t t' : List Char), (parseLoop s o fuel index parts t).1 = (parseLoop s o fuel index parts t').1 := by
  intro fuel
  induction fuel with
  | zero => intro index parts t t'; rfl
  | succ fuel ih =>
    intro index parts t t'
    unfold parseLoop
    split
    · have h := runParser_touched_irrelevant (s.drop index) o t t'
      rcases h1 : runParser (s.drop index) o t with ⟨r, u⟩
      rcases h2 : runParser (s.drop index) o t' with ⟨r', u'⟩
      rw [h1, h2] at h
      simp only at h
      subst h
      cases r with
      | error x => rfl
      | ok n =>
        cases n with
        | none => rfl
        | some part => exact ih _ _ _ _
    · rfl

/-- `bashlex.parse` in a process whose `sh_syntaxtab` already holds the keys `t` -/
def parseFrom (s : Str) (o : Opts) (t : List Char) : Outcome × List Char :=
  match runParser s o t with
  | (.error e, t) => (.exn e, t)
  | (.ok none, t) => (.parts [], t)
  | (.ok (some first), t) =>
    match parseLoop s o (s.length + 1) (max (nextIndex first) 1) [first] t with
    | (.error e, t) => (.exn e, t)
    | (.ok parts, t) => (.parts parts, t)

theorem parseFrom_nil (s : Str) (o : Opts) : parseFrom s o [] = parse s o := rfl

def parsesingleFrom (s : Str) (o : Opts) (t : List Char) : Outcome × List Char :=
  match runParser s o t with
  | (.error e, t) => (.exn e, t)
  | (.ok n, t) => (.single n, t)

theorem parsesingleFrom_nil (s : Str) (o : Opts) : parsesingleFrom s o [] = parsesingle s o := rfl

/-- **C18 for `parse`**: the outcome in any process history is the outcome in a fresh process -/
theorem parseFrom_touched_irrelevant (s : Str) (o : Opts) (t : List Char) :
    (parseFrom s o t).1 = (parse s o).1 := by
  rw [← parseFrom_nil]
  unfold parseFrom
  have h := runParser_touched_irrelevant s o t []
  rcases h1 : runParser s o t with ⟨r, u⟩
  rcases h2 : runParser s o [] with ⟨r', u'⟩
  rw [h1, h2] at h
  simp only at h
  subst h
  cases r with
  | error x => rfl
  | ok n =>
    cases n with
    | none => rfl
    | some first =>
      simp only
      have h3 := parseLoop_touched_irrelevant s o (s.length + 1) (max (nextIndex first) 1) [first] u u'
      rcases h4 : parseLoop s o (s.length + 1) (max (nextIndex first) 1) [first] u with ⟨r1, u1⟩
      rcases h5 : parseLoop s o (s.length + 1) (max (nextIndex first) 1) [first] u' with ⟨r2, u2⟩
      rw [h4, h5] at h3
      simp only at h3
      subst h3
      cases r1 <;> rfl

theorem parsesingleFrom_touched_irrelevant (s : Str) (o : Opts) (t : List Char) :
    (parsesingleFrom s o t).1 = (parsesingle s o).1 := by
  rw [← parsesingleFrom_nil]
  unfold parsesingleFrom
  have h := runParser_touched_irrelevant s o t []
  rcases h1 : runParser s o t with ⟨r, u⟩
  rcases h2 : runParser s o [] with ⟨r', u'⟩
  rw [h1, h2] at h
  simp only at h
  subst h
  cases r <;> rfl

/-- all queries made by the parser runs in the loop of `parse` -/
def parseLoopAsked (s : Str) (o : Opts) : Nat → Nat → List Char → List Query
  | 0, _, _ => []
  | fuel + 1, index, t =>
    if index < s.length then
      runParserAsked (s.drop index) o t ++
        match runParser (s.drop index) o t with
        | (.ok (some part), t') => parseLoopAsked s o fuel (max (nextIndex (part.shift index)) (index + 1)) t'
        | _ => []
    else []

/-- all queries made by all parser runs of `bashlex.parse(s, ...)` -/
def parseAsked (s : Str) (o : Opts) : List Query :=
  runParserAsked s o [] ++
    match runParser s o [] with
    | (.ok (some first), t) => parseLoopAsked s o (s.length + 1) (max (nextIndex first) 1) t
    | _ => []

theorem parseLoop_strict_irrelevant (s : Str) (o : Opts) (b : Bool) :
    ∀ (fuel index : Nat) (parts : List Node) (t : List Char),
    Query.optStrict ∉ parseLoopAsked s o fuel index t →
    parseLoop s { o with strict := b } fuel index parts t = parseLoop s o fuel index parts t := by
  intro fuel
  induction fuel with
  | zero => intro index parts t _; rfl
  | succ fuel ih =>
    intro index parts t h
    unfold parseLoop
    unfold parseLoopAsked at h
    split
    · next hlt =>
      rw [if_pos hlt, List.mem_append, not_or] at h
      rw [runParser_strict_irrelevant _ o t b h.1]
      have h2 := h.2
      rcases h1 : runParser (s.drop index) o t with ⟨r, u⟩
      rw [h1] at h2
      cases r with
      | error x => rfl
      | ok n =>
        cases n with
        | none => rfl
        | some part => exact ih _ _ _ h2
    · rfl

theorem parseLoop_proceed_irrelevant (s : Str) (o : Opts) (b : Bool) :
    ∀ (fuel index : Nat) (parts : List Node) (t : List Char),
    Query.optProceed ∉ parseLoopAsked s o fuel index t →
    parseLoop s { o with proceed := b } fuel index parts t = parseLoop s o fuel index parts t := by
  intro fuel
  induction fuel with
  | zero => intro index parts t _; rfl
  | succ fuel ih =>
    intro index parts t h
    unfold parseLoop
    unfold parseLoopAsked at h
    split
    · next hlt =>
      rw [if_pos hlt, List.mem_append, not_or] at h
      rw [runParser_proceed_irrelevant _ o t b h.1]
      have h2 := h.2
      rcases h1 : runParser (s.drop index) o t with ⟨r, u⟩
      rw [h1] at h2
      cases r with
      | error x => rfl
      | ok n =>
        cases n with
        | none => rfl
        | some part => exact ih _ _ _ h2
    · rfl

/-- **C17 for `parse`**: if no parser run of `parse(s, strictmode=...)` reads `strictmode`, the
    outcome is the same for the other value -/
theorem parse_strict_irrelevant (s : Str) (o : Opts) (b : Bool)
    (h : Query.optStrict ∉ parseAsked s o) : parse s { o with strict := b } = parse s o := by
  unfold parseAsked at h
  rw [List.mem_append, not_or] at h
  unfold parse
  rw [runParser_strict_irrelevant s o [] b h.1]
  have h2 := h.2
  rcases h1 : runParser s o [] with ⟨r, u⟩
  rw [h1] at h2
  cases r with
  | error x => rfl
  | ok n =>
    cases n with
    | none => rfl
    | some first =>
      simp only
      rw [parseLoop_strict_irrelevant s o b _ _ _ _ h2]

theorem parse_proceed_irrelevant (s : Str) (o : Opts) (b : Bool)
    (h : Query.optProceed ∉ parseAsked s o) : parse s { o with proceed := b } = parse s o := by
  unfold parseAsked at h
  rw [List.mem_append, not_or] at h
  unfold parse
  rw [runParser_proceed_irrelevant s o [] b h.1]
  have h2 := h.2
  rcases h1 : runParser s o [] with ⟨r, u⟩
  rw [h1] at h2
  cases r with
  | error x => rfl
  | ok n =>
    cases n with
    | none => rfl
    | some first =>
      simp only
      rw [parseLoop_proceed_irrelevant s o b _ _ _ _ h2]

/-! ## 5. Examples: the hypotheses are satisfiable -/

namespace Examples

/-- reads a character (removing backslash-newline); for `a` it looks the character up in the
    syntax table and reads the head position, for anything else it reads `strictmode` -/
def demo : Q (Option Char × Bool) :=
  .ask (.getc true) fun c =>
    match c with
    | .ok (some 'a') =>
      .ask (.syntab 'a') fun cls => .ask .idx fun i => .pure (some 'a', cls.brk || i == 3)
    | .ok c => .ask .optStrict fun b => .pure (c, b)
    | .error _ => .pure (none, false)

def env (line : Str) : Env := { tape := Tape.ofInput line }

-- the trace of a three-query run
example : Q.asked demo (env ['a', 'b']) = [.getc true, .syntab 'a', .idx] := by decide
example : Q.asked demo (env ['b']) = [.getc true, .optStrict] := by decide

-- 2a: on input "ab" the option is not read, hence irrelevant ...
example : (Q.run demo { env ['a', 'b'] with strict := false }).1 = (Q.run demo (env ['a', 'b'])).1 :=
  (Q.run_strict_irrelevant demo (env ['a', 'b']) false (by decide)).1
-- ... and on input "b" the results differ, hence it is read
example : Query.optStrict ∈ Q.asked demo (env ['b']) :=
  Q.optStrict_asked_of_ne demo (env ['b']) false (by decide)

-- 2b: on input "\\\nab" the run examines the cells 0, 1, 2 (backslash, newline, `a`) and no more
example : Q.maxCell demo (env ['\\', '\n', 'a', 'b']) = 3 := by decide
example : (Q.run demo (env ['\\', '\n', 'a', 'b'])).1 = (Q.run demo (env ['\\', '\n', 'a'])).1 ∧
    (Q.run demo (env ['\\', '\n', 'a', 'b'])).2.tape.idx =
      (Q.run demo (env ['\\', '\n', 'a'])).2.tape.idx := by
  have h := Q.run_prefix demo 3 (env ['\\', '\n', 'a', 'b']) (env ['\\', '\n', 'a'])
    ⟨rfl, by decide, rfl, rfl, rfl⟩ (by decide) (by decide)
  exact ⟨h.1, h.2.1.1⟩
-- (the two tapes differ from cell 3 on: `b` against the appended newline)
example : (env ['\\', '\n', 'a', 'b']).tape.line[3]? ≠ (env ['\\', '\n', 'a']).tape.line[3]? := by
  decide

-- 2c: the store is irrelevant for the result and grows by the key looked up
example : (Q.run demo { env ['a'] with touched := ['z'] }).1 = (Q.run demo (env ['a'])).1 :=
  Q.run_touched_irrelevant demo (env ['a']) ['z'] []
example : (Q.run demo { env ['a'] with touched := ['z'] }).2.touched = ['z', 'a'] := by decide

-- 3: a history of three calls
def jobs : List Job := [⟨demo, env ['a']⟩, ⟨demo, env ['b']⟩, ⟨Q.query (.syntab 'x'), env []⟩]
example : (History.run jobs ['q']).1 = jobs.map Job.soloVal := History.results_eq_solo jobs _
example : (History.run jobs ['q']).2 = ['q', 'a', 'x'] := by decide

-- 4: a pool of three threads under an unfair-looking but sufficient schedule
def sched : List Nat := [2, 1, 0, 7, 1, 0, 0]
example : ((Pool.mk jobs []).exec sched).jobs.map Job.value? = jobs.map (fun j => some j.soloVal) := by
  refine Pool.exec_all _ _ ?_
  intro n j h
  match n, h with
  | 0, h => cases h; decide
  | 1, h => cases h; decide
  | 2, h => cases h; decide
  | n + 3, h => cases h
example : ((Pool.mk jobs []).exec sched).store = ['x', 'a'] := by decide

end Examples

end Bashlex

/-! ## Axioms -/
section Axioms
open Bashlex
#print axioms Q.replay_trace
#print axioms Q.run_congr
#print axioms Q.run_congr_on
#print axioms Q.run_strict_irrelevant
#print axioms Q.run_proceed_irrelevant
#print axioms Q.optStrict_asked_of_ne
#print axioms Q.optProceed_asked_of_ne
#print axioms Q.run_frame
#print axioms Tape.getc_agree
#print axioms Tape.ungetc_agree
#print axioms Q.run_prefix
#print axioms Q.run_prefix_idx
#print axioms Q.run_prefix_maxCell
#print axioms Q.run_eqModStore
#print axioms Q.run_touched_irrelevant
#print axioms Q.run_touched
#print axioms Q.touched_prefix
#print axioms Q.key_mem_touched
#print axioms Q.mem_touched
#print axioms History.results_eq_solo
#print axioms History.result_get
#print axioms History.store_prefix
#print axioms History.storeBefore_mono
#print axioms Job.soloVal_step
#print axioms Pool.exec_value
#print axioms Pool.exec_pure
#print axioms Pool.exec_done
#print axioms Pool.exec_all
#print axioms Pool.exec_seqSchedule
#print axioms Pool.exec_store_prefix
#print axioms M.run_strict_irrelevant
#print axioms M.run_prefix
#print axioms runParser_strict_irrelevant
#print axioms runParser_proceed_irrelevant
#print axioms runParser_touched_irrelevant
#print axioms runParser_prefix
#print axioms parsesingle_strict_irrelevant
#print axioms parse_strict_irrelevant
#print axioms parse_proceed_irrelevant
#print axioms parseFrom_touched_irrelevant
#print axioms parsesingleFrom_touched_irrelevant
end Axioms
