/-
  A state-aware partial-correctness logic for the model monad `M`, next to the state-agnostic
  `M.Sat` of `Proofs/Hoare.lean`.

  `SatS m P Q E`: from every local state / environment satisfying `P`, a normal return of `m`
  satisfies `Q` (of the result and the final state / environment) and an exception satisfies `E`.
  Needed where an invariant relates values to the parser object's state (spans: the redirect
  store, the token frontier).
-/
import Bashlex.Proofs.Hoare

namespace Bashlex
namespace M

def SatS {α : Type} (m : M α) (P : Local → Env → Prop) (Q : α → Local → Env → Prop)
    (E : Exn → Prop := fun _ => True) : Prop :=
  ∀ l e, P l e → match m.run l e with
    | (.ok (a, l'), e') => Q a l' e'
    | (.error x, _) => E x

theorem SatS.pure {α : Type} {P : Local → Env → Prop} {Q : α → Local → Env → Prop}
    {E : Exn → Prop} {a : α} (h : ∀ l e, P l e → Q a l e) : SatS (Pure.pure a : M α) P Q E := by
  intro l e hp; rw [run_pure]; exact h l e hp

theorem SatS.raise {α : Type} {P : Local → Env → Prop} {Q : α → Local → Env → Prop}
    {E : Exn → Prop} {x : Exn} (h : E x) : SatS (M.raise x : M α) P Q E := by
  intro l e _; rw [run_raise]; exact h

theorem SatS.foreign {α : Type} {P : Local → Env → Prop} {Q : α → Local → Env → Prop}
    {E : Exn → Prop} {a b : String} (h : E (.foreign a b)) : SatS (M.foreign a b : M α) P Q E :=
  SatS.raise h

theorem SatS.bind {α β : Type} {m : M α} {f : α → M β} {P : Local → Env → Prop}
    {Q : α → Local → Env → Prop} {R : β → Local → Env → Prop} {E : Exn → Prop}
    (hm : SatS m P Q E) (hf : ∀ a, SatS (f a) (Q a) R E) : SatS (m >>= f) P R E := by
  intro l e hp
  rw [run_bind]
  have h1 := hm l e hp
  rcases h : m.run l e with ⟨r, e'⟩
  rw [h] at h1
  cases r with
  | ok v =>
    obtain ⟨a, l'⟩ := v
    exact hf a l' e' h1
  | error x => exact h1

theorem SatS.weaken {α : Type} {m : M α} {P P' : Local → Env → Prop}
    {Q Q' : α → Local → Env → Prop} {E F : Exn → Prop} (hm : SatS m P Q E)
    (hP : ∀ l e, P' l e → P l e) (hQ : ∀ a l e, Q a l e → Q' a l e) (hE : ∀ x, E x → F x) :
    SatS m P' Q' F := by
  intro l e hp
  have h1 := hm l e (hP l e hp)
  rcases hr : m.run l e with ⟨r, e'⟩
  rw [hr] at h1
  cases r with
  | ok v => exact hQ _ _ _ h1
  | error x => exact hE _ h1

theorem SatS.post {α : Type} {m : M α} {P : Local → Env → Prop}
    {Q Q' : α → Local → Env → Prop} {E : Exn → Prop} (hm : SatS m P Q E)
    (hQ : ∀ a l e, Q a l e → Q' a l e) : SatS m P Q' E :=
  hm.weaken (fun _ _ h => h) hQ (fun _ h => h)

theorem SatS.pre {α : Type} {m : M α} {P P' : Local → Env → Prop}
    {Q : α → Local → Env → Prop} {E : Exn → Prop} (hm : SatS m P Q E)
    (hP : ∀ l e, P' l e → P l e) : SatS m P' Q E :=
  hm.weaken hP (fun _ _ _ h => h) (fun _ h => h)

/-- a pure side condition of the precondition can be moved into the context -/
theorem SatS.assume {α : Type} {m : M α} {P : Local → Env → Prop} {C : Prop}
    {Q : α → Local → Env → Prop} {E : Exn → Prop} (h : C → SatS m P Q E) :
    SatS m (fun l e => C ∧ P l e) Q E := by
  intro l e hp; exact h hp.1 l e hp.2

/-- an existential of the precondition can be moved into the context -/
theorem SatS.exists_pre {α ι : Type} {m : M α} {P : ι → Local → Env → Prop}
    {Q : α → Local → Env → Prop} {E : Exn → Prop} (h : ∀ i, SatS m (P i) Q E) :
    SatS m (fun l e => ∃ i, P i l e) Q E := by
  intro l e ⟨i, hp⟩; exact h i l e hp

/-- a state-agnostic fact can be used wherever a state-aware one is expected -/
theorem SatS.of_sat {α : Type} {m : M α} {R : α → Prop} {E : Exn → Prop} (h : Sat m R E)
    (P : Local → Env → Prop) : SatS m P (fun a _ _ => R a) E := by
  intro l e _
  have h1 := h l e
  rcases hr : m.run l e with ⟨r, e'⟩
  rw [hr] at h1
  cases r with
  | ok v => exact h1
  | error x => exact h1

theorem SatS.and {α : Type} {m : M α} {P : Local → Env → Prop}
    {Q R : α → Local → Env → Prop} {E : Exn → Prop}
    (h1 : SatS m P Q E) (h2 : SatS m P R E) : SatS m P (fun a l e => Q a l e ∧ R a l e) E := by
  intro l e hp
  have a1 := h1 l e hp
  have a2 := h2 l e hp
  rcases hr : m.run l e with ⟨r, e'⟩
  rw [hr] at a1 a2
  cases r with
  | ok v => exact ⟨a1, a2⟩
  | error x => exact a1

theorem SatS.and_sat {α : Type} {m : M α} {P : Local → Env → Prop}
    {Q : α → Local → Env → Prop} {R : α → Prop} {E : Exn → Prop}
    (h1 : SatS m P Q E) (h2 : Sat m R (fun _ => True)) :
    SatS m P (fun a l e => Q a l e ∧ R a) E := by
  intro l e hp
  have a1 := h1 l e hp
  have a2 := h2 l e
  rcases hr : m.run l e with ⟨r, e'⟩
  rw [hr] at a1 a2
  cases r with
  | ok v => exact ⟨a1, a2⟩
  | error x => exact a1

/-- the state-agnostic reading of a state-aware fact with a trivial precondition -/
theorem SatS.to_sat {α : Type} {m : M α} {R : α → Prop} {E : Exn → Prop}
    (h : SatS m (fun _ _ => True) (fun a _ _ => R a) E) : Sat m R E := by
  intro l e
  have h1 := h l e True.intro
  rcases hr : m.run l e with ⟨r, e'⟩
  rw [hr] at h1
  cases r with
  | ok v => exact h1
  | error x => exact h1

theorem SatS.ite {α : Type} {c : Prop} [Decidable c] {a b : M α} {P : Local → Env → Prop}
    {Q : α → Local → Env → Prop} {E : Exn → Prop}
    (ha : c → SatS a P Q E) (hb : ¬ c → SatS b P Q E) : SatS (if c then a else b) P Q E := by
  split
  · exact ha ‹_›
  · exact hb ‹_›

theorem run_get (l : Local) (e : Env) : (get : M Local).run l e = (.ok (l, l), e) := rfl
theorem run_getThe (l : Local) (e : Env) : (getThe Local : M Local).run l e = (.ok (l, l), e) := rfl
theorem run_set (l0 l : Local) (e : Env) : (set l0 : M Unit).run l e = (.ok ((), l0), e) := rfl
theorem run_modify (f : Local → Local) (l : Local) (e : Env) :
    (modify f : M Unit).run l e = (.ok ((), f l), e) := rfl

theorem SatS.get {P : Local → Env → Prop} {E : Exn → Prop} :
    SatS (get : M Local) P (fun a l e => a = l ∧ P l e) E := by
  intro l e hp; exact ⟨rfl, hp⟩

theorem SatS.getThe {P : Local → Env → Prop} {E : Exn → Prop} :
    SatS (getThe Local : M Local) P (fun a l e => a = l ∧ P l e) E := by
  intro l e hp; exact ⟨rfl, hp⟩

theorem SatS.set {P : Local → Env → Prop} {E : Exn → Prop} {l0 : Local} :
    SatS (set l0 : M Unit) P (fun _ l e => l = l0 ∧ ∃ l1, P l1 e) E := by
  intro l e hp; exact ⟨rfl, l, hp⟩

theorem SatS.modify {P : Local → Env → Prop} {E : Exn → Prop} {f : Local → Local} :
    SatS (modify f : M Unit) P (fun _ l e => ∃ l1, l = f l1 ∧ P l1 e) E := by
  intro l e hp; exact ⟨l, rfl, hp⟩

/-- an environment query leaves the local state alone; the environment moves by `Env.answer` -/
theorem run_ask (q : Query) (l : Local) (e : Env) :
    (M.ask q).run l e = (.ok ((e.answer q).1, l), (e.answer q).2) := by
  show Q.run (Q.bind (Q.ask q Q.pure) _) e = _
  simp only [Q.bind, Q.run]
  rfl

theorem SatS.ask {P : Local → Env → Prop} {E : Exn → Prop} (q : Query) :
    SatS (M.ask q) P (fun a l e' => ∃ e, P l e ∧ a = (e.answer q).1 ∧ e' = (e.answer q).2) E := by
  intro l e hp; rw [run_ask]; exact ⟨e, hp, rfl, rfl⟩

theorem SatS.loop {σ α : Type} {site : String} {body : σ → M (σ ⊕ α)}
    {I : σ → Local → Env → Prop} {R : α → Local → Env → Prop} {E : Exn → Prop}
    (hfuel : E (.outOfFuel site))
    (hbody : ∀ s, SatS (body s) (I s) (fun r l e => Sum.elim (fun s' => I s' l e) (fun a => R a l e) r) E) :
    ∀ fuel s, SatS (M.loop site body fuel s) (I s) R E := by
  intro fuel
  induction fuel with
  | zero => intro s; exact SatS.raise hfuel
  | succ n ih =>
    intro s
    show SatS (body s >>= _) (I s) R E
    refine SatS.bind (hbody s) ?_
    intro r
    cases r with
    | inl s' => exact ih s'
    | inr a => exact SatS.pure (fun _ _ h => h)

theorem SatS.map {α β : Type} {m : M α} {f : α → β} {P : Local → Env → Prop}
    {Q : β → Local → Env → Prop} {E : Exn → Prop}
    (h : SatS m P (fun a l e => Q (f a) l e) E) : SatS (f <$> m) P Q E := by
  rw [map_eq_pure_bind]
  exact SatS.bind h (fun a => SatS.pure (fun _ _ h => h))

/-- what a normal return tells -/
theorem SatS.ok {α : Type} {m : M α} {P : Local → Env → Prop} {Q : α → Local → Env → Prop}
    {E : Exn → Prop} (h : SatS m P Q E) {l e a l' e'} (hp : P l e)
    (hr : m.run l e = (.ok (a, l'), e')) : Q a l' e' := by
  have := h l e hp; rw [hr] at this; exact this

/-- `for x in l do …` over a list, with an invariant indexed by the elements still to visit -/
theorem SatS.forIn_list {α β : Type} {f : α → β → M (ForInStep β)}
    {R : β → Local → Env → Prop} {E : Exn → Prop} (I : List α → β → Local → Env → Prop)
    (hstep : ∀ a rest b, SatS (f a b) (I (a :: rest) b)
      (fun r l e => match r with | .yield b' => I rest b' l e | .done b' => R b' l e) E)
    (hdone : ∀ b l e, I [] b l e → R b l e) :
    ∀ (xs : List α) (b : β), SatS (forIn xs b f) (I xs b) R E := by
  intro xs
  induction xs with
  | nil => intro b; rw [List.forIn_nil]; exact SatS.pure (hdone b)
  | cons a rest ih =>
    intro b
    rw [List.forIn_cons]
    refine SatS.bind (hstep a rest b) ?_
    intro r
    cases r with
    | done b' => exact SatS.pure (fun _ _ h => h)
    | yield b' => exact ih b'

end M
end Bashlex

namespace Bashlex
namespace M

/-- reasoning from a fixed initial state -/
theorem SatS.intro_state {α : Type} {m : M α} {P : Local → Env → Prop}
    {Q : α → Local → Env → Prop} {E : Exn → Prop}
    (h : ∀ l0 e0, P l0 e0 → SatS m (fun l e => l = l0 ∧ e = e0) Q E) : SatS m P Q E := by
  intro l e hp
  exact h l e hp l e ⟨rfl, rfl⟩

/-- `Keeps P m Φ`: `m` maintains the state predicate `P`, and its result satisfies `Φ`
    (the shape of most lemmas about code that only reads the state) -/
def Keeps {α : Type} (P : Local → Env → Prop) (m : M α) (Φ : α → Prop)
    (E : Exn → Prop := fun _ => True) : Prop :=
  SatS m P (fun a l e => P l e ∧ Φ a) E

theorem Keeps.pure {α : Type} {P : Local → Env → Prop} {Φ : α → Prop} {E : Exn → Prop} {a : α}
    (h : Φ a) : Keeps P (Pure.pure a : M α) Φ E :=
  SatS.pure (fun _ _ hp => ⟨hp, h⟩)

theorem Keeps.raise {α : Type} {P : Local → Env → Prop} {Φ : α → Prop} {E : Exn → Prop} {x : Exn}
    (h : E x) : Keeps P (M.raise x : M α) Φ E := SatS.raise h

theorem Keeps.foreign {α : Type} {P : Local → Env → Prop} {Φ : α → Prop} {E : Exn → Prop}
    {a b : String} (h : E (.foreign a b)) : Keeps P (M.foreign a b : M α) Φ E := SatS.raise h

theorem Keeps.bind {α β : Type} {P : Local → Env → Prop} {m : M α} {f : α → M β}
    {Φ : α → Prop} {Ψ : β → Prop} {E : Exn → Prop}
    (hm : Keeps P m Φ E) (hf : ∀ a, Φ a → Keeps P (f a) Ψ E) : Keeps P (m >>= f) Ψ E := by
  refine SatS.bind hm ?_
  intro a l e hp
  exact hf a hp.2 l e hp.1

theorem Keeps.weaken {α : Type} {P : Local → Env → Prop} {m : M α} {Φ Ψ : α → Prop}
    {E : Exn → Prop} (hm : Keeps P m Φ E) (h : ∀ a, Φ a → Ψ a) : Keeps P m Ψ E :=
  SatS.post hm (fun a _ _ hp => ⟨hp.1, h a hp.2⟩)

theorem Keeps.ite {α : Type} {c : Prop} [Decidable c] {P : Local → Env → Prop} {a b : M α}
    {Φ : α → Prop} {E : Exn → Prop} (ha : c → Keeps P a Φ E) (hb : ¬ c → Keeps P b Φ E) :
    Keeps P (if c then a else b) Φ E := by
  split
  · exact ha ‹_›
  · exact hb ‹_›

theorem Keeps.map {α β : Type} {P : Local → Env → Prop} {m : M α} {f : α → β} {Φ : β → Prop}
    {E : Exn → Prop} (h : Keeps P m (fun a => Φ (f a)) E) : Keeps P (f <$> m) Φ E := by
  rw [map_eq_pure_bind]
  exact Keeps.bind h (fun a ha => Keeps.pure ha)

/-- reading the state: the result is a state satisfying `P` (for some environment) -/
theorem Keeps.get {P : Local → Env → Prop} {E : Exn → Prop} :
    Keeps P (get : M Local) (fun l => ∃ e, P l e) E := by
  intro l e hp; exact ⟨hp, e, hp⟩

theorem Keeps.getThe {P : Local → Env → Prop} {E : Exn → Prop} :
    Keeps P (getThe Local : M Local) (fun l => ∃ e, P l e) E := by
  intro l e hp; exact ⟨hp, e, hp⟩

/-- a state-agnostic fact about a computation that maintains `P` -/
theorem Keeps.and_sat {α : Type} {P : Local → Env → Prop} {m : M α} {Φ Ψ : α → Prop}
    {E : Exn → Prop} (h1 : Keeps P m Φ E) (h2 : Sat m Ψ (fun _ => True)) :
    Keeps P m (fun a => Φ a ∧ Ψ a) E :=
  SatS.post (SatS.and_sat h1 h2) (fun _ _ _ h => ⟨h.1.1, h.1.2, h.2⟩)

theorem Keeps.forIn_list {α β : Type} {P : Local → Env → Prop} {f : α → β → M (ForInStep β)}
    {R : β → Prop} {E : Exn → Prop} (I : List α → β → Prop)
    (hstep : ∀ a rest b, I (a :: rest) b →
      Keeps P (f a b) (fun r => match r with | .yield b' => I rest b' | .done b' => R b') E)
    (hdone : ∀ b, I [] b → R b) :
    ∀ (xs : List α) (b : β), I xs b → Keeps P (forIn xs b f) R E := by
  intro xs
  induction xs with
  | nil => intro b hb; rw [List.forIn_nil]; exact Keeps.pure (hdone b hb)
  | cons a rest ih =>
    intro b hb
    rw [List.forIn_cons]
    refine Keeps.bind (hstep a rest b hb) ?_
    intro r hr
    cases r with
    | done b' => exact Keeps.pure hr
    | yield b' => exact ih b' hr

end M
end Bashlex

namespace Bashlex
namespace M

theorem Keeps.modify {P : Local → Env → Prop} {E : Exn → Prop} {f : Local → Local}
    (h : ∀ l e, P l e → P (f l) e) : Keeps P (modify f : M Unit) (fun _ => True) E := by
  intro l e hp; exact ⟨h l e hp, trivial⟩

end M
end Bashlex

namespace Bashlex
namespace M

theorem Keeps.loop {σ α : Type} {P : Local → Env → Prop} {site : String} {body : σ → M (σ ⊕ α)}
    {I : σ → Prop} {R : α → Prop} {E : Exn → Prop} (hfuel : E (.outOfFuel site))
    (hbody : ∀ s, I s → Keeps P (body s) (Sum.elim I R) E) :
    ∀ fuel s, I s → Keeps P (M.loop site body fuel s) R E := by
  intro fuel
  induction fuel with
  | zero => intro s _; exact Keeps.raise hfuel
  | succ n ih =>
    intro s hs
    show Keeps P (body s >>= _) R E
    refine Keeps.bind (hbody s hs) ?_
    intro r hr
    cases r with
    | inl s' => exact ih s' hr
    | inr a => exact Keeps.pure hr

end M
end Bashlex

