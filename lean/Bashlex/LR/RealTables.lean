/-
  The tables bashlex actually runs with (regenerated from /repo on every check run), as data for
  the model.  The obligations about them live in `Bashlex/LR/Real.lean`, so that the model (and
  the driver) still build when an obligation fails on changed tables.
-/
import Bashlex.Gen.Tables
import Bashlex.LR.Engine

namespace Bashlex.LR
open Bashlex

structure Raw where
  nTerms : Nat
  prods : List (Nat × List Nat)
  actionRows : List (List Nat)
  gotoRows : List (List Nat)
  dflt : List (Nat × Nat)
  endTok : Nat
  nlTok : Nat
  /-- certificates -/
  reach : List Nat
  acc : List Nat
  preds : List (List Nat)

def decodeAct (code : Nat) : Act :=
  if 2048 < code then .shift (code - 2048) else if code < 2048 then .reduce (2048 - code) else .accept

def rowLookup (row : List Nat) (k : Nat) : Option Nat :=
  (row.find? (fun e => e / 4096 == k)).map (· % 4096)

namespace Raw
def actionRow (R : Raw) (s : Nat) : List Nat := R.actionRows.getD s []
def gotoRow (R : Raw) (s : Nat) : List Nat := R.gotoRows.getD s []
def action (R : Raw) (s la : Nat) : Option Act := (rowLookup (R.actionRow s) la).map decodeAct
def goto (R : Raw) (s X : Nat) : Option Nat := rowLookup (R.gotoRow s) X
def dfltOf (R : Raw) (s : Nat) : Option Nat := (R.dflt.find? (fun d => d.1 == s)).map (·.2)
def accOf (R : Raw) (s : Nat) : Nat := R.acc.getD s 0
def predsOf (R : Raw) (s : Nat) : List Nat := R.preds.getD s []

def toTables (R : Raw) : Tables :=
  { nTerms := R.nTerms, prods := R.prods, action := R.action, goto := R.goto, dflt := R.dfltOf,
    endTok := R.endTok, nlTok := R.nlTok }
end Raw

def realRaw : Raw :=
  { nTerms := Gen.termNames.length
    prods := Gen.prodTable
    actionRows := Gen.actionRows
    gotoRows := Gen.gotoRows
    dflt := Gen.defaultedStates
    endTok := 0          -- "$end"
    nlTok := 55          -- "NEWLINE" (checked in Real.lean)
    reach := Gen.stateReachCert
    acc := Gen.accCert
    preds := Gen.predsCert }

def realTables : Tables := realRaw.toTables

end Bashlex.LR
