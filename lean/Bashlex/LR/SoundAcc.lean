/-
  A refinement of `run_sound` that also tracks *which symbol* is at the root of an accepted
  derivation: the engine accepts either because a semantic action asked for it (YaccAccept) or
  through the `accept` entry of the action table.  If both can only happen at symbols satisfying
  `A`, then the root of every accepted tree satisfies `A`.
  (Same proof as `step_sat`/`run_sound`, with the stronger post-condition; the combinatorial
  lemmas `pop_of_back`, `forall2_of_entries` are reused.)
-/
import Bashlex.LR.Sound
import Bashlex.LR.Check

namespace Bashlex.LR
open Bashlex
set_option linter.unusedSimpArgs false

variable {V : Type}

/-- as `HooksRaise`, and an action that raises YaccAccept does so only for a left-hand side in `A` -/
structure HooksAcc (T : Tables) (H : Hooks V) (VI : Nat → V → Prop) (A : Nat → Prop)
    (E : Exn → Prop) : Prop where
  next : M.Sat H.next (fun la => VI la.1 la.2) E
  act : ∀ p lhs rhs args, T.prods[p]? = some (lhs, rhs) → Forall2 VI rhs args →
      M.Sat (H.act p args) (fun r => VI lhs r.1 ∧ (r.2 = true → A lhs)) E
  onError : ∀ la, M.Sat (H.onError la) (fun _ => True) E

theorem HooksAcc.toRaise {T : Tables} {H : Hooks V} {VI A E} (h : HooksAcc T H VI A E) :
    HooksRaise T H VI E :=
  ⟨h.next, fun p lhs rhs args hp ha => (h.act p lhs rhs args hp ha).weaken (fun _ h => h.1)
    (fun _ h => h), h.onError⟩

/-- what a normal return guarantees about the accepted value and the root symbol -/
def GoodAcc (VI : Nat → V → Prop) (A : Nat → Prop) : Res V → Prop
  | .accepted v tr _ _ => VI tr.root v ∧ A tr.root
  | .blank _ _ => True

theorem doReduce_acc {T reach acc} (h : WF T reach acc) (H : Hooks V) {VI A E}
    (hH : HooksAcc T H VI A E) (c : Cfg V) (p : Nat)
    (hinv : Inv T reach VI c)
    (hb : ∃ lhs rhs, T.prods[p]? = some (lhs, rhs) ∧
          BackOK T reach acc (topState c.stack) rhs.reverse lhs) :
    M.Sat (doReduce T H c p)
      (Sum.elim (fun _ => True) (GoodAcc VI A)) (EngineExn E) := by
  obtain ⟨⟨hp, hv, ⟨pre, hc, hpre⟩⟩, hvi, hvila⟩ := hinv
  obtain ⟨lhs, rhs, hprod, hback⟩ := hb
  obtain ⟨es, rest, t, hpop, hroots, hvl, hp', hv', hg, hl, hy, hmes, hmrest⟩ :=
    pop_of_back h rhs.reverse c.stack lhs hp hv hback
  simp only [List.length_reverse] at hpop
  have hroots' : es.map (fun e => e.tree.root) = rhs := by simpa using hroots
  have hargs : Forall2 VI rhs (es.map (·.val)) :=
    forall2_of_entries es rhs hroots' (fun e he => hvi e (hmes e he))
  unfold doReduce
  simp only [hprod, hpop]
  refine M.Sat.bind ((hH.act p lhs rhs _ hprod hargs).weaken (fun _ h => h) (fun _ h => Or.inl h)) ?_
  rintro ⟨v, accept⟩ ⟨hvlhs, hacc'⟩
  simp only at hvlhs hacc'
  simp only [hg]
  by_cases hacc : accept = true
  · simp only [hacc, if_true]
    refine M.Sat.pure (P := Sum.elim (fun _ => True) (GoodAcc VI A)) ?_
    simp only [Sum.elim_inr]
    exact ⟨hvlhs, hacc' hacc⟩
  · simp only [hacc]
    exact M.Sat.pure (P := Sum.elim (fun _ => True) (GoodAcc VI A)) True.intro

theorem step_acc {T reach acc} (h : WF T reach acc)
    (hA : ∀ s la, reach s → T.action s la = some .accept → A (acc s))
    (H : Hooks V) {VI E} (hH : HooksAcc T H VI A E) (c : Cfg V) (hinv : Inv T reach VI c) :
    M.Sat (step T H c)
      (Sum.elim (fun _ => True) (GoodAcc VI A)) (EngineExn E) := by
  have hinv' := hinv
  obtain ⟨⟨hp, hv, ⟨pre, hc, hpre⟩⟩, hvi, hvila⟩ := hinv
  have hr := reach_top h hp
  unfold step
  simp only
  cases hd : T.dflt (topState c.stack) with
  | some p => exact doReduce_acc h H hH c p hinv' (h.redDflt _ p hr hd)
  | none =>
    simp only
    refine M.Sat.bind (P := fun la => VI la.1 la.2) ?_ ?_
    · cases hla : c.la with
      | some la => exact M.Sat.pure (hvila la hla)
      | none => exact hH.next.weaken (fun _ h => h) (fun _ h => Or.inl h)
    rintro ⟨la, lv⟩ hvla
    simp only at hvla
    simp only
    have hinvla : Inv T reach VI { c with la := some (la, lv) } :=
      ⟨⟨hp, hv, ⟨pre, by simpa using hc, hpre⟩⟩, hvi, by
        intro la' hla'; simp only [Option.some.injEq] at hla'; subst hla'; exact hvla⟩
    split
    · exact M.Sat.pure (P := Sum.elim (fun _ => True) (GoodAcc VI A)) True.intro
    · cases hact : T.action (topState c.stack) la with
      | none =>
        simp only
        refine M.Sat.bind ((hH.onError _).weaken (fun _ h => h) (fun _ h => Or.inl h)) ?_
        intro _ _
        exact M.Sat.foreign (Or.inr (Or.inr rfl))
      | some a =>
        cases a with
        | shift t =>
          simp only
          split
          · exact M.Sat.pure (P := Sum.elim (fun _ => True) (GoodAcc VI A)) True.intro
          · exact M.Sat.pure (P := Sum.elim (fun _ => True) (GoodAcc VI A)) True.intro
        | reduce p =>
          exact doReduce_acc h H hH _ p hinvla (h.redAct _ _ p hr hact)
        | accept =>
          simp only
          split
          · rename_i top rest hstk
            have hstk' : c.stack = top :: rest := hstk
            refine M.Sat.pure (P := Sum.elim (fun _ => True) (GoodAcc VI A)) ?_
            simp only [Sum.elim_inr]
            have hvtop := hvi top (by rw [hstk']; exact List.mem_cons_self)
            refine ⟨hvtop, ?_⟩
            rw [hstk'] at hp hact
            have hroot := (h.closed _ _ _ (reach_top h hp.2.2) hp.2.1).2.1
            rw [← hroot]
            exact hA _ _ hp.1 hact
          · exact M.Sat.pure (P := Sum.elim (fun _ => True) (GoodAcc VI A)) True.intro

/-- the engine's invariant is maintained (from `step_sat`) and accepted roots satisfy `A` -/
theorem run_sound_acc {T reach acc} (h : WF T reach acc) {A : Nat → Prop}
    (hA : ∀ s la, reach s → T.action s la = some .accept → A (acc s))
    (H : Hooks V) {VI E} (hH : HooksAcc T H VI A E) (fuel : Nat) :
    M.Sat (run T H fuel) (GoodAcc VI A) (EngineExn E) := by
  unfold run
  refine M.Sat.loop (I := Inv T reach VI) (R := GoodAcc VI A) (Or.inr (Or.inl rfl)) ?_ fuel {} ?_
  · intro s hs
    have h1 := step_sat h H hH.toRaise s hs
    have h2 := step_acc h hA H hH s hs
    refine (M.Sat.and h1 h2).weaken ?_ (fun _ hx => hx)
    intro r ⟨a1, a2⟩
    cases r with
    | inl c => exact a1
    | inr res => exact a2
  · refine ⟨⟨True.intro, True.intro, ⟨[], by simp [forestYield], by simp⟩⟩, ?_, ?_⟩
    · intro e he; cases he
    · intro la hla; cases hla

/-! ### the accept entries of tables given in `Raw` form -/

/-- every `accept` entry in the row of a reachable state sits in a state whose accessing symbol
    satisfies `okSym` -/
def Raw.checkAccept (R : Raw) (okSym : Nat → Bool) : Bool :=
  R.reach.all fun s => (R.actionRow s).all fun e =>
    decodeAct (e % 4096) != .accept || okSym (R.accOf s)

theorem Raw.checkAccept_sound {R : Raw} {okSym : Nat → Bool} (hc : R.checkAccept okSym = true) :
    ∀ s la, s ∈ R.reach → R.toTables.action s la = some .accept → okSym (R.accOf s) = true := by
  intro s la hs hact
  obtain ⟨e, hmem, _, hd⟩ := Raw.action_mem (R := R) hact
  unfold Raw.checkAccept at hc
  simp only [List.all_eq_true] at hc
  have := hc s hs e hmem
  simpa [hd] using this

end Bashlex.LR
