/-
  The tables bashlex actually runs with (regenerated from /repo on every check run), their
  well-formedness (kernel-evaluated), and the resulting instances of T1.
-/
import Bashlex.LR.Check

namespace Bashlex.LR
open Bashlex

theorem real_symbols : Gen.termNames[realRaw.endTok]? = some "$end" ∧
    Gen.termNames[realRaw.nlTok]? = some "NEWLINE" := by decide

/-- the regenerated tables pass the well-formedness check (kernel evaluation) -/
theorem real_check : realRaw.check = true := by decide +kernel

theorem real_WF : WF realTables (· ∈ realRaw.reach) realRaw.accOf :=
  Raw.check_sound real_check

/-- the symbols a semantic action may accept at: `inputunit` and `simple_list` (by name) -/
def acceptSyms : List Nat :=
  (Gen.ntNames.zipIdx.filter fun (n, _) => n == "inputunit" || n == "simple_list").map fun (_, i) =>
    Gen.termNames.length + i

theorem real_checkAcc : realRaw.checkAcc acceptSyms = true := by decide +kernel

theorem real_AccOK : AccOK realTables (· ∈ realRaw.reach) (· ∈ acceptSyms) :=
  Raw.checkAcc_sound real_check real_checkAcc

end Bashlex.LR
