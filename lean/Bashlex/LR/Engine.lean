/-
  The LR engine of bashlex/yacc.py (`LRParser.parse`) with the bashlex tweaks, generic in the
  token source and in the semantic actions.

  * NEWLINE shifted in state 0 is not pushed on the state stack;
  * in state 0, on `$end`, with nothing but NEWLINE tokens on the symbol stack, the engine returns;
  * defaulted states reduce without consulting (or fetching) the look-ahead;
  * a semantic action may accept (YaccAccept);
  * a missing action entry calls the error function (which always raises in bashlex).

  Every stack entry carries a ghost derivation tree; the engine also records the terminals it
  consumed.  Neither influences control; they are what the soundness theorem talks about.
-/
import Bashlex.Model.Monad

namespace Bashlex.LR

inductive Act where
  | shift (s : Nat) | reduce (p : Nat) | accept
  deriving DecidableEq, Repr

structure Tables where
  nTerms : Nat
  prods : List (Nat × List Nat)
  action : Nat → Nat → Option Act
  goto : Nat → Nat → Option Nat
  dflt : Nat → Option Nat
  endTok : Nat
  nlTok : Nat

namespace Tables
/-- the automaton's edges: shifts on terminals, gotos on non-terminals -/
def edge (T : Tables) (s X : Nat) : Option Nat :=
  if X < T.nTerms then
    match T.action s X with
    | some (.shift t) => some t
    | _ => none
  else T.goto s X
end Tables

inductive Tree where
  | leaf (sym : Nat)
  | node (p : Nat) (lhs : Nat) (kids : List Tree)
  deriving Repr, Inhabited

namespace Tree
def root : Tree → Nat
  | leaf s => s
  | node _ l _ => l

mutual
def yield : Tree → List Nat
  | leaf s => [s]
  | node _ _ ks => yields ks
def yields : List Tree → List Nat
  | [] => []
  | t :: ts => yield t ++ yields ts
end

/-- `Valid T t`: `t` is a derivation tree of the grammar `T.prods` -/
inductive Valid (T : Tables) : Tree → Prop
  | leaf (s) : s < T.nTerms → Valid T (leaf s)
  | node (p lhs ks rhs) : T.prods[p]? = some (lhs, rhs) → ks.map root = rhs →
      (∀ k, k ∈ ks → Valid T k) → Valid T (node p lhs ks)

mutual
/-- the productions used, in the order the engine reduced them (post-order) -/
def reductions : Tree → List Nat
  | leaf _ => []
  | node p _ ks => reductionsL ks ++ [p]
def reductionsL : List Tree → List Nat
  | [] => []
  | t :: ts => reductions t ++ reductionsL ts
end
end Tree

/-- stack entry: state, ghost tree, payload (token or semantic value) -/
structure Entry (V : Type) where
  state : Nat
  tree : Tree
  val : V

abbrev Stack (V : Type) := List (Entry V)   -- top first

def topState {V : Type} : Stack V → Nat
  | [] => 0
  | e :: _ => e.state

/-- pop `n` entries; result in left-to-right order -/
def popN {V : Type} : Nat → Stack V → Option (List (Entry V) × Stack V)
  | 0, st => some ([], st)
  | _+1, [] => none
  | k+1, e :: st => (popN k st).map fun (es, r) => (es ++ [e], r)

inductive Res (V : Type) where
  /-- accepted: by the accept action (`byAction = true`) or by a semantic action (YaccAccept) -/
  | accepted (v : V) (tree : Tree) (consumed : List Nat) (byAction : Bool)
  /-- the "everything is a newline" return: `nl` = number of NEWLINE tokens seen -/
  | blank (nl : Nat) (consumed : List Nat)

structure Cfg (V : Type) where
  stack : Stack V := []
  la : Option (Nat × V) := none
  /-- NEWLINE tokens shifted in state 0 (they sit at the bottom of Python's symstack) -/
  nlShifted : Nat := 0
  consumed : List Nat := []

/-- what the engine needs from its client -/
structure Hooks (V : Type) where
  /-- `lexer.token()`: terminal number and payload -/
  next : M (Nat × V)
  /-- `p.callable(pslice)`: production, right-hand-side payloads → value and YaccAccept flag -/
  act : (p : Nat) → (args : List V) → M (V × Bool)
  /-- `errorfunc(errtoken)`; in bashlex it always raises -/
  onError : (la : Nat × V) → M Unit
  /-- is this payload a NEWLINE token (for the all-newline return) -/
  isNl : V → Bool

variable {V : Type}

def doReduce (T : Tables) (H : Hooks V) (c : Cfg V) (p : Nat) : M (Cfg V ⊕ Res V) :=
  match T.prods[p]? with
  | none => M.foreign "IndexError" "LRParser.parse"
  | some (lhs, rhs) =>
    match popN rhs.length c.stack with
    | none => M.foreign "IndexError" "LRParser.parse"
    | some (es, rest) => do
      let (v, accept) ← H.act p (es.map (·.val))
      match T.goto (topState rest) lhs with
      | none => M.foreign "KeyError" "LRParser.parse"
      | some t =>
        let tr := Tree.node p lhs (es.map (·.tree))
        if accept then pure (.inr (.accepted v tr c.consumed false))
        else pure (.inl { c with stack := { state := t, tree := tr, val := v } :: rest })

def step (T : Tables) (H : Hooks V) (c : Cfg V) : M (Cfg V ⊕ Res V) := do
  let s := topState c.stack
  match T.dflt s with
  | some p => doReduce T H c p
  | none =>
    let la ← (match c.la with
      | some la => pure la
      | none => H.next)
    let c := { c with la := some la }
    if s == 0 && la.1 == T.endTok && c.stack.all (fun e => H.isNl e.val) then
      pure (.inr (.blank c.nlShifted c.consumed))
    else
    match T.action s la.1 with
    | none => do
      H.onError la
      -- p_error returned: PLY's error recovery is not modelled (bashlex's p_error always raises)
      M.foreign "NotModelled" "LRParser.parse(error recovery)"
    | some (.shift t) =>
      if s == 0 && la.1 == T.nlTok then
        pure (.inl { c with la := none, nlShifted := c.nlShifted + 1, consumed := c.consumed ++ [la.1] })
      else
        pure (.inl { c with la := none, consumed := c.consumed ++ [la.1],
                            stack := { state := t, tree := .leaf la.1, val := la.2 } :: c.stack })
    | some (.reduce p) => doReduce T H c p
    | some .accept =>
      match c.stack with
      | e :: _ => pure (.inr (.accepted e.val e.tree c.consumed true))
      | [] => pure (.inr (.blank c.nlShifted c.consumed))   -- symstack[-1] is the sentinel / a NEWLINE

def run (T : Tables) (H : Hooks V) (fuel : Nat) : M (Res V) :=
  M.loop "LRParser.parse" (step T H) fuel {}

end Bashlex.LR
