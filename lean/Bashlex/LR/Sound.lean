/-
  T1: safety and soundness of the LR engine from a well-formedness property of the tables,
  for every token source and every family of semantic actions.
-/
import Bashlex.LR.Engine
import Bashlex.Proofs.Hoare

namespace Bashlex.LR
open Bashlex
set_option linter.unusedSimpArgs false

namespace Tree
theorem yields_append (a b : List Tree) : yields (a ++ b) = yields a ++ yields b := by
  induction a with
  | nil => simp [yields]
  | cons k ks ih => simp [yields, ih, List.append_assoc]
end Tree

/-- well-formedness of the tables, stated per backward path: from a state that reduces `p`,
    *every* backward path through reachable states spells `rhs(p)` reversed and ends in a state
    with a goto on `lhs(p)` -/
inductive BackOK (T : Tables) (reach : Nat → Prop) (acc : Nat → Nat) : Nat → List Nat → Nat → Prop
  | base (s lhs t) : T.edge s lhs = some t → T.nTerms ≤ lhs → BackOK T reach acc s [] lhs
  | step (s x xs lhs) : s ≠ 0 → acc s = x →
      (∀ s', reach s' → T.edge s' x = some s → BackOK T reach acc s' xs lhs) →
      BackOK T reach acc s (x :: xs) lhs

structure WF (T : Tables) (reach : Nat → Prop) (acc : Nat → Nat) : Prop where
  reach0 : reach 0
  closed : ∀ s X t, reach s → T.edge s X = some t → reach t ∧ acc t = X ∧ t ≠ 0
  redAct : ∀ s la p, reach s → T.action s la = some (.reduce p) →
      ∃ lhs rhs, T.prods[p]? = some (lhs, rhs) ∧ BackOK T reach acc s rhs.reverse lhs
  redDflt : ∀ s p, reach s → T.dflt s = some p →
      ∃ lhs rhs, T.prods[p]? = some (lhs, rhs) ∧ BackOK T reach acc s rhs.reverse lhs
  shiftTerm : ∀ s la t, T.action s la = some (.shift t) → la < T.nTerms
  acceptNotInit : ∀ la, T.action 0 la ≠ some .accept

variable {V : Type}

def PathOK (T : Tables) (reach : Nat → Prop) : Stack V → Prop
  | [] => True
  | e :: rest => reach e.state ∧ T.edge (topState rest) e.tree.root = some e.state ∧ PathOK T reach rest

def forestYield : Stack V → List Nat
  | [] => []
  | e :: rest => forestYield rest ++ e.tree.yield

def AllValid (T : Tables) : Stack V → Prop
  | [] => True
  | e :: rest => Tree.Valid T e.tree ∧ AllValid T rest

theorem reach_top {T reach acc} (h : WF T reach acc) {stk : Stack V} (hp : PathOK T reach stk) :
    reach (topState stk) := by
  cases stk with
  | nil => exact h.reach0
  | cons x r => exact hp.1

/-- key lemma: `BackOK` along a path-shaped stack pops exactly the right-hand side -/
theorem pop_of_back {T reach acc} (h : WF T reach acc) :
    ∀ (xs : List Nat) (stk : Stack V) (lhs : Nat),
      PathOK T reach stk → AllValid T stk →
      BackOK T reach acc (topState stk) xs lhs →
      ∃ es rest t, popN xs.length stk = some (es, rest) ∧
        es.map (fun e => e.tree.root) = xs.reverse ∧ (∀ e, e ∈ es → Tree.Valid T e.tree) ∧
        PathOK T reach rest ∧ AllValid T rest ∧
        T.goto (topState rest) lhs = some t ∧ T.nTerms ≤ lhs ∧
        forestYield stk = forestYield rest ++ Tree.yields (es.map (·.tree)) ∧
        (∀ e, e ∈ es → e ∈ stk) ∧ (∀ e, e ∈ rest → e ∈ stk) := by
  intro xs
  induction xs with
  | nil =>
    intro stk lhs hp hv hb
    cases hb with
    | base s lhs t he hl =>
      refine ⟨[], stk, t, rfl, rfl, by simp, hp, hv, ?_, hl, by simp [Tree.yields], by simp, fun _ h => h⟩
      have : ¬ lhs < T.nTerms := Nat.not_lt.mpr hl
      simpa [Tables.edge, this] using he
  | cons x xs ih =>
    intro stk lhs hp hv hb
    cases hb with
    | step s x xs lhs hne hacc hall =>
      cases stk with
      | nil => exact absurd rfl hne
      | cons top rest =>
        simp only [topState] at hacc hall hne
        obtain ⟨hrs, hedge, hprest⟩ := hp
        obtain ⟨hvt, hvrest⟩ := hv
        have hroot : top.tree.root = x := by
          have := (h.closed _ _ _ (reach_top h hprest) hedge).2.1
          rw [← this]; exact hacc
        have hb' := hall (topState rest) (reach_top h hprest) (by rw [← hroot]; exact hedge)
        obtain ⟨es, rest', t', hpop, hroots, hvl, hp', hv', hg, hl, hy, hmes, hmrest⟩ :=
          ih rest lhs hprest hvrest hb'
        refine ⟨es ++ [top], rest', t', ?_, ?_, ?_, hp', hv', hg, hl, ?_, ?_, ?_⟩
        · simp [popN, hpop]
        · simp [hroots, hroot]
        · intro k hk
          rcases List.mem_append.mp hk with hk | hk
          · exact hvl k hk
          · simp at hk; subst hk; exact hvt
        · simp [forestYield, hy, Tree.yields_append, Tree.yields, List.append_assoc]
        · intro e he
          rcases List.mem_append.mp he with he | he
          · exact List.mem_cons_of_mem _ (hmes e he)
          · simp at he; subst he; exact List.mem_cons_self
        · intro e he; exact List.mem_cons_of_mem _ (hmrest e he)

/-- pointwise relation between two lists of equal length -/
inductive Forall2 {α β : Type} (R : α → β → Prop) : List α → List β → Prop
  | nil : Forall2 R [] []
  | cons {a b l₁ l₂} : R a b → Forall2 R l₁ l₂ → Forall2 R (a :: l₁) (b :: l₂)

theorem forall2_of_entries {VI : Nat → V → Prop} :
    ∀ (es : List (Entry V)) (rhs : List Nat), es.map (fun e => e.tree.root) = rhs →
      (∀ e, e ∈ es → VI e.tree.root e.val) → Forall2 VI rhs (es.map (·.val)) := by
  intro es
  induction es with
  | nil => intro rhs h _; simp at h; subst h; exact .nil
  | cons e es ih =>
    intro rhs h hv
    cases rhs with
    | nil => simp at h
    | cons x xs =>
      simp only [List.map_cons, List.cons.injEq] at h
      refine .cons ?_ (ih xs h.2 (fun e' he' => hv e' (List.mem_cons_of_mem _ he')))
      rw [← h.1]; exact hv e List.mem_cons_self

/-- invariant of the engine configuration -/
def Inv (T : Tables) (reach : Nat → Prop) (VI : Nat → V → Prop) (c : Cfg V) : Prop :=
  (PathOK T reach c.stack ∧ AllValid T c.stack ∧
   (∃ pre, c.consumed = pre ++ forestYield c.stack ∧ pre.all (· == T.nlTok))) ∧
  (∀ e, e ∈ c.stack → VI e.tree.root e.val) ∧ (∀ la, c.la = some la → VI la.1 la.2)

/-- what a normal return of the engine guarantees -/
def Good (T : Tables) (VI : Nat → V → Prop) : Res V → Prop
  | .accepted v tr c _ => (Tree.Valid T tr ∧ ∃ pre front, c = pre ++ front ++ tr.yield ∧
        pre.all (· == T.nlTok)) ∧ VI tr.root v
  | .blank _ c => c.all (· == T.nlTok)

/-- the hooks raise only exceptions satisfying `E` -/
structure HooksRaise (T : Tables) (H : Hooks V) (VI : Nat → V → Prop) (E : Exn → Prop) : Prop where
  /-- tokens delivered satisfy the invariant of their terminal -/
  next : M.Sat H.next (fun la => VI la.1 la.2) E
  /-- a semantic action applied to right-hand-side values satisfying their invariants returns a
      value satisfying the invariant of the left-hand side -/
  act : ∀ p lhs rhs args, T.prods[p]? = some (lhs, rhs) → Forall2 VI rhs args →
      M.Sat (H.act p args) (fun r => VI lhs r.1) E
  onError : ∀ la, M.Sat (H.onError la) (fun _ => True) E

/-- exceptions the engine itself may add: running out of fuel, and the unmodelled error
    recovery (reached only if the error function returns, which bashlex's never does).
    In particular no KeyError / IndexError (missing goto, stack underflow, bad production). -/
def EngineExn (E : Exn → Prop) (x : Exn) : Prop :=
  E x ∨ x = .outOfFuel "LRParser.parse" ∨ x = .foreign "NotModelled" "LRParser.parse(error recovery)"

theorem doReduce_sat {T reach acc} (h : WF T reach acc) (H : Hooks V) {VI E}
    (hH : HooksRaise T H VI E) (c : Cfg V) (p : Nat)
    (hinv : Inv T reach VI c)
    (hb : ∃ lhs rhs, T.prods[p]? = some (lhs, rhs) ∧
          BackOK T reach acc (topState c.stack) rhs.reverse lhs) :
    M.Sat (doReduce T H c p)
      (Sum.elim (Inv T reach VI) (Good T VI)) (EngineExn E) := by
  obtain ⟨⟨hp, hv, ⟨pre, hc, hpre⟩⟩, hvi, hvila⟩ := hinv
  obtain ⟨lhs, rhs, hprod, hback⟩ := hb
  obtain ⟨es, rest, t, hpop, hroots, hvl, hp', hv', hg, hl, hy, hmes, hmrest⟩ :=
    pop_of_back h rhs.reverse c.stack lhs hp hv hback
  simp only [List.length_reverse] at hpop
  have hroots' : es.map (fun e => e.tree.root) = rhs := by simpa using hroots
  have hvalid : Tree.Valid T (Tree.node p lhs (es.map (·.tree))) := by
    refine .node p lhs _ rhs hprod ?_ ?_
    · simpa [List.map_map, Function.comp_def] using hroots
    · intro k hk
      obtain ⟨e, he, rfl⟩ := List.mem_map.mp hk
      exact hvl e he
  have hargs : Forall2 VI rhs (es.map (·.val)) :=
    forall2_of_entries es rhs hroots' (fun e he => hvi e (hmes e he))
  have hnt : ¬ lhs < T.nTerms := Nat.not_lt.mpr hl
  unfold doReduce
  simp only [hprod, hpop]
  refine M.Sat.bind ((hH.act p lhs rhs _ hprod hargs).weaken (fun _ h => h) (fun _ h => Or.inl h)) ?_
  rintro ⟨v, accept⟩ hvlhs
  simp only at hvlhs
  simp only [hg]
  by_cases hacc : accept = true
  · simp only [hacc, if_true]
    refine M.Sat.pure (P := Sum.elim (Inv T reach VI) (Good T VI)) ?_
    simp only [Sum.elim_inr]
    refine ⟨⟨hvalid, pre, forestYield rest, ?_, hpre⟩, hvlhs⟩
    simp [hc, hy, Tree.yield, List.append_assoc]
  · simp only [hacc]
    refine M.Sat.pure (P := Sum.elim (Inv T reach VI) (Good T VI)) ?_
    simp only [Sum.elim_inl]
    refine ⟨⟨⟨?_, ?_, hp'⟩, ⟨hvalid, hv'⟩, ⟨pre, ?_, hpre⟩⟩, ?_, hvila⟩
    · have hedge : T.edge (topState rest) lhs = some t := by simp [Tables.edge, hnt, hg]
      exact (h.closed _ _ _ (reach_top h hp') hedge).1
    · simp [Tree.root, Tables.edge, hnt, hg]
    · simp [forestYield, Tree.yield, hc, hy, List.append_assoc]
    · intro e he
      rcases List.mem_cons.mp he with he | he
      · subst he; exact hvlhs
      · exact hvi e (hmrest e he)

theorem step_sat {T reach acc} (h : WF T reach acc)
    (H : Hooks V) {VI E} (hH : HooksRaise T H VI E) (c : Cfg V) (hinv : Inv T reach VI c) :
    M.Sat (step T H c)
      (Sum.elim (Inv T reach VI) (Good T VI)) (EngineExn E) := by
  have hinv' := hinv
  obtain ⟨⟨hp, hv, ⟨pre, hc, hpre⟩⟩, hvi, hvila⟩ := hinv
  have hr := reach_top h hp
  unfold step
  simp only
  cases hd : T.dflt (topState c.stack) with
  | some p => exact doReduce_sat h H hH c p hinv' (h.redDflt _ p hr hd)
  | none =>
    simp only
    refine M.Sat.bind (P := fun la => VI la.1 la.2) ?_ ?_
    · cases hla : c.la with
      | some la => exact M.Sat.pure (hvila la hla)
      | none => exact hH.next.weaken (fun _ h => h) (fun _ h => Or.inl h)
    rintro ⟨la, lv⟩ hvla
    simp only at hvla
    simp only
    -- the configuration with the look-ahead stored satisfies the invariant too
    have hinvla : Inv T reach VI { c with la := some (la, lv) } :=
      ⟨⟨hp, hv, ⟨pre, by simpa using hc, hpre⟩⟩, hvi, by
        intro la' hla'; simp only [Option.some.injEq] at hla'; subst hla'; exact hvla⟩
    split
    · -- all-newline return
      rename_i hblank
      refine M.Sat.pure (P := Sum.elim (Inv T reach VI) (Good T VI)) ?_
      simp only [Sum.elim_inr]
      simp only [Bool.and_eq_true, beq_iff_eq] at hblank
      obtain ⟨⟨hs0, _⟩, _⟩ := hblank
      have hnil : c.stack = [] := by
        cases hstk : c.stack with
        | nil => rfl
        | cons top rest =>
          rw [hstk] at hp hs0
          exact absurd hs0 (h.closed _ _ _ (reach_top h hp.2.2) hp.2.1).2.2
      simp only [Good]
      rw [hnil] at hc
      simp only [forestYield, List.append_nil] at hc
      rw [hc]; exact hpre
    · cases hact : T.action (topState c.stack) la with
      | none =>
        simp only
        refine M.Sat.bind ((hH.onError _).weaken (fun _ h => h) (fun _ h => Or.inl h)) ?_
        intro _ _
        exact M.Sat.foreign (Or.inr (Or.inr rfl))
      | some a =>
        cases a with
        | shift t =>
          have hla := h.shiftTerm _ _ _ hact
          simp only
          split
          · rename_i hnlc
            refine M.Sat.pure (P := Sum.elim (Inv T reach VI) (Good T VI)) ?_
            simp only [Sum.elim_inl]
            simp only [Bool.and_eq_true, beq_iff_eq] at hnlc
            obtain ⟨hs0, hlanl⟩ := hnlc
            have hnil : c.stack = [] := by
              cases hstk : c.stack with
              | nil => rfl
              | cons top rest =>
                rw [hstk] at hp hs0
                exact absurd hs0 (h.closed _ _ _ (reach_top h hp.2.2) hp.2.1).2.2
            refine ⟨⟨hp, hv, ⟨c.consumed ++ [la], ?_, ?_⟩⟩, hvi, by intro la' hla'; cases hla'⟩
            · simp [hnil, forestYield]
            · rw [hnil] at hc
              simp only [forestYield, List.append_nil] at hc
              rw [hc]
              simp [List.all_append, hpre, hlanl]
          · refine M.Sat.pure (P := Sum.elim (Inv T reach VI) (Good T VI)) ?_
            simp only [Sum.elim_inl]
            refine ⟨⟨⟨?_, ?_, hp⟩, ⟨.leaf _ hla, hv⟩, ⟨pre, ?_, hpre⟩⟩, ?_, by intro la' hla'; cases hla'⟩
            · have hedge : T.edge (topState c.stack) la = some t := by
                simp [Tables.edge, hla, hact]
              exact (h.closed _ _ _ hr hedge).1
            · simp [Tree.root, Tables.edge, hla, hact]
            · simp [forestYield, Tree.yield, hc, List.append_assoc]
            · intro e he
              rcases List.mem_cons.mp he with he | he
              · subst he; exact hvla
              · exact hvi e he
        | reduce p =>
          exact doReduce_sat h H hH _ p hinvla (h.redAct _ _ p hr hact)
        | accept =>
          simp only
          split
          · rename_i top rest hstk
            have hstk' : c.stack = top :: rest := hstk
            refine M.Sat.pure (P := Sum.elim (Inv T reach VI) (Good T VI)) ?_
            simp only [Sum.elim_inr]
            have hvtop := hvi top (by rw [hstk']; exact List.mem_cons_self)
            rw [hstk'] at hv hc
            refine ⟨⟨hv.1, pre, forestYield rest, ?_, hpre⟩, hvtop⟩
            simp [hc, forestYield, List.append_assoc]
          · rename_i hstk
            have hstk' : c.stack = [] := hstk
            rw [hstk'] at hact
            exact absurd hact (h.acceptNotInit _)

/-- **lr_sound** and **lr_safe**, for every token source and every family of semantic actions:
    a normal return of the engine is `Good` (the returned derivation tree is valid for the
    declared grammar, its yield is a suffix of the consumed terminals after the leading
    NEWLINEs, and the returned value satisfies the value invariant of the tree's root symbol
    whenever tokens and actions respect the invariant), and the only exceptions are those of
    the hooks, running out of fuel, or the unmodelled error recovery — never an internal
    KeyError/IndexError of the engine. -/
theorem run_sound {T reach acc} (h : WF T reach acc) (H : Hooks V) {VI E}
    (hH : HooksRaise T H VI E) (fuel : Nat) :
    M.Sat (run T H fuel) (Good T VI) (EngineExn E) := by
  unfold run
  refine M.Sat.loop (I := Inv T reach VI) (Or.inr (Or.inl rfl)) (fun s hs => step_sat h H hH s hs) fuel {} ?_
  refine ⟨⟨True.intro, True.intro, ⟨[], by simp [forestYield], by simp⟩⟩, ?_, ?_⟩
  · intro e he; cases he
  · intro la hla; cases hla

end Bashlex.LR
