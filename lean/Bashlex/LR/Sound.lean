/-
  T1: safety and soundness of the LR engine from a well-formedness property of the tables,
  for every token source and every family of semantic actions.
-/
import Bashlex.LR.Engine
import Bashlex.Proofs.Hoare

namespace Bashlex.LR
open Bashlex
set_option linter.unusedSimpArgs false

namespace Tree
theorem yields_append (a b : List Tree) : yields (a ++ b) = yields a ++ yields b := by
  induction a with
  | nil => simp [yields]
  | cons k ks ih => simp [yields, ih, List.append_assoc]
end Tree

/-- well-formedness of the tables, stated per backward path: from a state that reduces `p`,
    *every* backward path through reachable states spells `rhs(p)` reversed and ends in a state
    with a goto on `lhs(p)` -/
inductive BackOK (T : Tables) (reach : Nat → Prop) (acc : Nat → Nat) : Nat → List Nat → Nat → Prop
  | base (s lhs t) : T.edge s lhs = some t → T.nTerms ≤ lhs → BackOK T reach acc s [] lhs
  | step (s x xs lhs) : s ≠ 0 → acc s = x →
      (∀ s', reach s' → T.edge s' x = some s → BackOK T reach acc s' xs lhs) →
      BackOK T reach acc s (x :: xs) lhs

structure WF (T : Tables) (reach : Nat → Prop) (acc : Nat → Nat) : Prop where
  reach0 : reach 0
  closed : ∀ s X t, reach s → T.edge s X = some t → reach t ∧ acc t = X ∧ t ≠ 0
  redAct : ∀ s la p, reach s → T.action s la = some (.reduce p) →
      ∃ lhs rhs, T.prods[p]? = some (lhs, rhs) ∧ BackOK T reach acc s rhs.reverse lhs
  redDflt : ∀ s p, reach s → T.dflt s = some p →
      ∃ lhs rhs, T.prods[p]? = some (lhs, rhs) ∧ BackOK T reach acc s rhs.reverse lhs
  shiftTerm : ∀ s la t, T.action s la = some (.shift t) → la < T.nTerms
  acceptNotInit : ∀ la, T.action 0 la ≠ some .accept

variable {V : Type}

def PathOK (T : Tables) (reach : Nat → Prop) : Stack V → Prop
  | [] => True
  | e :: rest => reach e.state ∧ T.edge (topState rest) e.tree.root = some e.state ∧ PathOK T reach rest

def forestYield : Stack V → List Nat
  | [] => []
  | e :: rest => forestYield rest ++ e.tree.yield

def AllValid (T : Tables) : Stack V → Prop
  | [] => True
  | e :: rest => Tree.Valid T e.tree ∧ AllValid T rest

theorem reach_top {T reach acc} (h : WF T reach acc) {stk : Stack V} (hp : PathOK T reach stk) :
    reach (topState stk) := by
  cases stk with
  | nil => exact h.reach0
  | cons x r => exact hp.1

/-- key lemma: `BackOK` along a path-shaped stack pops exactly the right-hand side -/
theorem pop_of_back {T reach acc} (h : WF T reach acc) :
    ∀ (xs : List Nat) (stk : Stack V) (lhs : Nat),
      PathOK T reach stk → AllValid T stk →
      BackOK T reach acc (topState stk) xs lhs →
      ∃ es rest t, popN xs.length stk = some (es, rest) ∧
        es.map (fun e => e.tree.root) = xs.reverse ∧ (∀ e, e ∈ es → Tree.Valid T e.tree) ∧
        PathOK T reach rest ∧ AllValid T rest ∧
        T.goto (topState rest) lhs = some t ∧ T.nTerms ≤ lhs ∧
        forestYield stk = forestYield rest ++ Tree.yields (es.map (·.tree)) := by
  intro xs
  induction xs with
  | nil =>
    intro stk lhs hp hv hb
    cases hb with
    | base s lhs t he hl =>
      refine ⟨[], stk, t, rfl, rfl, by simp, hp, hv, ?_, hl, by simp [Tree.yields]⟩
      have : ¬ lhs < T.nTerms := Nat.not_lt.mpr hl
      simpa [Tables.edge, this] using he
  | cons x xs ih =>
    intro stk lhs hp hv hb
    cases hb with
    | step s x xs lhs hne hacc hall =>
      cases stk with
      | nil => exact absurd rfl hne
      | cons top rest =>
        simp only [topState] at hacc hall hne
        obtain ⟨hrs, hedge, hprest⟩ := hp
        obtain ⟨hvt, hvrest⟩ := hv
        have hroot : top.tree.root = x := by
          have := (h.closed _ _ _ (reach_top h hprest) hedge).2.1
          rw [← this]; exact hacc
        have hb' := hall (topState rest) (reach_top h hprest) (by rw [← hroot]; exact hedge)
        obtain ⟨es, rest', t', hpop, hroots, hvl, hp', hv', hg, hl, hy⟩ :=
          ih rest lhs hprest hvrest hb'
        refine ⟨es ++ [top], rest', t', ?_, ?_, ?_, hp', hv', hg, hl, ?_⟩
        · simp [popN, hpop]
        · simp [hroots, hroot]
        · intro k hk
          rcases List.mem_append.mp hk with hk | hk
          · exact hvl k hk
          · simp at hk; subst hk; exact hvt
        · simp [forestYield, hy, Tree.yields_append, Tree.yields, List.append_assoc]

/-- invariant of the engine configuration -/
def Inv (T : Tables) (reach : Nat → Prop) (c : Cfg V) : Prop :=
  PathOK T reach c.stack ∧ AllValid T c.stack ∧
  (∃ pre, c.consumed = pre ++ forestYield c.stack ∧ pre.all (· == T.nlTok))

/-- what a normal return of the engine guarantees -/
def Good (T : Tables) : Res V → Prop
  | .accepted _ tr c _ => Tree.Valid T tr ∧ ∃ pre front, c = pre ++ front ++ tr.yield ∧
        pre.all (· == T.nlTok)
  | .blank _ c => c.all (· == T.nlTok)

/-- the hooks raise only exceptions satisfying `E` -/
structure HooksRaise (H : Hooks V) (E : Exn → Prop) : Prop where
  next : M.Sat H.next (fun _ => True) E
  act : ∀ p args, M.Sat (H.act p args) (fun _ => True) E
  onError : ∀ la, M.Sat (H.onError la) (fun _ => True) E

/-- exceptions the engine itself may add: running out of fuel, and the unmodelled error
    recovery (reached only if the error function returns, which bashlex's never does).
    In particular no KeyError / IndexError (missing goto, stack underflow, bad production). -/
def EngineExn (E : Exn → Prop) (x : Exn) : Prop :=
  E x ∨ x = .outOfFuel "LRParser.parse" ∨ x = .foreign "NotModelled" "LRParser.parse(error recovery)"

theorem doReduce_sat {T reach acc} (h : WF T reach acc) (H : Hooks V) {E} (hH : HooksRaise H E)
    (c : Cfg V) (p : Nat)
    (hinv : Inv T reach c)
    (hb : ∃ lhs rhs, T.prods[p]? = some (lhs, rhs) ∧
          BackOK T reach acc (topState c.stack) rhs.reverse lhs) :
    M.Sat (doReduce T H c p)
      (Sum.elim (Inv T reach) (Good T)) (EngineExn E) := by
  obtain ⟨hp, hv, ⟨pre, hc, hpre⟩⟩ := hinv
  obtain ⟨lhs, rhs, hprod, hback⟩ := hb
  obtain ⟨es, rest, t, hpop, hroots, hvl, hp', hv', hg, hl, hy⟩ :=
    pop_of_back h rhs.reverse c.stack lhs hp hv hback
  simp only [List.length_reverse] at hpop
  have hvalid : Tree.Valid T (Tree.node p lhs (es.map (·.tree))) := by
    refine .node p lhs _ rhs hprod ?_ ?_
    · simpa [List.map_map, Function.comp_def] using hroots
    · intro k hk
      obtain ⟨e, he, rfl⟩ := List.mem_map.mp hk
      exact hvl e he
  have hnt : ¬ lhs < T.nTerms := Nat.not_lt.mpr hl
  unfold doReduce
  simp only [hprod, hpop]
  refine M.Sat.bind ((hH.act _ _).weaken (fun _ h => h) (fun _ h => Or.inl h)) ?_
  rintro ⟨v, accept⟩ _
  simp only [hg]
  by_cases hacc : accept = true
  · simp only [hacc, if_true]
    refine M.Sat.pure (P := Sum.elim (Inv T reach) (Good T)) ?_
    simp only [Sum.elim_inl, Sum.elim_inr]
    refine ⟨hvalid, pre, forestYield rest, ?_, hpre⟩
    simp [hc, hy, Tree.yield, List.append_assoc]
  · simp only [hacc]
    refine M.Sat.pure (P := Sum.elim (Inv T reach) (Good T)) ?_
    simp only [Sum.elim_inl, Sum.elim_inr]
    refine ⟨⟨?_, ?_, hp'⟩, ⟨hvalid, hv'⟩, ⟨pre, ?_, hpre⟩⟩
    · have hedge : T.edge (topState rest) lhs = some t := by simp [Tables.edge, hnt, hg]
      exact (h.closed _ _ _ (reach_top h hp') hedge).1
    · simp [Tree.root, Tables.edge, hnt, hg]
    · simp [forestYield, Tree.yield, hc, hy, List.append_assoc]

theorem step_sat {T reach acc} (h : WF T reach acc)
    (H : Hooks V) {E} (hH : HooksRaise H E) (c : Cfg V) (hinv : Inv T reach c) :
    M.Sat (step T H c)
      (Sum.elim (Inv T reach) (Good T)) (EngineExn E) := by
  have hinv' := hinv
  obtain ⟨hp, hv, ⟨pre, hc, hpre⟩⟩ := hinv
  have hr := reach_top h hp
  unfold step
  simp only
  cases hd : T.dflt (topState c.stack) with
  | some p => exact doReduce_sat h H hH c p hinv' (h.redDflt _ p hr hd)
  | none =>
    simp only
    refine M.Sat.bind (P := fun _ => True) ?_ ?_
    · cases c.la with
      | some la => exact M.Sat.pure True.intro
      | none => exact hH.next.weaken (fun _ h => h) (fun _ h => Or.inl h)
    rintro ⟨la, lv⟩ _
    simp only
    -- the configuration with the look-ahead stored satisfies the invariant too
    have hinvla : Inv T reach { c with la := some (la, lv) } :=
      ⟨hp, hv, ⟨pre, by simpa using hc, hpre⟩⟩
    split
    · -- all-newline return
      rename_i hblank
      refine M.Sat.pure (P := Sum.elim (Inv T reach) (Good T)) ?_
      simp only [Sum.elim_inl, Sum.elim_inr]
      simp only [Bool.and_eq_true, beq_iff_eq] at hblank
      obtain ⟨⟨hs0, _⟩, _⟩ := hblank
      have hnil : c.stack = [] := by
        cases hstk : c.stack with
        | nil => rfl
        | cons top rest =>
          rw [hstk] at hp hs0
          exact absurd hs0 (h.closed _ _ _ (reach_top h hp.2.2) hp.2.1).2.2
      simp only [Good]
      rw [hnil] at hc
      simp only [forestYield, List.append_nil] at hc
      rw [hc]; exact hpre
    · cases hact : T.action (topState c.stack) la with
      | none =>
        simp only
        refine M.Sat.bind ((hH.onError _).weaken (fun _ h => h) (fun _ h => Or.inl h)) ?_
        intro _ _
        exact M.Sat.foreign (Or.inr (Or.inr rfl))
      | some a =>
        cases a with
        | shift t =>
          have hla := h.shiftTerm _ _ _ hact
          simp only
          split
          · rename_i hnlc
            refine M.Sat.pure (P := Sum.elim (Inv T reach) (Good T)) ?_
            simp only [Sum.elim_inl, Sum.elim_inr]
            simp only [Bool.and_eq_true, beq_iff_eq] at hnlc
            obtain ⟨hs0, hlanl⟩ := hnlc
            have hnil : c.stack = [] := by
              cases hstk : c.stack with
              | nil => rfl
              | cons top rest =>
                rw [hstk] at hp hs0
                exact absurd hs0 (h.closed _ _ _ (reach_top h hp.2.2) hp.2.1).2.2
            refine ⟨hp, hv, ⟨c.consumed ++ [la], ?_, ?_⟩⟩
            · simp [hnil, forestYield]
            · rw [hnil] at hc
              simp only [forestYield, List.append_nil] at hc
              rw [hc]
              simp [List.all_append, hpre, hlanl]
          · refine M.Sat.pure (P := Sum.elim (Inv T reach) (Good T)) ?_
            simp only [Sum.elim_inl, Sum.elim_inr]
            refine ⟨⟨?_, ?_, hp⟩, ⟨.leaf _ hla, hv⟩, ⟨pre, ?_, hpre⟩⟩
            · have hedge : T.edge (topState c.stack) la = some t := by
                simp [Tables.edge, hla, hact]
              exact (h.closed _ _ _ hr hedge).1
            · simp [Tree.root, Tables.edge, hla, hact]
            · simp [forestYield, Tree.yield, hc, List.append_assoc]
        | reduce p =>
          exact doReduce_sat h H hH _ p hinvla (h.redAct _ _ p hr hact)
        | accept =>
          simp only
          split
          · rename_i top rest hstk
            have hstk' : c.stack = top :: rest := hstk
            refine M.Sat.pure (P := Sum.elim (Inv T reach) (Good T)) ?_
            simp only [Sum.elim_inr]
            rw [hstk'] at hv hc
            refine ⟨hv.1, pre, forestYield rest, ?_, hpre⟩
            simp [hc, forestYield, List.append_assoc]
          · rename_i hstk
            have hstk' : c.stack = [] := hstk
            rw [hstk'] at hact
            exact absurd hact (h.acceptNotInit _)

/-- **lr_sound** and **lr_safe**, for every token source and every family of semantic actions:
    a normal return of the engine is `Good` (the returned derivation tree is valid for the
    declared grammar and its yield is a suffix of the consumed terminals after the leading
    NEWLINEs), and the only exceptions are those of the hooks, running out of fuel, or the
    unmodelled error recovery — never an internal KeyError/IndexError of the engine. -/
theorem run_sound {T reach acc} (h : WF T reach acc) (H : Hooks V) {E} (hH : HooksRaise H E)
    (fuel : Nat) : M.Sat (run T H fuel) (Good T) (EngineExn E) := by
  unfold run
  refine M.Sat.loop (I := Inv T reach) (Or.inr (Or.inl rfl)) (fun s hs => step_sat h H hH s hs) fuel {} ?_
  exact ⟨True.intro, True.intro, ⟨[], by simp [forestYield], by simp⟩⟩

end Bashlex.LR
