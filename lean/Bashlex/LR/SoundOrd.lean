/-
  T1-ord: a variant of `run_sound` (LR/Sound.lean) whose value invariant is *relational*: it
  speaks about the whole list of (grammar symbol, semantic value) pairs on the stack, the
  look-ahead, and the state of the parser object (`Local`, `Env`), instead of one stack entry
  at a time.  This is what ordered / disjoint spans along the stack need ("a new token starts at
  or after the end of everything on the stack"), and what invariants relating values to the
  parser's mutable state need (the redirect store).

  The client supplies `SI vs la l e` and shows it closed under the engine's moves:
    next     fetching the look-ahead,
    shift    pushing the look-ahead (and dropping a NEWLINE shifted in state 0),
    act      replacing the right-hand side `args` on top of `rest` by the action's result.
  The reduce obligation additionally receives what the tables say at that point
  (`RestHint`, `LaHint`), so that table facts decided by the kernel can be used by the client:
    * below the popped right-hand side the stack is empty, or its top state is non-initial and
      has a goto on the left-hand side;
    * the reduction is a default reduction, or the look-ahead is present and the action table
      reduces `p` on it.

  Generic in the tables, the hooks, the value type and `SI`.  `LR/Sound.lean` is unchanged;
  `pop_of_back` and the structure of `step_sat` are reused.
-/
import Bashlex.LR.Sound
import Bashlex.Proofs.HoareS

namespace Bashlex.LR
open Bashlex
set_option linter.unusedSimpArgs false
set_option linter.unusedVariables false

variable {V : Type}

/-- the stack as the list of (grammar symbol, semantic value) pairs, bottom first -/
def symVals (stk : Stack V) : List (Nat × V) := stk.reverse.map (fun e => (e.tree.root, e.val))

theorem symVals_nil : symVals ([] : Stack V) = [] := rfl

theorem symVals_cons (x : Entry V) (stk : Stack V) :
    symVals (x :: stk) = symVals stk ++ [(x.tree.root, x.val)] := by
  simp [symVals]

theorem popN_eq : ∀ (n : Nat) (stk : Stack V) (es : List (Entry V)) (rest : Stack V),
    popN n stk = some (es, rest) → stk = es.reverse ++ rest := by
  intro n
  induction n with
  | zero => intro stk es rest h; simp [popN] at h; obtain ⟨rfl, rfl⟩ := h; rfl
  | succ k ih =>
    intro stk es rest h
    cases stk with
    | nil => simp [popN] at h
    | cons x st =>
      simp only [popN, Option.map_eq_some_iff] at h
      obtain ⟨⟨es', r'⟩, hp, heq⟩ := h
      simp only [Prod.mk.injEq] at heq
      obtain ⟨rfl, rfl⟩ := heq
      have := ih st es' r' hp
      simp [this]

theorem symVals_append (es : List (Entry V)) (rest : Stack V) :
    symVals (es.reverse ++ rest) = symVals rest ++ es.map (fun e => (e.tree.root, e.val)) := by
  simp [symVals]

/-- what the tables say about the stack below a popped right-hand side -/
def RestHint (T : Tables) (rest : List (Nat × V)) (lhs : Nat) : Prop :=
  rest = [] ∨ ∃ s t, s ≠ 0 ∧ T.goto s lhs = some t

/-- what the tables say about the look-ahead at a reduction by `p` -/
def LaHint (T : Tables) (la : Option (Nat × V)) (p : Nat) : Prop :=
  (∃ s, T.dflt s = some p) ∨ ∃ x s, la = some x ∧ T.action s x.1 = some (.reduce p)

/-- closure of a relational stack invariant under the engine's moves -/
structure HooksOrd (T : Tables) (H : Hooks V)
    (SI : List (Nat × V) → Option (Nat × V) → Local → Env → Prop)
    (Fin : V → Local → Env → Prop) (E : Exn → Prop) : Prop where
  next : ∀ vs, M.SatS H.next (SI vs none) (fun la => SI vs (some la)) E
  shift : ∀ vs la l e, SI vs (some la) l e → SI (vs ++ [la]) none l e
  /-- a NEWLINE shifted in state 0 is not pushed -/
  shiftNl : ∀ la l e, SI [] (some la) l e → SI [] none l e
  act : ∀ p lhs rhs rest args la, T.prods[p]? = some (lhs, rhs) → args.map (·.1) = rhs →
      RestHint T rest lhs → LaHint T la p →
      M.SatS (H.act p (args.map (·.2))) (SI (rest ++ args) la)
        (fun r l e => if r.2 = true then Fin r.1 l e else SI (rest ++ [(lhs, r.1)]) la l e) E
  /-- the `accept` entry of the action table returns the top of the stack -/
  accept : ∀ vs x la l e, SI (vs ++ [x]) la l e → Fin x.2 l e
  onError : ∀ la, M.Sat (H.onError la) (fun _ => True) E

/-- invariant of the engine configuration -/
def InvO (T : Tables) (reach : Nat → Prop)
    (SI : List (Nat × V) → Option (Nat × V) → Local → Env → Prop) (c : Cfg V)
    (l : Local) (e : Env) : Prop :=
  (PathOK T reach c.stack ∧ AllValid T c.stack) ∧ SI (symVals c.stack) c.la l e

/-- what a normal return of the engine guarantees -/
def GoodO (Fin : V → Local → Env → Prop) : Res V → Local → Env → Prop
  | .accepted v _ _ _, l, e => Fin v l e
  | .blank _ _, _, _ => True

theorem doReduce_ord {T reach acc} (h : WF T reach acc) (H : Hooks V) {SI Fin E}
    (hH : HooksOrd T H SI Fin E) (c : Cfg V) (p : Nat)
    (hla : LaHint T c.la p)
    (hb : ∃ lhs rhs, T.prods[p]? = some (lhs, rhs) ∧
          BackOK T reach acc (topState c.stack) rhs.reverse lhs) :
    M.SatS (doReduce T H c p) (InvO T reach SI c)
      (fun r l e => Sum.elim (fun c' => InvO T reach SI c' l e) (fun res => GoodO Fin res l e) r)
      (EngineExn E) := by
  intro l0 e0 hinv
  obtain ⟨⟨hp, hv⟩, hsi⟩ := hinv
  obtain ⟨lhs, rhs, hprod, hback⟩ := hb
  obtain ⟨es, rest, t, hpop, hroots, hvl, hp', hv', hg, hl, hy, hmes, hmrest⟩ :=
    pop_of_back h rhs.reverse c.stack lhs hp hv hback
  simp only [List.length_reverse] at hpop
  have hroots' : es.map (fun e => e.tree.root) = rhs := by simpa using hroots
  have hstk : c.stack = es.reverse ++ rest := popN_eq _ _ _ _ hpop
  have hvalid : Tree.Valid T (Tree.node p lhs (es.map (·.tree))) := by
    refine .node p lhs _ rhs hprod ?_ ?_
    · simpa [List.map_map, Function.comp_def] using hroots
    · intro k hk
      obtain ⟨e, he, rfl⟩ := List.mem_map.mp hk
      exact hvl e he
  have hnt : ¬ lhs < T.nTerms := Nat.not_lt.mpr hl
  have hrest : RestHint T (symVals rest) lhs := by
    cases hr : rest with
    | nil => exact Or.inl rfl
    | cons x r =>
      right
      rw [hr] at hp' hg
      refine ⟨x.state, t, ?_, by simpa [topState] using hg⟩
      exact (h.closed _ _ _ (reach_top h hp'.2.2) hp'.2.1).2.2
  have hargs1 : (es.map (fun e => (e.tree.root, e.val))).map (·.1) = rhs := by
    simpa [List.map_map, Function.comp_def] using hroots'
  have hargs2 : (es.map (fun e => (e.tree.root, e.val))).map (·.2) = es.map (·.val) := by
    simp [List.map_map, Function.comp_def]
  have hsi' : SI (symVals rest ++ es.map (fun e => (e.tree.root, e.val))) c.la l0 e0 := by
    rw [← symVals_append, ← hstk]; exact hsi
  have hact := hH.act p lhs rhs (symVals rest) _ c.la hprod hargs1 hrest hla
  rw [hargs2] at hact
  have key : M.SatS (doReduce T H c p)
      (SI (symVals rest ++ es.map (fun e => (e.tree.root, e.val))) c.la)
      (fun r l e => Sum.elim (fun c' => InvO T reach SI c' l e) (fun res => GoodO Fin res l e) r)
      (EngineExn E) := by
    unfold doReduce
    simp only [hprod, hpop]
    refine M.SatS.bind (hact.weaken (fun _ _ h => h) (fun _ _ _ h => h) (fun _ h => Or.inl h)) ?_
    rintro ⟨v, accept⟩
    simp only [hg]
    by_cases hacc : accept = true
    · simp only [hacc, if_true]
      exact M.SatS.pure (fun l e hf => by simpa [GoodO] using hf)
    · simp only [hacc]
      refine M.SatS.pure (fun l e hf => ?_)
      simp only [Sum.elim_inl]
      simp only [Bool.false_eq_true, if_false] at hf
      refine ⟨⟨⟨?_, ?_, hp'⟩, ⟨hvalid, hv'⟩⟩, ?_⟩
      · have hedge : T.edge (topState rest) lhs = some t := by simp [Tables.edge, hnt, hg]
        exact (h.closed _ _ _ (reach_top h hp') hedge).1
      · simp [Tree.root, Tables.edge, hnt, hg]
      · simp only [symVals_cons, Tree.root]
        exact hf
  exact key l0 e0 hsi'

theorem step_ord {T reach acc} (h : WF T reach acc)
    (H : Hooks V) {SI Fin E} (hH : HooksOrd T H SI Fin E) (c : Cfg V) :
    M.SatS (step T H c) (InvO T reach SI c)
      (fun r l e => Sum.elim (fun c' => InvO T reach SI c' l e) (fun res => GoodO Fin res l e) r)
      (EngineExn E) := by
  intro l0 e0 hinv
  have hinv' := hinv
  obtain ⟨⟨hp, hv⟩, hsi⟩ := hinv
  have hr := reach_top h hp
  have key : M.SatS (step T H c) (InvO T reach SI c)
      (fun r l e => Sum.elim (fun c' => InvO T reach SI c' l e) (fun res => GoodO Fin res l e) r)
      (EngineExn E) := by
    unfold step
    simp only
    cases hd : T.dflt (topState c.stack) with
    | some p => exact doReduce_ord h H hH c p (Or.inl ⟨_, hd⟩) (h.redDflt _ p hr hd)
    | none =>
      simp only
      refine M.SatS.bind
        (Q := fun la l e => InvO T reach SI { c with la := some la } l e) ?_ ?_
      · cases hla : c.la with
        | some la =>
          refine M.SatS.pure (fun l e hi => ?_)
          obtain ⟨hs, hsi⟩ := hi
          exact ⟨hs, by rw [hla] at hsi; exact hsi⟩
        | none =>
          intro l e hi
          obtain ⟨hs, hsi⟩ := hi
          rw [hla] at hsi
          have := (hH.next (symVals c.stack)).weaken (fun _ _ h => h) (fun _ _ _ h => h)
            (fun _ h => (Or.inl h : EngineExn E _)) l e hsi
          revert this
          rcases H.next.run l e with ⟨r, e'⟩
          cases r with
          | ok v => intro this; exact ⟨hs, this⟩
          | error x => intro this; exact this
      rintro ⟨la, lv⟩
      simp only
      split
      · exact M.SatS.pure (fun _ _ _ => trivial)
      · cases hact : T.action (topState c.stack) la with
        | none =>
          simp only
          refine M.SatS.bind (Q := fun _ _ _ => True)
            (((M.SatS.of_sat (hH.onError (la, lv)) _)).weaken (fun _ _ h => h) (fun _ _ _ _ => trivial)
              (fun _ h => Or.inl h)) ?_
          intro _
          exact M.SatS.foreign (Or.inr (Or.inr rfl))
        | some a =>
          cases a with
          | shift t =>
            have hla := h.shiftTerm _ _ _ hact
            simp only
            split
            · rename_i hnlc
              refine M.SatS.pure (fun l e hi => ?_)
              simp only [Sum.elim_inl]
              simp only [Bool.and_eq_true, beq_iff_eq] at hnlc
              obtain ⟨hs0, hlanl⟩ := hnlc
              have hnil : c.stack = [] := by
                cases hstk : c.stack with
                | nil => rfl
                | cons top rest =>
                  rw [hstk] at hp hs0
                  exact absurd hs0 (h.closed _ _ _ (reach_top h hp.2.2) hp.2.1).2.2
              obtain ⟨hs, hsi⟩ := hi
              refine ⟨hs, ?_⟩
              simp only [hnil, symVals_nil] at hsi ⊢
              exact hH.shiftNl _ l e hsi
            · refine M.SatS.pure (fun l e hi => ?_)
              simp only [Sum.elim_inl]
              obtain ⟨⟨hp1, hv1⟩, hsi⟩ := hi
              refine ⟨⟨⟨?_, ?_, hp1⟩, ⟨.leaf _ hla, hv1⟩⟩, ?_⟩
              · have hedge : T.edge (topState c.stack) la = some t := by
                  simp [Tables.edge, hla, hact]
                exact (h.closed _ _ _ hr hedge).1
              · simp [Tree.root, Tables.edge, hla, hact]
              · simp only [symVals_cons, Tree.root]
                exact hH.shift _ _ l e hsi
          | reduce p =>
            exact doReduce_ord h H hH _ p (Or.inr ⟨(la, lv), _, rfl, hact⟩)
              (h.redAct _ _ p hr hact)
          | accept =>
            simp only
            split
            · rename_i top rest hstk
              have hstk' : c.stack = top :: rest := hstk
              refine M.SatS.pure (fun l e hi => ?_)
              simp only [Sum.elim_inr, GoodO]
              obtain ⟨_, hsi⟩ := hi
              simp only [hstk', symVals_cons] at hsi
              exact hH.accept _ _ _ l e hsi
            · exact M.SatS.pure (fun _ _ _ => trivial)
  exact key l0 e0 hinv'

/-- **run_sound_ord**: for every token source and every family of semantic actions respecting a
    relational stack invariant `SI` (closed under the engine's moves, `HooksOrd`), a normal
    return of the engine started in a state satisfying `SI [] none` yields an accepted value
    satisfying `Fin` (in the final state); the only exceptions are those of the hooks, running
    out of fuel, or the unmodelled error recovery. -/
theorem run_sound_ord {T reach acc} (h : WF T reach acc) (H : Hooks V) {SI Fin E}
    (hH : HooksOrd T H SI Fin E) (fuel : Nat) :
    M.SatS (run T H fuel) (SI [] none) (GoodO Fin) (EngineExn E) := by
  unfold run
  refine (M.SatS.loop (I := InvO T reach SI) (R := GoodO Fin) (Or.inr (Or.inl rfl))
    (fun s => step_ord h H hH s) fuel {}).pre ?_
  intro l e hsi
  exact ⟨⟨True.intro, True.intro⟩, hsi⟩

end Bashlex.LR
