/-
  Exactness of acceptance: with tables in which the accepting symbols have a goto only from the
  start state (and the accept action sits one goto away from it), an accepted run has consumed
  *exactly* the yield of the returned derivation tree after the leading NEWLINEs — nothing is left
  below it on the stack.  Together with `run_sound` this is the (⇒) direction of C09 and the
  token-level statement of C08, for every token source.
-/
import Bashlex.LR.Sound

namespace Bashlex.LR
open Bashlex
set_option linter.unusedSimpArgs false
set_option linter.unusedVariables false

variable {V : Type}

/-- extra well-formedness used for exactness; `A` = symbols a semantic action may accept at -/
structure AccOK (T : Tables) (reach : Nat → Prop) (A : Nat → Prop) : Prop where
  acceptGoto : ∀ s lhs t, reach s → A lhs → T.goto s lhs = some t → s = 0
  acceptState : ∀ s la, reach s → T.action s la = some .accept →
      ∀ s', reach s' → ∀ X, T.edge s' X = some s → s' = 0

/-- semantic actions raise YaccAccept only in productions whose left-hand side is in `A` -/
def AcceptsOnly (T : Tables) (H : Hooks V) (A : Nat → Prop) (E : Exn → Prop) : Prop :=
  ∀ p lhs rhs args, T.prods[p]? = some (lhs, rhs) →
    M.Sat (H.act p args) (fun r => r.2 = true → A lhs) E

def GoodExact (T : Tables) (VI : Nat → V → Prop) : Res V → Prop
  | .accepted v tr c _ => (Tree.Valid T tr ∧ ∃ pre, c = pre ++ tr.yield ∧ pre.all (· == T.nlTok)) ∧
      VI tr.root v
  | .blank _ c => c.all (· == T.nlTok)

theorem stack_nil_of_top0 {T reach acc} (h : WF T reach acc) {stk : Stack V}
    (hp : PathOK T reach stk) (h0 : topState stk = 0) : stk = [] := by
  cases stk with
  | nil => rfl
  | cons top rest => exact absurd h0 (h.closed _ _ _ (reach_top h hp.2.2) hp.2.1).2.2

theorem doReduce_sat_exact {T reach acc} (h : WF T reach acc) {A : Nat → Prop} (hx : AccOK T reach A) (H : Hooks V) {VI E}
    (hH : HooksRaise T H VI E) (hA : AcceptsOnly T H A E) (c : Cfg V) (p : Nat)
    (hinv : Inv T reach VI c)
    (hb : ∃ lhs rhs, T.prods[p]? = some (lhs, rhs) ∧
          BackOK T reach acc (topState c.stack) rhs.reverse lhs) :
    M.Sat (doReduce T H c p)
      (Sum.elim (Inv T reach VI) (GoodExact T VI)) (EngineExn E) := by
  obtain ⟨⟨hp, hv, ⟨pre, hc, hpre⟩⟩, hvi, hvila⟩ := hinv
  obtain ⟨lhs, rhs, hprod, hback⟩ := hb
  obtain ⟨es, rest, t, hpop, hroots, hvl, hp', hv', hg, hl, hy, hmes, hmrest⟩ :=
    pop_of_back h rhs.reverse c.stack lhs hp hv hback
  simp only [List.length_reverse] at hpop
  have hroots' : es.map (fun e => e.tree.root) = rhs := by simpa using hroots
  have hvalid : Tree.Valid T (Tree.node p lhs (es.map (·.tree))) := by
    refine .node p lhs _ rhs hprod ?_ ?_
    · simpa [List.map_map, Function.comp_def] using hroots
    · intro k hk
      obtain ⟨e, he, rfl⟩ := List.mem_map.mp hk
      exact hvl e he
  have hargs : Forall2 VI rhs (es.map (·.val)) :=
    forall2_of_entries es rhs hroots' (fun e he => hvi e (hmes e he))
  have hnt : ¬ lhs < T.nTerms := Nat.not_lt.mpr hl
  unfold doReduce
  simp only [hprod, hpop]
  refine M.Sat.bind (((hH.act p lhs rhs _ hprod hargs).and (hA p lhs rhs _ hprod)).weaken (fun _ h => h) (fun _ h => Or.inl h)) ?_
  rintro ⟨v, accept⟩ ⟨hvlhs, haccA⟩
  simp only at hvlhs haccA
  simp only [hg]
  by_cases hacc : accept = true
  · simp only [hacc, if_true]
    refine M.Sat.pure (P := Sum.elim (Inv T reach VI) (GoodExact T VI)) ?_
    simp only [Sum.elim_inr]
    have hrest : rest = [] := stack_nil_of_top0 h hp' (hx.acceptGoto _ _ _ (reach_top h hp') (haccA hacc) hg)
    refine ⟨⟨hvalid, pre, ?_, hpre⟩, hvlhs⟩
    subst hrest
    simp [hc, hy, Tree.yield, forestYield]
  · simp only [hacc]
    refine M.Sat.pure (P := Sum.elim (Inv T reach VI) (GoodExact T VI)) ?_
    simp only [Sum.elim_inl]
    refine ⟨⟨⟨?_, ?_, hp'⟩, ⟨hvalid, hv'⟩, ⟨pre, ?_, hpre⟩⟩, ?_, hvila⟩
    · have hedge : T.edge (topState rest) lhs = some t := by simp [Tables.edge, hnt, hg]
      exact (h.closed _ _ _ (reach_top h hp') hedge).1
    · simp [Tree.root, Tables.edge, hnt, hg]
    · simp [forestYield, Tree.yield, hc, hy, List.append_assoc]
    · intro e he
      rcases List.mem_cons.mp he with he | he
      · subst he; exact hvlhs
      · exact hvi e (hmrest e he)

theorem step_sat_exact {T reach acc} (h : WF T reach acc) {A : Nat → Prop} (hx : AccOK T reach A)
    (H : Hooks V) {VI E} (hH : HooksRaise T H VI E) (hA : AcceptsOnly T H A E) (c : Cfg V) (hinv : Inv T reach VI c) :
    M.Sat (step T H c)
      (Sum.elim (Inv T reach VI) (GoodExact T VI)) (EngineExn E) := by
  have hinv' := hinv
  obtain ⟨⟨hp, hv, ⟨pre, hc, hpre⟩⟩, hvi, hvila⟩ := hinv
  have hr := reach_top h hp
  unfold step
  simp only
  cases hd : T.dflt (topState c.stack) with
  | some p => exact doReduce_sat_exact h hx H hH hA c p hinv' (h.redDflt _ p hr hd)
  | none =>
    simp only
    refine M.Sat.bind (P := fun la => VI la.1 la.2) ?_ ?_
    · cases hla : c.la with
      | some la => exact M.Sat.pure (hvila la hla)
      | none => exact hH.next.weaken (fun _ h => h) (fun _ h => Or.inl h)
    rintro ⟨la, lv⟩ hvla
    simp only at hvla
    simp only
    -- the configuration with the look-ahead stored satisfies the invariant too
    have hinvla : Inv T reach VI { c with la := some (la, lv) } :=
      ⟨⟨hp, hv, ⟨pre, by simpa using hc, hpre⟩⟩, hvi, by
        intro la' hla'; simp only [Option.some.injEq] at hla'; subst hla'; exact hvla⟩
    split
    · -- all-newline return
      rename_i hblank
      refine M.Sat.pure (P := Sum.elim (Inv T reach VI) (GoodExact T VI)) ?_
      simp only [Sum.elim_inr]
      simp only [Bool.and_eq_true, beq_iff_eq] at hblank
      obtain ⟨⟨hs0, _⟩, _⟩ := hblank
      have hnil : c.stack = [] := by
        cases hstk : c.stack with
        | nil => rfl
        | cons top rest =>
          rw [hstk] at hp hs0
          exact absurd hs0 (h.closed _ _ _ (reach_top h hp.2.2) hp.2.1).2.2
      simp only [GoodExact]
      rw [hnil] at hc
      simp only [forestYield, List.append_nil] at hc
      rw [hc]; exact hpre
    · cases hact : T.action (topState c.stack) la with
      | none =>
        simp only
        refine M.Sat.bind ((hH.onError _).weaken (fun _ h => h) (fun _ h => Or.inl h)) ?_
        intro _ _
        exact M.Sat.foreign (Or.inr (Or.inr rfl))
      | some a =>
        cases a with
        | shift t =>
          have hla := h.shiftTerm _ _ _ hact
          simp only
          split
          · rename_i hnlc
            refine M.Sat.pure (P := Sum.elim (Inv T reach VI) (GoodExact T VI)) ?_
            simp only [Sum.elim_inl]
            simp only [Bool.and_eq_true, beq_iff_eq] at hnlc
            obtain ⟨hs0, hlanl⟩ := hnlc
            have hnil : c.stack = [] := by
              cases hstk : c.stack with
              | nil => rfl
              | cons top rest =>
                rw [hstk] at hp hs0
                exact absurd hs0 (h.closed _ _ _ (reach_top h hp.2.2) hp.2.1).2.2
            refine ⟨⟨hp, hv, ⟨c.consumed ++ [la], ?_, ?_⟩⟩, hvi, by intro la' hla'; cases hla'⟩
            · simp [hnil, forestYield]
            · rw [hnil] at hc
              simp only [forestYield, List.append_nil] at hc
              rw [hc]
              simp [List.all_append, hpre, hlanl]
          · refine M.Sat.pure (P := Sum.elim (Inv T reach VI) (GoodExact T VI)) ?_
            simp only [Sum.elim_inl]
            refine ⟨⟨⟨?_, ?_, hp⟩, ⟨.leaf _ hla, hv⟩, ⟨pre, ?_, hpre⟩⟩, ?_, by intro la' hla'; cases hla'⟩
            · have hedge : T.edge (topState c.stack) la = some t := by
                simp [Tables.edge, hla, hact]
              exact (h.closed _ _ _ hr hedge).1
            · simp [Tree.root, Tables.edge, hla, hact]
            · simp [forestYield, Tree.yield, hc, List.append_assoc]
            · intro e he
              rcases List.mem_cons.mp he with he | he
              · subst he; exact hvla
              · exact hvi e he
        | reduce p =>
          exact doReduce_sat_exact h hx H hH hA _ p hinvla (h.redAct _ _ p hr hact)
        | accept =>
          simp only
          split
          · rename_i top rest hstk
            have hstk' : c.stack = top :: rest := hstk
            refine M.Sat.pure (P := Sum.elim (Inv T reach VI) (GoodExact T VI)) ?_
            simp only [Sum.elim_inr]
            have hvtop := hvi top (by rw [hstk']; exact List.mem_cons_self)
            rw [hstk'] at hv hc hp hact
            have hrest : rest = [] := stack_nil_of_top0 h hp.2.2 (hx.acceptState _ _ hp.1 hact _ (reach_top h hp.2.2) _ hp.2.1)
            refine ⟨⟨hv.1, pre, ?_, hpre⟩, hvtop⟩
            subst hrest
            simp [hc, forestYield]
          · rename_i hstk
            have hstk' : c.stack = [] := hstk
            rw [hstk'] at hact
            exact absurd hact (h.acceptNotInit _)

/-- **lr_sound** and **lr_safe**, for every token source and every family of semantic actions:
    a normal return of the engine is `Good` (the returned derivation tree is valid for the
    declared grammar, its yield is a suffix of the consumed terminals after the leading
    NEWLINEs, and the returned value satisfies the value invariant of the tree's root symbol
    whenever tokens and actions respect the invariant), and the only exceptions are those of
    the hooks, running out of fuel, or the unmodelled error recovery — never an internal
    KeyError/IndexError of the engine. -/
theorem run_sound_exact {T reach acc} (h : WF T reach acc) {A : Nat → Prop} (hx : AccOK T reach A) (H : Hooks V) {VI E}
    (hH : HooksRaise T H VI E) (hA : AcceptsOnly T H A E) (fuel : Nat) :
    M.Sat (run T H fuel) (GoodExact T VI) (EngineExn E) := by
  unfold run
  refine M.Sat.loop (I := Inv T reach VI) (Or.inr (Or.inl rfl)) (fun s hs => step_sat_exact h hx H hH hA s hs) fuel {} ?_
  refine ⟨⟨True.intro, True.intro, ⟨[], by simp [forestYield], by simp⟩⟩, ?_, ?_⟩
  · intro e he; cases he
  · intro la hla; cases hla

end Bashlex.LR
