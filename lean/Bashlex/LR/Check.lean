/-
  A boolean well-formedness check for LR tables given as rows of encoded entries (the form
  `tools/extract.py` emits), and the proof that the check implies `WF`.
  The certificates (reachable states, accessing symbols, predecessor lists, reduce lists) are
  untrusted: the check validates what it uses.
-/
import Bashlex.LR.Sound
import Bashlex.LR.Exact
import Bashlex.LR.RealTables

namespace Bashlex.LR
set_option linter.unusedSimpArgs false

namespace Raw

/-- boolean version of `BackOK` -/
def backOK (R : Raw) : List Nat → Nat → Nat → Bool
  | [], s, lhs => R.nTerms ≤ lhs && (R.goto s lhs).isSome
  | x :: xs, s, lhs =>
    s != 0 && R.accOf s == x &&
    (R.predsOf s).all fun s' => if R.toTables.edge s' x == some s then backOK R xs s' lhs else true

def checkRed (R : Raw) (s p : Nat) : Bool :=
  match R.prods[p]? with
  | none => false
  | some (lhs, rhs) => backOK R rhs.reverse s lhs

/-- target `t` of an edge from `s` labelled `X` is fine -/
def checkEdge (R : Raw) (s X t : Nat) : Bool :=
  R.reach.contains t && R.accOf t == X && t != 0 && (R.predsOf t).contains s

def checkActionEntry (R : Raw) (s e : Nat) : Bool :=
  let la := e / 4096
  match decodeAct (e % 4096) with
  | .shift t => la < R.nTerms && checkEdge R s la t
  | .reduce p => checkRed R s p
  | .accept => s != 0

def checkGotoEntry (R : Raw) (s e : Nat) : Bool :=
  checkEdge R s (e / 4096) (e % 4096)

def checkState (R : Raw) (s : Nat) : Bool :=
  (R.actionRow s).all (checkActionEntry R s) && (R.gotoRow s).all (checkGotoEntry R s) &&
  (match R.dfltOf s with | none => true | some p => checkRed R s p)

/-- every shift entry anywhere is on a terminal -/
def checkShiftTerm (R : Raw) : Bool :=
  R.actionRows.all fun row => row.all fun e =>
    match decodeAct (e % 4096) with
    | .shift _ => e / 4096 < R.nTerms
    | _ => true

def check (R : Raw) : Bool :=
  R.reach.contains 0 && R.reach.all (checkState R) && checkShiftTerm R &&
  (R.actionRow 0).all (fun e => decodeAct (e % 4096) != .accept)

end Raw

/-! ### soundness of the check -/

theorem rowLookup_mem {row : List Nat} {k v : Nat} (h : rowLookup row k = some v) :
    ∃ e, e ∈ row ∧ e / 4096 = k ∧ e % 4096 = v := by
  unfold rowLookup at h
  cases hf : row.find? (fun e => e / 4096 == k) with
  | none => simp [hf] at h
  | some e =>
    simp [hf] at h
    refine ⟨e, List.mem_of_find?_eq_some hf, ?_, h⟩
    have := List.find?_some hf
    simpa using this

namespace Raw

theorem action_mem {R : Raw} {s la : Nat} {a : Act} (h : R.action s la = some a) :
    ∃ e, e ∈ R.actionRow s ∧ e / 4096 = la ∧ decodeAct (e % 4096) = a := by
  unfold action at h
  cases hl : rowLookup (R.actionRow s) la with
  | none => simp [hl] at h
  | some v =>
    simp [hl] at h
    obtain ⟨e, he, hk, hv⟩ := rowLookup_mem hl
    exact ⟨e, he, hk, by rw [hv]; exact h⟩

theorem goto_mem {R : Raw} {s X t : Nat} (h : R.goto s X = some t) :
    ∃ e, e ∈ R.gotoRow s ∧ e / 4096 = X ∧ e % 4096 = t :=
  rowLookup_mem h

/-- from a passed check: every edge out of a reachable state is fine -/
theorem edge_ok {R : Raw} (hc : R.check = true) {s X t : Nat} (hs : s ∈ R.reach)
    (he : R.toTables.edge s X = some t) : checkEdge R s X t = true := by
  unfold check at hc
  simp only [Bool.and_eq_true, List.all_eq_true] at hc
  obtain ⟨⟨⟨_, hst⟩, _⟩, _⟩ := hc
  have hstate := hst s hs
  unfold checkState at hstate
  simp only [Bool.and_eq_true, List.all_eq_true] at hstate
  obtain ⟨⟨hact, hgoto⟩, _⟩ := hstate
  unfold Tables.edge at he
  simp only [toTables] at he
  by_cases hX : X < R.nTerms
  · -- terminal: shift
    simp only [hX, if_true] at he
    cases hact' : R.action s X with
    | none => simp [hact'] at he
    | some a =>
      cases a with
      | shift t' =>
        simp only [hact'] at he
        cases he
        obtain ⟨e, hmem, hk, hd⟩ := action_mem hact'
        have := hact e hmem
        unfold checkActionEntry at this
        simp only [hd, hk, Bool.and_eq_true] at this
        exact this.2
      | reduce p => simp [hact'] at he
      | accept => simp [hact'] at he
  · simp only [hX, if_false] at he
    obtain ⟨e, hmem, hk, hv⟩ := goto_mem he
    have := hgoto e hmem
    unfold checkGotoEntry at this
    rw [hk, hv] at this
    exact this

theorem backOK_sound {R : Raw} (hc : R.check = true) :
    ∀ (xs : List Nat) (s lhs : Nat), backOK R xs s lhs = true →
      BackOK R.toTables (· ∈ R.reach) R.accOf s xs lhs := by
  intro xs
  induction xs with
  | nil =>
    intro s lhs h
    unfold backOK at h
    simp only [Bool.and_eq_true, decide_eq_true_eq] at h
    obtain ⟨hl, hg⟩ := h
    obtain ⟨t, ht⟩ := Option.isSome_iff_exists.mp hg
    refine .base s lhs t ?_ hl
    have : ¬ lhs < R.nTerms := Nat.not_lt.mpr hl
    simp [Tables.edge, toTables, this, ht]
  | cons x xs ih =>
    intro s lhs h
    unfold backOK at h
    simp only [Bool.and_eq_true, bne_iff_ne, ne_eq, beq_iff_eq, List.all_eq_true] at h
    obtain ⟨⟨hs0, hacc⟩, hall⟩ := h
    refine .step s x xs lhs hs0 hacc ?_
    intro s' hr' hedge
    have hce := edge_ok hc hr' hedge
    unfold checkEdge at hce
    simp only [Bool.and_eq_true, List.contains_iff_mem] at hce
    have hmem : s' ∈ R.predsOf s := by
      have := hce.2
      simpa using this
    have := hall s' hmem
    simp only [hedge, beq_self_eq_true, if_true] at this
    exact ih s' lhs this

theorem checkRed_sound {R : Raw} (hc : R.check = true) {s p : Nat} (h : checkRed R s p = true) :
    ∃ lhs rhs, R.toTables.prods[p]? = some (lhs, rhs) ∧
      BackOK R.toTables (· ∈ R.reach) R.accOf s rhs.reverse lhs := by
  unfold checkRed at h
  cases hp : R.prods[p]? with
  | none => simp [hp] at h
  | some pr =>
    obtain ⟨lhs, rhs⟩ := pr
    simp only [hp] at h
    exact ⟨lhs, rhs, hp, backOK_sound hc _ _ _ h⟩

/-- **the check implies well-formedness** -/
theorem check_sound {R : Raw} (hc : R.check = true) :
    WF R.toTables (· ∈ R.reach) R.accOf := by
  have hc' := hc
  unfold check at hc'
  simp only [Bool.and_eq_true, List.all_eq_true, List.contains_iff_mem] at hc'
  obtain ⟨⟨⟨h0, hst⟩, hshift⟩, hacc0⟩ := hc'
  refine ⟨by simpa using h0, ?_, ?_, ?_, ?_, ?_⟩
  · intro s X t hs he
    have := edge_ok hc hs he
    unfold checkEdge at this
    simp only [Bool.and_eq_true, List.contains_iff_mem, beq_iff_eq, bne_iff_ne, ne_eq] at this
    exact ⟨by simpa using this.1.1.1, this.1.1.2, this.1.2⟩
  · intro s la p hs hact
    obtain ⟨e, hmem, hk, hd⟩ := action_mem (R := R) hact
    have hstate := hst s hs
    unfold checkState at hstate
    simp only [Bool.and_eq_true, List.all_eq_true] at hstate
    have := hstate.1.1 e hmem
    unfold checkActionEntry at this
    simp only [hd] at this
    exact checkRed_sound hc this
  · intro s p hs hd
    have hstate := hst s hs
    unfold checkState at hstate
    simp only [Bool.and_eq_true, List.all_eq_true] at hstate
    have := hstate.2
    have hd' : R.dfltOf s = some p := hd
    simp only [hd'] at this
    exact checkRed_sound hc this
  · intro s la t hact
    obtain ⟨e, hmem, hk, hd⟩ := action_mem (R := R) hact
    unfold checkShiftTerm at hshift
    simp only [List.all_eq_true] at hshift
    have hrow : R.actionRow s ∈ R.actionRows ∨ R.actionRow s = [] := by
      unfold actionRow
      by_cases hlt : s < R.actionRows.length
      · left; simp [List.getD_eq_getElem?_getD, List.getElem?_eq_getElem hlt]
      · right; simp [List.getD_eq_getElem?_getD, List.getElem?_eq_none (Nat.le_of_not_lt hlt)]
    rcases hrow with hrow | hrow
    · have := hshift _ hrow e hmem
      simp only [hd, decide_eq_true_eq] at this
      rw [← hk]; exact this
    · rw [hrow] at hmem; cases hmem
  · intro la hact
    obtain ⟨e, hmem, hk, hd⟩ := action_mem (R := R) hact
    have := hacc0 e hmem
    simp [hd] at this

end Raw
end Bashlex.LR

namespace Bashlex.LR
set_option linter.unusedSimpArgs false

namespace Raw

/-- boolean check for `AccOK`: the accepting symbols `A` have a goto only from state 0 and every
    state holding the accept action is entered only from state 0 -/
def checkAcc (R : Raw) (A : List Nat) : Bool :=
  R.reach.all fun s =>
    (R.gotoRow s).all (fun e => !(A.contains (e / 4096)) || s == 0) &&
    ((R.actionRow s).all (fun e => decodeAct (e % 4096) != .accept) || (R.predsOf s).all (· == 0))

theorem checkAcc_sound {R : Raw} {A : List Nat} (hc : R.check = true) (ha : R.checkAcc A = true) :
    AccOK R.toTables (· ∈ R.reach) (· ∈ A) := by
  unfold checkAcc at ha
  simp only [List.all_eq_true, Bool.and_eq_true] at ha
  refine ⟨?_, ?_⟩
  · intro s lhs t hs hA hg
    obtain ⟨e, hmem, hk, _⟩ := goto_mem (R := R) hg
    have := (ha s hs).1 e hmem
    simp only [Bool.or_eq_true, Bool.not_eq_true', beq_iff_eq] at this
    rcases this with h | h
    · rw [hk] at h
      have : A.contains lhs = true := by simpa using hA
      rw [this] at h; cases h
    · exact h
  · intro s la hs hact s' hs' X hedge
    obtain ⟨e, hmem, _, hd⟩ := action_mem (R := R) hact
    have h2 := (ha s hs).2
    simp only [Bool.or_eq_true, List.all_eq_true] at h2
    rcases h2 with h | h
    · have := h e hmem
      simp [hd] at this
    · have hce := edge_ok hc hs' hedge
      unfold checkEdge at hce
      simp only [Bool.and_eq_true, List.contains_iff_mem] at hce
      have hmem' : s' ∈ R.predsOf s := by simpa using hce.2
      have := h s' hmem'
      simpa using this

end Raw
end Bashlex.LR
