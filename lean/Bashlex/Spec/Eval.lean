/- Evaluation of the specification predicates on serialised outcomes (driver side). -/
import Bashlex.Serialize

namespace Bashlex

def specHandle (_cmd _opts _inp : String) : String := "BAD-REQUEST"

end Bashlex
