/- Evaluation of the specification predicates on serialised outcomes (driver side). -/
import Bashlex.Serialize
import Bashlex.Spec.PyVal
import Bashlex.Spec.Tree
import Bashlex.Spec.Rel
import Bashlex.Spec.Quote
import Bashlex.Spec.Render
import Bashlex.Model.Visitor

namespace Bashlex
open Spec

def dedup (l : List String) : List String :=
  l.foldl (fun acc x => if acc.contains x then acc else acc ++ [x]) []

/-- the parts of an `OK [...]` / `ONE {...}` outcome line, typed -/
def outcomeNodes (line : String) : Except String (List Node) :=
  if line.startsWith "OK " then
    match PyVal.parse (line.drop 3).toString with
    | .ok (.list l) => PyVal.toNodes l
    | .ok _ => .error "parse() did not return a list"
    | .error e => .error ("unparsable outcome: " ++ e)
  else if line == "ONE None" then .ok []
  else if line.startsWith "ONE " then
    match PyVal.parse (line.drop 4).toString with
    | .ok v => (PyVal.toNode v).map ([·])
    | .error e => .error ("unparsable outcome: " ++ e)
  else .error "not a tree outcome"

/- C12, "word values are non-empty strings": the clause is kept apart from `schemaOK` (and from
    `C12_partial`) because it is false of the unchanged library for a word made of quotes only
    (`a ""`: the value is the empty string, as quote removal demands).  Contexts: `+quotes-only` (the
    source under the span consists of quote characters), `+heredoc-delimiter` (reported on the
    redirect: the delimiter word of `<<` / `<<-` is the raw token in the unchanged library). -/
mutual
def emptyWN (src : Str) (ctx : String) : Node → List Viol
  | .word p w ps | .assignment p w ps =>
    let t := Str.slice src p.1 p.2
    -- spans inside a word whose source holds a line continuation are offsets into the shortened text (D10)
    let ctx' := if realContGo 0 t || (hasContinuation t && ps.any isSubst) then addCtx ctx "+cont" else ctx
    (if !w.isEmpty then [] else
      -- (a following line continuation may be inside the span: D31/D32)
      let tq := (stripContinuations t).reverse.dropWhile (· == '\\') |>.reverse
      ["word-empty" ++ (if !tq.isEmpty && tq.all (fun c => c == '\'' || c == '"' || c == '$') then "+quotes-only" else "") ++ ctx]) ++
    emptyWL src ctx' ps
  | .commandsubstitution _ c | .processsubstitution _ c => emptyWN src ctx c
  | .list _ ps | .pipeline _ ps | .ifN _ ps | .forN _ ps | .whileN _ ps | .untilN _ ps
  | .caseN _ ps | .pattern _ ps | .command _ ps | .unimplemented _ ps | .function _ _ _ ps =>
    emptyWL src ctx ps
  | .compound _ l r => emptyWL src ctx l ++ emptyWL src ctx r
  | .redirect _ _ ty o _ _ _ =>
    (match o with
     | some (.word p w ps) =>
       (if w.isEmpty && (ty == "<<".toList || ty == "<<-".toList) then ["word-empty+heredoc-delimiter" ++ ctx] else []) ++
       emptyWN src ctx (.word p w ps)
     | some n => emptyWN src ctx n
     | none => [])
  | _ => []
def emptyWL (src : Str) (ctx : String) : List Node → List Viol
  | [] => []
  | n :: ns => emptyWN src ctx n ++ emptyWL src ctx ns
end

def emptyWords (src : Str) (n : Node) : List Viol := emptyWN src "" n

def evalProp (prop : String) (src : Str) (parts : List Node) (dbg : Bool := false) : List Viol :=
  match prop with
  | "C03" => (parts.map (spansWF src.length · dbg)).flatten ++
      (if ordered parts then [] else ["top-level-parts-unordered"])
  | "C04" => (parts.map (textOK src · dbg)).flatten
  | "C05" => coverOK src parts
  | "C12" => (parts.map (schemaOK · dbg)).flatten ++ (parts.map (emptyWords src)).flatten
  | "C06" => quoteOKL src "" parts
  | _ => ["unknown-property"]

def parseHexStr (s : String) : Str :=
  if s == "" || s == "-" then []
  else (s.splitOn ".").filterMap fun h =>
    let n := h.toList.foldl (fun acc c =>
      let d := if '0' ≤ c && c ≤ '9' then c.toNat - 48
               else if 'a' ≤ c && c ≤ 'f' then c.toNat - 87
               else if 'A' ≤ c && c ≤ 'F' then c.toNat - 55 else 0
      16 * acc + d) 0
    if h == "" then none else some (Char.ofNat n)

def isTree (line : String) : Bool := line.startsWith "OK " || line.startsWith "ONE "

/-- fields of an `EXN PE|"msg"|"src"|pos` outcome line -/
def parsePE (line : String) : Option (Str × Str × Int) :=
  if !line.startsWith "EXN PE|\"" then none else
  let p : PyVal.P (Str × Str × Int) := do
    let msg ← PyVal.pStrBody
    PyVal.expect '|'; PyVal.expect '"'
    let src ← PyVal.pStrBody
    PyVal.expect '|'
    let neg ← (do match ← PyVal.peek with | some '-' => PyVal.adv; pure true | _ => pure false)
    let n ← PyVal.pNat
    pure (msg, src, if neg then -(n : Int) else (n : Int))
  match p.run { s := (line.drop 8).toString.toList.toArray } with
  | .ok (r, _) => some r
  | .error _ => none

/-- the token text quoted in an "unexpected token %r" message (Python repr of a str or an int) -/
def tokenOfMsg (msg : Str) : Option Str :=
  let pre := "unexpected token ".toList
  if !pre.isPrefixOf msg then none else
  let r := msg.drop pre.length
  match r with
  | q :: rest =>
    if q == '\'' || q == '"' then
      -- undo repr escapes
      let body := rest.dropLast
      let rec unesc : Nat → Str → Str
        | 0, _ => []
        | _, [] => []
        | f + 1, '\\' :: 'n' :: t => '\n' :: unesc f t
        | f + 1, '\\' :: 't' :: t => '\t' :: unesc f t
        | f + 1, '\\' :: 'r' :: t => '\r' :: unesc f t
        | f + 1, '\\' :: c :: t => c :: unesc f t
        | f + 1, c :: t => c :: unesc f t
      some (unesc (body.length + 1) body)
    else some r       -- an int (NUMBER token)
  | [] => none

/-- remove line continuations whose backslash is not itself escaped (`\\\\` + newline keeps both) -/
def stripContParity : Str → Str
  | '\\' :: '\n' :: rest => stripContParity rest
  | '\\' :: c :: rest => '\\' :: c :: stripContParity rest
  | c :: rest => c :: stripContParity rest
  | [] => []

/-- C11 on one error outcome for input `s` -/
def errOK (s : Str) (line : String) : List Viol :=
  match parsePE line with
  | none => if line.startsWith "EXN PE|" then ["source-is-not-a-string"] else []
  | some (msg, src, pos) =>
    -- nested parsers run on token values, from which line continuations were removed
    let sc := Spec.stripContinuations s
    let isSub (t : Str) : Bool := t.length < s.length &&
      ((List.range (s.length - t.length + 1)).any fun i => Str.slice s i (i + t.length) == t) ||
      (t.length < sc.length && (List.range (sc.length - t.length + 1)).any fun i => Str.slice sc i (i + t.length) == t)
    let srcCtx := if src == s then "" else
      if src == s ++ ['\n'] then "+added-newline"
      -- (the input without the newline it ends in is nobody's source: a later part's is a suffix, a nested parser's lies inside a word)
      else if src ++ ['\n'] == s then "+lost-final-newline"
      else if isSub src then "+substring"
      else if src.getLast? == some '\n' && isSub src.dropLast then "+substring+added-newline"
      else "+other"
    (if src == s then [] else ["source-is-not-the-input" ++ srcCtx]) ++
    (if 0 ≤ pos && pos ≤ (s.length : Int) then [] else ["position-out-of-range" ++ srcCtx]) ++
    (if src != s then [] else
      match tokenOfMsg msg with
      | some tok =>
        -- a NEWLINE token reported at end of input stands for the implicit final newline
        -- (an operator may be split by a line continuation: `|\<newline>|` is the token `||`)
        if tok.isPrefixOf (s.drop pos.toNat) || tok.isPrefixOf (Spec.stripContinuations (s.drop pos.toNat)) ||
           tok.isPrefixOf (stripContParity (s.drop pos.toNat)) ||
           (tok == ['\n'] && pos.toNat == s.length) ||
           (tok.all isDigit && (s.drop pos.toNat).head?.map isDigit == some true) then []
        else ["token-not-at-position"]
      | none =>
        if msg == "unexpected EOF".toList then
          (if pos == (s.length : Int) then [] else ["eof-position-not-at-end"])
        -- an unterminated here-document is an unexpected end of input as well
        else if "here-document at line ".toList.isPrefixOf msg then
          (if pos == (s.length : Int) then [] else ["eof-position-not-at-end+heredoc"])
        else [])

/-- does the text hold `$(`, a backquote, `<(`, `>(` or `$[` (openers of nested parsers / arithmetic)? -/
def hasSubstOpener : Str → Bool
  | [] => false
  | c :: rest =>
    c == '`' || ((c == '$' || c == '<' || c == '>') && rest.head? == some '(') ||
    (c == '$' && rest.head? == some '[') || hasSubstOpener rest

/-- relational verdicts: `rel <prop>:<params> <src> <outcome>...` → list of signatures -/
def relEval (prop : String) (params : List String) (src : Str) (outs : List String) : List Viol :=
  match prop, params, outs with
  | "C16", [k], [unl, lim] =>
    if !unl.startsWith "OK " then [] else
    match outcomeNodes unl, outcomeNodes lim with
    | .ok pu, .ok pl =>
      if showNodes none (pruneLimitL k.toNat! pu) == showNodes none pl then [] else ["pruned-mismatch"]
    | .ok _, .error _ => if isTree lim then ["limited-ill-typed"] else ["limited-parse-fails"]
    | .error e, _ => ["ill-typed:" ++ e]
  | "C13", [off], [a, b, ab] =>
    if !(a.startsWith "OK ") || !(b.startsWith "OK ") then [] else
    match outcomeNodes a, outcomeNodes b, outcomeNodes ab with
    | .ok pa, .ok pb, .ok pab =>
      if showNodes none (pa ++ pb.map (Node.shift off.toNat!)) == showNodes none pab then []
      else ["combined-mismatch"]
    | .ok _, .ok _, .error _ => if isTree ab then ["combined-ill-typed"] else ["combined-fails"]
    | _, _, _ => ["ill-typed"]
  | "C14", [p, w], [o1, o2] =>
    if !o1.startsWith "OK " then [] else
    match outcomeNodes o1, outcomeNodes o2 with
    | .ok p1, .ok p2 =>
      if showNodes none (p1.map (relayout p.toNat! w.toNat!)) == showNodes none p2 then []
      else ["relayout-mismatch"]
    | .ok _, .error _ => if isTree o2 then ["relayout-ill-typed"] else ["relayout-fails"]
    | .error e, _ => ["ill-typed:" ++ e]
  | "C14inner", [_, _], [o1, o2] =>
    -- a layout edit INSIDE a substitution changes the text of the enclosing word (its value keeps the substitution
    -- verbatim), so only acceptance and the shape of the trees (kinds, in order, at every depth) are compared
    if !o1.startsWith "OK " then [] else
    match outcomeNodes o1, outcomeNodes o2 with
    | .ok p1, .ok p2 =>
      if (p1.map fun n => n.preorder.map Node.kind) == (p2.map fun n => n.preorder.map Node.kind) then []
      else ["inner-relayout-changes-shape"]
    | .ok _, .error _ => if isTree o2 then ["relayout-ill-typed"] else ["inner-relayout-fails"]
    | .error e, _ => ["ill-typed:" ++ e]
  | "C11", [], [o] => errOK src o
  | "C10", ps, [o] =>
    -- params: groups of 4 per here-document operator, in operator order:
    --   opPos, bodyStart, bodyEnd (end of the delimiter line's text), dash (0/1); last param: start of the following command or 0
    if !o.startsWith "OK " then ["rejected"] else
    match outcomeNodes o with
    | .error e => ["ill-typed:" ++ e]
    | .ok parts =>
      let nums := ps.map String.toNat!
      let nextStart := nums.getLast?.getD 0
      let reds := ((parts.map Node.preorder).flatten.filter fun m =>
        match m with | .redirect _ _ ty _ _ _ _ => ty == "<<".toList || ty == "<<-".toList | _ => false)
      let rec go : Nat → List Nat → List Viol
        | 0, _ => []
        | f + 1, opPos :: bs :: be :: dash :: rest =>
          (match reds.find? (fun m => m.pos.1 ≤ opPos && opPos < m.pos.2 &&
                  -- the operator position lies in the redirect's own text (fd digits may precede)
                  opPos ≤ m.pos.1 + 3) with
           | none => ["heredoc-redirect-missing"]
           | some (.redirect _ _ _ _ _ h _) =>
             (match h with
              | none => ["heredoc-body-missing"]
              | some (.heredoc hp v) =>
                -- (for an unquoted delimiter the shell removes line continuations in the body)
                let raw := Spec.stripContinuations (Str.slice src bs be)
                let stripTabs (t : Str) : Str := t.dropWhile (· == '\t')
                let lines := raw.splitOn '\n'
                let want : Str := if dash == 1 then
                    (lines.map stripTabs).intersperse ['\n'] |>.flatten
                  else raw
                (if hp == (bs, be) || hp == (bs, be + 1) then [] else ["body-span-differs"]) ++
                (if v == want || v == want ++ ['\n'] then [] else ["body-value-differs"])
              | some _ => ["heredoc-not-a-heredoc-node"])
           | _ => []) ++ go f rest
        | _, _ => []
      -- "parsing resumes after it": no returned part starts inside the text of a body (between its start and the end of its delimiter line)
      let rec inBody : Nat → List Nat → Nat → Bool
        | 0, _, _ => false
        | f + 1, _ :: bs :: be :: _ :: rest, p => (bs ≤ p && p ≤ be) || inBody f rest p
        | _, _, _ => false
      go (nums.length + 1) (nums.dropLast) ++
      (if parts.any (fun m => inBody (nums.length + 1) nums.dropLast m.pos.1) then ["resumes-inside-body"] else []) ++
      (if nextStart == 0 then [] else
        if parts.any (fun m => m.pos.1 == nextStart) then [] else ["next-part-misplaced"])
  | "C07", [openAt, bodyAt], [alone, embedded] =>
    -- the substitution opened at `openAt` holds `parse A` shifted to `bodyAt`
    if !alone.startsWith "OK [{" then [] else
    match outcomeNodes alone, outcomeNodes embedded with
    | .ok pa, .ok pe =>
      let subs := (pe.map Node.preorder).flatten.filter fun m =>
        (match m with | .commandsubstitution .. | .processsubstitution .. => true | _ => false) &&
        m.pos.1 == openAt.toNat!
      (match subs.head? with
       | none => ["substitution-node-missing"]
       | some (.commandsubstitution _ c) | some (.processsubstitution _ c) =>
         let want := pa.map (Node.shift bodyAt.toNat!)
         (if pa.length > 1 then ["commands-after-the-first-missing"] else []) ++
         (match want.head? with
          | some w => if showNode none w == showNode none c then [] else ["command-differs"]
          | none => [])
       | _ => [])
    | .ok _, .error _ => if isTree embedded then ["embedded-ill-typed"] else ["enclosed-command-rejected"]
    | .error e, _ => ["ill-typed:" ++ e]
  | "C07prot", [], [o] =>
    -- protected text yields no substitution / parameter / tilde node
    match outcomeNodes o with
    | .ok ps =>
      dedup (((ps.map Node.preorder).flatten.filterMap fun m =>
        match m with
        | .commandsubstitution .. | .processsubstitution .. | .parameter .. | .tilde .. =>
          some ("protected-text-expanded:" ++ m.kind)
        | _ => none))
    | .error _ => []
  | "C06split", [], [o] =>
    -- `split` versus POSIX shlex on the plain / blank / quote / backslash alphabet
    let feats := (splitFeatures src).tags ++ (if src.getLast? == some '\\' then "+trailing-backslash" else "")
    match shlexSplit src with
    | none => if o.startsWith "EXN PE|" then [] else ["split-accepts-what-shlex-rejects" ++ feats]
    | some l =>
      if o == "STRS [" ++ ",".intercalate (l.map quoteStr) ++ "]" then [] else
      if o.startsWith "STRS " then ["split-differs" ++ feats] else ["split-rejects-what-shlex-accepts" ++ feats]
  | "shlex", [], [] =>
    -- the transcription itself, for validation against Python's shlex.split
    match shlexSplit src with
    | none => ["ValueError"]
    | some l => ["STRS [" ++ ",".intercalate (l.map quoteStr) ++ "]"]
  | "C17single", [], [par, one] =>
    if par.startsWith "OK " then
      match outcomeNodes par with
      | .ok [] => if one == "ONE None" then [] else ["single-not-none-on-empty"]
      | .ok (n :: _) => if one == "ONE " ++ showNode none n then [] else ["single-not-head"]
      | .error e => ["ill-typed:" ++ e]
    else if one == par || one.startsWith "ONE " then [] else ["single-raises-differently"]
  | "C17convert", [], [plain, conv] =>
    if isTree plain then
      match outcomeNodes plain with
      | .ok ps =>
        let want := if plain.startsWith "OK " then "OK " ++ showNodes (some src) ps
          else match ps with | [n] => "ONE " ++ showNode (some src) n | _ => "ONE None"
        if want == conv then [] else ["convertpos-mismatch"]
      | .error e => ["ill-typed:" ++ e]
    else if plain == conv then [] else ["convertpos-changes-error"]
  | "C17strict", [], [strict, lax] =>
    if strict == lax then []
    else if strict.startsWith "EXN PE|\"here-document at line" then
      -- "only for inputs that END inside a missing here-document": the error is the top-level parser's
      -- (its source is the input or its rest, possibly with the appended newline) and sits at its end
      match parsePE strict with
      | some (_, esrc, pos) =>
        -- (for a later top-level command the source is the rest of the input: finding D15)
        if (esrc.isSuffixOf src || (esrc.getLast? == some '\n' && esrc.dropLast.isSuffixOf src)) &&
           pos + 1 ≥ (esrc.length : Int) then []
        else ["strictmode-changes-outcome-of-nested-here-document"]
      | none => ["strictmode-changes-other-outcome"]
    else ["strictmode-changes-other-outcome"]
  | "C17proceed", [], [plain, proc] =>
    -- with `proceedonerror` a NotImplementedError may still escape from a NESTED parser (they never proceed: D14) or from word
    -- expansion (`$[…]`, `$((…))` raise directly); an input without any substitution opener has neither, wherever the unsupported
    -- construct stands (first or later top-level command)
    if proc == "EXN NI" && !hasSubstOpener src then ["proceed-raises-notimplemented"]
    else if plain == proc then []
    else if plain == "EXN NI" then
      (if proc.startsWith "OK " || proc.startsWith "ONE " then
         (if (proc.splitOn "kind=\"unimplemented\"").length > 1 then [] else ["proceed-without-unimplemented-node"])
       -- a later construct may still be rejected (or unsupported) once parsing goes on
       else if proc.startsWith "EXN PE|" || proc == "EXN NI" then []
       else ["proceed-raises-foreign:" ++ ((proc.drop 4).toString.splitOn "|").getD 1 ""])
    else ["proceedonerror-changes-other-outcome"]
  | _, _, _ => ["bad-rel-request"]

/-- `spec <props> <src> <outcome line>` → `C03:sig,sig C12:` ...; `ILL:<reason>` if the outcome
    is not a well-typed tree -/
def specHandle (cmd opts inp : String) (extra : List String) : String :=
  match cmd, extra with
  | "spec", [line] | "specdbg", [line] =>
    let src := parseHexInputS inp
    match outcomeNodes line with
    | .error e => "ILL:" ++ e
    | .ok parts =>
      " ".intercalate ((opts.splitOn ",").map fun p =>
        p ++ ":" ++ ",".intercalate (dedup (evalProp p src parts (cmd == "specdbg"))))
  | "c02", [] =>
    -- c02 <-> <choices joined by '.'>: rendered text (hex), expected outcome, tags, oracle self-check
    let choices := (inp.splitOn ".").filterMap String.toNat?
    let (text, nodes, tags) := roundTripCase choices
    let self := dedup ((nodes.map (spansWF text.length)).flatten ++ (nodes.map schemaOK).flatten ++
      (nodes.map (textOK text)).flatten ++ coverOK text nodes ++ quoteOKL text "" nodes)
    ".".intercalate (text.map fun c => hexOf c.toNat) ++ "\t" ++ "OK " ++ showNodes none nodes ++ "\t" ++
      "".intercalate tags ++ "\t" ++ ",".intercalate self
  | "visit", [line] =>
    -- visit <descriptor of the node to prune at, or -> <src> <outcome>: the model's callback trace
    match outcomeNodes line with
    | .error e => "ILL:" ++ e
    | .ok parts =>
      let t := " ".intercalate ((parts.map fun n => (visit (fun m => descNode m == opts) n).map showEv).flatten)
      ((t.replace "\\" "\\\\").replace "\n" "\\n").replace "\t" "\\t"
  | "rel", outs =>
    match opts.splitOn ":" with
    | prop :: params =>
      let params := match params with | [] => [] | ps => (":".intercalate ps).splitOn "," |>.filter (· != "")
      ",".intercalate (dedup (relEval prop params (parseHexStr inp) outs))
    | [] => "BAD-REQUEST"
  | _, _ => "BAD-REQUEST"
where
  parseHexInputS (s : String) : Str :=
    if s == "" || s == "-" then []
    else (s.splitOn ".").filterMap fun h =>
      let n := h.toList.foldl (fun acc c =>
        let d := if '0' ≤ c && c ≤ '9' then c.toNat - 48
                 else if 'a' ≤ c && c ≤ 'f' then c.toNat - 87
                 else if 'A' ≤ c && c ≤ 'F' then c.toNat - 55 else 0
        16 * acc + d) 0
      if h == "" then none else some (Char.ofNat n)

end Bashlex
