/- Evaluation of the specification predicates on serialised outcomes (driver side). -/
import Bashlex.Serialize
import Bashlex.Spec.PyVal
import Bashlex.Spec.Tree

namespace Bashlex
open Spec

def dedup (l : List String) : List String :=
  l.foldl (fun acc x => if acc.contains x then acc else acc ++ [x]) []

/-- the parts of an `OK [...]` / `ONE {...}` outcome line, typed -/
def outcomeNodes (line : String) : Except String (List Node) :=
  if line.startsWith "OK " then
    match PyVal.parse (line.drop 3).toString with
    | .ok (.list l) => PyVal.toNodes l
    | .ok _ => .error "parse() did not return a list"
    | .error e => .error ("unparsable outcome: " ++ e)
  else if line == "ONE None" then .ok []
  else if line.startsWith "ONE " then
    match PyVal.parse (line.drop 4).toString with
    | .ok v => (PyVal.toNode v).map ([·])
    | .error e => .error ("unparsable outcome: " ++ e)
  else .error "not a tree outcome"

def evalProp (prop : String) (src : Str) (parts : List Node) (dbg : Bool := false) : List Viol :=
  match prop with
  | "C03" => (parts.map (spansWF src.length · dbg)).flatten ++
      (if ordered parts then [] else ["top-level-parts-unordered"])
  | "C04" => (parts.map (textOK src · dbg)).flatten
  | "C05" => coverOK src parts
  | "C12" => (parts.map (schemaOK · dbg)).flatten
  | _ => ["unknown-property"]

/-- `spec <props> <src> <outcome line>` → `C03:sig,sig C12:` ...; `ILL:<reason>` if the outcome
    is not a well-typed tree -/
def specHandle (cmd opts inp : String) (extra : List String) : String :=
  match cmd, extra with
  | "spec", [line] | "specdbg", [line] =>
    let src := parseHexInputS inp
    match outcomeNodes line with
    | .error e => "ILL:" ++ e
    | .ok parts =>
      " ".intercalate ((opts.splitOn ",").map fun p =>
        p ++ ":" ++ ",".intercalate (dedup (evalProp p src parts (cmd == "specdbg"))))
  | _, _ => "BAD-REQUEST"
where
  parseHexInputS (s : String) : Str :=
    if s == "" || s == "-" then []
    else (s.splitOn ".").filterMap fun h =>
      let n := h.toList.foldl (fun acc c =>
        let d := if '0' ≤ c && c ≤ '9' then c.toNat - 48
                 else if 'a' ≤ c && c ≤ 'f' then c.toNat - 87
                 else if 'A' ≤ c && c ≤ 'F' then c.toNat - 55 else 0
        16 * acc + d) 0
      if h == "" then none else some (Char.ofNat n)

end Bashlex
