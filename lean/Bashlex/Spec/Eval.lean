/- Evaluation of the specification predicates on serialised outcomes (driver side). -/
import Bashlex.Serialize
import Bashlex.Spec.PyVal
import Bashlex.Spec.Tree
import Bashlex.Spec.Rel

namespace Bashlex
open Spec

def dedup (l : List String) : List String :=
  l.foldl (fun acc x => if acc.contains x then acc else acc ++ [x]) []

/-- the parts of an `OK [...]` / `ONE {...}` outcome line, typed -/
def outcomeNodes (line : String) : Except String (List Node) :=
  if line.startsWith "OK " then
    match PyVal.parse (line.drop 3).toString with
    | .ok (.list l) => PyVal.toNodes l
    | .ok _ => .error "parse() did not return a list"
    | .error e => .error ("unparsable outcome: " ++ e)
  else if line == "ONE None" then .ok []
  else if line.startsWith "ONE " then
    match PyVal.parse (line.drop 4).toString with
    | .ok v => (PyVal.toNode v).map ([·])
    | .error e => .error ("unparsable outcome: " ++ e)
  else .error "not a tree outcome"

def evalProp (prop : String) (src : Str) (parts : List Node) (dbg : Bool := false) : List Viol :=
  match prop with
  | "C03" => (parts.map (spansWF src.length · dbg)).flatten ++
      (if ordered parts then [] else ["top-level-parts-unordered"])
  | "C04" => (parts.map (textOK src · dbg)).flatten
  | "C05" => coverOK src parts
  | "C12" => (parts.map (schemaOK · dbg)).flatten
  | _ => ["unknown-property"]

def parseHexStr (s : String) : Str :=
  if s == "" || s == "-" then []
  else (s.splitOn ".").filterMap fun h =>
    let n := h.toList.foldl (fun acc c =>
      let d := if '0' ≤ c && c ≤ '9' then c.toNat - 48
               else if 'a' ≤ c && c ≤ 'f' then c.toNat - 87
               else if 'A' ≤ c && c ≤ 'F' then c.toNat - 55 else 0
      16 * acc + d) 0
    if h == "" then none else some (Char.ofNat n)

def isTree (line : String) : Bool := line.startsWith "OK " || line.startsWith "ONE "

/-- relational verdicts: `rel <prop>:<params> <src> <outcome>...` → list of signatures -/
def relEval (prop : String) (params : List String) (src : Str) (outs : List String) : List Viol :=
  match prop, params, outs with
  | "C16", [k], [unl, lim] =>
    if !unl.startsWith "OK " then [] else
    match outcomeNodes unl, outcomeNodes lim with
    | .ok pu, .ok pl =>
      if showNodes none (pruneLimitL k.toNat! pu) == showNodes none pl then [] else ["pruned-mismatch"]
    | .ok _, .error _ => if isTree lim then ["limited-ill-typed"] else ["limited-parse-fails"]
    | .error e, _ => ["ill-typed:" ++ e]
  | "C13", [off], [a, b, ab] =>
    if !(a.startsWith "OK ") || !(b.startsWith "OK ") then [] else
    match outcomeNodes a, outcomeNodes b, outcomeNodes ab with
    | .ok pa, .ok pb, .ok pab =>
      if showNodes none (pa ++ pb.map (Node.shift off.toNat!)) == showNodes none pab then []
      else ["combined-mismatch"]
    | .ok _, .ok _, .error _ => if isTree ab then ["combined-ill-typed"] else ["combined-fails"]
    | _, _, _ => ["ill-typed"]
  | "C14", [p, w], [o1, o2] =>
    if !o1.startsWith "OK " then [] else
    match outcomeNodes o1, outcomeNodes o2 with
    | .ok p1, .ok p2 =>
      if showNodes none (p1.map (relayout p.toNat! w.toNat!)) == showNodes none p2 then []
      else ["relayout-mismatch"]
    | .ok _, .error _ => if isTree o2 then ["relayout-ill-typed"] else ["relayout-fails"]
    | .error e, _ => ["ill-typed:" ++ e]
  | "C17single", [], [par, one] =>
    if par.startsWith "OK " then
      match outcomeNodes par with
      | .ok [] => if one == "ONE None" then [] else ["single-not-none-on-empty"]
      | .ok (n :: _) => if one == "ONE " ++ showNode none n then [] else ["single-not-head"]
      | .error e => ["ill-typed:" ++ e]
    else if one == par || one.startsWith "ONE " then [] else ["single-raises-differently"]
  | "C17convert", [], [plain, conv] =>
    if isTree plain then
      match outcomeNodes plain with
      | .ok ps =>
        let want := if plain.startsWith "OK " then "OK " ++ showNodes (some src) ps
          else match ps with | [n] => "ONE " ++ showNode (some src) n | _ => "ONE None"
        if want == conv then [] else ["convertpos-mismatch"]
      | .error e => ["ill-typed:" ++ e]
    else if plain == conv then [] else ["convertpos-changes-error"]
  | "C17strict", [], [strict, lax] =>
    if strict == lax then []
    else if strict.startsWith "EXN PE|\"here-document at line" then []
    else ["strictmode-changes-other-outcome"]
  | "C17proceed", [], [plain, proc] =>
    if plain == proc then []
    else if plain == "EXN NI" then
      (if proc.startsWith "OK " || proc.startsWith "ONE " then
         (if (proc.splitOn "kind=\"unimplemented\"").length > 1 then [] else ["proceed-without-unimplemented-node"])
       -- a later construct may still be rejected (or unsupported) once parsing goes on
       else if proc.startsWith "EXN PE|" || proc == "EXN NI" then []
       else ["proceed-raises-foreign:" ++ ((proc.drop 4).toString.splitOn "|").getD 1 ""])
    else ["proceedonerror-changes-other-outcome"]
  | _, _, _ => ["bad-rel-request"]

/-- `spec <props> <src> <outcome line>` → `C03:sig,sig C12:` ...; `ILL:<reason>` if the outcome
    is not a well-typed tree -/
def specHandle (cmd opts inp : String) (extra : List String) : String :=
  match cmd, extra with
  | "spec", [line] | "specdbg", [line] =>
    let src := parseHexInputS inp
    match outcomeNodes line with
    | .error e => "ILL:" ++ e
    | .ok parts =>
      " ".intercalate ((opts.splitOn ",").map fun p =>
        p ++ ":" ++ ",".intercalate (dedup (evalProp p src parts (cmd == "specdbg"))))
  | "rel", outs =>
    match opts.splitOn ":" with
    | prop :: params =>
      let params := match params with | [] => [] | ps => (":".intercalate ps).splitOn "," |>.filter (· != "")
      ",".intercalate (dedup (relEval prop params (parseHexStr inp) outs))
    | [] => "BAD-REQUEST"
  | _, _ => "BAD-REQUEST"
where
  parseHexInputS (s : String) : Str :=
    if s == "" || s == "-" then []
    else (s.splitOn ".").filterMap fun h =>
      let n := h.toList.foldl (fun acc c =>
        let d := if '0' ≤ c && c ≤ '9' then c.toNat - 48
                 else if 'a' ≤ c && c ≤ 'f' then c.toNat - 87
                 else if 'A' ≤ c && c ≤ 'F' then c.toNat - 55 else 0
        16 * acc + d) 0
      if h == "" then none else some (Char.ofNat n)

end Bashlex
