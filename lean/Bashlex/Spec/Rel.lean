/-
  Relational specifications: properties that relate the outcomes of several calls.

    C16  pruneLimit    expansionlimit = k  ⇒  unlimited result with substitutions deeper than k removed
    C13  (shift)       parse (A ++ sep ++ B) = parse A ++ shift (parse B)
    C14  relayout      a layout-only edit moves spans by the induced monotone map, nothing else
    C17  convertpos    spans replaced by the source text they denote (see `Serialize.showNode`)
-/
import Bashlex.Model.Ast
import Bashlex.Spec.Tree

namespace Bashlex.Spec
open Bashlex

mutual
/-- remove every substitution node nested deeper than `k` (a substitution directly in a
    top-level word is at depth 1) -/
def pruneLimit (k : Nat) : Node → Node
  | .list p ps => .list p (pruneLimitL k ps)
  | .pipeline p ps => .pipeline p (pruneLimitL k ps)
  | .compound p l r => .compound p (pruneLimitL k l) (pruneLimitL k r)
  | .ifN p ps => .ifN p (pruneLimitL k ps)
  | .forN p ps => .forN p (pruneLimitL k ps)
  | .whileN p ps => .whileN p (pruneLimitL k ps)
  | .untilN p ps => .untilN p (pruneLimitL k ps)
  | .caseN p ps => .caseN p (pruneLimitL k ps)
  | .pattern p ps => .pattern p (pruneLimitL k ps)
  | .command p ps => .command p (pruneLimitL k ps)
  | .unimplemented p ps => .unimplemented p (pruneLimitL k ps)
  | .function p a b ps => .function p a b (pruneLimitL k ps)
  | .redirect p i t o oa h hid => .redirect p i t (pruneLimitO k o) oa h hid
  | .word p w ps => .word p w (pruneParts k ps)
  | .assignment p w ps => .assignment p w (pruneParts k ps)
  | .commandsubstitution p c => .commandsubstitution p (match k with | 0 => c | k' + 1 => pruneLimit k' c)
  | .processsubstitution p c => .processsubstitution p (match k with | 0 => c | k' + 1 => pruneLimit k' c)
  | n => n
def pruneLimitL (k : Nat) : List Node → List Node
  | [] => []
  | n :: ns => pruneLimit k n :: pruneLimitL k ns
def pruneLimitO (k : Nat) : Option Node → Option Node
  | none => none
  | some n => some (pruneLimit k n)
/-- the parts of a word: substitutions are dropped when no depth is left -/
def pruneParts (k : Nat) : List Node → List Node
  | [] => []
  | n :: ns =>
    (match n with
     | .commandsubstitution .. | .processsubstitution .. =>
       if k == 0 then [] else [pruneLimit k n]
     | m => [m]) ++ pruneParts k ns
end

/-- the span map induced by inserting `w` characters at offset `p` of a gap between tokens:
    ends at or before `p` stay, starts at or after `p` move -/
def insertMap (p w : Nat) (sp : Span) : Span :=
  ((if sp.1 < p then sp.1 else sp.1 + w), (if sp.2 ≤ p then sp.2 else sp.2 + w))

def relayout (p w : Nat) (n : Node) : Node := n.mapPos (insertMap p w)

end Bashlex.Spec
