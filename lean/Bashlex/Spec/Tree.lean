/-
  Specification predicates on returned trees, as *executable* definitions that report each
  violated clause with a signature (empty list = the property holds for this tree).
  The same definitions are what the theorems in `Props/` are about and what the driver evaluates
  on outcomes serialised from the real implementation.

    C03  spansWF     spans in range, non-empty, nested, ordered
    C12  schemaOK    kinds / attribute values allowed in each position
    C04  textOK      the source under a span is the node's own spelling
    C05  coverOK     every character outside the leaf spans is layout
-/
import Bashlex.Model.Ast

namespace Bashlex.Spec
open Bashlex

abbrev Viol := String

def kindOf (n : Node) : String := n.kind

/-! ## C03 -/

def spanIn (c p : Span) : Bool := p.1 ≤ c.1 && c.2 ≤ p.2

/-- are the spans of `l` pairwise disjoint and increasing, in order -/
def ordered : List Node → Bool
  | a :: b :: rest => a.pos.2 ≤ b.pos.1 && ordered (b :: rest)
  | _ => true

def isHeredoc : Node → Bool | .heredoc .. => true | _ => false
def isRedirectWithHeredoc : Node → Bool
  | .redirect _ _ _ _ _ (some _) _ => true
  | _ => false

/-- does this node's span have to equal first-child-start .. last-child-end -/
def spansItsParts : Node → Bool
  | .command .. | .pipeline .. | .list .. => true
  | _ => false

def localSpanViol (len : Nat) (n : Node) : List Viol :=
  let k := n.kind
  let p := n.pos
  let kids := n.children
  (if p.1 < p.2 then [] else [s!"empty-span:{k}"]) ++
  (if p.2 ≤ len then [] else [s!"span-out-of-range:{k}"]) ++
  -- a child with an empty span (reported on its own) drags ordering clauses along: mark them
  let ec := if kids.any (fun c => c.pos.2 ≤ c.pos.1) then "+emptychild" else ""
  (kids.filterMap fun c =>
    if isHeredoc c then none                      -- the here-document body may follow the line
    else if spanIn c.pos p then none
    else some s!"child-outside-parent:{c.kind}{if isRedirectWithHeredoc c then "+heredoc" else ""}:{k}{if c.pos.2 ≤ c.pos.1 then "+emptychild" else ""}") ++
  (if ordered kids then [] else [s!"children-unordered:{k}{ec}"]) ++
  (if spansItsParts n then
    match kids.head?, kids.getLast? with
    | some a, some b =>
      if p == (a.pos.1, b.pos.2) then []
      else [s!"span-not-first-to-last:{k}:{b.kind}{if isRedirectWithHeredoc b then "+heredoc" else ""}{ec}"]
    | _, _ => [s!"no-children:{k}"]
   else [])

/-- C03 on one tree -/
def containsD19 (n : Node) : Bool :=
  n.preorder.any fun m => match m with
    | .pipeline _ ps => ps.any fun q => match q with | .reservedword p _ => p.2 ≤ p.1 | _ => false
    | _ => false

/-- C03 on one tree.  A pipeline whose first part is a reserved word at span (0,0) is reported
    on its own (`empty-span`); the clauses of its ancestors that it drags along are marked
    `+emptydesc`. -/
def spansWF (len : Nat) (n : Node) (dbg : Bool := false) : List Viol :=
  (n.preorder.map fun m =>
    (localSpanViol len m).map fun v =>
      v ++ (if containsD19 m then "+emptydesc" else "") ++
        (if dbg then s!"@{m.pos.1}-{m.pos.2}" else "")).flatten

/-! ## C12 -/

def isCommandLike : Node → Bool
  | .command .. | .pipeline .. | .compound .. | .function .. | .unimplemented .. => true
  | _ => false
def isOperator : Node → Bool | .operator .. => true | _ => false
def isPipe : Node → Bool | .pipe .. => true | _ => false
def isBang : Node → Bool | .reservedword _ w => w == ['!'] | _ => false

/-- `x (sep x)* [sep]` with `x` command-like -/
def alternates (isSep : Node → Bool) (trailingSep : Bool) : List Node → Bool
  | [] => false
  | [a] => isCommandLike a
  | a :: b :: rest =>
    isCommandLike a && isSep b && (if rest.isEmpty then trailingSep else alternates isSep trailingSep rest)

def listOps : List Str := [[';'], ['&'], ['&', '&'], ['|', '|'], ['\n']]
def pipeOps : List Str := [['|'], ['|', '&']]
def redirOps : List Str :=
  (["<", ">", ">>", "<<", "<<-", "<<<", "<&", ">&", "<>", ">|", "&>", "&>>"]).map String.toList

def localSchemaViol (n : Node) : List Viol :=
  let bad (ok : Bool) (sig : String) : List Viol := if ok then [] else [sig]
  match n with
  | .operator _ op => bad (listOps.contains op) "operator-unknown-op"
  | .reservedword _ w => bad (!w.isEmpty) "reservedword-empty"
  | .pipe _ w => bad (pipeOps.contains w) "pipe-unknown"
  | .list _ ps => bad (alternates isOperator true ps && ps.length ≥ 2) "list-not-alternating"
  | .pipeline _ ps =>
    match ps with
    | b :: rest =>
      if isBang b then
        (if rest.isEmpty then ["pipeline-bang-without-command"]
         else bad (alternates isPipe false rest) s!"pipeline-not-alternating:{(rest.map Node.kind)}")
      else bad (alternates isPipe false ps && ps.length ≥ 3) s!"pipeline-not-alternating:{(ps.map Node.kind)}"
    | [] => ["pipeline-empty"]
  | .command _ ps =>
    bad (!ps.isEmpty && ps.all fun c => match c with
      | .word .. | .assignment .. | .redirect .. => true | _ => false) "command-bad-part"
  | .compound _ l r =>
    bad (!l.isEmpty) "compound-empty" ++
    bad (l.all fun c => match c with
      | .reservedword .. | .list .. | .ifN .. | .forN .. | .whileN .. | .untilN .. | .caseN ..
      | .pattern .. => true
      | c => isCommandLike c) "compound-bad-list-element" ++
    bad (r.all fun c => match c with | .redirect .. => true | _ => false) "compound-bad-redirect"
  | .ifN _ ps | .whileN _ ps | .untilN _ ps =>
    bad (!ps.isEmpty && ps.all fun c => match c with
      | .reservedword .. | .list .. => true | c => isCommandLike c) s!"{n.kind}-bad-part"
  | .forN _ ps =>
    bad (!ps.isEmpty && ps.all fun c => match c with
      | .reservedword .. | .list .. | .word .. => true | c => isCommandLike c) "for-bad-part"
  | .caseN _ ps =>
    bad (!ps.isEmpty && ps.all fun c => match c with
      | .reservedword .. | .word .. | .compound .. => true | _ => false) "case-bad-part"
  | .pattern _ ps =>
    bad (!ps.isEmpty && ps.all fun c => match c with
      | .word .. => true | .reservedword _ w => w == ['|'] | _ => false) "pattern-bad-part"
  | .function _ ni bi ps =>
    bad (match ps[ni]? with | some (.word ..) => true | _ => false) "function-name-not-word" ++
    bad (match ps[bi]? with | some (.compound ..) => true | _ => false) "function-body-not-compound" ++
    bad (ps.all fun c => match c with
      | .reservedword .. | .word .. | .compound .. => true | _ => false) "function-bad-part"
  | .redirect _ inp ty o oa h _ =>
    bad (redirOps.contains ty) "redirect-unknown-type" ++
    bad (match inp with | .str s => !s.isEmpty | _ => true) "redirect-empty-input" ++
    bad (match o, oa with
      | some (.word ..), .none => true
      | none, .num _ => true
      | none, .str s => s == ['-']
      | _, _ => false) "redirect-bad-output" ++
    bad (match h with
      | none => true
      | some (.heredoc ..) => ty == "<<".toList || ty == "<<-".toList
      | _ => false) "redirect-bad-heredoc"
  | .word _ _ ps | .assignment _ _ ps =>
    bad (ps.all fun c => match c with
      | .parameter .. | .tilde .. | .commandsubstitution .. | .processsubstitution .. => true
      | _ => false) "word-bad-part"
  | .parameter .. | .tilde .. | .heredoc .. => []
  | .commandsubstitution _ c | .processsubstitution _ c =>
    bad (isCommandLike c || (match c with | .list .. => true | _ => false)) "substitution-bad-command"
  | .unimplemented _ ps => bad (!ps.isEmpty) "unimplemented-empty"

/-- C12 on one (already well-typed) tree -/
def schemaOK (n : Node) (dbg : Bool := false) : List Viol :=
  if dbg then
    (n.preorder.map fun m => (localSchemaViol m).map (· ++ s!"@{m.pos.1}-{m.pos.2}")).flatten
  else (n.preorder.map localSchemaViol).flatten

/-! ## C04 / C05: text under spans -/

/-- remove backslash-newline pairs (line continuations) -/
def stripContinuations : Str → Str
  | '\\' :: '\n' :: rest => stripContinuations rest
  | c :: rest => c :: stripContinuations rest
  | [] => []

def isBreakChar (c : Char) : Bool := (synClass c).brk

/-- scan a candidate word: `true` iff no unquoted blank / metacharacter / newline occurs and every
    quote is closed.  Text inside recorded substitution parts has been masked by the caller.
    States: 0 normal, 1 in '…', 2 in "…", 5 in $'…', 4 inside `${ … }` (stack of outer states). -/
def wordScan : Nat → Nat → List Nat → Str → Bool
  | _, st, stack, [] => st == 0 && stack.isEmpty
  | 0, _, _, _ => false
  | fuel + 1, st, stack, c :: rest =>
    match st with
    | 1 => if c == '\'' then wordScan fuel (stack.headD 0) stack.tail rest else wordScan fuel 1 stack rest
    | 5 =>
      if c == '\\' then wordScan fuel 5 stack (rest.drop 1)
      else if c == '\'' then wordScan fuel (stack.headD 0) stack.tail rest
      else wordScan fuel 5 stack rest
    | 2 =>
      if c == '\\' then wordScan fuel 2 stack (rest.drop 1)
      else if c == '"' then wordScan fuel (stack.headD 0) stack.tail rest
      else if c == '$' && rest.head? == some '{' then wordScan fuel 4 (2 :: stack) (rest.drop 1)
      else wordScan fuel 2 stack rest
    | 4 =>
      if c == '\\' then wordScan fuel 4 stack (rest.drop 1)
      -- (inside a double-quoted context a single quote in the operand of ${…} is an ordinary character)
      else if c == '\'' && !stack.contains 2 then wordScan fuel 1 (4 :: stack) rest
      else if c == '"' then wordScan fuel 2 (4 :: stack) rest
      else if c == '$' && rest.head? == some '{' then wordScan fuel 4 (4 :: stack) (rest.drop 1)
      else if c == '}' then wordScan fuel (stack.headD 0) stack.tail rest
      else wordScan fuel 4 stack rest
    | _ =>
      if c == '\\' then wordScan fuel 0 stack (rest.drop 1)
      else if c == '$' && rest.head? == some '$' then wordScan fuel 0 stack (rest.drop 1)
      else if c == '$' && rest.head? == some '\'' then wordScan fuel 5 (0 :: stack) (rest.drop 1)
      else if c == '\'' then wordScan fuel 1 (0 :: stack) rest
      else if c == '"' then wordScan fuel 2 (0 :: stack) rest
      else if c == '$' && rest.head? == some '{' then wordScan fuel 4 (0 :: stack) (rest.drop 1)
      else if isBreakChar c then false
      else wordScan fuel 0 stack rest

/-- replace the characters of `t` (a slice starting at offset `base`) that lie inside one of the
    spans by a plain character -/
def maskSpans (t : Str) (base : Nat) (spans : List Span) : Str :=
  t.zipIdx.map fun (c, i) => if spans.any (fun p => p.1 ≤ base + i && base + i < p.2) then 'x' else c

def isSubst : Node → Bool
  | .commandsubstitution .. | .processsubstitution .. => true
  | _ => false

def hasSubstOpener : Str → Bool
  | '$' :: '(' :: _ => true
  | '<' :: '(' :: _ => true
  | '>' :: '(' :: _ => true
  | '`' :: _ => true
  | _ :: rest => hasSubstOpener rest
  | [] => false

def isWholeWord (t : Str) : Bool := !t.isEmpty && wordScan (t.length + 1) 0 [] t

def startsWith (t pre : Str) : Bool := pre.isPrefixOf t
def endsWith (t suf : Str) : Bool := suf.reverse.isPrefixOf t.reverse

def hasContinuation : Str → Bool
  | '\\' :: '\n' :: _ => true
  | _ :: rest => hasContinuation rest
  | [] => false

/-- replace position `i` of `s` by a blank -/
def blankAt (s : Str) (i : Nat) : Str := s.set i ' '

def localTextViol (s : Str) (n : Node) : List Viol :=
  let t := Str.slice s n.pos.1 n.pos.2
  let tc := stripContinuations t
  let bad (ok : Bool) (sig : String) : List Viol := if ok then [] else [sig]
  match n with
  | .operator _ op =>
    if tc == op then []
    else if op == ['\n'] && tc.head? == some '\n' then ["newline-operator-extended-over-heredoc"]
    else if tc == op ++ ['\\'] && (s.drop n.pos.2 == [] || s.drop n.pos.2 == ['\n']) then
      ["operator-span-includes-final-backslash"]
    else ["operator-text"]
  | .reservedword _ w =>
    if tc == w then []
    else if tc == w ++ ['\\'] && (s.drop n.pos.2 == [] || s.drop n.pos.2 == ['\n']) then
      ["operator-span-includes-final-backslash"]
    -- the double unget of D32 after a reserved word: `then<\` + newline keeps `<\` in the span
    else if (t == w ++ ['<', '\\'] || t == w ++ ['>', '\\']) then ["reservedword-text+redircont"]
    else ["reservedword-text"]
  | .pipe _ w =>
    if tc == w then []
    else if tc == w ++ ['\\'] && (s.drop n.pos.2 == [] || s.drop n.pos.2 == ['\n']) then
      ["operator-span-includes-final-backslash"]
    else ["pipe-text"]
  | .word _ _ ps | .assignment _ _ ps =>
    let masked := maskSpans t n.pos.1 ((ps.filter isSubst).map Node.pos)
    -- a substitution bashlex did not record as a part cannot be stepped over here (that it is
    -- missing is C07's business)
    let unrec := hasSubstOpener masked
    -- a redirection operator glued to the word and followed by a line continuation: the
    -- tokenizer's double unget lands inside the continuation and the word keeps `<\`
    let rc := if endsWith t ['<', '\\'] || endsWith t ['>', '\\'] then "+redircont" else ""
    bad (isWholeWord masked) ((if unrec then "word-not-whole+unrecsub" else "word-not-whole") ++ rc) ++
    bad (match s[n.pos.2]? with | some c => isBreakChar c | none => true) ("word-cut-short" ++ rc) ++
    bad (n.pos.1 == 0 || (match s[n.pos.1 - 1]? with
        | some c => isBreakChar c ||
            -- a word may follow the '-' of `<<-`, `<&-`, `>&-` directly
            -- (blanks and line continuations may separate the operator from its '-': `>& -l` is `>&`, `-`, `l` for bash too)
            (c == '-' && n.pos.1 ≥ 2 &&
              (let before := ((stripContinuations (s.take (n.pos.1 - 1))).reverse.dropWhile shellblank)
               before.head? == some '<' || before.head? == some '&'))
        | none => false))
      "word-starts-late"
  | .parameter _ v =>
    bad (tc == '$' :: v || tc == ('$' :: '{' :: v) ++ ['}']) "parameter-text"
  | .tilde _ v => bad (tc == v && startsWith v ['~']) "tilde-text"
  | .commandsubstitution .. =>
    if (startsWith t ['$', '('] && endsWith t [')']) ||
       (startsWith t ['`'] && endsWith t ['`'] && t.length ≥ 2) then []
    else if startsWith t ['$', '('] && ((s.drop n.pos.2).dropWhile shellblank).head? == some ')' then
      ["substitution-stops-before-blanks-and-paren"]
    else ["commandsubstitution-text"]
  | .processsubstitution .. =>
    if (startsWith t ['<', '('] || startsWith t ['>', '(']) && endsWith t [')'] then []
    else if ((s.drop n.pos.2).dropWhile shellblank).head? == some ')' then
      ["substitution-stops-before-blanks-and-paren"]
    else ["processsubstitution-text"]
  | .redirect _ inp ty o _ _ _ =>
    let fd : Str := match inp with | .num _ => tc.takeWhile isDigit | .str x => '{' :: x ++ ['}'] | .none => []
    bad ((match inp with
          | .num k => !fd.isEmpty && fd.foldl (fun a c => 10 * a + (c.toNat - 48)) 0 == k
          | _ => startsWith tc fd) &&
         startsWith (tc.drop fd.length) ty) "redirect-text" ++
    bad (match o with | some w => n.pos.1 < w.pos.1 | none => true) "redirect-target-before-operator"
  | _ => []

/-- debugging aid: the span of the offending node (never part of a signature in a check run) -/
def tag (dbg : Bool) (n : Node) : String := if dbg then s!"@{n.pos.1}-{n.pos.2}" else ""

def addCtx (ctx flag : String) : String :=
  if (ctx.splitOn flag).length > 1 then ctx else ctx ++ flag

/-- a backslash-newline outside single quotes whose backslash is not itself escaped (states: 0 plain,
    1 single-quoted, 2 double-quoted) -/
def realCont : Nat → Str → Bool
  | _, [] => false
  | 1, c :: rest => if c == '\'' then realCont 0 rest else realCont 1 rest
  | 2, c :: rest =>
    if c == '"' then realCont 0 rest
    else if c == '\\' then (match rest with | [] => false | d :: rest' => d == '\n' || realCont 2 rest')
    else realCont 2 rest
  | _, c :: rest =>
    if c == '\\' then (match rest with | [] => false | d :: rest' => d == '\n' || realCont 0 rest')
    else if c == '\'' then realCont 1 rest
    else if c == '"' then realCont 2 rest
    else realCont 0 rest

mutual
/-- C04 on one tree.  `ctx` marks contexts in which bashlex is known to mis-place spans and is
    appended to every signature raised there:
    `+cont`   inside a word whose source holds a line continuation (offsets are taken in the
              token value, from which continuations were removed);
    `+mlsub`  inside a substitution whose text holds a newline (only its first line is parsed).
    Inside a backquote substitution the two backquotes delimit words like blanks do. -/
def textOKN (dbg : Bool) (s : Str) (ctx : String) : Node → List Viol
  | n@(.word p _ ps) | n@(.assignment p _ ps) =>
    -- (a continuation in the sense of the shell: `\\\\` + newline is an escaped backslash and a newline; the flat
    --  scan does not follow the quoting context of a substitution, so with substitution parts any pair counts)
    let t0 := Str.slice s p.1 p.2
    let ctx' := if realCont 0 t0 || (hasContinuation t0 && ps.any isSubst) then addCtx ctx "+cont" else ctx
    -- a raw newline inside the word: only the first line of a substitution body is parsed
    let ctxp := if (stripContinuations (Str.slice s p.1 p.2)).contains '\n' then addCtx ctx' "+nlword" else ctx'
    let sub := textOKL dbg s ctxp ps
    -- a word whose recorded substitution parts are themselves mis-placed cannot be delimited
    let ctxw := if (ps.filter isSubst).any (fun q => !(localTextViol s q).isEmpty) then
      addCtx ctx' "+badsub" else ctx'
    (localTextViol s n).map (· ++ ctxw ++ tag dbg n) ++ sub
  | n@(.commandsubstitution p c) =>
    let t := Str.slice s p.1 p.2
    let ctx' := if (stripContinuations t).contains '\n' then addCtx ctx "+mlsub" else ctx
    let s' := if startsWith t ['`'] then blankAt (blankAt s p.1) (p.2 - 1) else s
    (localTextViol s n).map (· ++ ctx' ++ tag dbg n) ++ textOKN dbg s' ctx' c
  | n@(.processsubstitution p c) =>
    let t := Str.slice s p.1 p.2
    let ctx' := if (stripContinuations t).contains '\n' then addCtx ctx "+mlsub" else ctx
    (localTextViol s n).map (· ++ ctx' ++ tag dbg n) ++ textOKN dbg s ctx' c
  | n@(.list _ ps) | n@(.pipeline _ ps) | n@(.ifN _ ps) | n@(.forN _ ps) | n@(.whileN _ ps)
  | n@(.untilN _ ps) | n@(.caseN _ ps) | n@(.pattern _ ps) | n@(.command _ ps)
  | n@(.unimplemented _ ps) | n@(.function _ _ _ ps) =>
    (localTextViol s n).map (· ++ ctx ++ tag dbg n) ++ textOKL dbg s ctx ps
  | n@(.compound _ l r) => (localTextViol s n).map (· ++ ctx ++ tag dbg n) ++ textOKL dbg s ctx l ++ textOKL dbg s ctx r
  | n@(.redirect _ _ _ o _ h _) =>
    (localTextViol s n).map (· ++ ctx ++ tag dbg n) ++
    (match o with | some w => textOKN dbg s ctx w | none => []) ++
    (match h with | some b => textOKN dbg s ctx b | none => [])
  | n => (localTextViol s n).map (· ++ ctx ++ tag dbg n)
def textOKL (dbg : Bool) (s : Str) (ctx : String) : List Node → List Viol
  | [] => []
  | n :: ns => textOKN dbg s ctx n ++ textOKL dbg s ctx ns
end

/-- C04 on one tree -/
def textOK (s : Str) (n : Node) (dbg : Bool := false) : List Viol := textOKN dbg s "" n

mutual
/-- leaves for C05 with a flag "is (or holds) a here-document body": operators, reserved words,
    pipes, whole words, redirects (fd + operator + target; a body the redirect was not extended
    over is a leaf of its own) -/
def leaves : Node → List (Span × Bool)
  | .operator p _ | .reservedword p _ | .pipe p _ => [(p, false)]
  | .word p _ _ | .assignment p _ _ => [(p, false)]
  | .parameter p _ | .tilde p _ => [(p, false)]
  | .heredoc p _ => [(p, true)]
  | .commandsubstitution p _ | .processsubstitution p _ => [(p, false)]
  | .redirect p _ _ _ _ h _ =>
    match h with
    | some b => if spanIn b.pos p then [(p, true)] else [(p, false), (b.pos, true)]
    | none => [(p, false)]
  | .list _ ps | .pipeline _ ps | .ifN _ ps | .forN _ ps | .whileN _ ps | .untilN _ ps
  | .caseN _ ps | .pattern _ ps | .command _ ps | .unimplemented _ ps | .function _ _ _ ps =>
    leavesL ps
  | .compound _ l r => leavesL l ++ leavesL r
def leavesL : List Node → List (Span × Bool)
  | [] => []
  | n :: ns => leaves n ++ leavesL ns
end

/-- is `t` (the text between two leaves) layout: blanks, newlines, line continuations, comments -/
def isLayout : Nat → Str → Bool
  | _, [] => true
  | 0, _ => false
  | fuel + 1, c :: rest =>
    if c == ' ' || c == '\t' || c == '\n' then isLayout fuel rest
    else if c == '\\' && rest.head? == some '\n' then isLayout fuel (rest.drop 1)
    else if c == '\\' && rest.isEmpty then true    -- continuation against the implicit final newline
    else if c == '#' then isLayout fuel (rest.dropWhile (· != '\n'))
    else false

end Bashlex.Spec

namespace Bashlex.Spec
open Bashlex

def sortSpans (l : List (Span × Bool)) : List (Span × Bool) :=
  (l.toArray.qsort (fun a b => a.1.1 < b.1.1)).toList

/-- walk sorted leaf spans, checking disjointness and that gaps are layout; an overlap that
    involves a here-document body is marked (bodies gathered too late are a known defect) -/
def gapsOK (s : Str) : Nat → Bool → List (Span × Bool) → List Viol
  | cur, _, [] => if isLayout (s.length + 1) (s.drop cur) then [] else ["trailing-text-not-layout"]
  | cur, prevBody, (p, body) :: rest =>
    (if p.1 < cur then [if prevBody || body then "leaf-overlap+heredoc-body" else "leaf-overlap"] else
      if isLayout (s.length + 1) (Str.slice s cur p.1) then [] else ["gap-not-layout"]) ++
    gapsOK s (max cur p.2) (if p.2 ≥ cur then body else prevBody) rest

/-- C05 on the whole result of `parse` -/
def coverOK (s : Str) (parts : List Node) : List Viol :=
  gapsOK s 0 false (sortSpans (leavesL parts))

end Bashlex.Spec
