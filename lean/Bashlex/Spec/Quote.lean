/-
  C06: shell quote removal as an independent small-step definition, the feature classes in which
  bashlex is known to deviate (each a decidable predicate on the word's source), and a
  transcription of POSIX-mode `shlex.split` for the plain/blank/quote/backslash alphabet.
-/
import Bashlex.Spec.Tree

namespace Bashlex.Spec
open Bashlex

/-- quote state: 0 unquoted, 1 inside '…', 2 inside "…" -/
abbrev QState := Nat

/-- `quoteRemove verbatim t`: the value of the source word `t` after quote removal.
    `verbatim i` says that position `i` lies inside an expansion (`$(…)`, `${…}`, `` `…` ``,
    `<(…)`), whose text is kept as it is, quotes included. -/
def quoteRemoveGo (verbatim : Nat → Bool) : Nat → QState → Nat → Str → Str
  | 0, _, _, _ => []
  | _, _, _, [] => []
  | fuel + 1, st, i, c :: rest =>
    if verbatim i then c :: quoteRemoveGo verbatim fuel st (i + 1) rest
    else match st with
    | 1 => if c == '\'' then quoteRemoveGo verbatim fuel 0 (i + 1) rest
           else c :: quoteRemoveGo verbatim fuel 1 (i + 1) rest
    | 2 =>
      if c == '"' then quoteRemoveGo verbatim fuel 0 (i + 1) rest
      else if c == '\\' then
        match rest with
        | d :: rest' =>
          if d == '\n' then quoteRemoveGo verbatim fuel 2 (i + 2) rest'
          else if d == '$' || d == '`' || d == '"' || d == '\\' then
            d :: quoteRemoveGo verbatim fuel 2 (i + 2) rest'
          else c :: quoteRemoveGo verbatim fuel 2 (i + 1) rest
        | [] => [c]
      else c :: quoteRemoveGo verbatim fuel 2 (i + 1) rest
    | _ =>
      if c == '\\' then
        match rest with
        | d :: rest' =>
          if d == '\n' then quoteRemoveGo verbatim fuel 0 (i + 2) rest'
          else d :: quoteRemoveGo verbatim fuel 0 (i + 2) rest'
        | [] => []
      else if c == '\'' then quoteRemoveGo verbatim fuel 1 (i + 1) rest
      else if c == '"' then quoteRemoveGo verbatim fuel 2 (i + 1) rest
      else c :: quoteRemoveGo verbatim fuel 0 (i + 1) rest

def quoteRemove (verbatim : Nat → Bool) (t : Str) : Str :=
  quoteRemoveGo verbatim (t.length + 1) 0 0 t

/-- features of a word's source in which bashlex's context-free quote stripping is known to
    deviate from quote removal (DESIGN §7 C06, K1–K7); computed with the same state machine -/
structure QFeat where
  k1 : Bool := false   -- starts and ends with ' and has a ' in between
  k2 : Bool := false   -- a '…' segment of a not wholly single-quoted word holds \ or "
  k3 : Bool := false   -- starts with " whose segment ends before the word does, and a ' later
  k4 : Bool := false   -- does not start with ", and a ' occurs inside "…"
  k5 : Bool := false   -- inside "…" a backslash before a character other than $ ` " \ newline
  k6 : Bool := false   -- $'…' or $"…"
  k7 : Bool := false   -- a } inside quotes within ${…}
  deriving Repr

def featGo (verbatimOpen : Nat → Bool) (startsDq : Bool) : Nat → QState → Nat → Str → QFeat → QFeat
  | 0, _, _, _, f => f
  | _, _, _, [], f => f
  | fuel + 1, st, i, c :: rest, f =>
    match st with
    | 1 =>
      if c == '\'' then featGo verbatimOpen startsDq fuel 0 (i + 1) rest f
      else featGo verbatimOpen startsDq fuel 1 (i + 1) rest
        (if c == '\\' || c == '"' then { f with k2 := true } else f)
    | 2 =>
      if c == '"' then featGo verbatimOpen startsDq fuel 0 (i + 1) rest f
      else if c == '\\' then
        match rest with
        | d :: rest' =>
          featGo verbatimOpen startsDq fuel 2 (i + 2) rest'
            (if d == '$' || d == '`' || d == '"' || d == '\\' || d == '\n' then f else { f with k5 := true })
        | [] => f
      else featGo verbatimOpen startsDq fuel 2 (i + 1) rest
        (if c == '\'' then (if startsDq then f else { f with k4 := true }) else f)
    | _ =>
      if c == '\\' then featGo verbatimOpen startsDq fuel 0 (i + 2) (rest.drop 1) f
      else if c == '$' && (rest.head? == some '\'' || rest.head? == some '"') then
        featGo verbatimOpen startsDq fuel 0 (i + 1) rest { f with k6 := true }
      else if c == '\'' then
        featGo verbatimOpen startsDq fuel 1 (i + 1) rest
          (if startsDq && i > 0 then { f with k3 := true } else f)
      else if c == '"' then featGo verbatimOpen startsDq fuel 2 (i + 1) rest f
      else featGo verbatimOpen startsDq fuel 0 (i + 1) rest f

def quoteFeatures (t : Str) : QFeat :=
  let startsDq := t.head? == some '"'
  let f := featGo (fun _ => false) startsDq (t.length + 1) 0 0 t {}
  let inner := (t.drop 1).dropLast
  let f := if t.head? == some '\'' && t.getLast? == some '\'' && t.length ≥ 2 && inner.contains '\'' then
    { f with k1 := true } else f
  -- K2 only concerns words that are not wholly single-quoted
  let f := if t.head? == some '\'' && t.getLast? == some '\'' && !inner.contains '\'' then
    { f with k2 := false } else f
  -- K3: the first "…" segment does not extend to the end of the word
  let f := if startsDq then f else { f with k3 := false }
  f

def QFeat.tags (f : QFeat) : String :=
  (if f.k1 then "+K1" else "") ++ (if f.k2 then "+K2" else "") ++ (if f.k3 then "+K3" else "") ++
  (if f.k4 then "+K4" else "") ++ (if f.k5 then "+K5" else "") ++ (if f.k6 then "+K6" else "") ++
  (if f.k7 then "+K7" else "")

/-! ### POSIX-mode shlex.split on plain characters, blanks, quotes and backslashes -/

/-- `none` = ValueError (no closing quotation / no escaped character) -/
def shlexGo : Nat → QState → Bool → Str → Str → List Str → Option (List Str)
  | 0, _, _, _, _, _ => none
  | _, st, inTok, cur, [], acc =>
    if st != 0 then none else some (if inTok then acc ++ [cur] else acc)
  | fuel + 1, st, inTok, cur, c :: rest, acc =>
    match st with
    | 1 => if c == '\'' then shlexGo fuel 0 true cur rest acc else shlexGo fuel 1 true (cur ++ [c]) rest acc
    | 2 =>
      if c == '"' then shlexGo fuel 0 true cur rest acc
      else if c == '\\' then
        match rest with
        | d :: rest' =>
          if d == '"' || d == '\\' then shlexGo fuel 2 true (cur ++ [d]) rest' acc
          else shlexGo fuel 2 true (cur ++ [c, d]) rest' acc
        | [] => none
      else shlexGo fuel 2 true (cur ++ [c]) rest acc
    | _ =>
      if c == ' ' || c == '\t' || c == '\n' || c == '\r' then
        shlexGo fuel 0 false [] rest (if inTok then acc ++ [cur] else acc)
      else if c == '\\' then
        match rest with
        | d :: rest' => shlexGo fuel 0 true (cur ++ [d]) rest' acc
        | [] => none
      else if c == '\'' then shlexGo fuel 1 true cur rest acc
      else if c == '"' then shlexGo fuel 2 true cur rest acc
      else shlexGo fuel 0 true (cur ++ [c]) rest acc

def shlexSplit (s : Str) : Option (List Str) := shlexGo (s.length + 1) 0 false [] s []

/-- the raw (still quoted) chunks of `s` between unquoted blanks -/
def rawChunksGo : Nat → QState → Str → Str → List Str → List Str
  | 0, _, cur, _, acc => acc ++ [cur]
  | _, _, cur, [], acc => if cur.isEmpty then acc else acc ++ [cur]
  | fuel + 1, st, cur, c :: rest, acc =>
    match st with
    | 1 => rawChunksGo fuel (if c == '\'' then 0 else 1) (cur ++ [c]) rest acc
    | 2 =>
      if c == '\\' then rawChunksGo fuel 2 (cur ++ c :: rest.take 1) (rest.drop 1) acc
      else rawChunksGo fuel (if c == '"' then 0 else 2) (cur ++ [c]) rest acc
    | _ =>
      if c == ' ' || c == '\t' then rawChunksGo fuel 0 [] rest (if cur.isEmpty then acc else acc ++ [cur])
      else if c == '\\' then rawChunksGo fuel 0 (cur ++ c :: rest.take 1) (rest.drop 1) acc
      else rawChunksGo fuel (if c == '\'' then 1 else if c == '"' then 2 else 0) (cur ++ [c]) rest acc

/-- union of the deviation features of the chunks of a `split` input -/
def splitFeatures (s : Str) : QFeat :=
  (rawChunksGo (s.length + 1) 0 [] s []).foldl (fun f ch =>
    let g := quoteFeatures ch
    { k1 := f.k1 || g.k1, k2 := f.k2 || g.k2, k3 := f.k3 || g.k3, k4 := f.k4 || g.k4,
      k5 := f.k5 || g.k5, k6 := f.k6 || g.k6, k7 := f.k7 || g.k7 }) {}


/-- K7: inside a `${…}` (opened outside single quotes) a `}` occurs within quotes.  The shell's
    parameter expansion extends over it, bashlex's `_paramexpand` stops at the first `}`: the two
    disagree about which text is the expansion.  `stack` = quote states saved at each open `${`. -/
def k7Go : Nat → List QState → QState → Str → Bool
  | 0, _, _, _ => false
  | _, _, _, [] => false
  | fuel + 1, stack, st, c :: rest =>
    match st with
    | 1 =>
      if c == '\'' then k7Go fuel stack 0 rest
      else if c == '}' && !stack.isEmpty then true
      else k7Go fuel stack 1 rest
    | 2 =>
      if c == '"' then k7Go fuel stack 0 rest
      else if c == '\\' then k7Go fuel stack 2 (rest.drop 1)
      else if c == '$' && rest.head? == some '{' then k7Go fuel (2 :: stack) 0 (rest.drop 1)
      else if c == '}' && !stack.isEmpty then true
      else k7Go fuel stack 2 rest
    | _ =>
      if c == '\\' then k7Go fuel stack 0 (rest.drop 1)
      else if c == '\'' && stack.head? != some 2 then k7Go fuel stack 1 rest
      else if c == '"' then k7Go fuel stack 2 rest
      else if c == '$' && rest.head? == some '{' then k7Go fuel (0 :: stack) 0 (rest.drop 1)
      else if c == '}' then
        match stack with
        | q :: stack' => k7Go fuel stack' q rest
        | [] => k7Go fuel [] 0 rest
      else k7Go fuel stack 0 rest

def k7 (t : Str) : Bool := k7Go (t.length + 1) [] 0 t

/-- is position `i` (relative to the word start `base`) inside a recorded expansion part that
    is kept verbatim -/
def verbatimOf (base : Nat) (src : Str) (parts : List Node) (i : Nat) : Bool :=
  parts.any fun p =>
    (match p with
     | .commandsubstitution .. | .processsubstitution .. => true
     | .parameter q _ => src[q.1 + 1]? == some '{'
     | _ => false) && p.pos.1 ≤ base + i && base + i < p.pos.2

/-- for every position of `t`: is it inside single quotes (shell scan) -/
def sqMaskGo : QState → Str → List Bool
  | _, [] => []
  | 1, c :: rest => if c == '\'' then false :: sqMaskGo 0 rest else true :: sqMaskGo 1 rest
  | 2, c :: rest =>
    if c == '"' then false :: sqMaskGo 0 rest
    else if c == '\\' then (match rest with | [] => [false] | _ :: rest' => false :: false :: sqMaskGo 2 rest')
    else false :: sqMaskGo 2 rest
  | _, c :: rest =>
    if c == '\\' then (match rest with | [] => [false] | _ :: rest' => false :: false :: sqMaskGo 0 rest')
    else if c == '\'' then false :: sqMaskGo 1 rest
    else if c == '"' then false :: sqMaskGo 2 rest
    else false :: sqMaskGo 0 rest

/-- D6 seen from C06: bashlex recorded an expansion part that starts inside single quotes (single
    quotes protect only a wholly quoted word), so "expansions are kept verbatim" and quote removal
    disagree about that text -/
def partInSingleQuotes (base : Nat) (t : Str) (parts : List Node) : Bool :=
  let mask := sqMaskGo 0 t
  parts.any fun p => base ≤ p.pos.1 && mask.getD (p.pos.1 - base) false

def wordViol (s : Str) (ctx : String) (n : Node) : List Viol :=
  match n with
  | .word p w ps | .assignment p w ps =>
    let t := Str.slice s p.1 p.2
    let want := quoteRemove (verbatimOf p.1 s ps) t
    if w == want then [] else ["value-mismatch" ++ (quoteFeatures t).tags ++ (if k7 t then "+K7" else "") ++
      (if partInSingleQuotes p.1 t ps then "+expansion-in-single-quotes" else "") ++ ctx]
  | _ => []

/-- a line continuation in the sense of the shell: a backslash-newline outside single quotes whose
    backslash is not itself escaped (`"\\\\` + newline is an escaped backslash followed by a newline) -/
def realContGo : QState → Str → Bool
  | _, [] => false
  | 1, c :: rest => if c == '\'' then realContGo 0 rest else realContGo 1 rest
  | 2, c :: rest =>
    if c == '"' then realContGo 0 rest
    else if c == '\\' then (match rest with | [] => false | d :: rest' => d == '\n' || realContGo 2 rest')
    else realContGo 2 rest
  | _, c :: rest =>
    if c == '\\' then (match rest with | [] => false | d :: rest' => d == '\n' || realContGo 0 rest')
    else if c == '\'' then realContGo 1 rest
    else if c == '"' then realContGo 2 rest
    else realContGo 0 rest

mutual
/-- C06 on one tree: every word / assignment value is the quote-removed source under its span.
    Contexts (appended to the signature): `+cont` / `+nlword` as in C04 (spans inside such words
    are unreliable), `+heredoc-delimiter` for the word after `<<` / `<<-`. -/
def quoteOKN (s : Str) (ctx : String) : Node → List Viol
  | n@(.word p _ ps) | n@(.assignment p _ ps) =>
    let t := Str.slice s p.1 p.2
    -- (the flat scan does not follow the quoting context of a `$(…)`: with a substitution part any
    --  backslash-newline counts)
    let ctx' := if realContGo 0 t || (hasContinuation t && ps.any isSubst) then addCtx ctx "+cont" else ctx
    -- D32: a redirection operator glued to the word and followed by a continuation stays in the span
    let ctx' := if endsWith t ['<', '\\'] || endsWith t ['>', '\\'] then addCtx ctx' "+redircont" else ctx'
    let ctxp := if (stripContinuations t).contains '\n' then addCtx ctx' "+nlword" else ctx'
    -- (a continuation inside an expansion is removed from the value although expansions are verbatim)
    wordViol s ctx' n ++ quoteOKL s ctxp ps
  | .commandsubstitution _ c | .processsubstitution _ c => quoteOKN s ctx c
  | .list _ ps | .pipeline _ ps | .ifN _ ps | .forN _ ps | .whileN _ ps | .untilN _ ps
  | .caseN _ ps | .pattern _ ps | .command _ ps | .unimplemented _ ps | .function _ _ _ ps =>
    quoteOKL s ctx ps
  | .compound _ l r => quoteOKL s ctx l ++ quoteOKL s ctx r
  | .redirect _ _ ty o _ _ _ =>
    (match o with
     | some w => quoteOKN s (if ty == "<<".toList || ty == "<<-".toList then addCtx ctx "+heredoc-delimiter" else ctx) w
     | none => [])
  | _ => []
def quoteOKL (s : Str) (ctx : String) : List Node → List Viol
  | [] => []
  | n :: ns => quoteOKN s ctx n ++ quoteOKL s ctx ns
end

end Bashlex.Spec
